import CsVerif.Lemmas.C10
/-! Helper lemmas for C10, continued (core tactics only, no Mathlib).

Part 7: unique readability — FIRST sets are sound (`firstOfItems_sound`, `ntFirst_sound`), alternatives of a rule are
told apart (`form_unique`), repetitions / options stop where the sentence says (`rep_contra`), hence two derivations
with the same sentence are equal (`parts_unique`, `deriv_unique`).
Part 8: the model parser is complete (`parseToks_complete`): the same arguments on token TEXTS, the parser never runs
out of fuel in a non-recursive grammar, the budget of `parseStar` is immaterial.
Part 9: the lookahead check as first written (`ParseWF0`) and three ambiguous tables that pass it. -/
namespace C10
open Grammar (Item Form)

/-! ## Part 7: a sentence has one derivation -/

variable (G : Table)

/-! ### FIRST sets are sound -/

/-- the sentence `y` starts with a token of class in `a`, or is empty and `e` says so -/
def HeadIn (a : List TokClass) (e : Bool) : List Tok → Prop
  | [] => e = true
  | t :: _ => cls t ∈ a

theorem headIn_mono {a b : List TokClass} {e e' : Bool} {y : List Tok} (h : HeadIn b e y)
    (he : e = true → e' = true) : HeadIn (a ++ b) e' y := by
  cases y with
  | nil => exact he h
  | cons t y => exact List.mem_append_right a h

theorem headIn_sub {a b : List TokClass} {e e' : Bool} {y : List Tok} (h : HeadIn a e y)
    (hs : ∀ x ∈ a, x ∈ b) (he : e = true → e' = true) : HeadIn b e' y := by
  cases y with
  | nil => exact he h
  | cons t y => exact hs _ h

theorem headIn_append {a b : List TokClass} {e₁ e : Bool} {y₁ y₂ : List Tok} (h₁ : HeadIn a e₁ y₁)
    (h₂ : y₁ = [] → HeadIn (a ++ b) e y₂) : HeadIn (a ++ b) e (y₁ ++ y₂) := by
  cases y₁ with
  | nil => exact h₂ rfl
  | cons t y => exact List.mem_append_left b h₁

theorem headIn_false {a : List TokClass} {y : List Tok} (h : HeadIn a false y) :
    ∃ t ys, y = t :: ys ∧ cls t ∈ a := by
  cases y with
  | nil => cases h
  | cons t y => exact ⟨t, y, rfl, h⟩

def FirstSound (ofNt : Nat → Option (List TokClass × Bool)) : Prop :=
  ∀ n a e, ofNt n = some (a, e) → ∀ f b, G.has f = true → f.origin = n → wfParts G f.items b = true →
    HeadIn a e b.yield

theorem firstOfItems_sound {ofNt} (hs : FirstSound G ofNt) {p : Parts} {is : List Item} {a e}
    (hf : firstOfItems ofNt is = some (a, e)) (hw : wfParts G is p = true) : HeadIn a e p.yield := by
  induction p generalizing is a e with
  | done =>
    cases is with
    | nil => simp only [firstOfItems, Option.some.injEq, Prod.mk.injEq] at hf; obtain ⟨rfl, rfl⟩ := hf; rfl
    | cons i is => cases i <;> simp [wfParts] at hw
  | kw k r ih =>
    cases is with
    | nil => simp [wfParts] at hw
    | cons i is =>
      cases i <;> simp [wfParts] at hw
      simp only [firstOfItems, Option.some.injEq, Prod.mk.injEq] at hf
      obtain ⟨rfl, rfl⟩ := hf
      simp [Parts.yield, HeadIn, cls, hw.1]
  | tok t s r ih =>
    cases is with
    | nil => simp [wfParts] at hw
    | cons i is =>
      cases i <;> simp [wfParts] at hw
      simp only [firstOfItems, Option.some.injEq, Prod.mk.injEq] at hf
      obtain ⟨rfl, rfl⟩ := hf
      simp [Parts.yield, HeadIn, cls, hw.1]
  | sub f b r ihb ihr =>
    cases is with
    | nil => simp [wfParts] at hw
    | cons i is =>
      cases i with
      | kw k => simp [wfParts] at hw
      | tok t => simp [wfParts] at hw
      | nt n =>
        simp only [wfParts, Bool.and_eq_true, beq_iff_eq] at hw
        obtain ⟨⟨⟨hh, ho⟩, hb⟩, hr⟩ := hw
        simp only [firstOfItems] at hf
        split at hf
        · cases hf
        · rename_i a₁ e₁ hn
          have h1 := hs n a₁ e₁ hn f b hh ho hb
          split at hf
          · rename_i he₁
            cases hr' : firstOfItems ofNt is with
            | none => simp [hr'] at hf
            | some x =>
              obtain ⟨a₂, e₂⟩ := x
              simp only [hr', Option.map_some, Option.some.injEq, Prod.mk.injEq] at hf
              obtain ⟨rfl, rfl⟩ := hf
              exact headIn_append h1 (fun _ => headIn_mono (ihr hr' hr) id)
          · rename_i he₁
            simp only [Option.some.injEq, Prod.mk.injEq] at hf
            obtain ⟨rfl, rfl⟩ := hf
            have he : e₁ = false := by simpa using he₁
            subst he
            obtain ⟨t, ys, hy, ht⟩ := headIn_false h1
            simp [Parts.yield, hy, HeadIn, ht]
      | star n =>
        simp only [wfParts, Bool.and_eq_true, beq_iff_eq] at hw
        obtain ⟨⟨⟨hh, ho⟩, hb⟩, hr⟩ := hw
        have hf0 := hf
        simp only [firstOfItems] at hf
        split at hf
        · cases hf
        · rename_i a₁ e₁ hn
          have h1 := hs n a₁ e₁ hn f b hh ho hb
          cases hr' : firstOfItems ofNt is with
          | none => simp [hr'] at hf
          | some x =>
            obtain ⟨a₂, e₂⟩ := x
            simp only [hr', Option.map_some, Option.some.injEq, Prod.mk.injEq] at hf
            obtain ⟨rfl, rfl⟩ := hf
            exact headIn_append h1 (fun _ => ihr hf0 hr)
      | opt n =>
        simp only [wfParts, Bool.and_eq_true, beq_iff_eq] at hw
        obtain ⟨⟨⟨hh, ho⟩, hb⟩, hr⟩ := hw
        simp only [firstOfItems] at hf
        split at hf
        · cases hf
        · rename_i a₁ e₁ hn
          have h1 := hs n a₁ e₁ hn f b hh ho hb
          cases hr' : firstOfItems ofNt is with
          | none => simp [hr'] at hf
          | some x =>
            obtain ⟨a₂, e₂⟩ := x
            simp only [hr', Option.map_some, Option.some.injEq, Prod.mk.injEq] at hf
            obtain ⟨rfl, rfl⟩ := hf
            exact headIn_append h1 (fun _ => headIn_mono (ihr hr' hr) id)
  | stop r ih =>
    cases is with
    | nil => simp [wfParts] at hw
    | cons i is =>
      cases i with
      | kw k => simp [wfParts] at hw
      | tok t => simp [wfParts] at hw
      | nt n => simp [wfParts] at hw
      | star n =>
        simp only [wfParts] at hw
        simp only [firstOfItems] at hf
        split at hf
        · cases hf
        · rename_i a₁ e₁ hn
          cases hr' : firstOfItems ofNt is with
          | none => simp [hr'] at hf
          | some x =>
            obtain ⟨a₂, e₂⟩ := x
            simp only [hr', Option.map_some, Option.some.injEq, Prod.mk.injEq] at hf
            obtain ⟨rfl, rfl⟩ := hf
            exact headIn_mono (ih hr' hw) id
      | opt n =>
        simp only [wfParts] at hw
        simp only [firstOfItems] at hf
        split at hf
        · cases hf
        · rename_i a₁ e₁ hn
          cases hr' : firstOfItems ofNt is with
          | none => simp [hr'] at hf
          | some x =>
            obtain ⟨a₂, e₂⟩ := x
            simp only [hr', Option.map_some, Option.some.injEq, Prod.mk.injEq] at hf
            obtain ⟨rfl, rfl⟩ := hf
            exact headIn_mono (ih hr' hw) id

/-! ### `ntFirst` is sound at every budget -/

theorem ntFirst_fold {ofNt : Nat → Option (List TokClass × Bool)} (fs : List Form) (acc : Option (List TokClass × Bool))
    {a e} (h : fs.foldl (fun acc f =>
      match acc, firstOfItems ofNt f.items with
      | some (a, e), some (b, e') => some (a ++ b, e || e')
      | _, _ => none) acc = some (a, e)) :
    ∃ a₀ e₀, acc = some (a₀, e₀) ∧ (∀ x ∈ a₀, x ∈ a) ∧ (e₀ = true → e = true) ∧
      ∀ f ∈ fs, ∃ b e', firstOfItems ofNt f.items = some (b, e') ∧ (∀ x ∈ b, x ∈ a) ∧ (e' = true → e = true) := by
  induction fs generalizing acc with
  | nil =>
    simp only [List.foldl_nil] at h
    exact ⟨a, e, h, fun _ hx => hx, id, by simp⟩
  | cons f fs ih =>
    simp only [List.foldl_cons] at h
    obtain ⟨a₁, e₁, hacc, ha, he, hall⟩ := ih _ h
    split at hacc
    · rename_i a₀ e₀ b e' hfi
      simp only [Option.some.injEq, Prod.mk.injEq] at hacc
      obtain ⟨rfl, rfl⟩ := hacc
      refine ⟨a₀, e₀, rfl, fun x hx => ha x (List.mem_append_left _ hx), fun h0 => he (by simp [h0]), ?_⟩
      intro g hg
      simp only [List.mem_cons] at hg
      rcases hg with rfl | hg
      · exact ⟨b, e', hfi, fun x hx => ha x (List.mem_append_right _ hx), fun h0 => he (by simp [h0])⟩
      · exact hall g hg
    · cases hacc

theorem ntFirst_sound (k : Nat) : FirstSound G (ntFirst G k) := by
  induction k with
  | zero => intro n a e h; simp [ntFirst] at h
  | succ k ih =>
    intro n a e h f b hh ho hb
    simp only [ntFirst] at h
    obtain ⟨_, _, _, _, _, hall⟩ := ntFirst_fold _ _ h
    obtain ⟨bs, e', hfi, hsub, he⟩ := hall f (by simp [mem_of_has G hh, ho])
    exact headIn_sub (firstOfItems_sound G ih hfi hb) hsub he

/-! ### unique readability -/

theorem has_inj {f g : Form} (hf : G.has f = true) (hg : G.has g = true) (h : f.id = g.id) : f = g := by
  unfold Table.has at hf hg
  have h1 := beq_iff_eq.mp hf
  have h2 := beq_iff_eq.mp hg
  rw [h] at h1
  rw [h1] at h2
  exact Option.some.inj h2

theorem disjointToks_false {a b : List TokClass} (h : disjointToks a b = true) {x : TokClass} (ha : x ∈ a)
    (hb : x ∈ b) : False := by
  unfold disjointToks at h
  have := List.all_eq_true.mp h x ha
  simp [hb] at this

theorem heads_eq {t t' : Tok} {y y' z z' : List Tok} (h : (t :: y) ++ z = (t' :: y') ++ z') : t = t' := by
  simp only [List.cons_append, List.cons.injEq] at h
  exact h.1


theorem altsApart_contra {ofNt} (hs : FirstSound G ofNt) {x y : List Item} {p q : Parts} {z₁ z₂ : List Tok}
    (h : altsApart disjointToks (firstOfItems ofNt) x y = true) (hp : wfParts G x p = true) (hq : wfParts G y q = true)
    (hy : p.yield ++ z₁ = q.yield ++ z₂) : False := by
  fun_induction altsApart disjointToks (firstOfItems ofNt) x y generalizing p q with
  | case1 a x b y ih =>
    cases p <;> simp [wfParts] at hp
    cases q <;> simp [wfParts] at hq
    rename_i k r k' r'
    obtain ⟨rfl, hp⟩ := hp
    obtain ⟨rfl, hq⟩ := hq
    simp only [Parts.yield, List.cons_append, List.cons.injEq, Tok.kw.injEq] at hy
    simp only [Bool.or_eq_true, bne_iff_ne, ne_eq] at h
    rcases h with h | h
    · exact h hy.1
    · exact ih h hp hq hy.2
  | case2 x y hneg A ea B eb hy' hx =>
    simp only [Bool.and_eq_true, Bool.not_eq_true'] at h
    obtain ⟨⟨rfl, rfl⟩, hd⟩ := h
    obtain ⟨t, ys, e1, ht⟩ := headIn_false (firstOfItems_sound G hs hx hp)
    obtain ⟨t', ys', e2, ht'⟩ := headIn_false (firstOfItems_sound G hs hy' hq)
    rw [e1, e2] at hy
    have := heads_eq hy
    subst this
    exact disjointToks_false hd ht ht'
  | case3 x y hneg hno => cases h

/-- two derivations by forms of the same rule whose sentences start alike use the same form -/
theorem form_unique {ofNt} (hs : FirstSound G ofNt)
    (hA : ∀ f ∈ G.forms, ∀ g ∈ G.forms, f.origin = g.origin → f.id ≠ g.id →
      altsApart disjointToks (firstOfItems ofNt) f.items g.items = true)
    {f g : Form} {b b' : Parts} {z₁ z₂ : List Tok} (hf : G.has f = true) (hg : G.has g = true)
    (ho : f.origin = g.origin) (hb : wfParts G f.items b = true) (hb' : wfParts G g.items b' = true)
    (hy : b.yield ++ z₁ = b'.yield ++ z₂) : f = g := by
  by_cases hid : f.id = g.id
  · exact has_inj G hf hg hid
  · exact (altsApart_contra G hs (hA f (mem_of_has G hf) g (mem_of_has G hg) ho hid) hb hb' hy).elim

/-! contexts -/

theorem useContexts_go_suffix (m : Nat) (pre : List Item) {is : List Item} {c : List Item} (h : c ∈ useContexts.go m is) :
    c ∈ useContexts.go m (pre ++ is) := by
  induction pre with
  | nil => exact h
  | cons i pre ih =>
    cases i <;> simp only [List.cons_append, useContexts.go, List.mem_append] <;> exact Or.inr ih

theorem mem_useContexts {m : Nat} {h : Form} {pre is c : List Item} (hh : h ∈ G.forms) (hi : h.items = pre ++ is)
    (hc : c ∈ useContexts.go m is) : c ∈ useContexts G m := by
  unfold useContexts
  simp only [List.mem_flatMap]
  exact ⟨h, hh, by rw [hi]; exact useContexts_go_suffix m pre hc⟩

theorem repsOK_suffix {dj first ofNt ctx} (pre : List Item) {is : List Item}
    (h : repsOK dj first ofNt ctx (pre ++ is) = true) : repsOK dj first ofNt ctx is = true := by
  induction pre with
  | nil => exact h
  | cons i pre ih =>
    cases i <;> simp only [List.cons_append, repsOK, Bool.and_eq_true] at h
    · exact ih h
    · exact ih h
    · exact ih h
    · exact ih h.2
    · exact ih h.2

/-- `z` may follow a sentence of nonterminal `m`: nothing, or something that starts with a sentence of one of the
contexts `m` is used in -/
def Adm (m : Nat) (z : List Tok) : Prop :=
  z = [] ∨ ∃ c ∈ useContexts G m, ∃ q z', wfParts G c q = true ∧ z = q.yield ++ z'

/-- a repetition / option cannot both go on (with a sentence of `n`) and stop -/
theorem rep_contra {ofNt} (hs : FirstSound G ofNt) {m n : Nat} {rest : List Item}
    (hrep : repsOK.repOK disjointToks (firstOfItems ofNt) ofNt (useContexts G m) n rest = true)
    {f : Form} {b : Parts} (hh : G.has f = true) (ho : f.origin = n) (hb : wfParts G f.items b = true)
    {r : Parts} (hr : wfParts G rest r = true) {x z : List Tok} (hz : Adm G m z)
    (hy : b.yield ++ x = r.yield ++ z) : False := by
  unfold repsOK.repOK at hrep
  split at hrep
  · rename_i a en bs eb hn hrest
    simp only [Bool.and_eq_true, Bool.not_eq_true', Bool.or_eq_true, List.all_eq_true] at hrep
    obtain ⟨⟨rfl, hd⟩, hctx⟩ := hrep
    obtain ⟨t, ys, e1, ht⟩ := headIn_false (hs n a false hn f b hh ho hb)
    have h2 := firstOfItems_sound G hs hrest hr
    cases hry : r.yield with
    | cons t' ys' =>
      rw [hry] at h2
      rw [e1, hry] at hy
      have := heads_eq hy
      subst this
      exact disjointToks_false hd ht h2
    | nil =>
      rw [hry] at h2
      have heb : eb = true := h2
      rw [e1, hry] at hy
      simp only [List.cons_append, List.nil_append] at hy
      rcases hz with rfl | ⟨c, hc, q, z', hq, rfl⟩
      · cases hy
      · rcases hctx with hctx | hctx
        · simp [heb] at hctx
        · have := hctx c hc
          split at this
          · rename_i cf ce hcf
            simp only [Bool.and_eq_true, Bool.not_eq_true'] at this
            obtain ⟨rfl, hd'⟩ := this
            obtain ⟨t'', ys'', e3, ht''⟩ := headIn_false (firstOfItems_sound G hs hcf hq)
            rw [e3] at hy
            simp only [List.cons_append, List.cons.injEq] at hy
            obtain ⟨rfl, _⟩ := hy
            exact disjointToks_false hd' ht ht''
          · cases this
  · cases hrep

theorem repOK_of_star {dj first ofNt ctx} {n : Nat} {rest : List Item}
    (h : repsOK dj first ofNt ctx (.star n :: rest) = true) : repsOK.repOK dj first ofNt ctx n rest = true := by
  simp only [repsOK, Bool.and_eq_true] at h; exact h.1

theorem repOK_of_opt {dj first ofNt ctx} {n : Nat} {rest : List Item}
    (h : repsOK dj first ofNt ctx (.opt n :: rest) = true) : repsOK.repOK dj first ofNt ctx n rest = true := by
  simp only [repsOK, Bool.and_eq_true] at h; exact h.1

/-- Two derivations of the same item list (a suffix of a form of `m`) whose sentences, continued by admissible
followers, agree, are equal — and so are the followers. -/
theorem parts_unique {ofNt} (hs : FirstSound G ofNt)
    (hA : ∀ f ∈ G.forms, ∀ g ∈ G.forms, f.origin = g.origin → f.id ≠ g.id →
      altsApart disjointToks (firstOfItems ofNt) f.items g.items = true)
    (hR : ∀ f ∈ G.forms, repsOK disjointToks (firstOfItems ofNt) ofNt (useContexts G f.origin) f.items = true)
    (p₁ : Parts) : ∀ (is : List Item) (p₂ : Parts) (z₁ z₂ : List Tok) (h : Form) (pre : List Item),
      h ∈ G.forms → h.items = pre ++ is → wfParts G is p₁ = true → wfParts G is p₂ = true →
      p₁.yield ++ z₁ = p₂.yield ++ z₂ → Adm G h.origin z₁ → Adm G h.origin z₂ → p₁ = p₂ ∧ z₁ = z₂ := by
  induction p₁ with
  | done =>
    intro is p₂ z₁ z₂ h pre hh hi h1 h2 hy a1 a2
    cases is with
    | nil =>
      cases p₂ <;> simp [wfParts] at h2
      exact ⟨rfl, by simpa [Parts.yield] using hy⟩
    | cons i is => cases i <;> simp [wfParts] at h1
  | kw k r ih =>
    intro is p₂ z₁ z₂ h pre hh hi h1 h2 hy a1 a2
    cases is with
    | nil => simp [wfParts] at h1
    | cons i is =>
      cases i <;> simp [wfParts] at h1
      rename_i k'
      cases p₂ <;> simp [wfParts] at h2
      obtain ⟨rfl, h1⟩ := h1
      obtain ⟨rfl, h2⟩ := h2
      simp only [Parts.yield, List.cons_append, List.cons.injEq, true_and] at hy
      obtain ⟨e1, e2⟩ := ih is _ z₁ z₂ h (pre ++ [.kw k']) hh (by simp [hi]) h1 h2 hy a1 a2
      subst e1
      exact ⟨rfl, e2⟩
  | tok t s r ih =>
    intro is p₂ z₁ z₂ h pre hh hi h1 h2 hy a1 a2
    cases is with
    | nil => simp [wfParts] at h1
    | cons i is =>
      cases i <;> simp [wfParts] at h1
      rename_i t'
      cases p₂ <;> simp [wfParts] at h2
      obtain ⟨rfl, h1⟩ := h1
      obtain ⟨rfl, h2⟩ := h2
      simp only [Parts.yield, List.cons_append, List.cons.injEq, Tok.named.injEq, true_and] at hy
      obtain ⟨rfl, hy⟩ := hy
      obtain ⟨e1, e2⟩ := ih is _ z₁ z₂ h (pre ++ [.tok t']) hh (by simp [hi]) h1 h2 hy a1 a2
      subst e1
      exact ⟨rfl, e2⟩
  | sub f b r₁ ihb ihr =>
    intro is p₂ z₁ z₂ h pre hh hi h1 h2 hy a1 a2
    cases is with
    | nil => simp [wfParts] at h1
    | cons i is =>
      cases i with
      | kw k => simp [wfParts] at h1
      | tok t => simp [wfParts] at h1
      | nt n =>
        cases p₂ <;> simp [wfParts] at h2
        rename_i g b' r₂
        simp only [wfParts, Bool.and_eq_true, beq_iff_eq] at h1
        obtain ⟨⟨⟨hf, hof⟩, hb⟩, hr₁⟩ := h1
        obtain ⟨⟨⟨hg, hog⟩, hb'⟩, hr₂⟩ := h2
        simp only [Parts.yield, List.append_assoc] at hy
        have hfg := form_unique G hs hA hf hg (hof.trans hog.symm) hb hb' hy
        subst hfg
        have hc : is ∈ useContexts G f.origin :=
          mem_useContexts G hh hi (by rw [hof]; simp [useContexts.go, usesNt])
        obtain ⟨e1, e2⟩ := ihb f.items b' (r₁.yield ++ z₁) (r₂.yield ++ z₂) f [] (mem_of_has G hf) (by simp) hb hb' hy
          (Or.inr ⟨is, hc, r₁, z₁, hr₁, rfl⟩) (Or.inr ⟨is, hc, r₂, z₂, hr₂, rfl⟩)
        subst e1
        obtain ⟨e3, e4⟩ := ihr is r₂ z₁ z₂ h (pre ++ [.nt n]) hh (by simp [hi]) hr₁ hr₂ e2 a1 a2
        subst e3
        exact ⟨rfl, e4⟩
      | star n =>
        simp only [wfParts, Bool.and_eq_true, beq_iff_eq] at h1
        obtain ⟨⟨⟨hf, hof⟩, hb⟩, hr₁⟩ := h1
        cases p₂ <;> simp [wfParts] at h2
        · rename_i g b' r₂
          obtain ⟨⟨⟨hg, hog⟩, hb'⟩, hr₂⟩ := h2
          simp only [Parts.yield, List.append_assoc] at hy
          have hfg := form_unique G hs hA hf hg (hof.trans hog.symm) hb hb' hy
          subst hfg
          have hc : (.star n :: is) ∈ useContexts G f.origin :=
            mem_useContexts G hh hi (by rw [hof]; simp [useContexts.go])
          obtain ⟨e1, e2⟩ := ihb f.items b' (r₁.yield ++ z₁) (r₂.yield ++ z₂) f [] (mem_of_has G hf) (by simp) hb hb' hy
            (Or.inr ⟨_, hc, r₁, z₁, hr₁, rfl⟩) (Or.inr ⟨_, hc, r₂, z₂, hr₂, rfl⟩)
          subst e1
          obtain ⟨e3, e4⟩ := ihr (.star n :: is) r₂ z₁ z₂ h pre hh hi hr₁ hr₂ e2 a1 a2
          subst e3
          exact ⟨rfl, e4⟩
        · rename_i r₂
          simp only [Parts.yield, List.append_assoc] at hy
          have hrep := repOK_of_star (repsOK_suffix pre (hi ▸ hR h hh))
          exact (rep_contra G hs hrep hf hof hb h2 a2 hy).elim
      | opt n =>
        simp only [wfParts, Bool.and_eq_true, beq_iff_eq] at h1
        obtain ⟨⟨⟨hf, hof⟩, hb⟩, hr₁⟩ := h1
        cases p₂ <;> simp [wfParts] at h2
        · rename_i g b' r₂
          obtain ⟨⟨⟨hg, hog⟩, hb'⟩, hr₂⟩ := h2
          simp only [Parts.yield, List.append_assoc] at hy
          have hfg := form_unique G hs hA hf hg (hof.trans hog.symm) hb hb' hy
          subst hfg
          have hc : is ∈ useContexts G f.origin :=
            mem_useContexts G hh hi (by rw [hof]; simp [useContexts.go, usesNt])
          obtain ⟨e1, e2⟩ := ihb f.items b' (r₁.yield ++ z₁) (r₂.yield ++ z₂) f [] (mem_of_has G hf) (by simp) hb hb' hy
            (Or.inr ⟨_, hc, r₁, z₁, hr₁, rfl⟩) (Or.inr ⟨_, hc, r₂, z₂, hr₂, rfl⟩)
          subst e1
          obtain ⟨e3, e4⟩ := ihr is r₂ z₁ z₂ h (pre ++ [.opt n]) hh (by simp [hi]) hr₁ hr₂ e2 a1 a2
          subst e3
          exact ⟨rfl, e4⟩
        · rename_i r₂
          simp only [Parts.yield, List.append_assoc] at hy
          have hrep := repOK_of_opt (repsOK_suffix pre (hi ▸ hR h hh))
          exact (rep_contra G hs hrep hf hof hb h2 a2 hy).elim
  | stop r₁ ih =>
    intro is p₂ z₁ z₂ h pre hh hi h1 h2 hy a1 a2
    cases is with
    | nil => simp [wfParts] at h1
    | cons i is =>
      cases i with
      | kw k => simp [wfParts] at h1
      | tok t => simp [wfParts] at h1
      | nt n => simp [wfParts] at h1
      | star n =>
        simp only [wfParts] at h1
        cases p₂ <;> simp [wfParts] at h2
        · rename_i g b' r₂
          obtain ⟨⟨⟨hg, hog⟩, hb'⟩, hr₂⟩ := h2
          simp only [Parts.yield, List.append_assoc] at hy
          have hrep := repOK_of_star (repsOK_suffix pre (hi ▸ hR h hh))
          exact (rep_contra G hs hrep hg hog hb' h1 a1 hy.symm).elim
        · rename_i r₂
          simp only [Parts.yield] at hy
          obtain ⟨e1, e2⟩ := ih is r₂ z₁ z₂ h (pre ++ [.star n]) hh (by simp [hi]) h1 h2 hy a1 a2
          subst e1
          exact ⟨rfl, e2⟩
      | opt n =>
        simp only [wfParts] at h1
        cases p₂ <;> simp [wfParts] at h2
        · rename_i g b' r₂
          obtain ⟨⟨⟨hg, hog⟩, hb'⟩, hr₂⟩ := h2
          simp only [Parts.yield, List.append_assoc] at hy
          have hrep := repOK_of_opt (repsOK_suffix pre (hi ▸ hR h hh))
          exact (rep_contra G hs hrep hg hog hb' h1 a1 hy.symm).elim
        · rename_i r₂
          simp only [Parts.yield] at hy
          obtain ⟨e1, e2⟩ := ih is r₂ z₁ z₂ h (pre ++ [.opt n]) hh (by simp [hi]) h1 h2 hy a1 a2
          subst e1
          exact ⟨rfl, e2⟩

theorem parseWF_alts (h : ParseWF G = true) : ∀ f ∈ G.forms, ∀ g ∈ G.forms, f.origin = g.origin → f.id ≠ g.id →
    altsApart disjointToks (firstOfItems (ntFirst G 12)) f.items g.items = true := by
  intro f hf g hg ho hid
  unfold ParseWF parseWFWith at h
  simp only [Bool.and_eq_true, List.all_eq_true] at h
  have := h.1 f hf g hg
  simpa [ho, hid] using this

theorem parseWF_reps (h : ParseWF G = true) : ∀ f ∈ G.forms,
    repsOK disjointToks (firstOfItems (ntFirst G 12)) (ntFirst G 12) (useContexts G f.origin) f.items = true := by
  intro f hf
  unfold ParseWF parseWFWith at h
  simp only [Bool.and_eq_true, List.all_eq_true] at h
  exact h.2 f hf

/-- derivations are determined by their nonterminal and their sentence -/
theorem deriv_unique (hp : ParseWF G = true) {d₁ d₂ : Deriv} (h1 : d₁.WF G = true) (h2 : d₂.WF G = true)
    (ho : d₁.form.origin = d₂.form.origin) (hy : d₁.yield = d₂.yield) : d₁ = d₂ := by
  obtain ⟨f, b⟩ := d₁
  obtain ⟨g, b'⟩ := d₂
  simp only [Deriv.WF, Bool.and_eq_true] at h1 h2
  simp only [Deriv.yield] at hy
  have hs := ntFirst_sound G 12
  have hy' : b.yield ++ [] = b'.yield ++ [] := by simpa using hy
  have hfg : f = g := form_unique G hs (parseWF_alts G hp) h1.1 h2.1 ho h1.2 h2.2 hy'
  subst hfg
  obtain ⟨e, _⟩ := parts_unique G hs (parseWF_alts G hp) (parseWF_reps G hp) b f.items b' [] [] f []
    (mem_of_has G h1.1) (by simp) h1.2 h2.2 hy' (Or.inl rfl) (Or.inl rfl)
  subst e
  rfl

/-! ## Part 8: the model parser is complete -/

/-! ### token texts and token classes -/

theorem overlap_of_accepts {x y : TokClass} {w : Text} (hx : accepts G x w = true) (hy : accepts G y w = true) :
    overlap G x y = true := by
  cases x with
  | kw k =>
    cases y with
    | kw k' =>
      simp only [accepts, beq_iff_eq] at hx hy
      simp [overlap, hx, hy]
    | named t =>
      simp only [accepts, beq_iff_eq] at hx hy
      simp [overlap, hx, hy]
  | named t =>
    cases y with
    | kw k =>
      simp only [accepts, beq_iff_eq] at hx hy
      simp [overlap, hx, hy]
    | named t' =>
      simp only [accepts] at hx hy
      simp only [overlap, Bool.or_eq_true, beq_iff_eq, Bool.not_eq_true']
      by_cases htt : t = t'
      · exact Or.inl htt
      · right
        unfold Table.matchTerm at hx hy
        unfold termsApart
        cases h1 : G.terminals.lookup t with
        | none => simp [h1] at hx
        | some o1 =>
          cases h2 : G.terminals.lookup t' with
          | none => simp [h2] at hy
          | some o2 =>
            simp only [h1, h2] at hx hy ⊢
            cases o1 with
            | none =>
              cases o2 with
              | none => rfl
              | some a' =>
                simp only [beq_iff_eq, List.contains_eq_mem, decide_eq_true_eq] at hx hy
                simp only [List.all_eq_false]
                exact ⟨w, hy, by simp [hx]⟩
            | some a =>
              cases o2 with
              | none =>
                simp only [beq_iff_eq, List.contains_eq_mem, decide_eq_true_eq] at hx hy
                simp only [List.all_eq_false]
                exact ⟨w, hx, by simp [hy]⟩
              | some a' =>
                simp only [List.contains_eq_mem, decide_eq_true_eq] at hx hy
                simp only [List.all_eq_false]
                exact ⟨w, hx, by simp [hy]⟩

theorem disjointTexts_false {a b : List TokClass} (h : disjointTexts G a b = true) {x y : TokClass} {w : Text}
    (ha : x ∈ a) (hb : y ∈ b) (hx : accepts G x w = true) (hy : accepts G y w = true) : False := by
  unfold disjointTexts at h
  have := List.all_eq_true.mp (List.all_eq_true.mp h x ha) y hb
  simp [overlap_of_accepts G hx hy] at this

theorem distinctTexts_inj {l : List Text} (h : distinctTexts l = true) {i j : Nat} {w : Text} (h1 : l[i]? = some w)
    (h2 : l[j]? = some w) : i = j := by
  induction l generalizing i j with
  | nil => simp at h1
  | cons k ks ih =>
    simp only [distinctTexts, Bool.and_eq_true, Bool.not_eq_true', List.contains_eq_mem, decide_eq_false_iff_not] at h
    cases i with
    | zero =>
      cases j with
      | zero => rfl
      | succ j =>
        simp only [List.getElem?_cons_zero, Option.some.injEq, List.getElem?_cons_succ] at h1 h2
        subst h1
        exact (h.1 (List.mem_of_getElem? h2)).elim
    | succ i =>
      cases j with
      | zero =>
        simp only [List.getElem?_cons_zero, Option.some.injEq, List.getElem?_cons_succ] at h1 h2
        subst h2
        exact (h.1 (List.mem_of_getElem? h1)).elim
      | succ j =>
        simp only [List.getElem?_cons_succ] at h1 h2
        rw [ih h.2 h1 h2]

theorem kwsDistinct_inj (h : KwsDistinct G = true) {k k' : Nat} {w : Text} (h1 : G.keywords[k]? = some w)
    (h2 : G.keywords[k']? = some w) : k = k' :=
  distinctTexts_inj h h1 h2

/-- the token texts of a sentence are all `tokOK` -/
def ToksOK (ts : List Tok) : Prop := ∀ t ∈ ts, tokOK G t = true

theorem toksOK_append {a b : List Tok} : ToksOK G (a ++ b) ↔ ToksOK G a ∧ ToksOK G b := by
  unfold ToksOK
  simp only [List.mem_append]
  constructor
  · intro h; exact ⟨fun t ht => h t (Or.inl ht), fun t ht => h t (Or.inr ht)⟩
  · rintro ⟨h1, h2⟩ t (ht | ht)
    · exact h1 t ht
    · exact h2 t ht

theorem toksOK_cons {t : Tok} {b : List Tok} : ToksOK G (t :: b) ↔ tokOK G t = true ∧ ToksOK G b := by
  unfold ToksOK
  simp

theorem toksOK_nil : ToksOK G [] := by intro t ht; cases ht

theorem tokOK_accepts {t : Tok} (h : tokOK G t = true) : accepts G (cls t) (G.tokText t) = true := h

theorem tokOK_kw {k : Nat} (h : tokOK G (.kw k) = true) : G.keywords[k]? = some (G.tokText (.kw k)) := by
  simpa [tokOK, accepts, cls] using h

/-! ### what the parser returns is `tokOK` -/

def PnOK (pn : Nat → List Text → PR (Form × Parts × List Text)) : Prop :=
  ∀ n toks f b r, pn n toks = .ok (f, b, r) → ToksOK G b.yield

theorem parseStar_tokOK {pn} (hp : PnOK G pn) (n : Nat) (b : Nat) (toks : List Text) {ds r}
    (h : parseStar pn n b toks = .ok (ds, r)) : ∀ d ∈ ds, ToksOK G d.2.yield := by
  induction b generalizing toks ds r with
  | zero => simp only [parseStar, PR.ok.injEq, Prod.mk.injEq] at h; obtain ⟨rfl, rfl⟩ := h; simp
  | succ b ih =>
    simp only [parseStar] at h
    split at h
    · rename_i f body rest hpn
      have h1 := hp _ _ _ _ _ hpn
      split at h
      · split at h
        · rename_i ds' r' hrec
          simp only [PR.ok.injEq, Prod.mk.injEq] at h
          obtain ⟨rfl, rfl⟩ := h
          intro d hd
          simp only [List.mem_cons] at hd
          rcases hd with rfl | hd
          · exact h1
          · exact ih rest hrec d hd
        · cases h
        · cases h
      · simp only [PR.ok.injEq, Prod.mk.injEq] at h; obtain ⟨rfl, rfl⟩ := h; simp
    · simp only [PR.ok.injEq, Prod.mk.injEq] at h; obtain ⟨rfl, rfl⟩ := h; simp
    · cases h

theorem starParts_tokOK {ds : List (Form × Parts)} {tail : Parts} (hd : ∀ d ∈ ds, ToksOK G d.2.yield)
    (ht : ToksOK G tail.yield) : ToksOK G (starParts ds tail).yield := by
  rw [starParts_yield]
  rw [toksOK_append]
  refine ⟨?_, ht⟩
  intro t htm
  simp only [List.mem_flatMap] at htm
  obtain ⟨d, hdm, htd⟩ := htm
  exact hd d hdm t htd

theorem parseItems_tokOK {pn} (hp : PnOK G pn) (is : List Item) (toks : List Text) {p r}
    (h : parseItems G pn is toks = .ok (p, r)) : ToksOK G p.yield := by
  induction is generalizing toks p r with
  | nil =>
    simp only [parseItems, PR.ok.injEq, Prod.mk.injEq] at h
    obtain ⟨rfl, rfl⟩ := h
    exact toksOK_nil G
  | cons i is ih =>
    cases i with
    | kw k =>
      cases toks with
      | nil => simp [parseItems] at h
      | cons t toks =>
        simp only [parseItems] at h
        split at h
        · rename_i hk
          obtain ⟨p', hp', rfl⟩ := mapParts_ok h
          have hk' := beq_iff_eq.mp hk
          simp only [Parts.yield, toksOK_cons]
          refine ⟨?_, ih toks hp'⟩
          simp [tokOK, accepts, cls, Table.tokText, hk']
        · cases h
    | tok t =>
      cases toks with
      | nil => simp [parseItems] at h
      | cons x toks =>
        simp only [parseItems] at h
        split at h
        · rename_i hm
          obtain ⟨p', hp', rfl⟩ := mapParts_ok h
          simp only [Parts.yield, toksOK_cons]
          refine ⟨?_, ih toks hp'⟩
          simpa [tokOK, accepts, cls, Table.tokText] using hm
        · cases h
    | nt n =>
      simp only [parseItems] at h
      split at h
      · rename_i f b r' hpn
        obtain ⟨p', hp', rfl⟩ := mapParts_ok h
        simp only [Parts.yield, toksOK_append]
        exact ⟨hp _ _ _ _ _ hpn, ih r' hp'⟩
      · cases h
      · cases h
    | star n =>
      simp only [parseItems] at h
      split at h
      · rename_i ds r' hs
        obtain ⟨p', hp', rfl⟩ := mapParts_ok h
        exact starParts_tokOK G (parseStar_tokOK G hp n _ toks hs) (ih r' hp')
      · cases h
      · cases h
    | opt n =>
      simp only [parseItems] at h
      split at h
      · rename_i f b r' hpn
        obtain ⟨p', hp', rfl⟩ := mapParts_ok h
        simp only [Parts.yield, toksOK_append]
        exact ⟨hp _ _ _ _ _ hpn, ih r' hp'⟩
      · obtain ⟨p', hp', rfl⟩ := mapParts_ok h
        simpa [Parts.yield] using ih toks hp'
      · cases h

theorem parseNt_tokOK (fuel : Nat) : PnOK G (parseNt G fuel) := by
  induction fuel with
  | zero => intro n toks f b r h; simp [parseNt] at h
  | succ fuel ih =>
    intro n toks f b r h
    simp only [parseNt] at h
    obtain ⟨g, hg, hpg⟩ := firstForm_ok h
    split at hpg
    · split at hpg
      · rename_i p r' hpi
        simp only [PR.ok.injEq, Prod.mk.injEq] at hpg
        obtain ⟨rfl, rfl, rfl⟩ := hpg
        exact parseItems_tokOK G ih _ _ hpi
      · cases hpg
      · cases hpg
    · cases hpg

theorem parseToks_tokOK {toks : List Text} {d : Deriv} (h : parseToks G toks = .ok d) : ToksOK G d.yield := by
  unfold parseToks at h
  split at h
  · rename_i f p hp
    cases h
    exact parseNt_tokOK G _ _ _ _ _ _ hp
  all_goals cases h

/-! ### in a non-recursive grammar the parser never runs out of fuel -/

def NoFuelAt (pn : Nat → List Text → PR (Form × Parts × List Text)) (n : Nat) : Prop := ∀ toks, pn n toks ≠ .fuel

theorem parseStar_noFuel {pn} {n : Nat} (hn : NoFuelAt pn n) (b : Nat) (toks : List Text) :
    parseStar pn n b toks ≠ .fuel := by
  induction b generalizing toks with
  | zero => simp [parseStar]
  | succ b ih =>
    simp only [parseStar]
    split
    · rename_i f body rest hpn
      split
      · have := ih rest
        split <;> simp_all
      · simp
    · simp
    · rename_i hpn; exact (hn toks hpn).elim

theorem mapParts_noFuel {f : Parts → Parts} {x : PR (Parts × List Text)} (h : x ≠ .fuel) : x.mapParts f ≠ .fuel := by
  cases x with
  | ok a => obtain ⟨p, r⟩ := a; simp [PR.mapParts]
  | fail => simp [PR.mapParts]
  | fuel => exact (h rfl).elim

theorem parseItems_noFuel {pn} (is : List Item) (hn : ∀ i ∈ is, ∀ m, itemNt i = some m → NoFuelAt pn m)
    (toks : List Text) : parseItems G pn is toks ≠ .fuel := by
  induction is generalizing toks with
  | nil => simp [parseItems]
  | cons i is ih =>
    have ih' := ih (fun j hj => hn j (List.mem_cons_of_mem _ hj))
    cases i with
    | kw k =>
      cases toks with
      | nil => simp [parseItems]
      | cons t toks =>
        simp only [parseItems]
        split
        · exact mapParts_noFuel (ih' toks)
        · simp
    | tok t =>
      cases toks with
      | nil => simp [parseItems]
      | cons x toks =>
        simp only [parseItems]
        split
        · exact mapParts_noFuel (ih' toks)
        · simp
    | nt n =>
      have hnn := hn (.nt n) (by simp) n rfl
      simp only [parseItems]
      split
      · exact mapParts_noFuel (ih' _)
      · simp
      · rename_i hpn; exact (hnn toks hpn).elim
    | star n =>
      have hnn := hn (.star n) (by simp) n rfl
      simp only [parseItems]
      split
      · exact mapParts_noFuel (ih' _)
      · simp
      · rename_i hpn; exact (parseStar_noFuel hnn _ _ hpn).elim
    | opt n =>
      have hnn := hn (.opt n) (by simp) n rfl
      simp only [parseItems]
      split
      · exact mapParts_noFuel (ih' _)
      · exact mapParts_noFuel (ih' _)
      · rename_i hpn; exact (hnn toks hpn).elim

theorem firstForm_noFuel {α} {p : Form → PR α} {fs : List Form} (h : ∀ f ∈ fs, p f ≠ .fuel) :
    firstForm p fs ≠ .fuel := by
  induction fs with
  | nil => simp [firstForm]
  | cons f fs ih =>
    simp only [firstForm]
    split
    · simp
    · rename_i hp; exact (h f (by simp) hp).elim
    · exact ih (fun g hg => h g (List.mem_cons_of_mem _ hg))

theorem depthOK_items {k n : Nat} (h : depthOK G (k + 1) n = true) {f : Form} (hf : f ∈ G.forms) (ho : f.origin = n) :
    ∀ i ∈ f.items, ∀ m, itemNt i = some m → depthOK G k m = true := by
  intro i hi m hm
  simp only [depthOK, List.all_eq_true, Bool.or_eq_true, bne_iff_ne, ne_eq] at h
  rcases h f hf with h | h
  · exact (h ho).elim
  · have := h i hi
    simpa [hm] using this

theorem parseNt_noFuel (k : Nat) : ∀ n, depthOK G k n = true → NoFuelAt (parseNt G k) n := by
  induction k with
  | zero => intro n h; simp [depthOK] at h
  | succ k ih =>
    intro n h toks
    simp only [parseNt]
    apply firstForm_noFuel
    intro f hf
    split
    · rename_i ho
      have := parseItems_noFuel G (pn := parseNt G k) f.items
        (fun i hi m hm => ih m (depthOK_items G h hf (by simpa using ho) i hi m hm)) toks
      split <;> simp_all
    · simp

/-! ### the budget of `parseStar` does not matter once it covers the input -/

theorem parseStar_budget {pn} {n : Nat} (hn : NoFuelAt pn n) (b₁ : Nat) : ∀ (b₂ : Nat) (toks : List Text),
    toks.length ≤ b₁ → toks.length ≤ b₂ → parseStar pn n b₁ toks = parseStar pn n b₂ toks := by
  induction b₁ with
  | zero =>
    intro b₂ toks h1 h2
    have : toks = [] := List.eq_nil_of_length_eq_zero (by omega)
    subst this
    cases b₂ with
    | zero => rfl
    | succ b =>
      simp only [parseStar]
      split
      · simp
      · rfl
      · rename_i hpn; exact (hn _ hpn).elim
  | succ b ih =>
    intro b₂ toks h1 h2
    cases b₂ with
    | zero =>
      have : toks = [] := List.eq_nil_of_length_eq_zero (by omega)
      subst this
      simp only [parseStar]
      split
      · simp
      · rfl
      · rename_i hpn; exact (hn _ hpn).elim
    | succ b' =>
      simp only [parseStar]
      split
      · rename_i f body rest hpn
        split
        · rename_i hlt
          rw [ih b' rest (by omega) (by omega)]
        · rfl
      · rfl
      · rfl

/-! ### the lookahead arguments of `Lemmas/C10U` once more, on token TEXTS -/

theorem texts_cons (t : Tok) (ts : List Tok) : texts G (t :: ts) = G.tokText t :: texts G ts := rfl
theorem texts_nil : texts G [] = [] := rfl
theorem texts_append (a b : List Tok) : texts G (a ++ b) = texts G a ++ texts G b := by simp [texts]

theorem altsApart_contraT {ofNt} (hs : FirstSound G ofNt) (hk : KwsDistinct G = true) {x y : List Item}
    {p q : Parts} {z₁ z₂ : List Text}
    (h : altsApart (disjointTexts G) (firstOfItems ofNt) x y = true) (hp : wfParts G x p = true)
    (hq : wfParts G y q = true) (okp : ToksOK G p.yield) (okq : ToksOK G q.yield)
    (hy : texts G p.yield ++ z₁ = texts G q.yield ++ z₂) : False := by
  fun_induction altsApart (disjointTexts G) (firstOfItems ofNt) x y generalizing p q with
  | case1 a x b y ih =>
    cases p <;> simp [wfParts] at hp
    cases q <;> simp [wfParts] at hq
    rename_i k r k' r'
    obtain ⟨rfl, hp⟩ := hp
    obtain ⟨rfl, hq⟩ := hq
    simp only [Parts.yield, toksOK_cons] at okp okq
    simp only [Parts.yield, texts_cons, List.cons_append, List.cons.injEq] at hy
    have hab : a = b := kwsDistinct_inj G hk (tokOK_kw G okp.1) (hy.1 ▸ tokOK_kw G okq.1)
    simp only [Bool.or_eq_true, bne_iff_ne, ne_eq] at h
    rcases h with h | h
    · exact h hab
    · exact ih h hp hq okp.2 okq.2 hy.2
  | case2 x y hneg A ea B eb hy' hx =>
    simp only [Bool.and_eq_true, Bool.not_eq_true'] at h
    obtain ⟨⟨rfl, rfl⟩, hd⟩ := h
    obtain ⟨t, ys, e1, ht⟩ := headIn_false (firstOfItems_sound G hs hx hp)
    obtain ⟨t', ys', e2, ht'⟩ := headIn_false (firstOfItems_sound G hs hy' hq)
    rw [e1] at okp
    rw [e2] at okq
    rw [e1, e2] at hy
    simp only [texts_cons, List.cons_append, List.cons.injEq] at hy
    have a1 := tokOK_accepts G ((toksOK_cons G).mp okp).1
    have a2 := tokOK_accepts G ((toksOK_cons G).mp okq).1
    rw [hy.1] at a1
    exact disjointTexts_false G hd ht ht' a1 a2
  | case3 x y hneg hno => cases h

/-- `z` (token texts) may follow a sentence of nonterminal `m` -/
def AdmT (m : Nat) (z : List Text) : Prop :=
  z = [] ∨ ∃ c ∈ useContexts G m, ∃ q z', wfParts G c q = true ∧ ToksOK G q.yield ∧ z = texts G q.yield ++ z'

theorem rep_contraT {ofNt} (hs : FirstSound G ofNt) {m n : Nat} {rest : List Item}
    (hrep : repsOK.repOK (disjointTexts G) (firstOfItems ofNt) ofNt (useContexts G m) n rest = true)
    {f : Form} {b : Parts} (hh : G.has f = true) (ho : f.origin = n) (hb : wfParts G f.items b = true)
    (okb : ToksOK G b.yield) {r : Parts} (hr : wfParts G rest r = true) (okr : ToksOK G r.yield)
    {x z : List Text} (hz : AdmT G m z) (hy : texts G b.yield ++ x = texts G r.yield ++ z) : False := by
  unfold repsOK.repOK at hrep
  split at hrep
  · rename_i a en bs eb hn hrest
    simp only [Bool.and_eq_true, Bool.not_eq_true', Bool.or_eq_true, List.all_eq_true] at hrep
    obtain ⟨⟨rfl, hd⟩, hctx⟩ := hrep
    obtain ⟨t, ys, e1, ht⟩ := headIn_false (hs n a false hn f b hh ho hb)
    rw [e1] at okb
    have a1 := tokOK_accepts G ((toksOK_cons G).mp okb).1
    have h2 := firstOfItems_sound G hs hrest hr
    cases hry : r.yield with
    | cons t' ys' =>
      rw [hry] at h2 okr
      rw [e1, hry] at hy
      simp only [texts_cons, List.cons_append, List.cons.injEq] at hy
      have a2 := tokOK_accepts G ((toksOK_cons G).mp okr).1
      rw [hy.1] at a1
      exact disjointTexts_false G hd ht h2 a1 a2
    | nil =>
      rw [hry] at h2
      have heb : eb = true := h2
      rw [e1, hry] at hy
      simp only [texts_cons, texts_nil, List.cons_append, List.nil_append] at hy
      rcases hz with rfl | ⟨c, hc, q, z', hq, okq, rfl⟩
      · cases hy
      · rcases hctx with hctx | hctx
        · simp [heb] at hctx
        · have := hctx c hc
          split at this
          · rename_i cf ce hcf
            simp only [Bool.and_eq_true, Bool.not_eq_true'] at this
            obtain ⟨rfl, hd'⟩ := this
            obtain ⟨t'', ys'', e3, ht''⟩ := headIn_false (firstOfItems_sound G hs hcf hq)
            rw [e3] at hy okq
            simp only [texts_cons, List.cons_append, List.cons.injEq] at hy
            have a2 := tokOK_accepts G ((toksOK_cons G).mp okq).1
            rw [hy.1] at a1
            exact disjointTexts_false G hd' ht ht'' a1 a2
          · cases this
  · cases hrep

/-! ### completeness of `parseItems` -/

theorem parseStar_step {pn} {n : Nat} (hn : NoFuelAt pn n) {toks R : List Text} {f : Form} {b : Parts}
    (hpn : pn n toks = .ok (f, b, R)) (hlt : R.length < toks.length) :
    parseStar pn n toks.length toks =
      match parseStar pn n R.length R with
      | .ok (ds, r) => .ok ((f, b) :: ds, r)
      | .fail => .fail
      | .fuel => .fuel := by
  cases hl : toks.length with
  | zero => omega
  | succ bud =>
    simp only [parseStar, hpn]
    rw [if_pos hlt, parseStar_budget hn bud R.length R (by omega) (Nat.le_refl _)]
    cases parseStar pn n R.length R with
    | ok a => obtain ⟨ds, r⟩ := a; rfl
    | fail => rfl
    | fuel => rfl

theorem parseStar_stop {pn} {n : Nat} {toks : List Text} (hpn : pn n toks = .fail) (bud : Nat) :
    parseStar pn n bud toks = .ok ([], toks) := by
  cases bud with
  | zero => rfl
  | succ bud => simp [parseStar, hpn]

theorem parseItems_star_step {pn} {n : Nat} (hn : NoFuelAt pn n) {is : List Item} {toks R z : List Text} {f : Form}
    {b r : Parts} (hpn : pn n toks = .ok (f, b, R)) (hlt : R.length < toks.length)
    (h : parseItems G pn (.star n :: is) R = .ok (r, z)) :
    parseItems G pn (.star n :: is) toks = .ok (.sub f b r, z) := by
  simp only [parseItems] at h ⊢
  rw [parseStar_step hn hpn hlt]
  split at h
  · rename_i ds r' hs
    obtain ⟨p', hp', rfl⟩ := mapParts_ok h
    simp [hs, hp', PR.mapParts, starParts]
  · cases h
  · cases h

theorem parseItems_star_stop {pn} {n : Nat} {is : List Item} {toks : List Text} (hpn : pn n toks = .fail) :
    parseItems G pn (.star n :: is) toks = (parseItems G pn is toks).mapParts Parts.stop := by
  simp only [parseItems, parseStar_stop hpn]
  rfl

theorem repOK_nonempty {dj ofNt ctx} (hs : FirstSound G ofNt) {n : Nat} {rest : List Item}
    (hrep : repsOK.repOK dj (firstOfItems ofNt) ofNt ctx n rest = true)
    {f : Form} {b : Parts} (hh : G.has f = true) (ho : f.origin = n) (hb : wfParts G f.items b = true) :
    ∃ t ys, b.yield = t :: ys := by
  unfold repsOK.repOK at hrep
  split at hrep
  · rename_i a en bs eb hn hrest
    simp only [Bool.and_eq_true, Bool.not_eq_true'] at hrep
    obtain ⟨⟨rfl, _⟩, _⟩ := hrep
    obtain ⟨t, ys, e1, _⟩ := headIn_false (hs n a false hn f b hh ho hb)
    exact ⟨t, ys, e1⟩
  · cases hrep

/-- `pn` parses every sentence of nonterminal `m`, in every admissible context, to the derivation it came from -/
def PnCompleteAt (pn : Nat → List Text → PR (Form × Parts × List Text)) (m : Nat) : Prop :=
  ∀ f b, G.has f = true → f.origin = m → wfParts G f.items b = true → ToksOK G b.yield →
    ∀ z, AdmT G m z → pn m (texts G b.yield ++ z) = .ok (f, b, z)

/-- when a repetition / option stops, the nonterminal parser fails on what follows -/
theorem pn_fails_at_stop {ofNt} (hs : FirstSound G ofNt) {pn} (hsound : PnSound G pn) (hok : PnOK G pn)
    {m n : Nat} {rest : List Item}
    (hrep : repsOK.repOK (disjointTexts G) (firstOfItems ofNt) ofNt (useContexts G m) n rest = true)
    (hnf : NoFuelAt pn n) {r : Parts} (hr : wfParts G rest r = true) (okr : ToksOK G r.yield) {z : List Text}
    (hz : AdmT G m z) : pn n (texts G r.yield ++ z) = .fail := by
  cases hpn : pn n (texts G r.yield ++ z) with
  | fail => rfl
  | fuel => exact (hnf _ hpn).elim
  | ok a =>
    obtain ⟨f', b', r'⟩ := a
    obtain ⟨h1, h2, h3, h4⟩ := hsound _ _ _ _ _ hpn
    exact (rep_contraT G hs hrep h1 h2 h3 (hok _ _ _ _ _ hpn) hr okr hz h4.symm).elim

theorem parseItems_complete {ofNt} (hs : FirstSound G ofNt) {pn} (hsound : PnSound G pn) (hok : PnOK G pn)
    {h : Form} (hh : h ∈ G.forms)
    (hR : repsOK (disjointTexts G) (firstOfItems ofNt) ofNt (useContexts G h.origin) h.items = true)
    (p : Parts) : ∀ (is pre : List Item), h.items = pre ++ is →
      (∀ i ∈ is, ∀ m, itemNt i = some m → PnCompleteAt G pn m ∧ NoFuelAt pn m) →
      wfParts G is p = true → ToksOK G p.yield → ∀ z, AdmT G h.origin z →
      parseItems G pn is (texts G p.yield ++ z) = .ok (p, z) := by
  induction p with
  | done =>
    intro is pre hi hgood hw okp z hz
    cases is with
    | nil => simp [parseItems, Parts.yield, texts]
    | cons i is => cases i <;> simp [wfParts] at hw
  | kw k r ih =>
    intro is pre hi hgood hw okp z hz
    cases is with
    | nil => simp [wfParts] at hw
    | cons i is =>
      cases i <;> simp [wfParts] at hw
      rename_i k'
      obtain ⟨rfl, hw⟩ := hw
      simp only [Parts.yield, toksOK_cons] at okp
      have hrec := ih is (pre ++ [.kw k']) (by simp [hi]) (fun j hj => hgood j (List.mem_cons_of_mem _ hj)) hw okp.2 z hz
      simp only [Parts.yield, texts_cons, List.cons_append, parseItems, tokOK_kw G okp.1, beq_self_eq_true, if_true, hrec]
      rfl
  | tok t s r ih =>
    intro is pre hi hgood hw okp z hz
    cases is with
    | nil => simp [wfParts] at hw
    | cons i is =>
      cases i <;> simp [wfParts] at hw
      rename_i t'
      obtain ⟨rfl, hw⟩ := hw
      simp only [Parts.yield, toksOK_cons] at okp
      have hrec := ih is (pre ++ [.tok t']) (by simp [hi]) (fun j hj => hgood j (List.mem_cons_of_mem _ hj)) hw okp.2 z hz
      have hm : G.matchTerm t' s = true := by simpa [tokOK, accepts, cls, Table.tokText] using okp.1
      simp only [Parts.yield, texts_cons, List.cons_append, parseItems, Table.tokText, hm, if_true, hrec]
      rfl
  | sub f b r ihb ihr =>
    intro is pre hi hgood hw okp z hz
    cases is with
    | nil => simp [wfParts] at hw
    | cons i is =>
      have hgood' := fun j hj => hgood j (List.mem_cons_of_mem i hj)
      simp only [Parts.yield, toksOK_append] at okp
      have hsplit : texts G (Parts.sub f b r).yield ++ z = texts G b.yield ++ (texts G r.yield ++ z) := by
        simp [Parts.yield, texts_append]
      rw [hsplit]
      cases i with
      | kw k => simp [wfParts] at hw
      | tok t => simp [wfParts] at hw
      | nt n =>
        simp only [wfParts, Bool.and_eq_true, beq_iff_eq] at hw
        obtain ⟨⟨⟨hf, hof⟩, hb⟩, hr⟩ := hw
        obtain ⟨hc, _⟩ := hgood (.nt n) (by simp) n rfl
        have hctx : is ∈ useContexts G n := mem_useContexts G hh hi (by simp [useContexts.go, usesNt])
        have hpn := hc f b hf hof hb okp.1 (texts G r.yield ++ z) (Or.inr ⟨is, hctx, r, z, hr, okp.2, rfl⟩)
        have hrec := ihr is (pre ++ [.nt n]) (by simp [hi]) hgood' hr okp.2 z hz
        simp only [parseItems, hpn, hrec]
        rfl
      | star n =>
        simp only [wfParts, Bool.and_eq_true, beq_iff_eq] at hw
        obtain ⟨⟨⟨hf, hof⟩, hb⟩, hr⟩ := hw
        obtain ⟨hc, hnf⟩ := hgood (.star n) (by simp) n rfl
        have hctx : (.star n :: is) ∈ useContexts G n := mem_useContexts G hh hi (by simp [useContexts.go])
        have hpn := hc f b hf hof hb okp.1 (texts G r.yield ++ z) (Or.inr ⟨_, hctx, r, z, hr, okp.2, rfl⟩)
        have hrec := ihr (.star n :: is) pre hi hgood hr okp.2 z hz
        have hrep := repOK_of_star (repsOK_suffix pre (hi ▸ hR))
        obtain ⟨t, ys, hy⟩ := repOK_nonempty G hs hrep hf hof hb
        exact parseItems_star_step G hnf hpn (by simp [hy, texts]; omega) hrec
      | opt n =>
        simp only [wfParts, Bool.and_eq_true, beq_iff_eq] at hw
        obtain ⟨⟨⟨hf, hof⟩, hb⟩, hr⟩ := hw
        obtain ⟨hc, _⟩ := hgood (.opt n) (by simp) n rfl
        have hctx : is ∈ useContexts G n := mem_useContexts G hh hi (by simp [useContexts.go, usesNt])
        have hpn := hc f b hf hof hb okp.1 (texts G r.yield ++ z) (Or.inr ⟨is, hctx, r, z, hr, okp.2, rfl⟩)
        have hrec := ihr is (pre ++ [.opt n]) (by simp [hi]) hgood' hr okp.2 z hz
        simp only [parseItems, hpn, hrec]
        rfl
  | stop r ih =>
    intro is pre hi hgood hw okp z hz
    cases is with
    | nil => simp [wfParts] at hw
    | cons i is =>
      have hgood' := fun j hj => hgood j (List.mem_cons_of_mem i hj)
      simp only [Parts.yield] at okp ⊢
      cases i with
      | kw k => simp [wfParts] at hw
      | tok t => simp [wfParts] at hw
      | nt n => simp [wfParts] at hw
      | star n =>
        simp only [wfParts] at hw
        obtain ⟨_, hnf⟩ := hgood (.star n) (by simp) n rfl
        have hrep := repOK_of_star (repsOK_suffix pre (hi ▸ hR))
        have hfail := pn_fails_at_stop G hs hsound hok hrep hnf hw okp hz
        have hrec := ih is (pre ++ [.star n]) (by simp [hi]) hgood' hw okp z hz
        rw [parseItems_star_stop G hfail, hrec]
        rfl
      | opt n =>
        simp only [wfParts] at hw
        obtain ⟨_, hnf⟩ := hgood (.opt n) (by simp) n rfl
        have hrep := repOK_of_opt (repsOK_suffix pre (hi ▸ hR))
        have hfail := pn_fails_at_stop G hs hsound hok hrep hnf hw okp hz
        have hrec := ih is (pre ++ [.opt n]) (by simp [hi]) hgood' hw okp z hz
        simp only [parseItems, hfail, hrec]
        rfl

/-! ### completeness of `parseNt` and `parseToks` -/

theorem firstForm_select {α} {p : Form → PR α} {fs : List Form} {f : Form} {a : α} (hf : f ∈ fs) (hp : p f = .ok a)
    (hothers : ∀ g ∈ fs, g ≠ f → p g = .fail) : firstForm p fs = .ok a := by
  induction fs with
  | nil => cases hf
  | cons g fs ih =>
    by_cases hgf : g = f
    · subst hgf
      simp [firstForm, hp]
    · have hg := hothers g (by simp) hgf
      simp only [firstForm, hg]
      have hf' : f ∈ fs := by
        simp only [List.mem_cons] at hf
        rcases hf with rfl | hf
        · exact (hgf rfl).elim
        · exact hf
      exact ih hf' (fun g' hg' => hothers g' (List.mem_cons_of_mem _ hg'))

theorem parseWFT_kws (h : ParseWFT G = true) : KwsDistinct G = true := by
  unfold ParseWFT at h
  simp only [Bool.and_eq_true] at h
  exact h.1

theorem parseWFT_alts (h : ParseWFT G = true) : ∀ f ∈ G.forms, ∀ g ∈ G.forms, f.origin = g.origin → f.id ≠ g.id →
    altsApart (disjointTexts G) (firstOfItems (ntFirst G 12)) f.items g.items = true := by
  intro f hf g hg ho hid
  unfold ParseWFT parseWFWith at h
  simp only [Bool.and_eq_true, List.all_eq_true] at h
  have := h.2.1 f hf g hg
  simpa [ho, hid] using this

theorem parseWFT_reps (h : ParseWFT G = true) : ∀ f ∈ G.forms,
    repsOK (disjointTexts G) (firstOfItems (ntFirst G 12)) (ntFirst G 12) (useContexts G f.origin) f.items = true := by
  intro f hf
  unfold ParseWFT parseWFWith at h
  simp only [Bool.and_eq_true, List.all_eq_true] at h
  exact h.2.2 f hf

theorem parseNt_complete (hp : ParseWFT G = true) (hi : IdsOK G = true) (k : Nat) :
    ∀ n, depthOK G k n = true → PnCompleteAt G (parseNt G k) n := by
  induction k with
  | zero => intro n h; simp [depthOK] at h
  | succ k ih =>
    intro n hd f b hf ho hb okb z hz
    subst ho
    have hs := ntFirst_sound G 12
    have hfm := mem_of_has G hf
    simp only [parseNt]
    apply firstForm_select hfm
    · have := parseItems_complete G hs (parseNt_sound G hi k) (parseNt_tokOK G k) hfm (parseWFT_reps G hp f hfm) b
        f.items [] (by simp)
        (fun i hi' m hm =>
          have hdm := depthOK_items G hd hfm rfl i hi' m hm
          ⟨ih m hdm, parseNt_noFuel G k m hdm⟩)
        hb okb z hz
      simp [this]
    · intro g hg hgf
      split
      · rename_i hog
        have hog' : g.origin = f.origin := by simpa using hog
        cases hpi : parseItems G (parseNt G k) g.items (texts G b.yield ++ z) with
        | fail => rfl
        | fuel =>
          exact (parseItems_noFuel G (pn := parseNt G k) g.items
            (fun i hi' m hm => parseNt_noFuel G k m (depthOK_items G hd hg hog' i hi' m hm)) _ hpi).elim
        | ok a =>
          obtain ⟨p', r'⟩ := a
          obtain ⟨w1, w2⟩ := parseItems_sound G (parseNt_sound G hi k) _ _ hpi
          have ok' := parseItems_tokOK G (parseNt_tokOK G k) _ _ hpi
          have hid : g.id ≠ f.id := fun e => hgf (has_inj G (idsOK_has G hi hg) hf e)
          exact (altsApart_contraT G hs (parseWFT_kws G hp) (parseWFT_alts G hp g hg f hfm hog' hid) w1 hb ok' okb
            w2.symm).elim
      · rfl

/-- The model parser is complete: the token texts of a well-formed derivation from the start symbol parse back to
that very derivation. -/
theorem parseToks_complete (hp : ParseWFT G = true) (hi : IdsOK G = true) (hdep : DepthOK G = true) {d : Deriv}
    (hd : d.WF G = true) (hstart : d.form.origin = G.start) (hok : ToksOK G d.yield) :
    parseToks G (texts G d.yield) = .ok d := by
  obtain ⟨f, b⟩ := d
  simp only [Deriv.WF, Bool.and_eq_true] at hd
  have := parseNt_complete G hp hi (G.forms.length + 1) G.start hdep f b hd.1 hstart hd.2 hok [] (Or.inl rfl)
  simp only [List.append_nil] at this
  simp [parseToks, Deriv.yield, this]

/-! ## Part 9: the lookahead check as first written was too weak -/

/-- `useContexts` as first written: the context of `m*` did not include a further `m` -/
def useContexts0 (G : Table) (m : Nat) : List (List Item) :=
  G.forms.flatMap fun h => go h.items
where
  go : List Item → List (List Item)
    | [] => []
    | i :: rest => (if usesNt m i then [rest] else []) ++ go rest

/-- `repsOK` as first written: a nullable rule was allowed under `?` -/
def repsOK0 (first : List Item → Option (List TokClass × Bool))
    (ofNt : Nat → Option (List TokClass × Bool)) (ctx : List (List Item)) : List Item → Bool
  | [] => true
  | .star n :: rest => repOK n true rest && repsOK0 first ofNt ctx rest
  | .opt n :: rest => repOK n false rest && repsOK0 first ofNt ctx rest
  | _ :: rest => repsOK0 first ofNt ctx rest
where
  repOK (n : Nat) (isStar : Bool) (rest : List Item) : Bool :=
    match ofNt n, first rest with
    | some (a, en), some (b, eb) =>
      !(isStar && en) && disjointToks a b &&
        (!eb || ctx.all fun c =>
          match first c with
          | some (cf, ce) => !ce && disjointToks a cf
          | none => false)
    | _, _ => false

/-- `ParseWF` as first written: the start symbol was assumed to occur in no form -/
def ParseWF0 (G : Table) : Bool :=
  let ofNt := ntFirst G 12
  let first := firstOfItems ofNt
  (G.forms.all fun f => G.forms.all fun g =>
    f.origin != g.origin || f.id == g.id || altsApart disjointToks first f.items g.items) &&
  (G.forms.all fun f => repsOK0 first ofNt (if f.origin == G.start then [] else useContexts0 G f.origin) f.items)

/-- `S → A*`, `A → "a" | "(" S A* ")"`: the start symbol is used again inside `A`, where an `A` can follow it -/
def cex1 : Table :=
  ⟨[⟨0, 0, none, [.star 1]⟩, ⟨1, 1, none, [.kw 0]⟩, ⟨2, 1, none, [.kw 1, .nt 0, .star 1, .kw 2]⟩],
   [[97], [40], [41]], [], 0, []⟩

/-- `( a )` read as `( S[a] )` -/
def cex1_d1 : Deriv := ⟨⟨0, 0, none, [.star 1]⟩,
  .sub ⟨2, 1, none, [.kw 1, .nt 0, .star 1, .kw 2]⟩
    (.kw 1 (.sub ⟨0, 0, none, [.star 1]⟩ (.sub ⟨1, 1, none, [.kw 0]⟩ (.kw 0 .done) (.stop .done)) (.stop (.kw 2 .done))))
    (.stop .done)⟩

/-- `( a )` read as `( S[] a )` -/
def cex1_d2 : Deriv := ⟨⟨0, 0, none, [.star 1]⟩,
  .sub ⟨2, 1, none, [.kw 1, .nt 0, .star 1, .kw 2]⟩
    (.kw 1 (.sub ⟨0, 0, none, [.star 1]⟩ (.stop .done) (.sub ⟨1, 1, none, [.kw 0]⟩ (.kw 0 .done) (.stop (.kw 2 .done)))))
    (.stop .done)⟩

/-- `S → B? ";"`, `B → C*`, `C → "c"`: an optional part that can be empty -/
def cex2 : Table :=
  ⟨[⟨0, 0, none, [.opt 1, .kw 1]⟩, ⟨1, 1, none, [.star 2]⟩, ⟨2, 2, none, [.kw 0]⟩], [[99], [59]], [], 0, []⟩

/-- `;` read as `B[] ;` -/
def cex2_d1 : Deriv := ⟨⟨0, 0, none, [.opt 1, .kw 1]⟩, .sub ⟨1, 1, none, [.star 2]⟩ (.stop .done) (.kw 1 .done)⟩

/-- `;` read without a `B` -/
def cex2_d2 : Deriv := ⟨⟨0, 0, none, [.opt 1, .kw 1]⟩, .stop (.kw 1 .done)⟩

/-- `S → M* ";"`, `M → "m" N*`, `N → "m"`: a repeated rule that ends with a repetition -/
def cex3 : Table :=
  ⟨[⟨0, 0, none, [.star 1, .kw 1]⟩, ⟨1, 1, none, [.kw 0, .star 2]⟩, ⟨2, 2, none, [.kw 0]⟩], [[109], [59]], [], 0, []⟩

/-- `m m ;` read as `M[m N[m]] ;` -/
def cex3_d1 : Deriv := ⟨⟨0, 0, none, [.star 1, .kw 1]⟩,
  .sub ⟨1, 1, none, [.kw 0, .star 2]⟩ (.kw 0 (.sub ⟨2, 2, none, [.kw 0]⟩ (.kw 0 .done) (.stop .done))) (.stop (.kw 1 .done))⟩

/-- `m m ;` read as `M[m] M[m] ;` -/
def cex3_d2 : Deriv := ⟨⟨0, 0, none, [.star 1, .kw 1]⟩,
  .sub ⟨1, 1, none, [.kw 0, .star 2]⟩ (.kw 0 (.stop .done))
    (.sub ⟨1, 1, none, [.kw 0, .star 2]⟩ (.kw 0 (.stop .done)) (.stop (.kw 1 .done)))⟩

/-- what makes a pair of derivations a counterexample to unique readability of table `G` -/
def Ambiguous (G : Table) (d₁ d₂ : Deriv) : Prop :=
  IdsOK G = true ∧ d₁.WF G = true ∧ d₂.WF G = true ∧ d₁.form.origin = G.start ∧ d₂.form.origin = G.start ∧
    d₁.yield = d₂.yield ∧ toTree d₁ ≠ toTree d₂

instance (G : Table) (d₁ d₂ : Deriv) : Decidable (Ambiguous G d₁ d₂) := by unfold Ambiguous; infer_instance

end C10

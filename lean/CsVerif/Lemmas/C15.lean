import CsVerif.Model.C15
/-! Helper lemmas for C15 (core Lean only, no Mathlib). -/
namespace C15

theorem sorted_ext : ∀ (l1 l2 : List Nat), l1.Pairwise (· < ·) → l2.Pairwise (· < ·) →
    (∀ x, x ∈ l1 ↔ x ∈ l2) → l1 = l2
  | [], [], _, _, _ => rfl
  | [], b :: l2, _, _, h => by have := (h b).2 (by simp); simp at this
  | a :: l1, [], _, _, h => by have := (h a).1 (by simp); simp at this
  | a :: l1, b :: l2, h1, h2, h => by
    rw [List.pairwise_cons] at h1 h2
    have hab : a = b := by
      have ha := (h a).1 (by simp)
      have hb := (h b).2 (by simp)
      simp only [List.mem_cons] at ha hb
      rcases ha with ha | ha
      · exact ha
      · rcases hb with hb | hb
        · exact hb.symm
        · have := h1.1 b hb; have := h2.1 a ha; omega
    subst hab
    congr 1
    apply sorted_ext l1 l2 h1.2 h2.2
    intro x
    constructor
    · intro hx
      have := (h x).1 (by simp [hx])
      simp only [List.mem_cons] at this
      rcases this with rfl | this
      · have := h1.1 x hx; omega
      · exact this
    · intro hx
      have := (h x).2 (by simp [hx])
      simp only [List.mem_cons] at this
      rcases this with rfl | this
      · have := h2.1 x hx; omega
      · exact this

theorem mem_occ {hay needle : Bytes} {i : Nat} :
    i ∈ occ hay needle ↔ i + needle.length ≤ hay.length ∧ (hay.drop i).take needle.length = needle := by
  unfold occ
  simp only [List.mem_filter, List.mem_range, beq_iff_eq]
  constructor
  · rintro ⟨h1, h2⟩
    refine ⟨?_, h2⟩
    have := congrArg List.length h2
    simp only [List.length_take, List.length_drop] at this
    omega
  · rintro ⟨h1, h2⟩
    exact ⟨by omega, h2⟩

theorem occ_sorted (hay needle : Bytes) : (occ hay needle).Pairwise (· < ·) := by
  unfold occ
  exact List.Pairwise.filter _ List.pairwise_lt_range

theorem occ_lt {hay needle : Bytes} {i : Nat} (h : i ∈ occ hay needle) : i + needle.length ≤ hay.length :=
  (mem_occ.1 h).1

theorem zero_mem_occ {hay needle : Bytes} : 0 ∈ occ hay needle ↔ needle.isPrefixOf hay = true := by
  rw [mem_occ, List.isPrefixOf_iff_prefix, List.prefix_iff_eq_take]
  simp only [Nat.zero_add, List.drop_zero]
  constructor
  · rintro ⟨_, h⟩; exact h.symm
  · intro h
    refine ⟨?_, h.symm⟩
    have := congrArg List.length h
    simp only [List.length_take] at this
    omega

theorem succ_mem_occ {x : UInt8} {t needle : Bytes} {j : Nat} :
    j + 1 ∈ occ (x :: t) needle ↔ j ∈ occ t needle := by
  rw [mem_occ, mem_occ]
  simp only [List.length_cons, List.drop_succ_cons]
  constructor <;> rintro ⟨h1, h2⟩ <;> exact ⟨by omega, h2⟩

theorem findAux_some {needle : Bytes} : ∀ {hay : Bytes} {i r : Nat}, findAux needle hay i = some r →
    ∃ j, r = i + j ∧ j ∈ occ hay needle ∧ ∀ j' ∈ occ hay needle, j ≤ j'
  | [], i, r, h => by
    unfold findAux at h
    split at h
    · rename_i hp
      injection h with h
      exact ⟨0, by omega, zero_mem_occ.2 hp, fun _ _ => Nat.zero_le _⟩
    · simp at h
  | x :: t, i, r, h => by
    unfold findAux at h
    split at h
    · rename_i hp
      injection h with h
      exact ⟨0, by omega, zero_mem_occ.2 hp, fun _ _ => Nat.zero_le _⟩
    · rename_i hp
      obtain ⟨j, hj, hm, hmin⟩ := findAux_some (hay := t) h
      refine ⟨j + 1, by omega, succ_mem_occ.2 hm, ?_⟩
      intro j' hj'
      cases j' with
      | zero => exact absurd (zero_mem_occ.1 hj') hp
      | succ j'' => have := hmin j'' (succ_mem_occ.1 hj'); omega

theorem findAux_none {needle : Bytes} : ∀ {hay : Bytes} {i : Nat}, findAux needle hay i = none →
    ∀ j, j ∉ occ hay needle
  | [], i, h, j, hj => by
    unfold findAux at h
    split at h
    · simp at h
    · rename_i hp
      have h0 := (mem_occ.1 hj).1
      simp only [List.length_nil] at h0
      have : j = 0 := by omega
      subst this
      exact hp (zero_mem_occ.1 hj)
  | x :: t, i, h, j, hj => by
    unfold findAux at h
    split at h
    · simp at h
    · rename_i hp
      cases j with
      | zero => exact hp (zero_mem_occ.1 hj)
      | succ j' => exact findAux_none (hay := t) h j' (succ_mem_occ.1 hj)
theorem mem_occ_drop {hay needle : Bytes} {s j : Nat} (hs : s ≤ hay.length) :
    j ∈ occ (hay.drop s) needle ↔ s + j ∈ occ hay needle := by
  rw [mem_occ, mem_occ]
  simp only [List.length_drop, List.drop_drop]
  constructor <;> rintro ⟨h1, h2⟩ <;> exact ⟨by omega, h2⟩

theorem bytesFind?_some {hay needle : Bytes} {s r : Nat} (h : bytesFind? hay needle s = some r) :
    r ∈ occ hay needle ∧ s ≤ r ∧ ∀ j ∈ occ hay needle, s ≤ j → r ≤ j := by
  unfold bytesFind? at h
  split at h
  · simp at h
  · rename_i hs
    obtain ⟨j, rfl, hm, hmin⟩ := findAux_some h
    have hs' : s ≤ hay.length := by omega
    refine ⟨(mem_occ_drop hs').1 hm, by omega, ?_⟩
    intro j' hj' hsj
    have : j' = s + (j' - s) := by omega
    rw [this] at hj'
    have := hmin _ ((mem_occ_drop hs').2 hj')
    omega

theorem bytesFind?_none {hay needle : Bytes} {s : Nat} (h : bytesFind? hay needle s = none) :
    ∀ j ∈ occ hay needle, j < s := by
  intro j hj
  unfold bytesFind? at h
  split at h
  · have := (mem_occ.1 hj).1; omega
  · rename_i hs
    have hs' : s ≤ hay.length := by omega
    apply Classical.byContradiction
    intro hlt
    have : j = s + (j - s) := by omega
    rw [this] at hj
    exact findAux_none h _ ((mem_occ_drop hs').2 hj)

/-- `find_enumerates`, general form with the `p > max_offset` cut. -/
theorem findLoop_eq (d needle : Bytes) (maxOff pos sl start : Nat) :
    findLoop d needle maxOff pos sl start
      = ((occ d needle).filter (fun p => start ≤ p ∧ (maxOff = 0 ∨ p ≤ maxOff))).map
          (fun (p : Nat) => (pos : Int) + (p : Int) - (sl : Int)) := by
  fun_induction findLoop d needle maxOff pos sl start with
  | case1 start h =>
    have hn := bytesFind?_none h
    have : (occ d needle).filter (fun p => start ≤ p ∧ (maxOff = 0 ∨ p ≤ maxOff)) = [] := by
      rw [List.filter_eq_nil_iff]
      intro p hp
      have := hn p hp
      simp only [decide_eq_true_eq]; omega
    rw [this]; rfl
  | case2 start p h hcut =>
    obtain ⟨hm, hsp, hmin⟩ := bytesFind?_some h
    have : (occ d needle).filter (fun p => start ≤ p ∧ (maxOff = 0 ∨ p ≤ maxOff)) = [] := by
      rw [List.filter_eq_nil_iff]
      intro j hj
      simp only [decide_eq_true_eq]
      intro hc
      have := hmin j hj hc.1
      omega
    rw [this]; rfl
  | case3 start p h hcut ih =>
    obtain ⟨hm, hsp, hmin⟩ := bytesFind?_some h
    rw [ih]
    have : (occ d needle).filter (fun q => start ≤ q ∧ (maxOff = 0 ∨ q ≤ maxOff))
        = p :: (occ d needle).filter (fun q => p + 1 ≤ q ∧ (maxOff = 0 ∨ q ≤ maxOff)) := by
      apply sorted_ext
      · exact List.Pairwise.filter _ (occ_sorted _ _)
      · rw [List.pairwise_cons]
        refine ⟨?_, List.Pairwise.filter _ (occ_sorted _ _)⟩
        intro q hq
        simp only [List.mem_filter, decide_eq_true_eq] at hq
        omega
      · intro x
        simp only [List.mem_cons, List.mem_filter, decide_eq_true_eq]
        constructor
        · rintro ⟨hx, hsx, hl⟩
          have := hmin x hx hsx
          by_cases hxp : x = p
          · exact Or.inl hxp
          · exact Or.inr ⟨hx, by omega, hl⟩
        · rintro (rfl | ⟨hx, hpx, hl⟩)
          · exact ⟨hm, hsp, by omega⟩
          · exact ⟨hx, by omega, hl⟩
    rw [this]; rfl
theorem mem_occ_append {d rest needle : Bytes} {p : Nat} (h : p + needle.length ≤ d.length) :
    p ∈ occ (d ++ rest) needle ↔ p ∈ occ d needle := by
  rw [mem_occ, mem_occ]
  have h1 : (d ++ rest).drop p = d.drop p ++ rest := List.drop_append_of_le_length (by omega)
  have h2 : ((d.drop p) ++ rest).take needle.length = (d.drop p).take needle.length :=
    List.take_append_of_le_length (by simp only [List.length_drop]; omega)
  rw [h1, h2]
  simp only [List.length_append]
  constructor <;> rintro ⟨_, h4⟩ <;> exact ⟨by omega, h4⟩

/-- occurrences inside a window `d` of `hay` that starts at `a`. -/
theorem mem_occ_window {hay d rest needle : Bytes} {a p : Nat} (ha : a ≤ hay.length)
    (hw : hay.drop a = d ++ rest) :
    p ∈ occ d needle ↔ a + p ∈ occ hay needle ∧ p + needle.length ≤ d.length := by
  constructor
  · intro hp
    have hb := (mem_occ.1 hp).1
    refine ⟨?_, hb⟩
    rw [← mem_occ_drop ha, hw, mem_occ_append hb]; exact hp
  · rintro ⟨h1, h2⟩
    rw [← mem_occ_drop ha, hw, mem_occ_append h2] at h1; exact h1

theorem nextSaved_eq (needle d : Bytes) : nextSaved needle d = d.drop (d.length - (needle.length - 1)) := by
  unfold nextSaved overlapLen
  split
  · rename_i h
    unfold pySliceFrom
    have : ¬ (-((needle.length : Int) - 1) ≥ 0) := by omega
    simp only [this, ↓reduceIte]
    congr 2
    omega
  · rename_i h
    have : needle.length - 1 = 0 := by omega
    rw [this]; simp

theorem read_snd (f : PyFile) (n : Int) : (f.read n).2 = { f with pos := f.pos + (f.read n).1.length } := rfl

theorem read_empty (f : PyFile) (B : Nat) (hB : 1 ≤ B) (h : (f.read (B : Int)).1 = []) :
    f.data.drop f.pos = [] ∧ f.data.length ≤ f.pos := by
  rw [PyFile.read_nonneg] at h
  have hX : f.data.drop f.pos = [] := by
    cases hx : f.data.drop f.pos with
    | nil => rfl
    | cons x t =>
      rw [hx] at h
      have := congrArg List.length h
      simp only [List.length_take, List.length_cons, List.length_nil] at this
      omega
  refine ⟨hX, ?_⟩
  have := congrArg List.length hX
  simp only [List.length_drop, List.length_nil] at this
  omega

/-- What one non-empty block does to the loop invariant
(`a` = file offset of the first byte of `saved`; `hay[a:] = saved ++ hay[pos:]`). -/
theorem step_inv {B : Nat} {needle : Bytes} {f : PyFile} {saved : Bytes} {a : Nat}
    (hn' : 0 < needle.length) (ha : a + saved.length = f.pos)
    (hw : f.data.drop a = saved ++ f.data.drop f.pos) (_hs : saved.length < needle.length)
    (hblk : (f.read (B : Int)).1 ≠ [])
    (block d : Bytes) (k : Nat) (hblock : block = (f.read (B : Int)).1) (hd : d = saved ++ block)
    (hkd : k = d.length - (needle.length - 1)) :
    a ≤ f.data.length ∧ 0 < block.length ∧ f.pos + block.length ≤ f.data.length ∧
    f.data.drop a = d ++ f.data.drop (f.pos + block.length) ∧
    d.length = saved.length + block.length ∧ k ≤ d.length ∧ d.length < k + needle.length ∧
    (a + k) + (nextSaved needle d).length = f.pos + block.length ∧
    f.data.drop (a + k) = nextSaved needle d ++ f.data.drop (f.pos + block.length) ∧
    (nextSaved needle d).length < needle.length := by
  subst hkd hd
  have hr : block = (f.data.drop f.pos).take B := by rw [hblock]; exact PyFile.read_nonneg f B
  have hbpos : 0 < block.length := List.length_pos_iff.mpr (by rw [hblock]; exact hblk)
  have hble : block.length ≤ f.data.length - f.pos := by
    rw [hr]; simp only [List.length_take, List.length_drop]; omega
  have hsplit : f.data.drop f.pos = block ++ f.data.drop (f.pos + block.length) := by
    have h1 : f.data.drop (f.pos + block.length) = (f.data.drop f.pos).drop block.length := by
      rw [List.drop_drop]
    have h2 : (f.data.drop f.pos).drop block.length = (f.data.drop f.pos).drop B := by
      rw [hr]
      simp only [List.length_take, List.length_drop]
      by_cases hc : B ≤ f.data.length - f.pos
      · rw [Nat.min_eq_left hc]
      · rw [Nat.min_eq_right (by omega)]
        rw [List.drop_eq_nil_of_le (by simp), List.drop_eq_nil_of_le (by simp; omega)]
    rw [h1, h2, hr, List.take_append_drop]
  have hw' : f.data.drop a = (saved ++ block) ++ f.data.drop (f.pos + block.length) := by
    rw [hw, hsplit, List.append_assoc]
  have hdlen : (saved ++ block).length = saved.length + block.length := List.length_append
  have hsv := nextSaved_eq needle (saved ++ block)
  have hk : (saved ++ block).length - (needle.length - 1) ≤ (saved ++ block).length := by omega
  have hk2 : (saved ++ block).length < (saved ++ block).length - (needle.length - 1) + needle.length := by omega
  refine ⟨by omega, hbpos, by omega, hw', hdlen, hk, hk2, ?_, ?_, ?_⟩
  · rw [hsv]; simp only [List.length_drop]; omega
  · rw [hsv]
    have : ∀ k, f.data.drop (a + k) = (f.data.drop a).drop k := by intro k; rw [List.drop_drop]
    rw [this, hw', List.drop_append_of_le_length hk]
  · rw [hsv]; simp only [List.length_drop]; omega

theorem filter_sublist_of_imp {p q : Nat → Bool} (h : ∀ a, p a = true → q a = true) :
    ∀ l : List Nat, (l.filter p).Sublist (l.filter q)
  | [] => List.Sublist.slnil
  | a :: l => by
    have ih := filter_sublist_of_imp h l
    simp only [List.filter_cons]
    cases hpa : p a <;> cases hqa : q a
    · simpa using ih
    · simpa using ih.cons a
    · have := h a hpa; rw [hqa] at this; cases this
    · simpa using ih.cons_cons a

theorem findLoop_nolimit (d needle : Bytes) (pos sl a : Nat) (h : a + sl = pos) :
    findLoop d needle 0 pos sl 0 = ((occ d needle).map (fun p => a + p)).map Int.ofNat := by
  rw [findLoop_eq]
  have : (occ d needle).filter (fun p => 0 ≤ p ∧ ((0:Nat) = 0 ∨ p ≤ 0)) = occ d needle := by
    rw [List.filter_eq_self]; intro p _; simp
  rw [this, List.map_map]
  apply List.map_congr_left
  intro p _
  show (pos : Int) + (p : Int) - (sl : Int) = ((a + p : Nat) : Int)
  omega

/-- splitting the occurrences `≥ a` into those that end inside the window `d` and the rest. -/
theorem occ_split {hay d rest needle : Bytes} {a k : Nat} (hn' : 0 < needle.length) (hale : a ≤ hay.length)
    (hw' : hay.drop a = d ++ rest) (_hk : k ≤ d.length) (hk2 : d.length < k + needle.length)
    (hk3 : k = d.length - (needle.length - 1)) :
    (occ d needle).map (fun p => a + p) ++ (occ hay needle).filter (fun i => a + k ≤ i)
      = (occ hay needle).filter (fun i => a ≤ i) := by
  apply sorted_ext
  · rw [List.pairwise_append]
    refine ⟨?_, List.Pairwise.filter _ (occ_sorted _ _), ?_⟩
    · rw [List.pairwise_map]
      exact (occ_sorted d needle).imp (by intro x y hxy; omega)
    · intro x hx y hy
      simp only [List.mem_map] at hx
      obtain ⟨p, hp, rfl⟩ := hx
      simp only [List.mem_filter, decide_eq_true_eq] at hy
      have := (mem_occ.1 hp).1
      omega
  · exact List.Pairwise.filter _ (occ_sorted _ _)
  · intro x
    simp only [List.mem_append, List.mem_map, List.mem_filter, decide_eq_true_eq]
    constructor
    · rintro (⟨p, hp, rfl⟩ | ⟨hx, hkx⟩)
      · exact ⟨((mem_occ_window hale hw').1 hp).1, by omega⟩
      · exact ⟨hx, by omega⟩
    · rintro ⟨hx, hax⟩
      by_cases hc : x + needle.length ≤ a + d.length
      · left
        refine ⟨x - a, ?_, by omega⟩
        apply (mem_occ_window hale hw').2
        have : a + (x - a) = x := by omega
        rw [this]
        exact ⟨hx, by omega⟩
      · right
        exact ⟨hx, by omega⟩

theorem needleLoop_exact (B : Nat) (hB : 1 ≤ B) (needle : Bytes) (hn : needle ≠ []) (f : PyFile) (saved : Bytes) :
    ∀ (a : Nat), a + saved.length = f.pos → f.data.drop a = saved ++ f.data.drop f.pos →
      saved.length < needle.length →
      needleLoop B needle 0 f saved
        = (((occ f.data needle).filter (fun i => a ≤ i)).map Int.ofNat, { f with pos := max f.pos f.data.length }) := by
  fun_induction needleLoop B needle 0 f saved with
  | case1 f saved pos hcut => simp at hcut
  | case2 f saved pos hcut hblk =>
    intro a ha hw hs
    obtain ⟨hX, hlen⟩ := read_empty f B hB hblk
    have hfil : (occ f.data needle).filter (fun i => a ≤ i) = [] := by
      rw [List.filter_eq_nil_iff]
      intro i hi
      simp only [decide_eq_true_eq]
      have h1 := (mem_occ.1 hi).1
      have h2 := congrArg List.length hw
      rw [hX] at h2
      simp only [List.length_drop, List.append_nil] at h2
      omega
    rw [hfil, read_snd, hblk]
    simp only [List.map_nil, List.length_nil, Nat.add_zero, Nat.max_eq_left hlen]
  | case3 f saved pos hcut hblk block d offs rest ih =>
    intro a ha hw hs
    have hn' : 0 < needle.length := List.length_pos_iff.mpr hn
    obtain ⟨hale, hbpos, hble, hw', hdlen, hk, hk2, i1, i2, i3⟩ :=
      step_inv hn' ha hw hs hblk block d (d.length - (needle.length - 1)) rfl rfl rfl
    have ih' := ih (a + (d.length - (needle.length - 1)))
    simp only [PyFile.read_data, PyFile.read_kind, PyFile.read_pos] at ih'
    have hrest : rest = _ := ih' i1 i2 i3
    have hoffs : offs = _ := findLoop_nolimit d needle pos saved.length a ha
    show (offs ++ rest.1, rest.2) = _
    rw [hrest, hoffs]
    have hmax1 : max (f.pos + (f.read (B : Int)).fst.length) f.data.length = f.data.length := by
      show max (f.pos + block.length) f.data.length = f.data.length; omega
    have hmax2 : max f.pos f.data.length = f.data.length := by omega
    simp only [hmax1, hmax2]
    congr 1
    rw [← List.map_append, occ_split hn' hale hw' hk hk2 rfl]

/-- A limit only removes reports: the result under a limit is a sublist of the no-limit result. -/
theorem needleLoop_sublist (B : Nat) (needle : Bytes) (m : Nat) (f : PyFile) (saved : Bytes) :
    List.Sublist (needleLoop B needle m f saved).1 (needleLoop B needle 0 f saved).1 := by
  fun_induction needleLoop B needle m f saved with
  | case1 f saved pos hcut => exact List.nil_sublist _
  | case2 f saved pos hcut hblk => exact List.nil_sublist _
  | case3 f saved pos hcut hblk block d offs rest ih =>
    rw [needleLoop.eq_1 B needle 0 f saved]
    simp only [hblk, ne_eq, not_true_eq_false, false_and, ↓reduceIte, ↓reduceDIte]
    apply List.Sublist.append _ ih
    show List.Sublist (findLoop d needle m pos saved.length 0) (findLoop d needle 0 pos saved.length 0)
    rw [findLoop_eq, findLoop_eq]
    apply List.Sublist.map
    apply filter_sublist_of_imp
    intro p hp
    simp only [decide_eq_true_eq] at hp ⊢
    exact ⟨hp.1, Or.inl trivial⟩

/-- Every occurrence that lies entirely before the limit is reported. -/
theorem needleLoop_complete (B : Nat) (hB : 1 ≤ B) (needle : Bytes) (hn : needle ≠ []) (m : Nat) (f : PyFile)
    (saved : Bytes) :
    ∀ (a : Nat), a + saved.length = f.pos → f.data.drop a = saved ++ f.data.drop f.pos →
      saved.length < needle.length →
      ∀ i ∈ occ f.data needle, a ≤ i → (m = 0 ∨ i + needle.length ≤ m) →
        (i : Int) ∈ (needleLoop B needle m f saved).1 := by
  fun_induction needleLoop B needle m f saved with
  | case1 f saved pos hcut =>
    intro a ha hw hs i hi hai hm
    have h1 := (mem_occ.1 hi).1
    have : pos = f.pos := rfl
    omega
  | case2 f saved pos hcut hblk =>
    intro a ha hw hs i hi hai hm
    obtain ⟨hX, hlen⟩ := read_empty f B hB hblk
    have h1 := (mem_occ.1 hi).1
    have h2 := congrArg List.length hw
    rw [hX] at h2
    simp only [List.length_drop, List.append_nil] at h2
    omega
  | case3 f saved pos hcut hblk block d offs rest ih =>
    intro a ha hw hs i hi hai hm
    have hn' : 0 < needle.length := List.length_pos_iff.mpr hn
    obtain ⟨hale, hbpos, hble, hw', hdlen, hk, hk2, i1, i2, i3⟩ :=
      step_inv hn' ha hw hs hblk block d (d.length - (needle.length - 1)) rfl rfl rfl
    have ih' := ih (a + (d.length - (needle.length - 1)))
    simp only [PyFile.read_data, PyFile.read_pos] at ih'
    show (i : Int) ∈ offs ++ rest.1
    rw [List.mem_append]
    by_cases hc : i + needle.length ≤ a + d.length
    · left
      show (i : Int) ∈ findLoop d needle m pos saved.length 0
      rw [findLoop_eq, List.mem_map]
      refine ⟨i - a, ?_, ?_⟩
      · simp only [List.mem_filter, decide_eq_true_eq]
        refine ⟨?_, Nat.zero_le _, by omega⟩
        apply (mem_occ_window hale hw').2
        have : a + (i - a) = i := by omega
        rw [this]
        exact ⟨hi, by omega⟩
      · have : pos = f.pos := rfl
        omega
    · right
      exact ih' i1 i2 i3 i hi (by omega) hm

/-- the loop started with an empty `saved` at the current position. -/
theorem needleLoop_start (B : Nat) (hB : 1 ≤ B) (needle : Bytes) (hn : needle ≠ []) (f : PyFile) :
    needleLoop B needle 0 f []
      = (((occ f.data needle).filter (fun i => f.pos ≤ i)).map Int.ofNat, { f with pos := max f.pos f.data.length }) :=
  needleLoop_exact B hB needle hn f [] f.pos rfl (by simp) (List.length_pos_iff.mpr hn)

theorem exact_list_ascending (hay needle : Bytes) (s0 : Nat) :
    (((occ hay needle).filter (fun i => s0 ≤ i)).map Int.ofNat).Pairwise (· < ·) := by
  rw [List.pairwise_map]
  exact (List.Pairwise.filter _ (occ_sorted hay needle)).imp (fun h => Int.ofNat_lt.2 h)


/-! ### the exact result under a limit (`max_offset > 0`)

The code tests `max_offset` twice, against two different quantities:
* `pos > max_offset` before a block is read — `pos` is the FILE offset of the block start;
* `p > max_offset` for a hit — `p` is the index in the search buffer `saved + block`, NOT a file offset.
So what is reported depends on how the file is cut into blocks, i.e. on `B = io.DEFAULT_BUFFER_SIZE` and on the start. -/

/-- index (counted from the start position `s0`) of the block whose search buffer shows the occurrence at `o`:
the block that holds its LAST byte (`n = |needle|`) -/
def blockOf (B n s0 o : Nat) : Nat := (o + n - 1 - s0) / B

/-- file offset of the first byte of the search buffer `saved + block` of block `j`
(`saved` = the last `min (n-1) (j*B)` bytes in front of the block) -/
def bufStart (B n s0 j : Nat) : Nat := s0 + (j * B - (n - 1))

/-- is the occurrence at file offset `o` (`o ≥ s0`) reported under `max_offset = m`? -/
def limitKeeps (B n s0 m o : Nat) : Bool :=
  decide (s0 + blockOf B n s0 o * B ≤ m)                               -- its block is read: the block START is `≤ max_offset`
    && decide (o - bufStart B n s0 (blockOf B n s0 o) ≤ m)             -- its index in `saved + block` is `≤ max_offset`

/-- the same test relative to a loop state (`pos` = position of the next block, `sl = |saved|`) -/
def keepRel (B n m pos sl o : Nat) : Bool :=
  decide (pos + (o + n - 1 - pos) / B * B ≤ m)
    && decide (o - (pos + (o + n - 1 - pos) / B * B - min (n - 1) (sl + (o + n - 1 - pos) / B * B)) ≤ m)

theorem keepRel_cur {B n m pos sl o : Nat} (h : o + n - 1 - pos < B) (hsl : sl ≤ n - 1) :
    keepRel B n m pos sl o = (decide (pos ≤ m) && decide (o - (pos - sl) ≤ m)) := by
  unfold keepRel
  simp only [Nat.div_eq_of_lt h, Nat.zero_mul, Nat.add_zero]
  rw [Nat.min_eq_right hsl]

theorem keepRel_next {B n m pos sl o : Nat} (hB : 0 < B) (h : pos + B ≤ o + n - 1) :
    keepRel B n m pos sl o = keepRel B n m (pos + B) (min (n - 1) (sl + B)) o := by
  unfold keepRel
  have e : o + n - 1 - pos = (o + n - 1 - (pos + B)) + B := by omega
  rw [e, Nat.add_div_right _ hB]
  generalize (o + n - 1 - (pos + B)) / B = q
  have : (q + 1) * B = q * B + B := Nat.succ_mul q B
  rw [this]
  generalize q * B = t
  have h1 : pos + (t + B) = pos + B + t := by omega
  have h2 : min (n - 1) (sl + (t + B)) = min (n - 1) (min (n - 1) (sl + B) + t) := by omega
  rw [h1, h2]

theorem limitKeeps_eq_keepRel (B n s0 m o : Nat) : limitKeeps B n s0 m o = keepRel B n m s0 0 o := by
  unfold limitKeeps keepRel blockOf bufStart
  generalize (o + n - 1 - s0) / B * B = t
  have : s0 + (t - (n - 1)) = s0 + t - min (n - 1) (0 + t) := by omega
  rw [this]

/-- **the loop under a limit**, for any state satisfying the loop invariant. -/
theorem needleLoop_limit (B : Nat) (hB : 1 ≤ B) (needle : Bytes) (hn : needle ≠ []) (m : Nat) (hm : 0 < m)
    (f : PyFile) (saved : Bytes) :
    ∀ (a : Nat), a + saved.length = f.pos → f.data.drop a = saved ++ f.data.drop f.pos →
      saved.length < needle.length →
      (needleLoop B needle m f saved).1
        = (((occ f.data needle).filter (fun i => a ≤ i)).filter
            (keepRel B needle.length m f.pos saved.length)).map Int.ofNat := by
  fun_induction needleLoop B needle m f saved with
  | case1 f saved pos hcut =>
    intro a ha hw hs
    have hp : pos = f.pos := rfl
    have : ((occ f.data needle).filter (fun i => a ≤ i)).filter (keepRel B needle.length m f.pos saved.length) = [] := by
      rw [List.filter_eq_nil_iff]
      intro o _
      unfold keepRel
      simp only [Bool.and_eq_true, decide_eq_true_eq, not_and]
      intro h1
      have := Nat.le_add_right f.pos ((o + needle.length - 1 - f.pos) / B * B)
      omega
    rw [this]; rfl
  | case2 f saved pos hcut hblk =>
    intro a ha hw hs
    obtain ⟨hX, hlen⟩ := read_empty f B hB hblk
    have hfil : (occ f.data needle).filter (fun i => a ≤ i) = [] := by
      rw [List.filter_eq_nil_iff]
      intro i hi
      simp only [decide_eq_true_eq]
      have h1 := (mem_occ.1 hi).1
      have h2 := congrArg List.length hw
      rw [hX] at h2
      simp only [List.length_drop, List.append_nil] at h2
      omega
    rw [hfil]; rfl
  | case3 f saved pos hcut hblk block d offs rest ih =>
    intro a ha hw hs
    have hp : pos = f.pos := rfl
    have hpm : f.pos ≤ m := by omega
    have hn' : 0 < needle.length := List.length_pos_iff.mpr hn
    obtain ⟨hale, hbpos, hble, hw', hdlen, hk, hk2, i1, i2, i3⟩ :=
      step_inv hn' ha hw hs hblk block d (d.length - (needle.length - 1)) rfl rfl rfl
    have hbB : block.length ≤ B := PyFile.read_length_le f B
    have hbshort : block.length < B → f.pos + block.length = f.data.length := by
      intro hlt
      have hr : block = (f.data.drop f.pos).take B := PyFile.read_nonneg f B
      have := congrArg List.length hr
      simp only [List.length_take, List.length_drop] at this
      omega
    have ih' := ih (a + (d.length - (needle.length - 1)))
    simp only [PyFile.read_data, PyFile.read_pos] at ih'
    have hrest : rest.1 = _ := ih' i1 i2 i3
    have hoffs : offs = _ := findLoop_eq d needle m pos saved.length 0
    show offs ++ rest.1 = _
    rw [hrest, hoffs, ← occ_split hn' hale hw' hk hk2 rfl, List.filter_append, List.map_append]
    congr 1
    · -- the hits of this block
      rw [List.filter_map, List.map_map]
      have hf : (occ d needle).filter (fun p => 0 ≤ p ∧ (m = 0 ∨ p ≤ m))
          = (occ d needle).filter (keepRel B needle.length m f.pos saved.length ∘ fun p => a + p) := by
        apply List.filter_congr
        intro p hpd
        have hb := (mem_occ.1 hpd).1
        simp only [Function.comp]
        rw [keepRel_cur (by omega) (by omega)]
        have e : a + p - (f.pos - saved.length) = p := by omega
        rw [e]
        simp only [hpm, decide_true, Bool.true_and]
        congr 1
        apply propext
        constructor
        · rintro ⟨_, h | h⟩ <;> omega
        · intro h; exact ⟨Nat.zero_le _, Or.inr h⟩
      rw [hf]
      apply List.map_congr_left
      intro p _
      show (pos : Int) + (p : Int) - (saved.length : Int) = ((a + p : Nat) : Int)
      omega
    · -- the later blocks
      congr 1
      apply List.filter_congr
      intro o ho
      simp only [List.mem_filter, decide_eq_true_eq] at ho
      obtain ⟨hocc, hko⟩ := ho
      have hend := (mem_occ.1 hocc).1
      have hfull : block.length = B := by
        apply Classical.byContradiction
        intro hne
        have := hbshort (by omega)
        omega
      have hsl : (nextSaved needle d).length = min (needle.length - 1) (saved.length + B) := by omega
      show keepRel B needle.length m (f.pos + block.length) (nextSaved needle d).length o = _
      rw [hfull, hsl, ← keepRel_next (by omega) (by omega)]


/-- where the loop leaves the file position under a limit `m > 0` (`L` = file size, `pos` = position it starts from):
blocks are read while their start is `≤ m` and `< L`; the last block read may end beyond `m` -/
def limitEnd (B m L pos : Nat) : Nat :=
  if pos > m ∨ pos ≥ L then pos else min L (pos + ((m - pos) / B + 1) * B)

theorem needleLoop_limit_file (B : Nat) (hB : 1 ≤ B) (needle : Bytes) (m : Nat) (hm : 0 < m) (f : PyFile) (saved : Bytes) :
    (needleLoop B needle m f saved).2 = { f with pos := limitEnd B m f.data.length f.pos } := by
  fun_induction needleLoop B needle m f saved with
  | case1 f saved pos hcut =>
    have hp : pos = f.pos := rfl
    unfold limitEnd
    rw [if_pos (Or.inl (by omega))]
  | case2 f saved pos hcut hblk =>
    obtain ⟨_, hlen⟩ := read_empty f B hB hblk
    unfold limitEnd
    rw [if_pos (Or.inr hlen), read_snd, hblk]
    rfl
  | case3 f saved pos hcut hblk block d offs rest ih =>
    have hp : pos = f.pos := rfl
    have hpm : f.pos ≤ m := by omega
    have hr : block = (f.data.drop f.pos).take B := PyFile.read_nonneg f B
    have hbl : block.length = min B (f.data.length - f.pos) := by
      have := congrArg List.length hr
      simpa only [List.length_take, List.length_drop] using this
    have hbpos : 0 < block.length := List.length_pos_iff.mpr hblk
    show rest.2 = _
    rw [ih]
    simp only [PyFile.read_data, PyFile.read_pos]
    show ({ (f.read (B : Int)).2 with pos := limitEnd B m f.data.length (f.pos + block.length) } : PyFile) = _
    have hkey : limitEnd B m f.data.length (f.pos + block.length) = limitEnd B m f.data.length f.pos := by
      have hge : ∀ t : Nat, B ≤ (t + 1) * B := fun t => Nat.le_mul_of_pos_left B (Nat.succ_pos t)
      unfold limitEnd
      rw [if_neg (c := f.pos > m ∨ f.pos ≥ f.data.length) (by omega)]
      by_cases hshort : block.length < B
      · have := hge ((m - f.pos) / B)
        rw [if_pos (Or.inr (by omega))]
        omega
      · have hfull : block.length = B := by omega
        rw [hfull]
        by_cases hbm : f.pos + B > m
        · have ht : (m - f.pos) / B = 0 := Nat.div_eq_of_lt (by omega)
          rw [if_pos (Or.inl hbm), ht]
          omega
        · have e : m - f.pos = (m - (f.pos + B)) + B := by omega
          rw [e, Nat.add_div_right _ (by omega)]
          generalize (m - (f.pos + B)) / B = t
          have h2 : (t + 1 + 1) * B = (t + 1) * B + B := Nat.succ_mul (t + 1) B
          have := hge t
          by_cases hL : f.pos + B ≥ f.data.length
          · rw [if_pos (Or.inr hL)]; omega
          · rw [if_neg (by omega)]; omega
    rw [hkey]
    rfl

/-! ### ArtifactKit scanner -/

theorem u32_eq (d : Bytes) : u32 d = (u32le d : Int) := by
  simp [u32, u32le, C20.unpack, C20.fromBytes, C20.fromBytesU, pySliceTo]

/-- the file holds `hay` and its position is equivalent to `q` (`hay[pos:] = hay[q:]`;
all positions past the end are equivalent). -/
def FileAt (f : PyFile) (hay : Bytes) (q : Nat) : Prop := f.data = hay ∧ hay.drop f.pos = hay.drop q

theorem read_at {f : PyFile} {hay : Bytes} {q : Nat} (n : Nat) (h : FileAt f hay q) :
    (f.read (n : Int)).1 = (hay.drop q).take n ∧ FileAt (f.read (n : Int)).2 hay (q + n) := by
  obtain ⟨hd, hp⟩ := h
  subst hd
  have h1 := PyFile.read_nonneg f n
  refine ⟨by rw [h1, hp], rfl, ?_⟩
  simp only [PyFile.read_pos]
  rw [h1, ← List.drop_drop, ← List.drop_drop, hp]
  simp only [List.length_take, List.length_drop]
  by_cases hc : n ≤ f.data.length - q
  · rw [Nat.min_eq_left hc]
  · rw [Nat.min_eq_right (by omega)]
    rw [List.drop_eq_nil_of_le (by simp), List.drop_eq_nil_of_le (by simp; omega)]

theorem readHit_spec {f : PyFile} {hay : Bytes} (pos : Nat) (h : FileAt f hay (pos + 4)) :
    (readHit f pos).1 = hitAt hay pos ∧ (readHit f pos).2.data = hay := by
  obtain ⟨a1, f1⟩ := read_at 4 h
  obtain ⟨a2, f2⟩ := read_at 4 f1
  obtain ⟨a3, f3⟩ := read_at 8 f2
  obtain ⟨a4, f4⟩ := read_at (u32le (hay.drop (pos + 4))) f3
  have hsz : u32 (f.read 4).1 = ((u32le (hay.drop (pos + 4)) : Nat) : Int) := by
    rw [u32_eq]
    have : (f.read 4).1 = (hay.drop (pos + 4)).take 4 := a1
    rw [this]
    simp [u32le, List.take_take]
  have e2 : ((f.read 4).2.read 4).1 = (hay.drop (pos + 8)).take 4 := a2
  have e3 : (((f.read 4).2.read 4).2.read 8).1 = (hay.drop (pos + 12)).take 8 := a3
  have e4 : ((((f.read 4).2.read 4).2.read 8).2.read ((u32le (hay.drop (pos + 4)) : Nat) : Int)).1
      = (hay.drop (pos + 20)).take (u32le (hay.drop (pos + 4))) := a4
  unfold readHit hitAt
  simp only [hsz, Int.toNat_natCast, e2, e3, e4]
  exact ⟨trivial, f4.1⟩

/-- what one loop iteration at `pos` must produce (`none` = the loop ends). -/
def stepResult (hay : Bytes) (pos : Nat) : Option (List Hit) :=
  if pos + 4 ≤ hay.length then
    some (if u32le (hay.drop pos) = pos + 16 then [hitAt hay pos] else [])
  else none

theorem artStep_spec (f : PyFile) (pos : Nat) :
    ∃ f', artStep f pos = .ok (stepResult f.data pos, f') ∧ f'.data = f.data := by
  unfold artStep
  rw [PyFile.seekSet_ok f pos]
  simp only
  have h0 : FileAt { f with pos := pos } f.data pos := ⟨rfl, rfl⟩
  obtain ⟨a1, f1⟩ := read_at 4 h0
  have e1 : (({ f with pos := pos } : PyFile).read 4).1 = (f.data.drop pos).take 4 := a1
  have hlen : (({ f with pos := pos } : PyFile).read 4).1.length = min 4 (f.data.length - pos) := by
    rw [e1]; simp only [List.length_take, List.length_drop]
  unfold stepResult
  split
  · rename_i hne
    have : ¬ (pos + 4 ≤ f.data.length) := by omega
    simp only [this, ↓reduceIte]
    exact ⟨_, rfl, f1.1⟩
  · rename_i hne
    have h4 : pos + 4 ≤ f.data.length := by omega
    simp only [h4, ↓reduceIte]
    have hu : u32 (({ f with pos := pos } : PyFile).read 4).1 = ((u32le (f.data.drop pos) : Nat) : Int) := by
      rw [u32_eq, e1]; simp [u32le, List.take_take]
    rw [hu]
    by_cases hc : u32le (f.data.drop pos) = pos + 16
    · have : (pos : Int) + 16 = ((u32le (f.data.drop pos) : Nat) : Int) := by omega
      simp only [this, hc, ↓reduceIte]
      have f1' : FileAt (({ f with pos := pos } : PyFile).read 4).2 f.data (pos + 4) := f1
      obtain ⟨g1, g2⟩ := readHit_spec pos f1'
      exact ⟨_, by rw [g1], g2⟩
    · have : ¬ ((pos : Int) + 16 = ((u32le (f.data.drop pos) : Nat) : Int)) := by omega
      simp only [this, hc, ↓reduceIte]
      exact ⟨_, rfl, f1.1⟩

theorem mem_artifactOffsets {hay : Bytes} {s : Nat} {mr : Option Nat} {x : Nat} :
    x ∈ artifactOffsets hay s mr ↔
      x + 4 ≤ hay.length ∧ s ≤ x ∧ pastRange mr x = false ∧ u32le (hay.drop x) = x + 16 := by
  unfold artifactOffsets pastRange
  simp only [List.mem_filter, List.mem_range, Bool.and_eq_true, decide_eq_true_eq]
  cases mr with
  | none => simp only [and_true]; constructor <;> rintro ⟨h1, h2, h3⟩ <;> exact ⟨by omega, h2, by simpa using h3⟩
  | some m =>
    simp only [decide_eq_true_eq, decide_eq_false_iff_not]
    constructor
    · rintro ⟨h1, ⟨h2, h3⟩, h4⟩; exact ⟨by omega, h2, by omega, h4⟩
    · rintro ⟨h1, h2, h3, h4⟩; exact ⟨by omega, ⟨h2, by omega⟩, h4⟩

theorem artifactOffsets_sorted (hay : Bytes) (s : Nat) (mr : Option Nat) :
    (artifactOffsets hay s mr).Pairwise (· < ·) := by
  unfold artifactOffsets
  exact List.Pairwise.filter _ List.pairwise_lt_range

theorem pastRange_mono {mr : Option Nat} {p q : Nat} (h : pastRange mr p = true) (hpq : p ≤ q) :
    pastRange mr q = true := by
  unfold pastRange at *
  cases mr with
  | none => simp at h
  | some m => simp only [decide_eq_true_eq] at *; omega

theorem artifactOffsets_past {hay : Bytes} {pos : Nat} {mr : Option Nat} (h : pastRange mr pos = true) :
    artifactOffsets hay pos mr = [] := by
  apply List.eq_nil_iff_forall_not_mem.2
  intro x hx
  obtain ⟨_, h2, h3, _⟩ := mem_artifactOffsets.1 hx
  rw [pastRange_mono h h2] at h3
  cases h3

theorem artifactOffsets_end {hay : Bytes} {pos : Nat} {mr : Option Nat} (h : ¬ pos + 4 ≤ hay.length) :
    artifactOffsets hay pos mr = [] := by
  apply List.eq_nil_iff_forall_not_mem.2
  intro x hx
  obtain ⟨h1, h2, _, _⟩ := mem_artifactOffsets.1 hx
  omega

theorem artifactOffsets_step {hay : Bytes} {pos : Nat} {mr : Option Nat} (h : pos + 4 ≤ hay.length)
    (hr : pastRange mr pos = false) :
    artifactOffsets hay pos mr
      = (if u32le (hay.drop pos) = pos + 16 then [pos] else []) ++ artifactOffsets hay (pos + 1) mr := by
  apply sorted_ext
  · exact artifactOffsets_sorted _ _ _
  · rw [List.pairwise_append]
    refine ⟨?_, artifactOffsets_sorted _ _ _, ?_⟩
    · split <;> simp
    · intro x hx y hy
      have := (mem_artifactOffsets.1 hy).2.1
      split at hx
      · simp only [List.mem_singleton] at hx; omega
      · simp at hx
  · intro x
    simp only [List.mem_append, mem_artifactOffsets]
    constructor
    · rintro ⟨h1, h2, h3, h4⟩
      by_cases hx : x = pos
      · subst hx; left; simp [h4]
      · right; exact ⟨h1, by omega, h3, h4⟩
    · rintro (hx | ⟨h1, h2, h3, h4⟩)
      · split at hx
        · rename_i hc
          simp only [List.mem_singleton] at hx
          subst hx
          exact ⟨h, Nat.le_refl _, hr, hc⟩
        · simp at hx
      · exact ⟨h1, by omega, h3, h4⟩

theorem artLoop_spec (mr : Option Nat) (f : PyFile) (pos : Nat) :
    ∃ f', artLoop mr f pos = .ok (artifactHits f.data pos mr, f') ∧ f'.data = f.data := by
  fun_induction artLoop mr f pos with
  | case1 f pos hp =>
    exact ⟨f, by simp [artifactHits, artifactOffsets_past hp], rfl⟩
  | case2 f pos hp e h =>
    obtain ⟨f', h1, _⟩ := artStep_spec f pos
    rw [h1] at h; cases h
  | case3 f pos hp f' h =>
    obtain ⟨f'', h1, h2⟩ := artStep_spec f pos
    rw [h1] at h
    injection h with h
    injection h with ha hb
    subst hb
    refine ⟨f'', ?_, h2⟩
    unfold stepResult at ha
    split at ha
    · cases ha
    · rename_i hlen
      simp [artifactHits, artifactOffsets_end hlen]
  | case4 f pos hp hs f' h e hrec ih =>
    obtain ⟨ff, h1, _⟩ := ih
    rw [h1] at hrec; cases hrec
  | case5 f pos hp hs f' h rest ff hrec ih =>
    obtain ⟨f'', h1, h2⟩ := artStep_spec f pos
    rw [h1] at h
    injection h with h
    injection h with ha hb
    subst hb
    obtain ⟨ff', h3, h4⟩ := ih
    rw [h3] at hrec
    injection hrec with hrec
    injection hrec with hr1 hr2
    subst hr2
    refine ⟨ff', ?_, by rw [h4, h2]⟩
    unfold stepResult at ha
    split at ha
    · rename_i hlen
      injection ha with ha
      have hp' : pastRange mr pos = false := by simpa using hp
      rw [← ha, ← hr1, h2]
      unfold artifactHits
      rw [artifactOffsets_step hlen hp', List.map_append]
      split <;> rfl
    · cases ha

end C15

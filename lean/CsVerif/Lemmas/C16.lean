import CsVerif.Model.C16
/-! Helper lemmas for the C16 theorems (raw HTTP parsing).  Core tactics only. -/
namespace C16

theorem forall_byte {P : UInt8 → Prop} (h : ∀ n, n < 256 → P (UInt8.ofNat n)) : ∀ b : UInt8, P b := by
  intro b
  have := h b.toNat b.toNat_lt
  simpa using this

theorem mem_takeWhile_imp {p : α → Bool} {l : List α} {x : α} (h : x ∈ l.takeWhile p) : p x = true := by
  induction l with
  | nil => simp at h
  | cons a l ih =>
    simp only [List.takeWhile_cons] at h
    split at h
    · rename_i ha
      rcases List.mem_cons.1 h with rfl | h'
      · exact ha
      · exact ih h'
    · simp at h

theorem partitionAt_skip (c : UInt8) (s : Bytes) (l X : Bytes) (h : ∀ b ∈ l, b ≠ c) :
    partitionAt (c :: s) (l ++ X) = (partitionAt (c :: s) X).map fun p => (l ++ p.1, p.2) := by
  induction l with
  | nil => simp
  | cons b l ih =>
    have hb : b ≠ c := h b (by simp)
    have ih' := ih (fun x hx => h x (by simp [hx]))
    simp only [List.cons_append, partitionAt, List.isPrefixOf]
    have : (c == b) = false := by simpa using fun h' => hb h'.symm
    simp [this, ih', Option.map_map, Function.comp_def]

theorem partitionAt_here (sep X : Bytes) (h : sep ≠ []) :
    partitionAt sep (sep ++ X) = some ([], X) := by
  cases sep with
  | nil => exact absurd rfl h
  | cons c s =>
    simp only [List.cons_append, partitionAt]
    have : (c :: s).isPrefixOf (c :: (s ++ X)) = true := by
      rw [← List.cons_append]; simp [List.isPrefixOf_iff_prefix]
    simp [this]

theorem noCR_iff (s : Bytes) : noCR s = true ↔ ∀ b ∈ s, b ≠ 13 := by
  simp [noCR]

theorem partitionAt_cons_ne (sep : Bytes) (b : UInt8) (rest : Bytes) (h : sep.isPrefixOf (b :: rest) = false) :
    partitionAt sep (b :: rest) = (partitionAt sep rest).map fun p => (b :: p.1, p.2) := by
  simp [partitionAt, h]

/-- a header line `CRLF ++ line` with a CR-free, non-empty line is skipped by the CRLFCRLF search -/
theorem partitionAt_crlfcrlf_line (l X : Bytes) (hne : l ≠ []) (h : ∀ b ∈ l, b ≠ 13) :
    partitionAt CRLFCRLF (CRLF ++ l ++ X) =
      (partitionAt CRLFCRLF X).map fun p => (CRLF ++ l ++ p.1, p.2) := by
  cases l with
  | nil => exact absurd rfl hne
  | cons c l =>
    have hc : c ≠ 13 := h c (by simp)
    have hc' : ((13 : UInt8) == c) = false := by simpa using fun h' => hc h'.symm
    have h3 := partitionAt_skip 13 [10, 13, 10] (c :: l) X h
    have h1 : CRLFCRLF.isPrefixOf (13 :: 10 :: (c :: l ++ X)) = false := by
      simp [CRLFCRLF, List.isPrefixOf, hc']
    have h2 : CRLFCRLF.isPrefixOf (10 :: (c :: l ++ X)) = false := by
      simp [CRLFCRLF, List.isPrefixOf]
    show partitionAt CRLFCRLF (13 :: 10 :: (c :: l ++ X)) = _
    rw [partitionAt_cons_ne _ _ _ h1, partitionAt_cons_ne _ _ _ h2]
    simp only [CRLFCRLF] at h3 ⊢
    rw [h3]
    simp [CRLF, Option.map_map, Function.comp_def]

def headerLine (h : Bytes × Bytes) : Bytes := h.1 ++ colonSpace ++ h.2

theorem renderHeaders_cons (h : Bytes × Bytes) (hs : List (Bytes × Bytes)) :
    renderHeaders (h :: hs) = CRLF ++ headerLine h ++ renderHeaders hs := by
  simp [renderHeaders, headerLine, List.append_assoc]

theorem headerLine_ne_nil (h : Bytes × Bytes) : headerLine h ≠ [] := by
  simp [headerLine, colonSpace]

theorem headerLine_noCR (h : Bytes × Bytes) (hw : wellFormedHeader h = true) :
    ∀ b ∈ headerLine h, b ≠ 13 := by
  simp only [wellFormedHeader, Bool.and_eq_true, noCR_iff] at hw
  intro b hb
  simp only [headerLine, colonSpace, List.mem_append, List.mem_cons, List.not_mem_nil, or_false] at hb
  rcases hb with (hb | hb | hb) | hb
  · exact hw.1.2 b hb
  · subst hb; decide
  · subst hb; decide
  · exact hw.2 b hb

theorem partitionAt_headers (hs : List (Bytes × Bytes)) (body : Bytes)
    (hw : ∀ h ∈ hs, wellFormedHeader h = true) :
    partitionAt CRLFCRLF (renderHeaders hs ++ (CRLFCRLF ++ body)) = some (renderHeaders hs, body) := by
  induction hs with
  | nil => simpa [renderHeaders] using partitionAt_here CRLFCRLF body (by simp [CRLFCRLF])
  | cons h hs ih =>
    have ih' := ih (fun x hx => hw x (by simp [hx]))
    rw [renderHeaders_cons, List.append_assoc]
    rw [partitionAt_crlfcrlf_line _ _ (headerLine_ne_nil h) (headerLine_noCR h (hw h (by simp)))]
    simp [ih']

/-- the head/body split of a rendered message -/
theorem partition_message (start : Bytes) (hs : List (Bytes × Bytes)) (body : Bytes)
    (hstart : ∀ b ∈ start, b ≠ 13) (hw : ∀ h ∈ hs, wellFormedHeader h = true) :
    partition CRLFCRLF (start ++ renderHeaders hs ++ CRLFCRLF ++ body) = (start ++ renderHeaders hs, body) := by
  have h1 := partitionAt_skip 13 [10, 13, 10] start (renderHeaders hs ++ (CRLFCRLF ++ body)) hstart
  have h2 := partitionAt_headers hs body hw
  simp only [partition, List.append_assoc]
  simp only [CRLFCRLF] at h1 h2 ⊢
  rw [h1, h2]
  simp
theorem partitionAt_none_of_not_mem (c : UInt8) (s l : Bytes) (h : ∀ b ∈ l, b ≠ c) :
    partitionAt (c :: s) l = none := by
  have := partitionAt_skip c s l [] h
  simpa [partitionAt] using this

/-- header block of a rendered message: everything after the first CRLF -/
theorem partition_firstLine (start : Bytes) (hs : List (Bytes × Bytes))
    (hstart : ∀ b ∈ start, b ≠ 13) :
    partition CRLF (start ++ renderHeaders hs) = (start, (renderHeaders hs).drop 2) := by
  cases hs with
  | nil =>
    have := partitionAt_none_of_not_mem 13 [10] start hstart
    simp [partition, CRLF, renderHeaders, this]
  | cons h hs =>
    have h1 := partitionAt_skip 13 [10] start (renderHeaders (h :: hs)) hstart
    have h2 := partitionAt_here CRLF (headerLine h ++ renderHeaders hs) (by simp [CRLF])
    rw [renderHeaders_cons, List.append_assoc] at h1 ⊢
    simp only [CRLF] at h1 h2 ⊢
    simp only [partition, h1, h2]
    simp

/-! ### splitCRLF -/

theorem splitCRLFGo_cons_ne (a : UInt8) (t cur : Bytes) (h : a ≠ 13) :
    splitCRLFGo (a :: t) cur = splitCRLFGo t (cur ++ [a]) := by
  cases t with
  | nil => simp [splitCRLFGo]
  | cons b r => simp [splitCRLFGo, h]

theorem splitCRLFGo_line_end (l cur : Bytes) (h : ∀ b ∈ l, b ≠ 13) :
    splitCRLFGo l cur = [cur ++ l] := by
  induction l generalizing cur with
  | nil => simp [splitCRLFGo]
  | cons a l ih =>
    rw [splitCRLFGo_cons_ne _ _ _ (h a (by simp)), ih _ (fun x hx => h x (by simp [hx]))]
    simp

theorem splitCRLFGo_line (l cur X : Bytes) (h : ∀ b ∈ l, b ≠ 13) :
    splitCRLFGo (l ++ CRLF ++ X) cur = (cur ++ l) :: splitCRLFGo X [] := by
  induction l generalizing cur with
  | nil => simp [splitCRLFGo, CRLF]
  | cons a l ih =>
    rw [List.cons_append, List.cons_append, splitCRLFGo_cons_ne _ _ _ (h a (by simp)),
      ih _ (fun x hx => h x (by simp [hx]))]
    simp

/-- lines of the header block of a rendered message -/
theorem splitCRLF_headers (h : Bytes × Bytes) (hs : List (Bytes × Bytes))
    (hw : ∀ x ∈ h :: hs, wellFormedHeader x = true) :
    splitCRLFGo (headerLine h ++ renderHeaders hs) [] = (h :: hs).map headerLine := by
  induction hs generalizing h with
  | nil =>
    simp only [renderHeaders, List.flatMap_nil, List.append_nil, List.map_cons, List.map_nil]
    rw [splitCRLFGo_line_end _ _ (headerLine_noCR h (hw h (by simp)))]
    simp
  | cons h2 hs ih =>
    have e : headerLine h ++ renderHeaders (h2 :: hs)
        = headerLine h ++ CRLF ++ (headerLine h2 ++ renderHeaders hs) := by
      rw [renderHeaders_cons]; simp [List.append_assoc]
    rw [e, splitCRLFGo_line _ _ _ (headerLine_noCR h (hw h (by simp))),
      ih h2 (fun x hx => hw x (by simp [hx]))]
    simp

theorem splitCRLF_headerBlock (hs : List (Bytes × Bytes))
    (hw : ∀ x ∈ hs, wellFormedHeader x = true) :
    (splitCRLF ((renderHeaders hs).drop 2)).filter (fun l => !l.isEmpty) = hs.map headerLine := by
  cases hs with
  | nil => simp [renderHeaders, splitCRLF, splitCRLFGo]
  | cons h hs =>
    rw [renderHeaders_cons]
    simp only [CRLF, List.cons_append, List.nil_append, List.drop_succ_cons, List.drop_zero, splitCRLF]
    rw [splitCRLF_headers h hs hw]
    rw [List.filter_eq_self]
    intro l hl
    obtain ⟨x, _, rfl⟩ := List.mem_map.1 hl
    simpa using headerLine_ne_nil x

/-! ### `partition(b": ")` of a header line -/

theorem containsSub_cons_false {sep : Bytes} {b : UInt8} {rest : Bytes}
    (h : containsSub sep (b :: rest) = false) :
    sep.isPrefixOf (b :: rest) = false ∧ containsSub sep rest = false := by
  simpa [containsSub] using h

theorem partitionAt_colonSpace (k v : Bytes) (h : containsSub colonSpace k = false) :
    partitionAt colonSpace (k ++ colonSpace ++ v) = some (k, v) := by
  induction k with
  | nil => simpa using partitionAt_here colonSpace v (by simp [colonSpace])
  | cons b k ih =>
    obtain ⟨h1, h2⟩ := containsSub_cons_false h
    have hp : colonSpace.isPrefixOf (b :: (k ++ colonSpace ++ v)) = false := by
      cases k with
      | nil =>
        simp only [colonSpace, List.isPrefixOf, List.nil_append, List.cons_append] at h1 ⊢
        simp
      | cons c k =>
        simp only [colonSpace, List.isPrefixOf, List.cons_append] at h1 ⊢
        simpa using h1
    rw [List.cons_append, List.cons_append, partitionAt_cons_ne _ _ _ hp, ih h2]
    simp

theorem partition_headerLine (h : Bytes × Bytes) (hw : wellFormedHeader h = true) :
    partition colonSpace (headerLine h) = h := by
  have : containsSub colonSpace h.1 = false := by
    simp only [wellFormedHeader, Bool.and_eq_true] at hw
    simpa using hw.1.1
  simp only [partition, headerLine]
  rw [partitionAt_colonSpace _ _ this]

/-! ### dict -/

theorem dictSet_of_not_mem (d : List (Bytes × Bytes)) (k v : Bytes) (h : k ∉ d.map Prod.fst) :
    dictSet d k v = d ++ [(k, v)] := by
  induction d with
  | nil => simp [dictSet]
  | cons p d ih =>
    obtain ⟨k', v'⟩ := p
    simp only [List.map_cons, List.mem_cons, not_or] at h
    have : k' ≠ k := fun e => h.1 e.symm
    simp [dictSet, this, ih h.2]

theorem foldl_dictSet_nodup (acc ps : List (Bytes × Bytes))
    (h : ((acc ++ ps).map Prod.fst).Nodup) :
    ps.foldl (fun d p => dictSet d p.1 p.2) acc = acc ++ ps := by
  induction ps generalizing acc with
  | nil => simp
  | cons p ps ih =>
    have hk : p.1 ∉ acc.map Prod.fst := by
      simp only [List.map_append, List.map_cons, List.nodup_append, List.nodup_cons] at h
      intro hm
      exact (h.2.2 _ hm p.1 (by simp)) rfl
    simp only [List.foldl_cons]
    rw [dictSet_of_not_mem _ _ _ hk, ih]
    · simp
    · simpa using h

theorem dictOfList_nodup (ps : List (Bytes × Bytes)) (h : (ps.map Prod.fst).Nodup) :
    dictOfList ps = ps := by
  simpa [dictOfList] using foldl_dictSet_nodup [] ps (by simpa using h)

theorem parseHeaders_rendered (hs : List (Bytes × Bytes)) (hw : WellFormedHeaders hs) :
    parseHeaders ((renderHeaders hs).drop 2) = hs := by
  unfold parseHeaders headerPairs
  rw [splitCRLF_headerBlock hs hw.each]
  rw [List.map_map]
  have : hs.map (partition colonSpace ∘ headerLine) = hs := by
    conv => rhs; rw [← List.map_id hs]
    apply List.map_congr_left
    intro h hh
    simpa using partition_headerLine h (hw.each h hh)
  rw [this]
  exact dictOfList_nodup hs hw.distinct
/-! ### bytes.split() / rstrip() -/

theorem noWs_iff (s : Bytes) : noWs s = true ↔ ∀ b ∈ s, isWs b = false := by
  simp [noWs]

theorem splitWsGo_tok (t rest cur : Bytes) (h : ∀ b ∈ t, isWs b = false) :
    splitWsGo (t ++ rest) cur = splitWsGo rest (cur ++ t) := by
  induction t generalizing cur with
  | nil => simp
  | cons a t ih =>
    have ha : isWs a = false := h a (by simp)
    have := ih (cur ++ [a]) (fun x hx => h x (by simp [hx]))
    simpa [splitWsGo, ha] using this

theorem splitWs_three (a b c : Bytes) (ha : isToken a = true) (hb : isToken b = true)
    (hc : isToken c = true) : splitWs (a ++ 32 :: (b ++ 32 :: c)) = [a, b, c] := by
  simp only [isToken, Bool.and_eq_true, noWs_iff] at ha hb hc
  have ha' : a ≠ [] := by simpa using ha.1
  have hb' : b ≠ [] := by simpa using hb.1
  have hc' : c ≠ [] := by simpa using hc.1
  have hsp : isWs 32 = true := by decide
  unfold splitWs
  rw [splitWsGo_tok a _ [] ha.2]
  simp only [List.nil_append, splitWsGo, hsp, if_true]
  rw [if_neg (by simpa using ha')]
  rw [splitWsGo_tok b _ [] hb.2]
  simp only [List.nil_append, splitWsGo, hsp, if_true]
  rw [if_neg (by simpa using hb')]
  have := splitWsGo_tok c [] [] hc.2
  simp only [List.append_nil, List.nil_append] at this
  rw [this]
  simp [splitWsGo, hc']

theorem rstrip_of_last_not_ws (s t : Bytes) (ht : t ≠ []) (h : ∀ b ∈ t, isWs b = false) :
    rstrip (s ++ t) = s ++ t := by
  unfold rstrip
  have hr : t.reverse ≠ [] := by simpa using ht
  obtain ⟨x, xs, hx⟩ := List.exists_cons_of_ne_nil hr
  have hxm : x ∈ t := by
    have : x ∈ t.reverse := by rw [hx]; simp
    simpa using this
  have : isWs x = false := h x hxm
  have e : (s ++ t).reverse = x :: (xs ++ s.reverse) := by rw [List.reverse_append, hx]; rfl
  rw [e, List.dropWhile_cons]
  simp only [this, Bool.false_eq_true, if_false]
  rw [← e, List.reverse_reverse]

/-- state after consuming a prefix: emitted tokens and the current partial token -/
theorem splitWsGo_append (a : Bytes) : ∀ cur, ∃ em cur', ∀ b, splitWsGo (a ++ b) cur = em ++ splitWsGo b cur' := by
  induction a with
  | nil => intro cur; exact ⟨[], cur, fun b => by simp⟩
  | cons x a ih =>
    intro cur
    by_cases hx : isWs x = true
    · by_cases hc : cur.isEmpty = true
      · obtain ⟨em, cur', h⟩ := ih []
        exact ⟨em, cur', fun b => by simp [splitWsGo, hx, hc, h]⟩
      · obtain ⟨em, cur', h⟩ := ih []
        exact ⟨cur :: em, cur', fun b => by simp [splitWsGo, hx, hc, h]⟩
    · obtain ⟨em, cur', h⟩ := ih (cur ++ [x])
      exact ⟨em, cur', fun b => by simp [splitWsGo, hx, h]⟩

theorem splitWsGo_allWs (w cur : Bytes) (h : ∀ b ∈ w, isWs b = true) :
    splitWsGo w cur = splitWsGo [] cur := by
  induction w generalizing cur with
  | nil => rfl
  | cons x w ih =>
    have hx := h x (by simp)
    have ih' := fun c => ih c (fun b hb => h b (by simp [hb]))
    simp only [splitWsGo, hx, if_true]
    split
    · rw [ih']; simp [splitWsGo]
    · rw [ih']; simp [splitWsGo]

/-- `rstrip()` before `split()` is redundant -/
theorem splitWs_rstrip (s : Bytes) : splitWs (rstrip s) = splitWs s := by
  have hs : s = rstrip s ++ (s.reverse.takeWhile isWs).reverse := by
    unfold rstrip
    rw [← List.reverse_append, List.takeWhile_append_dropWhile, List.reverse_reverse]
  have hw : ∀ b ∈ (s.reverse.takeWhile isWs).reverse, isWs b = true := by
    intro b hb
    rw [List.mem_reverse] at hb
    exact mem_takeWhile_imp hb
  obtain ⟨em, cur', h⟩ := splitWsGo_append (rstrip s) []
  unfold splitWs
  conv => rhs; rw [hs]
  rw [h, splitWsGo_allWs _ _ hw]
  have := h []
  simp only [List.append_nil] at this
  rw [this]

/-! ### upper().startswith(b"HTTP/") -/

theorem upByte_ws (b : UInt8) : isWs b = true → upByte b = b := by
  revert b; apply forall_byte; decide +kernel

theorem startsWithHTTP_append_of (v rest : Bytes) (h : startsWithHTTP v = true) :
    startsWithHTTP (v ++ rest) = true := by
  unfold startsWithHTTP upper at *
  rw [List.isPrefixOf_iff_prefix] at *
  rw [List.map_append]
  exact List.IsPrefix.trans h (List.prefix_append _ _)

theorem startsWithHTTP_of_append_space (m rest : Bytes) (hm : ∀ b ∈ m, isWs b = false)
    (h : startsWithHTTP (m ++ 32 :: rest) = true) : startsWithHTTP m = true := by
  unfold startsWithHTTP upper HTTPslash at *
  have h32 : upByte 32 = 32 := by decide
  match m, hm with
  | [], _ => simp [List.isPrefixOf, h32] at h
  | [a], _ => simp [List.isPrefixOf, h32] at h
  | [a, b], _ => simp [List.isPrefixOf, h32] at h
  | [a, b, c], _ => simp [List.isPrefixOf, h32] at h
  | [a, b, c, d], _ => simp [List.isPrefixOf, h32] at h
  | a :: b :: c :: d :: e :: r, _ =>
    simp only [List.cons_append, List.map_cons, List.isPrefixOf, Bool.and_eq_true] at h ⊢
    exact h

/-! ### percent-encoding -/

/-- bytes that `quote` can emit -/
def isQuoted (b : UInt8) : Bool := isUnreserved b || b == 37

theorem unquote_cons_ne (p : UInt8) (t : Bytes) (h : p ≠ 37) : unquote (p :: t) = p :: unquote t := by
  match t with
  | [] => simp [unquote]
  | [a] => simp [unquote]
  | a :: b :: r => simp [unquote, h]

theorem unquote_pct (a b : UInt8) (rest : Bytes) (ha : isHex a = true) (hb : isHex b = true) :
    unquote (37 :: a :: b :: rest) = (hexVal a * 16 + hexVal b) :: unquote rest := by
  simp [unquote, ha, hb]

theorem unreserved_ne_pct : ∀ b : UInt8, isUnreserved b = true → b ≠ 37 := by
  apply forall_byte; decide +kernel

theorem hex_roundtrip : ∀ b : UInt8, isHex (hexUpper (b / 16)) = true ∧ isHex (hexUpper (b % 16)) = true ∧
    hexVal (hexUpper (b / 16)) * 16 + hexVal (hexUpper (b % 16)) = b := by
  apply forall_byte; decide +kernel

theorem quote_cons (b : UInt8) (s : Bytes) :
    quote (b :: s) = (if isUnreserved b then [b] else [37, hexUpper (b / 16), hexUpper (b % 16)]) ++ quote s := by
  simp [quote]

/-- percent-decoding inverts percent-encoding, for every byte string -/
theorem unquote_quote' (s : Bytes) : unquote (quote s) = s := by
  induction s with
  | nil => simp [quote, unquote]
  | cons b s ih =>
    rw [quote_cons]
    by_cases hb : isUnreserved b = true
    · simp only [hb, if_true, List.cons_append, List.nil_append]
      rw [unquote_cons_ne _ _ (unreserved_ne_pct b hb), ih]
    · simp only [hb, Bool.false_eq_true, if_false, List.cons_append, List.nil_append]
      obtain ⟨h1, h2, h3⟩ := hex_roundtrip b
      rw [unquote_pct _ _ _ h1 h2, h3, ih]

theorem quote_bytes (s : Bytes) : ∀ b ∈ quote s, isQuoted b = true := by
  induction s with
  | nil => simp [quote]
  | cons c s ih =>
    rw [quote_cons]
    intro b hb
    rcases List.mem_append.1 hb with hb | hb
    · have key : ∀ c : UInt8, (isUnreserved c = true → isQuoted c = true) ∧ isQuoted 37 = true ∧
          isQuoted (hexUpper (c / 16)) = true ∧ isQuoted (hexUpper (c % 16)) = true := by
        apply forall_byte; decide +kernel
      obtain ⟨k1, k2, k3, k4⟩ := key c
      by_cases hc : isUnreserved c = true
      · simp only [hc, if_true, List.mem_singleton] at hb
        subst hb; exact k1 hc
      · simp only [hc, Bool.false_eq_true, if_false, List.mem_cons, List.not_mem_nil, or_false] at hb
        rcases hb with rfl | rfl | rfl <;> assumption
    · exact ih b hb

theorem isQuoted_facts : ∀ b : UInt8, isQuoted b = true →
    b ≠ 43 ∧ b ≠ 38 ∧ b ≠ 61 ∧ b ≠ 35 ∧ b ≠ 63 ∧ b < 0x80 ∧ isWs b = false := by
  apply forall_byte; decide +kernel

theorem plusToSpace_quote (s : Bytes) : plusToSpace (quote s) = quote s := by
  unfold plusToSpace
  conv => rhs; rw [← List.map_id (quote s)]
  apply List.map_congr_left
  intro b hb
  have := (isQuoted_facts b (quote_bytes s b hb)).1
  simp [this]

theorem quote_ne_nil (s : Bytes) (h : s ≠ []) : quote s ≠ [] := by
  cases s with
  | nil => exact absurd rfl h
  | cons b s => rw [quote_cons]; split <;> simp

theorem unquoteField_quote (s : Bytes) : unquoteField (quote s) = s := by
  simp [unquoteField, plusToSpace_quote, unquote_quote']

/-! ### single-byte splitting -/

theorem cutAt_append (c : UInt8) (a r : Bytes) (h : ∀ b ∈ a, b ≠ c) :
    cutAt c (a ++ c :: r) = some (a, r) := by
  induction a with
  | nil => simp [cutAt]
  | cons x a ih =>
    have hx : x ≠ c := h x (by simp)
    simp [cutAt, hx, ih (fun b hb => h b (by simp [hb]))]

theorem cutAt_none (c : UInt8) (a : Bytes) (h : ∀ b ∈ a, b ≠ c) : cutAt c a = none := by
  induction a with
  | nil => simp [cutAt]
  | cons x a ih =>
    have hx : x ≠ c := h x (by simp)
    simp [cutAt, hx, ih (fun b hb => h b (by simp [hb]))]

theorem splitByteGo_end (c : UInt8) (t cur : Bytes) (h : ∀ b ∈ t, b ≠ c) :
    splitByteGo c t cur = [cur ++ t] := by
  induction t generalizing cur with
  | nil => simp [splitByteGo]
  | cons x t ih =>
    have hx : x ≠ c := h x (by simp)
    simp [splitByteGo, hx, ih _ (fun b hb => h b (by simp [hb]))]

theorem splitByteGo_tok (c : UInt8) (t X cur : Bytes) (h : ∀ b ∈ t, b ≠ c) :
    splitByteGo c (t ++ c :: X) cur = (cur ++ t) :: splitByteGo c X [] := by
  induction t generalizing cur with
  | nil => simp [splitByteGo]
  | cons x t ih =>
    have hx : x ≠ c := h x (by simp)
    simp [splitByteGo, hx, ih _ (fun b hb => h b (by simp [hb]))]

/-! ### parse_qsl of a rendered query -/

theorem renderParam_bytes (p : Bytes × Bytes) : ∀ b ∈ renderParam p, isQuoted b = true ∨ b = 61 := by
  intro b hb
  simp only [renderParam, List.mem_append, List.mem_cons] at hb
  rcases hb with hb | rfl | hb
  · exact .inl (quote_bytes _ b hb)
  · exact .inr rfl
  · exact .inl (quote_bytes _ b hb)

theorem renderParam_no_amp (p : Bytes × Bytes) : ∀ b ∈ renderParam p, b ≠ 38 := by
  intro b hb
  rcases renderParam_bytes p b hb with h | rfl
  · exact (isQuoted_facts b h).2.1
  · decide

theorem renderQuery_cons_cons (p q : Bytes × Bytes) (ps : List (Bytes × Bytes)) :
    renderQuery (p :: q :: ps) = renderParam p ++ 38 :: renderQuery (q :: ps) := rfl

theorem splitByte_renderQuery (p : Bytes × Bytes) (ps : List (Bytes × Bytes)) :
    splitByte 38 (renderQuery (p :: ps)) = (p :: ps).map renderParam := by
  unfold splitByte
  induction ps generalizing p with
  | nil =>
    simp only [renderQuery, List.map_cons, List.map_nil]
    rw [splitByteGo_end _ _ _ (renderParam_no_amp p)]; simp
  | cons q ps ih =>
    rw [renderQuery_cons_cons, splitByteGo_tok _ _ _ _ (renderParam_no_amp p), ih q]
    simp

theorem qslField_renderParam (p : Bytes × Bytes) (hv : p.2 ≠ []) : qslField (renderParam p) = some p := by
  have hk : ∀ b ∈ quote p.1, b ≠ 61 := fun b hb => (isQuoted_facts b (quote_bytes _ b hb)).2.2.1
  have hne : renderParam p ≠ [] := by simp [renderParam]
  have hq : quote p.2 ≠ [] := quote_ne_nil _ hv
  unfold qslField
  rw [if_neg (by simpa using hne)]
  simp only [renderParam]
  rw [cutAt_append _ _ _ hk]
  simp only
  rw [if_neg (by simpa using hq), unquoteField_quote, unquoteField_quote]

theorem filterMap_qslField_rendered (ps : List (Bytes × Bytes)) (hv : ∀ p ∈ ps, p.2 ≠ []) :
    (ps.map renderParam).filterMap qslField = ps := by
  induction ps with
  | nil => rfl
  | cons p ps ih =>
    simp only [List.map_cons, List.filterMap_cons, qslField_renderParam p (hv p (by simp)),
      ih (fun x hx => hv x (by simp [hx]))]

theorem renderQuery_ne_nil (p : Bytes × Bytes) (ps : List (Bytes × Bytes)) : renderQuery (p :: ps) ≠ [] := by
  cases ps with
  | nil => simp [renderQuery, renderParam]
  | cons q ps => rw [renderQuery_cons_cons]; simp [renderParam]

/-- for ARBITRARY key/value bytes with non-empty values -/
theorem parseQsl_rendered (ps : List (Bytes × Bytes)) (hv : ∀ p ∈ ps, p.2 ≠ []) :
    parseQsl (renderQuery ps) = ps := by
  cases ps with
  | nil => simp [parseQsl, renderQuery]
  | cons p ps =>
    unfold parseQsl
    rw [if_neg (by simpa using renderQuery_ne_nil p ps), splitByte_renderQuery]
    exact filterMap_qslField_rendered _ hv

/-! ### urlsplit of a rendered request target -/

theorem isPathByte_facts : ∀ b : UInt8, isPathByte b = true →
    b < 0x80 ∧ isWs b = false ∧ b ≠ 35 ∧ b ≠ 63 := by
  apply forall_byte; decide +kernel

theorem notWs_safe : ∀ b : UInt8, isWs b = false → (!(b == 9 || b == 13 || b == 10)) = true := by
  apply forall_byte; decide +kernel

theorem renderQuery_bytes (ps : List (Bytes × Bytes)) :
    ∀ b ∈ renderQuery ps, isQuoted b = true ∨ b = 61 ∨ b = 38 := by
  induction ps with
  | nil => simp [renderQuery]
  | cons p ps ih =>
    cases ps with
    | nil =>
      intro b hb
      rcases renderParam_bytes p b (by simpa [renderQuery] using hb) with h | h
      · exact .inl h
      · exact .inr (.inl h)
    | cons q ps =>
      intro b hb
      rw [renderQuery_cons_cons] at hb
      rcases List.mem_append.1 hb with hb | hb
      · rcases renderParam_bytes p b hb with h | h
        · exact .inl h
        · exact .inr (.inl h)
      · rcases List.mem_cons.1 hb with rfl | hb
        · exact .inr (.inr rfl)
        · exact ih b hb

theorem queryByte_facts (b : UInt8) (h : isQuoted b = true ∨ b = 61 ∨ b = 38) :
    b < 0x80 ∧ isWs b = false ∧ b ≠ 35 := by
  rcases h with h | rfl | rfl
  · have := isQuoted_facts b h; exact ⟨this.2.2.2.2.2.1, this.2.2.2.2.2.2, this.2.2.2.1⟩
  · decide
  · decide

theorem renderTarget_bytes (path : Bytes) (ps : List (Bytes × Bytes)) (hp : path.all isPathByte = true) :
    ∀ b ∈ renderTarget path ps, b < 0x80 ∧ isWs b = false ∧ b ≠ 35 := by
  have hpath : ∀ b ∈ path, b < 0x80 ∧ isWs b = false ∧ b ≠ 35 := by
    intro b hb
    have := isPathByte_facts b (List.all_eq_true.1 hp b hb)
    exact ⟨this.1, this.2.1, this.2.2.1⟩
  intro b hb
  unfold renderTarget at hb
  split at hb
  · exact hpath b hb
  · rcases List.mem_append.1 hb with hb | hb
    · exact hpath b hb
    · rcases List.mem_cons.1 hb with rfl | hb
      · decide
      · exact queryByte_facts b (renderQuery_bytes ps b hb)

theorem wellFormedPath_cases (path : Bytes) (hp : wellFormedPath path = true) :
    ∃ rest, path = 47 :: rest ∧ rest.head? ≠ some 47 ∧ path.all isPathByte = true := by
  unfold wellFormedPath at hp
  simp only [Bool.and_eq_true] at hp
  obtain ⟨⟨h1, h2⟩, h3⟩ := hp
  cases path with
  | nil => simp at h1
  | cons c rest =>
    have : c = 47 := by simpa using h1
    subst this
    exact ⟨rest, rfl, by simpa using h2, h3⟩

theorem filter_self_of_all {p : α → Bool} (l : List α) (h : ∀ x ∈ l, p x = true) : l.filter p = l :=
  List.filter_eq_self.2 h

theorem splitScheme_slash (t : Bytes) : splitScheme (47 :: t) = ([], 47 :: t) := by
  unfold splitScheme
  have : cutAt 58 (47 :: t) = (cutAt 58 t).map fun p => (47 :: p.1, p.2) := by
    simp [cutAt]
  rw [this]
  cases cutAt 58 t with
  | none => rfl
  | some p =>
    obtain ⟨pre, post⟩ := p
    have : isAlpha 47 = false := by decide
    simp [this]

theorem partitionByte_none (c : UInt8) (s : Bytes) (h : ∀ b ∈ s, b ≠ c) : partitionByte c s = (s, []) := by
  simp [partitionByte, cutAt_none c s h]

theorem renderTarget_query (path : Bytes) (ps : List (Bytes × Bytes)) (hp : ∀ b ∈ path, b ≠ 63) :
    partitionByte 63 (renderTarget path ps) = (path, renderQuery ps) := by
  unfold renderTarget
  split
  · rename_i he
    have : ps = [] := by simpa using he
    subst this
    simpa [renderQuery] using partitionByte_none 63 path hp
  · simp [partitionByte, cutAt_append 63 path _ hp]

theorem urlsplit_target (path : Bytes) (ps : List (Bytes × Bytes)) (hp : wellFormedPath path = true) :
    urlsplit (asciiIgnore (renderTarget path ps)) =
      .ok { scheme := [], netloc := [], path := path, query := renderQuery ps, fragment := [] } := by
  obtain ⟨rest, rfl, hrest, hall⟩ := wellFormedPath_cases path hp
  have hb := renderTarget_bytes _ ps hall
  have hq : ∀ b ∈ (47 :: rest : Bytes), b ≠ 63 := fun b hb' =>
    (isPathByte_facts b (List.all_eq_true.1 hall b hb')).2.2.2
  obtain ⟨more, hm⟩ : ∃ more, renderTarget (47 :: rest) ps = 47 :: (rest ++ more) ∧ more.head? ≠ some 47 := by
    unfold renderTarget; split
    · exact ⟨[], by simp, by simp⟩
    · exact ⟨63 :: renderQuery ps, by simp, by simp⟩
  have h0 : asciiIgnore (renderTarget (47 :: rest) ps) = renderTarget (47 :: rest) ps :=
    filter_self_of_all _ (fun b hb' => by simpa using (hb b hb').1)
  have h1 : removeUnsafe (lstripC0 (renderTarget (47 :: rest) ps)) = renderTarget (47 :: rest) ps := by
    have : lstripC0 (renderTarget (47 :: rest) ps) = renderTarget (47 :: rest) ps := by
      rw [hm.1]; simp [lstripC0]
    rw [this]
    exact filter_self_of_all _ (fun b hb' => notWs_safe b (hb b hb').2.1)
  have h2 : splitScheme (renderTarget (47 :: rest) ps) = ([], renderTarget (47 :: rest) ps) := by
    rw [hm.1]; exact splitScheme_slash _
  have h3 : ((renderTarget (47 :: rest) ps).take 2 == [47, 47]) = false := by
    rw [hm.1]
    cases rest with
    | nil =>
      cases more with
      | nil => simp
      | cons c more =>
        have : c ≠ 47 := by simpa using hm.2
        simp [this]
    | cons c rest =>
      have : c ≠ 47 := by simpa using hrest
      simp [this]
  have h4 : partitionByte 35 (renderTarget (47 :: rest) ps) = (renderTarget (47 :: rest) ps, []) :=
    partitionByte_none _ _ (fun b hb' => (hb b hb').2.2)
  have h5 := renderTarget_query (47 :: rest) ps hq
  rw [h0]
  unfold urlsplit
  simp only [h1, h2, h3, Bool.false_eq_true, if_false, h4, h5]

/-! ### int(status.decode()) on ASCII digits -/

theorem isDigit_facts : ∀ b : UInt8, isDigit b = true →
    b < 0x80 ∧ b.toNat < 127 ∧ isDigitN b.toNat = true ∧ isWs b = false := by
  apply forall_byte; decide +kernel

theorem utf8Decode_ascii (s : Bytes) (h : ∀ b ∈ s, b < 0x80) : utf8Decode s = some (s.map (·.toNat)) := by
  induction s with
  | nil => simp [utf8Decode]
  | cons b s ih =>
    unfold utf8Decode
    simp [h b (by simp), ih (fun x hx => h x (by simp [hx]))]

theorem isDigitN_facts (c : Nat) (h : isDigitN c = true) :
    isAsciiSpaceN c = false ∧ c ≠ 43 ∧ c ≠ 45 ∧ c ≠ 95 ∧ isDigitOrUnderscoreN c = true ∧ c < 127 := by
  simp only [isDigitN, Bool.and_eq_true, decide_eq_true_eq] at h
  simp only [isAsciiSpaceN, isDigitOrUnderscoreN, isDigitN]
  refine ⟨?_, by omega, by omega, by omega, ?_, by omega⟩
  · simp; omega
  · simp; omega

theorem hasDoubleUnderscore_digits (s : List Nat) (h : ∀ c ∈ s, c ≠ 95) : hasDoubleUnderscore s = false := by
  induction s with
  | nil => rfl
  | cons a s ih =>
    have ha : a ≠ 95 := h a (by simp)
    have ih' := ih (fun c hc => h c (by simp [hc]))
    unfold hasDoubleUnderscore
    split
    · rename_i heq; injection heq with h1 _; exact absurd h1 ha
    · rename_i heq; injection heq with _ h2; subst h2; exact ih'
    · rename_i heq; exact absurd heq (by simp)

theorem takeWhile_all {p : α → Bool} (l : List α) (h : ∀ x ∈ l, p x = true) : l.takeWhile p = l := by
  induction l with
  | nil => rfl
  | cons a l ih => simp [h a (by simp), ih (fun x hx => h x (by simp [hx]))]

theorem dropWhile_all {p : α → Bool} (l : List α) (h : ∀ x ∈ l, p x = true) : l.dropWhile p = [] := by
  induction l with
  | nil => rfl
  | cons a l ih => simp [h a (by simp), ih (fun x hx => h x (by simp [hx]))]

theorem dropWhile_of_head {p : α → Bool} (a : α) (l : List α) (h : p a = false) :
    (a :: l).dropWhile p = a :: l := by simp [h]

theorem parseDecimal_digits (s : List Nat) (hne : s ≠ []) (hd : ∀ c ∈ s, isDigitN c = true)
    (hlen : s.length ≤ maxStrDigits) : parseDecimal s = .ok (decimalValueN s : Int) := by
  obtain ⟨d, t, rfl⟩ := List.exists_cons_of_ne_nil hne
  have hd0 := isDigitN_facts d (hd d (by simp))
  have hall : ∀ c ∈ d :: t, isDigitOrUnderscoreN c = true := fun c hc => (isDigitN_facts c (hd c hc)).2.2.2.2.1
  have hne95 : ∀ c ∈ d :: t, c ≠ 95 := fun c hc => (isDigitN_facts c (hd c hc)).2.2.2.1
  have htw : (d :: t).takeWhile isDigitOrUnderscoreN = d :: t := takeWhile_all _ hall
  have hdw : (d :: t).dropWhile isDigitOrUnderscoreN = [] := dropWhile_all _ hall
  have hf : (d :: t).filter (· != 95) = d :: t := filter_self_of_all _ (fun c hc => by simpa using hne95 c hc)
  have hlast : ((d :: t).getLast? == some 95) = false := by
    cases hl : (d :: t).getLast? with
    | none => rfl
    | some x =>
      have : x ∈ d :: t := List.mem_of_getLast? hl
      have := hne95 x this
      simpa using this
  unfold parseDecimal parseDecimalBody
  simp only [dropWhile_of_head d t hd0.1, List.head?_cons]
  have e1 : (some d == some 43) = false := by simpa using hd0.2.1
  have e2 : (some d == some 45) = false := by simpa using hd0.2.2.1
  have e3 : (some d == some 95) = false := by simpa using hd0.2.2.2.1
  simp only [e1, e2, Bool.or_false, Bool.false_eq_true, if_false, htw, hdw, hf, List.head?_cons, e3, hlast,
    hasDoubleUnderscore_digits _ hne95, List.isEmpty_cons, List.dropWhile_nil, List.isEmpty_nil, Bool.not_true]
  simp
  simpa using hlen

theorem decimalValueN_map (ds : Bytes) : decimalValueN (ds.map (·.toNat)) = decimalValue ds := by
  simp [decimalValueN, decimalValue, List.foldl_map]

theorem pyIntOfBytes_digits (ds : Bytes) (hne : ds ≠ []) (hd : ds.all isDigit = true)
    (hlen : ds.length ≤ maxStrDigits) : pyIntOfBytes ds = .ok (decimalValue ds : Int) := by
  have hd' := List.all_eq_true.1 hd
  have h1 := utf8Decode_ascii ds (fun b hb => (isDigit_facts b (hd' b hb)).1)
  have h2 : (ds.map (·.toNat)).map toAsciiDigitSpace = ds.map (·.toNat) := by
    rw [List.map_map]
    apply List.map_congr_left
    intro b hb
    simp [toAsciiDigitSpace, (isDigit_facts b (hd' b hb)).2.1]
  unfold pyIntOfBytes pyIntOfStr
  rw [h1]
  simp only [h2]
  rw [parseDecimal_digits _ (by simpa using hne) _ (by simpa using hlen), decimalValueN_map]
  intro c hc
  obtain ⟨b, hb, rfl⟩ := List.mem_map.1 hc
  exact (isDigit_facts b (hd' b hb)).2.2.1

/-! ### dict semantics -/

theorem dictSet_keys (d : List (Bytes × Bytes)) (k v : Bytes) :
    (dictSet d k v).map Prod.fst = if k ∈ d.map Prod.fst then d.map Prod.fst else d.map Prod.fst ++ [k] := by
  induction d with
  | nil => simp [dictSet]
  | cons p d ih =>
    obtain ⟨k', v'⟩ := p
    by_cases h : k' = k
    · subst h; simp [dictSet]
    · have h' : ¬ k = k' := fun e => h e.symm
      simp only [dictSet, h, if_false, List.map_cons, ih, List.mem_cons, h', false_or]
      split <;> simp

theorem dictSet_lookup (d : List (Bytes × Bytes)) (k v q : Bytes) :
    (dictSet d k v).lookup q = if q == k then some v else d.lookup q := by
  induction d with
  | nil => cases hb : (q == k) <;> simp [dictSet, List.lookup_cons, hb]
  | cons p d ih =>
    obtain ⟨k', v'⟩ := p
    by_cases h : k' = k
    · subst h
      cases hb : (q == k') <;> simp [dictSet, List.lookup_cons, hb]
    · simp only [dictSet, h, if_false, List.lookup_cons, ih]
      cases hb : (q == k') <;> cases hc : (q == k) <;> simp
      have e1 : q = k' := by simpa using hb
      have e2 : q = k := by simpa using hc
      exact (h (e1.symm.trans e2)).elim

theorem dictSet_nodup (d : List (Bytes × Bytes)) (k v : Bytes) (h : (d.map Prod.fst).Nodup) :
    ((dictSet d k v).map Prod.fst).Nodup := by
  rw [dictSet_keys]
  split
  · exact h
  · rename_i hk
    rw [List.nodup_append]
    refine ⟨h, by simp, ?_⟩
    intro a ha b hb
    simp only [List.mem_singleton] at hb
    subst hb
    intro e; subst e; exact hk ha

theorem foldl_dictSet_nodup_keys (acc ps : List (Bytes × Bytes)) (h : (acc.map Prod.fst).Nodup) :
    ((ps.foldl (fun d p => dictSet d p.1 p.2) acc).map Prod.fst).Nodup := by
  induction ps generalizing acc with
  | nil => simpa using h
  | cons p ps ih => exact ih _ (dictSet_nodup acc p.1 p.2 h)

theorem foldl_dictSet_lookup (acc ps : List (Bytes × Bytes)) (q : Bytes) :
    (ps.foldl (fun d p => dictSet d p.1 p.2) acc).lookup q = (ps.reverse.lookup q).or (acc.lookup q) := by
  induction ps generalizing acc with
  | nil => simp
  | cons p ps ih =>
    obtain ⟨k, v⟩ := p
    simp only [List.foldl_cons, ih, dictSet_lookup, List.reverse_cons, List.lookup_append,
      List.lookup_singleton, Option.or_assoc]
    congr 1
    by_cases hq : q = k <;> simp [hq]

theorem filter_filter_congr {l : List Bytes} {p q r : Bytes → Bool} (h : ∀ x, (p x && q x) = r x) :
    (l.filter q).filter p = l.filter r := by
  rw [List.filter_filter]
  congr 1
  funext x
  exact h x

theorem foldl_dictSet_keys (acc ps : List (Bytes × Bytes)) :
    (ps.foldl (fun d p => dictSet d p.1 p.2) acc).map Prod.fst =
      acc.map Prod.fst ++ (firstKeys (ps.map Prod.fst)).filter (fun k => !(acc.map Prod.fst).contains k) := by
  induction ps generalizing acc with
  | nil => simp [firstKeys]
  | cons p ps ih =>
    obtain ⟨k, v⟩ := p
    simp only [List.foldl_cons, ih, dictSet_keys, List.map_cons, firstKeys]
    by_cases hk : k ∈ acc.map Prod.fst
    · have hc : (acc.map Prod.fst).contains k = true := by simpa using hk
      simp only [hk, if_true, List.filter_cons, hc, Bool.not_true, Bool.false_eq_true, if_false]
      congr 1
      symm
      apply filter_filter_congr
      intro x
      by_cases hx : x = k
      · subst hx
        have : decide (x ∈ List.map Prod.fst acc) = true := by simpa using hk
        simp [this]
      · simp [hx]
    · have hc : (acc.map Prod.fst).contains k = false := by simpa using hk
      simp only [hk, if_false, List.filter_cons, hc, Bool.not_false, if_true, List.append_assoc,
        List.singleton_append]
      congr 2
      symm
      apply filter_filter_congr
      intro x
      by_cases hx : x = k
      · subst hx; simp
      · by_cases hxa : x ∈ List.map Prod.fst acc <;> simp [hx, hxa]

/-! ### `partitionAt` finds the first occurrence -/

theorem partitionAt_eq_some {sep data a b : Bytes} (h : partitionAt sep data = some (a, b)) :
    data = a ++ sep ++ b := by
  induction data generalizing a with
  | nil => simp [partitionAt] at h
  | cons x rest ih =>
    unfold partitionAt at h
    split at h
    · rename_i hp
      injection h with h; injection h with h1 h2
      subst h1; subst h2
      rw [List.isPrefixOf_iff_prefix] at hp
      obtain ⟨t, ht⟩ := hp
      rw [← ht]; simp
    · cases hr : partitionAt sep rest with
      | none => simp [hr] at h
      | some p =>
        obtain ⟨a2, b2⟩ := p
        simp only [hr, Option.map_some, Option.some.injEq, Prod.mk.injEq] at h
        obtain ⟨h1, h2⟩ := h
        subst h1; subst h2
        rw [ih hr]; simp

theorem partitionAt_first {sep : Bytes} (hsep : sep ≠ []) (data pre post : Bytes)
    (h : data = pre ++ sep ++ post) :
    ∃ a b, partitionAt sep data = some (a, b) ∧ a.length ≤ pre.length := by
  induction data generalizing pre with
  | nil =>
    have : sep = [] := by
      have := congrArg List.length h
      simp at this
      exact List.eq_nil_of_length_eq_zero (by omega)
    exact absurd this hsep
  | cons x rest ih =>
    unfold partitionAt
    by_cases hp : sep.isPrefixOf (x :: rest) = true
    · exact ⟨[], (x :: rest).drop sep.length, by simp [hp], by simp⟩
    · cases pre with
      | nil =>
        exfalso; apply hp
        rw [List.isPrefixOf_iff_prefix, h]
        exact ⟨post, by simp⟩
      | cons y pre2 =>
        simp only [List.cons_append, List.cons.injEq] at h
        obtain ⟨a2, b2, h2, hl⟩ := ih pre2 h.2
        exact ⟨x :: a2, b2, by simp [hp, h2], by simpa using hl⟩

/-- `partition` splits at the FIRST occurrence of `sep`; without an occurrence it returns `(data, [])`. -/
theorem partition_spec (sep data : Bytes) (hsep : sep ≠ []) :
    (∀ pre post, data = pre ++ sep ++ post →
        (∀ pre' post', data = pre' ++ sep ++ post' → pre.length ≤ pre'.length) →
        partition sep data = (pre, post)) ∧
    ((∀ pre post, data ≠ pre ++ sep ++ post) → partition sep data = (data, [])) := by
  constructor
  · intro pre post h hmin
    obtain ⟨a, b, hab, hl⟩ := partitionAt_first hsep data pre post h
    have hd := partitionAt_eq_some hab
    have hl2 := hmin a b hd
    have hlen : a.length = pre.length := by omega
    have : a ++ (sep ++ b) = pre ++ (sep ++ post) := by
      rw [← List.append_assoc, ← List.append_assoc, ← hd, ← h]
    obtain ⟨h1, h2⟩ := List.append_inj this hlen
    have h3 := List.append_cancel_left h2
    simp [partition, hab, h3, h1]
  · intro hno
    cases hp : partitionAt sep data with
    | none => simp [partition, hp]
    | some p =>
      obtain ⟨a, b⟩ := p
      exact absurd (partitionAt_eq_some hp) (hno a b)

theorem containsSub_iff_infix (sep s : Bytes) : containsSub sep s = true ↔ sep <:+: s := by
  induction s with
  | nil => simp [containsSub]
  | cons b rest ih =>
    simp only [containsSub, Bool.or_eq_true, ih, List.isPrefixOf_iff_prefix, List.infix_cons_iff]

/-! ### the only exception is ValueError -/

theorem parseDecimalBody_error {neg : Bool} {s : List Nat} {e : PyExc}
    (h : parseDecimalBody neg s = .error e) : e = .valueError := by
  unfold parseDecimalBody at h
  simp only at h
  split at h
  · injection h with h; exact h.symm
  · split at h
    · injection h with h; exact h.symm
    · split at h
      · injection h with h; exact h.symm
      · cases h

theorem pyIntOfBytes_error {b : Bytes} {e : PyExc} (h : pyIntOfBytes b = .error e) : e = .valueError := by
  unfold pyIntOfBytes at h
  split at h
  · injection h with h; exact h.symm
  · exact parseDecimalBody_error h

theorem checkBracketedHost_error {hst : Bytes} {e : PyExc} (h : checkBracketedHost hst = .error e) :
    e = .valueError := by
  unfold checkBracketedHost at h
  split at h
  · split at h
    · split at h
      · cases h
      · injection h with h; exact h.symm
    · injection h with h; exact h.symm
  · split at h
    · cases h
    · injection h with h; exact h.symm

theorem checkNetloc_error {n : Bytes} {e : PyExc} (h : checkNetloc n = .error e) : e = .valueError := by
  unfold checkNetloc at h
  simp only at h
  split at h
  · injection h with h; exact h.symm
  · split at h
    · exact checkBracketedHost_error h
    · cases h

theorem urlsplit_error {u : Bytes} {e : PyExc} (h : urlsplit u = .error e) : e = .valueError := by
  unfold urlsplit at h
  simp only at h
  split at h
  · rename_i e' heq
    split at heq
    · split at heq
      · rename_i e'' hc
        injection heq with heq; injection h with h
        rw [← h, ← heq]; exact checkNetloc_error hc
      · cases heq
    · cases heq
  · cases h

/-! ### a rendered request, up to the parameter dict -/

theorem token_noCR (t : Bytes) (h : isToken t = true) : ∀ b ∈ t, b ≠ 13 := by
  simp only [isToken, Bool.and_eq_true, noWs_iff] at h
  intro b hb e
  have := h.2 b hb
  subst e
  simp [isWs] at this

theorem startLine_noCR (a b c : Bytes) (ha : isToken a = true) (hb : isToken b = true)
    (hc : isToken c = true) : ∀ x ∈ a ++ 32 :: b ++ 32 :: c, x ≠ 13 := by
  intro x hx
  simp only [List.mem_append, List.mem_cons] at hx
  rcases hx with (hx | rfl | hx) | rfl | hx
  · exact token_noCR a ha x hx
  · decide
  · exact token_noCR b hb x hx
  · decide
  · exact token_noCR c hc x hx


theorem parseRawHttp_rendered_request (version method path : Bytes) (params headers : List (Bytes × Bytes))
    (body : Bytes) (h : WellFormedReq version method path params headers) :
    parseRawHttp (renderRequest version method path params headers body) =
      .ok (.request method path (dictOfList (parseQsl (renderQuery params))) headers body) := by
  obtain ⟨hv, hm, hnot, hpath, hkeys, hvals, hw⟩ := h
  obtain ⟨rest, hpe, _, hall⟩ := wellFormedPath_cases path hpath
  have httok : isToken (renderTarget path params) = true := by
    simp only [isToken, Bool.and_eq_true, noWs_iff]
    refine ⟨?_, fun b hb => (renderTarget_bytes path params hall b hb).2.1⟩
    subst hpe
    unfold renderTarget; split <;> simp
  have hstart := startLine_noCR method (renderTarget path params) version hm httok hv
  have hp := partition_message _ headers body hstart hw.each
  have hf := partition_firstLine _ headers hstart
  have e1 : firstLine (renderRequest version method path params headers body)
      = method ++ 32 :: renderTarget path params ++ 32 :: version := by
    simp only [firstLine, renderRequest, hp, hf]
  have e2 : startTokens (renderRequest version method path params headers body)
      = [method, renderTarget path params, version] := by
    unfold startTokens
    rw [e1, splitWs_rstrip, List.append_assoc]
    exact splitWs_three _ _ _ hm httok hv
  have e3 : startsWithHTTP (method ++ 32 :: renderTarget path params ++ 32 :: version) = false := by
    cases hs : startsWithHTTP (method ++ 32 :: renderTarget path params ++ 32 :: version) with
    | false => rfl
    | true =>
      rw [List.append_assoc] at hs
      have hmw : ∀ b ∈ method, isWs b = false := by
        simp only [isToken, Bool.and_eq_true, noWs_iff] at hm; exact hm.2
      have := startsWithHTTP_of_append_space method _ hmw hs
      rw [hnot] at this; cases this
  unfold parseRawHttp
  simp only [e1, e2, e3, Bool.false_eq_true, if_false, urlsplit_target path params hpath]
  simp only [renderRequest, hp, hf, parseHeaders_rendered headers hw]

/-! ### decimal digits of a natural number -/

theorem isDigit_ofNat (d : Nat) (h : d < 10) :
    isDigit (UInt8.ofNat (48 + d)) = true ∧ (UInt8.ofNat (48 + d)).toNat - 48 = d := by
  have : ∀ d, d < 10 → isDigit (UInt8.ofNat (48 + d)) = true ∧ (UInt8.ofNat (48 + d)).toNat - 48 = d := by
    decide
  exact this d h

theorem natDigits_ne_nil (n : Nat) : natDigits n ≠ [] := by
  unfold natDigits; split <;> simp

theorem natDigits_all (n : Nat) : (natDigits n).all isDigit = true := by
  induction n using Nat.strongRecOn with
  | _ n ih =>
    unfold natDigits
    split
    · rename_i h
      simp only [List.all_cons, List.all_nil, Bool.and_true]
      exact (isDigit_ofNat n h).1
    · rename_i h
      simp only [List.all_append, ih (n / 10) (by omega), Bool.true_and, List.all_cons, List.all_nil, Bool.and_true]
      exact (isDigit_ofNat (n % 10) (by omega)).1

theorem decimalValue_snoc (l : Bytes) (d : UInt8) :
    decimalValue (l ++ [d]) = decimalValue l * 10 + (d.toNat - 48) := by
  simp [decimalValue, List.foldl_append]

theorem decimalValue_natDigits (n : Nat) : decimalValue (natDigits n) = n := by
  induction n using Nat.strongRecOn with
  | _ n ih =>
    unfold natDigits
    split
    · rename_i h
      have := (isDigit_ofNat n h).2
      simp only [decimalValue, List.foldl_cons, List.foldl_nil, Nat.zero_mul, Nat.zero_add]
      exact this
    · rename_i h
      rw [decimalValue_snoc, ih (n / 10) (by omega), (isDigit_ofNat (n % 10) (by omega)).2]
      omega

theorem natDigits_length (k n : Nat) (h : n < 10 ^ (k + 1)) : (natDigits n).length ≤ k + 1 := by
  induction k generalizing n with
  | zero =>
    unfold natDigits
    have : n < 10 := by simpa using h
    simp [this]
  | succ k ih =>
    unfold natDigits
    split
    · simp
    · have : n / 10 < 10 ^ (k + 1) := by
        rw [Nat.div_lt_iff_lt_mul (by decide)]
        rw [Nat.pow_succ] at h; exact h
      have := ih (n / 10) this
      simp; omega

theorem natDigits_length' (k n : Nat) (hk : 0 < k) (h : n < 10 ^ k) : (natDigits n).length ≤ k := by
  obtain ⟨k', rfl⟩ : ∃ k', k = k' + 1 := ⟨k - 1, by omega⟩
  exact natDigits_length k' n h

theorem splitWsGo_tokens (s cur : Bytes) (hc : ∀ b ∈ cur, isWs b = false) :
    ∀ t ∈ splitWsGo s cur, t ≠ [] ∧ ∀ b ∈ t, isWs b = false := by
  induction s generalizing cur with
  | nil =>
    intro t ht
    unfold splitWsGo at ht
    split at ht
    · cases ht
    · rename_i hne
      simp only [List.mem_singleton] at ht
      subst ht
      exact ⟨by simpa using hne, hc⟩
  | cons x s ih =>
    intro t ht
    unfold splitWsGo at ht
    split at ht
    · split at ht
      · exact ih [] (by simp) t ht
      · rename_i hne
        rcases List.mem_cons.1 ht with rfl | ht
        · exact ⟨by simpa using hne, hc⟩
        · exact ih [] (by simp) t ht
    · rename_i hx
      refine ih (cur ++ [x]) ?_ t ht
      intro b hb
      rcases List.mem_append.1 hb with hb | hb
      · exact hc b hb
      · simp only [List.mem_singleton] at hb; subst hb; simpa using hx

end C16

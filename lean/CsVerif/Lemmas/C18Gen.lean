import CsVerif.Model.C18Gen
import CsVerif.Lemmas.PyUFile
import CsVerif.Lemmas.C18
/-! Helper lemmas for Props/C18Gen.lean: the operations of `Model/PyU_T18.lean` (cstruct types read from a file object) against the
`readStruct` / `fieldVal` / `readSections` of `Model/C18.lean`, and the definitions of `Gen/PyPe.lean` translated from pe.py against
`C18.findMzOffset`, `findArchitecture`, `findCompileStamps`, `findMagicMz`, `findMagicPe`, `findStagePrependAppend` (loop bodies against
`C18.probe`, the scan loops against `C18.scanLoop`, the straight-line parts against `compileStampsAt` / `magicMzAt` / `magicPeAt` /
`prependAppendAt`).  No property statements. -/
namespace C18Gen
open PyU C15Gen
open Gen.PeStruct
set_option linter.unusedSimpArgs false

theorem leNat_eq (b : Bytes) : t18LeNat b = C18.leNat b := by
  induction b with
  | nil => rfl
  | cons x t ih => simp only [t18LeNat, C18.leNat, ih]

theorem intVal_eq (buf : Bytes) (o s : Nat) (sg : Bool) : t18IntVal buf ⟨o, s, sg⟩ = C18.fieldVal buf ⟨o, s, sg⟩ := by
  simp only [t18IntVal, C18.fieldVal, C18.slice, leNat_eq]
  rfl

theorem readE_enc (ty : T18Ty) (f : PyFile) :
    t18ReadE ty (encFile f) = .ok ((C18.readStruct f ty.size).1.map (t18Value ty), encFile (C18.readStruct f ty.size).2) := by
  simp only [t18ReadE, fileRead_nat, C18.readStruct]
  split <;> rfl

theorem dos_lfanew (b : Bytes) :
    getAttr (t18Value Gen.PyPe.IMAGE_DOS_HEADER b) "e_lfanew" = .ok (.int (C18.fieldVal b dosLfanew)) := by
  have h : getAttr (t18Value Gen.PyPe.IMAGE_DOS_HEADER b) "e_lfanew"
      = .ok (.int (t18IntVal b ⟨dosLfanew.off, dosLfanew.size, dosLfanew.signed⟩)) := rfl
  rw [h, intVal_eq]

theorem fh_machine (b : Bytes) :
    getAttr (t18Value Gen.PyPe.IMAGE_FILE_HEADER b) "Machine" = .ok (.int (C18.fieldVal b fhMachine)) := by
  have h : getAttr (t18Value Gen.PyPe.IMAGE_FILE_HEADER b) "Machine"
      = .ok (.int (t18IntVal b ⟨fhMachine.off, fhMachine.size, fhMachine.signed⟩)) := rfl
  rw [h, intVal_eq]

/-- what one iteration of a scan loop answers: the loop control, the file, `ret0` -/
def bodyAns {α : Type} (classify : Int → Option α) (enc : Nat → α → V) (base : Nat) (r : Option Int × PyFile) : Ctl × V × V :=
  match r with
  | (some m, f1) =>
    (match classify m with
     | some a => (Ctl.brk, encFile f1, t18Ret (enc base a))
     | none => (Ctl.cont, encFile f1, t18NoRet))
  | (none, f1) => (Ctl.cont, encFile f1, t18NoRet)

theorem gen_find_mz_offset_loop1 (start maxrange off : Nat) (f : PyFile) :
    Gen.PyPe.find_mz_offset_loop1 (.int (start : Int)) (.int (maxrange : Int)) (.int (off : Int)) (encFile f, t18NoRet) =
      .ok (bodyAns C18.classifyMz (fun o _ => V.int (o : Int)) (start + off) (C18.probe f (start + off) maxrange)) := by
  unfold Gen.PyPe.find_mz_offset_loop1 C18.probe bodyAns
  have h0 : ((start : Int) + (off : Int)) = ((start + off : Nat) : Int) := by omega
  simp only [add_int, h0, fileSeek_nat, PyRt.ok_bind, readE_enc]
  have hsz : Gen.PyPe.IMAGE_DOS_HEADER.size = dosHeaderSize := rfl
  have hsz2 : Gen.PyPe.IMAGE_FILE_HEADER.size = fileHeaderSize := rfl
  rw [hsz]
  simp only [C18.seekNat]
  generalize C18.readStruct { data := f.data, pos := start + off, kind := f.kind } dosHeaderSize = r
  rcases r with ⟨_ | mz, f2⟩
  · rfl
  · simp only [Option.map, dos_lfanew, PyRt.ok_bind, gt_int, lt_int, add_int]
    by_cases h1 : 0 < C18.fieldVal mz dosLfanew
    · by_cases h2 : C18.fieldVal mz dosLfanew < (maxrange : Int)
      · have hsk : ((start + off : Nat) : Int) + 4 + C18.fieldVal mz dosLfanew = ((start + off + 4 + (C18.fieldVal mz dosLfanew).toNat : Nat) : Int) := by omega
        simp only [h1, h2, decide_true, if_true, and_self, hsk, fileSeek_nat, PyRt.ok_bind, readE_enc, hsz2]
        generalize C18.readStruct { data := f2.data, pos := start + off + 4 + (C18.fieldVal mz dosLfanew).toNat, kind := f2.kind } fileHeaderSize = r4
        rcases r4 with ⟨_ | img, f4⟩
        · rfl
        · simp only [Option.map, fh_machine, PyRt.ok_bind, contains, List.any, PyU.eq, C18.classifyMz]
          have ha : ((machineAmd64 : Nat) : Int) = 34404 := by decide
          have hi : ((machineI386 : Nat) : Int) = 332 := by decide
          rw [ha, hi]
          by_cases hA : C18.fieldVal img fhMachine = 34404
          · simp [hA, pure_ok]
          · by_cases hI : C18.fieldVal img fhMachine = 332
            · simp [hI, pure_ok]
            · simp [hA, hI, pure_ok]
      · simp only [h1, h2, decide_true, decide_false, if_true, if_false, and_false, Bool.false_eq_true]
        rfl
    · simp only [h1, decide_false, if_false, false_and, Bool.false_eq_true]
      rfl

/-- a scan loop of pe.py (`for offset in range(maxrange): … return …`) run by `forList`, against `C18.scanLoop` -/
theorem gen_scan_forList {α : Type} (classify : Int → Option α) (enc : Nat → α → V) (body : V → V × V → Py (Ctl × V × V))
    (start maxrange : Nat)
    (hbody : ∀ (off : Nat) (f : PyFile), body (.int (off : Int)) (encFile f, t18NoRet) =
      .ok (bodyAns classify enc (start + off) (C18.probe f (start + off) maxrange)))
    (l : List Nat) (f : PyFile) :
    forList (l.map fun (i : Nat) => V.int (i : Int)) body (encFile f, t18NoRet) =
      .ok (match C18.scanLoop classify start maxrange l f with
        | (some (o, a), f1) => (encFile f1, t18Ret (enc o a))
        | (none, f1) => (encFile f1, t18NoRet)) := by
  induction l generalizing f with
  | nil => rfl
  | cons off rest ih =>
    simp only [List.map_cons, forList, hbody, C18.scanLoop, bodyAns]
    rcases C18.probe f (start + off) maxrange with ⟨_ | m, f1⟩
    · simp only; exact ih f1
    · simp only
      cases classify m with
      | none => simp only; exact ih f1
      | some a => rfl

theorem rangeV_nat (n : Nat) : rangeV (.int (n : Int)) = .ok (.list ((List.range n).map fun (i : Nat) => V.int (i : Int))) := by
  simp only [rangeV, asInt, Int.toNat_natCast]

theorem iterList_list (xs : List V) : iterList (.list xs) = .ok xs := rfl

theorem gen_find_mz_offset_proof (f : PyFile) (start : Option Nat) (maxrange : Nat) :
    Gen.PyPe.find_mz_offset (encFile f) (encOptNat start) (.int (maxrange : Int)) = encRes encOptNat (C18.findMzOffset f start maxrange) := by
  unfold Gen.PyPe.find_mz_offset C18.findMzOffset
  have hl := gen_scan_forList C18.classifyMz (fun o _ => V.int (o : Int)) (Gen.PyPe.find_mz_offset_loop1 (.int ((C18.startOf f start : Nat) : Int)) (.int (maxrange : Int)))
    (C18.startOf f start) maxrange (fun off g => gen_find_mz_offset_loop1 _ _ off g) (List.range maxrange) f
  cases start with
  | none =>
    simp only [encOptNat, isNone, Bool.not_true, Bool.false_eq_true, if_false, fileTell_enc, PyRt.ok_bind, rangeV_nat, iterList_list]
    simp only [C18.startOf, PyFile.tell] at hl ⊢
    simp only [hl, PyRt.ok_bind]
    rcases C18.scanLoop C18.classifyMz f.pos maxrange (List.range maxrange) f with ⟨_ | ⟨o, u⟩, f1⟩ <;> rfl
  | some s =>
    simp only [encOptNat, isNone, Bool.not_false, if_true, PyRt.ok_bind, rangeV_nat, iterList_list]
    simp only [C18.startOf] at hl ⊢
    simp only [hl, PyRt.ok_bind]
    rcases C18.scanLoop C18.classifyMz s maxrange (List.range maxrange) f with ⟨_ | ⟨o, u⟩, f1⟩ <;> rfl


theorem gen_find_architecture_loop1 (start maxrange off : Nat) (f : PyFile) :
    Gen.PyPe.find_architecture_loop1 (.int (start : Int)) (.int (maxrange : Int)) (.int (off : Int)) (encFile f, t18NoRet) =
      .ok (bodyAns C18.classifyArch (fun _ a => encArch (some a)) (start + off) (C18.probe f (start + off) maxrange)) := by
  unfold Gen.PyPe.find_architecture_loop1 C18.probe bodyAns
  have h0 : ((start : Int) + (off : Int)) = ((start + off : Nat) : Int) := by omega
  simp only [add_int, h0, fileSeek_nat, PyRt.ok_bind, readE_enc]
  have hsz : Gen.PyPe.IMAGE_DOS_HEADER.size = dosHeaderSize := rfl
  have hsz2 : Gen.PyPe.IMAGE_FILE_HEADER.size = fileHeaderSize := rfl
  rw [hsz]
  simp only [C18.seekNat]
  generalize C18.readStruct { data := f.data, pos := start + off, kind := f.kind } dosHeaderSize = r
  rcases r with ⟨_ | mz, f2⟩
  · rfl
  · simp only [Option.map, dos_lfanew, PyRt.ok_bind, gt_int, lt_int, add_int]
    by_cases h1 : 0 < C18.fieldVal mz dosLfanew
    · by_cases h2 : C18.fieldVal mz dosLfanew < (maxrange : Int)
      · have hsk : ((start + off : Nat) : Int) + 4 + C18.fieldVal mz dosLfanew = ((start + off + 4 + (C18.fieldVal mz dosLfanew).toNat : Nat) : Int) := by omega
        simp only [h1, h2, decide_true, if_true, and_self, hsk, fileSeek_nat, PyRt.ok_bind, readE_enc, hsz2]
        generalize C18.readStruct { data := f2.data, pos := start + off + 4 + (C18.fieldVal mz dosLfanew).toNat, kind := f2.kind } fileHeaderSize = r4
        rcases r4 with ⟨_ | img, f4⟩
        · rfl
        · simp only [Option.map, fh_machine, PyRt.ok_bind, PyU.eq, C18.classifyArch]
          have ha : ((machineAmd64 : Nat) : Int) = 34404 := by decide
          have hi : ((machineI386 : Nat) : Int) = 332 := by decide
          rw [ha, hi]
          by_cases hA : C18.fieldVal img fhMachine = 34404
          · simp [hA, pure_ok]; rfl
          · by_cases hI : C18.fieldVal img fhMachine = 332
            · simp [hI, pure_ok]; rfl
            · simp [hA, hI, pure_ok]
      · simp only [h1, h2, decide_true, decide_false, if_true, if_false, and_false, Bool.false_eq_true]
        rfl
    · simp only [h1, decide_false, if_false, false_and, Bool.false_eq_true]
      rfl

theorem gen_find_architecture_proof (f : PyFile) (start : Option Nat) (maxrange : Nat) :
    Gen.PyPe.find_architecture (encFile f) (encOptNat start) (.int (maxrange : Int)) = encRes encArch (C18.findArchitecture f start maxrange) := by
  unfold Gen.PyPe.find_architecture C18.findArchitecture
  have hl := gen_scan_forList C18.classifyArch (fun _ a => encArch (some a)) (Gen.PyPe.find_architecture_loop1 (.int ((C18.startOf f start : Nat) : Int)) (.int (maxrange : Int)))
    (C18.startOf f start) maxrange (fun off g => gen_find_architecture_loop1 _ _ off g) (List.range maxrange) f
  cases start with
  | none =>
    simp only [encOptNat, isNone, Bool.not_true, Bool.false_eq_true, if_false, fileTell_enc, PyRt.ok_bind, rangeV_nat, iterList_list]
    simp only [C18.startOf, PyFile.tell] at hl ⊢
    simp only [hl, PyRt.ok_bind]
    rcases C18.scanLoop C18.classifyArch f.pos maxrange (List.range maxrange) f with ⟨_ | ⟨o, u⟩, f1⟩ <;> rfl
  | some s =>
    simp only [encOptNat, isNone, Bool.not_false, if_true, PyRt.ok_bind, rangeV_nat, iterList_list]
    simp only [C18.startOf] at hl ⊢
    simp only [hl, PyRt.ok_bind]
    rcases C18.scanLoop C18.classifyArch s maxrange (List.range maxrange) f with ⟨_ | ⟨o, u⟩, f1⟩ <;> rfl


theorem findFrom_eq (needle hay : Bytes) (i : Nat) : findFrom needle hay i = C18.findSub needle hay i := by
  induction hay generalizing i with
  | nil => unfold findFrom C18.findSub; rfl
  | cons x t ih => unfold findFrom C18.findSub; simp only [ih]

/-- `data.find(needle)` as an int (`-1` = not found) -/
def findInt (needle hay : Bytes) : Int := match C18.findSub needle hay 0 with | some p => (p : Int) | none => -1

theorem find_none (hay needle : Bytes) : PyU.find (.bytes hay) (.bytes needle) .none = .ok (.int (findInt needle hay)) := by
  simp only [PyU.find, bound, Option.getD, findList, findFrom_eq, findInt]
  simp
  rfl

theorem findInt_spec (needle hay : Bytes) :
    (∃ p : Nat, C18.findSub needle hay 0 = some p ∧ findInt needle hay = (p : Int)) ∨
    (C18.findSub needle hay 0 = none ∧ findInt needle hay = -1) := by
  unfold findInt
  cases C18.findSub needle hay 0 with
  | some p => exact Or.inl ⟨p, rfl, rfl⟩
  | none => exact Or.inr ⟨rfl, rfl⟩

theorem findSub_le (needle : Bytes) : ∀ (hay : Bytes) (i p : Nat), C18.findSub needle hay i = some p → p ≤ i + hay.length := by
  intro hay
  induction hay with
  | nil => intro i p h; unfold C18.findSub at h; split at h <;> simp_all
  | cons x t ih =>
    intro i p h
    unfold C18.findSub at h
    split at h
    · simp_all
    · have := ih (i + 1) p h
      simp only [List.length_cons]; omega

theorem slice_to_nat (d : Bytes) (n : Nat) : PyU.slice (.bytes d) .none (.int (n : Int)) = .ok (.bytes (d.take n)) := by
  have h1 : ¬ (n : Int) < 0 := by omega
  simp only [PyU.slice, bound, asInt, PyRt.ok_bind, pure_ok, PyRt.slice, PyRt.Bound.bound, PyRt.clampIdx, h1, if_false, id, List.drop_zero,
    Int.toNat_natCast]
  congr 2
  by_cases h : n ≤ d.length
  · rw [Nat.min_eq_left h]
  · rw [Nat.min_eq_right (by omega), List.take_of_length_le (Nat.le_refl _), List.take_of_length_le (by omega)]

theorem unpack2_tuple (a b : V) : unpack2 (.tuple [a, b]) = .ok (a, b) := rfl

theorem gen_find_magic_mz_proof (f : PyFile) (start : Option Nat) (maxrange : Nat) :
    Gen.PyPe.find_magic_mz (encFile f) (encOptNat start) (.int (maxrange : Int)) = encRes encOptBytes (C18.findMagicMz f start maxrange) := by
  unfold Gen.PyPe.find_magic_mz C18.findMagicMz
  simp only [gen_find_mz_offset_proof]
  rcases C18.findMzOffset f start maxrange with ⟨_ | o, f1⟩
  · rfl
  · simp only [encRes, PyRt.ok_bind, unpack2_tuple, encOptNat, isNone, Bool.false_eq_true, if_false, fileSeek_nat]
    have hr : fileRead (encFile { f1 with pos := o }) (.int 256) = .ok (.bytes (({ f1 with pos := o } : PyFile).read 256).1, encFile (({ f1 with pos := o } : PyFile).read 256).2) :=
      fileRead_enc _ 256 (Or.inl (by omega))
    simp only [hr, PyRt.ok_bind, find_none, C18.magicMzAt, C18.seekNat]
    generalize ({ data := f1.data, pos := o, kind := f1.kind } : PyFile).read 256 = r
    obtain ⟨data, g⟩ := r
    have hx86 : dosHeaderX86 = [232, 0, 0, 0, 0, 91] := rfl
    have hx64 : dosHeaderX64 = [85, 72, 137, 229, 72, 129] := rfl
    simp only [hx86, hx64]
    rcases findInt_spec [232, 0, 0, 0, 0, 91] data with ⟨p, hs, hi⟩ | ⟨hs, hi⟩
    · have : ((p : Int) == -1) = false := nat_ne_neg1 p
      have h0 : ¬ ((p : Int) < 0) := by omega
      simp only [hs, hi, eq_int, ge, lt_int, Except.map, PyRt.ok_bind, pure_ok, this, Bool.false_eq_true, if_false, h0, decide_false, Bool.not_false, if_true, slice_to_nat, encOptBytes]
    · simp only [hs, hi, eq_int, BEq.rfl, if_true]
      rcases findInt_spec [85, 72, 137, 229, 72, 129] data with ⟨p, hs2, hi2⟩ | ⟨hs2, hi2⟩
      · have h0 : ¬ ((p : Int) < 0) := by omega
        simp only [hs2, hi2, ge, lt_int, Except.map, PyRt.ok_bind, pure_ok, h0, decide_false, Bool.not_false, if_true, slice_to_nat, encOptBytes]
      · simp only [hs2, hi2, ge, lt_int, Except.map, PyRt.ok_bind, pure_ok, show ((-1 : Int) < 0) from by omega, decide_true, Bool.not_true, Bool.false_eq_true, if_false, encOptBytes]



theorem read_enc (ty : T18Ty) (f : PyFile) :
    t18Read ty (encFile f) = (match C18.readStruct f ty.size with
      | (none, _) => .error .eofError
      | (some b, f') => .ok (t18Value ty b, encFile f')) := by
  simp only [t18Read, readE_enc]
  rcases C18.readStruct f ty.size with ⟨_ | b, f'⟩ <;> rfl

theorem rstrip_zero (b : Bytes) : PyU.rstrip (.bytes b) (.bytes [0]) = .ok (.bytes (C18.rstrip0 b)) := by
  simp only [PyU.rstrip, rstripL, C18.rstrip0]
  congr 4
  funext c
  simp
  by_cases h : c = 0 <;> simp [h]

theorem gen_find_magic_pe_proof (f : PyFile) (start : Option Nat) (maxrange : Nat) :
    Gen.PyPe.find_magic_pe (encFile f) (encOptNat start) (.int (maxrange : Int)) = encPy encOptBytes (C18.findMagicPe f start maxrange) := by
  unfold Gen.PyPe.find_magic_pe C18.findMagicPe
  simp only [gen_find_mz_offset_proof]
  rcases C18.findMzOffset f start maxrange with ⟨_ | o, f1⟩
  · rfl
  · simp only [encRes, PyRt.ok_bind, unpack2_tuple, encOptNat, isNone, Bool.false_eq_true, if_false, fileSeek_nat, read_enc, C18.magicPeAt, C18.seekNat]
    have hsz : Gen.PyPe.IMAGE_DOS_HEADER.size = dosHeaderSize := rfl
    rw [hsz]
    generalize C18.readStruct { data := f1.data, pos := o, kind := f1.kind } dosHeaderSize = r
    rcases r with ⟨_ | mz, f2⟩
    · rfl
    · simp only [PyRt.ok_bind, dos_lfanew, add_int, fileSeek_set]
      cases hsk : f2.seekSet (C18.fieldVal mz dosLfanew + (o : Int)) with
      | error e => rfl
      | ok p3 =>
        obtain ⟨n3, f3⟩ := p3
        simp only [Except.map, PyRt.ok_bind, fileRead_4, rstrip_zero, encPy, pure_ok, encOptBytes]



/-! attributes of the structures -/
theorem fh_stamp (b : Bytes) :
    getAttr (t18Value Gen.PyPe.IMAGE_FILE_HEADER b) "TimeDateStamp" = .ok (.int (C18.fieldVal b fhTimeDateStamp)) := by
  have h : getAttr (t18Value Gen.PyPe.IMAGE_FILE_HEADER b) "TimeDateStamp"
      = .ok (.int (t18IntVal b ⟨fhTimeDateStamp.off, fhTimeDateStamp.size, fhTimeDateStamp.signed⟩)) := rfl
  rw [h, intVal_eq]
theorem fh_nsec (b : Bytes) :
    getAttr (t18Value Gen.PyPe.IMAGE_FILE_HEADER b) "NumberOfSections" = .ok (.int (C18.fieldVal b fhNumberOfSections)) := by
  have h : getAttr (t18Value Gen.PyPe.IMAGE_FILE_HEADER b) "NumberOfSections"
      = .ok (.int (t18IntVal b ⟨fhNumberOfSections.off, fhNumberOfSections.size, fhNumberOfSections.signed⟩)) := rfl
  rw [h, intVal_eq]

/-- the optional header read for `is64` -/
def optTy (is64 : Bool) : T18Ty := if is64 then Gen.PyPe.IMAGE_OPTIONAL_HEADER64 else Gen.PyPe.IMAGE_OPTIONAL_HEADER

theorem optTy_size (is64 : Bool) : (optTy is64).size = C18.optSize is64 := by cases is64 <;> rfl

/-- `optional_header.DataDirectory[IMAGE_DIRECTORY_ENTRY_EXPORT]` -/
def exportDD (is64 : Bool) (b : Bytes) : V := .inst Gen.PyPe._IMAGE_DATA_DIRECTORY_cls [.int (C18.fieldVal b (C18.optExportVA is64))]

theorem range_map_head {β : Type} (n : Nat) (g : Nat → β) (d : β) : ((List.range (n + 1)).map g).getD 0 d = g 0 := by
  rw [List.range_succ_eq_map]
  rfl

theorem getItem_list0 (x : V) (xs : List V) : getItem (.list (x :: xs)) (.int 0) = .ok x := by
  simp [getItem, asInt, PyRt.normIdx, Except.map]

theorem decode_arr_head (b : Bytes) (off count stride : Nat) (cls : Cls) (sub : List T18Int) :
    ∃ rest, t18Decode b (.arr off (count + 1) stride cls sub)
      = .list (.inst cls (sub.map fun s => .int (t18IntVal b { s with off := off + 0 * stride + s.off })) :: rest) := by
  simp only [t18Decode, List.range_succ_eq_map, List.map_cons]
  exact ⟨_, rfl⟩

theorem opt_dd (is64 : Bool) (b : Bytes) :
    (do let t20 ← getAttr (t18Value (optTy is64) b) "DataDirectory"
        getItem t20 (V.int 0) : Py V) = .ok (exportDD is64 b) := by
  cases is64
  · have h : getAttr (t18Value (optTy false) b) "DataDirectory" = .ok (t18Decode b (.arr 96 (15 + 1) 8 Gen.PyPe._IMAGE_DATA_DIRECTORY_cls [⟨0, 4, false⟩])) := rfl
    obtain ⟨rest, hr⟩ := decode_arr_head b 96 15 8 Gen.PyPe._IMAGE_DATA_DIRECTORY_cls [⟨0, 4, false⟩]
    rw [h, hr]
    simp only [PyRt.ok_bind, getItem_list0, List.map_cons, List.map_nil, intVal_eq, exportDD, C18.optExportVA, Bool.false_eq_true, if_false]
    rfl
  · have h : getAttr (t18Value (optTy true) b) "DataDirectory" = .ok (t18Decode b (.arr 112 (15 + 1) 8 Gen.PyPe._IMAGE_DATA_DIRECTORY_cls [⟨0, 4, false⟩])) := rfl
    obtain ⟨rest, hr⟩ := decode_arr_head b 112 15 8 Gen.PyPe._IMAGE_DATA_DIRECTORY_cls [⟨0, 4, false⟩]
    rw [h, hr]
    simp only [PyRt.ok_bind, getItem_list0, List.map_cons, List.map_nil, intVal_eq, exportDD, C18.optExportVA, if_true]
    rfl

theorem dd_va (is64 : Bool) (b : Bytes) : getAttr (exportDD is64 b) "VirtualAddress" = .ok (.int (C18.fieldVal b (C18.optExportVA is64))) := rfl

theorem sec_attr (b : Bytes) :
    getAttr (t18Value Gen.PyPe.IMAGE_SECTION_HEADER b) "VirtualSize" = .ok (.int (C18.fieldVal b secVirtualSize)) ∧
    getAttr (t18Value Gen.PyPe.IMAGE_SECTION_HEADER b) "VirtualAddress" = .ok (.int (C18.fieldVal b secVirtualAddress)) ∧
    getAttr (t18Value Gen.PyPe.IMAGE_SECTION_HEADER b) "SizeOfRawData" = .ok (.int (C18.fieldVal b secSizeOfRawData)) ∧
    getAttr (t18Value Gen.PyPe.IMAGE_SECTION_HEADER b) "PointerToRawData" = .ok (.int (C18.fieldVal b secPointerToRawData)) := by
  have h1 : getAttr (t18Value Gen.PyPe.IMAGE_SECTION_HEADER b) "VirtualSize"
      = .ok (.int (t18IntVal b ⟨secVirtualSize.off, secVirtualSize.size, secVirtualSize.signed⟩)) := rfl
  have h2 : getAttr (t18Value Gen.PyPe.IMAGE_SECTION_HEADER b) "VirtualAddress"
      = .ok (.int (t18IntVal b ⟨secVirtualAddress.off, secVirtualAddress.size, secVirtualAddress.signed⟩)) := rfl
  have h3 : getAttr (t18Value Gen.PyPe.IMAGE_SECTION_HEADER b) "SizeOfRawData"
      = .ok (.int (t18IntVal b ⟨secSizeOfRawData.off, secSizeOfRawData.size, secSizeOfRawData.signed⟩)) := rfl
  have h4 : getAttr (t18Value Gen.PyPe.IMAGE_SECTION_HEADER b) "PointerToRawData"
      = .ok (.int (t18IntVal b ⟨secPointerToRawData.off, secPointerToRawData.size, secPointerToRawData.signed⟩)) := rfl
  rw [h1, h2, h3, h4, intVal_eq, intVal_eq, intVal_eq, intVal_eq]
  exact ⟨rfl, rfl, rfl, rfl⟩

theorem exp_stamp (b : Bytes) :
    getAttr (t18Value Gen.PyPe.IMAGE_EXPORT_DIRECTORY b) "TimeDateStamp" = .ok (.int (C18.fieldVal b expTimeDateStamp)) := by
  have h : getAttr (t18Value Gen.PyPe.IMAGE_EXPORT_DIRECTORY b) "TimeDateStamp"
      = .ok (.int (t18IntVal b ⟨expTimeDateStamp.off, expTimeDateStamp.size, expTimeDateStamp.signed⟩)) := rfl
  rw [h, intVal_eq]

theorem le_int (a b : Int) : PyU.le (.int a) (.int b) = .ok (decide (a ≤ b)) := by
  simp only [PyU.le, lt_int, Except.map]
  congr 1
  by_cases h : a ≤ b
  · have : ¬ b < a := by omega
    simp [h, this]
  · have : b < a := by omega
    simp [h, this]

/-- the `for section in sections:` loop of find_compile_stamps -/
theorem gen_find_compile_stamps_loop1 (is64 : Bool) (opt : Bytes) (secs : List Bytes) :
    forList (secs.map (t18Value Gen.PyPe.IMAGE_SECTION_HEADER)) (Gen.PyPe.find_compile_stamps_loop1 (exportDD is64 opt)) V.none
      = .ok (match secs.find? (C18.sectionContains (C18.fieldVal opt (C18.optExportVA is64))) with
        | some ds => t18Value Gen.PyPe.IMAGE_SECTION_HEADER ds
        | none => V.none) := by
  induction secs with
  | nil => rfl
  | cons s rest ih =>
    obtain ⟨a1, a2, _, _⟩ := sec_attr s
    simp only [List.map_cons, forList, Gen.PyPe.find_compile_stamps_loop1, a1, a2, dd_va, PyRt.ok_bind, le_int, lt_int, add_int, List.find?,
      C18.sectionContains]
    by_cases h1 : C18.fieldVal s secVirtualAddress ≤ C18.fieldVal opt (C18.optExportVA is64)
    · by_cases h2 : C18.fieldVal opt (C18.optExportVA is64) < C18.fieldVal s secVirtualAddress + C18.fieldVal s secVirtualSize
      · simp only [h1, h2, decide_true, if_true, and_self, PyRt.ok_bind, pure_ok]
      · simp only [h1, h2, decide_true, decide_false, if_true, if_false, and_false, Bool.false_eq_true, PyRt.ok_bind, pure_ok]
        exact ih
    · simp only [h1, decide_false, if_false, false_and, Bool.false_eq_true, PyRt.ok_bind, pure_ok]
      exact ih

theorem leNat_lt (b : Bytes) : C18.leNat b < 256 ^ b.length := by
  induction b with
  | nil => simp [C18.leNat]
  | cons x t ih =>
    simp only [C18.leNat, List.length_cons, Nat.pow_succ]
    have := x.toNat_lt
    omega

theorem toBytes4 (n : Int) (h0 : 0 ≤ n) (h1 : n < 4294967296) :
    t18ToBytes (.int n) (.int 4) (PyU.lit "little") = .ok (.bytes (PyRt.toLE 4 n.toNat)) := by
  have ho : PyRt.orderLittle (PyU.cps "little") = .ok true := by decide
  have hf : (decide (0 ≤ n ∧ n < ((256 ^ (4:Int).toNat : Nat) : Int))) = true := by
    simp only [decide_eq_true_eq]
    refine ⟨h0, ?_⟩
    have : ((256 ^ (4:Int).toNat : Nat) : Int) = 4294967296 := by decide
    omega
  simp only [t18ToBytes, asInt, PyU.lit, PyRt.intToBytes, ho]
  rw [if_neg (by decide)]
  simp only [Bool.false_eq_true, if_false, hf, Bool.not_true]
  have hn : ¬ n < 0 := by omega
  simp only [if_true, hn, if_false, Except.map]
  rfl

/-- `pestruct.uint32(fh).to_bytes(4, "little")` never raises -/
theorem toBytes_u32 (b : Bytes) : ∃ v, t18ToBytes (t18Value (.int 4 false) b) (.int 4) (PyU.lit "little") = .ok v := by
  have hlt : C18.leNat (C18.slice b 0 4) < 4294967296 := by
    have h1 := leNat_lt (C18.slice b 0 4)
    have h2 : (C18.slice b 0 4).length ≤ 4 := by simp [C18.slice]; omega
    have h3 : 256 ^ (C18.slice b 0 4).length ≤ 256 ^ 4 := Nat.pow_le_pow_right (by omega) h2
    have h4 : (256 : Nat) ^ 4 = 4294967296 := by decide
    omega
  have hv : t18Value (.int 4 false) b = .int ((C18.leNat (C18.slice b 0 4) : Nat) : Int) := by
    simp only [t18Value, intVal_eq, C18.fieldVal, Bool.false_and, Bool.false_eq_true, if_false]
  rw [hv]
  exact ⟨_, toBytes4 _ (by omega) (by omega)⟩

theorem readManyGo_enc (ty : T18Ty) (hs : ty.size = Gen.PeStruct.sectionSize) (n : Nat) (f : PyFile) :
    t18ReadManyGo ty n (encFile f) = .ok ((C18.readSections n f).1.map (List.map (t18Value ty)), encFile (C18.readSections n f).2) := by
  induction n generalizing f with
  | zero => rfl
  | succ n ih =>
    unfold t18ReadManyGo C18.readSections
    rw [readE_enc, hs]
    rcases C18.readStruct f Gen.PeStruct.sectionSize with ⟨_ | b, f1⟩
    · rfl
    · simp only [Option.map]
      rw [ih f1]
      rcases C18.readSections n f1 with ⟨_ | bs, f2⟩ <;> rfl

theorem readManyE_enc (n : Int) (f : PyFile) :
    t18ReadManyE Gen.PyPe.IMAGE_SECTION_HEADER (encFile f) (.int n)
      = .ok ((C18.readSections n.toNat f).1.map (fun bs => V.list (bs.map (t18Value Gen.PyPe.IMAGE_SECTION_HEADER))),
             encFile (C18.readSections n.toNat f).2) := by
  simp only [t18ReadManyE, asInt, readManyGo_enc Gen.PyPe.IMAGE_SECTION_HEADER rfl]
  rcases C18.readSections n.toNat f with ⟨_ | bs, f2⟩ <;> rfl

theorem isNone_value_struct (cls : Cls) (size : Nat) (flds : List T18Fld) (b : Bytes) : isNone (t18Value (.struct cls size flds) b) = false := rfl


/-- `optional_header.DataDirectory` -/
def ddList (is64 : Bool) (b : Bytes) : V :=
  t18Decode b (.arr (if is64 then 112 else 96) (15 + 1) 8 Gen.PyPe._IMAGE_DATA_DIRECTORY_cls [⟨0, 4, false⟩])

theorem opt_dd_attr (is64 : Bool) (b : Bytes) : getAttr (t18Value (optTy is64) b) "DataDirectory" = .ok (ddList is64 b) := by
  cases is64 <;> rfl

theorem dd_item0 (is64 : Bool) (b : Bytes) : getItem (ddList is64 b) (.int 0) = .ok (exportDD is64 b) := by
  obtain ⟨rest, hr⟩ := decode_arr_head b (if is64 then 112 else 96) 15 8 Gen.PyPe._IMAGE_DATA_DIRECTORY_cls [⟨0, 4, false⟩]
  rw [ddList, hr, getItem_list0]
  cases is64 <;> simp only [List.map_cons, List.map_nil, intVal_eq, exportDD, C18.optExportVA, if_true, Bool.false_eq_true, if_false] <;> rfl

theorem isNone_sec (b : Bytes) : isNone (t18Value Gen.PyPe.IMAGE_SECTION_HEADER b) = false := rfl

theorem gen_find_compile_stamps_proof (f : PyFile) (start : Option Nat) (maxrange : Nat) :
    Gen.PyPe.find_compile_stamps (encFile f) (encOptNat start) (.int (maxrange : Int)) = encPy encStamps (C18.findCompileStamps f start maxrange) := by
  unfold Gen.PyPe.find_compile_stamps C18.findCompileStamps
  simp only [gen_find_mz_offset_proof]
  rcases C18.findMzOffset f start maxrange with ⟨_ | o, f1⟩
  · rfl
  · simp only [encRes, PyRt.ok_bind, unpack2_tuple, encOptNat, isNone, Bool.false_eq_true, if_false, fileSeek_nat, readE_enc, C18.compileStampsAt, C18.seekNat]
    have hsz : Gen.PyPe.IMAGE_DOS_HEADER.size = dosHeaderSize := rfl
    have hsz2 : Gen.PyPe.IMAGE_FILE_HEADER.size = fileHeaderSize := rfl
    have hsz3 : (T18Ty.int 4 false).size = sigSize := rfl
    have hsz4 : Gen.PyPe.IMAGE_EXPORT_DIRECTORY.size = exportDirSize := rfl
    rw [hsz]
    generalize C18.readStruct { data := f1.data, pos := o, kind := f1.kind } dosHeaderSize = r
    rcases r with ⟨_ | mz, f2⟩
    · rfl
    · simp only [Option.map, PyRt.ok_bind, dos_lfanew, add_int, fileSeek_set]
      cases hsk : f2.seekSet (C18.fieldVal mz dosLfanew + (o : Int)) with
      | error e => rfl
      | ok p3 =>
        obtain ⟨n3, f3⟩ := p3
        simp only [Except.map, PyRt.ok_bind, readE_enc, hsz3]
        generalize C18.readStruct f3 sigSize = r4
        rcases r4 with ⟨_ | sg, f4⟩
        · rfl
        · obtain ⟨sv, hsv⟩ := toBytes_u32 sg
          simp only [Option.map, hsv, PyRt.ok_bind, readE_enc, hsz2]
          generalize C18.readStruct f4 fileHeaderSize = r5
          rcases r5 with ⟨_ | img, f5⟩
          · rfl
          · simp only [Option.map, PyRt.ok_bind, fh_stamp, fh_machine, PyU.eq]
            have ha : ((machineAmd64 : Nat) : Int) = 34404 := by decide
            rw [ha]
            by_cases hA : C18.fieldVal img fhMachine = 34404
            · have hb : (C18.fieldVal img fhMachine == 34404) = true := by simpa using hA
              have hd : decide (C18.fieldVal img fhMachine = 34404) = true := decide_eq_true hA
              simp only [hb, hd, if_true]
              rw [show Gen.PyPe.IMAGE_OPTIONAL_HEADER64 = optTy true from rfl, optTy_size]
              generalize C18.readStruct f5 (C18.optSize true) = r6
              rcases r6 with ⟨_ | opt, f6⟩
              · rfl
              · simp only [PyRt.ok_bind, opt_dd_attr, dd_item0, fh_nsec, readManyE_enc]
                generalize C18.readSections (C18.fieldVal img fhNumberOfSections).toNat f6 = r7
                rcases r7 with ⟨_ | secs, f7⟩
                · rfl
                · simp only [Option.map, PyRt.ok_bind, iterList_list, gen_find_compile_stamps_loop1]
                  cases hfind : List.find? (C18.sectionContains (C18.fieldVal opt (C18.optExportVA true))) secs with
                  | none => rfl
                  | some ds =>
                    obtain ⟨_, a2, _, a4⟩ := sec_attr ds
                    simp only [isNone_sec, Bool.not_false, if_true, dd_va, a2, a4, sub_int, add_int, PyRt.ok_bind, fileSeek_set]
                    cases hsk8 : f7.seekSet (C18.fieldVal opt (C18.optExportVA true) - C18.fieldVal ds secVirtualAddress + C18.fieldVal ds secPointerToRawData + (o : Int)) with
                    | error e => rfl
                    | ok p8 =>
                      obtain ⟨n8, f8⟩ := p8
                      simp only [Except.map, PyRt.ok_bind, readE_enc, hsz4]
                      generalize C18.readStruct f8 exportDirSize = r9
                      rcases r9 with ⟨_ | ed, f9⟩
                      · rfl
                      · simp only [Option.map, PyRt.ok_bind, exp_stamp, pure_ok]
                        rfl
            · have hb : (C18.fieldVal img fhMachine == 34404) = false := by simpa using hA
              have hd : decide (C18.fieldVal img fhMachine = 34404) = false := decide_eq_false hA
              simp only [hb, hd, Bool.false_eq_true, if_false]
              rw [show Gen.PyPe.IMAGE_OPTIONAL_HEADER = optTy false from rfl, optTy_size]
              generalize C18.readStruct f5 (C18.optSize false) = r6
              rcases r6 with ⟨_ | opt, f6⟩
              · rfl
              · simp only [PyRt.ok_bind, opt_dd_attr, dd_item0, fh_nsec, readManyE_enc]
                generalize C18.readSections (C18.fieldVal img fhNumberOfSections).toNat f6 = r7
                rcases r7 with ⟨_ | secs, f7⟩
                · rfl
                · simp only [Option.map, PyRt.ok_bind, iterList_list, gen_find_compile_stamps_loop1]
                  cases hfind : List.find? (C18.sectionContains (C18.fieldVal opt (C18.optExportVA false))) secs with
                  | none => rfl
                  | some ds =>
                    obtain ⟨_, a2, _, a4⟩ := sec_attr ds
                    simp only [isNone_sec, Bool.not_false, if_true, dd_va, a2, a4, sub_int, add_int, PyRt.ok_bind, fileSeek_set]
                    cases hsk8 : f7.seekSet (C18.fieldVal opt (C18.optExportVA false) - C18.fieldVal ds secVirtualAddress + C18.fieldVal ds secPointerToRawData + (o : Int)) with
                    | error e => rfl
                    | ok p8 =>
                      obtain ⟨n8, f8⟩ := p8
                      simp only [Except.map, PyRt.ok_bind, readE_enc, hsz4]
                      generalize C18.readStruct f8 exportDirSize = r9
                      rcases r9 with ⟨_ | ed, f9⟩
                      · rfl
                      · simp only [Option.map, PyRt.ok_bind, exp_stamp, pure_ok]
                        rfl


theorem opt_soh (is64 : Bool) (b : Bytes) :
    getAttr (t18Value (optTy is64) b) "SizeOfHeaders" = .ok (.int (C18.fieldVal b (C18.optSizeOfHeaders is64))) := by
  cases is64
  · have h : getAttr (t18Value (optTy false) b) "SizeOfHeaders"
        = .ok (.int (t18IntVal b ⟨opt32SizeOfHeaders.off, opt32SizeOfHeaders.size, opt32SizeOfHeaders.signed⟩)) := rfl
    rw [h, intVal_eq]; rfl
  · have h : getAttr (t18Value (optTy true) b) "SizeOfHeaders"
        = .ok (.int (t18IntVal b ⟨opt64SizeOfHeaders.off, opt64SizeOfHeaders.size, opt64SizeOfHeaders.signed⟩)) := rfl
    rw [h, intVal_eq]; rfl

/-- the `for section in sections: size += section.SizeOfRawData` loop -/
theorem gen_find_stage_prepend_append_loop1 (secs : List Bytes) (init : Int) :
    forList (secs.map (t18Value Gen.PyPe.IMAGE_SECTION_HEADER)) Gen.PyPe.find_stage_prepend_append_loop1 (V.int init)
      = .ok (V.int (secs.foldl (fun acc s => acc + C18.fieldVal s secSizeOfRawData) init)) := by
  induction secs generalizing init with
  | nil => rfl
  | cons s rest ih =>
    obtain ⟨_, _, a3, _⟩ := sec_attr s
    simp only [List.map_cons, forList, Gen.PyPe.find_stage_prepend_append_loop1, a3, PyRt.ok_bind, iadd_int, pure_ok, List.foldl_cons]
    exact ih _

theorem attempt_ok {α : Type} (excs : List PyExc) (x : α) : attempt excs (.ok x : Py α) = .ok (some x) := rfl

theorem totalSize_nonneg (opt : Bytes) (is64 : Bool) (secs : List Bytes) : 0 ≤ C18.totalSize opt is64 secs := by
  unfold C18.totalSize
  apply C18.foldl_rawsize_nonneg
  apply C18.leNat_nonneg_field
  cases is64 <;> rfl

theorem isNone_int (n : Int) : isNone (.int n) = false := rfl
theorem isNone_bytes (b : Bytes) : isNone (.bytes b) = false := rfl
theorem isNone_none : isNone .none = true := rfl

/-- `if mz_offset > 0: fh.seek(0); prepend = fh.read(mz_offset)` in front of any continuation `K (prepend, fh)` -/
theorem gen_find_stage_prepend_append_prefix (f1 : PyFile) (o : Nat) (K : V × V → Py V) :
    (if decide ((0 : Int) < (o : Int)) = true then
      (do let t4 ← fileSeek (encFile f1) (V.int 0) (V.int 0)
          let t5 ← fileRead t4.snd (V.int (o : Int))
          K t5)
     else K (V.none, encFile f1))
    = K (encOptBytes (if o > 0 then (some ((C18.seekNat f1 0).read (o : Int)).fst, ((C18.seekNat f1 0).read (o : Int)).snd) else (none, f1)).fst,
         encFile (if o > 0 then (some ((C18.seekNat f1 0).read (o : Int)).fst, ((C18.seekNat f1 0).read (o : Int)).snd) else (none, f1)).snd) := by
  have h0 : fileSeek (encFile f1) (V.int 0) (V.int 0) = .ok (.int 0, encFile { f1 with pos := 0 }) := fileSeek_nat f1 0
  by_cases ho : 0 < o
  · have ho' : decide ((0 : Int) < (o : Int)) = true := by simpa using ho
    simp only [ho', if_true, h0, PyRt.ok_bind, fileRead_nat, ho, C18.seekNat, encOptBytes, gt_iff_lt]
  · have ho' : decide ((0 : Int) < (o : Int)) = false := by simpa using ho
    simp only [ho', Bool.false_eq_true, if_false, ho, encOptBytes, gt_iff_lt]

theorem gen_find_stage_prepend_append_proof (f : PyFile) (start : Option Nat) (maxrange : Nat) :
    Gen.PyPe.find_stage_prepend_append (encFile f) (encOptNat start) (.int (maxrange : Int))
      = encPy encPair (C18.findStagePrependAppend f start maxrange) := by
  unfold Gen.PyPe.find_stage_prepend_append C18.findStagePrependAppend
  simp only [gen_find_mz_offset_proof]
  rcases C18.findMzOffset f start maxrange with ⟨_ | o, f1⟩
  · rfl
  · simp only [encRes, PyRt.ok_bind, unpack2_tuple, encOptNat, isNone_int, Bool.false_eq_true, if_false, gt_int]
    rw [gen_find_stage_prepend_append_prefix]
    simp only [C18.prependAppendAt]
    generalize (if o > 0 then (some ((C18.seekNat f1 0).read (o : Int)).fst, ((C18.seekNat f1 0).read (o : Int)).snd) else (none, f1)) = pf
    obtain ⟨p, g⟩ := pf
    simp only [fileSeek_nat, PyRt.ok_bind, readE_enc, C18.seekNat]
    have hsz : Gen.PyPe.IMAGE_DOS_HEADER.size = dosHeaderSize := rfl
    have hsz2 : Gen.PyPe.IMAGE_FILE_HEADER.size = fileHeaderSize := rfl
    rw [hsz]
    generalize C18.readStruct { data := g.data, pos := o, kind := g.kind } dosHeaderSize = r
    rcases r with ⟨_ | mz, f2⟩
    · rfl
    · simp only [Option.map, PyRt.ok_bind, dos_lfanew, add_int, fileSeek_set]
      cases hsk : f2.seekSet (C18.fieldVal mz dosLfanew + (o : Int) + 4) with
      | error e => rfl
      | ok p3 =>
        obtain ⟨n3, f3⟩ := p3
        simp only [Except.map, PyRt.ok_bind, readE_enc, hsz2]
        generalize C18.readStruct f3 fileHeaderSize = r5
        rcases r5 with ⟨_ | img, f4⟩
        · rfl
        · simp only [Option.map, PyRt.ok_bind, fh_machine, PyU.eq]
          have ha : ((machineAmd64 : Nat) : Int) = 34404 := by decide
          have hi : ((machineI386 : Nat) : Int) = 332 := by decide
          rw [ha, hi]
          by_cases hA : C18.fieldVal img fhMachine = 34404
          · have hb : (C18.fieldVal img fhMachine == 34404) = true := by simpa using hA
            have hd : decide (C18.fieldVal img fhMachine = 34404) = true := decide_eq_true hA
            have hor : C18.fieldVal img fhMachine = 34404 ∨ C18.fieldVal img fhMachine = 332 := Or.inl hA
            simp only [hb, hd, hor, if_true]
            rw [show Gen.PyPe.IMAGE_OPTIONAL_HEADER64 = optTy true from rfl, optTy_size]
            generalize C18.readStruct f4 (C18.optSize true) = r6
            rcases r6 with ⟨_ | opt, f5⟩
            · rfl
            · simp only [Option.map, PyRt.ok_bind, opt_soh, fh_nsec, readManyE_enc]
              generalize C18.readSections (C18.fieldVal img fhNumberOfSections).toNat f5 = r7
              rcases r7 with ⟨_ | secs, f6⟩
              · rfl
              · have hnn := totalSize_nonneg opt true secs
                have hts : (o : Int) + C18.totalSize opt true secs
                    = (o : Int) + secs.foldl (fun acc s => acc + C18.fieldVal s secSizeOfRawData) (C18.fieldVal opt (C18.optSizeOfHeaders true)) := rfl
                have hsk7 : f6.seekSet ((o : Int) + C18.totalSize opt true secs)
                    = .ok (((o : Int) + C18.totalSize opt true secs).toNat, { f6 with pos := ((o : Int) + C18.totalSize opt true secs).toNat }) := by
                  cases f6; exact C18.seekSet_nonneg _ _ _ _ (by omega)
                simp only [Option.map, PyRt.ok_bind, iterList_list, gen_find_stage_prepend_append_loop1, attempt_ok, add_int, fileSeek_set, ← hts, hsk7, Except.map]
                have hr : fileRead (encFile { f6 with pos := ((o : Int) + C18.totalSize opt true secs).toNat }) (.int 1024)
                    = .ok (.bytes (({ f6 with pos := ((o : Int) + C18.totalSize opt true secs).toNat } : PyFile).read 1024).1,
                           encFile (({ f6 with pos := ((o : Int) + C18.totalSize opt true secs).toNat } : PyFile).read 1024).2) :=
                  fileRead_enc _ 1024 (Or.inl (by omega))
                simp only [hr, PyRt.ok_bind, truthy_bytes]
                generalize ({ f6 with pos := ((o : Int) + C18.totalSize opt true secs).toNat } : PyFile).read 1024 = r8
                obtain ⟨ab, f8⟩ := r8
                cases hab : ab.isEmpty with
                | true => simp only [Bool.not_true, Bool.not_false, if_true, isNone_none, Bool.false_eq_true, if_false, pure_ok]; rfl
                | false => simp only [Bool.not_false, Bool.not_true, Bool.false_eq_true, if_false, isNone_bytes, if_true, rstrip_zero, PyRt.ok_bind, pure_ok]; rfl
          · have hb : (C18.fieldVal img fhMachine == 34404) = false := by simpa using hA
            have hd : decide (C18.fieldVal img fhMachine = 34404) = false := decide_eq_false hA
            by_cases hI : C18.fieldVal img fhMachine = 332
            · have hb2 : (C18.fieldVal img fhMachine == 332) = true := by simpa using hI
              have hor : C18.fieldVal img fhMachine = 34404 ∨ C18.fieldVal img fhMachine = 332 := Or.inr hI
              simp only [hb, hb2, hd, hor, Bool.false_eq_true, if_false, if_true]
              rw [show Gen.PyPe.IMAGE_OPTIONAL_HEADER = optTy false from rfl, optTy_size]
              generalize C18.readStruct f4 (C18.optSize false) = r6
              rcases r6 with ⟨_ | opt, f5⟩
              · rfl
              · simp only [Option.map, PyRt.ok_bind, opt_soh, fh_nsec, readManyE_enc]
                generalize C18.readSections (C18.fieldVal img fhNumberOfSections).toNat f5 = r7
                rcases r7 with ⟨_ | secs, f6⟩
                · rfl
                · have hnn := totalSize_nonneg opt false secs
                  have hts : (o : Int) + C18.totalSize opt false secs
                      = (o : Int) + secs.foldl (fun acc s => acc + C18.fieldVal s secSizeOfRawData) (C18.fieldVal opt (C18.optSizeOfHeaders false)) := rfl
                  have hsk7 : f6.seekSet ((o : Int) + C18.totalSize opt false secs)
                      = .ok (((o : Int) + C18.totalSize opt false secs).toNat, { f6 with pos := ((o : Int) + C18.totalSize opt false secs).toNat }) := by
                    cases f6; exact C18.seekSet_nonneg _ _ _ _ (by omega)
                  simp only [Option.map, PyRt.ok_bind, iterList_list, gen_find_stage_prepend_append_loop1, attempt_ok, add_int, fileSeek_set, ← hts, hsk7, Except.map]
                  have hr : fileRead (encFile { f6 with pos := ((o : Int) + C18.totalSize opt false secs).toNat }) (.int 1024)
                      = .ok (.bytes (({ f6 with pos := ((o : Int) + C18.totalSize opt false secs).toNat } : PyFile).read 1024).1,
                             encFile (({ f6 with pos := ((o : Int) + C18.totalSize opt false secs).toNat } : PyFile).read 1024).2) :=
                    fileRead_enc _ 1024 (Or.inl (by omega))
                  simp only [hr, PyRt.ok_bind, truthy_bytes]
                  generalize ({ f6 with pos := ((o : Int) + C18.totalSize opt false secs).toNat } : PyFile).read 1024 = r8
                  obtain ⟨ab, f8⟩ := r8
                  cases hab : ab.isEmpty with
                  | true => simp only [Bool.not_true, Bool.not_false, if_true, isNone_none, Bool.false_eq_true, if_false, pure_ok]; rfl
                  | false => simp only [Bool.not_false, Bool.not_true, Bool.false_eq_true, if_false, isNone_bytes, if_true, rstrip_zero, PyRt.ok_bind, pure_ok]; rfl
            · have hb2 : (C18.fieldVal img fhMachine == 332) = false := by simpa using hI
              have hnor : ¬ (C18.fieldVal img fhMachine = 34404 ∨ C18.fieldVal img fhMachine = 332) := by
                intro h; cases h <;> contradiction
              simp only [hb, hb2, hnor, Bool.false_eq_true, if_false, pure_ok]
              rfl


/-! ### version deduction -/

theorem keyEq_int (a b : Int) : keyEq (.int a) (.int b) = (a == b) := by
  simp [keyEq, PyU.eq]

theorem findKey_versionDict (es : List Gen.Version.Entry) (k : Int) :
    findKey (.int k) (es.map fun e => V.int (e.key : Int)) (es.map fun e => V.str e.text)
      = (es.find? (fun e => decide ((e.key : Int) = k))).map (fun e => V.str e.text) := by
  induction es with
  | nil => rfl
  | cons e rest ih =>
    simp only [List.map_cons, findKey, keyEq_int, List.find?]
    by_cases h : (e.key : Int) = k
    · have : (k == (e.key : Int)) = true := by simp [h]
      simp [this, h]
    · have : (k == (e.key : Int)) = false := by
        simp only [beq_eq_false_iff_ne, ne_eq]; exact fun h' => h h'.symm
      simp [this, h, ih]

theorem dictGet_versionDict (es : List Gen.Version.Entry) (k : Int) :
    dictGet (Gen.PyPe.versionDict es) (.int k) (PyU.lit "Unknown") = .ok (.str (match es.find? (fun e => decide ((e.key : Int) = k)) with
      | some e => e.text
      | none => cps "Unknown")) := by
  simp only [dictGet, Gen.PyPe.versionDict, hashable, if_true, findKey_versionDict]
  cases es.find? (fun e => decide ((e.key : Int) = k)) <;> rfl

theorem unknown_cps : cps "Unknown" = Gen.Version.unknownText := by decide +kernel

theorem gen_from_pe_export_stamp_proof (bv : V → Py V) (cls : V) (k : Int) :
    Gen.PyPe.from_pe_export_stamp bv cls (.int k) = bv (.str (C18.lookup Gen.Version.peExportStampEntries k)) := by
  simp only [Gen.PyPe.from_pe_export_stamp, dictGet_versionDict, PyRt.ok_bind, C18.lookup, unknown_cps]
  cases bv (V.str _) <;> rfl

theorem gen_from_max_setting_enum_proof (bv : V → Py V) (cls : V) (k : Int) :
    Gen.PyPe.from_max_setting_enum bv cls (.int k) = bv (.str (C18.lookup Gen.Version.maxEnumEntries k)) := by
  simp only [Gen.PyPe.from_max_setting_enum, dictGet_versionDict, PyRt.ok_bind, C18.lookup, unknown_cps]
  cases bv (V.str _) <;> rfl

/-- `BeaconConfig.version` for ANY `BeaconVersion` constructor `bv` and any object whose `pe_export_stamp` is `None` or an int and whose
`max_setting_enum` getter answers `max` of the setting indices (ValueError when there are none) -/
theorem gen_config_version_proof (bv : V → Py V) (mse : V → Py V) (self : V) (stamp : Option Int) (enums : List Nat)
    (hattr : getAttr self "pe_export_stamp" = .ok (encOptI stamp))
    (hmse : mse self = (C18.maxEnumOf enums).map fun (n : Nat) => V.int (n : Int)) :
    Gen.PyPe.config_version bv mse self = (C18.configVersion stamp enums).bind (fun t => bv (.str t)) := by
  unfold Gen.PyPe.config_version C18.configVersion C18.enumVersion
  simp only [hattr, PyRt.ok_bind, hmse]
  cases stamp with
  | none =>
    simp only [encOptI, truthy, Bool.false_eq_true, if_false]
    cases C18.maxEnumOf enums with
    | error e => rfl
    | ok m =>
      simp only [Except.map, PyRt.ok_bind, gen_from_max_setting_enum_proof, Except.bind]
  | some s =>
    by_cases hs : s = 0
    · subst hs
      simp only [encOptI, truthy, bne_self_eq_false, Bool.false_eq_true, if_false, ne_eq, not_true_eq_false]
      cases C18.maxEnumOf enums with
      | error e => rfl
      | ok m =>
        simp only [Except.map, PyRt.ok_bind, gen_from_max_setting_enum_proof, Except.bind]
    · have : (s != 0) = true := by simpa using hs
      simp only [encOptI, truthy, this, if_true, PyRt.ok_bind, gen_from_pe_export_stamp_proof, ne_eq, hs, not_false_eq_true, Except.bind]


/-! ### arguments beyond the model's `Nat` domain: any int `start_offset`, any int `maxrange` -/

theorem rangeV_nonpos (m : Int) (h : m.toNat = 0) : rangeV (.int m) = .ok (.list []) := by
  simp only [rangeV, asInt, h, List.range_zero, List.map_nil]

/-- `start_offset if start_offset is not None else fh.tell()` -/
def startV (f : PyFile) (start : Option Int) : V := .int (C18.Generic.startOf C18.pyFileLike f start)

/-! ### `maxrange ≤ 0`: nothing is searched -/

theorem mz_nothing (f : PyFile) (start : Option Int) (m : Int) (h : m.toNat = 0) :
    Gen.PyPe.find_mz_offset (encFile f) (encOptInt start) (.int m) = .ok (.tuple [V.none, encFile f]) := by
  unfold Gen.PyPe.find_mz_offset
  cases start with
  | none => simp only [encOptInt, isNone, Bool.not_true, Bool.false_eq_true, if_false, fileTell_enc, PyRt.ok_bind, rangeV_nonpos m h, iterList_list, forList]; rfl
  | some s => simp only [encOptInt, isNone, Bool.not_false, if_true, PyRt.ok_bind, rangeV_nonpos m h, iterList_list, forList]; rfl

theorem arch_nothing (f : PyFile) (start : Option Int) (m : Int) (h : m.toNat = 0) :
    Gen.PyPe.find_architecture (encFile f) (encOptInt start) (.int m) = .ok (.tuple [V.none, encFile f]) := by
  unfold Gen.PyPe.find_architecture
  cases start with
  | none => simp only [encOptInt, isNone, Bool.not_true, Bool.false_eq_true, if_false, fileTell_enc, PyRt.ok_bind, rangeV_nonpos m h, iterList_list, forList]; rfl
  | some s => simp only [encOptInt, isNone, Bool.not_false, if_true, PyRt.ok_bind, rangeV_nonpos m h, iterList_list, forList]; rfl

/-! ### a negative `start_offset` with `maxrange > 0`: the first `fh.seek` raises -/

theorem mz_negstart (f : PyFile) (s : Int) (hs : s < 0) (n : Nat) :
    Gen.PyPe.find_mz_offset (encFile f) (.int s) (.int ((n + 1 : Nat) : Int)) = .error f.negSeekExc := by
  unfold Gen.PyPe.find_mz_offset
  have hsk : f.seekSet (s + ((0 : Nat) : Int)) = .error f.negSeekExc := by simp [PyFile.seekSet, hs]
  simp only [isNone, Bool.not_false, if_true, PyRt.ok_bind, rangeV_nat, iterList_list, List.range_succ_eq_map, List.map_cons, forList,
    Gen.PyPe.find_mz_offset_loop1, add_int, fileSeek_set, hsk, Except.map]
  rfl

theorem arch_negstart (f : PyFile) (s : Int) (hs : s < 0) (n : Nat) :
    Gen.PyPe.find_architecture (encFile f) (.int s) (.int ((n + 1 : Nat) : Int)) = .error f.negSeekExc := by
  unfold Gen.PyPe.find_architecture
  have hsk : f.seekSet (s + ((0 : Nat) : Int)) = .error f.negSeekExc := by simp [PyFile.seekSet, hs]
  simp only [isNone, Bool.not_false, if_true, PyRt.ok_bind, rangeV_nat, iterList_list, List.range_succ_eq_map, List.map_cons, forList,
    Gen.PyPe.find_architecture_loop1, add_int, fileSeek_set, hsk, Except.map]
  rfl

/-! ### every `start_offset` (`None` or ANY int) and every int `maxrange`, against the file-like-generic model over Python file objects -/

theorem arg_cases (start : Option Int) (m : Int) :
    m.toNat = 0 ∨ (∃ (n : Nat) (st : Option Nat), m = ((n + 1 : Nat) : Int) ∧ start = st.map Int.ofNat) ∨
    (∃ (n : Nat) (s : Int), m = ((n + 1 : Nat) : Int) ∧ start = some s ∧ s < 0) := by
  by_cases hm : m.toNat = 0
  · exact Or.inl hm
  · have hm' : m = ((m.toNat - 1 + 1 : Nat) : Int) := by omega
    cases start with
    | none => exact Or.inr (Or.inl ⟨m.toNat - 1, none, hm', rfl⟩)
    | some s =>
      by_cases hs : s < 0
      · exact Or.inr (Or.inr ⟨m.toNat - 1, s, hm', rfl, hs⟩)
      · refine Or.inr (Or.inl ⟨m.toNat - 1, some s.toNat, hm', ?_⟩)
        have : ((s.toNat : Nat) : Int) = s := Int.toNat_of_nonneg (by omega)
        simp only [Option.map, Int.ofNat_eq_natCast, this]

theorem encOptInt_map (st : Option Nat) : encOptInt (st.map Int.ofNat) = encOptNat st := by cases st <;> rfl

theorem generic_mz_neg (f : PyFile) (s : Int) (hs : s < 0) (n : Nat) :
    C18.Generic.findMzOffset C18.pyFileLike f (some s) (n + 1) = .error f.negSeekExc := by
  have hsk : f.seekSet (s + ((0 : Nat) : Int)) = .error f.negSeekExc := by simp [PyFile.seekSet, hs]
  simp only [C18.Generic.findMzOffset, C18.Generic.startOf, List.range_succ_eq_map, C18.Generic.scanLoop, C18.Generic.probe, C18.pyFileLike, hsk]

theorem generic_arch_neg (f : PyFile) (s : Int) (hs : s < 0) (n : Nat) :
    C18.Generic.findArchitecture C18.pyFileLike f (some s) (n + 1) = .error f.negSeekExc := by
  have hsk : f.seekSet (s + ((0 : Nat) : Int)) = .error f.negSeekExc := by simp [PyFile.seekSet, hs]
  simp only [C18.Generic.findArchitecture, C18.Generic.startOf, List.range_succ_eq_map, C18.Generic.scanLoop, C18.Generic.probe, C18.pyFileLike, hsk]

theorem generic_mz_zero (f : PyFile) (start : Option Int) : C18.Generic.findMzOffset C18.pyFileLike f start 0 = .ok (none, f) := rfl
theorem generic_arch_zero (f : PyFile) (start : Option Int) : C18.Generic.findArchitecture C18.pyFileLike f start 0 = .ok (none, f) := rfl

theorem gen_find_mz_offset_all (f : PyFile) (start : Option Int) (m : Int) :
    Gen.PyPe.find_mz_offset (encFile f) (encOptInt start) (.int m)
      = encGen encOptI (C18.Generic.findMzOffset C18.pyFileLike f start m.toNat) := by
  rcases arg_cases start m with h0 | ⟨n, st, rfl, rfl⟩ | ⟨n, s, rfl, rfl, hs⟩
  · rw [mz_nothing f start m h0, h0, generic_mz_zero]; rfl
  · rw [encOptInt_map, gen_find_mz_offset_proof, Int.toNat_natCast, C18.generic_findMzOffset]
    rcases C18.findMzOffset f st (n + 1) with ⟨_ | o, g⟩ <;> rfl
  · rw [Int.toNat_natCast, generic_mz_neg f s hs n]
    exact mz_negstart f s hs n

theorem gen_find_architecture_all (f : PyFile) (start : Option Int) (m : Int) :
    Gen.PyPe.find_architecture (encFile f) (encOptInt start) (.int m)
      = encGen encArch (C18.Generic.findArchitecture C18.pyFileLike f start m.toNat) := by
  rcases arg_cases start m with h0 | ⟨n, st, rfl, rfl⟩ | ⟨n, s, rfl, rfl, hs⟩
  · rw [arch_nothing f start m h0, h0, generic_arch_zero]; rfl
  · rw [encOptInt_map, gen_find_architecture_proof, Int.toNat_natCast, C18.generic_findArchitecture]
    rfl
  · rw [Int.toNat_natCast, generic_arch_neg f s hs n]
    exact arch_negstart f s hs n

theorem encGen_liftPy {α : Type} (enc : α → V) (r : Py α × PyFile) : encGen enc (C18.liftPy r) = encPy enc r := by
  obtain ⟨a, g⟩ := r
  cases a <;> rfl

theorem gen_find_compile_stamps_all (f : PyFile) (start : Option Int) (m : Int) :
    Gen.PyPe.find_compile_stamps (encFile f) (encOptInt start) (.int m)
      = encGen encStamps (C18.Generic.findCompileStamps C18.pyFileLike f start m.toNat) := by
  rcases arg_cases start m with h0 | ⟨n, st, rfl, rfl⟩ | ⟨n, s, rfl, rfl, hs⟩
  · unfold Gen.PyPe.find_compile_stamps C18.Generic.findCompileStamps
    show (Gen.PyPe.find_mz_offset (encFile f) (encOptInt start) (.int m) >>= _) = _
    rw [mz_nothing f start m h0, h0, generic_mz_zero]
    rfl
  · rw [encOptInt_map, gen_find_compile_stamps_proof, Int.toNat_natCast, C18.generic_findCompileStamps, encGen_liftPy]
  · unfold Gen.PyPe.find_compile_stamps C18.Generic.findCompileStamps
    show (Gen.PyPe.find_mz_offset (encFile f) (.int s) (.int ((n + 1 : Nat) : Int)) >>= _) = _
    rw [mz_negstart f s hs n, Int.toNat_natCast, generic_mz_neg f s hs n]
    rfl

theorem gen_find_magic_mz_all (f : PyFile) (start : Option Int) (m : Int) :
    Gen.PyPe.find_magic_mz (encFile f) (encOptInt start) (.int m)
      = encGen encOptBytes (C18.Generic.findMagicMz C18.pyFileLike f start m.toNat) := by
  rcases arg_cases start m with h0 | ⟨n, st, rfl, rfl⟩ | ⟨n, s, rfl, rfl, hs⟩
  · unfold Gen.PyPe.find_magic_mz C18.Generic.findMagicMz
    show (Gen.PyPe.find_mz_offset (encFile f) (encOptInt start) (.int m) >>= _) = _
    rw [mz_nothing f start m h0, h0, generic_mz_zero]
    rfl
  · rw [encOptInt_map, gen_find_magic_mz_proof, Int.toNat_natCast, C18.generic_findMagicMz]
    rfl
  · unfold Gen.PyPe.find_magic_mz C18.Generic.findMagicMz
    show (Gen.PyPe.find_mz_offset (encFile f) (.int s) (.int ((n + 1 : Nat) : Int)) >>= _) = _
    rw [mz_negstart f s hs n, Int.toNat_natCast, generic_mz_neg f s hs n]
    rfl

theorem gen_find_magic_pe_all (f : PyFile) (start : Option Int) (m : Int) :
    Gen.PyPe.find_magic_pe (encFile f) (encOptInt start) (.int m)
      = encGen encOptBytes (C18.Generic.findMagicPe C18.pyFileLike f start m.toNat) := by
  rcases arg_cases start m with h0 | ⟨n, st, rfl, rfl⟩ | ⟨n, s, rfl, rfl, hs⟩
  · unfold Gen.PyPe.find_magic_pe C18.Generic.findMagicPe
    show (Gen.PyPe.find_mz_offset (encFile f) (encOptInt start) (.int m) >>= _) = _
    rw [mz_nothing f start m h0, h0, generic_mz_zero]
    rfl
  · rw [encOptInt_map, gen_find_magic_pe_proof, Int.toNat_natCast, C18.generic_findMagicPe, encGen_liftPy]
  · unfold Gen.PyPe.find_magic_pe C18.Generic.findMagicPe
    show (Gen.PyPe.find_mz_offset (encFile f) (.int s) (.int ((n + 1 : Nat) : Int)) >>= _) = _
    rw [mz_negstart f s hs n, Int.toNat_natCast, generic_mz_neg f s hs n]
    rfl

theorem gen_find_stage_prepend_append_all (f : PyFile) (start : Option Int) (m : Int) :
    Gen.PyPe.find_stage_prepend_append (encFile f) (encOptInt start) (.int m)
      = encGen encPair (C18.Generic.findStagePrependAppend C18.pyFileLike f start m.toNat) := by
  rcases arg_cases start m with h0 | ⟨n, st, rfl, rfl⟩ | ⟨n, s, rfl, rfl, hs⟩
  · unfold Gen.PyPe.find_stage_prepend_append C18.Generic.findStagePrependAppend
    show (Gen.PyPe.find_mz_offset (encFile f) (encOptInt start) (.int m) >>= _) = _
    rw [mz_nothing f start m h0, h0, generic_mz_zero]
    rfl
  · rw [encOptInt_map, gen_find_stage_prepend_append_proof, Int.toNat_natCast, C18.generic_findStagePrependAppend, encGen_liftPy]
  · unfold Gen.PyPe.find_stage_prepend_append C18.Generic.findStagePrependAppend
    show (Gen.PyPe.find_mz_offset (encFile f) (.int s) (.int ((n + 1 : Nat) : Int)) >>= _) = _
    rw [mz_negstart f s hs n, Int.toNat_natCast, generic_mz_neg f s hs n]
    rfl

end C18Gen

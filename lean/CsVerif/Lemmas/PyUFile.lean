import CsVerif.Model.C15Gen
import CsVerif.Model.PyFile
/-! Helper lemmas shared by Props/C15Gen.lean and Props/C09Gen.lean: the file-object operations of `PyU` (Model/PyU_T15.lean:
`fileRead`, `fileSeek`, `fileTell` on `C15Gen.encFile f`) against `PyFile`, and the `PyU` operations on ints / bytes the translated
scanners use.  Nothing here depends on a translated definition.  No property statements. -/
namespace C15Gen
open PyU
set_option linter.unusedSimpArgs false

theorem pure_ok {α : Type} (a : α) : (pure a : Py α) = .ok a := rfl
theorem throw_err {α : Type} (e : PyExc) : (throw e : Py α) = .error e := rfl

theorem kindNat_cases (k : FileKind) : ((kindNat k : Nat) : Int) = 0 ∨ ((kindNat k : Nat) : Int) = 1 := by
  cases k <;> simp [kindNat]

theorem asFile_mk (d : Bytes) (p k : Nat) (hk : k = 0 ∨ k = 1) : asFile (mkFile d p k) = some (d, p, k) := by
  rcases hk with rfl | rfl <;> simp [asFile, mkFile]

theorem asFile_enc (f : PyFile) : asFile (encFile f) = some (f.data, f.pos, kindNat f.kind) :=
  asFile_mk _ _ _ (by cases f.kind <;> simp [kindNat])

theorem fileTell_enc (f : PyFile) : fileTell (encFile f) = .ok (.int (f.pos : Int)) := by
  simp [fileTell, asFile_enc]

theorem fileRead_enc (f : PyFile) (n : Int) (h : -1 ≤ n ∨ f.kind = .bytesIO) :
    fileRead (encFile f) (.int n) = .ok (.bytes (f.read n).1, encFile (f.read n).2) := by
  have hk : ¬ (n < -1 ∧ kindNat f.kind = 1) := by
    rcases h with h | h
    · omega
    · simp [h, kindNat]
  simp only [fileRead, asFile_enc, asInt, hk, if_false, PyFile.read]
  rfl

theorem fileRead_nat (f : PyFile) (n : Nat) :
    fileRead (encFile f) (.int (n : Int)) = .ok (.bytes (f.read n).1, encFile (f.read n).2) :=
  fileRead_enc f n (Or.inl (by omega))

theorem negSeekExc_eq (f : PyFile) : PyU.negSeekExc (kindNat f.kind) = f.negSeekExc := by
  cases hk : f.kind <;> simp [PyU.negSeekExc, PyFile.negSeekExc, kindNat, hk]

theorem fileSeek_set (f : PyFile) (o : Int) :
    fileSeek (encFile f) (.int o) (.int 0)
      = (f.seekSet o).map (fun r => (V.int (r.1 : Int), encFile r.2)) := by
  simp only [fileSeek, asFile_enc, asInt, if_true, PyFile.seekSet, negSeekExc_eq]
  split
  · rfl
  · rename_i h
    have : ((o.toNat : Nat) : Int) = o := by omega
    simp only [Except.map, encFile, this]

theorem truthy_nat (m : Nat) : truthy (.int (m : Int)) = decide (m ≠ 0) := by
  by_cases h : m = 0 <;> simp [truthy, h]
theorem gt_int (a b : Int) : PyU.gt (.int a) (.int b) = .ok (decide (b < a)) := rfl
theorem lt_int (a b : Int) : PyU.lt (.int a) (.int b) = .ok (decide (a < b)) := rfl
theorem len_bytes (b : Bytes) : PyU.len (.bytes b) = .ok (.int (b.length : Int)) := rfl
theorem sub_int (a b : Int) : PyU.sub (.int a) (.int b) = .ok (.int (a - b)) := rfl
theorem add_int (a b : Int) : PyU.add (.int a) (.int b) = .ok (.int (a + b)) := rfl
theorem nat_ne_neg1 (q : Nat) : ((q : Int) == -1) = false := by
  simp only [beq_eq_false_iff_ne, ne_eq]; omega

theorem slice_from_neg (d : Bytes) (n : Int) (h : n < 0) :
    PyU.slice (.bytes d) (.int n) .none = .ok (.bytes (pySliceFrom d n)) := by
  have h1 : ¬ n ≥ 0 := by omega
  simp only [PyU.slice, bound, asInt, PyRt.ok_bind, pure_ok, PyRt.slice, PyRt.Bound.bound, PyRt.clampIdx, h, if_true, pySliceFrom, h1, if_false]
  congr 2
  simp only [id, h, if_true, List.take_length]
  congr 1
  generalize d.length = L
  obtain ⟨m, rfl⟩ : ∃ m : Nat, n = -(m : Int) := ⟨(-n).toNat, by omega⟩
  rw [Int.neg_neg, Int.toNat_natCast, Int.add_comm, ← Int.sub_eq_add_neg, Int.toNat_sub]

theorem truthy_bytes (b : Bytes) : truthy (.bytes b) = !b.isEmpty := rfl
theorem add_bytes (a b : Bytes) : PyU.add (.bytes a) (.bytes b) = .ok (.bytes (a ++ b)) := rfl

theorem fileRead_4 (f : PyFile) : fileRead (encFile f) (.int 4) = .ok (.bytes (f.read 4).1, encFile (f.read 4).2) :=
  fileRead_enc f 4 (Or.inl (by omega))
theorem fileRead_8 (f : PyFile) : fileRead (encFile f) (.int 8) = .ok (.bytes (f.read 8).1, encFile (f.read 8).2) :=
  fileRead_enc f 8 (Or.inl (by omega))
theorem eq_int (a b : Int) : PyU.eq (.int a) (.int b) = (a == b) := rfl
theorem iadd_int (a b : Int) : PyU.iadd (.int a) (.int b) = .ok (.int (a + b)) := rfl

/-! ### relative seeks -/

theorem fileSeek_rel (f : PyFile) (o : Int) (w : Int) (base : Nat) (hw : w = 1 ∨ w = 2)
    (hb : base = if w = 1 then f.pos else f.data.length) :
    fileSeek (encFile f) (.int o) (.int w) = (f.seekRel base o).map (fun r => (V.int (r.1 : Int), encFile r.2)) := by
  have hw0 : ¬ w = 0 := by omega
  simp only [fileSeek, asFile_enc, asInt, hw0, if_false, hw, if_true, PyFile.seekRel]
  have hbase : (if w = 1 then (f.pos : Int) else (f.data.length : Int)) = (base : Int) := by
    rw [hb]; split <;> rfl
  rw [hbase]
  by_cases ht : (base : Int) + o < 0
  · simp only [ht, if_true]
    cases hk : f.kind <;> simp [kindNat, Except.map, encFile, hk]
  · have : (((base : Int) + o).toNat : Int) = (base : Int) + o := by omega
    simp only [ht, if_false, Except.map, encFile, this]

theorem fileSeek_cur (f : PyFile) (o : Int) :
    fileSeek (encFile f) (.int o) (.int 1) = (f.seekCur o).map (fun r => (V.int (r.1 : Int), encFile r.2)) :=
  fileSeek_rel f o 1 f.pos (Or.inl rfl) (by simp)

theorem fileSeek_end (f : PyFile) (o : Int) :
    fileSeek (encFile f) (.int o) (.int 2) = (f.seekEnd o).map (fun r => (V.int (r.1 : Int), encFile r.2)) :=
  fileSeek_rel f o 2 f.data.length (Or.inr rfl) (by simp)

theorem fileSeek_nat (f : PyFile) (n : Nat) :
    fileSeek (encFile f) (.int (n : Int)) (.int 0) = .ok (.int (n : Int), encFile { f with pos := n }) := by
  rw [fileSeek_set, PyFile.seekSet_ok]; rfl

end C15Gen

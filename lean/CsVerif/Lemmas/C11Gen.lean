import CsVerif.Model.C11Gen
import CsVerif.Lemmas.C10Gen
import CsVerif.Lemmas.C12Gen
import CsVerif.Lemmas.C11
/-! Helper lemmas for Props/C11Gen.lean: the operations of `PyU` / `PyU_T11` (run-time library of the untyped translator) on the
encodings of the C11 model's items, lists and dictionaries, and the definitions of `Gen/PyC2Dict.lean` translated from
`C2Profile.as_dict` against `C11.step` / `C11.run` / `C11.asDict` / `C11.asDictCached`.  No property statements. -/
namespace C11Gen
open PyU
set_option linter.unusedSimpArgs false

abbrev TOK : Cls := Gen.PyC2Prof.Token

/-- the type function never answers `"STRING"` -/
def TyOK (ty : C10.Text → C10.Text) : Prop := ∀ s, ty s ≠ C11.stringName

theorem strName_eq : strName = .str C11.stringName := by decide

theorem view_str (s : C10.Text) : t11View TOK (.str s) = .str s := rfl

theorem view_enc (ty : C10.Text → C10.Text) (i : C11.Item') : t11View TOK (encItem ty i) = .str i.text := by
  cases i with
  | plain s => rfl
  | token b s => cases b <;> rfl

theorem eq_enc_str (ty : C10.Text → C10.Text) (i : C11.Item') (l : C10.Text) :
    t11Eq TOK (encItem ty i) (.str l) = (i.text == l) := by
  cases i with
  | plain s => simp [t11Eq, encItem, t11View, PyU.eq, C11.Item'.text]
  | token b s => cases b <;> simp [t11Eq, encItem, t11View, PyU.eq, C11.Item'.text, tokenV, C12Gen.tokenV, Gen.PyC2Prof.Token]

theorem contains_flush_enc (ty : C10.Text → C10.Text) (i : C11.Item') :
    t11Contains TOK (PyU.lit "{};") (encItem ty i) = .ok (C10.isFlush i.text) := by
  have : PyU.lit "{};" = .str [123, 125, 59] := by decide
  rw [this]
  simp only [t11Contains, view_str, view_enc, C10Gen.contains_substr, C10.isFlush]

theorem isInstance_enc (ty : C10.Text → C10.Text) (i : C11.Item') :
    PyU.isInstance (encItem ty i) [Ty.cls TOK] = i.isToken := by
  cases i with
  | plain s => rfl
  | token b s => cases b <;> rfl


/-! ### lists of items -/
abbrev encL (ty : C10.Text → C10.Text) (l : List C11.Item') : List V := l.map (encItem ty)

theorem pop_enc (ty : C10.Text → C10.Text) (l : List C11.Item') :
    t11Pop (.list (encL ty l)) = (C11.pop l).map fun p => (encItem ty p.1, V.list (encL ty p.2)) := by
  simp only [t11Pop, C11.pop, encL, List.getLast?_map]
  cases l.getLast? <;> simp [Except.map, List.dropLast_eq_take, List.map_take]

theorem getItem_last (ty : C10.Text → C10.Text) (l : List C11.Item') :
    PyU.getItem (.list (encL ty l)) (.int (-1)) = (match l.getLast? with
      | none => .error .indexError
      | some x => .ok (encItem ty x)) := by
  simp only [PyU.getItem, PyU.asInt, PyRt.normIdx, encL, List.length_map]
  by_cases hl : l = []
  · subst hl; simp [Except.map]
  · have hpos : 0 < l.length := List.length_pos_iff.mpr hl
    have h1 : ((-1 : Int) < 0) := by decide
    have h2 : ¬ ((-1 : Int) + (l.length : Int) < 0) := by omega
    have h3 : ((-1 : Int) + (l.length : Int)).toNat = l.length - 1 := by omega
    have h4 : l.length - 1 < l.length := by omega
    have h5 : (0 ≤ (-1 : Int) + (l.length : Int) ∧ (-1 : Int) + (l.length : Int) < (l.length : Int)) := by omega
    simp only [h5, h1, h2, h3, if_true, if_false, Except.map, List.getLast?_eq_getElem?, List.getD_eq_getElem?_getD, List.getElem?_map,
      List.getElem?_eq_getElem h4, Option.map_some, Option.getD_some, and_self, if_true]

theorem extend_enc (a b : List V) : t11Extend TOK (.list a) (.list b) = .ok (.list (a ++ b)) := rfl

theorem add_lists (a b : List V) : PyU.add (.list a) (.list b) = .ok (.list (a ++ b)) := rfl

theorem append_enc (ty : C10.Text → C10.Text) (l : List C11.Item') (i : C11.Item') :
    PyU.append (.list (encL ty l)) (encItem ty i) = .ok (.list (encL ty (l ++ [i]))) := by
  simp [PyU.append, encL]


/-! ### `".".join(…)` -/
theorem joinStrs_dot : ∀ (l : List C10.Text), PyU.joinStrs [46] (l.map V.str) = .ok (C11.joinDot l)
  | [] => rfl
  | [x] => rfl
  | x :: y :: r => by
    have ih := joinStrs_dot (y :: r)
    simp only [List.map_cons] at ih ⊢
    simp only [PyU.joinStrs, ih, Except.map, C11.joinDot, List.append_assoc, List.singleton_append]

theorem map_view_enc (ty : C10.Text → C10.Text) (l : List C11.Item') :
    (encL ty l).map (t11View TOK) = (l.map C11.Item'.text).map V.str := by
  simp only [encL, List.map_map]
  apply List.map_congr_left
  intro i _
  exact view_enc ty i

theorem lit_dot : PyU.lit "." = .str [46] := by decide

theorem join_enc (ty : C10.Text → C10.Text) (l : List C11.Item') :
    t11Join TOK (PyU.lit ".") (.list (encL ty l)) = .ok (.str (C11.joinDot (l.map C11.Item'.text))) := by
  rw [lit_dot]
  simp only [t11Join, t11View, PyU.iterList, map_view_enc, PyU.join, joinStrs_dot, Except.map]

/-! ### `key in list_props` -/
theorem listProps_lit : (V.list [(PyU.lit "stage.transform-x86.header"), (PyU.lit "process-inject.transform-x86"), (PyU.lit "process-inject.execute"), (PyU.lit "http-post.server.output"), (PyU.lit "http-post.client.id"), (PyU.lit "http-post.client.output"), (PyU.lit "http-stager.server.output"), (PyU.lit "http-get.client.metadata"), (PyU.lit "http-get.server.output")]) = listPropsV := by
  decide +kernel

theorem any_t11Eq_str (k : C10.Text) (l : List C10.Text) : (l.map V.str).any (t11Eq TOK (.str k)) = l.contains k := by
  induction l with
  | nil => rfl
  | cons x xs ih =>
    have e : t11Eq TOK (.str k) (.str x) = (k == x) := by simp [t11Eq, t11View, PyU.eq]
    simp only [List.map_cons, List.any_cons, e, List.contains_cons]
    rw [ih]

theorem contains_listProps (k : C10.Text) :
    t11Contains TOK listPropsV (.str k) = .ok (ProfileApi.listProps.contains k) := by
  simp only [t11Contains, listPropsV, t11View, any_t11Eq_str]

/-! ### `repr(line)` never raises -/
theorem reprL_enc (ty : C10.Text → C10.Text) : ∀ (l : List C11.Item'), ∃ r, t11ReprL TOK (encL ty l) = .ok r
  | [] => ⟨[], rfl⟩
  | i :: is => by
    obtain ⟨r, hr⟩ := reprL_enc ty is
    have h1 : ∃ a, t11Repr TOK (encItem ty i) = .ok a := by
      cases i with
      | plain s => exact ⟨_, rfl⟩
      | token b s =>
        cases b <;> simp [encItem, tokenV, C12Gen.tokenV, t11Repr, t11ReprL, Gen.PyC2Prof.Token, strName, PyU.lit]
    obtain ⟨a, ha⟩ := h1
    simp only [encL, List.map_cons] at hr ⊢
    simp only [t11ReprL, ha, hr]
    exact ⟨_, rfl⟩

theorem reprV_enc (ty : C10.Text → C10.Text) (l : List C11.Item') : ∃ r, t11ReprV TOK (.list (encL ty l)) = .ok r := by
  obtain ⟨r, hr⟩ := reprL_enc ty l
  refine ⟨V.str (91 :: r ++ [93]), ?_⟩
  simp only [t11ReprV, t11Repr, hr, Except.map]


/-! ### `properties[key].append(value)` -/
theorem keyEq_str (a b : C10.Text) : PyU.keyEq (.str a) (.str b) = (a == b) := by simp [PyU.keyEq, PyU.eq]

theorem findKey_enc (ty : C10.Text → C10.Text) (k : C10.Text) : ∀ (d : C11.Dict),
    (PyU.findKey (.str k) (d.map fun kv => V.str kv.1) (d.map fun kv => V.list (kv.2.map (encValue ty)))).isSome
      = d.any (fun kv => kv.1 == k)
  | [] => rfl
  | (k', vs) :: r => by
    have ih := findKey_enc ty k r
    simp only [List.map_cons, PyU.findKey, keyEq_str, List.any_cons]
    by_cases h : k = k'
    · subst h; simp
    · have h1 : (k == k') = false := beq_eq_false_iff_ne.mpr h
      have h2 : (k' == k) = false := beq_eq_false_iff_ne.mpr (Ne.symm h)
      simp only [h1, h2, Bool.false_eq_true, if_false, ih, Bool.false_or]

theorem appendAt_enc (ty : C10.Text → C10.Text) (k : C10.Text) (v : C11.Value) : ∀ (d : C11.Dict),
    d.any (fun kv => kv.1 == k) = true →
    PyU.t11AppendAt (.str k) (encValue ty v) (d.map fun kv => V.str kv.1) (d.map fun kv => V.list (kv.2.map (encValue ty)))
      = .ok ((C11.Dict.add d k v).map fun kv => V.list (kv.2.map (encValue ty)))
  | [], h => by simp at h
  | (k', vs) :: r, h => by
    simp only [List.map_cons, PyU.t11AppendAt, keyEq_str, C11.Dict.add]
    by_cases hk : k' = k
    · subst hk
      simp [PyU.append, Except.map]
    · have h1 : (k == k') = false := beq_eq_false_iff_ne.mpr (Ne.symm hk)
      have h2 : (k' == k) = false := beq_eq_false_iff_ne.mpr hk
      simp only [List.any_cons, h2, Bool.false_or] at h
      simp only [h1, Bool.false_eq_true, if_false, hk, appendAt_enc ty k v r h, Except.map, List.map_cons]

theorem add_keys (k : C10.Text) (v : C11.Value) : ∀ (d : C11.Dict), d.any (fun kv => kv.1 == k) = true →
    (C11.Dict.add d k v).map (fun kv => V.str kv.1) = d.map (fun kv => V.str kv.1)
  | [], h => by simp at h
  | (k', vs) :: r, h => by
    simp only [C11.Dict.add]
    by_cases hk : k' = k
    · simp [hk]
    · have h2 : (k' == k) = false := beq_eq_false_iff_ne.mpr hk
      simp only [List.any_cons, h2, Bool.false_or] at h
      simp only [hk, if_false, List.map_cons, add_keys k v r h]

theorem add_new (k : C10.Text) (v : C11.Value) : ∀ (d : C11.Dict), d.any (fun kv => kv.1 == k) = false →
    C11.Dict.add d k v = d ++ [(k, [v])]
  | [], _ => rfl
  | (k', vs) :: r, h => by
    simp only [List.any_cons, Bool.or_eq_false_iff] at h
    have hk : ¬ k' = k := by intro e; simp [e] at h
    simp only [C11.Dict.add, hk, if_false, add_new k v r h.2, List.cons_append]

theorem hashable_str (k : C10.Text) : PyU.hashable (.str k) = true := by simp [PyU.hashable]

theorem ddAppend_enc (ty : C10.Text → C10.Text) (d : C11.Dict) (k : C10.Text) (v : C11.Value) :
    t11DdAppend (encDD ty d) (.str k) (encValue ty v) = .ok (encDD ty (C11.Dict.add d k v)) := by
  simp only [t11DdAppend, encDD, encDict, beq_self_eq_true, if_true, hashable_str]
  cases h : d.any (fun kv => kv.1 == k) with
  | true =>
    have hs := findKey_enc ty k d
    rw [h] at hs
    obtain ⟨w, hw⟩ := Option.isSome_iff_exists.mp hs
    simp only [hw, appendAt_enc ty k v d h, Except.map, add_keys k v d h]
  | false =>
    have hs := findKey_enc ty k d
    rw [h] at hs
    have hn := Option.not_isSome_iff_eq_none.mp (by simpa using hs)
    simp only [hn, add_new k v d h, List.map_append, List.map_cons, List.map_nil]


/-! ### the external `string_token_to_bytes` -/
/-- what the walk needs of `string_token_to_bytes` on the items `l`: a plain `str` and a Token of another type are returned as
they are, a STRING token of `l` is decoded as the model says -/
structure StbSpec (stb : V → Py V) (l : List C11.Item') : Prop where
  plain : ∀ s, stb (.str s) = .ok (.str s)
  other : ∀ t s, t ≠ C11.stringName → stb (tokenV (.str t) (.str s)) = .ok (tokenV (.str t) (.str s))
  string : ∀ s, C11.Item'.token true s ∈ l → stb (tokenV strName (.str s)) = (C12.stringTokenToBytesCP s).map V.bytes

theorem StbSpec.mono {stb : V → Py V} {l l' : List C11.Item'} (h : StbSpec stb l) (hs : ∀ x ∈ l', x ∈ l) : StbSpec stb l' :=
  ⟨h.plain, h.other, fun s hm => h.string s (hs _ hm)⟩

theorem stb_item (ty : C10.Text → C10.Text) (hty : TyOK ty) (stb : V → Py V) (l : List C11.Item') (h : StbSpec stb l)
    (i : C11.Item') (hi : i ∈ l) : stb (encItem ty i) = (C11.listAtom i).map (encAtom ty) := by
  cases i with
  | plain s => simp only [encItem, h.plain, C11.listAtom, Except.map, encAtom]
  | token b s =>
    cases b with
    | true =>
      simp only [encItem, h.string s hi, C11.listAtom]
      cases C12.stringTokenToBytesCP s <;> rfl
    | false => simp only [encItem, h.other _ s (hty s), C11.listAtom, Except.map, encAtom]

theorem comp1_forList (ty : C10.Text → C10.Text) (hty : TyOK ty) (stb : V → Py V) (l0 : List C11.Item') (h : StbSpec stb l0) :
    ∀ (l : List C11.Item') (acc : List V), (∀ x ∈ l, x ∈ l0) →
    PyU.forList (encL ty l) (Gen.PyC2Dict.as_dict_walk_comp1 stb) (.list acc)
      = (C11.mapPy C11.listAtom l).map fun as => V.list (acc ++ as.map (encAtom ty))
  | [], acc, _ => by simp [PyU.forList, C11.mapPy, Except.map]
  | i :: is, acc, hs => by
    have hi := stb_item ty hty stb l0 h i (hs i (List.mem_cons_self))
    simp only [encL, List.map_cons, PyU.forList, Gen.PyC2Dict.as_dict_walk_comp1, hi, C11.mapPy]
    cases hA : C11.listAtom i with
    | error e => rfl
    | ok a =>
      have ih := comp1_forList ty hty stb l0 h is (acc ++ [encAtom ty a]) (fun x hx => hs x (List.mem_cons_of_mem _ hx))
      simp only [encL] at ih
      simp only [Except.map, PyRt.ok_bind, PyU.append, bind, Except.bind, pure, Except.pure, ih]
      cases C11.mapPy C11.listAtom is <;> simp [Except.map]


/-! ### the pair branch -/
theorem strName_tok_eq : t11Eq TOK strName (PyU.lit "STRING") = true := by decide
theorem ty_ne (ty : C10.Text → C10.Text) (hty : TyOK ty) (s : C10.Text) : t11Eq TOK (.str (ty s)) (PyU.lit "STRING") = false := by
  have : PyU.lit "STRING" = .str C11.stringName := by decide
  simp only [this, t11Eq, t11View, PyU.eq, beq_eq_false_iff_ne]
  exact hty s

theorem getAttr_type (t v : V) : PyU.getAttr (tokenV t v) "type" = .ok t := rfl
theorem strOf_tok (t : V) (s : C10.Text) : t11StrOf TOK (tokenV t (.str s)) = .ok (.str s) := rfl
theorem slice_strip (s : C10.Text) : PyU.slice (.str s) (V.int 1) (V.int (-1)) = .ok (.str (C11.strip s)) := by
  simp only [PyU.slice, PyU.bound, PyU.asInt, bind, Except.bind, pure, Except.pure, C12Gen.slice_1_m1, C11.strip]
theorem append_list (acc : List V) (x : V) : PyU.append (.list acc) x = .ok (.list (acc ++ [x])) := rfl

theorem pairStep (ty : C10.Text → C10.Text) (hty : TyOK ty) (stb : V → Py V) (i : C11.Item') (acc : List V) :
    Gen.PyC2Dict.as_dict_walk_loop2 stb (encItem ty i) (.list acc)
      = (C11.pairAtom i).map fun a => (Ctl.cont, V.list (acc ++ [encAtom ty a])) := by
  cases i with
  | plain s => simp only [Gen.PyC2Dict.as_dict_walk_loop2, encItem, PyU.getAttr, PyRt.error_bind, C11.pairAtom, Except.map]
  | token b s =>
    cases b with
    | true =>
      simp only [Gen.PyC2Dict.as_dict_walk_loop2, encItem, getAttr_type, PyRt.ok_bind, strName_tok_eq, if_true, strOf_tok, slice_strip,
        append_list, C11.pairAtom, Except.map, encAtom]
      rfl
    | false =>
      simp only [Gen.PyC2Dict.as_dict_walk_loop2, encItem, getAttr_type, PyRt.ok_bind, ty_ne ty hty, Bool.false_eq_true, if_false,
        append_list, C11.pairAtom, Except.map, encAtom]
      rfl

theorem loop2_forList (ty : C10.Text → C10.Text) (hty : TyOK ty) (stb : V → Py V) :
    ∀ (l : List C11.Item') (acc : List V),
    PyU.forList (encL ty l) (Gen.PyC2Dict.as_dict_walk_loop2 stb) (.list acc)
      = (C11.mapPy C11.pairAtom l).map fun as => V.list (acc ++ as.map (encAtom ty))
  | [], acc => by simp [PyU.forList, C11.mapPy, Except.map]
  | i :: is, acc => by
    simp only [encL, List.map_cons, PyU.forList, pairStep ty hty stb i acc, C11.mapPy]
    cases hA : C11.pairAtom i with
    | error e => rfl
    | ok a =>
      have ih := loop2_forList ty hty stb is (acc ++ [encAtom ty a])
      simp only [encL] at ih
      simp only [Except.map, ih]
      cases C11.mapPy C11.pairAtom is <;> simp [Except.map]

/-! ### slices of `line` -/
theorem slice_last2 {α : Type} (xs : List α) :
    PyRt.slice xs (some (-2 : Int)) (none : Option Int) = xs.drop (xs.length - 2) := by
  simp only [PyRt.slice, PyRt.Bound.bound, id, PyRt.clampIdx, List.take_length]
  have h1 : ((-2 : Int) < 0) := by decide
  have h3 : ((-2 : Int) + (xs.length : Int)).toNat = xs.length - 2 := by omega
  simp only [h1, if_true, h3]

theorem slice_butlast2 {α : Type} (xs : List α) :
    PyRt.slice xs (none : Option Int) (some (-2 : Int)) = xs.take (xs.length - 2) := by
  simp only [PyRt.slice, PyRt.Bound.bound, id, PyRt.clampIdx, List.drop_zero]
  have h1 : ((-2 : Int) < 0) := by decide
  have h3 : ((-2 : Int) + (xs.length : Int)).toNat = xs.length - 2 := by omega
  simp only [h1, if_true, h3]

theorem slice_line_last2 (l : List V) : PyU.slice (.list l) (V.int (-2)) V.none = .ok (.list (l.drop (l.length - 2))) := by
  simp only [PyU.slice, PyU.bound, PyU.asInt, bind, Except.bind, pure, Except.pure, slice_last2]

theorem slice_line_butlast2 (l : List V) : PyU.slice (.list l) V.none (V.int (-2)) = .ok (.list (l.take (l.length - 2))) := by
  simp only [PyU.slice, PyU.bound, PyU.asInt, bind, Except.bind, pure, Except.pure, slice_butlast2]


/-! ### one iteration of the walk -/
theorem lit_set : PyU.lit "set" = .str C11.setKw := by decide
theorem lit_lbrace : PyU.lit "{" = .str C10.lbrace := by decide
theorem lit_rbrace : PyU.lit "}" = .str C10.rbrace := by decide
theorem lit_semi : PyU.lit ";" = .str C10.semi := by decide
theorem lit_dqDefault : PyU.lit "\"default\"" = .str C11.dqDefault := by decide

theorem pop_snoc {α : Type} (l : List α) (x : α) : C11.pop (l ++ [x]) = .ok (x, l) := by
  simp [C11.pop]

theorem pop_of_last {α : Type} (l : List α) (x : α) (h : l.getLast? = some x) : C11.pop l = .ok (x, l.dropLast) := by
  simp [C11.pop, h]

theorem pop_of_none {α : Type} (l : List α) (h : l.getLast? = none) : C11.pop l = .error .indexError := by
  simp [C11.pop, h]

/-- the state of the walk as the loop's state tuple -/
def encSt (ty : C10.Text → C10.Text) (st : C11.St) : V × V × V :=
  (.list (encL ty st.line), .list (encL ty st.stack), encDD ty st.props)

theorem step_lbrace (ty : C10.Text → C10.Text) (st : C11.St) (item : C11.Item') (stb : V → Py V) (lp : V)
    (h1 : ¬ item.text = C11.setKw) (h2 : C10.isFlush item.text = true) (h3 : item.text = C10.lbrace) :
    Gen.PyC2Dict.as_dict_walk_loop1 stb lp (encItem ty item) (encSt ty st)
      = (C11.step ProfileApi.listProps st item).map fun st' => (Ctl.cont, encSt ty st') := by
  have e1 : (item.text == C11.setKw) = false := beq_eq_false_iff_ne.mpr h1
  have e3 : (item.text == C10.lbrace) = true := beq_iff_eq.mpr h3
  have p3 : (item.text = C10.lbrace) = True := eq_true h3
  simp only [Gen.PyC2Dict.as_dict_walk_loop1, C11.step, encSt, lit_set, lit_lbrace, lit_dqDefault, eq_enc_str, e1, h1, h2, p3, e3,
    Bool.false_eq_true, if_false, if_true, append_enc, PyRt.ok_bind, contains_flush_enc, pop_enc, pop_snoc, Except.map, getItem_last]
  cases hl : st.line.getLast? with
  | none => simp only [PyRt.error_bind]
  | some x =>
    simp only [PyRt.ok_bind, isInstance_enc, eq_enc_str, pop_enc, pop_of_last _ _ hl, Except.map, extend_enc]
    by_cases hc : (x.isToken && x.text == C11.dqDefault) = true
    · simp only [hc, if_true, PyRt.ok_bind, extend_enc, pure, Except.pure, encL, List.map_append, List.map_nil]
    · simp only [hc, Bool.false_eq_true, if_false, PyRt.ok_bind, extend_enc, pure, Except.pure, encL, List.map_append, List.map_nil]


theorem step_set (ty : C10.Text → C10.Text) (st : C11.St) (item : C11.Item') (stb : V → Py V) (lp : V)
    (h1 : item.text = C11.setKw) :
    Gen.PyC2Dict.as_dict_walk_loop1 stb lp (encItem ty item) (encSt ty st)
      = (C11.step ProfileApi.listProps st item).map fun st' => (Ctl.cont, encSt ty st') := by
  have e1 : (item.text == C11.setKw) = true := beq_iff_eq.mpr h1
  have p1 : (item.text = C11.setKw) = True := eq_true h1
  simp only [Gen.PyC2Dict.as_dict_walk_loop1, C11.step, encSt, lit_set, eq_enc_str, e1, p1, if_true, Except.map, pure, Except.pure]

theorem step_noflush (ty : C10.Text → C10.Text) (st : C11.St) (item : C11.Item') (stb : V → Py V) (lp : V)
    (h1 : ¬ item.text = C11.setKw) (h2 : C10.isFlush item.text = false) :
    Gen.PyC2Dict.as_dict_walk_loop1 stb lp (encItem ty item) (encSt ty st)
      = (C11.step ProfileApi.listProps st item).map fun st' => (Ctl.cont, encSt ty st') := by
  have e1 : (item.text == C11.setKw) = false := beq_eq_false_iff_ne.mpr h1
  simp only [Gen.PyC2Dict.as_dict_walk_loop1, C11.step, encSt, lit_set, eq_enc_str, e1, h1, h2,
    Bool.false_eq_true, if_false, if_true, append_enc, PyRt.ok_bind, contains_flush_enc, Except.map, pure, Except.pure]

theorem step_rbrace (ty : C10.Text → C10.Text) (st : C11.St) (item : C11.Item') (stb : V → Py V) (lp : V)
    (h1 : ¬ item.text = C11.setKw) (h2 : C10.isFlush item.text = true) (h3 : ¬ item.text = C10.lbrace) (h4 : item.text = C10.rbrace) :
    Gen.PyC2Dict.as_dict_walk_loop1 stb lp (encItem ty item) (encSt ty st)
      = (C11.step ProfileApi.listProps st item).map fun st' => (Ctl.cont, encSt ty st') := by
  have e1 : (item.text == C11.setKw) = false := beq_eq_false_iff_ne.mpr h1
  have e3 : (item.text == C10.lbrace) = false := beq_eq_false_iff_ne.mpr h3
  have e4 : (item.text == C10.rbrace) = true := beq_iff_eq.mpr h4
  have p4 : (item.text = C10.rbrace) = True := eq_true h4
  simp only [Gen.PyC2Dict.as_dict_walk_loop1, C11.step, encSt, lit_set, lit_lbrace, lit_rbrace, eq_enc_str, e1, h1, h2, h3, e3, e4, p4,
    Bool.false_eq_true, if_false, if_true, append_enc, PyRt.ok_bind, contains_flush_enc, pop_enc, Except.map]
  cases hp : C11.pop st.stack with
  | error e => simp only [PyRt.error_bind]
  | ok p =>
    simp only [PyRt.ok_bind, isInstance_enc, pop_enc]
    cases hx : p.1.isToken with
    | false => simp only [Bool.false_eq_true, if_false, pure, Except.pure]; rfl
    | true =>
      simp only [if_true]
      cases hq : C11.pop p.2 with
      | error e => simp only [Except.map, PyRt.error_bind]
      | ok q => simp only [Except.map, PyRt.ok_bind, pure, Except.pure]; rfl

theorem step_otherflush (ty : C10.Text → C10.Text) (st : C11.St) (item : C11.Item') (stb : V → Py V) (lp : V)
    (h1 : ¬ item.text = C11.setKw) (h2 : C10.isFlush item.text = true) (h3 : ¬ item.text = C10.lbrace) (h4 : ¬ item.text = C10.rbrace)
    (h5 : ¬ item.text = C10.semi) :
    Gen.PyC2Dict.as_dict_walk_loop1 stb lp (encItem ty item) (encSt ty st)
      = (C11.step ProfileApi.listProps st item).map fun st' => (Ctl.cont, encSt ty st') := by
  have e1 : (item.text == C11.setKw) = false := beq_eq_false_iff_ne.mpr h1
  have e3 : (item.text == C10.lbrace) = false := beq_eq_false_iff_ne.mpr h3
  have e4 : (item.text == C10.rbrace) = false := beq_eq_false_iff_ne.mpr h4
  have e5 : (item.text == C10.semi) = false := beq_eq_false_iff_ne.mpr h5
  simp only [Gen.PyC2Dict.as_dict_walk_loop1, C11.step, encSt, lit_set, lit_lbrace, lit_rbrace, lit_semi, eq_enc_str, e1, h1, h2, h3, e3, e4,
    h4, e5, h5, Bool.false_eq_true, if_false, if_true, append_enc, PyRt.ok_bind, contains_flush_enc, Except.map, pure, Except.pure, encL,
    List.map_nil]


/-! ### the `;` branch -/
theorem isInstance_tokenV (t v : V) : PyU.isInstance (tokenV t v) [Ty.cls TOK] = true := rfl

theorem finish_atom {α : Type} (ty : C10.Text → C10.Text) (hty : TyOK ty) (a : C11.Atom) (X Y : Py α) :
    (if PyU.isInstance (encAtom ty a) [Ty.cls TOK] = true then
        (PyU.getAttr (encAtom ty a) "type" >>= fun t39 => if t11Eq TOK t39 (PyU.lit "STRING") = true then X else Y)
      else Y) = Y := by
  cases a with
  | str s => rfl
  | bytes b => rfl
  | tok s =>
    have hi : PyU.isInstance (encAtom ty (.tok s)) [Ty.cls TOK] = true := rfl
    simp only [isInstance_tokenV, if_true, encAtom, getAttr_type, PyRt.ok_bind, ty_ne ty hty, Bool.false_eq_true, if_false]

theorem finish_tuple {α : Type} (xs : List V) (X Y : Py α) :
    (if PyU.isInstance (.tuple xs) [Ty.cls TOK] = true then X else Y) = Y := rfl

theorem finish_item {α : Type} (ty : C10.Text → C10.Text) (hty : TyOK ty) (x : C11.Item') (F : V → Py α) :
    (if PyU.isInstance (encItem ty x) [Ty.cls TOK] = true then
        (PyU.getAttr (encItem ty x) "type" >>= fun t39 =>
          if t11Eq TOK t39 (PyU.lit "STRING") = true then
            (t11StrOf TOK (encItem ty x) >>= fun t40 => PyU.slice t40 (V.int 1) (V.int (-1)) >>= fun t41 => F t41)
          else F (encItem ty x))
      else F (encItem ty x)) = F (encAtom ty (C11.lastAtom x)) := by
  cases x with
  | plain s => rfl
  | token b s =>
    have hi : PyU.isInstance (encItem ty (.token b s)) [Ty.cls TOK] = true := by cases b <;> rfl
    cases b with
    | true =>
      simp only [isInstance_tokenV, if_true, encItem, getAttr_type, PyRt.ok_bind, strName_tok_eq, strOf_tok, slice_strip, C11.lastAtom, encAtom]
    | false =>
      simp only [isInstance_tokenV, if_true, encItem, getAttr_type, PyRt.ok_bind, ty_ne ty hty, Bool.false_eq_true, if_false, C11.lastAtom, encAtom]

theorem tupleOf_list (xs : List V) : t11TupleOf TOK (.list xs) = .ok (.tuple xs) := rfl
theorem len_tuple (xs : List V) : PyU.len (.tuple xs) = .ok (.int (xs.length : Nat)) := rfl
theorem len_list (xs : List V) : PyU.len (.list xs) = .ok (.int (xs.length : Nat)) := rfl
theorem eq_int_one (n : Nat) : t11Eq TOK (.int (n : Nat)) (V.int 1) = (n == 1) := by
  simp only [t11Eq, t11View, PyU.eq]
  by_cases h : n = 1
  · subst h; rfl
  · have : ¬ ((n : Int) = 1) := by omega
    have h2 : ((n : Int) == 1) = false := beq_eq_false_iff_ne.mpr this
    have h3 : (n == 1) = false := beq_eq_false_iff_ne.mpr h
    rw [h2, h3]
theorem getItem_tuple0 (x : V) (xs : List V) : PyU.getItem (.tuple (x :: xs)) (V.int 0) = .ok x := by
  simp [PyU.getItem, PyU.asInt, PyRt.normIdx, Except.map]
theorem gt_len2 (n : Nat) : PyU.gt (.int (n : Nat)) (V.int 2) = .ok (decide (n > 2)) := by
  simp only [PyU.gt, PyU.lt, PyU.asInt]
  congr 1
  have : ((2 : Int) < (n : Int)) ↔ n > 2 := by omega
  simp only [this]

theorem step_semi (ty : C10.Text → C10.Text) (hty : TyOK ty) (st : C11.St) (item : C11.Item') (stb : V → Py V)
    (l0 : List C11.Item') (hstb : StbSpec stb l0) (hline : ∀ x ∈ st.line, x ∈ l0)
    (h1 : ¬ item.text = C11.setKw) (h2 : C10.isFlush item.text = true) (h3 : ¬ item.text = C10.lbrace) (h4 : ¬ item.text = C10.rbrace)
    (h5 : item.text = C10.semi) :
    Gen.PyC2Dict.as_dict_walk_loop1 stb listPropsV (encItem ty item) (encSt ty st)
      = (C11.step ProfileApi.listProps st item).map fun st' => (Ctl.cont, encSt ty st') := by
  have e1 : (item.text == C11.setKw) = false := beq_eq_false_iff_ne.mpr h1
  have e3 : (item.text == C10.lbrace) = false := beq_eq_false_iff_ne.mpr h3
  have e4 : (item.text == C10.rbrace) = false := beq_eq_false_iff_ne.mpr h4
  have e5 : (item.text == C10.semi) = true := beq_iff_eq.mpr h5
  have p5 : (item.text = C10.semi) = True := eq_true h5
  obtain ⟨r, hr⟩ := reprV_enc ty (st.line ++ [item])
  simp only [Gen.PyC2Dict.as_dict_walk_loop1, C11.step, encSt, lit_set, lit_lbrace, lit_rbrace, lit_semi, eq_enc_str, e1, h1, h2, h3, e3, e4,
    h4, e5, p5, Bool.false_eq_true, if_false, if_true, append_enc, PyRt.ok_bind, contains_flush_enc, hr, pop_enc, pop_snoc, Except.map,
    join_enc, contains_listProps, C11.semiCase]
  by_cases hlp : ProfileApi.listProps.contains (C11.joinDot (st.stack.map C11.Item'.text)) = true
  · simp only [hlp, if_true, PyU.iterList, PyRt.ok_bind, comp1_forList ty hty stb l0 hstb st.line [] hline, List.nil_append]
    cases hm : C11.mapPy C11.listAtom st.line with
    | error e => simp only [Except.map, PyRt.error_bind]
    | ok as =>
      simp only [Except.map, PyRt.ok_bind, tupleOf_list, len_tuple, eq_int_one, List.length_map, add_lists, List.append_nil, join_enc]
      match as with
      | [] =>
        simp only [List.length_nil, List.map_nil, show ((0 : Nat) == 1) = false from rfl, Bool.false_eq_true, if_false, finish_tuple]
        have := ddAppend_enc ty st.props (C11.joinDot (List.map C11.Item'.text st.stack)) (.tuple [])
        simp only [encValue, List.map_nil] at this
        simp only [this, PyRt.ok_bind, pure, Except.pure]
      | [a] =>
        simp only [List.length_cons, List.length_nil, List.map_cons, List.map_nil, show ((0 + 1 : Nat) == 1) = true from rfl, if_true,
          getItem_tuple0, PyRt.ok_bind, finish_atom ty hty a]
        have := ddAppend_enc ty st.props (C11.joinDot (List.map C11.Item'.text st.stack)) (.atom a)
        simp only [encValue] at this
        simp only [this, PyRt.ok_bind, pure, Except.pure]
      | a :: b :: rest =>
        have hn : ((rest.length + 1 + 1 : Nat) == 1) = false := by simp
        simp only [List.length_cons, hn, Bool.false_eq_true, if_false, finish_tuple]
        have := ddAppend_enc ty st.props (C11.joinDot (List.map C11.Item'.text st.stack)) (.tuple (a :: b :: rest))
        simp only [encValue] at this
        simp only [this, PyRt.ok_bind, pure, Except.pure]
        rfl
  · have hlp' : ProfileApi.listProps.contains (C11.joinDot (st.stack.map C11.Item'.text)) = false := Bool.eq_false_iff.mpr hlp
    simp only [hlp', Bool.false_eq_true, if_false, len_list, PyRt.ok_bind, gt_len2, List.length_map]
    by_cases hlen : st.line.length > 2
    · simp only [hlen, decide_true, if_true, slice_line_last2, slice_line_butlast2, List.length_map, ← List.map_drop, ← List.map_take,
        PyRt.ok_bind, PyU.iterList, loop2_forList ty hty stb, List.nil_append, add_lists, ← List.map_append, join_enc]
      cases hm : C11.mapPy C11.pairAtom (List.drop (st.line.length - 2) st.line) with
      | error e => simp only [Except.map, PyRt.error_bind]
      | ok as =>
        simp only [Except.map, PyRt.ok_bind, tupleOf_list, finish_tuple]
        have := ddAppend_enc ty st.props (C11.joinDot (List.map C11.Item'.text (st.stack ++ List.take (st.line.length - 2) st.line))) (.tuple as)
        simp only [encValue, List.map_append] at this
        simp only [this, PyRt.ok_bind, pure, Except.pure, List.map_append]
        rfl
    · simp only [hlen, decide_false, Bool.false_eq_true, if_false]
      cases hp : C11.pop st.line with
      | error e => simp only [PyRt.error_bind]
      | ok p =>
        obtain ⟨x, line'⟩ := p
        simp only [PyRt.ok_bind, add_lists, ← List.map_append, join_enc]
        have hf := finish_item ty hty x (fun v => t11DdAppend (encDD ty st.props)
          (V.str (C11.joinDot (List.map C11.Item'.text (st.stack ++ line')))) v >>= fun t42 =>
            (pure (Ctl.cont, V.list [], V.list (encL ty st.stack), t42) : Py (Ctl × V × V × V)))
        rw [hf]
        have := ddAppend_enc ty st.props (C11.joinDot (List.map C11.Item'.text (st.stack ++ line'))) (.atom (C11.lastAtom x))
        simp only [encValue, List.map_append] at this
        simp only [this, PyRt.ok_bind, pure, Except.pure, List.map_append]
        rfl


theorem loop1_step (ty : C10.Text → C10.Text) (hty : TyOK ty) (st : C11.St) (item : C11.Item') (stb : V → Py V)
    (l0 : List C11.Item') (hstb : StbSpec stb l0) (hline : ∀ x ∈ st.line, x ∈ l0) :
    Gen.PyC2Dict.as_dict_walk_loop1 stb listPropsV (encItem ty item) (encSt ty st)
      = (C11.step ProfileApi.listProps st item).map fun st' => (Ctl.cont, encSt ty st') := by
  by_cases h1 : item.text = C11.setKw
  · exact step_set ty st item stb _ h1
  · cases h2 : C10.isFlush item.text with
    | false => exact step_noflush ty st item stb _ h1 h2
    | true =>
      by_cases h3 : item.text = C10.lbrace
      · exact step_lbrace ty st item stb _ h1 h2 h3
      · by_cases h4 : item.text = C10.rbrace
        · exact step_rbrace ty st item stb _ h1 h2 h3 h4
        · by_cases h5 : item.text = C10.semi
          · exact step_semi ty hty st item stb l0 hstb hline h1 h2 h3 h4 h5
          · exact step_otherflush ty st item stb _ h1 h2 h3 h4 h5

theorem step_line {lp : List C10.Text} {st st' : C11.St} {item : C11.Item'} (h : C11.step lp st item = .ok st') :
    st'.line = [] ∨ st'.line = st.line ++ [item] ∨ st'.line = st.line := by
  simp only [C11.step] at h
  repeat' split at h
  all_goals first | (cases h; simp) | (simp at h)

theorem run_forList (ty : C10.Text → C10.Text) (hty : TyOK ty) (stb : V → Py V) (l0 : List C11.Item') (hstb : StbSpec stb l0) :
    ∀ (items : List C11.Item') (st : C11.St), (∀ x ∈ items, x ∈ l0) → (∀ x ∈ st.line, x ∈ l0) →
    PyU.forList (encL ty items) (Gen.PyC2Dict.as_dict_walk_loop1 stb listPropsV) (encSt ty st)
      = (C11.run ProfileApi.listProps st items).map (encSt ty)
  | [], st, _, _ => rfl
  | i :: is, st, hi, hl => by
    simp only [encL, List.map_cons, PyU.forList, loop1_step ty hty st i stb l0 hstb hl, C11.run]
    cases hs : C11.step ProfileApi.listProps st i with
    | error e => rfl
    | ok st' =>
      have hl' : ∀ x ∈ st'.line, x ∈ l0 := by
        intro x hx
        rcases step_line hs with h | h | h
        · rw [h] at hx; cases hx
        · rw [h] at hx
          rcases List.mem_append.mp hx with hx | hx
          · exact hl x hx
          · rw [List.mem_singleton.mp hx]; exact hi i List.mem_cons_self
        · rw [h] at hx; exact hl x hx
      have ih := run_forList ty hty stb l0 hstb is st' (fun x hx => hi x (List.mem_cons_of_mem _ hx)) hl'
      simp only [encL] at ih
      simp only [Except.map, ih]

theorem gen_as_dict_walk_proof (ty : C10.Text → C10.Text) (hty : TyOK ty) (stb : V → Py V) (items : List C11.Item')
    (hstb : StbSpec stb items) :
    Gen.PyC2Dict.as_dict_walk stb (encItems ty items) = (C11.asDict ProfileApi.listProps items).map (encDD ty) := by
  have h := run_forList ty hty stb items hstb items ⟨[], [], []⟩ (fun _ h => h) (fun _ h => by cases h)
  simp only [encSt, encL, List.map_nil] at h
  have hdd : PyU.t11DdNew = encDD ty [] := rfl
  simp only [Gen.PyC2Dict.as_dict_walk, listProps_lit, PyU.iterList, encItems, PyRt.ok_bind, hdd, h, C11.asDict]
  cases C11.run ProfileApi.listProps ⟨[], [], []⟩ items <;> rfl


/-! ### the translated `string_token_to_bytes` as the external function -/
theorem foldl_max_le (l : List Nat) : ∀ (a : Nat), a ≤ l.foldl max a ∧ ∀ x ∈ l, x ≤ l.foldl max a := by
  induction l with
  | nil => intro a; simp
  | cons y ys ih =>
    intro a
    obtain ⟨h1, h2⟩ := ih (max a y)
    refine ⟨by simp only [List.foldl_cons]; omega, ?_⟩
    intro x hx
    simp only [List.foldl_cons]
    rcases List.mem_cons.mp hx with h | h
    · subst h; omega
    · exact h2 x h

theorem fuelForItems_gt (l : List C11.Item') (i : C11.Item') (hi : i ∈ l) : i.text.length < fuelForItems l := by
  have := (foldl_max_le (l.map fun i => i.text.length) 0).2 i.text.length (List.mem_map.mpr ⟨i, hi, rfl⟩)
  simp only [fuelForItems]
  omega

theorem stbG_spec (fuel : Nat) (l : List C11.Item') (hf : ∀ i ∈ l, i.text.length < fuel) : StbSpec (stbG fuel) l := by
  refine ⟨?_, ?_, ?_⟩
  · intro s
    simp only [stbG, C12Gen.gen_string_token_to_bytes_not_token_proof (.str s) fuel rfl]
  · intro t s ht
    have h : PyU.eq (.str t) (PyU.lit "STRING") = false := by
      have : PyU.lit "STRING" = .str C11.stringName := by decide
      simp only [this, PyU.eq, beq_eq_false_iff_ne]
      exact ht
    simp only [stbG, tokenV, C12Gen.gen_string_token_to_bytes_other_type_proof (.str t) (.str s) fuel h]
  · intro s hs
    have hl := hf _ hs
    simp only [C11.Item'.text] at hl
    have := C12Gen.gen_string_token_to_bytes_proof s fuel (by omega)
    simp only [C12Gen.stringToken] at this
    simp only [stbG, tokenV, strName, this, C12Gen.liftS, PyU.liftS]
    cases C12.stringTokenToBytesCP s <;> rfl

theorem asDictWalkG_eq (ty : C10.Text → C10.Text) (hty : TyOK ty) (items : List C11.Item') :
    asDictWalkG ty items = (C11.asDict ProfileApi.listProps items).map (encDD ty) :=
  gen_as_dict_walk_proof ty hty _ items (stbG_spec _ items (fuelForItems_gt items))


/-! ### the cache around the walk -/
/-- what `as_dict()` answers and leaves behind, as the translated method answers it: the dictionary and the object afterwards;
an exception of the walk; `eLark` when the Reconstructor cannot print the tree -/
def encCached {H : Type} (ty : C10.Text → C10.Text) (encT : C10.Tree → V) (encH : H → V) (eLark : PyExc)
    (r : Option (Py C11.Dict) × C11.PState H) : Py V :=
  match r.1 with
  | none => .error eLark
  | some (.error e) => .error e
  | some (.ok d) => .ok (.tuple [encDict ty d, encState ty encT encH r.2])

/-- what the translated method assumes of the external functions: `hash(tree)` is the model's hash (it never raises), the
Reconstructor yields the model's items or fails, `string_token_to_bytes` decodes the STRING tokens of those items -/
structure ExtSpec {H : Type} (ty : C10.Text → C10.Text) (encT : C10.Tree → V) (encH : H → V) (eLark : PyExc)
    (hash : C10.Tree → H) (items : C10.Tree → Option (List C11.Item'))
    (tree_hash reconstruct_items stb : V → Py V) : Prop where
  hash_ok : ∀ t, tree_hash (encT t) = .ok (encH (hash t))
  items_ok : ∀ t, reconstruct_items (encT t) = match items t with
    | some l => .ok (encItems ty l)
    | none => .error eLark
  stb_ok : ∀ t l, items t = some l → StbSpec stb l
  hash_eq : ∀ a b : H, t11Eq TOK (encH a) (encH b) = true ↔ a = b
  hash_none : ∀ a : H, t11Eq TOK V.none (encH a) = false

theorem getAttr_hash (t c h : V) : PyU.getAttr (profileV t c h) "_dict_hash" = .ok h := rfl
theorem getAttr_tree (t c h : V) : PyU.getAttr (profileV t c h) "tree" = .ok t := rfl
theorem getAttr_cache (t c h : V) : PyU.getAttr (profileV t c h) "_dict_cache" = .ok c := rfl
theorem setAttr_hash (t c h x : V) : PyU.setAttrObj (profileV t c h) "_dict_hash" x = .ok (profileV t c x) := rfl
theorem setAttr_cache (t c h x : V) : PyU.setAttrObj (profileV t c h) "_dict_cache" x = .ok (profileV t x h) := rfl
theorem dictOf_dd (ty : C10.Text → C10.Text) (d : C11.Dict) : t11DictOf (encDD ty d) = .ok (encDict ty d) := rfl

theorem gen_as_dict_cached_proof {H : Type} [DecidableEq H] (ty : C10.Text → C10.Text) (hty : TyOK ty)
    (encT : C10.Tree → V) (encH : H → V) (eLark : PyExc) (hash : C10.Tree → H) (items : C10.Tree → Option (List C11.Item'))
    (tree_hash reconstruct_items stb : V → Py V)
    (hx : ExtSpec ty encT encH eLark hash items tree_hash reconstruct_items stb) (s : C11.PState H) :
    Gen.PyC2Dict.as_dict tree_hash reconstruct_items stb (encState ty encT encH s)
      = encCached ty encT encH eLark
          (C11.asDictCached hash (fun t => (items t).map (C11.asDict ProfileApi.listProps)) s) := by
  simp only [Gen.PyC2Dict.as_dict, encState, getAttr_hash, getAttr_tree, getAttr_cache, PyRt.ok_bind, hx.hash_ok, C11.asDictCached]
  by_cases hc : s.dictHash = some (hash s.tree)
  · have heq : t11Eq Gen.PyC2Prof.Token (encH (hash s.tree)) (encH (hash s.tree)) = true := (hx.hash_eq _ _).mpr rfl
    simp only [hc, if_true, heq, pure, Except.pure, encCached, encState, encHashOpt]
  · have hne : t11Eq Gen.PyC2Prof.Token (encHashOpt encH s.dictHash) (encH (hash s.tree)) = false := by
      cases hd : s.dictHash with
      | none => exact hx.hash_none _
      | some h =>
        apply Bool.eq_false_iff.mpr
        intro he
        exact hc (by rw [hd, (hx.hash_eq _ _).mp he])
    simp only [hc, if_false, hne, Bool.false_eq_true, hx.items_ok]
    cases hi : items s.tree with
    | none => simp only [Option.map_none, PyRt.error_bind, encCached]
    | some l =>
      simp only [Option.map_some, PyRt.ok_bind, gen_as_dict_walk_proof ty hty stb l (hx.stb_ok _ l hi)]
      cases hw : C11.asDict ProfileApi.listProps l with
      | error e => simp only [Except.map, PyRt.error_bind, encCached]
      | ok d =>
        simp only [Except.map, PyRt.ok_bind, setAttr_hash, setAttr_cache, dictOf_dd, getAttr_cache, pure, Except.pure, encCached, encState,
          encHashOpt]

end C11Gen

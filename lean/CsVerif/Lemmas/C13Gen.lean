import CsVerif.Model.C13Gen
import CsVerif.Props.C12Gen
import CsVerif.Lemmas.C13
/-! Helper lemmas for Props/C13Gen.lean: the operations of `PyU` / `PyU_T12` / `PyU_T13` (run-time library of the untyped
translator) and the builder API on values (`Model/C13Gen.lean`) against the functions of the C13 model, and the definitions
of `Gen/PyC2Gen.lean` translated from `C2Profile.from_beacon_config` against `Model/C13.lean`.  No property statements. -/
namespace PyU
open PyRt (Str)

/-! ### strict UTF-8: decoding followed by encoding gives the bytes back -/

theorem ofNat_toNat (b : UInt8) : UInt8.ofNat b.toNat = b := by simp

theorem ofNat_eq (n : Nat) (b : UInt8) (h : n = b.toNat) : UInt8.ofNat n = b := by subst h; simp

theorem lt_nat {a b : UInt8} (h : a < b) : a.toNat < b.toNat := UInt8.lt_iff_toNat_lt.mp h
theorem le_nat {a b : UInt8} (h : a ≤ b) : a.toNat ≤ b.toNat := UInt8.le_iff_toNat_le.mp h

theorem isCont_nat (b : UInt8) (h : isCont b = true) : 128 ≤ b.toNat ∧ b.toNat ≤ 191 := by
  simp only [isCont, Bool.and_eq_true, decide_eq_true_eq] at h
  have h1 := le_nat h.1
  have h2 := le_nat h.2
  simp at h1 h2
  omega

theorem imp_nat {b0 b1 : UInt8} (k : UInt8) (m : UInt8) (h : b0 = k → m ≤ b1) : b0.toNat = k.toNat → m.toNat ≤ b1.toNat :=
  fun e => le_nat (h (UInt8.toNat_inj.mp e))

theorem imp_nat' {b0 b1 : UInt8} (k : UInt8) (m : UInt8) (h : b0 = k → b1 ≤ m) : b0.toNat = k.toNat → b1.toNat ≤ m.toNat :=
  fun e => le_nat (h (UInt8.toNat_inj.mp e))

/-- strict UTF-8 decoding followed by encoding gives the bytes back -/
theorem utf8Enc_utf8 (s : Bytes) : ∀ cs, utf8 s = .ok cs → utf8Enc cs = .ok s := by
  fun_induction utf8 s with
  | case1 => intro cs h; simp at h; subst h; rfl
  | case2 b0 rest h0 ih =>
    intro cs h
    cases hr : utf8 rest with
    | error e => simp [hr, Except.map] at h
    | ok r =>
      simp only [hr, Except.map, Except.ok.injEq] at h
      subst h
      have := lt_nat h0
      simp at this
      simp only [utf8Enc, utf8Enc1, this, if_true, ih r hr, Except.map, ofNat_toNat]
      rfl
  | case3 b0 hn0 hr0 b1 r hc1 ih =>
    intro cs h
    cases hr : utf8 r with
    | error e => simp [hr, Except.map] at h
    | ok t =>
      simp only [hr, Except.map, Except.ok.injEq] at h
      subst h
      have a1 := le_nat hr0.1
      have a2 := le_nat hr0.2
      have c1 := isCont_nat b1 hc1
      simp at a1 a2
      have e1 : utf8Enc1 ((b0.toNat - 192) * 64 + (b1.toNat - 128)) = .ok [b0, b1] := by
        have q0 : 192 + ((b0.toNat - 192) * 64 + (b1.toNat - 128)) / 64 = b0.toNat := by omega
        have q1 : 128 + ((b0.toNat - 192) * 64 + (b1.toNat - 128)) % 64 = b1.toNat := by omega
        have g1 : ¬ ((b0.toNat - 192) * 64 + (b1.toNat - 128) < 128) := by omega
        have g2 : (b0.toNat - 192) * 64 + (b1.toNat - 128) < 2048 := by omega
        generalize (b0.toNat - 192) * 64 + (b1.toNat - 128) = c at *
        simp only [utf8Enc1, g1, g2, if_true, if_false, q0, q1, ofNat_toNat]
      simp only [utf8Enc, e1, ih t hr, Except.map]
      rfl
  | case4 => intro cs h; simp at h
  | case5 => intro cs h; simp at h
  | case6 b0 hn0 hn1 hr0 b1 b2 r hc ih =>
    intro cs h
    cases hr : utf8 r with
    | error e => simp [hr, Except.map] at h
    | ok t =>
      simp only [hr, Except.map, Except.ok.injEq] at h
      subst h
      have a1 := le_nat hr0.1
      have a2 := le_nat hr0.2
      have c1 := isCont_nat b1 hc.1
      have c2 := isCont_nat b2 hc.2.1
      have i1 := imp_nat 224 160 hc.2.2.1
      have i2 := imp_nat' 237 159 hc.2.2.2
      simp at a1 a2 i1 i2
      have e1 : utf8Enc1 ((b0.toNat - 224) * 4096 + (b1.toNat - 128) * 64 + (b2.toNat - 128)) = .ok [b0, b1, b2] := by
        have q0 : 224 + ((b0.toNat - 224) * 4096 + (b1.toNat - 128) * 64 + (b2.toNat - 128)) / 4096 = b0.toNat := by omega
        have q1 : 128 + ((b0.toNat - 224) * 4096 + (b1.toNat - 128) * 64 + (b2.toNat - 128)) / 64 % 64 = b1.toNat := by omega
        have q2 : 128 + ((b0.toNat - 224) * 4096 + (b1.toNat - 128) * 64 + (b2.toNat - 128)) % 64 = b2.toNat := by omega
        have g1 : ¬ ((b0.toNat - 224) * 4096 + (b1.toNat - 128) * 64 + (b2.toNat - 128) < 128) := by omega
        have g2 : ¬ ((b0.toNat - 224) * 4096 + (b1.toNat - 128) * 64 + (b2.toNat - 128) < 2048) := by omega
        have g3 : ¬ (55296 ≤ (b0.toNat - 224) * 4096 + (b1.toNat - 128) * 64 + (b2.toNat - 128) ∧
            (b0.toNat - 224) * 4096 + (b1.toNat - 128) * 64 + (b2.toNat - 128) ≤ 57343) := by omega
        have g4 : (b0.toNat - 224) * 4096 + (b1.toNat - 128) * 64 + (b2.toNat - 128) < 65536 := by omega
        generalize (b0.toNat - 224) * 4096 + (b1.toNat - 128) * 64 + (b2.toNat - 128) = c at *
        simp only [utf8Enc1, g1, g2, g3, g4, if_true, if_false, q0, q1, q2, ofNat_toNat]
      simp only [utf8Enc, e1, ih t hr, Except.map]
      rfl
  | case7 => intro cs h; simp at h
  | case8 => intro cs h; simp at h
  | case9 b0 hn0 hn1 hn2 hr0 b1 b2 b3 r hc ih =>
    intro cs h
    cases hr : utf8 r with
    | error e => simp [hr, Except.map] at h
    | ok t =>
      simp only [hr, Except.map, Except.ok.injEq] at h
      subst h
      have a1 := le_nat hr0.1
      have a2 := le_nat hr0.2
      have c1 := isCont_nat b1 hc.1
      have c2 := isCont_nat b2 hc.2.1
      have c3 := isCont_nat b3 hc.2.2.1
      have i1 := imp_nat 240 144 hc.2.2.2.1
      have i2 := imp_nat' 244 143 hc.2.2.2.2
      simp at a1 a2 i1 i2
      have e1 : utf8Enc1 ((b0.toNat - 240) * 262144 + (b1.toNat - 128) * 4096 + (b2.toNat - 128) * 64 + (b3.toNat - 128))
          = .ok [b0, b1, b2, b3] := by
        have q0 : 240 + ((b0.toNat - 240) * 262144 + (b1.toNat - 128) * 4096 + (b2.toNat - 128) * 64 + (b3.toNat - 128)) / 262144
            = b0.toNat := by omega
        have q1 : 128 + ((b0.toNat - 240) * 262144 + (b1.toNat - 128) * 4096 + (b2.toNat - 128) * 64 + (b3.toNat - 128)) / 4096 % 64
            = b1.toNat := by omega
        have q2 : 128 + ((b0.toNat - 240) * 262144 + (b1.toNat - 128) * 4096 + (b2.toNat - 128) * 64 + (b3.toNat - 128)) / 64 % 64
            = b2.toNat := by omega
        have q3 : 128 + ((b0.toNat - 240) * 262144 + (b1.toNat - 128) * 4096 + (b2.toNat - 128) * 64 + (b3.toNat - 128)) % 64
            = b3.toNat := by omega
        have g1 : ¬ ((b0.toNat - 240) * 262144 + (b1.toNat - 128) * 4096 + (b2.toNat - 128) * 64 + (b3.toNat - 128) < 128) := by omega
        have g2 : ¬ ((b0.toNat - 240) * 262144 + (b1.toNat - 128) * 4096 + (b2.toNat - 128) * 64 + (b3.toNat - 128) < 2048) := by omega
        have g3 : ¬ (55296 ≤ (b0.toNat - 240) * 262144 + (b1.toNat - 128) * 4096 + (b2.toNat - 128) * 64 + (b3.toNat - 128) ∧
            (b0.toNat - 240) * 262144 + (b1.toNat - 128) * 4096 + (b2.toNat - 128) * 64 + (b3.toNat - 128) ≤ 57343) := by omega
        have g4 : ¬ ((b0.toNat - 240) * 262144 + (b1.toNat - 128) * 4096 + (b2.toNat - 128) * 64 + (b3.toNat - 128) < 65536) := by omega
        have g5 : (b0.toNat - 240) * 262144 + (b1.toNat - 128) * 4096 + (b2.toNat - 128) * 64 + (b3.toNat - 128) < 1114112 := by omega
        generalize (b0.toNat - 240) * 262144 + (b1.toNat - 128) * 4096 + (b2.toNat - 128) * 64 + (b3.toNat - 128) = c at *
        simp only [utf8Enc1, g1, g2, g3, g4, g5, if_true, if_false, q0, q1, q2, q3, ofNat_toNat]
      simp only [utf8Enc, e1, ih t hr, Except.map]
      rfl
  | case10 => intro cs h; simp at h
  | case11 => intro cs h; simp at h
  | case12 => intro cs h; simp at h

end PyU

namespace C13Gen
open PyU C13
set_option linter.unusedSimpArgs false

/-! ### monad plumbing -/

theorem pure_ok {α : Type} (a : α) : (pure a : Py α) = .ok a := rfl
theorem throw_err {α : Type} (e : PyExc) : (throw e : Py α) = .error e := rfl

/-! ### text -/

/-- ASCII literal of the source: the model's bytes and the translated `str` agree -/
theorem txt_b (s : String) (h : s.toList.all (fun c => c.toNat < 256) = true) : txt (C13.b s) = PyU.lit s := by
  unfold txt C13.b PyU.lit PyU.cps
  rw [List.map_map]
  congr 1
  apply List.map_congr_left
  intro c hc
  have := List.all_eq_true.mp h c hc
  simp only [decide_eq_true_eq] at this
  simp [Nat.toUInt8]; omega

theorem map_toNat_inj : ∀ {s t : Bytes}, s.map (·.toNat) = t.map (·.toNat) → s = t
  | [], [], _ => rfl
  | [], _ :: _, h => by simp at h
  | _ :: _, [], h => by simp at h
  | a :: s, c :: t, h => by
    simp only [List.map_cons, List.cons.injEq] at h
    rw [UInt8.toNat_inj.mp h.1, map_toNat_inj h.2]

theorem txt_inj {s t : Bytes} (h : txt s = txt t) : s = t := by
  simp only [txt, V.str.injEq] at h
  exact map_toNat_inj h

theorem ofNat_toNat_map (s : Bytes) : (s.map (·.toNat)).map UInt8.ofNat = s := by
  rw [List.map_map]
  conv => rhs; rw [← List.map_id s]
  apply List.map_congr_left
  intro c _
  simp

theorem all_lt_256 (s : Bytes) : (s.map (·.toNat)).all (· < 256) = true := by
  simp only [List.all_map, List.all_eq_true, Function.comp, decide_eq_true_eq]
  intro c _
  exact UInt8.toNat_lt c

/-! ### Lark trees as values -/

theorem forest_append_def (f g : PForest) : f ++ g = PForest.append f g := rfl

theorem forest_append_nil (f : PForest) : f ++ PForest.nil = f := by
  rw [forest_append_def]
  induction f with
  | nil => rfl
  | tok o t r ih => simp only [PForest.append, ih]
  | node l k r _ ih => simp only [PForest.append, ih]

theorem forest_nil_append (f : PForest) : PForest.nil ++ f = f := rfl

theorem forest_append_assoc (f g h : PForest) : (f ++ g) ++ h = f ++ (g ++ h) := by
  simp only [forest_append_def]
  induction f with
  | nil => rfl
  | tok o t r ih => simp only [PForest.append, ih]
  | node l k r _ ih => simp only [PForest.append, ih]

theorem encForest_append (f g : PForest) : encForest (f ++ g) = encForest f ++ encForest g := by
  rw [forest_append_def]
  induction f with
  | nil => rfl
  | tok o t r ih => simp only [PForest.append, encForest, ih, List.cons_append]
  | node l k r _ ih => simp only [PForest.append, encForest, ih, List.cons_append]

theorem forest_isEmpty_enc (f : PForest) : PyU.truthy (encBlock f) = !f.isEmpty := by
  cases f <;> rfl

/-- `blk.tree.children.append(Tree(label, kids))` -/
theorem append_tree (f kids : PForest) (l : Option Bytes) :
    PyU.append (encBlock f) (treeV (encLabel l) (encForest kids)) = .ok (encBlock (f ++ block l kids)) := by
  simp only [encBlock, PyU.append, encForest_append, block, encForest]

/-! ### `value_to_string` (translated; `Props/C12Gen.lean`) on the scalars of the model -/

theorem vts_bytes (v : Bytes) : Gen.PyC2Prof.value_to_string (.bytes v) = .ok (txt (C12.valueToString v)) :=
  C12Gen.gen_value_to_string v

theorem vts_txt (s : Bytes) : Gen.PyC2Prof.value_to_string (txt s) = .ok (txt (C12.valueToStringStr s)) :=
  C12Gen.gen_value_to_string_str s

theorem decBytes_toNat (n : Nat) : (decBytes n).map (·.toNat) = (Nat.toDigits 10 n).map Char.toNat := by
  unfold decBytes
  rw [List.map_map]
  apply List.map_congr_left
  intro ch hch
  have hd := Nat.isDigit_of_mem_toDigits (by decide) (by decide) hch
  simp only [Char.isDigit, Bool.and_eq_true, decide_eq_true_eq, ge_iff_le] at hd
  have h2 : ch.toNat ≤ 57 := UInt32.le_iff_toNat_le.mp hd.2
  simp [Nat.toUInt8]; omega

theorem vts_int (n : Nat) : Gen.PyC2Prof.value_to_string (.int (n : Int)) = .ok (txt ([34] ++ decBytes n ++ [34])) := by
  unfold Gen.PyC2Prof.value_to_string
  have h0 : ¬ ((n : Int) < 0) := by omega
  simp only [isInstance, List.any, isInst1, Bool.or_false, Bool.false_eq_true, if_false, PyU.fmt, beq_self_eq_true, if_true,
    PyRt.ok_bind, pure_ok, decStr, h0, Int.toNat_natCast, txt, List.map_append, decBytes_toNat]
  rfl

theorem vts_none : Gen.PyC2Prof.value_to_string .none = .ok (txt (b "\"None\"")) := by decide +kernel

theorem gen_settings_value_proof (v : PVal) : Gen.PyC2Gen.settings_value (encPVal v) = .ok (preV v) := by
  unfold Gen.PyC2Gen.settings_value
  cases v with
  | str s =>
    simp only [encPVal, txt, isInstance, List.any, isInst1, Bool.or_false, if_true, PyU.encodeLatin1, all_lt_256, preV,
      ofNat_toNat_map, PyRt.ok_bind, pure_ok]
  | _ => rfl

/-- `value_to_string(value)` for the scalars the model knows -/
theorem vts_pre (v : PVal) (s : Bytes) (h : vts v = some s) : Gen.PyC2Prof.value_to_string (preV v) = .ok (txt s) := by
  cases v with
  | int n => simp only [vts, Option.some.injEq] at h; subst h; exact vts_int n
  | str t => simp only [vts, Option.some.injEq] at h; subst h; exact vts_bytes t
  | bytes t => simp only [vts, Option.some.injEq] at h; subst h; exact vts_bytes t
  | none => simp only [vts, Option.some.injEq] at h; subst h; exact vts_none
  | _ => simp [vts] at h

theorem truthy_pre (v : PVal) : PyU.truthy (preV v) = v.truthy := by
  cases v with
  | int n =>
    simp only [preV, encPVal, PyU.truthy, PVal.truthy]
    rw [Bool.eq_iff_iff]
    simp only [bne_iff_ne, ne_eq]
    omega
  | str s => cases s <;> rfl
  | bytes s => cases s <;> rfl
  | none => rfl
  | transform l => cases l <;> rfl
  | recover l => cases l <;> rfl
  | execute l => cases l <;> rfl
  | inj l => cases l <;> rfl
  | gate l => cases l <;> rfl

theorem eq_int_pre (v : PVal) (n : Nat) : PyU.eq (preV v) (.int (n : Int)) = v.eqInt n := by
  cases v with
  | int m =>
    show (((m : Nat) : Int) == ((n : Nat) : Int)) = (m == n)
    rw [Bool.eq_iff_iff, beq_iff_eq, beq_iff_eq]
    omega
  | _ => rfl

/-! ### the builder API on encodings -/

theorem strNode_enc (s : Bytes) : strNode (txt s) = treeV (encLabel (some (b "string"))) (encForest (.tok false s .nil)) := by
  simp only [strNode, encLabel, encForest, tokenV, txt_b "string" (by decide)]
  rfl

/-- `block.set_option(label, value)` for a scalar of the configuration -/
theorem xSetOption_pre (f : PForest) (lab : String) (hl : lab.toList.all (fun c => c.toNat < 256) = true) (v : PVal) (s : Bytes)
    (h : vts v = some s) :
    xSetOption (encBlock f) (PyU.lit lab) (preV v) = .ok (encBlock (f ++ stmt (b lab) [s])) := by
  unfold xSetOption
  rw [vts_pre v s h, ← txt_b lab hl]
  simp only [PyRt.ok_bind, strNode_enc]
  exact append_tree f (strKids [s]) (some (b lab))

/-- `block.set_option(label, "<constant>")` -/
theorem xSetOption_const (f : PForest) (lab text : String) (hl : lab.toList.all (fun c => c.toNat < 256) = true)
    (ht : text.toList.all (fun c => c.toNat < 256) = true) :
    xSetOption (encBlock f) (PyU.lit lab) (PyU.lit text) = .ok (encBlock (f ++ stmt (b lab) [C12.valueToStringStr (b text)])) := by
  rw [← txt_b text ht, ← txt_b lab hl]
  unfold xSetOption
  rw [vts_txt]
  simp only [PyRt.ok_bind, strNode_enc]
  exact append_tree f (strKids [C12.valueToStringStr (b text)]) (some (b lab))

/-- `block.set_option(label, <bytes>)` -/
theorem xSetOption_bytes (f : PForest) (lab : String) (hl : lab.toList.all (fun c => c.toNat < 256) = true) (v : Bytes) :
    xSetOption (encBlock f) (PyU.lit lab) (.bytes v) = .ok (encBlock (f ++ stmt (b lab) [C12.valueToString v])) := by
  unfold xSetOption
  rw [vts_bytes, ← txt_b lab hl]
  simp only [PyRt.ok_bind, strNode_enc]
  exact append_tree f (strKids [C12.valueToString v]) (some (b lab))

/-- `profile.set_option(name, value)` -/
theorem xProfSetOption_pre (f : PForest) (name : String) (hl : name.toList.all (fun c => c.toNat < 256) = true) (v : PVal) (s : Bytes)
    (h : vts v = some s) :
    xProfSetOption (encBlock f) (PyU.lit name) (preV v) = .ok (encBlock (f ++ optStmt (b name) s)) := by
  unfold xProfSetOption
  rw [vts_pre v s h, ← txt_b name hl]
  simp only [PyRt.ok_bind, strNode_enc, ← txt_b "option" (by decide)]
  exact append_tree f (.tok true (b name) (strKids [s])) (some (b "option"))

/-- `block._enable(label, True)` -/
theorem xEnable_enc (f : PForest) (lab : Bytes) (x : V) :
    xEnable (encBlock f) (txt lab) x = .ok (encBlock (f ++ stmt lab [])) :=
  append_tree f .nil (some lab)

/-- `parent.set_config_block(label, child)` -/
theorem xSetConfigBlock_enc (f kids : PForest) (l : Option Bytes) :
    xSetConfigBlock (encBlock f) (encLabel l) (encBlock kids) = .ok (encBlock (f ++ block l kids)) :=
  append_tree f kids l

theorem xSetConfigBlock_lit (f kids : PForest) (lab : String) (hl : lab.toList.all (fun c => c.toNat < 256) = true) :
    xSetConfigBlock (encBlock f) (PyU.lit lab) (encBlock kids) = .ok (encBlock (f ++ block (some (b lab)) kids)) := by
  rw [← txt_b lab hl]
  exact xSetConfigBlock_enc f kids (some (b lab))

/-- `parent.set_non_empty_config_block(label, child)` -/
theorem xSetNonEmpty_enc (f kids : PForest) (lab : String) (hl : lab.toList.all (fun c => c.toNat < 256) = true) :
    xSetNonEmpty (encBlock f) (PyU.lit lab) (encBlock kids) = .ok (encBlock (addNonEmpty f (b lab) kids)) := by
  unfold xSetNonEmpty addNonEmpty
  rw [forest_isEmpty_enc, ← txt_b lab hl]
  cases hk : kids.isEmpty
  · simp only [Bool.not_false, if_true, Bool.false_eq_true, if_false]
    exact xSetConfigBlock_enc f kids (some (b lab))
  · simp only [Bool.not_true, Bool.false_eq_true, if_false, if_true]

/-! ### SETTING_PROCINJ_PERMS_I / SETTING_PROCINJ_PERMS -/

theorem gen_perms_i_proof (v : PVal) (f : PForest) :
    permsIG (encBlock f) (preV v) = .ok (encBlock (
      if v.eqInt 64 then f ++ stmt (b "startrwx") [C12.valueToStringStr (b "true")]
      else if v.eqInt 4 then f ++ stmt (b "startrwx") [C12.valueToStringStr (b "false")] else f)) := by
  unfold permsIG Gen.PyC2Gen.branch_SETTING_PROCINJ_PERMS_I
  have e64 := eq_int_pre v 64
  have e4 := eq_int_pre v 4
  have c64 : ((64 : Nat) : Int) = 64 := rfl
  have c4 : ((4 : Nat) : Int) = 4 := rfl
  rw [c64] at e64
  rw [c4] at e4
  rw [e64, e4]
  by_cases h1 : v.eqInt 64 = true
  · simp only [h1, if_true, xSetOption_const f "startrwx" "true" (by decide) (by decide), PyRt.ok_bind, pure_ok]
  · by_cases h2 : v.eqInt 4 = true
    · simp only [h1, h2, if_true, if_false, Bool.false_eq_true, xSetOption_const f "startrwx" "false" (by decide) (by decide),
        PyRt.ok_bind, pure_ok]
    · simp only [h1, h2, if_false, Bool.false_eq_true, PyRt.ok_bind, pure_ok]

theorem gen_perms_proof (v : PVal) (f : PForest) :
    permsG (encBlock f) (preV v) = .ok (encBlock (
      if v.eqInt 64 then f ++ stmt (b "userwx") [C12.valueToStringStr (b "true")]
      else if v.eqInt 32 then f ++ stmt (b "userwx") [C12.valueToStringStr (b "false")] else f)) := by
  unfold permsG Gen.PyC2Gen.branch_SETTING_PROCINJ_PERMS
  have e64 := eq_int_pre v 64
  have e4 := eq_int_pre v 32
  have c64 : ((64 : Nat) : Int) = 64 := rfl
  have c4 : ((32 : Nat) : Int) = 32 := rfl
  rw [c64] at e64
  rw [c4] at e4
  rw [e64, e4]
  by_cases h1 : v.eqInt 64 = true
  · simp only [h1, if_true, xSetOption_const f "userwx" "true" (by decide) (by decide), PyRt.ok_bind, pure_ok]
  · by_cases h2 : v.eqInt 32 = true
    · simp only [h1, h2, if_true, if_false, Bool.false_eq_true, xSetOption_const f "userwx" "false" (by decide) (by decide),
        PyRt.ok_bind, pure_ok]
    · simp only [h1, h2, if_false, Bool.false_eq_true, PyRt.ok_bind, pure_ok]

/-! ### SETTING_C2_RECOVER -/

theorem flatten_replicate_singleton {α : Type} (n : Nat) (x : α) : (List.replicate n [x]).flatten = List.replicate n x := by
  induction n with
  | zero => rfl
  | succ n ih => simp only [List.replicate_succ, List.flatten_cons, ih, List.singleton_append]

theorem txt_replicate (n : Nat) (c : UInt8) : txt (List.replicate n c) = .str (List.replicate n c.toNat) := by
  simp only [txt, List.map_replicate]

theorem mul_X (n : Nat) : PyU.mul (PyU.lit "X") (.int (n : Int)) = .ok (txt (List.replicate n 88)) := by
  rw [txt_replicate]
  simp only [PyU.mul, asInt, PyU.lit, Int.toNat_natCast]
  rw [show PyU.cps "X" = [88] from by decide, flatten_replicate_singleton]
  rfl

theorem gen_recover_step (r : RStep) (xs : List V) :
    Gen.PyC2Gen.branch_SETTING_C2_RECOVER_loop1 (encRStep r) (.list xs) = .ok (.cont, .list (xs ++ [encDOpt (recoverOpt r)])) := by
  unfold Gen.PyC2Gen.branch_SETTING_C2_RECOVER_loop1
  cases r with
  | append n =>
    simp only [encRStep, PyU.unpack2, PyU.iterList, PyRt.ok_bind, pure_ok, bind_pure_comp, t13IsBool, Bool.false_eq_true, if_false,
      isInstance, List.any, isInst1, Bool.or_false, if_true, mul_X, PyU.append, recoverOpt, encDOpt, encDArg,
      txt_b "append" (by decide)]
  | prepend n =>
    simp only [encRStep, PyU.unpack2, PyU.iterList, PyRt.ok_bind, pure_ok, bind_pure_comp, t13IsBool, Bool.false_eq_true, if_false,
      isInstance, List.any, isInst1, Bool.or_false, if_true, mul_X, PyU.append, recoverOpt, encDOpt, encDArg,
      txt_b "prepend" (by decide)]
  | base64 => simp only [recoverOpt, encDOpt, txt_b "base64" (by decide)]; rfl
  | print => simp only [recoverOpt, encDOpt, txt_b "print" (by decide)]; rfl
  | netbios => simp only [recoverOpt, encDOpt, txt_b "netbios" (by decide)]; rfl
  | netbiosu => simp only [recoverOpt, encDOpt, txt_b "netbiosu" (by decide)]; rfl
  | base64url => simp only [recoverOpt, encDOpt, txt_b "base64url" (by decide)]; rfl
  | mask => simp only [recoverOpt, encDOpt, txt_b "mask" (by decide)]; rfl

theorem gen_recover_loop (l : List RStep) (xs : List V) :
    PyU.forList (l.map encRStep) Gen.PyC2Gen.branch_SETTING_C2_RECOVER_loop1 (V.list xs)
      = .ok (.list (xs ++ (l.map recoverOpt).map encDOpt)) := by
  induction l generalizing xs with
  | nil => simp [PyU.forList]
  | cons r rest ih =>
    simp only [List.map_cons, PyU.forList, gen_recover_step, ih, List.append_assoc, List.singleton_append]

theorem gen_recover_proof (l : List RStep) :
    recoverG (.list (l.map encRStep)) = .ok (encDOpts (l.map recoverOpt)) := by
  unfold recoverG Gen.PyC2Gen.branch_SETTING_C2_RECOVER
  simp only [PyU.iterList, PyRt.ok_bind, gen_recover_loop, List.nil_append, pure_ok, encDOpts]

/-! ### SETTING_DOMAINS -/

theorem gen_domains_loop (g : V → V → V → Py V) (uris : List (Option Bytes)) (xs : List V) :
    PyU.forList (uris.map encUri) (Gen.PyC2Gen.branch_SETTING_DOMAINS_comp1 g) (V.list xs)
      = .ok (.list (xs ++ (uris.filterMap id).map txt)) := by
  induction uris generalizing xs with
  | nil => simp [PyU.forList]
  | cons u rest ih =>
    cases u with
    | none =>
      simp only [List.map_cons, PyU.forList, Gen.PyC2Gen.branch_SETTING_DOMAINS_comp1, encUri, PyU.isNone, Bool.not_true,
        Bool.not_false, if_true, pure_ok, ih, List.filterMap_cons, id]
    | some s =>
      simp only [List.map_cons, PyU.forList, Gen.PyC2Gen.branch_SETTING_DOMAINS_comp1, encUri, txt, PyU.isNone, Bool.not_true,
        Bool.not_false, Bool.false_eq_true, if_false, PyU.append, PyRt.ok_bind, pure_ok, ih, List.filterMap_cons, id, List.map_cons,
        List.append_assoc, List.singleton_append]

theorem joinStrs_txt (xs : List Bytes) : PyU.joinStrs [44, 32] (xs.map txt) = .ok ((joinComma xs).map (·.toNat)) := by
  induction xs with
  | nil => rfl
  | cons x rest ih =>
    cases rest with
    | nil => rfl
    | cons y r =>
      simp only [List.map_cons] at ih ⊢
      simp only [txt] at ih ⊢
      unfold PyU.joinStrs
      rw [ih]
      simp only [Except.map, joinComma, List.map_append, List.map_cons, List.map_nil]
      rfl

theorem join_txt (xs : List Bytes) : PyU.join (PyU.lit ", ") (.list (xs.map txt)) = .ok (txt (joinComma xs)) := by
  rw [show PyU.lit ", " = .str [44, 32] from by decide]
  simp only [PyU.join, PyU.iterList, joinStrs_txt, Except.map, txt]

theorem truthy_txt (s : Bytes) : PyU.truthy (txt s) = !s.isEmpty := by cases s <;> rfl

theorem encodeLatin1_txt (s : Bytes) : PyU.encodeLatin1 (txt s) = .ok (.bytes s) := by
  simp only [txt, PyU.encodeLatin1, all_lt_256, if_true, ofNat_toNat_map]

theorem gen_domains_proof (x : V) (uris : List (Option Bytes)) (f : PForest) :
    domainsG (.inst Gen.PyC2Gen.BeaconConfigCls [x, encUris uris]) (encBlock f) = .ok (encBlock (
      if (joinUris uris).isEmpty then f else f ++ stmt (b "uri") [C12.valueToString (joinUris uris)])) := by
  unfold domainsG Gen.PyC2Gen.branch_SETTING_DOMAINS
  have hattr : PyU.getAttr (.inst Gen.PyC2Gen.BeaconConfigCls [x, encUris uris]) "uris" = .ok (encUris uris) := by
    simp [PyU.getAttr, Gen.PyC2Gen.BeaconConfigCls, lookupField]
  have hj : joinComma (uris.filterMap id) = joinUris uris := rfl
  rw [hattr]
  simp only [encUris, PyU.iterList, PyRt.ok_bind, gen_domains_loop, List.nil_append, join_txt, truthy_txt, hj,
    encodeLatin1_txt, pure_ok]
  cases hu : (joinUris uris).isEmpty
  · simp only [Bool.not_false, if_true, Bool.false_eq_true, if_false, xSetOption_bytes f "uri" (by decide), PyRt.ok_bind]
  · simp only [Bool.not_true, Bool.false_eq_true, if_false, if_true]

/-! ### SETTING_BEACON_GATE -/

theorem lowCp_byte (c : UInt8) : PyU.lowCp c.toNat = (lowerByte c).toNat := by
  revert c
  apply C12.forall_byte
  decide +kernel

theorem lower_txt (s : Bytes) (h : s.all (· < 128) = true) : PyU.lower (txt s) = .ok (txt (C13.lower s)) := by
  have h2 : (s.map (·.toNat)).all (· < 128) = true := by
    simp only [List.all_map, List.all_eq_true, Function.comp, decide_eq_true_eq] at h ⊢
    intro c hc
    exact UInt8.lt_iff_toNat_lt.mp (h c hc)
  simp only [txt, PyU.lower, h2, if_true, C13.lower, List.map_map]
  congr 2
  apply List.map_congr_left
  intro c _
  exact lowCp_byte c

theorem gen_gate_loop (l : List Bytes) (h : l.all (fun s => s.all (· < 128)) = true) (f : PForest) :
    PyU.forList (l.map txt) xGateStep (encBlock f)
      = .ok (encBlock (f ++ PForest.flatten (l.map fun s => stmt (C13.lower s) []))) := by
  induction l generalizing f with
  | nil => simp [PyU.forList, PForest.flatten, forest_append_nil]
  | cons s rest ih =>
    simp only [List.all_cons, Bool.and_eq_true] at h
    have hx : xGateStep (txt s) (encBlock f) = .ok (.cont, encBlock (f ++ stmt (C13.lower s) [])) := by
      unfold xGateStep
      rw [lower_txt s h.1]
      simp only [PyRt.ok_bind, pure_ok]
      rw [show treeV (txt (C13.lower s)) [] = treeV (encLabel (some (C13.lower s))) (encForest .nil) from rfl, append_tree]
      rfl
    simp only [List.map_cons, PyU.forList, hx, ih h.2, PForest.flatten, forest_append_assoc]

theorem gen_gate_proof (l : List Bytes) (h : l.all (fun s => s.all (· < 128)) = true) (f : PForest) :
    gateG (encBlock f) (.list (l.map txt))
      = .ok (encBlock (f ++ block (some (b "beacon_gate")) (PForest.flatten (l.map fun s => stmt (C13.lower s) [])))) := by
  unfold gateG Gen.PyC2Gen.branch_SETTING_BEACON_GATE xGate
  have := gen_gate_loop l h .nil
  simp only [forest_nil_append] at this
  simp only [PyU.iterList, PyRt.ok_bind, pure_ok]
  rw [show (V.list [] : V) = encBlock .nil from rfl, this]
  simp only [PyRt.ok_bind, ← txt_b "beacon_gate" (by decide)]
  exact xSetConfigBlock_enc f _ (some (b "beacon_gate"))

/-! ### SETTING_PROCINJ_TRANSFORM_X86 / X64 -/

/-- `prepend` / `append`: the value stored last, `""` initially -/
def injV : Option Bytes → V
  | some v => .bytes v
  | Option.none => PyU.lit ""

def lastOr (isP : Bool) (l : List (Bool × Bytes)) (init : Option Bytes) : Option Bytes :=
  match injLast isP l with
  | some v => some v
  | Option.none => init

theorem injLast_cons (isP : Bool) (x : Bool × Bytes) (r : List (Bool × Bytes)) :
    injLast isP (x :: r) = match injLast isP r with
      | some v => some v
      | Option.none => if x.1 == isP then some x.2 else Option.none := by
  unfold injLast
  rw [List.reverse_cons, List.find?_append]
  cases h : List.find? (fun x => x.1 == isP) r.reverse with
  | some y => simp
  | none =>
    simp only [Option.none_or, List.find?_cons, List.find?_nil, Option.map_none]
    cases hx : x.1 == isP <;> simp

theorem lastOr_none (isP : Bool) (l : List (Bool × Bytes)) : lastOr isP l Option.none = injLast isP l := by
  unfold lastOr; cases injLast isP l <;> rfl

theorem lastOr_cons_same (isP : Bool) (v : Bytes) (r : List (Bool × Bytes)) (init : Option Bytes) :
    lastOr isP ((isP, v) :: r) init = lastOr isP r (some v) := by
  unfold lastOr
  rw [injLast_cons]
  cases injLast isP r <;> simp

theorem lastOr_cons_other (isP other : Bool) (v : Bytes) (r : List (Bool × Bytes)) (init : Option Bytes) (h : (other == isP) = false) :
    lastOr isP ((other, v) :: r) init = lastOr isP r init := by
  unfold lastOr
  rw [injLast_cons]
  cases injLast isP r <;> simp [h]

/-- what `prepend` / `append` contribute to the `StageTransformBlock` -/
def injPart (name : Bytes) : Option Bytes → PForest
  | some v => if v.isEmpty then .nil else stmt name [C12.valueToString v]
  | Option.none => .nil

theorem injKids_eq (l : List (Bool × Bytes)) :
    injKids l = injPart (b "prepend") (injLast true l) ++ injPart (b "append") (injLast false l) := by
  unfold injKids injPart
  cases injLast true l <;> cases injLast false l <;> rfl

theorem truthy_injV (name : Bytes) (o : Option Bytes) : PyU.truthy (injV o) = !(injPart name o).isEmpty := by
  cases o with
  | none => rfl
  | some v => cases v <;> rfl

theorem inj_part (g : PForest) (name : String) (hn : name.toList.all (fun c => c.toNat < 256) = true) (o : Option Bytes) :
    (if PyU.truthy (injV o) then xSetOption (encBlock g) (PyU.lit name) (injV o) else .ok (encBlock g))
      = .ok (encBlock (g ++ injPart (b name) o)) := by
  cases o with
  | none => simp [injV, injPart, forest_append_nil, show PyU.truthy (PyU.lit "") = false from rfl]
  | some v =>
    cases v with
    | nil => simp [injV, injPart, forest_append_nil, PyU.truthy]
    | cons c cs => simp [injV, injPart, PyU.truthy, xSetOption_bytes g name hn]

theorem truthy_bytes_nil : PyU.truthy (.bytes []) = false := rfl
theorem truthy_bytes_cons (c : UInt8) (cs : Bytes) : PyU.truthy (.bytes (c :: cs)) = true := rfl

theorem forest_isEmpty_append (x y : PForest) : (x ++ y).isEmpty = (x.isEmpty && y.isEmpty) := by
  cases x <;> cases y <;> rfl

theorem gen_inj_x86_step (g0 : Py V) (g1 g2 : V → V → V → Py V) (p : Bool × Bytes) (pp aa : V) :
    Gen.PyC2Gen.branch_SETTING_PROCINJ_TRANSFORM_X86_loop1 g0 g1 g2 (encInj p) (pp, aa)
      = .ok (.cont, if p.1 then (.bytes p.2, aa) else (pp, .bytes p.2)) := by
  unfold Gen.PyC2Gen.branch_SETTING_PROCINJ_TRANSFORM_X86_loop1
  obtain ⟨isP, v⟩ := p
  cases isP
  · simp only [encInj, Bool.false_eq_true, if_false, PyU.unpack2, PyU.iterList, PyRt.ok_bind, pure_ok,
      show PyU.eq (PyU.lit "append") (PyU.lit "prepend") = false from by decide,
      show PyU.eq (PyU.lit "append") (PyU.lit "append") = true from by decide, if_true]
  · simp only [encInj, if_true, PyU.unpack2, PyU.iterList, PyRt.ok_bind, pure_ok,
      show PyU.eq (PyU.lit "prepend") (PyU.lit "prepend") = true from by decide]

theorem gen_inj_x86_loop (g0 : Py V) (g1 g2 : V → V → V → Py V) (l : List (Bool × Bytes)) (p a : Option Bytes) :
    PyU.forList (l.map encInj) (Gen.PyC2Gen.branch_SETTING_PROCINJ_TRANSFORM_X86_loop1 g0 g1 g2) (injV p, injV a)
      = .ok (injV (lastOr true l p), injV (lastOr false l a)) := by
  induction l generalizing p a with
  | nil => rfl
  | cons x rest ih =>
    obtain ⟨isP, v⟩ := x
    cases isP
    · simp only [List.map_cons, PyU.forList, gen_inj_x86_step, Bool.false_eq_true, if_false]
      rw [show (V.bytes v) = injV (some v) from rfl, ih, lastOr_cons_other true false v rest p (by decide), lastOr_cons_same]
    · simp only [List.map_cons, PyU.forList, gen_inj_x86_step, if_true]
      rw [show (V.bytes v) = injV (some v) from rfl, ih, lastOr_cons_other false true v rest a (by decide), lastOr_cons_same]

theorem gen_inj_X86_proof (l : List (Bool × Bytes)) (f : PForest) :
    injX86G (encBlock f) (.list (l.map encInj))
      = .ok (encBlock (if (injKids l).isEmpty then f else f ++ block (some (b "transform_x86")) (injKids l))) := by
  unfold injX86G Gen.PyC2Gen.branch_SETTING_PROCINJ_TRANSFORM_X86
  have hl := gen_inj_x86_loop xNew xSetOption xSetConfigBlock l Option.none Option.none
  simp only [lastOr_none] at hl
  rw [show injV Option.none = PyU.lit "" from rfl] at hl
  simp only [PyU.iterList, PyRt.ok_bind, hl, pure_ok]
  rw [injKids_eq, show xNew = .ok (encBlock .nil) from rfl]
  have e0 : PyU.truthy (PyU.lit "") = false := rfl
  have en : xSetConfigBlock (encBlock f) (PyU.lit "transform_x86") (encBlock PForest.nil)
      = .ok (encBlock (f ++ block (some (b "transform_x86")) .nil)) := xSetConfigBlock_lit f .nil _ (by decide)
  cases injLast true l with
  | none =>
    cases injLast false l with
    | none => simp only [injV, injPart, e0, PyRt.ok_bind, Bool.false_eq_true, if_false, Bool.or_self, forest_nil_append, PForest.isEmpty, if_true]
    | some a =>
      cases a with
      | nil => simp only [injV, injPart, e0, truthy_bytes_nil, truthy_bytes_cons, PyRt.ok_bind, Bool.false_eq_true, if_false, Bool.or_self, forest_nil_append,
          PForest.isEmpty, if_true, List.isEmpty_nil, Bool.not_true]
      | cons c cs =>
        simp only [injV, injPart, e0, truthy_bytes_nil, truthy_bytes_cons, PyRt.ok_bind, Bool.false_eq_true, if_false, Bool.false_or, forest_nil_append,
          List.isEmpty_cons, Bool.not_false, if_true, xSetOption_bytes .nil "append" (by decide),
          xSetConfigBlock_lit f _ "transform_x86" (by decide), stmt, PForest.isEmpty]
  | some p =>
    cases p with
    | nil =>
      cases injLast false l with
      | none => simp only [injV, injPart, e0, truthy_bytes_nil, truthy_bytes_cons, PyRt.ok_bind, Bool.false_eq_true, if_false, Bool.or_self, forest_nil_append,
          PForest.isEmpty, if_true, List.isEmpty_nil, Bool.not_true]
      | some a =>
        cases a with
        | nil => simp only [injV, injPart, e0, truthy_bytes_nil, truthy_bytes_cons, PyRt.ok_bind, Bool.false_eq_true, if_false, Bool.or_self, forest_nil_append,
            PForest.isEmpty, if_true, List.isEmpty_nil, Bool.not_true]
        | cons c cs =>
          simp only [injV, injPart, e0, truthy_bytes_nil, truthy_bytes_cons, PyRt.ok_bind, Bool.false_eq_true, if_false, Bool.false_or, forest_nil_append,
            List.isEmpty_cons, List.isEmpty_nil, Bool.not_true, Bool.not_false, if_true, xSetOption_bytes .nil "append" (by decide),
            xSetConfigBlock_lit f _ "transform_x86" (by decide), stmt, PForest.isEmpty]
    | cons pc pcs =>
      cases injLast false l with
      | none =>
        simp only [injV, injPart, e0, truthy_bytes_nil, truthy_bytes_cons, PyRt.ok_bind, Bool.false_eq_true, if_false, Bool.or_false, forest_nil_append,
          forest_append_nil, List.isEmpty_cons, Bool.not_false, if_true, xSetOption_bytes .nil "prepend" (by decide),
          xSetConfigBlock_lit f _ "transform_x86" (by decide), stmt, PForest.isEmpty]
      | some a =>
        cases a with
        | nil =>
          simp only [injV, injPart, e0, truthy_bytes_nil, truthy_bytes_cons, PyRt.ok_bind, Bool.false_eq_true, if_false, Bool.or_false, forest_nil_append,
            forest_append_nil, List.isEmpty_cons, List.isEmpty_nil, Bool.not_true, Bool.not_false, if_true,
            xSetOption_bytes .nil "prepend" (by decide), xSetConfigBlock_lit f _ "transform_x86" (by decide), stmt, PForest.isEmpty]
        | cons c cs =>
          simp only [injV, injPart, e0, truthy_bytes_nil, truthy_bytes_cons, PyRt.ok_bind, Bool.false_eq_true, if_false, Bool.or_self, forest_nil_append,
            List.isEmpty_cons, Bool.not_false, if_true, xSetOption_bytes .nil "prepend" (by decide),
            xSetOption_bytes _ "append" (by decide), xSetConfigBlock_lit f _ "transform_x86" (by decide), stmt]
          rfl

theorem gen_inj_x64_step (g0 : Py V) (g1 g2 : V → V → V → Py V) (p : Bool × Bytes) (pp aa : V) :
    Gen.PyC2Gen.branch_SETTING_PROCINJ_TRANSFORM_X64_loop1 g0 g1 g2 (encInj p) (pp, aa)
      = .ok (.cont, if p.1 then (.bytes p.2, aa) else (pp, .bytes p.2)) := by
  unfold Gen.PyC2Gen.branch_SETTING_PROCINJ_TRANSFORM_X64_loop1
  obtain ⟨isP, v⟩ := p
  cases isP
  · simp only [encInj, Bool.false_eq_true, if_false, PyU.unpack2, PyU.iterList, PyRt.ok_bind, pure_ok,
      show PyU.eq (PyU.lit "append") (PyU.lit "prepend") = false from by decide,
      show PyU.eq (PyU.lit "append") (PyU.lit "append") = true from by decide, if_true]
  · simp only [encInj, if_true, PyU.unpack2, PyU.iterList, PyRt.ok_bind, pure_ok,
      show PyU.eq (PyU.lit "prepend") (PyU.lit "prepend") = true from by decide]

theorem gen_inj_x64_loop (g0 : Py V) (g1 g2 : V → V → V → Py V) (l : List (Bool × Bytes)) (p a : Option Bytes) :
    PyU.forList (l.map encInj) (Gen.PyC2Gen.branch_SETTING_PROCINJ_TRANSFORM_X64_loop1 g0 g1 g2) (injV p, injV a)
      = .ok (injV (lastOr true l p), injV (lastOr false l a)) := by
  induction l generalizing p a with
  | nil => rfl
  | cons x rest ih =>
    obtain ⟨isP, v⟩ := x
    cases isP
    · simp only [List.map_cons, PyU.forList, gen_inj_x64_step, Bool.false_eq_true, if_false]
      rw [show (V.bytes v) = injV (some v) from rfl, ih, lastOr_cons_other true false v rest p (by decide), lastOr_cons_same]
    · simp only [List.map_cons, PyU.forList, gen_inj_x64_step, if_true]
      rw [show (V.bytes v) = injV (some v) from rfl, ih, lastOr_cons_other false true v rest a (by decide), lastOr_cons_same]

theorem gen_inj_X64_proof (l : List (Bool × Bytes)) (f : PForest) :
    injX64G (encBlock f) (.list (l.map encInj))
      = .ok (encBlock (if (injKids l).isEmpty then f else f ++ block (some (b "transform_x64")) (injKids l))) := by
  unfold injX64G Gen.PyC2Gen.branch_SETTING_PROCINJ_TRANSFORM_X64
  have hl := gen_inj_x64_loop xNew xSetOption xSetConfigBlock l Option.none Option.none
  simp only [lastOr_none] at hl
  rw [show injV Option.none = PyU.lit "" from rfl] at hl
  simp only [PyU.iterList, PyRt.ok_bind, hl, pure_ok]
  rw [injKids_eq, show xNew = .ok (encBlock .nil) from rfl]
  have e0 : PyU.truthy (PyU.lit "") = false := rfl
  have en : xSetConfigBlock (encBlock f) (PyU.lit "transform_x64") (encBlock PForest.nil)
      = .ok (encBlock (f ++ block (some (b "transform_x64")) .nil)) := xSetConfigBlock_lit f .nil _ (by decide)
  cases injLast true l with
  | none =>
    cases injLast false l with
    | none => simp only [injV, injPart, e0, PyRt.ok_bind, Bool.false_eq_true, if_false, Bool.or_self, forest_nil_append, PForest.isEmpty, if_true]
    | some a =>
      cases a with
      | nil => simp only [injV, injPart, e0, truthy_bytes_nil, truthy_bytes_cons, PyRt.ok_bind, Bool.false_eq_true, if_false, Bool.or_self, forest_nil_append,
          PForest.isEmpty, if_true, List.isEmpty_nil, Bool.not_true]
      | cons c cs =>
        simp only [injV, injPart, e0, truthy_bytes_nil, truthy_bytes_cons, PyRt.ok_bind, Bool.false_eq_true, if_false, Bool.false_or, forest_nil_append,
          List.isEmpty_cons, Bool.not_false, if_true, xSetOption_bytes .nil "append" (by decide),
          xSetConfigBlock_lit f _ "transform_x64" (by decide), stmt, PForest.isEmpty]
  | some p =>
    cases p with
    | nil =>
      cases injLast false l with
      | none => simp only [injV, injPart, e0, truthy_bytes_nil, truthy_bytes_cons, PyRt.ok_bind, Bool.false_eq_true, if_false, Bool.or_self, forest_nil_append,
          PForest.isEmpty, if_true, List.isEmpty_nil, Bool.not_true]
      | some a =>
        cases a with
        | nil => simp only [injV, injPart, e0, truthy_bytes_nil, truthy_bytes_cons, PyRt.ok_bind, Bool.false_eq_true, if_false, Bool.or_self, forest_nil_append,
            PForest.isEmpty, if_true, List.isEmpty_nil, Bool.not_true]
        | cons c cs =>
          simp only [injV, injPart, e0, truthy_bytes_nil, truthy_bytes_cons, PyRt.ok_bind, Bool.false_eq_true, if_false, Bool.false_or, forest_nil_append,
            List.isEmpty_cons, List.isEmpty_nil, Bool.not_true, Bool.not_false, if_true, xSetOption_bytes .nil "append" (by decide),
            xSetConfigBlock_lit f _ "transform_x64" (by decide), stmt, PForest.isEmpty]
    | cons pc pcs =>
      cases injLast false l with
      | none =>
        simp only [injV, injPart, e0, truthy_bytes_nil, truthy_bytes_cons, PyRt.ok_bind, Bool.false_eq_true, if_false, Bool.or_false, forest_nil_append,
          forest_append_nil, List.isEmpty_cons, Bool.not_false, if_true, xSetOption_bytes .nil "prepend" (by decide),
          xSetConfigBlock_lit f _ "transform_x64" (by decide), stmt, PForest.isEmpty]
      | some a =>
        cases a with
        | nil =>
          simp only [injV, injPart, e0, truthy_bytes_nil, truthy_bytes_cons, PyRt.ok_bind, Bool.false_eq_true, if_false, Bool.or_false, forest_nil_append,
            forest_append_nil, List.isEmpty_cons, List.isEmpty_nil, Bool.not_true, Bool.not_false, if_true,
            xSetOption_bytes .nil "prepend" (by decide), xSetConfigBlock_lit f _ "transform_x64" (by decide), stmt, PForest.isEmpty]
        | cons c cs =>
          simp only [injV, injPart, e0, truthy_bytes_nil, truthy_bytes_cons, PyRt.ok_bind, Bool.false_eq_true, if_false, Bool.or_self, forest_nil_append,
            List.isEmpty_cons, Bool.not_false, if_true, xSetOption_bytes .nil "prepend" (by decide),
            xSetOption_bytes _ "append" (by decide), xSetConfigBlock_lit f _ "transform_x64" (by decide), stmt]
          rfl

/-! ### SETTING_C2_REQUEST / SETTING_C2_POSTREQ -/

def encPairs (ps : List (Bytes × Bytes)) : V := .list (ps.map fun p => .tuple [.bytes p.1, .bytes p.2])

def encGroups (gs : List (Option Bytes × List DOpt)) : V :=
  .dict (gs.map fun g => encLabel g.1) (gs.map fun g => encDOpts g.2)

/-- the loop variables `(_build, headers, params, block_steps)` -/
def encAcc (a : ReqAcc) : V × V × V × V := (encLabel a.build, encPairs a.headers, encPairs a.params, encGroups a.groups)

theorem splitAt_partition2 (sep : Bytes) (v : Bytes) :
    (∀ p, PyU.splitAt? sep v = some p → partition2 sep v = p) ∧ (PyU.splitAt? sep v = Option.none → partition2 sep v = (v, [])) := by
  induction v with
  | nil => exact ⟨fun p h => by simp [PyU.splitAt?] at h, fun _ => rfl⟩
  | cons c cs ih =>
    by_cases hp : sep.isPrefixOf (c :: cs) = true
    · constructor
      · intro p h
        simp only [PyU.splitAt?, hp, if_true, Option.some.injEq] at h
        simp only [partition2, hp, if_true, h]
      · intro h
        simp [PyU.splitAt?, hp] at h
    · constructor
      · intro p h
        simp only [PyU.splitAt?, hp, Bool.false_eq_true, if_false, Option.map_eq_some_iff] at h
        obtain ⟨q, hq, rfl⟩ := h
        simp only [partition2, hp, Bool.false_eq_true, if_false, ih.1 q hq]
      · intro h
        simp only [PyU.splitAt?, hp, Bool.false_eq_true, if_false, Option.map_eq_none_iff] at h
        simp only [partition2, hp, Bool.false_eq_true, if_false, ih.2 h]

theorem partition_bytes (v sep : Bytes) (hs : sep.isEmpty = false) :
    ∃ m, PyU.partition (.bytes v) (.bytes sep) = .ok (.tuple [.bytes (partition2 sep v).1, m, .bytes (partition2 sep v).2]) := by
  simp only [PyU.partition, hs, Bool.false_eq_true, if_false]
  cases h : PyU.splitAt? sep v with
  | some p => rw [(splitAt_partition2 sep v).1 p h]; exact ⟨_, rfl⟩
  | none => rw [(splitAt_partition2 sep v).2 h]; exact ⟨_, rfl⟩

theorem keyEq_label (x y : Option Bytes) : PyU.keyEq (encLabel x) (encLabel y) = decide (x = y) := by
  cases x with
  | none => cases y <;> rfl
  | some s =>
    cases y with
    | none => rfl
    | some t =>
      simp only [encLabel, txt, PyU.keyEq, PyU.eq, Bool.and_true]
      rw [Bool.eq_iff_iff]
      simp only [beq_iff_eq, decide_eq_true_eq, Option.some.injEq]
      exact ⟨map_toNat_inj, fun h => by rw [h]⟩

theorem hashable_label (x : Option Bytes) : PyU.hashable (encLabel x) = true := by cases x <;> rfl

theorem addGroup_absent (key : Option Bytes) (d : DOpt) (gs : List (Option Bytes × List DOpt)) (h : ∀ g ∈ gs, g.1 ≠ key) :
    addGroup key d gs = gs ++ [(key, [d])] := by
  induction gs with
  | nil => rfl
  | cons g rest ih =>
    have hg : g.1 ≠ key := h g (by simp)
    simp only [addGroup, hg, if_false, List.cons_append, ih (fun g' hg' => h g' (by simp [hg']))]

theorem dd_absent (key : Option Bytes) (gs : List (Option Bytes × List DOpt)) (h : ∀ g ∈ gs, g.1 ≠ key) (x : V) :
    PyU.findKey (encLabel key) (gs.map fun g => encLabel g.1) (gs.map fun g => encDOpts g.2) = Option.none ∧
    PyU.findKey (encLabel key) ((gs.map fun g => encLabel g.1) ++ [encLabel key]) ((gs.map fun g => encDOpts g.2) ++ [.list []])
      = some (.list []) ∧
    PyU.setKey (encLabel key) x ((gs.map fun g => encLabel g.1) ++ [encLabel key]) ((gs.map fun g => encDOpts g.2) ++ [.list []])
      = (gs.map fun g => encDOpts g.2) ++ [x] := by
  induction gs with
  | nil => simp [PyU.findKey, PyU.setKey, keyEq_label]
  | cons g rest ih =>
    have hg : ¬ key = g.1 := fun e => h g (by simp) e.symm
    have := ih (fun g' hg' => h g' (by simp [hg']))
    simp only [List.map_cons, List.cons_append, PyU.findKey, PyU.setKey, keyEq_label, hg, decide_false, Bool.false_eq_true, if_false,
      this, and_self]

theorem dd_present (key : Option Bytes) (d : DOpt) (gs : List (Option Bytes × List DOpt)) (h : ∃ g ∈ gs, g.1 = key) :
    ∃ ds, PyU.findKey (encLabel key) (gs.map fun g => encLabel g.1) (gs.map fun g => encDOpts g.2) = some (encDOpts ds) ∧
      PyU.setKey (encLabel key) (encDOpts (ds ++ [d])) (gs.map fun g => encLabel g.1) (gs.map fun g => encDOpts g.2)
        = ((addGroup key d gs).map fun g => encDOpts g.2) ∧
      ((addGroup key d gs).map fun g => encLabel g.1) = (gs.map fun g => encLabel g.1) := by
  induction gs with
  | nil => simp at h
  | cons g rest ih =>
    by_cases hg : g.1 = key
    · refine ⟨g.2, ?_⟩
      simp only [List.map_cons, PyU.findKey, PyU.setKey, keyEq_label, hg, decide_true, if_true, addGroup, and_self]
    · have hg' : ¬ key = g.1 := fun e => hg e.symm
      obtain ⟨g', hm, he⟩ := h
      have hrest : ∃ g ∈ rest, g.1 = key := by
        simp only [List.mem_cons] at hm
        rcases hm with rfl | hm
        · exact absurd he hg
        · exact ⟨g', hm, he⟩
      obtain ⟨ds, h1, h2, h3⟩ := ih hrest
      refine ⟨ds, ?_⟩
      simp only [List.map_cons, PyU.findKey, PyU.setKey, keyEq_label, hg', decide_false, Bool.false_eq_true, if_false, addGroup, hg,
        h1, h2, h3, and_self]

theorem dopts_append (ds : List DOpt) (d : DOpt) : PyU.append (encDOpts ds) (encDOpt d) = .ok (encDOpts (ds ++ [d])) := by
  simp only [encDOpts, PyU.append, List.map_append, List.map_cons, List.map_nil]

theorem dd_append (gs : List (Option Bytes × List DOpt)) (key : Option Bytes) (d : DOpt) :
    (PyU.t13DdItem (encGroups gs) (encLabel key) >>= fun d1 => PyU.t13DdAppend d1 (encLabel key) (encDOpt d))
      = .ok (encGroups (addGroup key d gs)) := by
  by_cases h : ∃ g ∈ gs, g.1 = key
  · obtain ⟨ds, h1, h2, h3⟩ := dd_present key d gs h
    have e1 : PyU.t13DdItem (encGroups gs) (encLabel key) = .ok (encGroups gs) := by
      simp only [encGroups, PyU.t13DdItem, hashable_label, if_true, h1]
    have e2 : PyU.t13DdAppend (encGroups gs) (encLabel key) (encDOpt d) = .ok (encGroups (addGroup key d gs)) := by
      simp only [encGroups, PyU.t13DdAppend, hashable_label, if_true, h1, dopts_append, h2, h3]
    rw [e1, PyRt.ok_bind, e2]
  · have h' : ∀ g ∈ gs, g.1 ≠ key := fun g hg e => h ⟨g, hg, e⟩
    obtain ⟨h1, h2, h3⟩ := dd_absent key gs h' (encDOpts [d])
    have e1 : PyU.t13DdItem (encGroups gs) (encLabel key)
        = .ok (.dict ((gs.map fun g => encLabel g.1) ++ [encLabel key]) ((gs.map fun g => encDOpts g.2) ++ [.list []])) := by
      simp only [encGroups, PyU.t13DdItem, hashable_label, if_true, h1]
    have ea : PyU.append (V.list []) (encDOpt d) = .ok (encDOpts [d]) := rfl
    rw [e1, PyRt.ok_bind]
    simp only [PyU.t13DdAppend, hashable_label, if_true, h2, ea, h3, addGroup_absent key d gs h', encGroups, List.map_append,
      List.map_cons, List.map_nil]

theorem en_name_facts (e : EnStep) :
    PyU.contains (V.tuple [PyU.lit "_HEADER", PyU.lit "_HOSTHEADER"]) (txt e.pyName) = .ok false ∧
    PyU.eq (txt e.pyName) (PyU.lit "_PARAMETER") = false ∧ PyU.eq (txt e.pyName) (PyU.lit "BUILD") = false ∧
    PyU.lower (txt e.pyName) = .ok (txt (C13.lower e.pyName)) := by
  cases e <;> decide +kernel

theorem arg_name_facts (a : ArgStep) :
    PyU.contains (V.tuple [PyU.lit "_HEADER", PyU.lit "_HOSTHEADER"]) (txt a.pyName) = .ok false ∧
    PyU.eq (txt a.pyName) (PyU.lit "_PARAMETER") = false ∧ PyU.eq (txt a.pyName) (PyU.lit "BUILD") = false ∧
    PyU.lower (txt a.pyName) = .ok (txt (C13.lower a.pyName)) := by
  cases a <;> decide +kernel

theorem pairs_append (ps : List (Bytes × Bytes)) (p : Bytes × Bytes) :
    PyU.append (encPairs ps) (.tuple [.bytes p.1, .bytes p.2]) = .ok (encPairs (ps ++ [p])) := by
  simp only [encPairs, PyU.append, List.map_append, List.map_cons, List.map_nil]

theorem decDOpt_enc (d : DOpt) : decDOpt (encDOpt d) = some d := by
  cases d with
  | bare n => simp only [encDOpt, txt, decDOpt, decName, all_lt_256, if_true, ofNat_toNat_map, Option.map_some]
  | pair n a =>
    cases a with
    | bytes v => simp only [encDOpt, encDArg, txt, decDOpt, decName, decArg, all_lt_256, if_true, ofNat_toNat_map]
    | str t => simp only [encDOpt, encDArg, txt, decDOpt, decName, decArg, all_lt_256, if_true, ofNat_toNat_map]

theorem mapM_decDOpt (l : List DOpt) : (l.map encDOpt).mapM decDOpt = some l := by
  induction l with
  | nil => rfl
  | cons d rest ih => simp only [List.map_cons, List.mapM_cons, decDOpt_enc, ih, Option.bind_eq_bind, Option.bind_some, Option.pure_def]

theorem xDataTransform_enc (l : List DOpt) : xDataTransform (encDOpts l) = .ok (encBlock (dtKids l)) := by
  simp only [xDataTransform, encDOpts, mapM_decDOpt]

theorem xPair_step (f : PForest) (lab : Bytes) (p : Bytes × Bytes) :
    xPairStep (txt lab) (.tuple [.bytes p.1, .bytes p.2]) (encBlock f)
      = .ok (.cont, encBlock (f ++ stmt lab [C12.valueToString p.1, C12.valueToString p.2])) := by
  unfold xPairStep
  simp only [PyU.unpack2, PyU.iterList, PyRt.ok_bind, pure_ok, vts_bytes, strNode_enc]
  rw [show treeV (txt lab) [treeV (encLabel (some (b "string"))) (encForest (.tok false (C12.valueToString p.1) .nil)),
      treeV (encLabel (some (b "string"))) (encForest (.tok false (C12.valueToString p.2) .nil))]
    = treeV (encLabel (some lab)) (encForest (strKids [C12.valueToString p.1, C12.valueToString p.2])) from rfl, append_tree]
  rfl

theorem xPair_enc (f : PForest) (lab : String) (hl : lab.toList.all (fun c => c.toNat < 256) = true) (ps : List (Bytes × Bytes)) :
    xPair (encBlock f) (PyU.lit lab) (encPairs ps) = .ok (encBlock (f ++ pairStmts (b lab) ps)) := by
  unfold xPair
  rw [← txt_b lab hl]
  simp only [encPairs, PyU.iterList, PyRt.ok_bind]
  induction ps generalizing f with
  | nil => simp [PyU.forList, pairStmts, PForest.flatten, forest_append_nil]
  | cons p rest ih =>
    simp only [List.map_cons, PyU.forList, xPair_step, ih, pairStmts, PForest.flatten, forest_append_assoc]

theorem pairs_truthy (ps : List (Bytes × Bytes)) : PyU.truthy (encPairs ps) = !ps.isEmpty := by cases ps <;> rfl

theorem pairStmts_nil_of_empty (lab : Bytes) (ps : List (Bytes × Bytes)) (h : ps.isEmpty = true) : pairStmts lab ps = .nil := by
  cases ps with
  | nil => rfl
  | cons p r => simp at h

theorem t13Pairs_map {α : Type} (l : List α) (k v : α → V) :
    PyU.t13Pairs (l.map k) (l.map v) = l.map fun g => .tuple [k g, v g] := by
  induction l with
  | nil => rfl
  | cons g rest ih => simp only [List.map_cons, PyU.t13Pairs, ih]

theorem gen_request_step (g1 : V → V → V → Py V) (g2 : V → Py V) (g3 : V → V → V → Py V) (t : TStep) (a : ReqAcc) :
    Gen.PyC2Gen.branch_SETTING_C2_REQUEST_loop1 g1 g2 g3 (encTStep t) (encAcc a) = .ok (.cont, encAcc (reqStep a t)) := by
  unfold Gen.PyC2Gen.branch_SETTING_C2_REQUEST_loop1
  cases t with
  | build s =>
    simp only [encTStep, encAcc, PyU.unpack2, PyU.iterList, PyRt.ok_bind, pure_ok,
      show PyU.contains (V.tuple [PyU.lit "_HEADER", PyU.lit "_HOSTHEADER"]) (PyU.lit "BUILD") = .ok false from by decide,
      show PyU.eq (PyU.lit "BUILD") (PyU.lit "_PARAMETER") = false from by decide,
      show PyU.eq (PyU.lit "BUILD") (PyU.lit "BUILD") = true from by decide, Bool.false_eq_true, if_false, if_true, reqStep, encLabel]
  | en e =>
    obtain ⟨h1, h2, h3, h4⟩ := en_name_facts e
    have hd := dd_append a.groups a.build (.bare (C13.lower e.pyName))
    simp only [encTStep, encAcc, PyU.unpack2, PyU.iterList, PyRt.ok_bind, pure_ok, h1, h2, h3, h4, Bool.false_eq_true, if_false,
      PyU.t13IsBool, beq_self_eq_true, if_true, reqStep]
    cases hi : PyU.t13DdItem (encGroups a.groups) (encLabel a.build) with
    | error e' => rw [hi] at hd; simp at hd
    | ok d1 =>
      rw [hi, PyRt.ok_bind] at hd
      simp only [PyRt.ok_bind]
      rw [show txt (C13.lower e.pyName) = encDOpt (.bare (C13.lower e.pyName)) from rfl, hd]
      rfl
  | arg x v =>
    obtain ⟨h1, h2, h3, h4⟩ := arg_name_facts x
    have hd := dd_append a.groups a.build (.pair (C13.lower x.pyName) (.bytes v))
    simp only [encTStep, encAcc, PyU.unpack2, PyU.iterList, PyRt.ok_bind, pure_ok, h1, h2, h3, h4, Bool.false_eq_true, if_false,
      PyU.t13IsBool, reqStep]
    cases hi : PyU.t13DdItem (encGroups a.groups) (encLabel a.build) with
    | error e' => rw [hi] at hd; simp at hd
    | ok d1 =>
      rw [hi, PyRt.ok_bind] at hd
      simp only [PyRt.ok_bind]
      rw [show V.tuple [txt (C13.lower x.pyName), V.bytes v] = encDOpt (.pair (C13.lower x.pyName) (.bytes v)) from rfl, hd]
      rfl
  | «static» st v =>
    cases st with
    | hdr =>
      obtain ⟨m, hm⟩ := partition_bytes v [58, 32] rfl
      simp only [encTStep, encAcc, PyU.unpack2, PyU.unpack3, PyU.iterList, PyRt.ok_bind, pure_ok, StaticStep.pyName,
        txt_b "_HEADER" (by decide),
        show PyU.contains (V.tuple [PyU.lit "_HEADER", PyU.lit "_HOSTHEADER"]) (PyU.lit "_HEADER") = .ok true from by decide,
        if_true, hm, pairs_append, reqStep]
    | hostHdr =>
      obtain ⟨m, hm⟩ := partition_bytes v [58, 32] rfl
      simp only [encTStep, encAcc, PyU.unpack2, PyU.unpack3, PyU.iterList, PyRt.ok_bind, pure_ok, StaticStep.pyName,
        txt_b "_HOSTHEADER" (by decide),
        show PyU.contains (V.tuple [PyU.lit "_HEADER", PyU.lit "_HOSTHEADER"]) (PyU.lit "_HOSTHEADER") = .ok true from by decide,
        if_true, hm, pairs_append, reqStep]
    | param =>
      obtain ⟨m, hm⟩ := partition_bytes v [61] rfl
      simp only [encTStep, encAcc, PyU.unpack2, PyU.unpack3, PyU.iterList, PyRt.ok_bind, pure_ok, StaticStep.pyName,
        txt_b "_PARAMETER" (by decide),
        show PyU.contains (V.tuple [PyU.lit "_HEADER", PyU.lit "_HOSTHEADER"]) (PyU.lit "_PARAMETER") = .ok false from by decide,
        show PyU.eq (PyU.lit "_PARAMETER") (PyU.lit "_PARAMETER") = true from by decide,
        Bool.false_eq_true, if_false, if_true, hm, pairs_append, reqStep]

theorem gen_request_loop (g1 : V → V → V → Py V) (g2 : V → Py V) (g3 : V → V → V → Py V) (prog : List TStep) (a : ReqAcc) :
    PyU.forList (prog.map encTStep) (Gen.PyC2Gen.branch_SETTING_C2_REQUEST_loop1 g1 g2 g3) (encAcc a)
      = .ok (encAcc (prog.foldl reqStep a)) := by
  induction prog generalizing a with
  | nil => rfl
  | cons t rest ih => simp only [List.map_cons, PyU.forList, gen_request_step, ih, List.foldl_cons]

theorem gen_request_groups (g1 : V → V → V → Py V) (gs : List (Option Bytes × List DOpt)) (f : PForest) :
    PyU.forList (gs.map fun g => V.tuple [encLabel g.1, encDOpts g.2])
        (Gen.PyC2Gen.branch_SETTING_C2_REQUEST_loop2 g1 xDataTransform xSetConfigBlock) (encBlock f)
      = .ok (encBlock (f ++ PForest.flatten (gs.map fun g => block g.1 (dtKids g.2)))) := by
  induction gs generalizing f with
  | nil => simp [PyU.forList, PForest.flatten, forest_append_nil]
  | cons g rest ih =>
    simp only [List.map_cons, PyU.forList, Gen.PyC2Gen.branch_SETTING_C2_REQUEST_loop2, PyU.unpack2, PyU.iterList, PyRt.ok_bind, pure_ok,
      xDataTransform_enc, xSetConfigBlock_enc, ih, PForest.flatten, forest_append_assoc]

theorem gen_request_tail (gs : List (Option Bytes × List DOpt)) (f : PForest) :
    (PyU.t13Items (encGroups gs) >>= fun t20 => PyU.iterList t20 >>= fun t21 =>
        PyU.forList t21 (Gen.PyC2Gen.branch_SETTING_C2_REQUEST_loop2 xPair xDataTransform xSetConfigBlock) (encBlock f) >>= fun t26 =>
          (Except.ok t26 : Py V))
      = .ok (encBlock (f ++ PForest.flatten (gs.map fun g => block g.1 (dtKids g.2)))) := by
  simp only [encGroups, PyU.t13Items, t13Pairs_map, PyRt.ok_bind, PyU.iterList, gen_request_groups]

theorem gen_request_proof (prog : List TStep) (f : PForest) :
    requestG (encBlock f) (.list (prog.map encTStep)) = .ok (encBlock (f ++ requestKids prog)) := by
  unfold requestG Gen.PyC2Gen.branch_SETTING_C2_REQUEST
  have hl := gen_request_loop xPair xDataTransform xSetConfigBlock prog ⟨Option.none, [], [], []⟩
  rw [show encAcc ⟨Option.none, [], [], []⟩ = (V.none, V.list [], V.list [], V.dict [] []) from rfl] at hl
  rw [show List.foldl reqStep ⟨Option.none, [], [], []⟩ prog = reqRun prog from rfl] at hl
  simp only [PyU.iterList, PyRt.ok_bind, hl, pure_ok, encAcc, requestKids]
  generalize reqRun prog = A
  have ht := fun g => gen_request_tail A.groups g
  simp only [PyU.iterList] at ht
  simp only [pairs_truthy]
  cases e1 : A.headers.isEmpty
  · cases e2 : A.params.isEmpty
    · simp only [Bool.not_false, if_true, xPair_enc _ "header" (by decide), xPair_enc _ "parameter" (by decide), PyRt.ok_bind, ht,
        forest_append_assoc]
    · simp only [Bool.not_false, Bool.not_true, Bool.false_eq_true, if_false, if_true, xPair_enc _ "header" (by decide), PyRt.ok_bind, ht,
        forest_append_assoc, pairStmts_nil_of_empty (b "parameter") A.params e2, forest_nil_append]
  · cases e2 : A.params.isEmpty
    · simp only [Bool.not_false, Bool.not_true, Bool.false_eq_true, if_false, if_true, xPair_enc _ "parameter" (by decide), PyRt.ok_bind, ht,
        forest_append_assoc, pairStmts_nil_of_empty (b "header") A.headers e1, forest_nil_append]
    · simp only [Bool.not_true, Bool.false_eq_true, if_false, ht, pairStmts_nil_of_empty (b "header") A.headers e1,
        pairStmts_nil_of_empty (b "parameter") A.params e2, forest_nil_append]

theorem gen_postreq_step (g1 : V → V → V → Py V) (g2 : V → Py V) (g3 : V → V → V → Py V) (t : TStep) (a : ReqAcc) :
    Gen.PyC2Gen.branch_SETTING_C2_POSTREQ_loop1 g1 g2 g3 (encTStep t) (encAcc a) = .ok (.cont, encAcc (reqStep a t)) := by
  unfold Gen.PyC2Gen.branch_SETTING_C2_POSTREQ_loop1
  cases t with
  | build s =>
    simp only [encTStep, encAcc, PyU.unpack2, PyU.iterList, PyRt.ok_bind, pure_ok,
      show PyU.contains (V.tuple [PyU.lit "_HEADER", PyU.lit "_HOSTHEADER"]) (PyU.lit "BUILD") = .ok false from by decide,
      show PyU.eq (PyU.lit "BUILD") (PyU.lit "_PARAMETER") = false from by decide,
      show PyU.eq (PyU.lit "BUILD") (PyU.lit "BUILD") = true from by decide, Bool.false_eq_true, if_false, if_true, reqStep, encLabel]
  | en e =>
    obtain ⟨h1, h2, h3, h4⟩ := en_name_facts e
    have hd := dd_append a.groups a.build (.bare (C13.lower e.pyName))
    simp only [encTStep, encAcc, PyU.unpack2, PyU.iterList, PyRt.ok_bind, pure_ok, h1, h2, h3, h4, Bool.false_eq_true, if_false,
      PyU.t13IsBool, beq_self_eq_true, if_true, reqStep]
    cases hi : PyU.t13DdItem (encGroups a.groups) (encLabel a.build) with
    | error e' => rw [hi] at hd; simp at hd
    | ok d1 =>
      rw [hi, PyRt.ok_bind] at hd
      simp only [PyRt.ok_bind]
      rw [show txt (C13.lower e.pyName) = encDOpt (.bare (C13.lower e.pyName)) from rfl, hd]
      rfl
  | arg x v =>
    obtain ⟨h1, h2, h3, h4⟩ := arg_name_facts x
    have hd := dd_append a.groups a.build (.pair (C13.lower x.pyName) (.bytes v))
    simp only [encTStep, encAcc, PyU.unpack2, PyU.iterList, PyRt.ok_bind, pure_ok, h1, h2, h3, h4, Bool.false_eq_true, if_false,
      PyU.t13IsBool, reqStep]
    cases hi : PyU.t13DdItem (encGroups a.groups) (encLabel a.build) with
    | error e' => rw [hi] at hd; simp at hd
    | ok d1 =>
      rw [hi, PyRt.ok_bind] at hd
      simp only [PyRt.ok_bind]
      rw [show V.tuple [txt (C13.lower x.pyName), V.bytes v] = encDOpt (.pair (C13.lower x.pyName) (.bytes v)) from rfl, hd]
      rfl
  | «static» st v =>
    cases st with
    | hdr =>
      obtain ⟨m, hm⟩ := partition_bytes v [58, 32] rfl
      simp only [encTStep, encAcc, PyU.unpack2, PyU.unpack3, PyU.iterList, PyRt.ok_bind, pure_ok, StaticStep.pyName,
        txt_b "_HEADER" (by decide),
        show PyU.contains (V.tuple [PyU.lit "_HEADER", PyU.lit "_HOSTHEADER"]) (PyU.lit "_HEADER") = .ok true from by decide,
        if_true, hm, pairs_append, reqStep]
    | hostHdr =>
      obtain ⟨m, hm⟩ := partition_bytes v [58, 32] rfl
      simp only [encTStep, encAcc, PyU.unpack2, PyU.unpack3, PyU.iterList, PyRt.ok_bind, pure_ok, StaticStep.pyName,
        txt_b "_HOSTHEADER" (by decide),
        show PyU.contains (V.tuple [PyU.lit "_HEADER", PyU.lit "_HOSTHEADER"]) (PyU.lit "_HOSTHEADER") = .ok true from by decide,
        if_true, hm, pairs_append, reqStep]
    | param =>
      obtain ⟨m, hm⟩ := partition_bytes v [61] rfl
      simp only [encTStep, encAcc, PyU.unpack2, PyU.unpack3, PyU.iterList, PyRt.ok_bind, pure_ok, StaticStep.pyName,
        txt_b "_PARAMETER" (by decide),
        show PyU.contains (V.tuple [PyU.lit "_HEADER", PyU.lit "_HOSTHEADER"]) (PyU.lit "_PARAMETER") = .ok false from by decide,
        show PyU.eq (PyU.lit "_PARAMETER") (PyU.lit "_PARAMETER") = true from by decide,
        Bool.false_eq_true, if_false, if_true, hm, pairs_append, reqStep]

theorem gen_postreq_loop (g1 : V → V → V → Py V) (g2 : V → Py V) (g3 : V → V → V → Py V) (prog : List TStep) (a : ReqAcc) :
    PyU.forList (prog.map encTStep) (Gen.PyC2Gen.branch_SETTING_C2_POSTREQ_loop1 g1 g2 g3) (encAcc a)
      = .ok (encAcc (prog.foldl reqStep a)) := by
  induction prog generalizing a with
  | nil => rfl
  | cons t rest ih => simp only [List.map_cons, PyU.forList, gen_postreq_step, ih, List.foldl_cons]

theorem gen_postreq_groups (g1 : V → V → V → Py V) (gs : List (Option Bytes × List DOpt)) (f : PForest) :
    PyU.forList (gs.map fun g => V.tuple [encLabel g.1, encDOpts g.2])
        (Gen.PyC2Gen.branch_SETTING_C2_POSTREQ_loop2 g1 xDataTransform xSetConfigBlock) (encBlock f)
      = .ok (encBlock (f ++ PForest.flatten (gs.map fun g => block g.1 (dtKids g.2)))) := by
  induction gs generalizing f with
  | nil => simp [PyU.forList, PForest.flatten, forest_append_nil]
  | cons g rest ih =>
    simp only [List.map_cons, PyU.forList, Gen.PyC2Gen.branch_SETTING_C2_POSTREQ_loop2, PyU.unpack2, PyU.iterList, PyRt.ok_bind, pure_ok,
      xDataTransform_enc, xSetConfigBlock_enc, ih, PForest.flatten, forest_append_assoc]

theorem gen_postreq_tail (gs : List (Option Bytes × List DOpt)) (f : PForest) :
    (PyU.t13Items (encGroups gs) >>= fun t20 => PyU.iterList t20 >>= fun t21 =>
        PyU.forList t21 (Gen.PyC2Gen.branch_SETTING_C2_POSTREQ_loop2 xPair xDataTransform xSetConfigBlock) (encBlock f) >>= fun t26 =>
          (Except.ok t26 : Py V))
      = .ok (encBlock (f ++ PForest.flatten (gs.map fun g => block g.1 (dtKids g.2)))) := by
  simp only [encGroups, PyU.t13Items, t13Pairs_map, PyRt.ok_bind, PyU.iterList, gen_postreq_groups]

theorem gen_postreq_proof (prog : List TStep) (f : PForest) :
    postreqG (encBlock f) (.list (prog.map encTStep)) = .ok (encBlock (f ++ requestKids prog)) := by
  unfold postreqG Gen.PyC2Gen.branch_SETTING_C2_POSTREQ
  have hl := gen_postreq_loop xPair xDataTransform xSetConfigBlock prog ⟨Option.none, [], [], []⟩
  rw [show encAcc ⟨Option.none, [], [], []⟩ = (V.none, V.list [], V.list [], V.dict [] []) from rfl] at hl
  rw [show List.foldl reqStep ⟨Option.none, [], [], []⟩ prog = reqRun prog from rfl] at hl
  simp only [PyU.iterList, PyRt.ok_bind, hl, pure_ok, encAcc, requestKids]
  generalize reqRun prog = A
  have ht := fun g => gen_postreq_tail A.groups g
  simp only [PyU.iterList] at ht
  simp only [pairs_truthy]
  cases e1 : A.headers.isEmpty
  · cases e2 : A.params.isEmpty
    · simp only [Bool.not_false, if_true, xPair_enc _ "header" (by decide), xPair_enc _ "parameter" (by decide), PyRt.ok_bind, ht,
        forest_append_assoc]
    · simp only [Bool.not_false, Bool.not_true, Bool.false_eq_true, if_false, if_true, xPair_enc _ "header" (by decide), PyRt.ok_bind, ht,
        forest_append_assoc, pairStmts_nil_of_empty (b "parameter") A.params e2, forest_nil_append]
  · cases e2 : A.params.isEmpty
    · simp only [Bool.not_false, Bool.not_true, Bool.false_eq_true, if_false, if_true, xPair_enc _ "parameter" (by decide), PyRt.ok_bind, ht,
        forest_append_assoc, pairStmts_nil_of_empty (b "header") A.headers e1, forest_nil_append]
    · simp only [Bool.not_true, Bool.false_eq_true, if_false, ht, pairStmts_nil_of_empty (b "header") A.headers e1,
        pairStmts_nil_of_empty (b "parameter") A.params e2, forest_nil_append]

/-! ### one run of the body of the settings loop -/

/-- the loop variable that holds the block `k` replaced -/
def setBlk : Blk → V → LoopSt → LoopSt
  | .profile, x, (_, b2, b3, b4, b5, b6, b7, b8, b9, b10) => (x, b2, b3, b4, b5, b6, b7, b8, b9, b10)
  | .httpGet, x, (b1, _, b3, b4, b5, b6, b7, b8, b9, b10) => (b1, x, b3, b4, b5, b6, b7, b8, b9, b10)
  | .httpPost, x, (b1, b2, _, b4, b5, b6, b7, b8, b9, b10) => (b1, b2, x, b4, b5, b6, b7, b8, b9, b10)
  | .stage, x, (b1, b2, b3, _, b5, b6, b7, b8, b9, b10) => (b1, b2, b3, x, b5, b6, b7, b8, b9, b10)
  | .getClient, x, (b1, b2, b3, b4, b5, _, b7, b8, b9, b10) => (b1, b2, b3, b4, b5, x, b7, b8, b9, b10)
  | .postClient, x, (b1, b2, b3, b4, b5, b6, _, b8, b9, b10) => (b1, b2, b3, b4, b5, b6, x, b8, b9, b10)
  | .procInj, x, (b1, b2, b3, b4, b5, b6, b7, _, b9, b10) => (b1, b2, b3, b4, b5, b6, b7, x, b9, b10)
  | .dns, x, (b1, b2, b3, b4, b5, b6, b7, b8, _, b10) => (b1, b2, b3, b4, b5, b6, b7, b8, x, b10)
  | .httpBeacon, x, (b1, b2, b3, b4, b5, b6, b7, b8, b9, _) => (b1, b2, b3, b4, b5, b6, b7, b8, b9, x)

theorem encSt_app (st : St) (k : Blk) (g : PForest) : encSt (st.app k g) = setBlk k (encBlock (st.f k ++ g)) (encSt st) := by
  cases k <;> simp [encSt, St.app, setBlk]

theorem encSt_self (st : St) (k : Blk) : setBlk k (encBlock (st.f k)) (encSt st) = encSt st := by
  cases k <;> rfl

/-- the answer of the model's step, as the answer of the translated loop body -/
def stepAns (r : Py St) : Py (PyU.Ctl × LoopSt) := r.map fun st' => (PyU.Ctl.cont, encSt st')

theorem stepOne_eq (uris : List (Option Bytes)) (st : St) (k : Nat) (v : PVal) :
    stepOne uris st (k, v) = runAct uris st v (actionOf k v) := rfl

theorem shapeOK_eq (k : Nat) (v : PVal) :
    shapeOK (k, v) = (match actionOf k v, v with
      | .profOpt _, v => (vts v).isSome
      | .blkOpt _ _, v => (vts v).isSome
      | .recover, .recover _ => true
      | .recover, _ => false
      | .request _, .transform _ => true
      | .request _, _ => false
      | .injT _, .inj _ => true
      | .injT _, _ => false
      | .execute, .execute l => l.all execItemOK
      | .execute, _ => false
      | .gate, .gate l => l.all fun s => s.all (· < 128)
      | .gate, _ => false
      | _, _ => true) := rfl

theorem close_pass (uris : List (Option Bytes)) (st : St) (k : Nat) (v : PVal) (ha : actionOf k v = .pass) :
    (Except.ok (PyU.Ctl.cont, encSt st) : Py (PyU.Ctl × LoopSt)) = stepAns (stepOne uris st (k, v)) := by
  rw [stepOne_eq, ha]; rfl

theorem close_prof (uris : List (Option Bytes)) (st : St) (k : Nat) (v : PVal) (name : String)
    (ha : actionOf k v = .profOpt (b name)) (hn : name.toList.all (fun c => c.toNat < 256) = true) (hs : shapeOK (k, v) = true) :
    (xProfSetOption (encBlock (st.f .profile)) (PyU.lit name) (preV v) >>= fun t =>
        (Except.ok (PyU.Ctl.cont, setBlk .profile t (encSt st)) : Py (PyU.Ctl × LoopSt)))
      = stepAns (stepOne uris st (k, v)) := by
  rw [shapeOK_eq, ha] at hs
  simp only at hs
  obtain ⟨s, hv⟩ := Option.isSome_iff_exists.mp hs
  rw [stepOne_eq, ha, xProfSetOption_pre _ name hn v s hv]
  simp only [PyRt.ok_bind, runAct, hv, stepAns, Except.map, encSt_app]

theorem close_blkOpt (uris : List (Option Bytes)) (st : St) (k : Nat) (v : PVal) (K : Blk) (label : String)
    (ha : actionOf k v = .blkOpt K (b label)) (hn : label.toList.all (fun c => c.toNat < 256) = true) (hs : shapeOK (k, v) = true) :
    (xSetOption (encBlock (st.f K)) (PyU.lit label) (preV v) >>= fun t =>
        (Except.ok (PyU.Ctl.cont, setBlk K t (encSt st)) : Py (PyU.Ctl × LoopSt)))
      = stepAns (stepOne uris st (k, v)) := by
  rw [shapeOK_eq, ha] at hs
  simp only at hs
  obtain ⟨s, hv⟩ := Option.isSome_iff_exists.mp hs
  rw [stepOne_eq, ha, xSetOption_pre _ label hn v s hv]
  simp only [PyRt.ok_bind, runAct, hv, stepAns, Except.map, encSt_app]

theorem close_blkConst (uris : List (Option Bytes)) (st : St) (k : Nat) (v : PVal) (K : Blk) (label text : String)
    (ha : actionOf k v = .blkConst K (b label) (b text)) (hn : label.toList.all (fun c => c.toNat < 256) = true)
    (ht : text.toList.all (fun c => c.toNat < 256) = true) :
    (xSetOption (encBlock (st.f K)) (PyU.lit label) (PyU.lit text) >>= fun t =>
        (Except.ok (PyU.Ctl.cont, setBlk K t (encSt st)) : Py (PyU.Ctl × LoopSt)))
      = stepAns (stepOne uris st (k, v)) := by
  rw [stepOne_eq, ha, xSetOption_const _ label text hn ht]
  simp only [PyRt.ok_bind, runAct, stepAns, Except.map, encSt_app]

theorem close_uris (x : V) (uris : List (Option Bytes)) (st : St) (k : Nat) (v : PVal) (ha : actionOf k v = .uris) :
    (Gen.PyC2Gen.branch_SETTING_DOMAINS xSetOption (.inst Gen.PyC2Gen.BeaconConfigCls [x, encUris uris]) (encBlock (st.f .httpGet))
        >>= fun t => (Except.ok (PyU.Ctl.cont, setBlk .httpGet t (encSt st)) : Py (PyU.Ctl × LoopSt)))
      = stepAns (stepOne uris st (k, v)) := by
  have := gen_domains_proof x uris (st.f .httpGet)
  unfold domainsG at this
  rw [stepOne_eq, ha, this]
  simp only [PyRt.ok_bind, runAct, stepAns, Except.map]
  cases (joinUris uris).isEmpty
  · simp only [Bool.false_eq_true, if_false, encSt_app]
  · simp only [if_true, encSt_self]

theorem close_recover (uris : List (Option Bytes)) (st : St) (k : Nat) (v : PVal) (ha : actionOf k v = .recover)
    (hs : shapeOK (k, v) = true) :
    (Gen.PyC2Gen.branch_SETTING_C2_RECOVER (preV v) >>= fun t =>
        (Except.ok (PyU.Ctl.cont, (encSt st).1, (encSt st).2.1, (encSt st).2.2.1, (encSt st).2.2.2.1, t, (encSt st).2.2.2.2.2)
          : Py (PyU.Ctl × LoopSt)))
      = stepAns (stepOne uris st (k, v)) := by
  rw [shapeOK_eq, ha] at hs
  cases v with
  | recover l =>
    have := gen_recover_proof l
    unfold recoverG at this
    rw [stepOne_eq, ha, show preV (.recover l) = .list (l.map encRStep) from rfl, this]
    rfl
  | _ => simp at hs

theorem close_request (uris : List (Option Bytes)) (st : St) (k : Nat) (v : PVal) (ha : actionOf k v = .request .getClient)
    (hs : shapeOK (k, v) = true) :
    (Gen.PyC2Gen.branch_SETTING_C2_REQUEST xPair xDataTransform xSetConfigBlock (encBlock (st.f .getClient)) (preV v) >>= fun t =>
        (Except.ok (PyU.Ctl.cont, setBlk .getClient t (encSt st)) : Py (PyU.Ctl × LoopSt)))
      = stepAns (stepOne uris st (k, v)) := by
  rw [shapeOK_eq, ha] at hs
  cases v with
  | transform prog =>
    have := gen_request_proof prog (st.f .getClient)
    unfold requestG at this
    rw [stepOne_eq, ha, show preV (.transform prog) = .list (prog.map encTStep) from rfl, this]
    simp only [PyRt.ok_bind, runAct, stepAns, Except.map, encSt_app]
  | _ => simp at hs

theorem close_postreq (uris : List (Option Bytes)) (st : St) (k : Nat) (v : PVal) (ha : actionOf k v = .request .postClient)
    (hs : shapeOK (k, v) = true) :
    (Gen.PyC2Gen.branch_SETTING_C2_POSTREQ xPair xDataTransform xSetConfigBlock (encBlock (st.f .postClient)) (preV v) >>= fun t =>
        (Except.ok (PyU.Ctl.cont, setBlk .postClient t (encSt st)) : Py (PyU.Ctl × LoopSt)))
      = stepAns (stepOne uris st (k, v)) := by
  rw [shapeOK_eq, ha] at hs
  cases v with
  | transform prog =>
    have := gen_postreq_proof prog (st.f .postClient)
    unfold postreqG at this
    rw [stepOne_eq, ha, show preV (.transform prog) = .list (prog.map encTStep) from rfl, this]
    simp only [PyRt.ok_bind, runAct, stepAns, Except.map, encSt_app]
  | _ => simp at hs

theorem close_perms_i (uris : List (Option Bytes)) (st : St) (k : Nat) (v : PVal) (ha : actionOf k v = .perms (b "startrwx") 64 4) :
    (Gen.PyC2Gen.branch_SETTING_PROCINJ_PERMS_I xSetOption (encBlock (st.f .procInj)) (preV v) >>= fun t =>
        (Except.ok (PyU.Ctl.cont, setBlk .procInj t (encSt st)) : Py (PyU.Ctl × LoopSt)))
      = stepAns (stepOne uris st (k, v)) := by
  have := gen_perms_i_proof v (st.f .procInj)
  unfold permsIG at this
  rw [stepOne_eq, ha, this]
  simp only [PyRt.ok_bind, runAct, stepAns, Except.map]
  cases v.eqInt 64
  · cases v.eqInt 4
    · simp only [Bool.false_eq_true, if_false, encSt_self]
    · simp only [Bool.false_eq_true, if_false, if_true, encSt_app]
  · simp only [if_true, encSt_app]

theorem close_perms (uris : List (Option Bytes)) (st : St) (k : Nat) (v : PVal) (ha : actionOf k v = .perms (b "userwx") 64 32) :
    (Gen.PyC2Gen.branch_SETTING_PROCINJ_PERMS xSetOption (encBlock (st.f .procInj)) (preV v) >>= fun t =>
        (Except.ok (PyU.Ctl.cont, setBlk .procInj t (encSt st)) : Py (PyU.Ctl × LoopSt)))
      = stepAns (stepOne uris st (k, v)) := by
  have := gen_perms_proof v (st.f .procInj)
  unfold permsG at this
  rw [stepOne_eq, ha, this]
  simp only [PyRt.ok_bind, runAct, stepAns, Except.map]
  cases v.eqInt 64
  · cases v.eqInt 32
    · simp only [Bool.false_eq_true, if_false, encSt_self]
    · simp only [Bool.false_eq_true, if_false, if_true, encSt_app]
  · simp only [if_true, encSt_app]

theorem close_inj_x86 (uris : List (Option Bytes)) (st : St) (k : Nat) (v : PVal) (ha : actionOf k v = .injT (b "transform_x86"))
    (hs : shapeOK (k, v) = true) :
    (Gen.PyC2Gen.branch_SETTING_PROCINJ_TRANSFORM_X86 xNew xSetOption xSetConfigBlock (encBlock (st.f .procInj)) (preV v) >>= fun t =>
        (Except.ok (PyU.Ctl.cont, setBlk .procInj t (encSt st)) : Py (PyU.Ctl × LoopSt)))
      = stepAns (stepOne uris st (k, v)) := by
  rw [shapeOK_eq, ha] at hs
  cases v with
  | inj l =>
    have := gen_inj_X86_proof l (st.f .procInj)
    unfold injX86G at this
    rw [stepOne_eq, ha, show preV (.inj l) = .list (l.map encInj) from rfl, this]
    simp only [PyRt.ok_bind, runAct, stepAns, Except.map]
    cases (injKids l).isEmpty
    · simp only [Bool.false_eq_true, if_false, encSt_app]
    · simp only [if_true, encSt_self]
  | _ => simp at hs

theorem close_inj_x64 (uris : List (Option Bytes)) (st : St) (k : Nat) (v : PVal) (ha : actionOf k v = .injT (b "transform_x64"))
    (hs : shapeOK (k, v) = true) :
    (Gen.PyC2Gen.branch_SETTING_PROCINJ_TRANSFORM_X64 xNew xSetOption xSetConfigBlock (encBlock (st.f .procInj)) (preV v) >>= fun t =>
        (Except.ok (PyU.Ctl.cont, setBlk .procInj t (encSt st)) : Py (PyU.Ctl × LoopSt)))
      = stepAns (stepOne uris st (k, v)) := by
  rw [shapeOK_eq, ha] at hs
  cases v with
  | inj l =>
    have := gen_inj_X64_proof l (st.f .procInj)
    unfold injX64G at this
    rw [stepOne_eq, ha, show preV (.inj l) = .list (l.map encInj) from rfl, this]
    simp only [PyRt.ok_bind, runAct, stepAns, Except.map]
    cases (injKids l).isEmpty
    · simp only [Bool.false_eq_true, if_false, encSt_app]
    · simp only [if_true, encSt_self]
  | _ => simp at hs

theorem close_allocator (uris : List (Option Bytes)) (st : St) (k : Nat) (v : PVal) (ha : actionOf k v = .allocator) :
    (xSetOption (encBlock (st.f .procInj)) (PyU.lit "allocator")
          (if PyU.truthy (preV v) then PyU.lit "NtMapViewOfSection" else PyU.lit "VirtualAllocEx") >>= fun t =>
        (Except.ok (PyU.Ctl.cont, setBlk .procInj t (encSt st)) : Py (PyU.Ctl × LoopSt)))
      = stepAns (stepOne uris st (k, v)) := by
  rw [stepOne_eq, ha, truthy_pre]
  cases ht : v.truthy
  · simp only [ht, Bool.false_eq_true, if_false, xSetOption_const _ "allocator" "VirtualAllocEx" (by decide) (by decide), PyRt.ok_bind,
      runAct, stepAns, Except.map, encSt_app]
  · simp only [ht, if_true, xSetOption_const _ "allocator" "NtMapViewOfSection" (by decide) (by decide), PyRt.ok_bind, runAct, stepAns,
      Except.map, encSt_app]

theorem close_gate (uris : List (Option Bytes)) (st : St) (k : Nat) (v : PVal) (ha : actionOf k v = .gate)
    (hs : shapeOK (k, v) = true) :
    (Gen.PyC2Gen.branch_SETTING_BEACON_GATE xGate xSetConfigBlock (encBlock (st.f .stage)) (preV v) >>= fun t =>
        (Except.ok (PyU.Ctl.cont, setBlk .stage t (encSt st)) : Py (PyU.Ctl × LoopSt)))
      = stepAns (stepOne uris st (k, v)) := by
  rw [shapeOK_eq, ha] at hs
  cases v with
  | gate l =>
    have := gen_gate_proof l hs (st.f .stage)
    unfold gateG at this
    rw [stepOne_eq, ha, show preV (.gate l) = .list (l.map txt) from rfl, this]
    simp only [PyRt.ok_bind, runAct, stepAns, Except.map, encSt_app]
  | _ => simp at hs

/-! ### SETTING_PROCINJ_EXECUTE -/

/-! ### UTF-8 encoding of code points -/

theorem utf8Enc_cons (c : Nat) (cs : PyRt.Str) :
    utf8Enc (c :: cs) = match utf8Enc1 c with
      | .error e => .error e
      | .ok a => (utf8Enc cs).map (a ++ ·) := rfl

theorem ofNat_toNat_ge (n : Nat) (h1 : 128 ≤ n) (h2 : n < 256) : 128 ≤ (UInt8.ofNat n).toNat := by
  simp only [UInt8.toNat_ofNat']
  omega

/-- the bytes of one code point: an ASCII character is itself, every byte of a longer form is ≥ 0x80 -/
theorem enc1_cases (c : Nat) (bs : Bytes) (h : utf8Enc1 c = .ok bs) :
    (c < 128 ∧ bs = [UInt8.ofNat c]) ∨ (128 ≤ c ∧ bs ≠ [] ∧ ∀ x ∈ bs, 128 ≤ x.toNat) := by
  unfold utf8Enc1 at h
  by_cases h1 : c < 0x80
  · simp only [h1, if_true, Except.ok.injEq] at h
    exact Or.inl ⟨h1, h.symm⟩
  · right
    refine ⟨by omega, ?_⟩
    by_cases h2 : c < 0x800
    · simp only [h1, h2, if_true, if_false, Except.ok.injEq] at h
      subst h
      refine ⟨by simp, ?_⟩
      intro x hx
      simp only [List.mem_cons, List.mem_nil_iff, or_false] at hx
      rcases hx with rfl | rfl <;> apply ofNat_toNat_ge <;> omega
    · by_cases h3 : 0xD800 ≤ c ∧ c ≤ 0xDFFF
      · simp [h1, h2, h3] at h
      · by_cases h4 : c < 0x10000
        · simp only [h1, h2, h3, h4, if_true, if_false, Except.ok.injEq] at h
          subst h
          refine ⟨by simp, ?_⟩
          intro x hx
          simp only [List.mem_cons, List.mem_nil_iff, or_false] at hx
          rcases hx with rfl | rfl | rfl <;> apply ofNat_toNat_ge <;> omega
        · by_cases h5 : c < 0x110000
          · simp only [h1, h2, h3, h4, h5, if_true, if_false, Except.ok.injEq] at h
            subst h
            refine ⟨by simp, ?_⟩
            intro x hx
            simp only [List.mem_cons, List.mem_nil_iff, or_false] at hx
            rcases hx with rfl | rfl | rfl | rfl <;> apply ofNat_toNat_ge <;> omega
          · simp [h1, h2, h3, h4, h5] at h

theorem sp_prefix_nat (c : Nat) (r : PyRt.Str) : ([32] : List Nat).isPrefixOf (c :: r) = (32 == c) := by
  simp [List.isPrefixOf]

theorem sp_prefix_byte (c : UInt8) (r : Bytes) : ([32] : Bytes).isPrefixOf (c :: r) = (32 == c) := by
  simp [List.isPrefixOf]

/-- a run of bytes without a space in front of `t` -/
theorem partition2_skip (a t : Bytes) (h : ∀ x ∈ a, x ≠ 32) :
    partition2 [32] (a ++ t) = (a ++ (partition2 [32] t).1, (partition2 [32] t).2) ∧
      (a ++ t).contains 32 = t.contains 32 := by
  induction a with
  | nil => exact ⟨rfl, rfl⟩
  | cons x xs ih =>
    have hx : x ≠ 32 := h x (by simp)
    have hx' : ((32 : UInt8) == x) = false := by simp [Ne.symm hx]
    obtain ⟨i1, i2⟩ := ih (fun y hy => h y (by simp [hy]))
    constructor
    · simp only [List.cons_append, partition2, sp_prefix_byte, hx', Bool.false_eq_true, if_false, i1]
    · simp only [List.cons_append, List.contains_cons, i2]
      have : ((32 : UInt8) == x) = false := hx'
      simp [this]

theorem enc1_no_space (c : Nat) (bs : Bytes) (h : utf8Enc1 c = .ok bs) (hc : c ≠ 32) : ∀ x ∈ bs, x ≠ 32 := by
  rcases enc1_cases c bs h with ⟨h1, rfl⟩ | ⟨_, _, h3⟩
  · intro x hx
    simp only [List.mem_cons, List.mem_nil_iff, or_false] at hx
    subst hx
    intro e
    have := congrArg UInt8.toNat e
    simp only [UInt8.toNat_ofNat'] at this
    have : c % 256 = 32 := this
    omega
  · intro x hx e
    have := h3 x hx
    rw [e] at this
    exact absurd this (by decide)

/-- splitting a `str` at its first space and splitting its UTF-8 encoding at the first byte 0x20 agree -/
theorem split_space (cs : PyRt.Str) : ∀ (s : Bytes), utf8Enc cs = .ok s →
    match PyU.splitAt? [32] cs with
    | some p => s.contains 32 = true ∧ ∃ sa sr, utf8Enc p.1 = .ok sa ∧ utf8Enc p.2 = .ok sr ∧ partition2 [32] s = (sa, sr)
    | none => s.contains 32 = false := by
  induction cs with
  | nil =>
    intro s h
    simp only [utf8Enc, Except.ok.injEq] at h
    subst h
    simp [PyU.splitAt?]
  | cons c r ih =>
    intro s h
    rw [utf8Enc_cons] at h
    cases h1 : utf8Enc1 c with
    | error e => simp [h1] at h
    | ok a =>
      cases hr : utf8Enc r with
      | error e => simp [h1, hr, Except.map] at h
      | ok sr =>
        simp only [h1, hr, Except.map, Except.ok.injEq] at h
        subst h
        by_cases hc : c = 32
        · subst hc
          have ha : a = [32] := by
            have := h1
            simp [utf8Enc1] at this
            exact this.symm
          subst ha
          simp only [PyU.splitAt?, sp_prefix_nat, beq_self_eq_true, if_true]
          refine ⟨by simp, [], sr, rfl, ?_, ?_⟩
          · simpa using hr
          · simp [partition2, sp_prefix_byte]
        · have hc' : ((32 : Nat) == c) = false := by simp [Ne.symm hc]
          have hns := enc1_no_space c a h1 hc
          obtain ⟨p1, p2⟩ := partition2_skip a sr hns
          have := ih sr hr
          simp only [PyU.splitAt?, sp_prefix_nat, hc', Bool.false_eq_true, if_false]
          cases hsp : PyU.splitAt? [32] r with
          | none =>
            rw [hsp] at this
            simp only [Option.map_none]
            rw [p2]; exact this
          | some q =>
            rw [hsp] at this
            obtain ⟨hcont, sa', sr', e1, e2, e3⟩ := this
            simp only [Option.map_some]
            refine ⟨by rw [p2]; exact hcont, a ++ sa', sr', ?_, e2, ?_⟩
            · rw [utf8Enc_cons, h1, e1]; rfl
            · rw [p1, e3]

theorem utf8Enc_append (a b : PyRt.Str) (sa sb : Bytes) (ha : utf8Enc a = .ok sa) (hb : utf8Enc b = .ok sb) :
    utf8Enc (a ++ b) = .ok (sa ++ sb) := by
  induction a generalizing sa with
  | nil => simp only [utf8Enc, Except.ok.injEq] at ha; subst ha; simpa using hb
  | cons c r ih =>
    rw [utf8Enc_cons] at ha
    cases h1 : utf8Enc1 c with
    | error e => simp [h1] at ha
    | ok x =>
      cases hr : utf8Enc r with
      | error e => simp [h1, hr, Except.map] at ha
      | ok sr =>
        simp only [h1, hr, Except.map, Except.ok.injEq] at ha
        subst ha
        rw [List.cons_append, utf8Enc_cons, h1, ih sr hr]
        simp [Except.map]

/-- the encoding splits at every code point boundary -/
theorem utf8Enc_split (a b : PyRt.Str) (s : Bytes) (h : utf8Enc (a ++ b) = .ok s) :
    ∃ sa sb, utf8Enc a = .ok sa ∧ utf8Enc b = .ok sb ∧ s = sa ++ sb := by
  induction a generalizing s with
  | nil => exact ⟨[], s, rfl, by simpa using h, rfl⟩
  | cons c r ih =>
    rw [List.cons_append, utf8Enc_cons] at h
    cases h1 : utf8Enc1 c with
    | error e => simp [h1] at h
    | ok x =>
      cases hr : utf8Enc (r ++ b) with
      | error e => simp [h1, hr, Except.map] at h
      | ok sr =>
        simp only [h1, hr, Except.map, Except.ok.injEq] at h
        subst h
        obtain ⟨sa, sb, e1, e2, e3⟩ := ih sr hr
        refine ⟨x ++ sa, sb, ?_, e2, by rw [e3, List.append_assoc]⟩
        rw [utf8Enc_cons, h1, e1]; rfl

theorem nil_or_concat {α : Type} (l : List α) : l = [] ∨ ∃ m d, l = m ++ [d] := by
  induction l with
  | nil => exact Or.inl rfl
  | cons x xs ih =>
    right
    rcases ih with rfl | ⟨m, d, rfl⟩
    · exact ⟨[], x, rfl⟩
    · exact ⟨x :: m, d, rfl⟩

theorem slice_mid {α : Type} (c d : α) (m : List α) :
    PyRt.slice (c :: (m ++ [d])) (some (1 : Int)) (some (-1 : Int)) = m := by
  simp only [PyRt.slice, PyRt.Bound.bound, id, PyRt.clampIdx, List.length_cons, List.length_append, List.length_nil]
  have h1 : ¬ ((1 : Int) < 0) := by omega
  have h2 : ((-1 : Int) < 0) := by omega
  simp only [h1, h2, if_true, if_false]
  have e1 : min (1 : Int).toNat (m.length + (0 + 1) + 1) = 1 := by simp
  have e2 : ((-1 : Int) + ((m.length + (0 + 1) + 1 : Nat) : Int)).toNat = m.length + 1 := by omega
  rw [e1, e2]
  simp [List.take_append]

theorem pyslice_mid {α : Type} (c d : α) (m : List α) :
    pySliceTo (pySliceFrom (c :: (m ++ [d])) 1) (some (-1)) = m := by
  simp [pySliceTo, pySliceFrom]

theorem slice_short {α : Type} (l : List α) (h : l.length ≤ 1) :
    PyRt.slice l (some (1 : Int)) (some (-1 : Int)) = [] ∧ pySliceTo (pySliceFrom l 1) (some (-1)) = [] := by
  match l, h with
  | [], _ => exact ⟨rfl, rfl⟩
  | [x], _ => exact ⟨rfl, rfl⟩

theorem enc1_length (c : Nat) (bs : Bytes) (h : utf8Enc1 c = .ok bs) : 1 ≤ bs.length := by
  rcases enc1_cases c bs h with ⟨_, rfl⟩ | ⟨_, h2, _⟩
  · simp
  · cases bs with
    | nil => exact absurd rfl h2
    | cons x xs => simp

/-- `val[1:-1].encode()`: dropping the first and the last character of a `str` whose encoding starts and ends with a one-byte
character (or has at most one byte) drops the first and the last byte of the encoding -/
theorem slice_enc (r : PyRt.Str) (sr : Bytes) (h : utf8Enc r = .ok sr)
    (hok : (sr.length ≤ 1 || ((sr.head?.getD 0) < 128 && (sr.getLast?.getD 0) < 128)) = true) :
    utf8Enc (PyRt.slice r (some (1 : Int)) (some (-1 : Int))) = .ok (pySliceTo (pySliceFrom sr 1) (some (-1))) := by
  cases r with
  | nil =>
    simp only [utf8Enc, Except.ok.injEq] at h
    subst h
    rfl
  | cons c t =>
    rcases nil_or_concat t with rfl | ⟨m, d, rfl⟩
    · -- one character
      rw [utf8Enc_cons] at h
      cases h1 : utf8Enc1 c with
      | error e => simp [h1] at h
      | ok a =>
        simp only [h1, utf8Enc, Except.map, List.append_nil, Except.ok.injEq] at h
        subst h
        rcases enc1_cases c a h1 with ⟨_, rfl⟩ | ⟨_, h2, h3⟩
        · rfl
        · -- a multi-byte character: the first byte is ≥ 0x80, so the encoding has at most one byte
          cases a with
          | nil => exact absurd rfl h2
          | cons x xs =>
            have hx := h3 x (by simp)
            have hx' : ¬ (x < 128) := by
              intro hlt
              have := UInt8.lt_iff_toNat_lt.mp hlt
              simp at this
              omega
            simp only [List.length_cons, List.head?_cons, Option.getD_some, hx', decide_false, Bool.false_and, Bool.or_false,
              decide_eq_true_eq] at hok
            have : xs = [] := by
              cases xs with
              | nil => rfl
              | cons y ys => simp at hok
            subst this
            rfl
    · -- at least two characters
      have hs := utf8Enc_split [c] (m ++ [d]) sr (by simpa using h)
      obtain ⟨sc, srest, e1, e2, rfl⟩ := hs
      obtain ⟨sm, sd, e3, e4, rfl⟩ := utf8Enc_split m [d] srest e2
      have hc1 : utf8Enc1 c = .ok sc := by
        rw [utf8Enc_cons] at e1
        cases h1 : utf8Enc1 c with
        | error e => simp [h1] at e1
        | ok a => simp [h1, utf8Enc, Except.map] at e1; rw [e1]
      have hd1 : utf8Enc1 d = .ok sd := by
        rw [utf8Enc_cons] at e4
        cases h1 : utf8Enc1 d with
        | error e => simp [h1] at e4
        | ok a => simp [h1, utf8Enc, Except.map] at e4; rw [e4]
      have lc := enc1_length c sc hc1
      have ld := enc1_length d sd hd1
      have hlen : ¬ ((sc ++ (sm ++ sd)).length ≤ 1) := by simp only [List.length_append]; omega
      simp only [hlen, decide_false, Bool.false_or, Bool.and_eq_true, decide_eq_true_eq] at hok
      -- the first byte belongs to `c`, the last to `d`
      have hsc : sc = [UInt8.ofNat c] := by
        rcases enc1_cases c sc hc1 with ⟨_, e⟩ | ⟨_, h2, h3⟩
        · exact e
        · exfalso
          cases sc with
          | nil => exact absurd rfl h2
          | cons x xs =>
            have hx := h3 x (by simp)
            have h1 := hok.1
            simp only [List.cons_append, List.head?_cons, Option.getD_some] at h1
            have := UInt8.lt_iff_toNat_lt.mp h1
            simp at this
            omega
      have hsd : sd = [UInt8.ofNat d] := by
        rcases enc1_cases d sd hd1 with ⟨_, e⟩ | ⟨_, h2, h3⟩
        · exact e
        · exfalso
          have hne : sd ≠ [] := h2
          obtain ⟨y, hy⟩ : ∃ y, sd.getLast? = some y := by
            cases hh : sd.getLast? with
            | none => simp [List.getLast?_eq_none_iff] at hh; exact absurd hh hne
            | some y => exact ⟨y, rfl⟩
          have hl : (sc ++ (sm ++ sd)).getLast? = some y := by
            rw [← List.append_assoc, List.getLast?_append, hy]; rfl
          have h1 := hok.2
          rw [hl] at h1
          have hmem : y ∈ sd := List.mem_of_getLast? hy
          have := h3 y hmem
          have h1' := UInt8.lt_iff_toNat_lt.mp h1
          simp at h1'
          omega
      subst hsc hsd
      rw [slice_mid, show UInt8.ofNat c :: [] ++ (sm ++ [UInt8.ofNat d]) = UInt8.ofNat c :: (sm ++ [UInt8.ofNat d]) from rfl,
        pyslice_mid, e3]

/-- an encoding that is all ASCII is the encoding of the same numbers -/
theorem enc_ascii_inv (a : PyRt.Str) : ∀ (sa : Bytes), utf8Enc a = .ok sa → sa.all (· < 128) = true → a = sa.map (·.toNat) := by
  induction a with
  | nil => intro sa h _; simp only [utf8Enc, Except.ok.injEq] at h; subst h; rfl
  | cons c r ih =>
    intro sa h hasc
    rw [utf8Enc_cons] at h
    cases h1 : utf8Enc1 c with
    | error e => simp [h1] at h
    | ok x =>
      cases hr : utf8Enc r with
      | error e => simp [h1, hr, Except.map] at h
      | ok sr =>
        simp only [h1, hr, Except.map, Except.ok.injEq] at h
        subst h
        simp only [List.all_append, Bool.and_eq_true] at hasc
        rcases enc1_cases c x h1 with ⟨hc, rfl⟩ | ⟨_, h2, h3⟩
        · simp only [List.singleton_append, List.map_cons, UInt8.toNat_ofNat']
          rw [← ih sr hr hasc.2, Nat.mod_eq_of_lt (by omega)]
        · exfalso
          cases x with
          | nil => exact absurd rfl h2
          | cons y ys =>
            have := h3 y (by simp)
            have hy := hasc.1
            simp only [List.all_cons, Bool.and_eq_true, decide_eq_true_eq] at hy
            have := UInt8.lt_iff_toNat_lt.mp hy.1
            simp at this
            omega

theorem enc_of_ascii (t : Bytes) (h : t.all (· < 128) = true) : utf8Enc (t.map (·.toNat)) = .ok t := by
  induction t with
  | nil => rfl
  | cons x xs ih =>
    simp only [List.all_cons, Bool.and_eq_true, decide_eq_true_eq] at h
    have hx : x.toNat < 128 := by
      have := UInt8.lt_iff_toNat_lt.mp h.1
      simpa using this
    have h1 : utf8Enc1 x.toNat = .ok [x] := by
      simp [utf8Enc1, hx]
    rw [List.map_cons, utf8Enc_cons, h1, ih h.2]
    rfl

/-- comparing the `str` with an ASCII literal of the source = comparing its encoding with the model's bytes -/
theorem eq_name (a : PyRt.Str) (sa : Bytes) (h : utf8Enc a = .ok sa) (name : String)
    (hn : (C13.b name).all (· < 128) = true) (hl : name.toList.all (fun c => c.toNat < 256) = true) :
    PyU.eq (.str a) (PyU.lit name) = decide (sa = C13.b name) := by
  have hcps : PyU.cps name = (C13.b name).map (·.toNat) := by
    have := txt_b name hl
    simp only [txt, PyU.lit, V.str.injEq] at this
    exact this.symm
  show (a == PyU.cps name) = decide (sa = C13.b name)
  rw [Bool.eq_iff_iff, beq_iff_eq, decide_eq_true_eq, hcps]
  constructor
  · intro e
    subst e
    rw [enc_of_ascii _ hn] at h
    exact (Except.ok.inj h).symm
  · intro e
    subst e
    exact enc_ascii_inv a _ h hn

theorem gen_execute_names (cs : PyRt.Str) (s : Bytes) (h : utf8Enc cs = .ok s) :
    PyU.contains (V.list [PyU.lit "CreateThread", PyU.lit "SetThreadContext", PyU.lit "CreateRemoteThread", PyU.lit "NtQueueApcThread", PyU.lit "NtQueueApcThread-s", PyU.lit "NtQueueApcThread_s", PyU.lit "RtlCreateUserThread"]) (.str cs) = .ok (execEnable.contains s) := by
  simp only [PyU.contains, List.any, eq_name cs s h "CreateThread" (by decide) (by decide), eq_name cs s h "SetThreadContext" (by decide) (by decide), eq_name cs s h "CreateRemoteThread" (by decide) (by decide), eq_name cs s h "NtQueueApcThread" (by decide) (by decide), eq_name cs s h "NtQueueApcThread-s" (by decide) (by decide), eq_name cs s h "NtQueueApcThread_s" (by decide) (by decide), eq_name cs s h "RtlCreateUserThread" (by decide) (by decide)]
  congr 1
  simp [execEnable, List.contains, List.elem]
  have hb : ∀ x : Bytes, (s == x) = decide (s = x) := fun x => by rw [Bool.eq_iff_iff]; simp
  simp only [hb]
  generalize decide (s = b "CreateThread") = d0
  generalize decide (s = b "SetThreadContext") = d1
  generalize decide (s = b "CreateRemoteThread") = d2
  generalize decide (s = b "NtQueueApcThread") = d3
  generalize decide (s = b "NtQueueApcThread-s") = d4
  generalize decide (s = b "NtQueueApcThread_s") = d5
  generalize decide (s = b "RtlCreateUserThread") = d6
  cases d0 <;> cases d1 <;> cases d2 <;> cases d3 <;> cases d4 <;> cases d5 <;> cases d6 <;> rfl

theorem enable_tail (item : V) (lab : Bytes) (g : PForest)
    (e1 : (PyU.lower item >>= fun t12 => PyU.strReplace t12 (PyU.lit "-") (PyU.lit "_")) = .ok (txt lab)) :
    (PyU.lower item >>= fun t12 => PyU.strReplace t12 (PyU.lit "-") (PyU.lit "_") >>= fun t13 =>
        xEnable (encBlock g) t13 (V.bool true) >>= fun t14 => (Except.ok (PyU.Ctl.cont, t14) : Py (PyU.Ctl × V)))
      = .ok (PyU.Ctl.cont, encBlock (g ++ stmt lab [])) := by
  cases hl : PyU.lower item with
  | error e => rw [hl] at e1; simp at e1
  | ok t12 =>
    rw [hl, PyRt.ok_bind] at e1
    rw [PyRt.ok_bind, e1, PyRt.ok_bind, xEnable_enc, PyRt.ok_bind]

/-- the second half of the loop body: `if item in [names]: exec_options._enable(item.lower().replace("-", "_"), True)` -/
theorem gen_execute_enable (cs : PyRt.Str) (s : Bytes) (h : utf8Enc cs = .ok s) (g : PForest) :
    (PyU.contains (V.list [PyU.lit "CreateThread", PyU.lit "SetThreadContext", PyU.lit "CreateRemoteThread", PyU.lit "NtQueueApcThread", PyU.lit "NtQueueApcThread-s", PyU.lit "NtQueueApcThread_s", PyU.lit "RtlCreateUserThread"]) (.str cs) >>= fun t11 =>
        if t11 then
          (PyU.lower (.str cs) >>= fun t12 => PyU.strReplace t12 (PyU.lit "-") (PyU.lit "_") >>= fun t13 =>
            xEnable (encBlock g) t13 (V.bool true) >>= fun t14 => (Except.ok (PyU.Ctl.cont, t14) : Py (PyU.Ctl × V)))
        else (Except.ok (PyU.Ctl.cont, encBlock g) : Py (PyU.Ctl × V)))
      = .ok (PyU.Ctl.cont, encBlock (g ++ (if execEnable.contains s then stmt (dashToUnderscore (C13.lower s)) [] else .nil))) := by
  rw [gen_execute_names cs s h, PyRt.ok_bind]
  cases hm : execEnable.contains s
  · simp only [Bool.false_eq_true, if_false, forest_append_nil]
  · simp only [if_true]
    simp only [execEnable, List.contains_eq_mem, List.mem_cons, List.mem_nil_iff, or_false, decide_eq_true_eq] at hm
    rcases hm with hm | hm | hm | hm | hm | hm | hm <;> subst hm
    · have hcs := enc_ascii_inv cs _ h (by decide)
      subst hcs
      exact enable_tail _ _ g (by decide +kernel)
    · have hcs := enc_ascii_inv cs _ h (by decide)
      subst hcs
      exact enable_tail _ _ g (by decide +kernel)
    · have hcs := enc_ascii_inv cs _ h (by decide)
      subst hcs
      exact enable_tail _ _ g (by decide +kernel)
    · have hcs := enc_ascii_inv cs _ h (by decide)
      subst hcs
      exact enable_tail _ _ g (by decide +kernel)
    · have hcs := enc_ascii_inv cs _ h (by decide)
      subst hcs
      exact enable_tail _ _ g (by decide +kernel)
    · have hcs := enc_ascii_inv cs _ h (by decide)
      subst hcs
      exact enable_tail _ _ g (by decide +kernel)
    · have hcs := enc_ascii_inv cs _ h (by decide)
      subst hcs
      exact enable_tail _ _ g (by decide +kernel)

theorem contains_space (cs : PyRt.Str) : PyU.contains (.str cs) (PyU.lit " ") = .ok (PyU.splitAt? [32] cs).isSome := by
  rw [show PyU.lit " " = .str [32] from by decide]
  simp [PyU.contains]

theorem partition_space (cs : PyRt.Str) (p : PyRt.Str × PyRt.Str) (h : PyU.splitAt? [32] cs = some p) :
    PyU.partition (.str cs) (PyU.lit " ") = .ok (.tuple [.str p.1, .str [32], .str p.2]) := by
  rw [show PyU.lit " " = .str [32] from by decide]
  simp [PyU.partition, h]

theorem slice_str (r : PyRt.Str) :
    PyU.slice (.str r) (V.int 1) (V.int (-1)) = .ok (.str (PyRt.slice r (some (1 : Int)) (some (-1 : Int)))) := rfl

theorem execItem_some (item : Bytes) :
    execItem (some item) = .ok ((if item.contains 32 then
        (if (partition2 [32] item).1 = b "CreateThread" then
            stmt (b "createthread_special") [C12.valueToString (pySliceTo (pySliceFrom (partition2 [32] item).2 1) (some (-1)))]
          else if (partition2 [32] item).1 = b "CreateRemoteThread" then
            stmt (b "createremotethread_special") [C12.valueToString (pySliceTo (pySliceFrom (partition2 [32] item).2 1) (some (-1)))]
          else .nil)
        else .nil) ++ (if execEnable.contains item then stmt (dashToUnderscore (C13.lower item)) [] else .nil)) := rfl

theorem gen_execute_step (cs : PyRt.Str) (s : Bytes) (h : utf8Enc cs = .ok s) (hsl : execSliceOK s = true) (g : PForest) :
    Gen.PyC2Gen.branch_SETTING_PROCINJ_EXECUTE_loop1 xNew xSetOption xEnable xSetConfigBlock (.str cs) (encBlock g)
      = (execItem (some s)).map fun F => (PyU.Ctl.cont, encBlock (g ++ F)) := by
  unfold Gen.PyC2Gen.branch_SETTING_PROCINJ_EXECUTE_loop1
  rw [execItem_some]
  have hsp := split_space cs s h
  have hen := fun g' => gen_execute_enable cs s h g'
  simp only [contains_space, PyRt.ok_bind, pure_ok, Except.map]
  cases hq : PyU.splitAt? [32] cs with
  | none =>
    rw [hq] at hsp
    simp only [Option.isSome_none, Bool.false_eq_true, if_false, hsp, hen, forest_nil_append]
  | some p =>
    rw [hq] at hsp
    obtain ⟨hc, sa, sr, e1, e2, e3⟩ := hsp
    have hsl' : (sr.length ≤ 1 || ((sr.head?.getD 0) < 128 && (sr.getLast?.getD 0) < 128)) = true := by
      simpa [execSliceOK, e3] using hsl
    have hv := slice_enc p.2 sr e2 hsl'
    have n1 := eq_name p.1 sa e1 "CreateThread" (by decide) (by decide)
    have n2 := eq_name p.1 sa e1 "CreateRemoteThread" (by decide) (by decide)
    simp only [Option.isSome_some, if_true, partition_space cs p hq, PyU.unpack3, PyU.iterList, PyRt.ok_bind, pure_ok, slice_str,
      PyU.encodeUtf8, hv, Except.map, n1, n2, hc, e3]
    by_cases c1 : sa = b "CreateThread"
    · simp only [c1, decide_true, if_true, xSetOption_bytes g "createthread_special" (by decide), PyRt.ok_bind, hen,
        forest_append_assoc]
    · by_cases c2 : sa = b "CreateRemoteThread"
      · subst c2
        have hne : decide (b "CreateRemoteThread" = b "CreateThread") = false := by decide
        have hne2 : (b "CreateRemoteThread" = b "CreateThread") = False := by simp; decide
        simp only [hne, hne2, decide_true, decide_false, Bool.false_eq_true, if_false, if_true,
          xSetOption_bytes g "createremotethread_special" (by decide), PyRt.ok_bind, hen, forest_append_assoc]
      · simp only [c1, c2, decide_false, Bool.false_eq_true, if_false, hen, forest_nil_append]

theorem execItemOK_some (s : Bytes) (h : execItemOK (some s) = true) :
    ∃ cs, encExecItem (some s) = .str cs ∧ utf8Enc cs = .ok s ∧ execSliceOK s = true := by
  unfold execItemOK at h
  cases hu : PyU.utf8 s with
  | error e => simp [hu] at h
  | ok cs =>
    simp only [hu] at h
    exact ⟨cs, by simp [encExecItem, hu], PyU.utf8Enc_utf8 s cs hu, h⟩

theorem gen_execute_loop (l : List (Option Bytes)) (h : l.all execItemOK = true) (g : PForest) :
    PyU.forList (l.map encExecItem) (Gen.PyC2Gen.branch_SETTING_PROCINJ_EXECUTE_loop1 xNew xSetOption xEnable xSetConfigBlock) (encBlock g)
      = (execKids l).map fun F => encBlock (g ++ F) := by
  induction l generalizing g with
  | nil => simp [PyU.forList, execKids, Except.map, forest_append_nil]
  | cons i rest ih =>
    simp only [List.all_cons, Bool.and_eq_true] at h
    cases i with
    | none =>
      simp only [List.map_cons, PyU.forList, encExecItem, execKids, execItem, Except.map]
      rfl
    | some s =>
      obtain ⟨cs, e1, e2, e3⟩ := execItemOK_some s h.1
      simp only [List.map_cons, PyU.forList, e1, gen_execute_step cs s e2 e3 g, execKids]
      cases hi : execItem (some s) with
      | error e => rfl
      | ok F =>
        simp only [Except.map, ih h.2 (g ++ F)]
        cases execKids rest with
        | error e => rfl
        | ok R => simp only [Except.map, forest_append_assoc]

theorem gen_execute_proof (l : List (Option Bytes)) (h : l.all execItemOK = true) (f : PForest) :
    executeG (encBlock f) (.list (l.map encExecItem))
      = (execKids l).map fun kids => encBlock (if l.isEmpty then f else f ++ block (some (b "execute")) kids) := by
  unfold executeG Gen.PyC2Gen.branch_SETTING_PROCINJ_EXECUTE
  have hl := gen_execute_loop l h .nil
  simp only [forest_nil_append] at hl
  rw [show xNew = .ok (encBlock .nil) from rfl] at hl ⊢
  simp only [PyRt.ok_bind, PyU.iterList, hl, pure_ok]
  cases execKids l with
  | error e => rfl
  | ok kids =>
    simp only [Except.map, PyRt.ok_bind]
    cases l with
    | nil => rfl
    | cons i rest =>
      simp only [List.map_cons, PyU.truthy, List.isEmpty_cons, Bool.not_false, if_true, Bool.false_eq_true, if_false,
        xSetConfigBlock_lit f kids "execute" (by decide), PyRt.ok_bind]


theorem close_execute (uris : List (Option Bytes)) (st : St) (k : Nat) (v : PVal) (ha : actionOf k v = .execute)
    (hs : shapeOK (k, v) = true) :
    (Gen.PyC2Gen.branch_SETTING_PROCINJ_EXECUTE xNew xSetOption xEnable xSetConfigBlock (encBlock (st.f .procInj)) (preV v) >>= fun t =>
        (Except.ok (PyU.Ctl.cont, setBlk .procInj t (encSt st)) : Py (PyU.Ctl × LoopSt)))
      = stepAns (stepOne uris st (k, v)) := by
  rw [shapeOK_eq, ha] at hs
  cases v with
  | execute l =>
    have := gen_execute_proof l hs (st.f .procInj)
    unfold executeG at this
    rw [stepOne_eq, ha, show preV (.execute l) = .list (l.map encExecItem) from rfl, this]
    simp only [runAct, stepAns]
    cases execKids l with
    | error e => rfl
    | ok kids =>
      simp only [Except.map, PyRt.ok_bind]
      cases l.isEmpty
      · simp only [Bool.false_eq_true, if_false, encSt_app]
      · simp only [if_true, encSt_self]
  | _ => simp at hs

/-! ### the if / elif chain -/

theorem eq_setting (idx : Int) (c : EnumCls) (k : Int) : PyU.eq (.int idx) (.enum c k) = (idx == k) := rfl

theorem unpack_item (a b : V) : PyU.unpack2 (.tuple [a, b]) = .ok (a, b) := rfl

theorem ne_cond (idx : Nat) (k : Int) (h : (idx : Int) ≠ k) : ¬ (((idx : Int) == k) = true) := by simpa using h

theorem pos_cond (idx : Nat) (k : Int) (c : EnumCls) (h : (idx : Int) = k) : PyU.eq (V.int (idx : Int)) (V.enum c k) = true := by
  rw [eq_setting, h]; simp

theorem gcond (idx : Nat) (k : Int) (v : PVal) (h : ¬ ((idx : Int) = k ∧ v.truthy = true)) :
    ¬ ((((idx : Int) == k) && PyU.truthy (preV v)) = true) := by
  rw [truthy_pre]
  simpa using h

theorem actionOf_of_find (k : Nat) (v : PVal) (g : Bool) (a : Act) (hf : actionTable.find? (·.1 == k) = some (k, g, a))
    (hg : g = true → v.truthy = true) : actionOf k v = a := by
  unfold actionOf
  rw [hf]
  cases g with
  | false => rfl
  | true => simp [hg rfl]

/-- the settings the chain tests without / with `and value` -/
def keysU : List Nat := [3, 4, 5, 8, 14, 29, 30, 26, 27, 28, 38, 39, 9, 10, 11, 12, 13, 54, 50, 35, 55, 40, 43, 44, 46, 47, 53, 51, 52, 60, 61, 62, 63, 64, 65, 19, 20, 6, 16, 76]
def keysG : List Nat := [58, 57, 41, 45, 66, 48, 77, 78]

theorem keys_cover : actionTable.all (fun e => if e.2.1 then keysG.contains e.1 else keysU.contains e.1) = true := by decide

theorem actionOf_pass (idx : Nat) (v : PVal) (hU : idx ∉ keysU) (hG : ∀ k ∈ keysG, ¬ (idx = k ∧ v.truthy = true)) :
    actionOf idx v = .pass := by
  unfold actionOf
  cases hf : actionTable.find? (·.1 == idx) with
  | none => rfl
  | some e =>
    obtain ⟨k, g, a⟩ := e
    have hm := List.mem_of_find?_eq_some hf
    have hk : k = idx := by
      have := List.find?_some hf
      simpa using this
    subst hk
    have hc := List.all_eq_true.mp keys_cover _ hm
    cases g with
    | false =>
      simp only [Bool.false_eq_true, if_false, List.contains_eq_mem, decide_eq_true_eq] at hc
      exact absurd hc hU
    | true =>
      simp only [if_true, List.contains_eq_mem, decide_eq_true_eq] at hc
      have := hG k hc
      simp only [true_and, Bool.not_eq_true] at this
      simp [this]

theorem gen_settings_step_proof (x : V) (uris : List (Option Bytes)) (st : St) (idx : Nat) (v : PVal) (hs : shapeOK (idx, v) = true) :
    settingsStepG (.inst Gen.PyC2Gen.BeaconConfigCls [x, encUris uris]) (.tuple [.int (idx : Int), encPVal v]) (encSt st)
      = stepAns (stepOne uris st (idx, v)) := by
  unfold settingsStepG Gen.PyC2Gen.from_beacon_config_loop1
  simp only [unpack_item, PyRt.ok_bind, gen_settings_value_proof, pure_ok, encSt]
  by_cases h3 : idx = 3
  · rw [if_pos (show PyU.eq (V.int (idx : Int)) (V.enum Gen.PyC2Gen.BeaconSetting 3) = true from pos_cond idx 3 _ (by omega))]
    subst h3
    exact close_prof uris st 3 v "sleeptime" rfl (by decide) hs
  rw [if_neg (show ¬ (PyU.eq (V.int (idx : Int)) (V.enum Gen.PyC2Gen.BeaconSetting 3) = true) from ne_cond idx 3 (by omega))]
  by_cases h4 : idx = 4
  · rw [if_pos (show PyU.eq (V.int (idx : Int)) (V.enum Gen.PyC2Gen.BeaconSetting 4) = true from pos_cond idx 4 _ (by omega))]
    subst h4
    exact close_pass uris st 4 v rfl
  rw [if_neg (show ¬ (PyU.eq (V.int (idx : Int)) (V.enum Gen.PyC2Gen.BeaconSetting 4) = true) from ne_cond idx 4 (by omega))]
  by_cases h5 : idx = 5
  · rw [if_pos (show PyU.eq (V.int (idx : Int)) (V.enum Gen.PyC2Gen.BeaconSetting 5) = true from pos_cond idx 5 _ (by omega))]
    subst h5
    exact close_prof uris st 5 v "jitter" rfl (by decide) hs
  rw [if_neg (show ¬ (PyU.eq (V.int (idx : Int)) (V.enum Gen.PyC2Gen.BeaconSetting 5) = true) from ne_cond idx 5 (by omega))]
  by_cases h8 : idx = 8
  · rw [if_pos (show PyU.eq (V.int (idx : Int)) (V.enum Gen.PyC2Gen.BeaconSetting 8) = true from pos_cond idx 8 _ (by omega))]
    subst h8
    exact close_uris x uris st 8 v rfl
  rw [if_neg (show ¬ (PyU.eq (V.int (idx : Int)) (V.enum Gen.PyC2Gen.BeaconSetting 8) = true) from ne_cond idx 8 (by omega))]
  by_cases h14 : idx = 14
  · rw [if_pos (show PyU.eq (V.int (idx : Int)) (V.enum Gen.PyC2Gen.BeaconSetting 14) = true from pos_cond idx 14 _ (by omega))]
    subst h14
    exact close_pass uris st 14 v rfl
  rw [if_neg (show ¬ (PyU.eq (V.int (idx : Int)) (V.enum Gen.PyC2Gen.BeaconSetting 14) = true) from ne_cond idx 14 (by omega))]
  by_cases h29 : idx = 29
  · rw [if_pos (show PyU.eq (V.int (idx : Int)) (V.enum Gen.PyC2Gen.BeaconSetting 29) = true from pos_cond idx 29 _ (by omega))]
    subst h29
    exact close_prof uris st 29 v "spawnto_x86" rfl (by decide) hs
  rw [if_neg (show ¬ (PyU.eq (V.int (idx : Int)) (V.enum Gen.PyC2Gen.BeaconSetting 29) = true) from ne_cond idx 29 (by omega))]
  by_cases h30 : idx = 30
  · rw [if_pos (show PyU.eq (V.int (idx : Int)) (V.enum Gen.PyC2Gen.BeaconSetting 30) = true from pos_cond idx 30 _ (by omega))]
    subst h30
    exact close_prof uris st 30 v "spawnto_x64" rfl (by decide) hs
  rw [if_neg (show ¬ (PyU.eq (V.int (idx : Int)) (V.enum Gen.PyC2Gen.BeaconSetting 30) = true) from ne_cond idx 30 (by omega))]
  by_cases h26 : idx = 26
  · rw [if_pos (show PyU.eq (V.int (idx : Int)) (V.enum Gen.PyC2Gen.BeaconSetting 26) = true from pos_cond idx 26 _ (by omega))]
    subst h26
    exact close_blkOpt uris st 26 v .httpGet "verb" rfl (by decide) hs
  rw [if_neg (show ¬ (PyU.eq (V.int (idx : Int)) (V.enum Gen.PyC2Gen.BeaconSetting 26) = true) from ne_cond idx 26 (by omega))]
  by_cases h27 : idx = 27
  · rw [if_pos (show PyU.eq (V.int (idx : Int)) (V.enum Gen.PyC2Gen.BeaconSetting 27) = true from pos_cond idx 27 _ (by omega))]
    subst h27
    exact close_blkOpt uris st 27 v .httpPost "verb" rfl (by decide) hs
  rw [if_neg (show ¬ (PyU.eq (V.int (idx : Int)) (V.enum Gen.PyC2Gen.BeaconSetting 27) = true) from ne_cond idx 27 (by omega))]
  by_cases h28 : idx = 28
  · rw [if_pos (show PyU.eq (V.int (idx : Int)) (V.enum Gen.PyC2Gen.BeaconSetting 28) = true from pos_cond idx 28 _ (by omega))]
    subst h28
    exact close_pass uris st 28 v rfl
  rw [if_neg (show ¬ (PyU.eq (V.int (idx : Int)) (V.enum Gen.PyC2Gen.BeaconSetting 28) = true) from ne_cond idx 28 (by omega))]
  by_cases h38 : idx = 38
  · rw [if_pos (show PyU.eq (V.int (idx : Int)) (V.enum Gen.PyC2Gen.BeaconSetting 38) = true from pos_cond idx 38 _ (by omega))]
    subst h38
    exact close_blkOpt uris st 38 v .stage "cleanup" rfl (by decide) hs
  rw [if_neg (show ¬ (PyU.eq (V.int (idx : Int)) (V.enum Gen.PyC2Gen.BeaconSetting 38) = true) from ne_cond idx 38 (by omega))]
  by_cases h39 : idx = 39
  · rw [if_pos (show PyU.eq (V.int (idx : Int)) (V.enum Gen.PyC2Gen.BeaconSetting 39) = true from pos_cond idx 39 _ (by omega))]
    subst h39
    exact close_pass uris st 39 v rfl
  rw [if_neg (show ¬ (PyU.eq (V.int (idx : Int)) (V.enum Gen.PyC2Gen.BeaconSetting 39) = true) from ne_cond idx 39 (by omega))]
  by_cases h9 : idx = 9
  · rw [if_pos (show PyU.eq (V.int (idx : Int)) (V.enum Gen.PyC2Gen.BeaconSetting 9) = true from pos_cond idx 9 _ (by omega))]
    subst h9
    exact close_prof uris st 9 v "useragent" rfl (by decide) hs
  rw [if_neg (show ¬ (PyU.eq (V.int (idx : Int)) (V.enum Gen.PyC2Gen.BeaconSetting 9) = true) from ne_cond idx 9 (by omega))]
  by_cases h10 : idx = 10
  · rw [if_pos (show PyU.eq (V.int (idx : Int)) (V.enum Gen.PyC2Gen.BeaconSetting 10) = true from pos_cond idx 10 _ (by omega))]
    subst h10
    exact close_blkOpt uris st 10 v .httpPost "uri" rfl (by decide) hs
  rw [if_neg (show ¬ (PyU.eq (V.int (idx : Int)) (V.enum Gen.PyC2Gen.BeaconSetting 10) = true) from ne_cond idx 10 (by omega))]
  by_cases h11 : idx = 11
  · rw [if_pos (show PyU.eq (V.int (idx : Int)) (V.enum Gen.PyC2Gen.BeaconSetting 11) = true from pos_cond idx 11 _ (by omega))]
    subst h11
    exact close_recover uris st 11 v rfl hs
  rw [if_neg (show ¬ (PyU.eq (V.int (idx : Int)) (V.enum Gen.PyC2Gen.BeaconSetting 11) = true) from ne_cond idx 11 (by omega))]
  by_cases h12 : idx = 12
  · rw [if_pos (show PyU.eq (V.int (idx : Int)) (V.enum Gen.PyC2Gen.BeaconSetting 12) = true from pos_cond idx 12 _ (by omega))]
    subst h12
    exact close_request uris st 12 v rfl hs
  rw [if_neg (show ¬ (PyU.eq (V.int (idx : Int)) (V.enum Gen.PyC2Gen.BeaconSetting 12) = true) from ne_cond idx 12 (by omega))]
  by_cases h13 : idx = 13
  · rw [if_pos (show PyU.eq (V.int (idx : Int)) (V.enum Gen.PyC2Gen.BeaconSetting 13) = true from pos_cond idx 13 _ (by omega))]
    subst h13
    exact close_postreq uris st 13 v rfl hs
  rw [if_neg (show ¬ (PyU.eq (V.int (idx : Int)) (V.enum Gen.PyC2Gen.BeaconSetting 13) = true) from ne_cond idx 13 (by omega))]
  by_cases h54 : idx = 54
  · rw [if_pos (show PyU.eq (V.int (idx : Int)) (V.enum Gen.PyC2Gen.BeaconSetting 54) = true from pos_cond idx 54 _ (by omega))]
    subst h54
    exact close_pass uris st 54 v rfl
  rw [if_neg (show ¬ (PyU.eq (V.int (idx : Int)) (V.enum Gen.PyC2Gen.BeaconSetting 54) = true) from ne_cond idx 54 (by omega))]
  by_cases h50 : idx = 50
  · rw [if_pos (show PyU.eq (V.int (idx : Int)) (V.enum Gen.PyC2Gen.BeaconSetting 50) = true from pos_cond idx 50 _ (by omega))]
    subst h50
    exact close_pass uris st 50 v rfl
  rw [if_neg (show ¬ (PyU.eq (V.int (idx : Int)) (V.enum Gen.PyC2Gen.BeaconSetting 50) = true) from ne_cond idx 50 (by omega))]
  by_cases h35 : idx = 35
  · rw [if_pos (show PyU.eq (V.int (idx : Int)) (V.enum Gen.PyC2Gen.BeaconSetting 35) = true from pos_cond idx 35 _ (by omega))]
    subst h35
    exact close_pass uris st 35 v rfl
  rw [if_neg (show ¬ (PyU.eq (V.int (idx : Int)) (V.enum Gen.PyC2Gen.BeaconSetting 35) = true) from ne_cond idx 35 (by omega))]
  by_cases h58 : idx = 58 ∧ v.truthy = true
  · obtain ⟨h58a, h58b⟩ := h58
    rw [if_pos (show (PyU.eq (V.int (idx : Int)) (V.enum Gen.PyC2Gen.BeaconSetting 58) && PyU.truthy (preV v)) = true from by rw [truthy_pre, h58b, pos_cond idx 58 _ (by omega)]; rfl)]
    subst h58a
    exact close_prof uris st 58 v "tcp_frame_header" (actionOf_of_find 58 v true _ rfl (fun _ => h58b)) (by decide) hs
  rw [if_neg (show ¬ ((PyU.eq (V.int (idx : Int)) (V.enum Gen.PyC2Gen.BeaconSetting 58) && PyU.truthy (preV v)) = true) from gcond idx 58 v (fun hh => h58 ⟨by omega, hh.2⟩))]
  by_cases h57 : idx = 57 ∧ v.truthy = true
  · obtain ⟨h57a, h57b⟩ := h57
    rw [if_pos (show (PyU.eq (V.int (idx : Int)) (V.enum Gen.PyC2Gen.BeaconSetting 57) && PyU.truthy (preV v)) = true from by rw [truthy_pre, h57b, pos_cond idx 57 _ (by omega)]; rfl)]
    subst h57a
    exact close_prof uris st 57 v "smb_frame_header" (actionOf_of_find 57 v true _ rfl (fun _ => h57b)) (by decide) hs
  rw [if_neg (show ¬ ((PyU.eq (V.int (idx : Int)) (V.enum Gen.PyC2Gen.BeaconSetting 57) && PyU.truthy (preV v)) = true) from gcond idx 57 v (fun hh => h57 ⟨by omega, hh.2⟩))]
  by_cases h55 : idx = 55
  · rw [if_pos (show PyU.eq (V.int (idx : Int)) (V.enum Gen.PyC2Gen.BeaconSetting 55) = true from pos_cond idx 55 _ (by omega))]
    subst h55
    exact close_pass uris st 55 v rfl
  rw [if_neg (show ¬ (PyU.eq (V.int (idx : Int)) (V.enum Gen.PyC2Gen.BeaconSetting 55) = true) from ne_cond idx 55 (by omega))]
  by_cases h40 : idx = 40
  · rw [if_pos (show PyU.eq (V.int (idx : Int)) (V.enum Gen.PyC2Gen.BeaconSetting 40) = true from pos_cond idx 40 _ (by omega))]
    subst h40
    exact close_pass uris st 40 v rfl
  rw [if_neg (show ¬ (PyU.eq (V.int (idx : Int)) (V.enum Gen.PyC2Gen.BeaconSetting 40) = true) from ne_cond idx 40 (by omega))]
  by_cases h41 : idx = 41 ∧ v.truthy = true
  · obtain ⟨h41a, h41b⟩ := h41
    rw [if_pos (show (PyU.eq (V.int (idx : Int)) (V.enum Gen.PyC2Gen.BeaconSetting 41) && PyU.truthy (preV v)) = true from by rw [truthy_pre, h41b, pos_cond idx 41 _ (by omega)]; rfl)]
    subst h41a
    exact close_blkOpt uris st 41 v .stage "sleep_mask" (actionOf_of_find 41 v true _ rfl (fun _ => h41b)) (by decide) hs
  rw [if_neg (show ¬ ((PyU.eq (V.int (idx : Int)) (V.enum Gen.PyC2Gen.BeaconSetting 41) && PyU.truthy (preV v)) = true) from gcond idx 41 v (fun hh => h41 ⟨by omega, hh.2⟩))]
  by_cases h43 : idx = 43
  · rw [if_pos (show PyU.eq (V.int (idx : Int)) (V.enum Gen.PyC2Gen.BeaconSetting 43) = true from pos_cond idx 43 _ (by omega))]
    subst h43
    exact close_perms_i uris st 43 v rfl
  rw [if_neg (show ¬ (PyU.eq (V.int (idx : Int)) (V.enum Gen.PyC2Gen.BeaconSetting 43) = true) from ne_cond idx 43 (by omega))]
  by_cases h44 : idx = 44
  · rw [if_pos (show PyU.eq (V.int (idx : Int)) (V.enum Gen.PyC2Gen.BeaconSetting 44) = true from pos_cond idx 44 _ (by omega))]
    subst h44
    exact close_perms uris st 44 v rfl
  rw [if_neg (show ¬ (PyU.eq (V.int (idx : Int)) (V.enum Gen.PyC2Gen.BeaconSetting 44) = true) from ne_cond idx 44 (by omega))]
  by_cases h45 : idx = 45 ∧ v.truthy = true
  · obtain ⟨h45a, h45b⟩ := h45
    rw [if_pos (show (PyU.eq (V.int (idx : Int)) (V.enum Gen.PyC2Gen.BeaconSetting 45) && PyU.truthy (preV v)) = true from by rw [truthy_pre, h45b, pos_cond idx 45 _ (by omega)]; rfl)]
    subst h45a
    exact close_blkOpt uris st 45 v .procInj "min_alloc" (actionOf_of_find 45 v true _ rfl (fun _ => h45b)) (by decide) hs
  rw [if_neg (show ¬ ((PyU.eq (V.int (idx : Int)) (V.enum Gen.PyC2Gen.BeaconSetting 45) && PyU.truthy (preV v)) = true) from gcond idx 45 v (fun hh => h45 ⟨by omega, hh.2⟩))]
  by_cases h46 : idx = 46
  · rw [if_pos (show PyU.eq (V.int (idx : Int)) (V.enum Gen.PyC2Gen.BeaconSetting 46) = true from pos_cond idx 46 _ (by omega))]
    subst h46
    exact close_inj_x86 uris st 46 v rfl hs
  rw [if_neg (show ¬ (PyU.eq (V.int (idx : Int)) (V.enum Gen.PyC2Gen.BeaconSetting 46) = true) from ne_cond idx 46 (by omega))]
  by_cases h47 : idx = 47
  · rw [if_pos (show PyU.eq (V.int (idx : Int)) (V.enum Gen.PyC2Gen.BeaconSetting 47) = true from pos_cond idx 47 _ (by omega))]
    subst h47
    exact close_inj_x64 uris st 47 v rfl hs
  rw [if_neg (show ¬ (PyU.eq (V.int (idx : Int)) (V.enum Gen.PyC2Gen.BeaconSetting 47) = true) from ne_cond idx 47 (by omega))]
  by_cases h53 : idx = 53
  · rw [if_pos (show PyU.eq (V.int (idx : Int)) (V.enum Gen.PyC2Gen.BeaconSetting 53) = true from pos_cond idx 53 _ (by omega))]
    subst h53
    exact close_pass uris st 53 v rfl
  rw [if_neg (show ¬ (PyU.eq (V.int (idx : Int)) (V.enum Gen.PyC2Gen.BeaconSetting 53) = true) from ne_cond idx 53 (by omega))]
  by_cases h51 : idx = 51
  · rw [if_pos (show PyU.eq (V.int (idx : Int)) (V.enum Gen.PyC2Gen.BeaconSetting 51) = true from pos_cond idx 51 _ (by omega))]
    subst h51
    exact close_execute uris st 51 v rfl hs
  rw [if_neg (show ¬ (PyU.eq (V.int (idx : Int)) (V.enum Gen.PyC2Gen.BeaconSetting 51) = true) from ne_cond idx 51 (by omega))]
  by_cases h52 : idx = 52
  · rw [if_pos (show PyU.eq (V.int (idx : Int)) (V.enum Gen.PyC2Gen.BeaconSetting 52) = true from pos_cond idx 52 _ (by omega))]
    subst h52
    exact close_allocator uris st 52 v rfl
  rw [if_neg (show ¬ (PyU.eq (V.int (idx : Int)) (V.enum Gen.PyC2Gen.BeaconSetting 52) = true) from ne_cond idx 52 (by omega))]
  by_cases h60 : idx = 60
  · rw [if_pos (show PyU.eq (V.int (idx : Int)) (V.enum Gen.PyC2Gen.BeaconSetting 60) = true from pos_cond idx 60 _ (by omega))]
    subst h60
    exact close_blkOpt uris st 60 v .dns "beacon" rfl (by decide) hs
  rw [if_neg (show ¬ (PyU.eq (V.int (idx : Int)) (V.enum Gen.PyC2Gen.BeaconSetting 60) = true) from ne_cond idx 60 (by omega))]
  by_cases h61 : idx = 61
  · rw [if_pos (show PyU.eq (V.int (idx : Int)) (V.enum Gen.PyC2Gen.BeaconSetting 61) = true from pos_cond idx 61 _ (by omega))]
    subst h61
    exact close_blkOpt uris st 61 v .dns "get_a" rfl (by decide) hs
  rw [if_neg (show ¬ (PyU.eq (V.int (idx : Int)) (V.enum Gen.PyC2Gen.BeaconSetting 61) = true) from ne_cond idx 61 (by omega))]
  by_cases h62 : idx = 62
  · rw [if_pos (show PyU.eq (V.int (idx : Int)) (V.enum Gen.PyC2Gen.BeaconSetting 62) = true from pos_cond idx 62 _ (by omega))]
    subst h62
    exact close_blkOpt uris st 62 v .dns "get_aaaa" rfl (by decide) hs
  rw [if_neg (show ¬ (PyU.eq (V.int (idx : Int)) (V.enum Gen.PyC2Gen.BeaconSetting 62) = true) from ne_cond idx 62 (by omega))]
  by_cases h63 : idx = 63
  · rw [if_pos (show PyU.eq (V.int (idx : Int)) (V.enum Gen.PyC2Gen.BeaconSetting 63) = true from pos_cond idx 63 _ (by omega))]
    subst h63
    exact close_blkOpt uris st 63 v .dns "get_txt" rfl (by decide) hs
  rw [if_neg (show ¬ (PyU.eq (V.int (idx : Int)) (V.enum Gen.PyC2Gen.BeaconSetting 63) = true) from ne_cond idx 63 (by omega))]
  by_cases h64 : idx = 64
  · rw [if_pos (show PyU.eq (V.int (idx : Int)) (V.enum Gen.PyC2Gen.BeaconSetting 64) = true from pos_cond idx 64 _ (by omega))]
    subst h64
    exact close_blkOpt uris st 64 v .dns "put_metadata" rfl (by decide) hs
  rw [if_neg (show ¬ (PyU.eq (V.int (idx : Int)) (V.enum Gen.PyC2Gen.BeaconSetting 64) = true) from ne_cond idx 64 (by omega))]
  by_cases h65 : idx = 65
  · rw [if_pos (show PyU.eq (V.int (idx : Int)) (V.enum Gen.PyC2Gen.BeaconSetting 65) = true from pos_cond idx 65 _ (by omega))]
    subst h65
    exact close_blkOpt uris st 65 v .dns "put_output" rfl (by decide) hs
  rw [if_neg (show ¬ (PyU.eq (V.int (idx : Int)) (V.enum Gen.PyC2Gen.BeaconSetting 65) = true) from ne_cond idx 65 (by omega))]
  by_cases h66 : idx = 66 ∧ v.truthy = true
  · obtain ⟨h66a, h66b⟩ := h66
    rw [if_pos (show (PyU.eq (V.int (idx : Int)) (V.enum Gen.PyC2Gen.BeaconSetting 66) && PyU.truthy (preV v)) = true from by rw [truthy_pre, h66b, pos_cond idx 66 _ (by omega)]; rfl)]
    subst h66a
    exact close_blkOpt uris st 66 v .dns "comment_dns_resolver" (actionOf_of_find 66 v true _ rfl (fun _ => h66b)) (by decide) hs
  rw [if_neg (show ¬ ((PyU.eq (V.int (idx : Int)) (V.enum Gen.PyC2Gen.BeaconSetting 66) && PyU.truthy (preV v)) = true) from gcond idx 66 v (fun hh => h66 ⟨by omega, hh.2⟩))]
  by_cases h19 : idx = 19
  · rw [if_pos (show PyU.eq (V.int (idx : Int)) (V.enum Gen.PyC2Gen.BeaconSetting 19) = true from pos_cond idx 19 _ (by omega))]
    subst h19
    exact close_blkOpt uris st 19 v .dns "dns_idle" rfl (by decide) hs
  rw [if_neg (show ¬ (PyU.eq (V.int (idx : Int)) (V.enum Gen.PyC2Gen.BeaconSetting 19) = true) from ne_cond idx 19 (by omega))]
  by_cases h20 : idx = 20
  · rw [if_pos (show PyU.eq (V.int (idx : Int)) (V.enum Gen.PyC2Gen.BeaconSetting 20) = true from pos_cond idx 20 _ (by omega))]
    subst h20
    exact close_blkOpt uris st 20 v .dns "dns_sleep" rfl (by decide) hs
  rw [if_neg (show ¬ (PyU.eq (V.int (idx : Int)) (V.enum Gen.PyC2Gen.BeaconSetting 20) = true) from ne_cond idx 20 (by omega))]
  by_cases h6 : idx = 6
  · rw [if_pos (show PyU.eq (V.int (idx : Int)) (V.enum Gen.PyC2Gen.BeaconSetting 6) = true from pos_cond idx 6 _ (by omega))]
    subst h6
    exact close_blkOpt uris st 6 v .dns "maxdns" rfl (by decide) hs
  rw [if_neg (show ¬ (PyU.eq (V.int (idx : Int)) (V.enum Gen.PyC2Gen.BeaconSetting 6) = true) from ne_cond idx 6 (by omega))]
  by_cases h48 : idx = 48 ∧ v.truthy = true
  · obtain ⟨h48a, h48b⟩ := h48
    rw [if_pos (show (PyU.eq (V.int (idx : Int)) (V.enum Gen.PyC2Gen.BeaconSetting 48) && PyU.truthy (preV v)) = true from by rw [truthy_pre, h48b, pos_cond idx 48 _ (by omega)]; rfl)]
    subst h48a
    exact close_blkConst uris st 48 v .procInj "bof_reuse_memory" "true" (actionOf_of_find 48 v true _ rfl (fun _ => h48b)) (by decide) (by decide)
  rw [if_neg (show ¬ ((PyU.eq (V.int (idx : Int)) (V.enum Gen.PyC2Gen.BeaconSetting 48) && PyU.truthy (preV v)) = true) from gcond idx 48 v (fun hh => h48 ⟨by omega, hh.2⟩))]
  by_cases h16 : idx = 16
  · rw [if_pos (show PyU.eq (V.int (idx : Int)) (V.enum Gen.PyC2Gen.BeaconSetting 16) = true from pos_cond idx 16 _ (by omega))]
    subst h16
    exact close_blkOpt uris st 16 v .procInj "bof_allocator" rfl (by decide) hs
  rw [if_neg (show ¬ (PyU.eq (V.int (idx : Int)) (V.enum Gen.PyC2Gen.BeaconSetting 16) = true) from ne_cond idx 16 (by omega))]
  by_cases h76 : idx = 76
  · rw [if_pos (show PyU.eq (V.int (idx : Int)) (V.enum Gen.PyC2Gen.BeaconSetting 76) = true from pos_cond idx 76 _ (by omega))]
    subst h76
    exact close_blkOpt uris st 76 v .stage "data_store_size" rfl (by decide) hs
  rw [if_neg (show ¬ (PyU.eq (V.int (idx : Int)) (V.enum Gen.PyC2Gen.BeaconSetting 76) = true) from ne_cond idx 76 (by omega))]
  by_cases h77 : idx = 77 ∧ v.truthy = true
  · obtain ⟨h77a, h77b⟩ := h77
    rw [if_pos (show (PyU.eq (V.int (idx : Int)) (V.enum Gen.PyC2Gen.BeaconSetting 77) && PyU.truthy (preV v)) = true from by rw [truthy_pre, h77b, pos_cond idx 77 _ (by omega)]; rfl)]
    subst h77a
    exact close_blkConst uris st 77 v .httpBeacon "data_required" "true" (actionOf_of_find 77 v true _ rfl (fun _ => h77b)) (by decide) (by decide)
  rw [if_neg (show ¬ ((PyU.eq (V.int (idx : Int)) (V.enum Gen.PyC2Gen.BeaconSetting 77) && PyU.truthy (preV v)) = true) from gcond idx 77 v (fun hh => h77 ⟨by omega, hh.2⟩))]
  by_cases h78 : idx = 78 ∧ v.truthy = true
  · obtain ⟨h78a, h78b⟩ := h78
    rw [if_pos (show (PyU.eq (V.int (idx : Int)) (V.enum Gen.PyC2Gen.BeaconSetting 78) && PyU.truthy (preV v)) = true from by rw [truthy_pre, h78b, pos_cond idx 78 _ (by omega)]; rfl)]
    subst h78a
    exact close_gate uris st 78 v (actionOf_of_find 78 v true _ rfl (fun _ => h78b)) hs
  rw [if_neg (show ¬ ((PyU.eq (V.int (idx : Int)) (V.enum Gen.PyC2Gen.BeaconSetting 78) && PyU.truthy (preV v)) = true) from gcond idx 78 v (fun hh => h78 ⟨by omega, hh.2⟩))]
  have hU : idx ∉ keysU := by
    simp only [keysU, List.mem_cons, List.mem_nil_iff, or_false, not_or]
    exact ⟨h3, h4, h5, h8, h14, h29, h30, h26, h27, h28, h38, h39, h9, h10, h11, h12, h13, h54, h50, h35, h55, h40, h43, h44, h46, h47, h53, h51, h52, h60, h61, h62, h63, h64, h65, h19, h20, h6, h16, h76⟩
  have hG : ∀ k ∈ keysG, ¬ (idx = k ∧ v.truthy = true) := by
    intro k hk
    simp only [keysG, List.mem_cons, List.mem_nil_iff, or_false] at hk
    rcases hk with rfl | rfl | rfl | rfl | rfl | rfl | rfl | rfl <;> assumption
  exact close_pass uris st idx v (actionOf_pass idx v hU hG)

/-! ### the whole function -/

theorem gen_settings_loop (x : V) (uris : List (Option Bytes)) (cfg : List (Nat × PVal)) (h : cfg.all shapeOK = true) (st : St) :
    PyU.forList (cfg.map fun kv => V.tuple [.int (kv.1 : Int), encPVal kv.2])
        (settingsStepG (.inst Gen.PyC2Gen.BeaconConfigCls [x, encUris uris])) (encSt st)
      = (runSettings uris st cfg).map encSt := by
  induction cfg generalizing st with
  | nil => rfl
  | cons kv rest ih =>
    simp only [List.all_cons, Bool.and_eq_true] at h
    obtain ⟨k, v⟩ := kv
    simp only [List.map_cons, PyU.forList, gen_settings_step_proof x uris st k v h.1, stepAns, runSettings]
    cases hso : stepOne uris st (k, v) with
    | error e => rfl
    | ok st' => simp only [Except.map, ih h.2 st']

theorem truthy_dopts (l : List DOpt) : PyU.truthy (encDOpts l) = !l.isEmpty := by cases l <;> rfl

theorem xHttpOptionsOutput_enc (kids : PForest) :
    xHttpOptionsOutput (encBlock kids) = .ok (encBlock (block (some (b "output")) kids)) := by
  unfold xHttpOptionsOutput
  rw [show (V.list [] : V) = encBlock .nil from rfl, xSetConfigBlock_lit .nil kids "output" (by decide), forest_nil_append]

theorem gen_from_beacon_config_proof (cfg : List (Nat × PVal)) (uris : List (Option Bytes)) (h : cfg.all shapeOK = true) :
    fromBeaconConfigG cfg uris = (fromBeaconConfig cfg uris).map fun t => encBlock t.kids := by
  unfold fromBeaconConfigG fromBeaconConfigV Gen.PyC2Gen.from_beacon_config
  have hattr : PyU.getAttr (encConfig cfg uris) "settings_by_index" = .ok (encSettings cfg) := by
    simp [PyU.getAttr, encConfig, Gen.PyC2Gen.BeaconConfigCls, lookupField]
  have hitems : PyU.t13Items (encSettings cfg) = .ok (.list (cfg.map fun kv => V.tuple [.int (kv.1 : Int), encPVal kv.2])) := by
    simp only [encSettings, PyU.t13Items, t13Pairs_map]
  have hloop := gen_settings_loop (encSettings cfg) uris cfg h St.init
  have heta : settingsStepG (.inst Gen.PyC2Gen.BeaconConfigCls [encSettings cfg, encUris uris])
      = Gen.PyC2Gen.from_beacon_config_loop1 xNew xProfSetOption xSetOption xPair xDataTransform xSetConfigBlock xEnable xGate
          xHttpOptionsOutput xSetNonEmpty (encConfig cfg uris) := rfl
  rw [heta, show encSt St.init = (V.list [], V.list [], V.list [], V.list [], V.list [], V.list [], V.list [], V.list [], V.list [], V.list [])
    from rfl] at hloop
  rw [show xNew = .ok (V.list []) from rfl] at hloop ⊢
  simp only [PyRt.ok_bind]
  rw [hattr]
  simp only [PyRt.ok_bind]
  rw [hitems]
  simp only [PyRt.ok_bind, PyU.iterList]
  rw [hloop]
  unfold fromBeaconConfig
  cases hr : runSettings uris St.init cfg with
  | error e => rfl
  | ok st =>
    simp only [Except.map, PyRt.ok_bind, encSt, truthy_dopts, xDataTransform_enc, xHttpOptionsOutput_enc, pure_ok, finalize]
    cases hrec : st.recover.isEmpty
    · simp only [Bool.not_false, if_true, PyRt.ok_bind, xSetNonEmpty_enc _ _ "server" (by decide), xSetNonEmpty_enc _ _ "client" (by decide),
        xSetNonEmpty_enc _ _ "http_get" (by decide), xSetNonEmpty_enc _ _ "http_post" (by decide),
        xSetNonEmpty_enc _ _ "stage" (by decide), xSetNonEmpty_enc _ _ "process_inject" (by decide),
        xSetNonEmpty_enc _ _ "dns_beacon" (by decide), xSetNonEmpty_enc _ _ "http_beacon" (by decide), Bool.false_eq_true, if_false]
    · simp only [Bool.not_true, Bool.false_eq_true, if_false, if_true, PyRt.ok_bind, xSetNonEmpty_enc _ _ "client" (by decide),
        xSetNonEmpty_enc _ _ "http_get" (by decide), xSetNonEmpty_enc _ _ "http_post" (by decide),
        xSetNonEmpty_enc _ _ "stage" (by decide), xSetNonEmpty_enc _ _ "process_inject" (by decide),
        xSetNonEmpty_enc _ _ "dns_beacon" (by decide), xSetNonEmpty_enc _ _ "http_beacon" (by decide)]

/-! ### well-formed configurations are inside the domain of the translation -/

theorem gateLabels_ascii : gateLabels.all (fun s => s.all (· < 128)) = true := by decide +kernel

theorem enable_slice_ok : execEnable.all execSliceOK = true := by decide +kernel

theorem wfExec_slice (s : Bytes) (h : wfExecItem (some s) = true) : execSliceOK s = true := by
  simp only [wfExecItem, Bool.or_eq_true, Bool.and_eq_true, decide_eq_true_eq, beq_iff_eq] at h
  rcases h with h | ⟨⟨_, _⟩, ⟨hh, hl⟩, hlen⟩
  · exact List.all_eq_true.mp enable_slice_ok s (by simpa using h)
  · unfold execSliceOK
    simp only [hh, hl, Option.getD_some, Bool.or_eq_true, Bool.and_eq_true, decide_eq_true_eq]
    right
    exact ⟨by decide, by decide⟩

theorem wf_shape (kv : Nat × PVal) (hw : wfSetting kv = true) (hu : execUtf8OK kv = true) : shapeOK kv = true := by
  obtain ⟨k, v⟩ := kv
  rw [shapeOK_eq]
  unfold wfSetting at hw
  unfold actionOf
  cases hf : actionTable.find? (·.1 == k) with
  | none => rfl
  | some e =>
    obtain ⟨k', g, a⟩ := e
    simp only [hf] at hw
    by_cases hg : (g && !v.truthy) = true
    · simp only [hg, if_true]
    · simp only [hg, Bool.false_eq_true, if_false]
      cases a with
      | pass => rfl
      | profOpt n => cases v <;> simp_all [wfAct, wfScalar, vts]
      | blkOpt b n => cases v <;> simp_all [wfAct, wfScalar, vts]
      | blkConst b n t => rfl
      | uris => rfl
      | recover => cases v <;> simp_all [wfAct]
      | request c => cases c <;> cases v <;> simp_all [wfAct]
      | perms l t f => rfl
      | injT l => cases v <;> simp_all [wfAct]
      | execute =>
        cases v with
        | execute l =>
          simp only [wfAct] at hw
          simp only [execUtf8OK] at hu
          simp only [List.all_eq_true] at hw hu ⊢
          intro i hi
          cases i with
          | none => rfl
          | some s =>
            have h1 := hu _ hi
            have h2 := wfExec_slice s (hw _ hi)
            unfold utf8ItemOK at h1
            unfold execItemOK
            cases hd : PyU.utf8 s with
            | error e => simp [hd] at h1
            | ok cs => simp only [hd]; exact h2
        | _ => simp_all [wfAct]
      | allocator => rfl
      | gate =>
        cases v with
        | gate l =>
          simp only [wfAct] at hw
          rw [List.all_eq_true] at hw ⊢
          intro s hs
          have := hw s hs
          exact List.all_eq_true.mp gateLabels_ascii s (by simpa using this)
        | _ => simp_all [wfAct]

theorem wf_shape_all (cfg : List (Nat × PVal)) (hw : WellFormedCfg cfg = true) (hu : cfg.all execUtf8OK = true) :
    cfg.all shapeOK = true := by
  simp only [WellFormedCfg, Bool.and_eq_true, List.all_eq_true] at hw hu ⊢
  intro kv hkv
  exact wf_shape kv (hw.2 kv hkv) (hu kv hkv)

end C13Gen

import CsVerif.Model.C18
/-!
C18 — helper lemmas and the declarative notions the property theorems are stated with.

* version part: decimal digits, `matchVersion` / `strptimeDate` on texts of the documented shape, table checks
* PE part: structure reads as pure functions of the data (`sliceOpt`, `machineAt`, `firstHit`), prepend-shift lemmas,
  the declarative view `Img.*` of an image (absolute offsets) and the `Stage` hypothesis, step lemmas for every function.
-/
namespace C18
open Gen.Version Gen.PeStruct

/-! ## version strings -/

theorem digitsVal_append (xs : Txt) (c : Nat) : digitsVal (xs ++ [c]) = digitsVal xs * 10 + digitVal c := by
  simp [digitsVal, List.foldl_append]

/-- the ASCII digits are decimal digits with their usual values -/
theorem ascii_digit : ∀ k, k < 10 → isDigit (48 + k) = true ∧ digitVal (48 + k) = k := by decide +kernel

theorem natDigits_spec (n : Nat) :
    natDigits n ≠ [] ∧ (∀ c ∈ natDigits n, isDigit c = true) ∧ digitsVal (natDigits n) = n := by
  induction n using Nat.strongRecOn with
  | _ n ih =>
    rw [natDigits]
    split
    · rename_i h
      refine ⟨by simp, ?_, ?_⟩
      · intro c hc
        simp at hc; subst hc
        exact (ascii_digit n h).1
      · simp [digitsVal, (ascii_digit n h).2]
    · rename_i h
      have ⟨h1, h2, h3⟩ := ih (n / 10) (by omega)
      refine ⟨by simp, ?_, ?_⟩
      · intro c hc
        simp at hc
        rcases hc with hc | hc
        · exact h2 c hc
        · subst hc; exact (ascii_digit (n % 10) (by omega)).1
      · rw [digitsVal_append, h3, (ascii_digit (n % 10) (by omega)).2]; omega

theorem takeWhile_digits (ds : Txt) (c : Nat) (rest : Txt) (hd : ∀ x ∈ ds, isDigit x = true) (hc : isDigit c = false) :
    (ds ++ c :: rest).takeWhile isDigit = ds ∧ (ds ++ c :: rest).dropWhile isDigit = c :: rest := by
  induction ds with
  | nil => simp [hc]
  | cons x xs ih =>
    have hx : isDigit x = true := hd x (by simp)
    have := ih (fun y hy => hd y (by simp [hy]))
    simp [hx, this]

theorem stripPrefix_append (p t : Txt) : stripPrefix p (p ++ t) = some t := by
  induction p with
  | nil => simp [stripPrefix]
  | cons x xs ih => simp [stripPrefix, ih]


def patchTxt : Option Nat → Txt
  | some p => 46 :: natDigits p
  | none => []

def dateTxt (d : Date) : Txt := monthName d.m ++ 32 :: pad2 d.d ++ [44, 32] ++ pad4 d.y

theorem formatVersion_eq (maj mn : Nat) (patch : Option Nat) (d : Date) :
    formatVersion maj mn patch d =
      prefixCS ++ (natDigits maj ++ 46 :: (natDigits mn ++ (patchTxt patch ++ 32 :: 40 :: (dateTxt d ++ [41])))) := by
  cases patch <;> simp [formatVersion, patchTxt, dateTxt, List.append_assoc]

theorem takeWhile_all {p : Nat → Bool} (l : Txt) (h : ∀ x ∈ l, p x = true) : l.takeWhile p = l := by
  induction l with
  | nil => rfl
  | cons x xs ih => simp [List.takeWhile, h x (by simp), ih (fun y hy => h y (by simp [hy]))]

theorem matchVersion_shape (maj mn : Nat) (patch : Option Nat) (D : Txt) (hD : ∀ c ∈ D, c ≠ 10) :
    matchVersion (prefixCS ++ (natDigits maj ++ 46 :: (natDigits mn ++ (patchTxt patch ++ 32 :: 40 :: (D ++ [41])))))
      = some (natDigits maj, natDigits mn, patch.map natDigits, D) := by
  obtain ⟨a1, a2, _⟩ := natDigits_spec maj
  obtain ⟨b1, b2, _⟩ := natDigits_spec mn
  unfold matchVersion
  rw [stripPrefix_append]
  simp only
  obtain ⟨t1, d1⟩ := takeWhile_digits (natDigits maj) 46 (natDigits mn ++ (patchTxt patch ++ 32 :: 40 :: (D ++ [41]))) a2 (by decide)
  rw [t1, d1]
  have e1 : (natDigits maj).isEmpty = false := by cases h : natDigits maj <;> simp_all
  have e2 : (natDigits mn).isEmpty = false := by cases h : natDigits mn <;> simp_all
  simp only [e1, Bool.false_eq_true, ↓reduceIte]
  have hline : ((D ++ [41]).takeWhile (· != 10)) = D ++ [41] := by
    apply takeWhile_all
    intro x hx
    simp at hx
    rcases hx with hx | hx
    · simpa using hD x hx
    · subst hx; decide
  have hrev : ((D ++ [41]).reverse.dropWhile (· != 41)) = 41 :: D.reverse := by
    simp
  cases patch with
  | none =>
    obtain ⟨t2, d2⟩ := takeWhile_digits (natDigits mn) 32 (40 :: (D ++ [41])) b2 (by decide)
    simp only [patchTxt, List.nil_append] at *
    simp only [t2, d2, e2, Bool.false_eq_true, ↓reduceIte, stripPrefix, hline, hrev]
    simp
  | some p =>
    obtain ⟨c1, c2, _⟩ := natDigits_spec p
    have e3 : (natDigits p).isEmpty = false := by cases h : natDigits p <;> simp_all
    obtain ⟨t2, d2⟩ := takeWhile_digits (natDigits mn) 46 (natDigits p ++ 32 :: 40 :: (D ++ [41])) b2 (by decide)
    obtain ⟨t3, d3⟩ := takeWhile_digits (natDigits p) 32 (40 :: (D ++ [41])) c2 (by decide)
    simp only [patchTxt, List.cons_append] at *
    simp only [t2, d2, e2, Bool.false_eq_true, ↓reduceIte, t3, d3, e3, stripPrefix, hline, hrev]
    simp


def monthOk (m : Nat) : Bool :=
  match monthName m with
  | [a, b, c] => monthIndex a b c == some m && a != 10 && b != 10 && c != 10
  | _ => false

theorem monthOk_all : ∀ m, m < 13 → 1 ≤ m → monthOk m = true := by decide +kernel

theorem monthName_spec (m : Nat) (h1 : m < 13) (h2 : 1 ≤ m) :
    ∃ a b c, monthName m = [a, b, c] ∧ monthIndex a b c = some m ∧ a ≠ 10 ∧ b ≠ 10 ∧ c ≠ 10 := by
  have h := monthOk_all m h1 h2
  unfold monthOk at h
  split at h
  · rename_i a b c heq
    simp at h
    exact ⟨a, b, c, heq, by simp [h], by omega, by omega, by omega⟩
  · simp at h

theorem isSpace_digit : ∀ k, k < 10 → isSpace (48 + k) = false := by decide +kernel

theorem isSpace_blank : isSpace 32 = true := by decide +kernel

theorem parseDay_pad2 (d : Nat) (rest : Txt) (h1 : 1 ≤ d) (h2 : d ≤ 31) :
    parseDay (pad2 d ++ 44 :: rest) = some (d, rest) := by
  simp only [pad2, List.cons_append, List.nil_append, parseDay]
  rw [if_pos]
  · rw [(ascii_digit (d % 10) (by omega)).2]
    simp; omega
  · have := (ascii_digit (d % 10) (by omega)).1
    simp only [this, and_true]
    omega

theorem pad4_spec (y : Nat) (h : y ≤ 9999) :
    (isDigit (48 + y / 1000 % 10) ∧ isDigit (48 + y / 100 % 10) ∧ isDigit (48 + y / 10 % 10) ∧ isDigit (48 + y % 10)) ∧
    digitsVal (pad4 y) = y := by
  have a1 := ascii_digit (y / 1000 % 10) (by omega)
  have a2 := ascii_digit (y / 100 % 10) (by omega)
  have a3 := ascii_digit (y / 10 % 10) (by omega)
  have a4 := ascii_digit (y % 10) (by omega)
  refine ⟨⟨a1.1, a2.1, a3.1, a4.1⟩, ?_⟩
  simp only [digitsVal, pad4, List.foldl_cons, List.foldl_nil, a1.2, a2.2, a3.2, a4.2]
  omega

theorem strptimeDate_dateTxt (d : Date) (h : validDate d.y d.m d.d = true) : strptimeDate (dateTxt d) = some d := by
  simp only [validDate, decide_eq_true_eq] at h
  obtain ⟨hy1, hy2, hm1, hm2, hd1, hd2⟩ := h
  have hd31 : d.d ≤ 31 := by
    have : daysInMonth d.y d.m ≤ 31 := by unfold daysInMonth; split <;> (try split) <;> omega
    omega
  obtain ⟨a, b, c, hn, hi, _⟩ := monthName_spec d.m (by omega) hm1
  obtain ⟨hdig, hval⟩ := pad4_spec d.y hy2
  have hv : validDate d.y d.m d.d = true := by simp [validDate]; omega
  simp only [dateTxt, hn, List.cons_append, List.nil_append, strptimeDate, hi]
  have hs1 : List.dropWhile isSpace (32 :: (pad2 d.d ++ 44 :: 32 :: pad4 d.y)) = pad2 d.d ++ 44 :: 32 :: pad4 d.y := by
    simp only [pad2, List.cons_append, List.dropWhile, isSpace_digit (d.d / 10 % 10) (by omega), isSpace_blank]
  have hs2 : List.dropWhile isSpace (32 :: pad4 d.y) = pad4 d.y := by
    simp only [pad4, List.dropWhile, isSpace_digit (d.y / 1000 % 10) (by omega), isSpace_blank]
  simp only [List.append_assoc, List.cons_append, List.nil_append]
  rw [hs1, parseDay_pad2 _ _ hd1 hd31]
  simp only [hs2]
  have l1 : ¬ ((pad2 d.d ++ 44 :: 32 :: pad4 d.y).length = (32 :: (pad2 d.d ++ 44 :: 32 :: pad4 d.y)).length) := by simp
  have l2 : ¬ ((pad4 d.y).length = (32 :: pad4 d.y).length) := by simp
  rw [if_neg l1, if_neg l2]
  simp only [pad4] at hval ⊢
  simp only [hdig, and_self, ↓reduceIte, hval, hv]

theorem dateTxt_no_newline (d : Date) (h : validDate d.y d.m d.d = true) : ∀ c ∈ dateTxt d, c ≠ 10 := by
  simp only [validDate, decide_eq_true_eq] at h
  obtain ⟨a, b, c, hn, _, ha, hb, hc⟩ := monthName_spec d.m (by omega) (by omega)
  intro x hx
  simp only [dateTxt, hn, pad2, pad4] at hx
  simp at hx
  omega

theorem version_parse_format' (maj mn : Nat) (patch : Option Nat) (d : Date) (h : validDate d.y d.m d.d = true) :
    parseVersion (formatVersion maj mn patch d) = .ok (some ⟨maj :: mn :: patch.toList, d⟩) := by
  rw [formatVersion_eq, parseVersion, matchVersion_shape _ _ _ _ (dateTxt_no_newline d h)]
  simp only [strptimeDate_dateTxt d h]
  cases patch <;> simp [(natDigits_spec _).2.2]



/-! ## PE images -/

/-! ### pure view of a structure read -/

/-- the bytes a structure read of `n` bytes at offset `off` obtains; `none` when the data is too short -/
def sliceOpt (d : Bytes) (off n : Nat) : Option Bytes :=
  if (slice d off n).length = n then some (slice d off n) else none

theorem slice_length (d : Bytes) (off n : Nat) : (slice d off n).length = min n (d.length - off) := by
  simp [slice]

theorem sliceOpt_ok (d : Bytes) (off n : Nat) (h : off + n ≤ d.length) : sliceOpt d off n = some (slice d off n) := by
  unfold sliceOpt; rw [if_pos]; rw [slice_length]; omega

theorem sliceOpt_none (d : Bytes) (off n : Nat) (h : d.length < off + n) (hn : 0 < n) : sliceOpt d off n = none := by
  unfold sliceOpt; rw [if_neg]; rw [slice_length]
  have := Nat.min_le_right n (d.length - off); omega

theorem readStruct_eq (d : Bytes) (p : Nat) (k : FileKind) (n : Nat) :
    readStruct ⟨d, p, k⟩ n = (sliceOpt d p n, ⟨d, p + (slice d p n).length, k⟩) := by
  have hr : (PyFile.read ⟨d, p, k⟩ (n : Int)).1 = slice d p n := by
    rw [PyFile.read_nonneg]; rfl
  have hr2 : (PyFile.read ⟨d, p, k⟩ (n : Int)).2 = ⟨d, p + (slice d p n).length, k⟩ := by
    have : (PyFile.read ⟨d, p, k⟩ (n : Int)).2 = ⟨d, p + (PyFile.read ⟨d, p, k⟩ (n : Int)).1.length, k⟩ := rfl
    rw [this, hr]
  unfold readStruct sliceOpt
  simp only [hr, hr2]
  split <;> rfl

theorem readStruct_fst (f : PyFile) (n : Nat) : (readStruct f n).1 = sliceOpt f.data f.pos n := by
  cases f; rw [readStruct_eq]

theorem readStruct_data (f : PyFile) (n : Nat) : (readStruct f n).2.data = f.data ∧ (readStruct f n).2.kind = f.kind := by
  cases f; rw [readStruct_eq]; simp

theorem readStruct_ok (d : Bytes) (p : Nat) (k : FileKind) (n : Nat) (h : p + n ≤ d.length) :
    readStruct ⟨d, p, k⟩ n = (some (slice d p n), ⟨d, p + n, k⟩) := by
  rw [readStruct_eq, sliceOpt_ok d p n h, slice_length]
  congr 2
  omega

@[simp] theorem seekNat_mk (d : Bytes) (p : Nat) (k : FileKind) (n : Nat) : seekNat ⟨d, p, k⟩ n = ⟨d, n, k⟩ := rfl

theorem seekSet_nonneg (d : Bytes) (p : Nat) (k : FileKind) (x : Int) (h : 0 ≤ x) :
    PyFile.seekSet ⟨d, p, k⟩ x = .ok (x.toNat, ⟨d, x.toNat, k⟩) := by
  unfold PyFile.seekSet
  rw [if_neg (by omega)]

/-- the seeks of the scan loop are `fh.seek(start_offset + offset + 4 + mz.e_lfanew)` with `e_lfanew > 0` -/
theorem seekNat_faithful (f : PyFile) (base : Nat) (e : Int) (h : 0 < e) :
    f.seekSet ((base : Int) + 4 + e) = .ok (base + 4 + e.toNat, seekNat f (base + 4 + e.toNat)) := by
  cases f
  rw [seekSet_nonneg _ _ _ _ (by omega)]
  have : ((base : Int) + 4 + e).toNat = base + 4 + e.toNat := by omega
  rw [this]; rfl

/-! ### the scan loop as a pure function of the data -/

/-- `image.Machine` seen by the loop body at absolute offset `base` (pure counterpart of `probe`). -/
def machineAt (d : Bytes) (base maxrange : Nat) : Option Int :=
  match sliceOpt d base dosHeaderSize with
  | none => none
  | some mz =>
    let e := fieldVal mz dosLfanew
    if 0 < e ∧ e < (maxrange : Int) then
      match sliceOpt d (base + 4 + e.toNat) fileHeaderSize with
      | none => none
      | some img => some (fieldVal img fhMachine)
    else none

theorem probe_spec (f : PyFile) (base maxrange : Nat) :
    (probe f base maxrange).1 = machineAt f.data base maxrange ∧
    (probe f base maxrange).2.data = f.data ∧ (probe f base maxrange).2.kind = f.kind := by
  obtain ⟨d, p, k⟩ := f
  unfold probe machineAt
  simp only [seekNat_mk, readStruct_eq]
  cases h : sliceOpt d base dosHeaderSize with
  | none => simp
  | some mz =>
    simp only
    split
    · simp only [seekNat_mk, readStruct_eq]
      cases h2 : sliceOpt d (base + 4 + (fieldVal mz dosLfanew).toNat) fileHeaderSize <;> simp
    · simp

/-- first offset of `offs` whose loop body accepts -/
def firstHit (classify : Int → Option α) (d : Bytes) (start maxrange : Nat) : List Nat → Option (Nat × α)
  | [] => none
  | off :: rest =>
    match (machineAt d (start + off) maxrange).bind classify with
    | some a => some (start + off, a)
    | none => firstHit classify d start maxrange rest

theorem scanLoop_spec (classify : Int → Option α) (start maxrange : Nat) (offs : List Nat) (f : PyFile) :
    (scanLoop classify start maxrange offs f).1 = firstHit classify f.data start maxrange offs ∧
    (scanLoop classify start maxrange offs f).2.data = f.data ∧
    (scanLoop classify start maxrange offs f).2.kind = f.kind := by
  induction offs generalizing f with
  | nil => simp [scanLoop, firstHit]
  | cons off rest ih =>
    obtain ⟨h1, h2, h3⟩ := probe_spec f (start + off) maxrange
    unfold scanLoop firstHit
    rw [← h1]
    rcases hp : probe f (start + off) maxrange with ⟨m, f1⟩
    rw [hp] at h1 h2 h3
    simp only at h1 h2 h3
    cases m with
    | none =>
      simp only [Option.bind_none]
      have := ih f1
      rw [h2, h3] at this
      exact this
    | some m =>
      simp only [Option.bind_some]
      cases hc : classify m with
      | none =>
        simp only
        have := ih f1
        rw [h2, h3] at this
        exact this
      | some a => simp [h2, h3]

/-- "no smaller offset passes the e_lfanew + Machine test" (decidable) -/
def NoEarlierCandidate (d : Bytes) (start maxrange n : Nat) : Prop :=
  ∀ o, o < n → (machineAt d (start + o) maxrange).bind classifyMz = none

instance (d : Bytes) (start maxrange n : Nat) : Decidable (NoEarlierCandidate d start maxrange n) := by
  unfold NoEarlierCandidate; infer_instance

theorem firstHit_range' (classify : Int → Option α) (d : Bytes) (start maxrange : Nat) (s len k : Nat) (a : α)
    (hk : s ≤ k ∧ k < s + len)
    (hit : (machineAt d (start + k) maxrange).bind classify = some a)
    (hno : ∀ o, s ≤ o → o < k → (machineAt d (start + o) maxrange).bind classify = none) :
    firstHit classify d start maxrange (List.range' s len) = some (start + k, a) := by
  induction len generalizing s with
  | zero => omega
  | succ len ih =>
    rw [List.range'_succ]
    unfold firstHit
    by_cases hs : s = k
    · subst hs; rw [hit]
    · rw [hno s (by omega) (by omega)]
      exact ih (s + 1) (by omega) (fun o h1 h2 => hno o (by omega) h2)

theorem firstHit_range (classify : Int → Option α) (d : Bytes) (start maxrange n k : Nat) (a : α)
    (hk : k < n)
    (hit : (machineAt d (start + k) maxrange).bind classify = some a)
    (hno : ∀ o, o < k → (machineAt d (start + o) maxrange).bind classify = none) :
    firstHit classify d start maxrange (List.range n) = some (start + k, a) := by
  rw [List.range_eq_range']
  exact firstHit_range' classify d start maxrange 0 n k a (by omega) hit (fun o _ h => hno o h)


/-! ### prepended bytes shift every absolute offset -/

theorem slice_prepend (P I : Bytes) (x n : Nat) : slice (P ++ I) (P.length + x) n = slice I x n := by
  simp [slice, List.drop_length_add_append]

theorem sliceOpt_prepend (P I : Bytes) (x n : Nat) : sliceOpt (P ++ I) (P.length + x) n = sliceOpt I x n := by
  simp [sliceOpt, slice_prepend]

theorem machineAt_prepend (P I : Bytes) (x maxrange : Nat) :
    machineAt (P ++ I) (P.length + x) maxrange = machineAt I x maxrange := by
  unfold machineAt
  rw [sliceOpt_prepend]
  cases sliceOpt I x dosHeaderSize with
  | none => rfl
  | some mz =>
    simp only
    have : P.length + x + 4 + (fieldVal mz dosLfanew).toNat = P.length + (x + 4 + (fieldVal mz dosLfanew).toNat) := by omega
    rw [this, sliceOpt_prepend]

/-! ### fields of a structure that lies at an absolute offset of the image -/

theorem slice_slice (I : Bytes) (off n fo fs : Nat) (h : fo + fs ≤ n) :
    slice (slice I off n) fo fs = slice (I.drop off) fo fs := by
  unfold slice
  rw [List.drop_take, List.take_take]
  congr 1
  omega

theorem fieldVal_slice (I : Bytes) (off n : Nat) (fld : Field) (h : fld.off + fld.size ≤ n) :
    fieldVal (slice I off n) fld = fieldVal (I.drop off) fld := by
  unfold fieldVal
  rw [slice_slice I off n _ _ h]

/-! ### declarative view of a PE image `I` (absolute offsets inside the image) -/

namespace Img

/-- `IMAGE_DOS_HEADER.e_lfanew` (signed) -/
def lfanew (I : Bytes) : Int := fieldVal I dosLfanew
/-- offset of the PE signature -/
def nt (I : Bytes) : Nat := (lfanew I).toNat
/-- the `IMAGE_FILE_HEADER` starts 4 bytes after the signature -/
def fileHdr (I : Bytes) : Bytes := I.drop (nt I + 4)
def machine (I : Bytes) : Int := fieldVal (fileHdr I) fhMachine
def is64 (I : Bytes) : Bool := decide (machine I = (machineAmd64 : Int))
def compileStamp (I : Bytes) : Int := fieldVal (fileHdr I) fhTimeDateStamp
def nsec (I : Bytes) : Nat := (fieldVal (fileHdr I) fhNumberOfSections).toNat
def optOff (I : Bytes) : Nat := nt I + 4 + fileHeaderSize
def optHdr (I : Bytes) : Bytes := I.drop (optOff I)
def exportRva (I : Bytes) : Int := fieldVal (optHdr I) (optExportVA (is64 I))
def sizeOfHeaders (I : Bytes) : Int := fieldVal (optHdr I) (optSizeOfHeaders (is64 I))
def secOff (I : Bytes) (i : Nat) : Nat := optOff I + optSize (is64 I) + sectionSize * i
def sections (I : Bytes) : List Bytes := (List.range (nsec I)).map fun i => slice I (secOff I i) sectionSize
def headersEnd (I : Bytes) : Nat := secOff I (nsec I)

end Img

/-- `P ++ I` is a stage: image `I` with a valid DOS/file header, preceded by `P`, and no earlier offset passes the test. -/
structure Stage (P I : Bytes) (maxrange : Nat) : Prop where
  dos : dosHeaderSize ≤ I.length
  lfanew_pos : 0 < Img.lfanew I
  lfanew_lt : Img.lfanew I < (maxrange : Int)
  fileHeader : Img.optOff I ≤ I.length
  machine : Img.machine I = (machineAmd64 : Int) ∨ Img.machine I = (machineI386 : Int)
  prepend : P.length < maxrange
  first : NoEarlierCandidate (P ++ I) 0 maxrange P.length

/-- the part of the stage hypothesis that only concerns the image -/
structure ImageOK (I : Bytes) (maxrange : Nat) : Prop where
  dos : dosHeaderSize ≤ I.length
  lfanew_pos : 0 < Img.lfanew I
  lfanew_lt : Img.lfanew I < (maxrange : Int)
  fileHeader : Img.optOff I ≤ I.length
  machine : Img.machine I = (machineAmd64 : Int) ∨ Img.machine I = (machineI386 : Int)

theorem Stage.image {P I : Bytes} {maxrange : Nat} (h : Stage P I maxrange) : ImageOK I maxrange :=
  ⟨h.dos, h.lfanew_pos, h.lfanew_lt, h.fileHeader, h.machine⟩

/-- `J ++ P ++ I` searched with `start_offset = |J|`: `J` are the bytes in front of the start offset (never inspected by the
scan), `P` the bytes between the start offset and the image, `|P| < maxrange`, and no offset `|J| + o` with `o < |P|` passes
the e_lfanew + Machine test. `Stage P I m` is `StageAt [] P I m`. -/
structure StageAt (J P I : Bytes) (maxrange : Nat) : Prop where
  image : ImageOK I maxrange
  prepend : P.length < maxrange
  first : NoEarlierCandidate (J ++ P ++ I) J.length maxrange P.length

theorem Stage.at {P I : Bytes} {maxrange : Nat} (h : Stage P I maxrange) : StageAt [] P I maxrange :=
  ⟨h.image, h.prepend, h.first⟩

theorem machineAt_image (I : Bytes) (maxrange : Nat) (hd : dosHeaderSize ≤ I.length)
    (h1 : 0 < Img.lfanew I) (h2 : Img.lfanew I < (maxrange : Int)) (hf : Img.optOff I ≤ I.length) :
    machineAt I 0 maxrange = some (Img.machine I) := by
  unfold machineAt
  rw [sliceOpt_ok I 0 dosHeaderSize (by omega)]
  simp only
  have he : fieldVal (slice I 0 dosHeaderSize) dosLfanew = Img.lfanew I := by
    rw [fieldVal_slice _ _ _ _ (by decide)]; rfl
  rw [he, if_pos ⟨h1, h2⟩]
  have hoff : 0 + 4 + (Img.lfanew I).toNat = Img.nt I + 4 := by unfold Img.nt; omega
  rw [hoff, sliceOpt_ok I _ _ (by unfold Img.optOff at hf; omega)]
  simp only
  rw [fieldVal_slice _ _ _ _ (by decide)]
  rfl

theorem stage_machineAt {P I : Bytes} {maxrange : Nat} (h : Stage P I maxrange) :
    machineAt (P ++ I) (0 + P.length) maxrange = some (Img.machine I) := by
  have := machineAt_prepend P I 0 maxrange
  simp only [Nat.add_zero, Nat.zero_add] at this ⊢
  rw [this]
  exact machineAt_image I maxrange h.dos h.lfanew_pos h.lfanew_lt h.fileHeader

theorem stage_classifyMz {P I : Bytes} {maxrange : Nat} (h : Stage P I maxrange) :
    classifyMz (Img.machine I) = some () := by
  unfold classifyMz; rw [if_pos h.machine]

/-- architecture encoded in the image -/
def Img.arch (I : Bytes) : Arch := if Img.is64 I then .x64 else .x86

theorem stage_classifyArch {P I : Bytes} {maxrange : Nat} (h : Stage P I maxrange) :
    classifyArch (Img.machine I) = some (Img.arch I) := by
  unfold classifyArch Img.arch Img.is64
  rcases h.machine with hm | hm
  · simp [hm]
  · have : ¬ ((machineI386 : Int) = (machineAmd64 : Int)) := by decide
    simp [hm, this]

theorem classifyArch_none_of_mz (m : Int) (h : classifyMz m = none) : classifyArch m = none := by
  unfold classifyMz at h
  unfold classifyArch
  split at h
  · cases h
  · rename_i hn
    rw [if_neg (fun e => hn (Or.inl e)), if_neg (fun e => hn (Or.inr e))]

theorem noEarlier_arch {d : Bytes} {start maxrange n : Nat} (h : NoEarlierCandidate d start maxrange n) :
    ∀ o, o < n → (machineAt d (start + o) maxrange).bind classifyArch = none := by
  intro o ho
  have := h o ho
  cases hm : machineAt d (start + o) maxrange with
  | none => rfl
  | some m =>
    rw [hm] at this
    simp only [Option.bind_some] at this ⊢
    exact classifyArch_none_of_mz m this

/-- result and file after `find_mz_offset` on a stage -/
theorem findMzOffset_stage {P I : Bytes} {maxrange : Nat} (h : Stage P I maxrange) (pos : Nat) (k : FileKind) :
    ∃ p', findMzOffset ⟨P ++ I, pos, k⟩ (some 0) maxrange = (some P.length, ⟨P ++ I, p', k⟩) := by
  obtain ⟨s1, s2, s3⟩ := scanLoop_spec classifyMz 0 maxrange (List.range maxrange) ⟨P ++ I, pos, k⟩
  have hit := firstHit_range classifyMz (P ++ I) 0 maxrange maxrange P.length () h.prepend
    (by rw [stage_machineAt h]; simp [stage_classifyMz h]) h.first
  unfold findMzOffset startOf
  simp only
  rcases hr : scanLoop classifyMz 0 maxrange (List.range maxrange) ⟨P ++ I, pos, k⟩ with ⟨r, f1⟩
  rw [hr] at s1 s2 s3
  simp only at s1 s2 s3
  rw [hit] at s1
  subst s1
  obtain ⟨d1, p1, k1⟩ := f1
  simp only at s2 s3
  subst s2; subst s3
  exact ⟨p1, by simp⟩

theorem findArchitecture_stage {P I : Bytes} {maxrange : Nat} (h : Stage P I maxrange) (pos : Nat) (k : FileKind) :
    (findArchitecture ⟨P ++ I, pos, k⟩ (some 0) maxrange).1 = some (Img.arch I) := by
  obtain ⟨s1, _, _⟩ := scanLoop_spec classifyArch 0 maxrange (List.range maxrange) ⟨P ++ I, pos, k⟩
  have hit := firstHit_range classifyArch (P ++ I) 0 maxrange maxrange P.length (Img.arch I) h.prepend
    (by rw [stage_machineAt h]; simp [stage_classifyArch h]) (noEarlier_arch h.first)
  unfold findArchitecture startOf
  simp only
  rcases hr : scanLoop classifyArch 0 maxrange (List.range maxrange) ⟨P ++ I, pos, k⟩ with ⟨r, f1⟩
  rw [hr] at s1
  simp only at s1
  rw [hit] at s1
  subst s1
  rfl


/-! ### stepping through a stage `P ++ I` -/

theorem readStruct_stage (P I : Bytes) (x n : Nat) (k : FileKind) (h : x + n ≤ I.length) :
    readStruct ⟨P ++ I, P.length + x, k⟩ n = (some (slice I x n), ⟨P ++ I, P.length + (x + n), k⟩) := by
  rw [readStruct_ok _ _ _ _ (by simp; omega), slice_prepend]
  congr 2
  omega

theorem readStruct_stage_short (P I : Bytes) (x n : Nat) (k : FileKind) (h : I.length < x + n) (hn : 0 < n) :
    (readStruct ⟨P ++ I, P.length + x, k⟩ n).1 = none := by
  rw [readStruct_fst]
  simp only
  rw [sliceOpt_prepend, sliceOpt_none _ _ _ h hn]

theorem readSections_ok (d : Bytes) (k : FileKind) (n p : Nat) (h : p + sectionSize * n ≤ d.length) :
    readSections n ⟨d, p, k⟩ =
      (some ((List.range n).map fun i => slice d (p + sectionSize * i) sectionSize), ⟨d, p + sectionSize * n, k⟩) := by
  induction n generalizing p with
  | zero => simp [readSections]
  | succ n ih =>
    have h1 : p + sectionSize ≤ d.length := by
      have : sectionSize * (n + 1) = sectionSize * n + sectionSize := by rw [Nat.mul_succ]
      omega
    have h2 : p + sectionSize + sectionSize * n ≤ d.length := by
      have : sectionSize * (n + 1) = sectionSize * n + sectionSize := by rw [Nat.mul_succ]
      omega
    unfold readSections
    rw [readStruct_ok _ _ _ _ h1]
    simp only
    rw [ih (p + sectionSize) h2]
    simp only
    rw [List.range_succ_eq_map, List.map_cons, List.map_map]
    have e0 : p + sectionSize * 0 = p := by simp
    have e1 : p + sectionSize + sectionSize * n = p + sectionSize * (n + 1) := by rw [Nat.mul_succ]; omega
    rw [e0, e1]
    congr 3
    apply List.map_congr_left
    intro i _
    simp only [Function.comp]
    congr 1
    rw [Nat.succ_eq_add_one, Nat.mul_succ]; omega

theorem readSections_stage (P I : Bytes) (k : FileKind) (n x : Nat) (h : x + sectionSize * n ≤ I.length) :
    readSections n ⟨P ++ I, P.length + x, k⟩ =
      (some ((List.range n).map fun i => slice I (x + sectionSize * i) sectionSize),
        ⟨P ++ I, P.length + (x + sectionSize * n), k⟩) := by
  rw [readSections_ok _ _ _ _ (by simp only [List.length_append]; omega)]
  have hm : ((List.range n).map fun i => slice (P ++ I) (P.length + x + sectionSize * i) sectionSize)
      = ((List.range n).map fun i => slice I (x + sectionSize * i) sectionSize) := by
    apply List.map_congr_left
    intro i _
    rw [Nat.add_assoc, slice_prepend]
  rw [hm, Nat.add_assoc]

theorem leNat_nonneg_field (buf : Bytes) (fld : Field) (h : fld.signed = false) : 0 ≤ fieldVal buf fld := by
  unfold fieldVal
  simp [h]

/-! ### the scan on `Q ++ I` (`Q` = everything in front of the image): result AND file position left behind -/

/-- structure read at image offset `x`, complete or short -/
theorem readStruct_image (Q I : Bytes) (x n : Nat) (k : FileKind) :
    readStruct ⟨Q ++ I, Q.length + x, k⟩ n
      = (sliceOpt I x n, ⟨Q ++ I, Q.length + (x + (slice I x n).length), k⟩) := by
  rw [readStruct_eq, sliceOpt_prepend, slice_prepend, Nat.add_assoc]

theorem image_classifyMz {I : Bytes} {maxrange : Nat} (h : ImageOK I maxrange) :
    classifyMz (Img.machine I) = some () := by
  unfold classifyMz; rw [if_pos h.machine]

theorem image_classifyArch {I : Bytes} {maxrange : Nat} (h : ImageOK I maxrange) :
    classifyArch (Img.machine I) = some (Img.arch I) := by
  unfold classifyArch Img.arch Img.is64
  rcases h.machine with hm | hm
  · simp [hm]
  · have : ¬ ((machineI386 : Int) = (machineAmd64 : Int)) := by decide
    simp [hm, this]

theorem machineAt_at (Q I : Bytes) {maxrange : Nat} (h : ImageOK I maxrange) :
    machineAt (Q ++ I) Q.length maxrange = some (Img.machine I) := by
  have := machineAt_prepend Q I 0 maxrange
  simp only [Nat.add_zero] at this
  rw [this]
  exact machineAt_image I maxrange h.dos h.lfanew_pos h.lfanew_lt h.fileHeader

/-- the loop body at the image: it accepts and leaves the position at the end of the `IMAGE_FILE_HEADER` -/
theorem probe_image (Q I : Bytes) {maxrange : Nat} (h : ImageOK I maxrange) (p : Nat) (k : FileKind) :
    probe ⟨Q ++ I, p, k⟩ Q.length maxrange = (some (Img.machine I), ⟨Q ++ I, Q.length + Img.optOff I, k⟩) := by
  have hd := h.dos
  have hf := h.fileHeader
  have hpos := h.lfanew_pos
  unfold probe
  simp only [seekNat_mk]
  have r1 := readStruct_stage Q I 0 dosHeaderSize k (by omega)
  simp only [Nat.add_zero, Nat.zero_add] at r1
  rw [r1]
  simp only
  have he : fieldVal (slice I 0 dosHeaderSize) dosLfanew = Img.lfanew I := by
    rw [fieldVal_slice _ _ _ _ (by decide)]; rfl
  rw [he, if_pos ⟨h.lfanew_pos, h.lfanew_lt⟩]
  have hoff : Q.length + 4 + (Img.lfanew I).toNat = Q.length + (Img.nt I + 4) := by unfold Img.nt; omega
  simp only [seekNat_mk]
  rw [hoff, readStruct_stage Q I (Img.nt I + 4) fileHeaderSize k (by unfold Img.optOff at hf; omega)]
  simp only
  rw [fieldVal_slice _ _ _ _ (by decide)]
  rfl

/-- the loop body starts with an absolute seek: it does not depend on the position it finds -/
theorem probe_pos_indep (d : Bytes) (p q : Nat) (k : FileKind) (base maxrange : Nat) :
    probe ⟨d, p, k⟩ base maxrange = probe ⟨d, q, k⟩ base maxrange := rfl

/-- at a hit the loop returns at once: the file is the one the accepting iteration leaves behind -/
theorem scanLoop_hit_file (classify : Int → Option α) (start maxrange : Nat) (offs : List Nat) (f : PyFile) (b : Nat) (a : α)
    (h : firstHit classify f.data start maxrange offs = some (b, a)) :
    (scanLoop classify start maxrange offs f).2 = (probe ⟨f.data, 0, f.kind⟩ b maxrange).2 := by
  induction offs generalizing f with
  | nil => simp [firstHit] at h
  | cons off rest ih =>
    obtain ⟨d, p, k⟩ := f
    obtain ⟨h1, h2, h3⟩ := probe_spec ⟨d, p, k⟩ (start + off) maxrange
    unfold firstHit at h
    unfold scanLoop
    simp only at h h1 h2 h3 ⊢
    rw [← h1] at h
    rcases hp : probe ⟨d, p, k⟩ (start + off) maxrange with ⟨r, f1⟩
    rw [hp] at h h2 h3
    simp only at h h2 h3 ⊢
    cases r with
    | none =>
      simp only [Option.bind_none] at h
      have := ih f1 (by rw [h2]; exact h)
      rw [this, h2, h3]
    | some mm =>
      simp only [Option.bind_some] at h
      cases hc : classify mm with
      | none =>
        rw [hc] at h
        simp only [hc] at h ⊢
        have := ih f1 (by rw [h2]; exact h)
        rw [this, h2, h3]
      | some a' =>
        rw [hc] at h
        simp only [hc] at h ⊢
        injection h with h
        injection h with hb ha
        subst hb
        rw [probe_pos_indep d 0 p k, hp]

/-- for a non-empty offset list the whole loop is independent of the initial position -/
theorem scanLoop_pos_indep (classify : Int → Option α) (start maxrange : Nat) (offs : List Nat) (hne : offs ≠ [])
    (d : Bytes) (p q : Nat) (k : FileKind) :
    scanLoop classify start maxrange offs ⟨d, p, k⟩ = scanLoop classify start maxrange offs ⟨d, q, k⟩ := by
  cases offs with
  | nil => exact absurd rfl hne
  | cons off rest =>
    unfold scanLoop
    rw [probe_pos_indep d p q k]

theorem findMzOffset_pos_indep (d : Bytes) (p q : Nat) (k : FileKind) (s maxrange : Nat) (hm : 0 < maxrange) :
    findMzOffset ⟨d, p, k⟩ (some s) maxrange = findMzOffset ⟨d, q, k⟩ (some s) maxrange := by
  unfold findMzOffset startOf
  simp only
  rw [scanLoop_pos_indep classifyMz s maxrange (List.range maxrange) (by simp; omega) d p q k]

theorem findArchitecture_pos_indep (d : Bytes) (p q : Nat) (k : FileKind) (s maxrange : Nat) (hm : 0 < maxrange) :
    findArchitecture ⟨d, p, k⟩ (some s) maxrange = findArchitecture ⟨d, q, k⟩ (some s) maxrange := by
  unfold findArchitecture startOf
  simp only
  rw [scanLoop_pos_indep classifyArch s maxrange (List.range maxrange) (by simp; omega) d p q k]

/-- result and file after `find_mz_offset(fh, start_offset=|J|, maxrange)` on `J ++ P ++ I` -/
theorem findMzOffset_at {J P I : Bytes} {maxrange : Nat} (h : StageAt J P I maxrange) (pos : Nat) (k : FileKind) :
    findMzOffset ⟨J ++ P ++ I, pos, k⟩ (some J.length) maxrange
      = (some (J.length + P.length), ⟨J ++ P ++ I, J.length + P.length + Img.optOff I, k⟩) := by
  have hlen : (J ++ P).length = J.length + P.length := List.length_append
  obtain ⟨s1, _, _⟩ := scanLoop_spec classifyMz J.length maxrange (List.range maxrange) ⟨J ++ P ++ I, pos, k⟩
  have hit := firstHit_range classifyMz (J ++ P ++ I) J.length maxrange maxrange P.length () h.prepend
    (by rw [← hlen, machineAt_at (J ++ P) I h.image]; simp [image_classifyMz h.image]) h.first
  have hfile := scanLoop_hit_file classifyMz J.length maxrange (List.range maxrange) ⟨J ++ P ++ I, pos, k⟩ _ () hit
  simp only at hfile
  rw [← hlen, probe_image (J ++ P) I h.image 0 k] at hfile
  unfold findMzOffset startOf
  simp only
  rcases hr : scanLoop classifyMz J.length maxrange (List.range maxrange) ⟨J ++ P ++ I, pos, k⟩ with ⟨r, f1⟩
  rw [hr] at s1 hfile
  simp only at s1 hfile
  rw [hit] at s1
  subst s1
  subst hfile
  simp only [hlen]

theorem findArchitecture_at {J P I : Bytes} {maxrange : Nat} (h : StageAt J P I maxrange) (pos : Nat) (k : FileKind) :
    findArchitecture ⟨J ++ P ++ I, pos, k⟩ (some J.length) maxrange
      = (some (Img.arch I), ⟨J ++ P ++ I, J.length + P.length + Img.optOff I, k⟩) := by
  have hlen : (J ++ P).length = J.length + P.length := List.length_append
  obtain ⟨s1, _, _⟩ := scanLoop_spec classifyArch J.length maxrange (List.range maxrange) ⟨J ++ P ++ I, pos, k⟩
  have hit := firstHit_range classifyArch (J ++ P ++ I) J.length maxrange maxrange P.length (Img.arch I) h.prepend
    (by rw [← hlen, machineAt_at (J ++ P) I h.image]; simp [image_classifyArch h.image]) (noEarlier_arch h.first)
  have hfile := scanLoop_hit_file classifyArch J.length maxrange (List.range maxrange) ⟨J ++ P ++ I, pos, k⟩ _ _ hit
  simp only at hfile
  rw [← hlen, probe_image (J ++ P) I h.image 0 k] at hfile
  unfold findArchitecture startOf
  simp only
  rcases hr : scanLoop classifyArch J.length maxrange (List.range maxrange) ⟨J ++ P ++ I, pos, k⟩ with ⟨r, f1⟩
  rw [hr] at s1 hfile
  simp only at s1 hfile
  rw [hit] at s1
  subst s1
  subst hfile
  simp only [hlen]

namespace Img

/-- export timestamp of the image: the `IMAGE_EXPORT_DIRECTORY` located through the first section
(in header order) that contains the export RVA; `none` when no section contains it or the directory is cut off. -/
def exportStamp (I : Bytes) : Option Int :=
  match (sections I).find? (sectionContains (exportRva I)) with
  | none => none
  | some ds =>
    let off := (exportRva I - fieldVal ds secVirtualAddress + fieldVal ds secPointerToRawData).toNat
    if off + exportDirSize ≤ I.length then some (fieldVal (I.drop off) expTimeDateStamp) else none

end Img

theorem optSize_fields (b : Bool) :
    (optExportVA b).off + (optExportVA b).size ≤ optSize b ∧ (optSizeOfHeaders b).off + (optSizeOfHeaders b).size ≤ optSize b
    ∧ (optExportVA b).signed = false ∧ (optSizeOfHeaders b).signed = false := by
  cases b <;> decide

namespace Img

/-- offset inside the image at which `find_compile_stamps` stops reading: the end of the section table, or the end of the
(possibly short) export-directory read -/
def stampsEnd (I : Bytes) : Nat :=
  match (sections I).find? (sectionContains (exportRva I)) with
  | none => headersEnd I
  | some ds =>
    let off := (exportRva I - fieldVal ds secVirtualAddress + fieldVal ds secPointerToRawData).toNat
    off + (slice I off exportDirSize).length

end Img

theorem compileStampsAt_image {I : Bytes} {maxrange : Nat} (P : Bytes) (h : ImageOK I maxrange)
    (hc : Img.headersEnd I ≤ I.length) (pos : Nat) (k : FileKind) :
    compileStampsAt ⟨P ++ I, pos, k⟩ P.length
      = (.ok (some (Img.compileStamp I), Img.exportStamp I), ⟨P ++ I, P.length + Img.stampsEnd I, k⟩) := by
  have hd := h.dos
  have hpos := h.lfanew_pos
  have hf := h.fileHeader
  have hnt : ((Img.lfanew I) + (P.length : Int)).toNat = P.length + Img.nt I := by unfold Img.nt; omega
  unfold compileStampsAt
  simp only [seekNat_mk]
  have r1 := readStruct_stage P I 0 dosHeaderSize k (by omega)
  simp only [Nat.add_zero, Nat.zero_add] at r1
  rw [r1]
  simp only
  have he : fieldVal (slice I 0 dosHeaderSize) dosLfanew = Img.lfanew I := by
    rw [fieldVal_slice _ _ _ _ (by decide)]; rfl
  rw [he, seekSet_nonneg _ _ _ _ (by omega), hnt]
  simp only
  have hsz : sigSize = 4 := rfl
  rw [readStruct_stage P I (Img.nt I) sigSize k (by unfold Img.optOff at hf; omega)]
  simp only
  rw [readStruct_stage P I (Img.nt I + sigSize) fileHeaderSize k (by unfold Img.optOff at hf; omega)]
  simp only
  have hm : fieldVal (slice I (Img.nt I + sigSize) fileHeaderSize) fhMachine = Img.machine I := by
    rw [fieldVal_slice _ _ _ _ (by decide)]; rfl
  have hts : fieldVal (slice I (Img.nt I + sigSize) fileHeaderSize) fhTimeDateStamp = Img.compileStamp I := by
    rw [fieldVal_slice _ _ _ _ (by decide)]; rfl
  have hns : (fieldVal (slice I (Img.nt I + sigSize) fileHeaderSize) fhNumberOfSections).toNat = Img.nsec I := by
    rw [fieldVal_slice _ _ _ _ (by decide)]; rfl
  rw [hm, hts, hns]
  have h64 : decide (Img.machine I = (machineAmd64 : Int)) = Img.is64 I := rfl
  rw [h64]
  have hoo : Img.nt I + sigSize + fileHeaderSize = Img.optOff I := by unfold Img.optOff; omega
  have hend : Img.headersEnd I = Img.optOff I + optSize (Img.is64 I) + sectionSize * Img.nsec I := rfl
  rw [hoo, readStruct_stage P I (Img.optOff I) (optSize (Img.is64 I)) k (by omega)]
  simp only
  obtain ⟨f1, _, f3, _⟩ := optSize_fields (Img.is64 I)
  have hrva : fieldVal (slice I (Img.optOff I) (optSize (Img.is64 I))) (optExportVA (Img.is64 I)) = Img.exportRva I := by
    rw [fieldVal_slice _ _ _ _ f1]; rfl
  rw [hrva, readSections_stage P I k (Img.nsec I) (Img.optOff I + optSize (Img.is64 I)) (by omega)]
  simp only
  have hsec : ((List.range (Img.nsec I)).map fun i => slice I (Img.optOff I + optSize (Img.is64 I) + sectionSize * i) sectionSize)
      = Img.sections I := rfl
  rw [hsec]
  unfold Img.exportStamp Img.stampsEnd
  cases hfind : (Img.sections I).find? (sectionContains (Img.exportRva I)) with
  | none => rfl
  | some ds =>
    simp only
    have hcont := List.find?_some hfind
    simp only [sectionContains, decide_eq_true_eq] at hcont
    have hp : 0 ≤ fieldVal ds secPointerToRawData := leNat_nonneg_field _ _ (by decide)
    have hoff : (Img.exportRva I - fieldVal ds secVirtualAddress + fieldVal ds secPointerToRawData + (P.length : Int)).toNat
        = P.length + (Img.exportRva I - fieldVal ds secVirtualAddress + fieldVal ds secPointerToRawData).toNat := by omega
    rw [seekSet_nonneg _ _ _ _ (by omega), hoff]
    simp only
    rw [readStruct_image]
    by_cases hfit : (Img.exportRva I - fieldVal ds secVirtualAddress + fieldVal ds secPointerToRawData).toNat + exportDirSize ≤ I.length
    · rw [sliceOpt_ok _ _ _ hfit, if_pos hfit]
      simp only
      rw [fieldVal_slice _ _ _ _ (by decide)]
    · rw [sliceOpt_none _ _ _ (by omega) (by decide), if_neg hfit]


theorem read_stage (P I : Bytes) (x n : Nat) (k : FileKind) :
    PyFile.read ⟨P ++ I, P.length + x, k⟩ (n : Int) = (slice I x n, ⟨P ++ I, P.length + x + (slice I x n).length, k⟩) := by
  have hr : (PyFile.read ⟨P ++ I, P.length + x, k⟩ (n : Int)).1 = slice I x n := by
    rw [PyFile.read_nonneg]
    exact slice_prepend P I x n
  have h2 : (PyFile.read ⟨P ++ I, P.length + x, k⟩ (n : Int)).2
      = ⟨P ++ I, P.length + x + (PyFile.read ⟨P ++ I, P.length + x, k⟩ (n : Int)).1.length, k⟩ := rfl
  rw [hr] at h2
  exact Prod.ext hr h2

namespace Img

/-- `magic_mz`: the bytes of the first 256 image bytes that precede the DOS-stub marker (x86 marker searched first). -/
def magicMz (I : Bytes) : Option Bytes :=
  match (match findSub dosHeaderX86 (slice I 0 256) 0 with
         | some p => some p
         | none => findSub dosHeaderX64 (slice I 0 256) 0) with
  | some p => some ((slice I 0 256).take p)
  | none => none

/-- `magic_pe`: the four signature bytes without trailing NULs -/
def magicPe (I : Bytes) : Bytes := rstrip0 (slice I (nt I) 4)

/-- `SizeOfHeaders + Σ SizeOfRawData` -/
def totalSize (I : Bytes) : Int :=
  (sections I).foldl (fun acc s => acc + fieldVal s secSizeOfRawData) (sizeOfHeaders I)

/-- bytes after the image (at most 1024, NUL padding removed); `none` when nothing follows -/
def append (I : Bytes) : Option Bytes :=
  if (slice I (totalSize I).toNat 1024).isEmpty then none else some (rstrip0 (slice I (totalSize I).toNat 1024))

end Img

def prependOf (P : Bytes) : Option Bytes := if P.length > 0 then some P else none

theorem magicMzAt_image (P I : Bytes) (pos : Nat) (k : FileKind) :
    magicMzAt ⟨P ++ I, pos, k⟩ P.length = (Img.magicMz I, ⟨P ++ I, P.length + (slice I 0 256).length, k⟩) := by
  unfold magicMzAt Img.magicMz
  simp only [seekNat_mk]
  have := read_stage P I 0 256 k
  simp only [Nat.add_zero] at this
  have h256 : ((256 : Nat) : Int) = 256 := rfl
  rw [h256] at this
  rw [this]
  simp only
  cases findSub dosHeaderX86 (slice I 0 256) 0 with
  | some p => rfl
  | none =>
    simp only
    cases findSub dosHeaderX64 (slice I 0 256) 0 <;> rfl

theorem magicPeAt_image {I : Bytes} {maxrange : Nat} (P : Bytes) (h : ImageOK I maxrange) (pos : Nat) (k : FileKind) :
    magicPeAt ⟨P ++ I, pos, k⟩ P.length = (.ok (some (Img.magicPe I)), ⟨P ++ I, P.length + (Img.nt I + 4), k⟩) := by
  have hd := h.dos
  have hpos := h.lfanew_pos
  have hf := h.fileHeader
  have hnt : ((Img.lfanew I) + (P.length : Int)).toNat = P.length + Img.nt I := by unfold Img.nt; omega
  unfold magicPeAt
  simp only [seekNat_mk]
  have r1 := readStruct_stage P I 0 dosHeaderSize k (by omega)
  simp only [Nat.add_zero, Nat.zero_add] at r1
  rw [r1]
  simp only
  have he : fieldVal (slice I 0 dosHeaderSize) dosLfanew = Img.lfanew I := by
    rw [fieldVal_slice _ _ _ _ (by decide)]; rfl
  rw [he, seekSet_nonneg _ _ _ _ (by omega), hnt]
  simp only
  have h4 : ((4 : Nat) : Int) = 4 := rfl
  have := read_stage P I (Img.nt I) 4 k
  rw [h4] at this
  rw [this]
  have hl : (slice I (Img.nt I) 4).length = 4 := by
    rw [slice_length]; unfold Img.optOff at hf; omega
  simp only [hl, Nat.add_assoc]
  rfl

theorem foldl_rawsize_nonneg (secs : List Bytes) (init : Int) (h : 0 ≤ init) :
    0 ≤ secs.foldl (fun acc s => acc + fieldVal s secSizeOfRawData) init := by
  induction secs generalizing init with
  | nil => simpa
  | cons s ss ih =>
    simp only [List.foldl_cons]
    apply ih
    have := leNat_nonneg_field s secSizeOfRawData (by decide)
    omega

theorem prependAppendAt_image {I : Bytes} {maxrange : Nat} (P : Bytes) (h : ImageOK I maxrange)
    (hc : Img.headersEnd I ≤ I.length) (pos : Nat) (k : FileKind) :
    prependAppendAt ⟨P ++ I, pos, k⟩ P.length
      = (.ok (prependOf P, Img.append I),
          ⟨P ++ I, P.length + (Img.totalSize I).toNat + (slice I (Img.totalSize I).toNat 1024).length, k⟩) := by
  have hd := h.dos
  have hpos := h.lfanew_pos
  have hf := h.fileHeader
  have hnt : ((Img.lfanew I) + (P.length : Int) + 4).toNat = P.length + (Img.nt I + 4) := by unfold Img.nt; omega
  -- the prepend read
  have hpre : ∃ p', (if P.length > 0 then
        (some ((seekNat ⟨P ++ I, pos, k⟩ 0).read (P.length : Int)).1, ((seekNat ⟨P ++ I, pos, k⟩ 0).read (P.length : Int)).2)
      else ((none : Option Bytes), (⟨P ++ I, pos, k⟩ : PyFile))) = (prependOf P, ⟨P ++ I, p', k⟩) := by
    unfold prependOf
    by_cases hp : P.length > 0
    · rw [if_pos hp, if_pos hp]
      have hr : ((seekNat ⟨P ++ I, pos, k⟩ 0).read (P.length : Int)).1 = P := by
        rw [PyFile.read_nonneg]; simp
      refine ⟨_, Prod.ext (by simp only [hr]) rfl⟩
    · rw [if_neg hp, if_neg hp]
      exact ⟨pos, rfl⟩
  obtain ⟨p', hpre⟩ := hpre
  unfold prependAppendAt
  simp only
  rw [hpre]
  simp only [seekNat_mk]
  have r1 := readStruct_stage P I 0 dosHeaderSize k (by omega)
  simp only [Nat.add_zero, Nat.zero_add] at r1
  rw [r1]
  simp only
  have he : fieldVal (slice I 0 dosHeaderSize) dosLfanew = Img.lfanew I := by
    rw [fieldVal_slice _ _ _ _ (by decide)]; rfl
  rw [he, seekSet_nonneg _ _ _ _ (by omega), hnt]
  simp only
  rw [readStruct_stage P I (Img.nt I + 4) fileHeaderSize k (by unfold Img.optOff at hf; omega)]
  simp only
  have hm : fieldVal (slice I (Img.nt I + 4) fileHeaderSize) fhMachine = Img.machine I := by
    rw [fieldVal_slice _ _ _ _ (by decide)]; rfl
  have hns : (fieldVal (slice I (Img.nt I + 4) fileHeaderSize) fhNumberOfSections).toNat = Img.nsec I := by
    rw [fieldVal_slice _ _ _ _ (by decide)]; rfl
  rw [hm, hns, if_pos h.machine]
  have h64 : decide (Img.machine I = (machineAmd64 : Int)) = Img.is64 I := rfl
  rw [h64]
  have hoo : Img.nt I + 4 + fileHeaderSize = Img.optOff I := rfl
  have hend : Img.headersEnd I = Img.optOff I + optSize (Img.is64 I) + sectionSize * Img.nsec I := rfl
  rw [hoo, readStruct_stage P I (Img.optOff I) (optSize (Img.is64 I)) k (by omega)]
  simp only
  rw [readSections_stage P I k (Img.nsec I) (Img.optOff I + optSize (Img.is64 I)) (by omega)]
  simp only
  obtain ⟨_, f2, _, f4⟩ := optSize_fields (Img.is64 I)
  have htot : totalSize (slice I (Img.optOff I) (optSize (Img.is64 I))) (Img.is64 I)
      ((List.range (Img.nsec I)).map fun i => slice I (Img.optOff I + optSize (Img.is64 I) + sectionSize * i) sectionSize)
      = Img.totalSize I := by
    unfold totalSize Img.totalSize
    rw [fieldVal_slice _ _ _ _ f2]
    rfl
  rw [htot]
  have hnn : 0 ≤ Img.totalSize I := by
    unfold Img.totalSize
    apply foldl_rawsize_nonneg
    exact leNat_nonneg_field _ _ f4
  have hoff : ((P.length : Int) + Img.totalSize I).toNat = P.length + (Img.totalSize I).toNat := by omega
  rw [seekSet_nonneg _ _ _ _ (by omega), hoff]
  simp only
  have h1024 : ((1024 : Nat) : Int) = 1024 := rfl
  have := read_stage P I (Img.totalSize I).toNat 1024 k
  rw [h1024] at this
  rw [this]
  unfold Img.append
  simp only
  split <;> rfl


theorem optSize_pos (b : Bool) : 0 < optSize b := by cases b <;> decide

/-- truncated optional header: "return what we have" — the compile stamp is still reported -/
theorem compileStampsAt_image_truncated {I : Bytes} {maxrange : Nat} (P : Bytes) (h : ImageOK I maxrange)
    (hc : I.length < Img.optOff I + optSize (Img.is64 I)) (pos : Nat) (k : FileKind) :
    (compileStampsAt ⟨P ++ I, pos, k⟩ P.length).1 = .ok (some (Img.compileStamp I), none) := by
  have hd := h.dos
  have hpos := h.lfanew_pos
  have hf := h.fileHeader
  have hnt : ((Img.lfanew I) + (P.length : Int)).toNat = P.length + Img.nt I := by unfold Img.nt; omega
  unfold compileStampsAt
  simp only [seekNat_mk]
  have r1 := readStruct_stage P I 0 dosHeaderSize k (by omega)
  simp only [Nat.add_zero, Nat.zero_add] at r1
  rw [r1]
  simp only
  have he : fieldVal (slice I 0 dosHeaderSize) dosLfanew = Img.lfanew I := by
    rw [fieldVal_slice _ _ _ _ (by decide)]; rfl
  rw [he, seekSet_nonneg _ _ _ _ (by omega), hnt]
  simp only
  have hsz : sigSize = 4 := rfl
  rw [readStruct_stage P I (Img.nt I) sigSize k (by unfold Img.optOff at hf; omega)]
  simp only
  rw [readStruct_stage P I (Img.nt I + sigSize) fileHeaderSize k (by unfold Img.optOff at hf; omega)]
  simp only
  have hm : fieldVal (slice I (Img.nt I + sigSize) fileHeaderSize) fhMachine = Img.machine I := by
    rw [fieldVal_slice _ _ _ _ (by decide)]; rfl
  have hts : fieldVal (slice I (Img.nt I + sigSize) fileHeaderSize) fhTimeDateStamp = Img.compileStamp I := by
    rw [fieldVal_slice _ _ _ _ (by decide)]; rfl
  rw [hm, hts]
  have h64 : decide (Img.machine I = (machineAmd64 : Int)) = Img.is64 I := rfl
  rw [h64]
  have hoo : Img.nt I + sigSize + fileHeaderSize = Img.optOff I := by unfold Img.optOff; omega
  rw [hoo]
  have hs := readStruct_stage_short P I (Img.optOff I) (optSize (Img.is64 I)) k hc (optSize_pos _)
  rcases hr : readStruct ⟨P ++ I, P.length + Img.optOff I, k⟩ (optSize (Img.is64 I)) with ⟨r, f6⟩
  rw [hr] at hs
  simp only at hs
  subst hs
  rfl

/-! ## the generic (FileLike) functions agree with the PyFile versions -/

/-! agreement on Python file objects -/

theorem generic_readStruct (f : PyFile) (n : Nat) :
    Generic.readStruct pyFileLike f n = .ok (readStruct f n) := by
  unfold Generic.readStruct readStruct pyFileLike
  simp only
  split <;> rfl

theorem generic_probe (f : PyFile) (base maxrange : Nat) :
    Generic.probe pyFileLike f (base : Int) maxrange = .ok (probe f base maxrange) := by
  unfold Generic.probe probe
  have hs : pyFileLike.seek f (base : Int) = .ok (base, seekNat f base) := PyFile.seekSet_ok f base
  rw [hs]
  simp only [generic_readStruct]
  rcases readStruct (seekNat f base) dosHeaderSize with ⟨_ | mz, f2⟩
  · rfl
  · simp only
    split
    · rename_i h
      have hs2 : pyFileLike.seek f2 ((base : Int) + 4 + fieldVal mz dosLfanew)
          = .ok (base + 4 + (fieldVal mz dosLfanew).toNat, seekNat f2 (base + 4 + (fieldVal mz dosLfanew).toNat)) :=
        seekNat_faithful f2 base _ h.1
      rw [hs2]
      simp only
      rcases readStruct (seekNat f2 (base + 4 + (fieldVal mz dosLfanew).toNat)) fileHeaderSize with ⟨_ | img, f4⟩ <;> rfl
    · rfl

theorem generic_scanLoop (classify : Int → Option α) (start maxrange : Nat) (offs : List Nat) (f : PyFile) :
    Generic.scanLoop pyFileLike classify (start : Int) maxrange offs f =
      .ok (((scanLoop classify start maxrange offs f).1.map fun p => ((p.1 : Int), p.2)), (scanLoop classify start maxrange offs f).2) := by
  induction offs generalizing f with
  | nil => rfl
  | cons off rest ih =>
    unfold Generic.scanLoop scanLoop
    have : (start : Int) + (off : Int) = ((start + off : Nat) : Int) := by omega
    rw [this, generic_probe]
    rcases probe f (start + off) maxrange with ⟨_ | m, f1⟩
    · simp only; exact ih f1
    · simp only
      cases classify m with
      | none => simp only; exact ih f1
      | some a => simp

theorem generic_findMzOffset (f : PyFile) (start : Option Nat) (maxrange : Nat) :
    Generic.findMzOffset pyFileLike f (start.map Int.ofNat) maxrange =
      .ok ((findMzOffset f start maxrange).1.map Int.ofNat, (findMzOffset f start maxrange).2) := by
  have hst : Generic.startOf pyFileLike f (start.map Int.ofNat) = ((startOf f start : Nat) : Int) := by
    cases start <;> rfl
  unfold Generic.findMzOffset findMzOffset
  rw [hst, generic_scanLoop]
  rcases scanLoop classifyMz (startOf f start) maxrange (List.range maxrange) f with ⟨_ | ⟨o, u⟩, f1⟩ <;> rfl

theorem generic_findArchitecture (f : PyFile) (start : Option Nat) (maxrange : Nat) :
    Generic.findArchitecture pyFileLike f (start.map Int.ofNat) maxrange = .ok (findArchitecture f start maxrange) := by
  have hst : Generic.startOf pyFileLike f (start.map Int.ofNat) = ((startOf f start : Nat) : Int) := by
    cases start <;> rfl
  unfold Generic.findArchitecture findArchitecture
  rw [hst, generic_scanLoop]
  rcases scanLoop classifyArch (startOf f start) maxrange (List.range maxrange) f with ⟨_ | ⟨o, u⟩, f1⟩ <;> rfl



theorem generic_readSections (n : Nat) (f : PyFile) :
    Generic.readSections pyFileLike n f = .ok (readSections n f) := by
  induction n generalizing f with
  | zero => rfl
  | succ n ih =>
    unfold Generic.readSections readSections
    rw [generic_readStruct]
    rcases readStruct f sectionSize with ⟨_ | b, f1⟩
    · rfl
    · simp only
      rw [ih f1]
      rcases readSections n f1 with ⟨_ | bs, f2⟩ <;> rfl

theorem pyFileLike_seek (f : PyFile) (x : Int) :
    pyFileLike.seek f x = f.seekSet x := rfl

theorem generic_compileStampsAt (f : PyFile) (mzOff : Nat) :
    Generic.compileStampsAt pyFileLike f (mzOff : Int) = liftPy (compileStampsAt f mzOff) := by
  unfold Generic.compileStampsAt compileStampsAt
  have hs : pyFileLike.seek f (mzOff : Int) = .ok (mzOff, seekNat f mzOff) := PyFile.seekSet_ok f mzOff
  rw [hs]
  simp only [generic_readStruct, generic_readSections, pyFileLike_seek]
  rcases readStruct (seekNat f mzOff) dosHeaderSize with ⟨_ | mz, f2⟩
  · rfl
  · simp only
    cases h3 : f2.seekSet (fieldVal mz dosLfanew + (mzOff : Int)) with
    | error e => rfl
    | ok p3 =>
      obtain ⟨n3, f3⟩ := p3
      simp only
      rcases readStruct f3 sigSize with ⟨_ | sg, f4⟩
      · rfl
      · simp only
        rcases readStruct f4 fileHeaderSize with ⟨_ | img, f5⟩
        · rfl
        · simp only
          rcases readStruct f5 (optSize (decide (fieldVal img fhMachine = (machineAmd64 : Int)))) with ⟨_ | opt, f6⟩
          · rfl
          · simp only
            rcases readSections (fieldVal img fhNumberOfSections).toNat f6 with ⟨_ | secs, f7⟩
            · rfl
            · simp only
              cases List.find? (sectionContains (fieldVal opt (optExportVA (decide (fieldVal img fhMachine = (machineAmd64 : Int)))))) secs with
              | none => rfl
              | some ds =>
                simp only
                cases h8 : f7.seekSet (fieldVal opt (optExportVA (decide (fieldVal img fhMachine = (machineAmd64 : Int)))) - fieldVal ds secVirtualAddress + fieldVal ds secPointerToRawData + (mzOff : Int)) with
                | error e => rfl
                | ok p8 =>
                  obtain ⟨n8, f8⟩ := p8
                  simp only
                  rcases readStruct f8 exportDirSize with ⟨_ | ed, f9⟩ <;> rfl

theorem generic_findCompileStamps (f : PyFile) (start : Option Nat) (maxrange : Nat) :
    Generic.findCompileStamps pyFileLike f (start.map Int.ofNat) maxrange = liftPy (findCompileStamps f start maxrange) := by
  unfold Generic.findCompileStamps findCompileStamps
  rw [generic_findMzOffset]
  rcases findMzOffset f start maxrange with ⟨_ | o, f1⟩
  · rfl
  · exact generic_compileStampsAt f1 o



theorem pyFileLike_read (f : PyFile) (n : Int) : pyFileLike.read f n = .ok (f.read n) := rfl

theorem generic_magicMzAt (f : PyFile) (mzOff : Nat) :
    Generic.magicMzAt pyFileLike f (mzOff : Int) = .ok (magicMzAt f mzOff) := by
  unfold Generic.magicMzAt magicMzAt
  have hs : pyFileLike.seek f (mzOff : Int) = .ok (mzOff, seekNat f mzOff) := PyFile.seekSet_ok f mzOff
  rw [hs]
  simp only [pyFileLike_read]
  cases findSub dosHeaderX86 ((seekNat f mzOff).read 256).1 0 with
  | some p => rfl
  | none =>
    simp only
    cases findSub dosHeaderX64 ((seekNat f mzOff).read 256).1 0 <;> rfl

theorem generic_findMagicMz (f : PyFile) (start : Option Nat) (maxrange : Nat) :
    Generic.findMagicMz pyFileLike f (start.map Int.ofNat) maxrange = .ok (findMagicMz f start maxrange) := by
  unfold Generic.findMagicMz findMagicMz
  rw [generic_findMzOffset]
  rcases findMzOffset f start maxrange with ⟨_ | o, f1⟩
  · rfl
  · exact generic_magicMzAt f1 o

theorem generic_magicPeAt (f : PyFile) (mzOff : Nat) :
    Generic.magicPeAt pyFileLike f (mzOff : Int) = liftPy (magicPeAt f mzOff) := by
  unfold Generic.magicPeAt magicPeAt
  have hs : pyFileLike.seek f (mzOff : Int) = .ok (mzOff, seekNat f mzOff) := PyFile.seekSet_ok f mzOff
  rw [hs]
  simp only [generic_readStruct, pyFileLike_seek, pyFileLike_read]
  rcases readStruct (seekNat f mzOff) dosHeaderSize with ⟨_ | mz, f2⟩
  · rfl
  · simp only
    cases h3 : f2.seekSet (fieldVal mz dosLfanew + (mzOff : Int)) with
    | error e => rfl
    | ok p3 => rfl

theorem generic_findMagicPe (f : PyFile) (start : Option Nat) (maxrange : Nat) :
    Generic.findMagicPe pyFileLike f (start.map Int.ofNat) maxrange = liftPy (findMagicPe f start maxrange) := by
  unfold Generic.findMagicPe findMagicPe
  rw [generic_findMzOffset]
  rcases findMzOffset f start maxrange with ⟨_ | o, f1⟩
  · rfl
  · exact generic_magicPeAt f1 o

theorem generic_prependAppendAt (f : PyFile) (mzOff : Nat) :
    Generic.prependAppendAt pyFileLike f (mzOff : Int) = liftPy (prependAppendAt f mzOff) := by
  unfold Generic.prependAppendAt prependAppendAt
  have hpre : Generic.readPrepend pyFileLike f (mzOff : Int)
      = .ok (if mzOff > 0 then (some ((seekNat f 0).read (mzOff : Int)).1, ((seekNat f 0).read (mzOff : Int)).2) else (none, f)) := by
    unfold Generic.readPrepend
    have hs0 : pyFileLike.seek f 0 = .ok (0, seekNat f 0) := PyFile.seekSet_ok f 0
    by_cases h : mzOff > 0
    · have h' : (mzOff : Int) > 0 := by omega
      rw [if_pos h, if_pos h', hs0]
      rfl
    · have h' : ¬ (mzOff : Int) > 0 := by omega
      rw [if_neg h, if_neg h']
  rw [hpre]
  generalize (if mzOff > 0 then (some ((seekNat f 0).read (mzOff : Int)).1, ((seekNat f 0).read (mzOff : Int)).2) else (none, f)) = pf
  obtain ⟨prepend, fp⟩ := pf
  simp only
  have hs : pyFileLike.seek fp (mzOff : Int) = .ok (mzOff, seekNat fp mzOff) := PyFile.seekSet_ok fp mzOff
  rw [hs]
  simp only [generic_readStruct, generic_readSections, pyFileLike_seek, pyFileLike_read]
  rcases readStruct (seekNat fp mzOff) dosHeaderSize with ⟨_ | mz, f2⟩
  · rfl
  · simp only
    cases h3 : f2.seekSet (fieldVal mz dosLfanew + (mzOff : Int) + 4) with
    | error e => rfl
    | ok p3 =>
      obtain ⟨n3, f3⟩ := p3
      simp only
      rcases readStruct f3 fileHeaderSize with ⟨_ | img, f4⟩
      · rfl
      · simp only
        split
        · rcases readStruct f4 (optSize (decide (fieldVal img fhMachine = (machineAmd64 : Int)))) with ⟨_ | opt, f5⟩
          · rfl
          · simp only
            rcases readSections (fieldVal img fhNumberOfSections).toNat f5 with ⟨_ | secs, f6⟩
            · rfl
            · simp only
              cases h7 : f6.seekSet ((mzOff : Int) + totalSize opt (decide (fieldVal img fhMachine = (machineAmd64 : Int))) secs) with
              | error e => rfl
              | ok p7 =>
                obtain ⟨n7, f7⟩ := p7
                simp only
                split <;> rfl
        · rfl

theorem generic_findStagePrependAppend (f : PyFile) (start : Option Nat) (maxrange : Nat) :
    Generic.findStagePrependAppend pyFileLike f (start.map Int.ofNat) maxrange
      = liftPy (findStagePrependAppend f start maxrange) := by
  unfold Generic.findStagePrependAppend findStagePrependAppend
  rw [generic_findMzOffset]
  rcases findMzOffset f start maxrange with ⟨_ | o, f1⟩
  · rfl
  · exact generic_prependAppendAt f1 o


/-! ## generated tables: decidable checks (discharged by `decide +kernel` in Props) -/

/-- the model's own parse of the entry text equals what the real `BeaconVersion(text)` computed at generation time -/
def entryAgrees (e : Entry) : Bool :=
  match parseVersion e.text with
  | .ok (some v) => e.tuple == some v.tuple && e.date == some (v.date.y, v.date.m, v.date.d)
  | _ => false

/-- the text is exactly `formatVersion` of its own parse (documented shape, canonical digits, valid date) -/
def entryShape (e : Entry) : Bool :=
  match parseVersion e.text with
  | .ok (some v) =>
    validDate v.date.y v.date.m v.date.d &&
    (match v.tuple with
     | [a, b] => formatVersion a b none v.date == e.text
     | [a, b, c] => formatVersion a b (some c) v.date == e.text
     | _ => false)
  | _ => false

/-- on the values computed by the real code: a smaller key never has a later release -/
def pairMonotone (a b : Entry) : Bool :=
  !(decide (a.key < b.key)) ||
    (match a.tuple, b.tuple, a.date, b.date with
     | some ta, some tb, some (ya, ma, da), some (yb, mb, db) => tupleLe ta tb && dateLe ⟨ya, ma, da⟩ ⟨yb, mb, db⟩
     | _, _, _, _ => false)

def tableMonotone (t : List Entry) : Bool := t.all fun a => t.all fun b => pairMonotone a b

def keysNodup : List Entry → Bool
  | [] => true
  | e :: es => es.all (fun x => x.key != e.key) && keysNodup es

theorem lookup_mem (tbl : List Entry) (h : keysNodup tbl = true) (e : Entry) (he : e ∈ tbl) :
    lookup tbl (e.key : Int) = e.text := by
  induction tbl with
  | nil => cases he
  | cons x xs ih =>
    simp only [keysNodup, Bool.and_eq_true, List.all_eq_true, bne_iff_ne, ne_eq] at h
    unfold lookup
    simp only [List.find?_cons]
    rcases List.mem_cons.mp he with rfl | hmem
    · simp
    · have hne : ¬ ((x.key : Int) = (e.key : Int)) := by
        have := h.1 e hmem
        omega
      simp only [hne, decide_false]
      have := ih h.2 hmem
      unfold lookup at this
      exact this

theorem lookup_absent (tbl : List Entry) (k : Int) (h : ∀ e ∈ tbl, (e.key : Int) ≠ k) : lookup tbl k = unknownText := by
  unfold lookup
  rw [List.find?_eq_none.mpr]
  intro e he
  simpa using h e he


/-! ## lifting the boolean table checks to statements -/

theorem monotone_of_checks (tbl : List Entry) (h1 : tbl.all entryAgrees = true) (h2 : tableMonotone tbl = true) :
    ∀ a ∈ tbl, ∀ b ∈ tbl, a.key < b.key →
      ∃ va vb, parseVersion a.text = .ok (some va) ∧ parseVersion b.text = .ok (some vb) ∧
        tupleLe va.tuple vb.tuple = true ∧ dateLe va.date vb.date = true := by
  intro a ha b hb hlt
  have ea := List.all_eq_true.mp h1 a ha
  have eb := List.all_eq_true.mp h1 b hb
  have hm := List.all_eq_true.mp (List.all_eq_true.mp h2 a ha) b hb
  unfold entryAgrees at ea eb
  split at ea
  · rename_i va hva
    split at eb
    · rename_i vb hvb
      simp only [Bool.and_eq_true, beq_iff_eq] at ea eb
      refine ⟨va, vb, hva, hvb, ?_⟩
      unfold pairMonotone at hm
      simp only [hlt, decide_true, Bool.not_true, Bool.false_or, ea.1, ea.2, eb.1, eb.2, Bool.and_eq_true] at hm
      exact hm
    · cases eb
  · cases ea

theorem monotoneAt_of (tbl : List Entry) (hnd : keysNodup tbl = true)
    (hm : ∀ a ∈ tbl, ∀ b ∈ tbl, a.key < b.key →
      ∃ va vb, parseVersion a.text = .ok (some va) ∧ parseVersion b.text = .ok (some vb) ∧
        tupleLe va.tuple vb.tuple = true ∧ dateLe va.date vb.date = true) :
    ∀ a ∈ tbl, ∀ b ∈ tbl, monotoneAt tbl (a.key : Int) (b.key : Int) = true := by
  intro a ha b hb
  unfold monotoneAt
  by_cases hlt : a.key < b.key
  · obtain ⟨va, vb, h1, h2, h3, h4⟩ := hm a ha b hb hlt
    rw [lookup_mem tbl hnd a ha, lookup_mem tbl hnd b hb, h1, h2]
    simp [h3, h4]
  · have : ¬ ((a.key : Int) < (b.key : Int)) := by omega
    simp [this]

theorem shape_of_check (tbl : List Entry) (h : tbl.all entryShape = true) :
    ∀ e ∈ tbl, ∃ major minor patch d, validDate d.y d.m d.d = true ∧ e.text = formatVersion major minor patch d := by
  intro e he
  have := List.all_eq_true.mp h e he
  unfold entryShape at this
  split at this
  · rename_i v hv
    simp only [Bool.and_eq_true] at this
    obtain ⟨hd, hs⟩ := this
    split at hs
    · rename_i a b _
      exact ⟨a, b, none, v.date, hd, (beq_iff_eq.mp hs).symm⟩
    · rename_i a b c _
      exact ⟨a, b, some c, v.date, hd, (beq_iff_eq.mp hs).symm⟩
    · cases hs
  · cases this


/-! ## a concrete stage (used by the `example`s of Props/C18.lean) -/

def le32 (n : Nat) : Bytes := [UInt8.ofNat n, UInt8.ofNat (n / 256), UInt8.ofNat (n / 65536), UInt8.ofNat (n / 16777216)]
def le16 (n : Nat) : Bytes := [UInt8.ofNat n, UInt8.ofNat (n / 256)]
def zeros (n : Nat) : Bytes := List.replicate n 0

/-- DOS header (`MZ` + x86 stub marker, e_lfanew = 64), `PE\0\0`, file header (I386, 1 section, stamp 0x5F94C216),
32-bit optional header (SizeOfHeaders 352, export RVA 0x1010), one section (VA 0x1000, size 0x100, 64 raw bytes at 352)
whose raw data holds the export directory (stamp 0x603E2D9D) at file offset 368, then the appended bytes `AB\0\0`. -/
def sampleImage : Bytes :=
  [77, 90] ++ dosHeaderX86 ++ List.replicate 52 0x90 ++ le32 64 ++
  [80, 69, 0, 0] ++
  le16 machineI386 ++ le16 1 ++ le32 0x5F94C216 ++ zeros 8 ++ le16 224 ++ le16 0x2102 ++
  (zeros 60 ++ le32 352 ++ zeros 32 ++ le32 0x1010 ++ zeros 124) ++
  (zeros 8 ++ le32 0x100 ++ le32 0x1000 ++ le32 64 ++ le32 352 ++ zeros 16) ++
  (zeros 16 ++ (zeros 4 ++ le32 0x603E2D9D ++ zeros 32) ++ zeros 8) ++
  [65, 66, 0, 0]

def samplePrepend : Bytes := [0x90, 0x90, 0xCC]



/-- an x64 image without sections and without an export directory, nothing prepended or appended:
`MZAR` + x64 stub marker, e_lfanew = 64, AMD64 file header, 240-byte optional header (SizeOfHeaders 328, export RVA 0x2000). -/
def sampleImage64 : Bytes :=
  [77, 90, 65, 82] ++ dosHeaderX64 ++ List.replicate 50 0x90 ++ le32 64 ++
  [80, 69, 0, 0] ++
  le16 machineAmd64 ++ le16 0 ++ le32 0x674E0D02 ++ zeros 8 ++ le16 240 ++ le16 0x2022 ++
  (zeros 60 ++ le32 328 ++ zeros 48 ++ le32 0x2000 ++ zeros 124)


/-- `sampleImage64 ++ samplePrepend ++ sampleImage` as an OS file positioned at 7 (searched from start offset 328) -/
def sampleFileAt : PyFile := ⟨sampleImage64 ++ samplePrepend ++ sampleImage, 7, .osFile⟩

/-! ## histories: one BeaconConfig object, one file object -/

/-- attributes of the object after a history -/
def cfgAfter (s : CfgState) (ops : List CfgOp) : CfgState := ops.foldl cfgNext s

/-- the export stamp in force after a history: the argument of the last `pe_export_stamp` assignment, else the initial one -/
def lastStamp : Option Int → List CfgOp → Option Int
  | cur, [] => cur
  | _, .setExportStamp x :: rest => lastStamp x rest
  | cur, _ :: rest => lastStamp cur rest

theorem cfgRun_append (enums : List Nat) (s : CfgState) (a b : List CfgOp) :
    cfgRun enums s (a ++ b) = cfgRun enums s a ++ cfgRun enums (cfgAfter s a) b := by
  induction a generalizing s with
  | nil => simp [cfgRun, cfgAfter]
  | cons op ops ih => simp [cfgRun, cfgAfter, ih, List.append_assoc]

theorem cfgAfter_stamp (s : CfgState) (ops : List CfgOp) :
    (cfgAfter s ops).exportStamp = lastStamp s.exportStamp ops := by
  induction ops generalizing s with
  | nil => rfl
  | cons op ops ih =>
    simp only [cfgAfter, List.foldl_cons] at ih ⊢
    rw [ih]
    cases op <;> rfl

def CfgOp.isOtherAttr : CfgOp → Bool
  | .setCompileStamp _ => true
  | .setArch _ => true
  | _ => false

theorem cfgRun_ignores_other_attrs (enums : List Nat) (s : CfgState) (ops : List CfgOp) :
    cfgRun enums s ops = cfgRun enums ⟨s.exportStamp, none, none⟩ (ops.filter (fun op => !op.isOtherAttr)) := by
  induction ops generalizing s with
  | nil => rfl
  | cons op ops ih =>
    cases op with
    | readVersion => simp [cfgRun, cfgRead, cfgNext, CfgOp.isOtherAttr, ih s]
    | readMaxEnum => simp [cfgRun, cfgRead, cfgNext, CfgOp.isOtherAttr, ih s]
    | setExportStamp x => simp [cfgRun, cfgRead, cfgNext, CfgOp.isOtherAttr, ih { s with exportStamp := x }]
    | setCompileStamp x => simp [cfgRun, cfgRead, cfgNext, CfgOp.isOtherAttr, ih { s with compileStamp := x }]
    | setArch a => simp [cfgRun, cfgRead, cfgNext, CfgOp.isOtherAttr, ih { s with arch := a }]


/-- same underlying bytes and file kind (only the position may differ) -/
def SameFile (f g : PyFile) : Prop := g.data = f.data ∧ g.kind = f.kind

theorem SameFile.refl (f : PyFile) : SameFile f f := ⟨rfl, rfl⟩
theorem SameFile.trans {f g h : PyFile} (a : SameFile f g) (b : SameFile g h) : SameFile f h :=
  ⟨b.1.trans a.1, b.2.trans a.2⟩

theorem same_seekNat (f : PyFile) (n : Nat) : SameFile f (seekNat f n) := ⟨rfl, rfl⟩
theorem same_read (f : PyFile) (n : Int) : SameFile f (f.read n).2 := ⟨rfl, rfl⟩
theorem same_readStruct (f : PyFile) (n : Nat) : SameFile f (readStruct f n).2 := readStruct_data f n
theorem same_seekSet {f : PyFile} {x : Int} {n : Nat} {g : PyFile} (h : f.seekSet x = .ok (n, g)) : SameFile f g := by
  unfold PyFile.seekSet at h
  split at h
  · cases h
  · injection h with h; injection h with _ h; subst h; exact ⟨rfl, rfl⟩

theorem same_readSections (n : Nat) (f : PyFile) : SameFile f (readSections n f).2 := by
  induction n generalizing f with
  | zero => exact SameFile.refl f
  | succ n ih =>
    unfold readSections
    have h1 := same_readStruct f sectionSize
    rcases hr : readStruct f sectionSize with ⟨_ | b, f1⟩
    · rw [hr] at h1; exact h1
    · rw [hr] at h1
      simp only
      have h2 := ih f1
      rcases hs : readSections n f1 with ⟨_ | bs, f2⟩ <;> (rw [hs] at h2; exact h1.trans h2)

theorem same_findMzOffset (f : PyFile) (start : Option Nat) (maxrange : Nat) :
    SameFile f (findMzOffset f start maxrange).2 := by
  obtain ⟨_, h2, h3⟩ := scanLoop_spec classifyMz (startOf f start) maxrange (List.range maxrange) f
  unfold findMzOffset
  rcases hr : scanLoop classifyMz (startOf f start) maxrange (List.range maxrange) f with ⟨_ | ⟨o, u⟩, f1⟩ <;>
    (rw [hr] at h2 h3; exact ⟨h2, h3⟩)

theorem same_findArchitecture (f : PyFile) (start : Option Nat) (maxrange : Nat) :
    SameFile f (findArchitecture f start maxrange).2 := by
  obtain ⟨_, h2, h3⟩ := scanLoop_spec classifyArch (startOf f start) maxrange (List.range maxrange) f
  unfold findArchitecture
  rcases hr : scanLoop classifyArch (startOf f start) maxrange (List.range maxrange) f with ⟨_ | ⟨o, u⟩, f1⟩ <;>
    (rw [hr] at h2 h3; exact ⟨h2, h3⟩)

theorem same_magicMzAt (f : PyFile) (o : Nat) : SameFile f (magicMzAt f o).2 := by
  unfold magicMzAt
  simp only
  split <;> exact (same_seekNat f o).trans (same_read _ _)

theorem same_magicPeAt (f : PyFile) (o : Nat) : SameFile f (magicPeAt f o).2 := by
  unfold magicPeAt
  have h1 := (same_seekNat f o).trans (same_readStruct (seekNat f o) dosHeaderSize)
  rcases hr : readStruct (seekNat f o) dosHeaderSize with ⟨_ | mz, f2⟩
  · rw [hr] at h1; exact h1
  · rw [hr] at h1
    simp only
    cases h3 : f2.seekSet (fieldVal mz dosLfanew + (o : Int)) with
    | error e => exact h1
    | ok p => exact h1.trans ((same_seekSet h3).trans (same_read _ _))


theorem same_compileStampsAt (f : PyFile) (o : Nat) : SameFile f (compileStampsAt f o).2 := by
  unfold compileStampsAt
  simp only
  have h1 := (same_seekNat f o).trans (same_readStruct (seekNat f o) dosHeaderSize)
  rcases hr : readStruct (seekNat f o) dosHeaderSize with ⟨_ | mz, f2⟩
  · rw [hr] at h1; exact h1
  rw [hr] at h1
  simp only
  cases h3 : f2.seekSet (fieldVal mz dosLfanew + (o : Int)) with
  | error e => exact h1
  | ok p3 =>
  obtain ⟨n3, f3⟩ := p3
  have h3' := h1.trans (same_seekSet h3)
  simp only
  have h4 := h3'.trans (same_readStruct f3 sigSize)
  rcases hr4 : readStruct f3 sigSize with ⟨_ | sg, f4⟩
  · rw [hr4] at h4; exact h4
  rw [hr4] at h4
  simp only
  have h5 := h4.trans (same_readStruct f4 fileHeaderSize)
  rcases hr5 : readStruct f4 fileHeaderSize with ⟨_ | img, f5⟩
  · rw [hr5] at h5; exact h5
  rw [hr5] at h5
  simp only
  have h6 := h5.trans (same_readStruct f5 (optSize (decide (fieldVal img fhMachine = (machineAmd64 : Int)))))
  rcases hr6 : readStruct f5 (optSize (decide (fieldVal img fhMachine = (machineAmd64 : Int)))) with ⟨_ | opt, f6⟩
  · rw [hr6] at h6; exact h6
  rw [hr6] at h6
  simp only
  have h7 := h6.trans (same_readSections (fieldVal img fhNumberOfSections).toNat f6)
  rcases hr7 : readSections (fieldVal img fhNumberOfSections).toNat f6 with ⟨_ | secs, f7⟩
  · rw [hr7] at h7; exact h7
  rw [hr7] at h7
  simp only
  cases List.find? (sectionContains (fieldVal opt (optExportVA (decide (fieldVal img fhMachine = (machineAmd64 : Int)))))) secs with
  | none => exact h7
  | some ds =>
    simp only
    cases h8 : f7.seekSet (fieldVal opt (optExportVA (decide (fieldVal img fhMachine = (machineAmd64 : Int)))) - fieldVal ds secVirtualAddress + fieldVal ds secPointerToRawData + (o : Int)) with
    | error e => exact h7
    | ok p8 =>
      obtain ⟨n8, f8⟩ := p8
      simp only
      have h9 := (h7.trans (same_seekSet h8)).trans (same_readStruct f8 exportDirSize)
      rcases hr9 : readStruct f8 exportDirSize with ⟨_ | ed, f9⟩ <;> (rw [hr9] at h9; exact h9)

theorem same_prependAppendAt (f : PyFile) (o : Nat) : SameFile f (prependAppendAt f o).2 := by
  unfold prependAppendAt
  simp only
  have hp : SameFile f (if o > 0 then (some ((seekNat f 0).read (o : Int)).1, ((seekNat f 0).read (o : Int)).2) else ((none : Option Bytes), f)).2 := by
    split
    · exact (same_seekNat f 0).trans (same_read _ _)
    · exact SameFile.refl f
  generalize (if o > 0 then (some ((seekNat f 0).read (o : Int)).1, ((seekNat f 0).read (o : Int)).2) else ((none : Option Bytes), f)) = pf at hp
  obtain ⟨prepend, fp⟩ := pf
  simp only at hp ⊢
  have h1 := (hp.trans (same_seekNat fp o)).trans (same_readStruct (seekNat fp o) dosHeaderSize)
  rcases hr : readStruct (seekNat fp o) dosHeaderSize with ⟨_ | mz, f2⟩
  · rw [hr] at h1; exact h1
  rw [hr] at h1
  simp only
  cases h3 : f2.seekSet (fieldVal mz dosLfanew + (o : Int) + 4) with
  | error e => exact h1
  | ok p3 =>
  obtain ⟨n3, f3⟩ := p3
  simp only
  have h4 := (h1.trans (same_seekSet h3)).trans (same_readStruct f3 fileHeaderSize)
  rcases hr4 : readStruct f3 fileHeaderSize with ⟨_ | img, f4⟩
  · rw [hr4] at h4; exact h4
  rw [hr4] at h4
  simp only
  split
  · have h5 := h4.trans (same_readStruct f4 (optSize (decide (fieldVal img fhMachine = (machineAmd64 : Int)))))
    rcases hr5 : readStruct f4 (optSize (decide (fieldVal img fhMachine = (machineAmd64 : Int)))) with ⟨_ | opt, f5⟩
    · rw [hr5] at h5; exact h5
    rw [hr5] at h5
    simp only
    have h6 := h5.trans (same_readSections (fieldVal img fhNumberOfSections).toNat f5)
    rcases hr6 : readSections (fieldVal img fhNumberOfSections).toNat f5 with ⟨_ | secs, f6⟩
    · rw [hr6] at h6; exact h6
    rw [hr6] at h6
    simp only
    cases h7 : f6.seekSet ((o : Int) + totalSize opt (decide (fieldVal img fhMachine = (machineAmd64 : Int))) secs) with
    | error e => exact h6
    | ok p7 =>
      obtain ⟨n7, f7⟩ := p7
      simp only
      have h8 := (h6.trans (same_seekSet h7)).trans (same_read f7 1024)
      split <;> exact h8
  · exact h4

theorem same_findCompileStamps (f : PyFile) (start : Option Nat) (maxrange : Nat) :
    SameFile f (findCompileStamps f start maxrange).2 := by
  unfold findCompileStamps
  have h := same_findMzOffset f start maxrange
  rcases hr : findMzOffset f start maxrange with ⟨_ | o, f1⟩
  · rw [hr] at h; exact h
  · rw [hr] at h; exact h.trans (same_compileStampsAt f1 o)

theorem same_findMagicMz (f : PyFile) (start : Option Nat) (maxrange : Nat) :
    SameFile f (findMagicMz f start maxrange).2 := by
  unfold findMagicMz
  have h := same_findMzOffset f start maxrange
  rcases hr : findMzOffset f start maxrange with ⟨_ | o, f1⟩
  · rw [hr] at h; exact h
  · rw [hr] at h; exact h.trans (same_magicMzAt f1 o)

theorem same_findMagicPe (f : PyFile) (start : Option Nat) (maxrange : Nat) :
    SameFile f (findMagicPe f start maxrange).2 := by
  unfold findMagicPe
  have h := same_findMzOffset f start maxrange
  rcases hr : findMzOffset f start maxrange with ⟨_ | o, f1⟩
  · rw [hr] at h; exact h
  · rw [hr] at h; exact h.trans (same_magicPeAt f1 o)

theorem same_findStagePrependAppend (f : PyFile) (start : Option Nat) (maxrange : Nat) :
    SameFile f (findStagePrependAppend f start maxrange).2 := by
  unfold findStagePrependAppend
  have h := same_findMzOffset f start maxrange
  rcases hr : findMzOffset f start maxrange with ⟨_ | o, f1⟩
  · rw [hr] at h; exact h
  · rw [hr] at h; exact h.trans (same_prependAppendAt f1 o)


theorem same_peCall (f : PyFile) (start : Option Nat) (maxrange : Nat) (op : PeOp) :
    SameFile f (peCall f start maxrange op).2 := by
  cases op
  · exact same_findMzOffset f start maxrange
  · exact same_findArchitecture f start maxrange
  · exact same_findCompileStamps f start maxrange
  · exact same_findMagicMz f start maxrange
  · exact same_findMagicPe f start maxrange
  · exact same_findStagePrependAppend f start maxrange

/-- what each helper must report for `J ++ P ++ I` searched from `start_offset = |J|`: the offset is ABSOLUTE
(`start_offset + offset`), and `prepend` is everything from the beginning of the file (`fh.seek(0); fh.read(mz_offset)`),
i.e. it includes the bytes in front of the start offset -/
def stageAnswerAt (J P I : Bytes) : PeOp → PeOut
  | .mz => .mz (some (J.length + P.length))
  | .arch => .arch (some (Img.arch I))
  | .stamps => .stamps (.ok (some (Img.compileStamp I), Img.exportStamp I))
  | .mmz => .mmz (Img.magicMz I)
  | .mpe => .mpe (.ok (some (Img.magicPe I)))
  | .ppa => .ppa (.ok (prependOf (J ++ P), Img.append I))

/-- where each helper leaves the file position on a complete stage, relative to the start of the image
(none of them restores the position it found) -/
def Img.endPos (I : Bytes) : PeOp → Nat
  | .mz => Img.optOff I                         -- end of the IMAGE_FILE_HEADER read by the accepting iteration
  | .arch => Img.optOff I
  | .stamps => Img.stampsEnd I                  -- end of the section table / of the export-directory read
  | .mmz => (slice I 0 256).length              -- after `fh.read(256)`
  | .mpe => Img.nt I + 4                        -- after the four signature bytes
  | .ppa => (Img.totalSize I).toNat + (slice I (Img.totalSize I).toNat 1024).length   -- after `fh.read(1024)`

/-- what each helper must report for the stage `P ++ I` -/
def stageAnswer (P I : Bytes) : PeOp → PeOut
  | .mz => .mz (some P.length)
  | .arch => .arch (some (Img.arch I))
  | .stamps => .stamps (.ok (some (Img.compileStamp I), Img.exportStamp I))
  | .mmz => .mmz (Img.magicMz I)
  | .mpe => .mpe (.ok (some (Img.magicPe I)))
  | .ppa => .ppa (.ok (prependOf P, Img.append I))

theorem stageAnswerAt_nil (P I : Bytes) (op : PeOp) : stageAnswerAt [] P I op = stageAnswer P I op := by
  cases op <;> simp [stageAnswerAt, stageAnswer]

end C18

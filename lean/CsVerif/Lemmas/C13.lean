import CsVerif.Model.C13
import CsVerif.Lemmas.C10
import CsVerif.Lemmas.C12
/-! C13 helper lemmas.

Part 1 (generic in the grammar table): a relational notion of "this children list is derivable from this right-hand
side" (`Derives`), shown to give well-formed derivations of the C10 model (`derives_parts`), with the shapes of
productions the profile generator uses (blocks, statements with literals, the `set OPTION` statement). -/
namespace C13
open C10 (Table Forest Parts wfParts label)
open Grammar (Item Form)

/-! ### derivability of a children list (relational; no strategy, no fuel) -/

inductive Derives (G : Table) : List Item → Forest → Prop
  | nil : Derives G [] .nil
  | kw {k is ks} : Derives G is ks → Derives G (.kw k :: is) ks
  | tok {t s is r} : Derives G is r → Derives G (.tok t :: is) (.leaf t s r)
  | nt {f : Form} {n is ks r} : G.has f = true → f.origin = n → Derives G f.items ks → Derives G is r →
      Derives G (.nt n :: is) (.node (label f) ks r)
  | starTake {f : Form} {n is ks r} : G.has f = true → f.origin = n → Derives G f.items ks →
      Derives G (.star n :: is) r → Derives G (.star n :: is) (.node (label f) ks r)
  | starStop {n is ks} : Derives G is ks → Derives G (.star n :: is) ks
  | optSkip {n is ks} : Derives G is ks → Derives G (.opt n :: is) ks

theorem derives_parts {G : Table} {is : List Item} {ks : Forest} (h : Derives G is ks) :
    ∃ p : Parts, wfParts G is p = true ∧ p.kids = ks := by
  induction h with
  | nil => exact ⟨.done, by simp [wfParts], rfl⟩
  | @kw k is ks _ ih =>
    obtain ⟨p, hp, hk⟩ := ih
    exact ⟨.kw k p, by simp [wfParts, hp], by simp [Parts.kids, hk]⟩
  | @tok t s is r _ ih =>
    obtain ⟨p, hp, hk⟩ := ih
    exact ⟨.tok t s p, by simp [wfParts, hp], by simp [Parts.kids, hk]⟩
  | @nt f n is ks r hf ho _ _ ih1 ih2 =>
    obtain ⟨p1, hp1, hk1⟩ := ih1
    obtain ⟨p2, hp2, hk2⟩ := ih2
    exact ⟨.sub f p1 p2, by simp [wfParts, hf, ho, hp1, hp2], by simp [Parts.kids, hk1, hk2]⟩
  | @starTake f n is ks r hf ho _ _ ih1 ih2 =>
    obtain ⟨p1, hp1, hk1⟩ := ih1
    obtain ⟨p2, hp2, hk2⟩ := ih2
    exact ⟨.sub f p1 p2, by simp [wfParts, hf, ho, hp1, hp2], by simp [Parts.kids, hk1, hk2]⟩
  | @starStop n is ks _ ih =>
    obtain ⟨p, hp, hk⟩ := ih
    exact ⟨.stop p, by simp [wfParts, hp], by simp [Parts.kids, hk]⟩
  | @optSkip n is ks _ ih =>
    obtain ⟨p, hp, hk⟩ := ih
    exact ⟨.stop p, by simp [wfParts, hp], by simp [Parts.kids, hk]⟩

/-- the tree is the tree of some derivation of the grammar -/
def ValidTree (G : Table) (t : C10.Tree) : Prop :=
  ∃ f : Form, G.has f = true ∧ label f = t.label ∧ Derives G f.items t.kids

theorem valid_deriv {G : Table} {t : C10.Tree} (h : ValidTree G t) :
    ∃ d : C10.Deriv, d.WF G = true ∧ C10.toTree d = t := by
  obtain ⟨f, hf, hl, hd⟩ := h
  obtain ⟨p, hp, hk⟩ := derives_parts hd
  refine ⟨⟨f, p⟩, by simp [C10.Deriv.WF, hf, hp], ?_⟩
  cases t
  simp only [C10.toTree] at *
  simp_all


/-! ### nodes, lists of nodes, repetition -/

/-- a node `(l, ks)` can stand where nonterminal `n` is expected -/
def NodeOK (G : Table) (n l : Nat) (ks : Forest) : Prop :=
  ∃ f : Form, G.has f = true ∧ f.origin = n ∧ label f = l ∧ Derives G f.items ks

/-- every top-level element of the forest is a node that can stand for `n` -/
inductive AllOf (G : Table) (n : Nat) : Forest → Prop
  | nil : AllOf G n .nil
  | cons {l ks r} : NodeOK G n l ks → AllOf G n r → AllOf G n (.node l ks r)

/-- the forest is a sequence of nodes standing for the nonterminals `ns`, one each -/
inductive NodesOK (G : Table) : List Nat → Forest → Prop
  | nil : NodesOK G [] .nil
  | cons {n ns l ks r} : NodeOK G n l ks → NodesOK G ns r → NodesOK G (n :: ns) (.node l ks r)

def fapp : Forest → Forest → Forest
  | .nil, g => g
  | .leaf t s r, g => .leaf t s (fapp r g)
  | .node l k r, g => .node l k (fapp r g)

theorem fapp_nil (a : Forest) : fapp a .nil = a := by
  induction a with
  | nil => rfl
  | leaf t s r ih => simp [fapp, ih]
  | node l k r _ ih => simp [fapp, ih]

theorem AllOf.append {G : Table} {n : Nat} {a c : Forest} (ha : AllOf G n a) (hc : AllOf G n c) :
    AllOf G n (fapp a c) := by
  induction ha with
  | nil => exact hc
  | cons h _ ih => exact .cons h ih

theorem derives_star_append {G : Table} {n : Nat} {is : List Item} {a r : Forest} (ha : AllOf G n a)
    (hr : Derives G (.star n :: is) r) : Derives G (.star n :: is) (fapp a r) := by
  induction ha with
  | nil => exact hr
  | cons h _ ih =>
    obtain ⟨f, hf, ho, hl, hd⟩ := h
    subst hl
    exact .starTake hf ho hd ih

theorem isKw_kw (k : Nat) : C10.isKwItem (.kw k) = true := rfl
theorem isKw_tok (k : Nat) : C10.isKwItem (.tok k) = false := rfl
theorem isKw_nt (k : Nat) : C10.isKwItem (.nt k) = false := rfl
theorem isKw_star (k : Nat) : C10.isKwItem (.star k) = false := rfl
theorem isKw_opt (k : Nat) : C10.isKwItem (.opt k) = false := rfl

theorem visible_kw (k : Nat) (is : List Item) : C10.visible (.kw k :: is) = C10.visible is := by
  simp [C10.visible, isKw_kw]
theorem visible_tok (k : Nat) (is : List Item) : C10.visible (.tok k :: is) = .tok k :: C10.visible is := by
  simp [C10.visible, isKw_tok]
theorem visible_nt (k : Nat) (is : List Item) : C10.visible (.nt k :: is) = .nt k :: C10.visible is := by
  simp [C10.visible, isKw_nt]
theorem visible_star (k : Nat) (is : List Item) : C10.visible (.star k :: is) = .star k :: C10.visible is := by
  simp [C10.visible, isKw_star]
theorem visible_opt (k : Nat) (is : List Item) : C10.visible (.opt k :: is) = .opt k :: C10.visible is := by
  simp [C10.visible, isKw_opt]

def allKw (is : List Item) : Bool := is.all C10.isKwItem

theorem derives_kws {G : Table} {is : List Item} (h : allKw is = true) : Derives G is .nil := by
  induction is with
  | nil => exact .nil
  | cons i is ih =>
    simp only [allKw, List.all_cons, Bool.and_eq_true] at h
    cases i with
    | kw k => exact .kw (ih h.2)
    | tok k => simp [isKw_tok] at h
    | nt k => simp [isKw_nt] at h
    | star k => simp [isKw_star] at h
    | opt k => simp [isKw_opt] at h

/-- right-hand side of a block production: keywords, possibly an optional variant, `m*`, keywords -/
def blockShape : List Item → Option Nat
  | .kw _ :: is => blockShape is
  | .opt _ :: is => blockShape is
  | .star m :: is => if allKw is then some m else none
  | _ => none

theorem derives_block {G : Table} {is : List Item} {m : Nat} {ks : Forest} (h : blockShape is = some m)
    (hk : AllOf G m ks) : Derives G is ks := by
  induction is with
  | nil => simp [blockShape] at h
  | cons i is ih =>
    cases i with
    | kw k => exact .kw (ih (by simpa [blockShape] using h))
    | opt n => exact .optSkip (ih (by simpa [blockShape] using h))
    | star n =>
      simp only [blockShape] at h
      split at h
      · rename_i hkw
        cases h
        have := derives_star_append (is := is) hk (.starStop (derives_kws hkw))
        rwa [fapp_nil] at this
      · cases h
    | tok t => simp [blockShape] at h
    | nt n => simp [blockShape] at h

theorem derives_nodes {G : Table} {is : List Item} {ns : List Nat} {ks : Forest}
    (h : C10.visible is = ns.map Item.nt) (hk : NodesOK G ns ks) : Derives G is ks := by
  induction is generalizing ns ks with
  | nil =>
    cases ns with
    | nil => cases hk; exact .nil
    | cons n ns => simp [C10.visible] at h
  | cons i is ih =>
    cases i with
    | kw k =>
      rw [visible_kw] at h
      exact .kw (ih h hk)
    | nt n =>
      rw [visible_nt] at h
      cases ns with
      | nil => simp at h
      | cons n' ns =>
        simp only [List.map_cons, List.cons.injEq, Item.nt.injEq] at h
        obtain ⟨rfl, h'⟩ := h
        cases hk with
        | cons h1 h2 =>
          obtain ⟨f, hf, ho, hl, hd⟩ := h1
          subst hl
          exact .nt hf ho hd (ih h' h2)
    | tok t => rw [visible_tok] at h; cases ns <;> simp at h
    | star n => rw [visible_star] at h; cases ns <;> simp at h
    | opt n => rw [visible_opt] at h; cases ns <;> simp at h

/-- `visible items = [tok t] ++ nts`: a token followed by nodes (the `set OPTION string ;` production) -/
theorem derives_tok_nodes {G : Table} {is : List Item} {t : Nat} {s : C10.Text} {ns : List Nat} {ks : Forest}
    (h : C10.visible is = Item.tok t :: ns.map Item.nt) (hk : NodesOK G ns ks) : Derives G is (.leaf t s ks) := by
  induction is with
  | nil => simp [C10.visible] at h
  | cons i is ih =>
    cases i with
    | kw k => rw [visible_kw] at h; exact .kw (ih h)
    | tok t' =>
      rw [visible_tok] at h
      simp only [List.cons.injEq, Item.tok.injEq] at h
      obtain ⟨rfl, h'⟩ := h
      exact .tok (derives_nodes h' hk)
    | nt n => rw [visible_nt] at h; simp at h
    | star n => rw [visible_star] at h; simp at h
    | opt n => rw [visible_opt] at h; simp at h

set_option maxRecDepth 100000

/-! ### Part 2: decidable shape checks on a table, and what they give -/

def nodesShapeOK (G : Table) (ctx l : Nat) (ns : List Nat) : Bool :=
  G.forms.any fun f => G.has f && f.origin == ctx && label f == l && C10.visible f.items == ns.map Item.nt

def tokShapeOK (G : Table) (ctx l t : Nat) (ns : List Nat) : Bool :=
  G.forms.any fun f => G.has f && f.origin == ctx && label f == l && C10.visible f.items == Item.tok t :: ns.map Item.nt

def blockOK (G : Table) (ctx l m : Nat) : Bool :=
  G.forms.any fun f => G.has f && f.origin == ctx && label f == l && blockShape f.items == some m

theorem nodeOK_of_shape {G : Table} {ctx l : Nat} {ns : List Nat} {ks : Forest}
    (h : nodesShapeOK G ctx l ns = true) (hk : NodesOK G ns ks) : NodeOK G ctx l ks := by
  simp only [nodesShapeOK, List.any_eq_true, Bool.and_eq_true, beq_iff_eq] at h
  obtain ⟨f, _, ⟨⟨⟨hf, ho⟩, hl⟩, hv⟩⟩ := h
  exact ⟨f, hf, ho, hl, derives_nodes hv hk⟩

theorem nodeOK_of_tok {G : Table} {ctx l t : Nat} {s : C10.Text} {ns : List Nat} {ks : Forest}
    (h : tokShapeOK G ctx l t ns = true) (hk : NodesOK G ns ks) : NodeOK G ctx l (.leaf t s ks) := by
  simp only [tokShapeOK, List.any_eq_true, Bool.and_eq_true, beq_iff_eq] at h
  obtain ⟨f, _, ⟨⟨⟨hf, ho⟩, hl⟩, hv⟩⟩ := h
  exact ⟨f, hf, ho, hl, derives_tok_nodes hv hk⟩

theorem nodeOK_of_block {G : Table} {ctx l m : Nat} {ks : Forest}
    (h : blockOK G ctx l m = true) (hk : AllOf G m ks) : NodeOK G ctx l ks := by
  simp only [blockOK, List.any_eq_true, Bool.and_eq_true, beq_iff_eq] at h
  obtain ⟨f, _, ⟨⟨⟨hf, ho⟩, hl⟩, hv⟩⟩ := h
  exact ⟨f, hf, ho, hl, derives_block hv hk⟩

/-! ### the generated table -/

abbrev G0 : Table := C10.gen

/-- id of a label / nonterminal name -/
def L (s : String) : Nat := labelId (some (b s))

def strN : Nat := L "string"
def tS : Nat := Grammar.termSTRING
def tO : Nat := Grammar.termOPTION

theorem string_fact : tokShapeOK G0 strN strN tS [] = true := by decide +kernel

theorem intern_append (x y : PForest) : (x ++ y).intern = fapp x.intern y.intern := by
  show (PForest.append x y).intern = _
  induction x with
  | nil => rfl
  | tok o t r ih => simp [PForest.append, PForest.intern, fapp, ih]
  | node l k r _ ih => simp [PForest.append, PForest.intern, fapp, ih]

theorem strKids_nodesOK (args : List Bytes) :
    NodesOK G0 (List.replicate args.length strN) (strKids args).intern := by
  induction args with
  | nil => exact .nil
  | cons a as ih =>
    simp only [strKids, PForest.intern, List.length_cons, List.replicate_succ]
    exact .cons (nodeOK_of_tok string_fact .nil) ih

/-- a statement `Tree(label, k × string)` in context `ctx` -/
def stmtOK (ctx : Nat) (l : Bytes) (k : Nat) : Bool :=
  nodesShapeOK G0 ctx (labelId (some l)) (List.replicate k strN)

theorem stmt_allOf {ctx : Nat} {l : Bytes} {args : List Bytes} (h : stmtOK ctx l args.length = true) :
    AllOf G0 ctx (stmt l args).intern := by
  simp only [stmt, PForest.intern]
  exact .cons (nodeOK_of_shape h (strKids_nodesOK args)) .nil

theorem block_allOf {ctx m : Nat} {l : Option Bytes} {kids : PForest} (h : blockOK G0 ctx (labelId l) m = true)
    (hk : AllOf G0 m kids.intern) : AllOf G0 ctx (block l kids).intern := by
  simp only [block, PForest.intern]
  exact .cons (nodeOK_of_block h hk) .nil


/-! ### Part 3a: block_steps grouping = splitting the program at its BUILD markers -/

def toDOpt : TStep → Option DOpt
  | .en e => some (.bare (lower e.pyName))
  | .arg a v => some (.pair (lower a.pyName) (.bytes v))
  | _ => none

def opts (l : List TStep) : List DOpt := l.filterMap toDOpt

/-- `for d in ds: block_steps[key].append(d)` -/
def appendTo (key : Option Bytes) (ds : List DOpt) (g : List (Option Bytes × List DOpt)) :=
  ds.foldl (fun g d => addGroup key d g) g


theorem reqStep_build (a : ReqAcc) (x : TStep) (h : isBuild x = false) : (reqStep a x).build = a.build := by
  cases x with
  | build s => simp [isBuild] at h
  | en e => rfl
  | arg y v => rfl
  | static s v => cases s <;> rfl

theorem reqStep_groups (a : ReqAcc) (x : TStep) (h : isBuild x = false) :
    (reqStep a x).groups = appendTo a.build (opts [x]) a.groups := by
  cases x with
  | build s => simp [isBuild] at h
  | en e => rfl
  | arg y v => rfl
  | static s v => cases s <;> rfl

theorem opts_cons (x : TStep) (l : List TStep) : opts (x :: l) = opts [x] ++ opts l := by
  simp [opts, List.filterMap_cons]
  cases toDOpt x <;> simp

theorem appendTo_append (key : Option Bytes) (d1 d2 : List DOpt) (g) :
    appendTo key (d1 ++ d2) g = appendTo key d2 (appendTo key d1 g) := by
  simp [appendTo, List.foldl_append]

/-- the settings of one BUILD group as the loop sees them: the part of the program up to the next BUILD -/
def segment (l : List TStep) : List TStep := l.takeWhile (!isBuild ·)

theorem splitBuilds_build (s : Bytes) (rest : List TStep) :
    splitBuilds (.build s :: rest) = (s, (segment rest).filter (!isStatic ·)) :: splitBuilds rest := rfl

theorem opts_static (s : StaticStep) (v : Bytes) (l : List TStep) : opts (.static s v :: l) = opts l := rfl
theorem opts_build (s : Bytes) (l : List TStep) : opts (.build s :: l) = opts l := rfl
theorem opts_en (e : EnStep) (l : List TStep) : opts (.en e :: l) = .bare (lower e.pyName) :: opts l := rfl
theorem opts_arg (a : ArgStep) (v : Bytes) (l : List TStep) :
    opts (.arg a v :: l) = .pair (lower a.pyName) (.bytes v) :: opts l := rfl

theorem opts_filter_static (l : List TStep) : opts (l.filter (!isStatic ·)) = opts l := by
  induction l with
  | nil => rfl
  | cons x l ih =>
    cases x with
    | static s v =>
      have h1 : (!isStatic (TStep.static s v)) = false := rfl
      rw [List.filter_cons, h1]; simpa [opts_static] using ih
    | build s =>
      have h1 : (!isStatic (TStep.build s)) = true := rfl
      rw [List.filter_cons, h1]; simpa [opts_build] using ih
    | en e =>
      have h1 : (!isStatic (TStep.en e)) = true := rfl
      rw [List.filter_cons, h1]; simpa [opts_en] using ih
    | arg y v =>
      have h1 : (!isStatic (TStep.arg y v)) = true := rfl
      rw [List.filter_cons, h1]; simpa [opts_arg] using ih

theorem groups_fold (prog : List TStep) : ∀ a : ReqAcc,
    (prog.foldl reqStep a).groups =
      (splitBuilds prog).foldl (fun g sg => appendTo (some sg.1) (opts sg.2) g)
        (appendTo a.build (opts (segment prog)) a.groups) := by
  induction prog with
  | nil => intro a; simp [splitBuilds, segment, opts, appendTo]
  | cons x rest ih =>
    intro a
    by_cases hb : isBuild x = true
    · cases x with
      | build s =>
        rw [List.foldl_cons, ih]
        simp only [splitBuilds_build, List.foldl_cons, opts_filter_static]
        simp [segment, isBuild, opts, appendTo, reqStep]
      | en e => simp [isBuild] at hb
      | arg y v => simp [isBuild] at hb
      | static s v => simp [isBuild] at hb
    · have hb' : isBuild x = false := by simpa using hb
      rw [List.foldl_cons, ih]
      have hseg : segment (x :: rest) = x :: segment rest := by simp [segment, hb']
      have hsp : splitBuilds (x :: rest) = splitBuilds rest := by
        cases x with
        | build s => simp [isBuild] at hb'
        | en e => rfl
        | arg y v => rfl
        | static s v => rfl
      rw [hseg, hsp, opts_cons x (segment rest), appendTo_append, reqStep_build a x hb', reqStep_groups a x hb']

theorem addGroup_new (key : Option Bytes) (d : DOpt) (g : List (Option Bytes × List DOpt))
    (h : key ∉ g.map (·.1)) : addGroup key d g = g ++ [(key, [d])] := by
  induction g with
  | nil => rfl
  | cons x g ih =>
    simp only [List.map_cons, List.mem_cons, not_or] at h
    simp [addGroup, Ne.symm h.1, ih h.2]

theorem addGroup_last (key : Option Bytes) (d : DOpt) (ds : List DOpt) (g : List (Option Bytes × List DOpt))
    (h : key ∉ g.map (·.1)) : addGroup key d (g ++ [(key, ds)]) = g ++ [(key, ds ++ [d])] := by
  induction g with
  | nil => simp [addGroup]
  | cons x g ih =>
    simp only [List.map_cons, List.mem_cons, not_or] at h
    simp [addGroup, Ne.symm h.1, ih h.2]

theorem appendTo_last (key : Option Bytes) (ds acc : List DOpt) (g : List (Option Bytes × List DOpt))
    (h : key ∉ g.map (·.1)) : appendTo key ds (g ++ [(key, acc)]) = g ++ [(key, acc ++ ds)] := by
  induction ds generalizing acc with
  | nil => simp [appendTo]
  | cons d ds ih =>
    simp only [appendTo, List.foldl_cons] at ih ⊢
    rw [addGroup_last key d acc g h, ih]
    simp

theorem appendTo_new (key : Option Bytes) (ds : List DOpt) (g : List (Option Bytes × List DOpt))
    (h : key ∉ g.map (·.1)) (hne : ds ≠ []) : appendTo key ds g = g ++ [(key, ds)] := by
  cases ds with
  | nil => exact absurd rfl hne
  | cons d ds =>
    simp only [appendTo, List.foldl_cons]
    rw [addGroup_new key d g h]
    exact appendTo_last key ds [d] g h

theorem groups_distinct (sgs : List (Bytes × List TStep)) : ∀ g0 : List (Option Bytes × List DOpt),
    (sgs.map (·.1)).Nodup → (∀ sg ∈ sgs, some sg.1 ∉ g0.map (·.1)) → (∀ sg ∈ sgs, opts sg.2 ≠ []) →
    sgs.foldl (fun g sg => appendTo (some sg.1) (opts sg.2) g) g0 = g0 ++ sgs.map fun sg => (some sg.1, opts sg.2) := by
  induction sgs with
  | nil => intro g0 _ _ _; simp
  | cons sg sgs ih =>
    intro g0 hnd hnot hne
    simp only [List.map_cons, List.nodup_cons] at hnd
    rw [List.foldl_cons, appendTo_new _ _ _ (hnot sg (by simp)) (hne sg (by simp)), ih _ hnd.2]
    · simp
    · intro sg' hsg'
      simp only [List.map_append, List.map_cons, List.map_nil, List.mem_append, List.mem_singleton, not_or]
      refine ⟨hnot sg' (by simp [hsg']), ?_⟩
      intro heq
      have : sg'.1 = sg.1 := by simpa using heq
      exact hnd.1 (this ▸ List.mem_map_of_mem hsg')
    · intro sg' hsg'; exact hne sg' (by simp [hsg'])


end C13

import CsVerif.Model.C13
import CsVerif.Lemmas.C10
import CsVerif.Lemmas.C12
/-! C13 helper lemmas.

Part 1 (generic in the grammar table): a relational notion of "this children list is derivable from this right-hand
side" (`Derives`), shown to give well-formed derivations of the C10 model (`derives_parts`), with the shapes of
productions the profile generator uses (blocks, statements with literals, the `set OPTION` statement). -/
namespace C13
open C10 (Table Forest Parts wfParts label)
open Grammar (Item Form)

/-! ### derivability of a children list (relational; no strategy, no fuel) -/

inductive Derives (G : Table) : List Item → Forest → Prop
  | nil : Derives G [] .nil
  | kw {k is ks} : Derives G is ks → Derives G (.kw k :: is) ks
  | tok {t s is r} : Derives G is r → Derives G (.tok t :: is) (.leaf t s r)
  | nt {f : Form} {n is ks r} : G.has f = true → f.origin = n → Derives G f.items ks → Derives G is r →
      Derives G (.nt n :: is) (.node (label f) ks r)
  | starTake {f : Form} {n is ks r} : G.has f = true → f.origin = n → Derives G f.items ks →
      Derives G (.star n :: is) r → Derives G (.star n :: is) (.node (label f) ks r)
  | starStop {n is ks} : Derives G is ks → Derives G (.star n :: is) ks
  | optSkip {n is ks} : Derives G is ks → Derives G (.opt n :: is) ks

theorem derives_parts {G : Table} {is : List Item} {ks : Forest} (h : Derives G is ks) :
    ∃ p : Parts, wfParts G is p = true ∧ p.kids = ks := by
  induction h with
  | nil => exact ⟨.done, by simp [wfParts], rfl⟩
  | @kw k is ks _ ih =>
    obtain ⟨p, hp, hk⟩ := ih
    exact ⟨.kw k p, by simp [wfParts, hp], by simp [Parts.kids, hk]⟩
  | @tok t s is r _ ih =>
    obtain ⟨p, hp, hk⟩ := ih
    exact ⟨.tok t s p, by simp [wfParts, hp], by simp [Parts.kids, hk]⟩
  | @nt f n is ks r hf ho _ _ ih1 ih2 =>
    obtain ⟨p1, hp1, hk1⟩ := ih1
    obtain ⟨p2, hp2, hk2⟩ := ih2
    exact ⟨.sub f p1 p2, by simp [wfParts, hf, ho, hp1, hp2], by simp [Parts.kids, hk1, hk2]⟩
  | @starTake f n is ks r hf ho _ _ ih1 ih2 =>
    obtain ⟨p1, hp1, hk1⟩ := ih1
    obtain ⟨p2, hp2, hk2⟩ := ih2
    exact ⟨.sub f p1 p2, by simp [wfParts, hf, ho, hp1, hp2], by simp [Parts.kids, hk1, hk2]⟩
  | @starStop n is ks _ ih =>
    obtain ⟨p, hp, hk⟩ := ih
    exact ⟨.stop p, by simp [wfParts, hp], by simp [Parts.kids, hk]⟩
  | @optSkip n is ks _ ih =>
    obtain ⟨p, hp, hk⟩ := ih
    exact ⟨.stop p, by simp [wfParts, hp], by simp [Parts.kids, hk]⟩

/-- the tree is the tree of some derivation of the grammar -/
def ValidTree (G : Table) (t : C10.Tree) : Prop :=
  ∃ f : Form, G.has f = true ∧ label f = t.label ∧ Derives G f.items t.kids

theorem valid_deriv {G : Table} {t : C10.Tree} (h : ValidTree G t) :
    ∃ d : C10.Deriv, d.WF G = true ∧ C10.toTree d = t := by
  obtain ⟨f, hf, hl, hd⟩ := h
  obtain ⟨p, hp, hk⟩ := derives_parts hd
  refine ⟨⟨f, p⟩, by simp [C10.Deriv.WF, hf, hp], ?_⟩
  cases t
  simp only [C10.toTree] at *
  simp_all


/-! ### nodes, lists of nodes, repetition -/

/-- a node `(l, ks)` can stand where nonterminal `n` is expected -/
def NodeOK (G : Table) (n l : Nat) (ks : Forest) : Prop :=
  ∃ f : Form, G.has f = true ∧ f.origin = n ∧ label f = l ∧ Derives G f.items ks

/-- every top-level element of the forest is a node that can stand for `n` -/
inductive AllOf (G : Table) (n : Nat) : Forest → Prop
  | nil : AllOf G n .nil
  | cons {l ks r} : NodeOK G n l ks → AllOf G n r → AllOf G n (.node l ks r)

/-- the forest is a sequence of nodes standing for the nonterminals `ns`, one each -/
inductive NodesOK (G : Table) : List Nat → Forest → Prop
  | nil : NodesOK G [] .nil
  | cons {n ns l ks r} : NodeOK G n l ks → NodesOK G ns r → NodesOK G (n :: ns) (.node l ks r)

def fapp : Forest → Forest → Forest
  | .nil, g => g
  | .leaf t s r, g => .leaf t s (fapp r g)
  | .node l k r, g => .node l k (fapp r g)

theorem fapp_nil (a : Forest) : fapp a .nil = a := by
  induction a with
  | nil => rfl
  | leaf t s r ih => simp [fapp, ih]
  | node l k r _ ih => simp [fapp, ih]

theorem AllOf.append {G : Table} {n : Nat} {a c : Forest} (ha : AllOf G n a) (hc : AllOf G n c) :
    AllOf G n (fapp a c) := by
  induction ha with
  | nil => exact hc
  | cons h _ ih => exact .cons h ih

theorem derives_star_append {G : Table} {n : Nat} {is : List Item} {a r : Forest} (ha : AllOf G n a)
    (hr : Derives G (.star n :: is) r) : Derives G (.star n :: is) (fapp a r) := by
  induction ha with
  | nil => exact hr
  | cons h _ ih =>
    obtain ⟨f, hf, ho, hl, hd⟩ := h
    subst hl
    exact .starTake hf ho hd ih

theorem isKw_kw (k : Nat) : C10.isKwItem (.kw k) = true := rfl
theorem isKw_tok (k : Nat) : C10.isKwItem (.tok k) = false := rfl
theorem isKw_nt (k : Nat) : C10.isKwItem (.nt k) = false := rfl
theorem isKw_star (k : Nat) : C10.isKwItem (.star k) = false := rfl
theorem isKw_opt (k : Nat) : C10.isKwItem (.opt k) = false := rfl

theorem visible_kw (k : Nat) (is : List Item) : C10.visible (.kw k :: is) = C10.visible is := by
  simp [C10.visible, isKw_kw]
theorem visible_tok (k : Nat) (is : List Item) : C10.visible (.tok k :: is) = .tok k :: C10.visible is := by
  simp [C10.visible, isKw_tok]
theorem visible_nt (k : Nat) (is : List Item) : C10.visible (.nt k :: is) = .nt k :: C10.visible is := by
  simp [C10.visible, isKw_nt]
theorem visible_star (k : Nat) (is : List Item) : C10.visible (.star k :: is) = .star k :: C10.visible is := by
  simp [C10.visible, isKw_star]
theorem visible_opt (k : Nat) (is : List Item) : C10.visible (.opt k :: is) = .opt k :: C10.visible is := by
  simp [C10.visible, isKw_opt]

def allKw (is : List Item) : Bool := is.all C10.isKwItem

theorem derives_kws {G : Table} {is : List Item} (h : allKw is = true) : Derives G is .nil := by
  induction is with
  | nil => exact .nil
  | cons i is ih =>
    simp only [allKw, List.all_cons, Bool.and_eq_true] at h
    cases i with
    | kw k => exact .kw (ih h.2)
    | tok k => simp [isKw_tok] at h
    | nt k => simp [isKw_nt] at h
    | star k => simp [isKw_star] at h
    | opt k => simp [isKw_opt] at h

/-- right-hand side of a block production: keywords, possibly an optional variant, `m*`, keywords -/
def blockShape : List Item → Option Nat
  | .kw _ :: is => blockShape is
  | .opt _ :: is => blockShape is
  | .star m :: is => if allKw is then some m else none
  | _ => none

theorem derives_block {G : Table} {is : List Item} {m : Nat} {ks : Forest} (h : blockShape is = some m)
    (hk : AllOf G m ks) : Derives G is ks := by
  induction is with
  | nil => simp [blockShape] at h
  | cons i is ih =>
    cases i with
    | kw k => exact .kw (ih (by simpa [blockShape] using h))
    | opt n => exact .optSkip (ih (by simpa [blockShape] using h))
    | star n =>
      simp only [blockShape] at h
      split at h
      · rename_i hkw
        cases h
        have := derives_star_append (is := is) hk (.starStop (derives_kws hkw))
        rwa [fapp_nil] at this
      · cases h
    | tok t => simp [blockShape] at h
    | nt n => simp [blockShape] at h

theorem derives_nodes {G : Table} {is : List Item} {ns : List Nat} {ks : Forest}
    (h : C10.visible is = ns.map Item.nt) (hk : NodesOK G ns ks) : Derives G is ks := by
  induction is generalizing ns ks with
  | nil =>
    cases ns with
    | nil => cases hk; exact .nil
    | cons n ns => simp [C10.visible] at h
  | cons i is ih =>
    cases i with
    | kw k =>
      rw [visible_kw] at h
      exact .kw (ih h hk)
    | nt n =>
      rw [visible_nt] at h
      cases ns with
      | nil => simp at h
      | cons n' ns =>
        simp only [List.map_cons, List.cons.injEq, Item.nt.injEq] at h
        obtain ⟨rfl, h'⟩ := h
        cases hk with
        | cons h1 h2 =>
          obtain ⟨f, hf, ho, hl, hd⟩ := h1
          subst hl
          exact .nt hf ho hd (ih h' h2)
    | tok t => rw [visible_tok] at h; cases ns <;> simp at h
    | star n => rw [visible_star] at h; cases ns <;> simp at h
    | opt n => rw [visible_opt] at h; cases ns <;> simp at h

/-- `visible items = [tok t] ++ nts`: a token followed by nodes (the `set OPTION string ;` production) -/
theorem derives_tok_nodes {G : Table} {is : List Item} {t : Nat} {s : C10.Text} {ns : List Nat} {ks : Forest}
    (h : C10.visible is = Item.tok t :: ns.map Item.nt) (hk : NodesOK G ns ks) : Derives G is (.leaf t s ks) := by
  induction is with
  | nil => simp [C10.visible] at h
  | cons i is ih =>
    cases i with
    | kw k => rw [visible_kw] at h; exact .kw (ih h)
    | tok t' =>
      rw [visible_tok] at h
      simp only [List.cons.injEq, Item.tok.injEq] at h
      obtain ⟨rfl, h'⟩ := h
      exact .tok (derives_nodes h' hk)
    | nt n => rw [visible_nt] at h; simp at h
    | star n => rw [visible_star] at h; simp at h
    | opt n => rw [visible_opt] at h; simp at h

set_option maxRecDepth 100000

/-! ### Part 2: decidable shape checks on a table, and what they give -/

def nodesShapeOK (G : Table) (ctx l : Nat) (ns : List Nat) : Bool :=
  G.forms.any fun f => f.origin == ctx && label f == l && C10.visible f.items == ns.map Item.nt

def tokShapeOK (G : Table) (ctx l t : Nat) (ns : List Nat) : Bool :=
  G.forms.any fun f => f.origin == ctx && label f == l && C10.visible f.items == Item.tok t :: ns.map Item.nt

def blockOK (G : Table) (ctx l m : Nat) : Bool :=
  G.forms.any fun f => f.origin == ctx && label f == l && blockShape f.items == some m

theorem nodeOK_of_shape {G : Table} (hi : C10.IdsOK G = true) {ctx l : Nat} {ns : List Nat} {ks : Forest}
    (h : nodesShapeOK G ctx l ns = true) (hk : NodesOK G ns ks) : NodeOK G ctx l ks := by
  simp only [nodesShapeOK, List.any_eq_true, Bool.and_eq_true, beq_iff_eq] at h
  obtain ⟨f, hm, ⟨⟨ho, hl⟩, hv⟩⟩ := h
  exact ⟨f, C10.idsOK_has G hi hm, ho, hl, derives_nodes hv hk⟩

theorem nodeOK_of_tok {G : Table} (hi : C10.IdsOK G = true) {ctx l t : Nat} {s : C10.Text} {ns : List Nat} {ks : Forest}
    (h : tokShapeOK G ctx l t ns = true) (hk : NodesOK G ns ks) : NodeOK G ctx l (.leaf t s ks) := by
  simp only [tokShapeOK, List.any_eq_true, Bool.and_eq_true, beq_iff_eq] at h
  obtain ⟨f, hm, ⟨⟨ho, hl⟩, hv⟩⟩ := h
  exact ⟨f, C10.idsOK_has G hi hm, ho, hl, derives_tok_nodes hv hk⟩

theorem nodeOK_of_block {G : Table} (hi : C10.IdsOK G = true) {ctx l m : Nat} {ks : Forest}
    (h : blockOK G ctx l m = true) (hk : AllOf G m ks) : NodeOK G ctx l ks := by
  simp only [blockOK, List.any_eq_true, Bool.and_eq_true, beq_iff_eq] at h
  obtain ⟨f, hm, ⟨⟨ho, hl⟩, hv⟩⟩ := h
  exact ⟨f, C10.idsOK_has G hi hm, ho, hl, derives_block hv hk⟩

/-! ### the generated table -/

abbrev G0 : Table := C10.gen

/-- `forms[i].id = i` for the generated table (also `C10.gen_idsOK`) -/
theorem ids_G0 : C10.IdsOK G0 = true := by decide +kernel

/-- id of a label / nonterminal name -/
def L (s : String) : Nat := labelId (some (b s))

def strN : Nat := L "string"
def tS : Nat := Grammar.termSTRING
def tO : Nat := Grammar.termOPTION

theorem string_fact : tokShapeOK G0 strN strN tS [] = true := by decide +kernel

theorem intern_append (x y : PForest) : (x ++ y).intern = fapp x.intern y.intern := by
  show (PForest.append x y).intern = _
  induction x with
  | nil => rfl
  | tok o t r ih => simp [PForest.append, PForest.intern, fapp, ih]
  | node l k r _ ih => simp [PForest.append, PForest.intern, fapp, ih]

theorem strKids_nodesOK (args : List Bytes) :
    NodesOK G0 (List.replicate args.length strN) (strKids args).intern := by
  induction args with
  | nil => exact .nil
  | cons a as ih =>
    simp only [strKids, PForest.intern, List.length_cons, List.replicate_succ]
    exact .cons (nodeOK_of_tok ids_G0 string_fact .nil) ih

/-- a statement `Tree(label, k × string)` in context `ctx` -/
def stmtOK (ctx : Nat) (l : Bytes) (k : Nat) : Bool :=
  nodesShapeOK G0 ctx (labelId (some l)) (List.replicate k strN)

theorem stmt_allOf {ctx : Nat} {l : Bytes} {args : List Bytes} (h : stmtOK ctx l args.length = true) :
    AllOf G0 ctx (stmt l args).intern := by
  simp only [stmt, PForest.intern]
  exact .cons (nodeOK_of_shape ids_G0 h (strKids_nodesOK args)) .nil

theorem block_allOf {ctx m : Nat} {l : Option Bytes} {kids : PForest} (h : blockOK G0 ctx (labelId l) m = true)
    (hk : AllOf G0 m kids.intern) : AllOf G0 ctx (block l kids).intern := by
  simp only [block, PForest.intern]
  exact .cons (nodeOK_of_block ids_G0 h hk) .nil


/-! ### Part 3a: block_steps grouping = splitting the program at its BUILD markers -/

def toDOpt : TStep → Option DOpt
  | .en e => some (.bare (lower e.pyName))
  | .arg a v => some (.pair (lower a.pyName) (.bytes v))
  | _ => none

def opts (l : List TStep) : List DOpt := l.filterMap toDOpt

/-- `for d in ds: block_steps[key].append(d)` -/
def appendTo (key : Option Bytes) (ds : List DOpt) (g : List (Option Bytes × List DOpt)) :=
  ds.foldl (fun g d => addGroup key d g) g


theorem reqStep_build (a : ReqAcc) (x : TStep) (h : isBuild x = false) : (reqStep a x).build = a.build := by
  cases x with
  | build s => simp [isBuild] at h
  | en e => rfl
  | arg y v => rfl
  | static s v => cases s <;> rfl

theorem reqStep_groups (a : ReqAcc) (x : TStep) (h : isBuild x = false) :
    (reqStep a x).groups = appendTo a.build (opts [x]) a.groups := by
  cases x with
  | build s => simp [isBuild] at h
  | en e => rfl
  | arg y v => rfl
  | static s v => cases s <;> rfl

theorem opts_cons (x : TStep) (l : List TStep) : opts (x :: l) = opts [x] ++ opts l := by
  simp [opts, List.filterMap_cons]
  cases toDOpt x <;> simp

theorem appendTo_append (key : Option Bytes) (d1 d2 : List DOpt) (g) :
    appendTo key (d1 ++ d2) g = appendTo key d2 (appendTo key d1 g) := by
  simp [appendTo, List.foldl_append]

/-- the settings of one BUILD group as the loop sees them: the part of the program up to the next BUILD -/
def segment (l : List TStep) : List TStep := l.takeWhile (!isBuild ·)

theorem splitBuilds_build (s : Bytes) (rest : List TStep) :
    splitBuilds (.build s :: rest) = (s, (segment rest).filter (!isStatic ·)) :: splitBuilds rest := rfl

theorem opts_static (s : StaticStep) (v : Bytes) (l : List TStep) : opts (.static s v :: l) = opts l := rfl
theorem opts_build (s : Bytes) (l : List TStep) : opts (.build s :: l) = opts l := rfl
theorem opts_en (e : EnStep) (l : List TStep) : opts (.en e :: l) = .bare (lower e.pyName) :: opts l := rfl
theorem opts_arg (a : ArgStep) (v : Bytes) (l : List TStep) :
    opts (.arg a v :: l) = .pair (lower a.pyName) (.bytes v) :: opts l := rfl

theorem opts_filter_static (l : List TStep) : opts (l.filter (!isStatic ·)) = opts l := by
  induction l with
  | nil => rfl
  | cons x l ih =>
    cases x with
    | static s v =>
      have h1 : (!isStatic (TStep.static s v)) = false := rfl
      rw [List.filter_cons, h1]; simpa [opts_static] using ih
    | build s =>
      have h1 : (!isStatic (TStep.build s)) = true := rfl
      rw [List.filter_cons, h1]; simpa [opts_build] using ih
    | en e =>
      have h1 : (!isStatic (TStep.en e)) = true := rfl
      rw [List.filter_cons, h1]; simpa [opts_en] using ih
    | arg y v =>
      have h1 : (!isStatic (TStep.arg y v)) = true := rfl
      rw [List.filter_cons, h1]; simpa [opts_arg] using ih

theorem groups_fold (prog : List TStep) : ∀ a : ReqAcc,
    (prog.foldl reqStep a).groups =
      (splitBuilds prog).foldl (fun g sg => appendTo (some sg.1) (opts sg.2) g)
        (appendTo a.build (opts (segment prog)) a.groups) := by
  induction prog with
  | nil => intro a; simp [splitBuilds, segment, opts, appendTo]
  | cons x rest ih =>
    intro a
    by_cases hb : isBuild x = true
    · cases x with
      | build s =>
        rw [List.foldl_cons, ih]
        simp only [splitBuilds_build, List.foldl_cons, opts_filter_static]
        simp [segment, isBuild, opts, appendTo, reqStep]
      | en e => simp [isBuild] at hb
      | arg y v => simp [isBuild] at hb
      | static s v => simp [isBuild] at hb
    · have hb' : isBuild x = false := by simpa using hb
      rw [List.foldl_cons, ih]
      have hseg : segment (x :: rest) = x :: segment rest := by simp [segment, hb']
      have hsp : splitBuilds (x :: rest) = splitBuilds rest := by
        cases x with
        | build s => simp [isBuild] at hb'
        | en e => rfl
        | arg y v => rfl
        | static s v => rfl
      rw [hseg, hsp, opts_cons x (segment rest), appendTo_append, reqStep_build a x hb', reqStep_groups a x hb']

theorem addGroup_new (key : Option Bytes) (d : DOpt) (g : List (Option Bytes × List DOpt))
    (h : key ∉ g.map (·.1)) : addGroup key d g = g ++ [(key, [d])] := by
  induction g with
  | nil => rfl
  | cons x g ih =>
    simp only [List.map_cons, List.mem_cons, not_or] at h
    simp [addGroup, Ne.symm h.1, ih h.2]

theorem addGroup_last (key : Option Bytes) (d : DOpt) (ds : List DOpt) (g : List (Option Bytes × List DOpt))
    (h : key ∉ g.map (·.1)) : addGroup key d (g ++ [(key, ds)]) = g ++ [(key, ds ++ [d])] := by
  induction g with
  | nil => simp [addGroup]
  | cons x g ih =>
    simp only [List.map_cons, List.mem_cons, not_or] at h
    simp [addGroup, Ne.symm h.1, ih h.2]

theorem appendTo_last (key : Option Bytes) (ds acc : List DOpt) (g : List (Option Bytes × List DOpt))
    (h : key ∉ g.map (·.1)) : appendTo key ds (g ++ [(key, acc)]) = g ++ [(key, acc ++ ds)] := by
  induction ds generalizing acc with
  | nil => simp [appendTo]
  | cons d ds ih =>
    simp only [appendTo, List.foldl_cons] at ih ⊢
    rw [addGroup_last key d acc g h, ih]
    simp

theorem appendTo_new (key : Option Bytes) (ds : List DOpt) (g : List (Option Bytes × List DOpt))
    (h : key ∉ g.map (·.1)) (hne : ds ≠ []) : appendTo key ds g = g ++ [(key, ds)] := by
  cases ds with
  | nil => exact absurd rfl hne
  | cons d ds =>
    simp only [appendTo, List.foldl_cons]
    rw [addGroup_new key d g h]
    exact appendTo_last key ds [d] g h

theorem groups_distinct (sgs : List (Bytes × List TStep)) : ∀ g0 : List (Option Bytes × List DOpt),
    (sgs.map (·.1)).Nodup → (∀ sg ∈ sgs, some sg.1 ∉ g0.map (·.1)) → (∀ sg ∈ sgs, opts sg.2 ≠ []) →
    sgs.foldl (fun g sg => appendTo (some sg.1) (opts sg.2) g) g0 = g0 ++ sgs.map fun sg => (some sg.1, opts sg.2) := by
  induction sgs with
  | nil => intro g0 _ _ _; simp
  | cons sg sgs ih =>
    intro g0 hnd hnot hne
    simp only [List.map_cons, List.nodup_cons] at hnd
    rw [List.foldl_cons, appendTo_new _ _ _ (hnot sg (by simp)) (hne sg (by simp)), ih _ hnd.2]
    · simp
    · intro sg' hsg'
      simp only [List.map_append, List.map_cons, List.map_nil, List.mem_append, List.mem_singleton, not_or]
      refine ⟨hnot sg' (by simp [hsg']), ?_⟩
      intro heq
      have : sg'.1 = sg.1 := by simpa using heq
      exact hnd.1 (this ▸ List.mem_map_of_mem hsg')
    · intro sg' hsg'; exact hne sg' (by simp [hsg'])


/-! ### Part 3b: DataTransformBlock -/

def dtN : Nat := L "data_transform"
def stepsN : Nat := L "steps"
def termN : Nat := L "termination"
def tsN : Nat := L "transform_statement"
def tstN : Nat := L "termination_statement"

theorem dt_fact : nodesShapeOK G0 dtN dtN [stepsN, termN] = true := by decide +kernel
theorem steps_fact : blockOK G0 stepsN stepsN tsN = true := by decide +kernel
theorem term_fact : nodesShapeOK G0 termN termN [tstN] = true := by decide +kernel

theorem PForest.nil_append (x : PForest) : (PForest.nil ++ x) = x := rfl
theorem PForest.append_nil (x : PForest) : (x ++ PForest.nil) = x := by
  show PForest.append x .nil = x
  induction x with
  | nil => rfl
  | tok o t r ih => simp [PForest.append, ih]
  | node l k r _ ih => simp [PForest.append, ih]

theorem PForest.append_assoc (x y z : PForest) : (x ++ y) ++ z = x ++ (y ++ z) := by
  show PForest.append (PForest.append x y) z = PForest.append x (PForest.append y z)
  induction x with
  | nil => rfl
  | tok o t r ih => simp [PForest.append, ih]
  | node l k r _ ih => simp [PForest.append, ih]

theorem flatten_cons (f : PForest) (fs : List PForest) : PForest.flatten (f :: fs) = f ++ PForest.flatten fs := rfl

theorem flatten_append (xs ys : List PForest) :
    PForest.flatten (xs ++ ys) = PForest.flatten xs ++ PForest.flatten ys := by
  induction xs with
  | nil => rfl
  | cons x xs ih => simp [flatten_cons, ih, PForest.append_assoc]

theorem flatten_allOf {ctx : Nat} (fs : List PForest) (h : ∀ f ∈ fs, AllOf G0 ctx f.intern) :
    AllOf G0 ctx (PForest.flatten fs).intern := by
  induction fs with
  | nil => exact .nil
  | cons f fs ih =>
    rw [flatten_cons, intern_append]
    exact (h f (by simp)).append (ih fun g hg => h g (by simp [hg]))

/-- the option goes to `steps` as a valid transform statement -/
def StepCls (o : DOpt) : Prop := (dtClassify o).2 = .nil ∧ AllOf G0 tsN (dtClassify o).1.intern

/-- the option goes to `termination` as a valid termination statement -/
def TermCls (o : DOpt) : Prop :=
  (dtClassify o).1 = .nil ∧ ∃ l args, (dtClassify o).2 = stmt l args ∧ stmtOK tstN l args.length = true

theorem dtSteps_cons (o : DOpt) (ds : List DOpt) : dtSteps (o :: ds) = (dtClassify o).1 ++ dtSteps ds := rfl
theorem dtTerms_cons (o : DOpt) (ds : List DOpt) : dtTerms (o :: ds) = (dtClassify o).2 ++ dtTerms ds := rfl

theorem dtSteps_allOf (ds : List DOpt) (h : ∀ o ∈ ds, StepCls o ∨ TermCls o) : AllOf G0 tsN (dtSteps ds).intern := by
  induction ds with
  | nil => exact .nil
  | cons o ds ih =>
    rw [dtSteps_cons, intern_append]
    refine AllOf.append ?_ (ih fun o' ho' => h o' (by simp [ho']))
    rcases h o (by simp) with hs | ht
    · exact hs.2
    · rw [ht.1]; exact .nil

theorem dtTerms_steps (ds : List DOpt) (h : ∀ o ∈ ds, StepCls o) : dtTerms ds = .nil := by
  induction ds with
  | nil => rfl
  | cons o ds ih =>
    rw [dtTerms_cons, (h o (by simp)).1, ih fun o' ho' => h o' (by simp [ho'])]
    rfl

theorem dtTerms_split (pre post : List DOpt) (t : DOpt) (hpre : ∀ o ∈ pre, StepCls o) (hpost : ∀ o ∈ post, StepCls o) :
    dtTerms (pre ++ t :: post) = (dtClassify t).2 := by
  induction pre with
  | nil =>
    simp only [List.nil_append, dtTerms_cons, dtTerms_steps post hpost, PForest.append_nil]
  | cons o pre ih =>
    simp only [List.cons_append, dtTerms_cons, (hpre o (by simp)).1, PForest.nil_append]
    exact ih fun o' ho' => hpre o' (by simp [ho'])

/-- `DataTransformBlock(steps)` is a valid `data_transform` -/
def DtOK (ds : List DOpt) : Prop := AllOf G0 dtN (dtKids ds).intern

theorem dt_ok (pre post : List DOpt) (t : DOpt) (hpre : ∀ o ∈ pre, StepCls o) (ht : TermCls t)
    (hpost : ∀ o ∈ post, StepCls o) : DtOK (pre ++ t :: post) := by
  have hS : AllOf G0 tsN (dtSteps (pre ++ t :: post)).intern := by
    apply dtSteps_allOf
    intro o ho
    simp only [List.mem_append, List.mem_cons] at ho
    rcases ho with h | rfl | h
    · exact .inl (hpre o h)
    · exact .inr ht
    · exact .inl (hpost o h)
  obtain ⟨_, l, args, hT, hok⟩ := ht
  unfold DtOK dtKids
  rw [dtTerms_split pre post t hpre hpost, hT]
  simp only [PForest.intern, stmt]
  refine .cons (nodeOK_of_shape ids_G0 dt_fact (.cons (nodeOK_of_block ids_G0 steps_fact hS) (.cons ?_ .nil))) .nil
  exact nodeOK_of_shape ids_G0 term_fact (.cons (nodeOK_of_shape ids_G0 hok (strKids_nodesOK args)) .nil)

/-! classification of the options the two program types produce -/

/-- classification of a `str` option by name: (is a termination, label) -/
def bareCls (n : Bytes) : Option (Bool × Bytes) :=
  if dtFlagSteps.contains n then some (false, n)
  else if dtTermOptions.contains n then some (true, dashToUnderscore n) else none

theorem dtClassify_bare {n l : Bytes} {t : Bool} (h : bareCls n = some (t, l)) :
    dtClassify (.bare n) = if t then (.nil, stmt l []) else (stmt l [], .nil) := by
  unfold bareCls at h
  unfold dtClassify
  split at h
  · rename_i h1; cases h; simp only [h1, ↓reduceIte, Bool.false_eq_true]
  · rename_i h1
    split at h
    · rename_i h2; cases h; simp only [h1, h2, ↓reduceIte, Bool.false_eq_true]
    · cases h

def bareCheck (n : Bytes) (term : Bool) : Bool :=
  match bareCls n with
  | some (t, l) => t == term && stmtOK (if term then tstN else tsN) l 0
  | none => false

theorem bare_cls {n : Bytes} {term : Bool} (h : bareCheck n term = true) :
    (term = true → TermCls (.bare n)) ∧ (term = false → StepCls (.bare n)) := by
  unfold bareCheck at h
  split at h
  · rename_i t l hc
    simp only [Bool.and_eq_true, beq_iff_eq] at h
    obtain ⟨rfl, hok⟩ := h
    have := dtClassify_bare hc
    constructor
    · intro ht; subst ht
      simp only [if_true] at this hok
      exact ⟨by rw [this], l, [], by rw [this], hok⟩
    · intro ht; subst ht
      simp only [Bool.false_eq_true, if_false] at this hok
      exact ⟨by rw [this], by rw [this]; exact stmt_allOf (args := []) hok⟩
  · cases h

def pairCheck (n : Bytes) (term : Bool) : Bool :=
  dtArgTerms.contains n == term && stmtOK (if term then tstN else tsN) n 1

theorem pair_cls {n : Bytes} {term : Bool} (v : DArg) (h : pairCheck n term = true) :
    (term = true → TermCls (.pair n v)) ∧ (term = false → StepCls (.pair n v)) := by
  simp only [pairCheck, Bool.and_eq_true, beq_iff_eq] at h
  obtain ⟨hc, hok⟩ := h
  constructor
  · intro ht; subst ht
    simp only [if_true] at hok
    have : dtClassify (.pair n v) = (.nil, stmt n [v.vts]) := by simp only [dtClassify, hc, ↓reduceIte]
    exact ⟨by rw [this], n, [v.vts], by rw [this], hok⟩
  · intro ht; subst ht
    simp only [Bool.false_eq_true, if_false] at hok
    have : dtClassify (.pair n v) = (stmt n [v.vts], .nil) := by
      simp only [dtClassify, hc, Bool.false_eq_true, ↓reduceIte]
    exact ⟨by rw [this], by rw [this]; exact stmt_allOf (args := [v.vts]) hok⟩

theorem en_check (e : EnStep) : bareCheck (lower e.pyName) e.isTerm = true := by
  cases e <;> decide +kernel

theorem arg_check (a : ArgStep) : pairCheck (lower a.pyName) a.isTerm = true := by
  cases a <;> decide +kernel

theorem cls_toDOpt {t : TStep} {d : DOpt} (h : toDOpt t = some d) :
    (t.isTerm = true → TermCls d) ∧ (t.isTerm = false → StepCls d) := by
  cases t with
  | build s => cases h
  | static s v => cases h
  | en e => cases h; exact bare_cls (en_check e)
  | arg a v => cases h; exact pair_cls _ (arg_check a)

theorem cls_recover (r : RStep) :
    (r.isTerm = true → TermCls (recoverOpt r)) ∧ (r.isTerm = false → StepCls (recoverOpt r)) := by
  cases r with
  | append n => exact pair_cls _ (by decide +kernel : pairCheck (b "append") false = true)
  | prepend n => exact pair_cls _ (by decide +kernel : pairCheck (b "prepend") false = true)
  | base64 => exact bare_cls (by decide +kernel : bareCheck (b "base64") false = true)
  | print => exact bare_cls (by decide +kernel : bareCheck (b "print") true = true)
  | netbios => exact bare_cls (by decide +kernel : bareCheck (b "netbios") false = true)
  | netbiosu => exact bare_cls (by decide +kernel : bareCheck (b "netbiosu") false = true)
  | base64url => exact bare_cls (by decide +kernel : bareCheck (b "base64url") false = true)
  | mask => exact bare_cls (by decide +kernel : bareCheck (b "mask") false = true)


/-! ### Part 3c: well-formed groups / recover programs give valid data transforms -/

theorem opts_append (x y : List TStep) : opts (x ++ y) = opts x ++ opts y := by
  simp [opts, List.filterMap_append]

theorem opts_stepCls (l : List TStep) (h : ∀ x ∈ l, x.isTerm = false) : ∀ o ∈ opts l, StepCls o := by
  intro o ho
  simp only [opts, List.mem_filterMap] at ho
  obtain ⟨x, hx, hd⟩ := ho
  exact (cls_toDOpt hd).2 (h x hx)

theorem term_toDOpt {t : TStep} (h : t.isTerm = true) : ∃ d, toDOpt t = some d := by
  cases t with
  | build s => simp [TStep.isTerm] at h
  | static s v => simp [TStep.isTerm] at h
  | en e => exact ⟨_, rfl⟩
  | arg a v => exact ⟨_, rfl⟩

theorem wfGroup_split {g : List TStep} (h : wfGroup g = true) :
    ∃ pre t, g = pre ++ [t] ∧ t.isTerm = true ∧ ∀ x ∈ pre, x.isTerm = false := by
  unfold wfGroup at h
  split at h
  · rename_i t rest hr
    simp only [Bool.and_eq_true, List.all_eq_true, Bool.not_eq_eq_eq_not, Bool.not_true] at h
    refine ⟨rest.reverse, t, ?_, h.1, fun x hx => h.2 x (by simpa using hx)⟩
    have := congrArg List.reverse hr
    simpa using this
  · cases h

theorem dt_ok_group {g : List TStep} (h : wfGroup g = true) : DtOK (opts g) ∧ opts g ≠ [] := by
  obtain ⟨pre, t, rfl, ht, hpre⟩ := wfGroup_split h
  obtain ⟨d, hd⟩ := term_toDOpt ht
  have ho : opts (pre ++ [t]) = opts pre ++ d :: [] := by
    rw [opts_append]; simp [opts, hd]
  rw [ho]
  exact ⟨dt_ok (opts pre) [] d (opts_stepCls pre hpre) ((cls_toDOpt hd).1 ht) (by simp), by simp⟩

theorem filter_one_split {α} (p : α → Bool) : ∀ l : List α, (l.filter p).length = 1 →
    ∃ pre x post, l = pre ++ x :: post ∧ p x = true ∧ (∀ y ∈ pre, p y = false) ∧ (∀ y ∈ post, p y = false) := by
  intro l
  induction l with
  | nil => intro h; simp at h
  | cons a l ih =>
    intro h
    by_cases ha : p a = true
    · refine ⟨[], a, l, rfl, ha, by simp, ?_⟩
      simp only [List.filter_cons, ha, if_true, List.length_cons, Nat.add_eq_right, List.length_eq_zero_iff] at h
      intro y hy
      have : y ∉ l.filter p := by rw [h]; simp
      simpa [List.mem_filter, hy] using this
    · have ha' : p a = false := by simpa using ha
      simp only [List.filter_cons, ha', Bool.false_eq_true, if_false] at h
      obtain ⟨pre, x, post, rfl, hx, hpre, hpost⟩ := ih h
      exact ⟨a :: pre, x, post, rfl, hx, by simpa [ha'] using hpre, hpost⟩

theorem dt_ok_recover {l : List RStep} (h : (l.filter (·.isTerm)).length = 1) : DtOK (l.map recoverOpt) := by
  obtain ⟨pre, x, post, rfl, hx, hpre, hpost⟩ := filter_one_split _ l h
  rw [List.map_append, List.map_cons]
  refine dt_ok _ _ _ ?_ ((cls_recover x).1 hx) ?_
  · intro o ho
    obtain ⟨r, hr, rfl⟩ := List.mem_map.mp ho
    exact (cls_recover r).2 (hpre r hr)
  · intro o ho
    obtain ⟨r, hr, rfl⟩ := List.mem_map.mp ho
    exact (cls_recover r).2 (hpost r hr)

/-! the client block of a well-formed program -/

def clientN : Nat := L "http_get_client_options"

theorem header_fact : stmtOK clientN (b "header") 2 = true := by decide +kernel
theorem parameter_fact : stmtOK clientN (b "parameter") 2 = true := by decide +kernel

theorem pairStmts_allOf {l : Bytes} (h : stmtOK clientN l 2 = true) (ps : List (Bytes × Bytes)) :
    AllOf G0 clientN (pairStmts l ps).intern := by
  unfold pairStmts
  apply flatten_allOf
  intro f hf
  obtain ⟨p, _, rfl⟩ := List.mem_map.mp hf
  exact stmt_allOf (args := [_, _]) h

theorem reqRun_groups {allowed : List Bytes} {prog : List TStep} (h : wfProgram allowed prog = true) :
    (reqRun prog).groups = (splitBuilds prog).map fun sg => (some sg.1, opts sg.2) := by
  simp only [wfProgram, Bool.and_eq_true, List.all_eq_true, decide_eq_true_eq] at h
  obtain ⟨⟨hpre, hnd⟩, hg⟩ := h
  unfold reqRun
  rw [groups_fold]
  have hseg : opts (segment prog) = [] := by
    simp only [opts, List.filterMap_eq_nil_iff]
    intro x hx
    have := hpre x hx
    cases x with
    | static s v => rfl
    | build s => rfl
    | en e => simp [isStatic] at this
    | arg a v => simp [isStatic] at this
  rw [hseg]
  simp only [appendTo, List.foldl_nil]
  have := groups_distinct (splitBuilds prog) [] hnd (by simp) (fun sg hsg => (dt_ok_group (hg sg hsg).2).2)
  simpa [appendTo] using this

theorem request_allOf {allowed : List Bytes} {prog : List TStep} (h : wfProgram allowed prog = true)
    (hb : ∀ s ∈ allowed, blockOK G0 clientN (labelId (some s)) dtN = true) :
    AllOf G0 clientN (requestKids prog).intern := by
  unfold requestKids
  simp only [intern_append]
  refine (pairStmts_allOf header_fact _).append ((pairStmts_allOf parameter_fact _).append ?_)
  rw [reqRun_groups h]
  apply flatten_allOf
  intro f hf
  simp only [List.map_map, List.mem_map, Function.comp] at hf
  obtain ⟨sg, hsg, rfl⟩ := hf
  simp only [wfProgram, Bool.and_eq_true, List.all_eq_true, List.contains_eq_mem, decide_eq_true_eq] at h
  have := h.2 sg hsg
  exact block_allOf (hb sg.1 this.1) (dt_ok_group this.2).1


/-! ### Part 3d: the settings loop keeps every block a list of valid statements -/

/-- nonterminal of the children of each block object -/
def ctxOf : Blk → Nat
  | .profile => L "value"
  | .httpGet => L "http_get_options"
  | .httpPost => L "http_post_options"
  | .stage => L "stage_options"
  | .procInj => L "process_inject_options"
  | .dns => L "dns_beacon_options"
  | .httpBeacon => L "http_beacon_options"
  | .getClient => clientN
  | .postClient => clientN

def stN : Nat := L "stage_transform"
def execN : Nat := L "execute_options"
def gateN : Nat := L "beacon_gate_options"
def httpOptsN : Nat := L "http_options"

/-- the names an action puts into the tree exist in the grammar, in the right context and with the right arity -/
def actOKb : Act → Bool
  | .pass => true
  | .profOpt name => Grammar.optionAlts.contains (toText name)
  | .blkOpt k label => stmtOK (ctxOf k) label 1
  | .blkConst k label _ => stmtOK (ctxOf k) label 1
  | .uris => true
  | .recover => true
  | .request c => c == .getClient || c == .postClient
  | .perms label _ _ => stmtOK (ctxOf .procInj) label 1
  | .injT label => blockOK G0 (ctxOf .procInj) (labelId (some label)) stN
  | .execute => true
  | .allocator => true
  | .gate => true

theorem table_ok : actionTable.all (fun e => actOKb e.2.2) = true := by decide +kernel

theorem actionOf_ok (idx : Nat) (v : PVal) : actOKb (actionOf idx v) = true := by
  unfold actionOf
  split
  · rename_i x g a hf
    have hm := List.mem_of_find?_eq_some hf
    have := List.all_eq_true.mp table_ok _ hm
    split
    · rfl
    · exact this
  · rfl

theorem option_fact : tokShapeOK G0 (L "value") (L "option") tO [strN] = true := by decide +kernel
theorem uri_fact : stmtOK (ctxOf .httpGet) (b "uri") 1 = true := by decide +kernel
theorem allocator_fact : stmtOK (ctxOf .procInj) (b "allocator") 1 = true := by decide +kernel
theorem st_prepend_fact : stmtOK stN (b "prepend") 1 = true := by decide +kernel
theorem st_append_fact : stmtOK stN (b "append") 1 = true := by decide +kernel
theorem execute_fact : blockOK G0 (ctxOf .procInj) (L "execute") execN = true := by decide +kernel
theorem exec_ct_fact : stmtOK execN (b "createthread_special") 1 = true := by decide +kernel
theorem exec_crt_fact : stmtOK execN (b "createremotethread_special") 1 = true := by decide +kernel
theorem exec_enable_fact : execEnable.all (fun s => stmtOK execN (dashToUnderscore (lower s)) 0) = true := by
  decide +kernel
theorem gate_fact : blockOK G0 (ctxOf .stage) (L "beacon_gate") gateN = true := by decide +kernel
theorem gate_names_fact : gateLabels.all (fun s => stmtOK gateN (lower s) 0) = true := by decide +kernel
theorem build_facts : [k "metadata", k "output", k "id"].all (fun s => blockOK G0 clientN (labelId (some s)) dtN) = true := by
  decide +kernel
theorem server_fact : blockOK G0 (ctxOf .httpGet) (L "server") httpOptsN = true := by decide +kernel
theorem server_output_fact : blockOK G0 httpOptsN (L "output") dtN = true := by decide +kernel
theorem get_client_fact : blockOK G0 (ctxOf .httpGet) (L "client") clientN = true := by decide +kernel
theorem post_client_fact : blockOK G0 (ctxOf .httpPost) (L "client") clientN = true := by decide +kernel
theorem top_facts :
    blockOK G0 (L "value") (L "http_get") (ctxOf .httpGet) = true ∧
    blockOK G0 (L "value") (L "http_post") (ctxOf .httpPost) = true ∧
    blockOK G0 (L "value") (L "stage") (ctxOf .stage) = true ∧
    blockOK G0 (L "value") (L "process_inject") (ctxOf .procInj) = true ∧
    blockOK G0 (L "value") (L "dns_beacon") (ctxOf .dns) = true ∧
    blockOK G0 (L "value") (L "http_beacon") (ctxOf .httpBeacon) = true := by decide +kernel

def rootOKb : Bool :=
  G0.forms.any fun f => label f == L "start" && blockShape f.items == some (L "value")
theorem root_fact : rootOKb = true := by decide +kernel

/-- the invariant of the loop -/
structure Inv (st : St) : Prop where
  blocks : ∀ k, AllOf G0 (ctxOf k) (st.f k).intern
  recov : st.recover = [] ∨ DtOK st.recover

theorem inv_init : Inv St.init := ⟨fun _ => .nil, .inl rfl⟩

theorem inv_app {st : St} (h : Inv st) (k : Blk) {g : PForest} (hg : AllOf G0 (ctxOf k) g.intern) : Inv (st.app k g) := by
  refine ⟨fun k' => ?_, h.recov⟩
  simp only [St.app]
  split
  · rename_i he; subst he; rw [intern_append]; exact (h.blocks k').append hg
  · exact h.blocks k'

theorem optStmt_allOf (name s : Bytes) : AllOf G0 (L "value") (optStmt name s).intern := by
  simp only [optStmt, PForest.intern, if_true]
  exact .cons (nodeOK_of_tok ids_G0 option_fact (strKids_nodesOK [s])) .nil

theorem wfScalar_vts {v : PVal} (h : wfScalar v = true) : ∃ s, vts v = some s := by
  cases v <;> simp [wfScalar] at h <;> exact ⟨_, rfl⟩

theorem execItem_ok (s : Bytes) : ∃ f, execItem (some s) = .ok f ∧ AllOf G0 execN f.intern := by
  refine ⟨_, rfl, ?_⟩
  rw [intern_append]
  refine AllOf.append ?_ ?_
  · split
    · dsimp only
      split
      · exact stmt_allOf (args := [_]) exec_ct_fact
      · split
        · exact stmt_allOf (args := [_]) exec_crt_fact
        · exact .nil
    · exact .nil
  · split
    · rename_i hc
      have hm : s ∈ execEnable := by simpa using hc
      exact stmt_allOf (args := []) (List.all_eq_true.mp exec_enable_fact s hm)
    · exact .nil

theorem execKids_ok (l : List (Option Bytes)) (h : l.all wfExecItem = true) :
    ∃ f, execKids l = .ok f ∧ AllOf G0 execN f.intern := by
  induction l with
  | nil => exact ⟨.nil, rfl, .nil⟩
  | cons i is ih =>
    simp only [List.all_cons, Bool.and_eq_true] at h
    obtain ⟨r, hr, har⟩ := ih h.2
    cases i with
    | none => simp [wfExecItem] at h
    | some s =>
      obtain ⟨f, hf, haf⟩ := execItem_ok s
      refine ⟨f ++ r, ?_, ?_⟩
      · simp only [execKids, hf, hr]
      · rw [intern_append]; exact haf.append har

theorem injKids_allOf (l : List (Bool × Bytes)) : AllOf G0 stN (injKids l).intern := by
  unfold injKids
  rw [intern_append]
  refine AllOf.append ?_ ?_
  · split
    · split
      · exact .nil
      · exact stmt_allOf (args := [_]) st_prepend_fact
    · exact .nil
  · split
    · split
      · exact .nil
      · exact stmt_allOf (args := [_]) st_append_fact
    · exact .nil

theorem gateKids_allOf (l : List Bytes) (h : l.all gateLabels.contains = true) :
    AllOf G0 gateN (PForest.flatten (l.map fun s => stmt (lower s) [])).intern := by
  apply flatten_allOf
  intro f hf
  obtain ⟨s, hs, rfl⟩ := List.mem_map.mp hf
  have hm : s ∈ gateLabels := by
    have := List.all_eq_true.mp h s hs
    simpa using this
  exact stmt_allOf (args := []) (List.all_eq_true.mp gate_names_fact s hm)

/-- one branch of the chain: well-formed value in, no exception, invariant kept -/
theorem runAct_inv (uris : List (Option Bytes)) (st : St) (v : PVal) (a : Act) (ha : actOKb a = true)
    (hw : wfAct uris a v = true) (hi : Inv st) : ∃ st', runAct uris st v a = .ok st' ∧ Inv st' := by
  cases a with
  | pass => exact ⟨st, rfl, hi⟩
  | profOpt name =>
    obtain ⟨s, hs⟩ := wfScalar_vts (by simpa [wfAct] using hw)
    exact ⟨_, by simp only [runAct, hs], inv_app hi .profile (optStmt_allOf name s)⟩
  | blkOpt k label =>
    obtain ⟨s, hs⟩ := wfScalar_vts (by simpa [wfAct] using hw)
    exact ⟨_, by simp only [runAct, hs], inv_app hi k (stmt_allOf (args := [s]) ha)⟩
  | blkConst k label text =>
    exact ⟨_, rfl, inv_app hi k (stmt_allOf (args := [_]) ha)⟩
  | uris =>
    have hu : ∃ us, uris.mapM id = some us := by
      simp only [wfAct, List.all_eq_true] at hw
      clear ha hi
      induction uris with
      | nil => exact ⟨[], rfl⟩
      | cons u us ih =>
        obtain ⟨r, hr⟩ := ih (fun x hx => hw x (by simp [hx]))
        have := hw u (by simp)
        cases u with
        | none => simp at this
        | some s => exact ⟨s :: r, by simp [hr]⟩
    obtain ⟨us, hus⟩ := hu
    exact ⟨st.app .httpGet (stmt (b "uri") [C12.valueToStringStr (joinComma us)]), by simp only [runAct, joinUris, hus],
      inv_app hi .httpGet (stmt_allOf (args := [_]) uri_fact)⟩
  | recover =>
    cases v with
    | recover l =>
      refine ⟨_, rfl, ⟨hi.blocks, .inr (dt_ok_recover ?_)⟩⟩
      simpa [wfAct] using hw
    | _ => simp [wfAct] at hw
  | request c =>
    have hb := List.all_eq_true.mp build_facts
    cases v with
    | transform prog =>
      have hc : ctxOf c = clientN := by
        simp only [actOKb, Bool.or_eq_true, beq_iff_eq] at ha
        rcases ha with rfl | rfl <;> rfl
      refine ⟨_, rfl, inv_app hi c ?_⟩
      rw [hc]
      cases c with
      | getClient =>
        exact request_allOf (allowed := [k "metadata", k "output"]) (by simpa [wfAct] using hw)
          (fun s hs => hb s (by simp at hs ⊢; rcases hs with rfl | rfl <;> simp))
      | postClient =>
        exact request_allOf (allowed := [k "id", k "output"]) (by simpa [wfAct] using hw)
          (fun s hs => hb s (by simp at hs ⊢; rcases hs with rfl | rfl <;> simp))
      | _ => simp [actOKb] at ha
    | _ => cases c <;> simp [wfAct] at hw
  | perms label t f =>
    simp only [runAct]
    split
    · exact ⟨_, rfl, inv_app hi .procInj (stmt_allOf (args := [_]) ha)⟩
    · split
      · exact ⟨_, rfl, inv_app hi .procInj (stmt_allOf (args := [_]) ha)⟩
      · exact ⟨st, rfl, hi⟩
  | injT label =>
    cases v with
    | inj l =>
      simp only [runAct]
      split
      · exact ⟨st, rfl, hi⟩
      · exact ⟨_, rfl, inv_app hi .procInj (block_allOf ha (injKids_allOf l))⟩
    | _ => simp [wfAct] at hw
  | execute =>
    cases v with
    | execute l =>
      obtain ⟨f, hf, haf⟩ := execKids_ok l (by simpa [wfAct] using hw)
      simp only [runAct, hf]
      split
      · exact ⟨st, rfl, hi⟩
      · exact ⟨_, rfl, inv_app hi .procInj (block_allOf execute_fact haf)⟩
    | _ => simp [wfAct] at hw
  | allocator =>
    exact ⟨_, rfl, inv_app hi .procInj (stmt_allOf (args := [_]) allocator_fact)⟩
  | gate =>
    cases v with
    | gate l =>
      exact ⟨_, rfl, inv_app hi .stage (block_allOf gate_fact (gateKids_allOf l (by simpa [wfAct] using hw)))⟩
    | _ => simp [wfAct] at hw


/-! ### Part 3e: the whole loop and the statements after it -/

theorem wfSetting_act {uris : List (Option Bytes)} {idx : Nat} {v : PVal} (h : wfSetting uris (idx, v) = true) :
    wfAct uris (actionOf idx v) v = true := by
  unfold wfSetting at h
  unfold actionOf
  split at h
  · rename_i hf
    simp only at hf
    rw [hf]; rfl
  · rename_i x g a hf
    simp only at hf
    rw [hf]
    dsimp only
    split
    · rfl
    · exact h

theorem runSettings_inv (uris : List (Option Bytes)) (cfg : List (Nat × PVal)) :
    ∀ st, cfg.all (wfSetting uris) = true → Inv st → ∃ st', runSettings uris st cfg = .ok st' ∧ Inv st' := by
  induction cfg with
  | nil => intro st _ hi; exact ⟨st, rfl, hi⟩
  | cons kv rest ih =>
    intro st hw hi
    simp only [List.all_cons, Bool.and_eq_true] at hw
    obtain ⟨st1, h1, hi1⟩ := runAct_inv uris st kv.2 (actionOf kv.1 kv.2) (actionOf_ok _ _) (wfSetting_act hw.1) hi
    obtain ⟨st2, h2, hi2⟩ := ih st1 hw.2 hi1
    exact ⟨st2, by simp only [runSettings, stepOne, h1, h2], hi2⟩

theorem addNonEmpty_allOf {ctx m : Nat} {parent kids : PForest} {lbl : Bytes} (hp : AllOf G0 ctx parent.intern)
    (hb : blockOK G0 ctx (labelId (some lbl)) m = true) (hk : AllOf G0 m kids.intern) :
    AllOf G0 ctx (addNonEmpty parent lbl kids).intern := by
  unfold addNonEmpty
  split
  · exact hp
  · rw [intern_append]; exact hp.append (block_allOf hb hk)

theorem finalize_valid {st : St} (hi : Inv st) : ValidTree G0 (finalize st).intern := by
  obtain ⟨hget, hpost, hstage, hinj, hdns, hhb⟩ := top_facts
  have hg1 : AllOf G0 (ctxOf .httpGet)
      (if st.recover.isEmpty then st.f .httpGet
        else addNonEmpty (st.f .httpGet) (b "server") (block (some (b "output")) (dtKids st.recover))).intern := by
    split
    · exact hi.blocks .httpGet
    · rename_i hne
      rcases hi.recov with he | hd
      · simp [he] at hne
      · exact addNonEmpty_allOf (hi.blocks .httpGet) server_fact (block_allOf server_output_fact hd)
  have hg2 := addNonEmpty_allOf hg1 get_client_fact (hi.blocks .getClient)
  have hp1 := addNonEmpty_allOf (hi.blocks .profile) hget hg2
  have hpo := addNonEmpty_allOf (hi.blocks .httpPost) post_client_fact (hi.blocks .postClient)
  have hp2 := addNonEmpty_allOf hp1 hpost hpo
  have hp3 := addNonEmpty_allOf hp2 hstage (hi.blocks .stage)
  have hp4 := addNonEmpty_allOf hp3 hinj (hi.blocks .procInj)
  have hp5 := addNonEmpty_allOf hp4 hdns (hi.blocks .dns)
  have hp6 := addNonEmpty_allOf hp5 hhb (hi.blocks .httpBeacon)
  have hr := root_fact
  simp only [rootOKb, List.any_eq_true, Bool.and_eq_true, beq_iff_eq] at hr
  obtain ⟨f, hm, hl, hs⟩ := hr
  exact ⟨f, C10.idsOK_has G0 ids_G0 hm, hl, derives_block hs hp6⟩

theorem total_and_valid {cfg : List (Nat × PVal)} {uris : List (Option Bytes)} (h : WellFormedCfg cfg uris = true) :
    ∃ t, fromBeaconConfig cfg uris = .ok t ∧ ValidTree G0 t.intern := by
  simp only [WellFormedCfg, Bool.and_eq_true] at h
  obtain ⟨st, hs, hi⟩ := runSettings_inv uris cfg St.init h.2 inv_init
  exact ⟨finalize st, by simp only [fromBeaconConfig, hs], finalize_valid hi⟩


/-! ### Part 4: the generated obligations (definitions; the theorems are in Props/C13.lean)

`Gen.ProfileGen` lists, by introspection of the source as it is now, every name `from_beacon_config` can put into a tree
together with the block path it is put under.  The checks below walk the generated grammar from the root along the
block path and look for a production with that label and that number of literals. -/

/-- id of a name of the generated grammar -/
def idOf (t : C10.Text) : Nat := Grammar.nameCodes.idxOf t

/-- nonterminal of the children of a block labelled `l` standing where `ctx` is expected -/
def kidsNt (ctx : Nat) (l : C10.Text) : Option Nat :=
  (G0.forms.find? fun f => f.origin == ctx && label f == idOf l && (blockShape f.items).isSome).bind
    fun f => blockShape f.items

/-- nonterminal of the children of the root -/
def rootKids : Option Nat :=
  (G0.forms.find? fun f => label f == G0.start && (blockShape f.items).isSome).bind fun f => blockShape f.items

/-- nonterminal of the children of the block reached from the root through the labels `path` -/
def ctxOfPath (path : List C10.Text) : Option Nat :=
  path.foldl (fun c l => c.bind fun n => kidsNt n l) rootKids

def strId : Nat := idOf [115, 116, 114, 105, 110, 103]

/-- statement `label` with `k` literals exists below the block at `path` -/
def stmtAt (path : List C10.Text) (l : C10.Text) (k : Nat) : Bool :=
  match ctxOfPath path with
  | some n => nodesShapeOK G0 n (idOf l) (List.replicate k strId)
  | none => false

open Gen.ProfileGen in
def emittedOptionsOK : Bool :=
  options.all (fun o => Grammar.optionAlts.contains o.2) &&
  (match rootKids with
   | some n => tokShapeOK G0 n (idOf [111, 112, 116, 105, 111, 110]) Grammar.termOPTION [strId]
   | none => false)

open Gen.ProfileGen in
def emittedStmtsOK : Bool := stmts.all fun s => stmtAt s.2.1 s.2.2.1 s.2.2.2

open Gen.ProfileGen in
def emittedBlocksOK : Bool := blocks.all fun p => (ctxOfPath p).isSome

open Gen.ProfileGen in
def emittedExecuteOK : Bool :=
  executeEnable.all (fun e => stmtAt executePath e.2 0) && executeSpecial.all (fun e => stmtAt executePath e.2 1)

open Gen.ProfileGen in
def emittedGateOK : Bool := gateNames.all fun e => stmtAt gatePath e.2 0

/-- the three fixed levels below a data-transform block: `data_transform`, `steps` / `termination`, and the contexts of
their statements -/
def dtContexts (dtCtx : Nat) : Option (Nat × Nat) :=
  match G0.forms.find? (fun f => f.origin == dtCtx && C10.visible f.items matches [.nt _, .nt _]) with
  | some f =>
    match C10.visible f.items with
    | [.nt s, .nt t] =>
      match G0.forms.find? (fun g => g.origin == s && (blockShape g.items).isSome),
            G0.forms.find? (fun g => g.origin == t && C10.visible g.items matches [.nt _]) with
      | some gs, some gt =>
        match blockShape gs.items, C10.visible gt.items with
        | some a, [.nt c] => if label f == dtCtx && label gs == s && label gt == t then some (a, c) else none
        | _, _ => none
      | _, _ => none
    | _ => none
  | none => none

open Gen.ProfileGen in
def emittedTransformsOK : Bool :=
  (buildNames.all fun bn =>
    dtBlocks.all fun d => d.1 != bn.1 ||
      match ctxOfPath (d.2 ++ [bn.2]) with
      | some n =>
        match dtContexts n with
        | some (a, c) =>
          Gen.ProfileGen.dtFlagSteps.all (fun l => nodesShapeOK G0 a (idOf l) []) &&
          Gen.ProfileGen.dtArgSteps.all (fun l => nodesShapeOK G0 a (idOf l) [strId]) &&
          Gen.ProfileGen.dtFlagTerminations.all (fun l => nodesShapeOK G0 c (idOf l) []) &&
          Gen.ProfileGen.dtArgTerminations.all (fun l => nodesShapeOK G0 c (idOf l) [strId])
        | none => false
      | none => false) &&
  (match ctxOfPath serverOutput with
   | some n => (dtContexts n).isSome
   | none => false)


/-! the hand-written tables of the model are the ones the source code has now -/

/-- labels under which the block objects are attached to the profile -/
def pathOf : Blk → List Bytes
  | .profile => []
  | .httpGet => [b "http_get"]
  | .httpPost => [b "http_post"]
  | .stage => [b "stage"]
  | .procInj => [b "process_inject"]
  | .dns => [b "dns_beacon"]
  | .httpBeacon => [b "http_beacon"]
  | .getClient => [b "http_get", b "client"]
  | .postClient => [b "http_post", b "client"]

def modelOptions : List (Nat × C10.Text) :=
  actionTable.filterMap fun e => match e.2.2 with
    | .profOpt n => some (e.1, toText n)
    | _ => none

/-- (setting, block path, label, number of literals) of every `set_option` / `_pair` call of the model -/
def modelStmts : List (Nat × List C10.Text × C10.Text × Nat) :=
  actionTable.flatMap fun e =>
    let mk (p : List Bytes) (l : Bytes) (n : Nat) := (e.1, p.map toText, toText l, n)
    match e.2.2 with
    | .blkOpt k l => [mk (pathOf k) l 1]
    | .blkConst k l _ => [mk (pathOf k) l 1]
    | .uris => [mk (pathOf .httpGet) (b "uri") 1]
    | .request c => [mk (pathOf c) (b "header") 2, mk (pathOf c) (b "parameter") 2]
    | .perms l _ _ => [mk (pathOf .procInj) l 1]
    | .injT l => [mk (pathOf .procInj ++ [l]) (b "prepend") 1, mk (pathOf .procInj ++ [l]) (b "append") 1]
    | .execute => [mk (pathOf .procInj ++ [b "execute"]) (b "createthread_special") 1,
                   mk (pathOf .procInj ++ [b "execute"]) (b "createremotethread_special") 1]
    | .allocator => [mk (pathOf .procInj) (b "allocator") 1]
    | _ => []

def modelLiterals : List (Nat × C10.Text) :=
  actionTable.flatMap fun e => match e.2.2 with
    | .blkConst _ _ t => [(e.1, toText t)]
    | .perms _ _ _ => [(e.1, toText (b "true")), (e.1, toText (b "false"))]
    | .allocator => [(e.1, toText (b "NtMapViewOfSection")), (e.1, toText (b "VirtualAllocEx"))]
    | _ => []

def sameSet {α} [BEq α] (x y : List α) : Bool := x.all y.contains && y.all x.contains


/-- the Reconstructor obligation of C10 on the table as it is now (also `C10.gen_printWF`) -/
theorem printWF_G0 : C10.PrintWF G0 = true := by decide +kernel

/-- printing the tree of a derivation gives its token sequence (C10's `print_eq_source`) -/
theorem print_of_deriv (d : C10.Deriv) (hd : d.WF G0 = true) : C10.printTree G0 (C10.toTree d) = some d.yield := by
  unfold C10.Deriv.WF at hd
  simp only [Bool.and_eq_true] at hd
  unfold C10.printTree C10.toTree C10.Deriv.yield
  simp only [C10.printKids_parts G0 printWF_G0 hd.2]
  exact C10.printNode_self G0 printWF_G0 hd.1 hd.2

/-! ### dict semantics of `settings_by_index` -/

theorem dictInsert_keys (kv : Nat × PVal) (d : List (Nat × PVal)) :
    (dictInsert kv d).map (·.1) = if kv.1 ∈ d.map (·.1) then d.map (·.1) else d.map (·.1) ++ [kv.1] := by
  induction d with
  | nil => simp [dictInsert]
  | cons x xs ih =>
    simp only [dictInsert]
    split
    · rename_i h; simp [h]
    · rename_i h
      simp only [List.map_cons, ih, List.mem_cons]
      have : ¬ kv.1 = x.1 := fun e => h e.symm
      simp only [this, false_or]
      split <;> simp

theorem dictInsert_nodup (kv : Nat × PVal) (d : List (Nat × PVal)) (h : (d.map (·.1)).Nodup) :
    ((dictInsert kv d).map (·.1)).Nodup := by
  rw [dictInsert_keys]
  split
  · exact h
  · rename_i hn
    rw [List.nodup_append]
    exact ⟨h, by simp, by intro a ha b hb; simp at hb; subst hb; exact fun e => hn (e ▸ ha)⟩

theorem settingsByIndex_keys_nodup (tlvs : List (Nat × PVal)) : ((settingsByIndex tlvs).map (·.1)).Nodup := by
  unfold settingsByIndex
  suffices ∀ d : List (Nat × PVal), (d.map (·.1)).Nodup → ((tlvs.foldl (fun d kv => dictInsert kv d) d).map (·.1)).Nodup from
    this [] (by simp)
  induction tlvs with
  | nil => intro d h; exact h
  | cons kv rest ih => intro d h; exact ih _ (dictInsert_nodup kv d h)


end C13

import CsVerif.Model.C13
import CsVerif.Lemmas.C10
import CsVerif.Lemmas.C12
/-! C13 helper lemmas.

Part 1 (generic in the grammar table): a relational notion of "this children list is derivable from this right-hand
side" (`Derives`), shown to give well-formed derivations of the C10 model (`derives_parts`), with the shapes of
productions the profile generator uses (blocks, statements with literals, the `set OPTION` statement). -/
namespace C13
open C10 (Table Forest Parts wfParts label)
open Grammar (Item Form)

/-! ### derivability of a children list (relational; no strategy, no fuel) -/

inductive Derives (G : Table) : List Item → Forest → Prop
  | nil : Derives G [] .nil
  | kw {k is ks} : Derives G is ks → Derives G (.kw k :: is) ks
  | tok {t s is r} : Derives G is r → Derives G (.tok t :: is) (.leaf t s r)
  | nt {f : Form} {n is ks r} : G.has f = true → f.origin = n → Derives G f.items ks → Derives G is r →
      Derives G (.nt n :: is) (.node (label f) ks r)
  | starTake {f : Form} {n is ks r} : G.has f = true → f.origin = n → Derives G f.items ks →
      Derives G (.star n :: is) r → Derives G (.star n :: is) (.node (label f) ks r)
  | starStop {n is ks} : Derives G is ks → Derives G (.star n :: is) ks
  | optSkip {n is ks} : Derives G is ks → Derives G (.opt n :: is) ks

theorem derives_parts {G : Table} {is : List Item} {ks : Forest} (h : Derives G is ks) :
    ∃ p : Parts, wfParts G is p = true ∧ p.kids = ks := by
  induction h with
  | nil => exact ⟨.done, by simp [wfParts], rfl⟩
  | @kw k is ks _ ih =>
    obtain ⟨p, hp, hk⟩ := ih
    exact ⟨.kw k p, by simp [wfParts, hp], by simp [Parts.kids, hk]⟩
  | @tok t s is r _ ih =>
    obtain ⟨p, hp, hk⟩ := ih
    exact ⟨.tok t s p, by simp [wfParts, hp], by simp [Parts.kids, hk]⟩
  | @nt f n is ks r hf ho _ _ ih1 ih2 =>
    obtain ⟨p1, hp1, hk1⟩ := ih1
    obtain ⟨p2, hp2, hk2⟩ := ih2
    exact ⟨.sub f p1 p2, by simp [wfParts, hf, ho, hp1, hp2], by simp [Parts.kids, hk1, hk2]⟩
  | @starTake f n is ks r hf ho _ _ ih1 ih2 =>
    obtain ⟨p1, hp1, hk1⟩ := ih1
    obtain ⟨p2, hp2, hk2⟩ := ih2
    exact ⟨.sub f p1 p2, by simp [wfParts, hf, ho, hp1, hp2], by simp [Parts.kids, hk1, hk2]⟩
  | @starStop n is ks _ ih =>
    obtain ⟨p, hp, hk⟩ := ih
    exact ⟨.stop p, by simp [wfParts, hp], by simp [Parts.kids, hk]⟩
  | @optSkip n is ks _ ih =>
    obtain ⟨p, hp, hk⟩ := ih
    exact ⟨.stop p, by simp [wfParts, hp], by simp [Parts.kids, hk]⟩

/-- the tree is the tree of some derivation of the grammar -/
def ValidTree (G : Table) (t : C10.Tree) : Prop :=
  ∃ f : Form, G.has f = true ∧ label f = t.label ∧ Derives G f.items t.kids

theorem valid_deriv {G : Table} {t : C10.Tree} (h : ValidTree G t) :
    ∃ d : C10.Deriv, d.WF G = true ∧ C10.toTree d = t := by
  obtain ⟨f, hf, hl, hd⟩ := h
  obtain ⟨p, hp, hk⟩ := derives_parts hd
  refine ⟨⟨f, p⟩, by simp [C10.Deriv.WF, hf, hp], ?_⟩
  cases t
  simp only [C10.toTree] at *
  simp_all


/-! ### nodes, lists of nodes, repetition -/

/-- a node `(l, ks)` can stand where nonterminal `n` is expected -/
def NodeOK (G : Table) (n l : Nat) (ks : Forest) : Prop :=
  ∃ f : Form, G.has f = true ∧ f.origin = n ∧ label f = l ∧ Derives G f.items ks

/-- every top-level element of the forest is a node that can stand for `n` -/
inductive AllOf (G : Table) (n : Nat) : Forest → Prop
  | nil : AllOf G n .nil
  | cons {l ks r} : NodeOK G n l ks → AllOf G n r → AllOf G n (.node l ks r)

/-- the forest is a sequence of nodes standing for the nonterminals `ns`, one each -/
inductive NodesOK (G : Table) : List Nat → Forest → Prop
  | nil : NodesOK G [] .nil
  | cons {n ns l ks r} : NodeOK G n l ks → NodesOK G ns r → NodesOK G (n :: ns) (.node l ks r)

def fapp : Forest → Forest → Forest
  | .nil, g => g
  | .leaf t s r, g => .leaf t s (fapp r g)
  | .node l k r, g => .node l k (fapp r g)

theorem fapp_nil (a : Forest) : fapp a .nil = a := by
  induction a with
  | nil => rfl
  | leaf t s r ih => simp [fapp, ih]
  | node l k r _ ih => simp [fapp, ih]

theorem AllOf.append {G : Table} {n : Nat} {a c : Forest} (ha : AllOf G n a) (hc : AllOf G n c) :
    AllOf G n (fapp a c) := by
  induction ha with
  | nil => exact hc
  | cons h _ ih => exact .cons h ih

theorem derives_star_append {G : Table} {n : Nat} {is : List Item} {a r : Forest} (ha : AllOf G n a)
    (hr : Derives G (.star n :: is) r) : Derives G (.star n :: is) (fapp a r) := by
  induction ha with
  | nil => exact hr
  | cons h _ ih =>
    obtain ⟨f, hf, ho, hl, hd⟩ := h
    subst hl
    exact .starTake hf ho hd ih

theorem isKw_kw (k : Nat) : C10.isKwItem (.kw k) = true := rfl
theorem isKw_tok (k : Nat) : C10.isKwItem (.tok k) = false := rfl
theorem isKw_nt (k : Nat) : C10.isKwItem (.nt k) = false := rfl
theorem isKw_star (k : Nat) : C10.isKwItem (.star k) = false := rfl
theorem isKw_opt (k : Nat) : C10.isKwItem (.opt k) = false := rfl

theorem visible_kw (k : Nat) (is : List Item) : C10.visible (.kw k :: is) = C10.visible is := by
  simp [C10.visible, isKw_kw]
theorem visible_tok (k : Nat) (is : List Item) : C10.visible (.tok k :: is) = .tok k :: C10.visible is := by
  simp [C10.visible, isKw_tok]
theorem visible_nt (k : Nat) (is : List Item) : C10.visible (.nt k :: is) = .nt k :: C10.visible is := by
  simp [C10.visible, isKw_nt]
theorem visible_star (k : Nat) (is : List Item) : C10.visible (.star k :: is) = .star k :: C10.visible is := by
  simp [C10.visible, isKw_star]
theorem visible_opt (k : Nat) (is : List Item) : C10.visible (.opt k :: is) = .opt k :: C10.visible is := by
  simp [C10.visible, isKw_opt]

def allKw (is : List Item) : Bool := is.all C10.isKwItem

theorem derives_kws {G : Table} {is : List Item} (h : allKw is = true) : Derives G is .nil := by
  induction is with
  | nil => exact .nil
  | cons i is ih =>
    simp only [allKw, List.all_cons, Bool.and_eq_true] at h
    cases i with
    | kw k => exact .kw (ih h.2)
    | tok k => simp [isKw_tok] at h
    | nt k => simp [isKw_nt] at h
    | star k => simp [isKw_star] at h
    | opt k => simp [isKw_opt] at h

/-- right-hand side of a block production: keywords, possibly an optional variant, `m*`, keywords -/
def blockShape : List Item → Option Nat
  | .kw _ :: is => blockShape is
  | .opt _ :: is => blockShape is
  | .star m :: is => if allKw is then some m else none
  | _ => none

theorem derives_block {G : Table} {is : List Item} {m : Nat} {ks : Forest} (h : blockShape is = some m)
    (hk : AllOf G m ks) : Derives G is ks := by
  induction is with
  | nil => simp [blockShape] at h
  | cons i is ih =>
    cases i with
    | kw k => exact .kw (ih (by simpa [blockShape] using h))
    | opt n => exact .optSkip (ih (by simpa [blockShape] using h))
    | star n =>
      simp only [blockShape] at h
      split at h
      · rename_i hkw
        cases h
        have := derives_star_append (is := is) hk (.starStop (derives_kws hkw))
        rwa [fapp_nil] at this
      · cases h
    | tok t => simp [blockShape] at h
    | nt n => simp [blockShape] at h

theorem derives_nodes {G : Table} {is : List Item} {ns : List Nat} {ks : Forest}
    (h : C10.visible is = ns.map Item.nt) (hk : NodesOK G ns ks) : Derives G is ks := by
  induction is generalizing ns ks with
  | nil =>
    cases ns with
    | nil => cases hk; exact .nil
    | cons n ns => simp [C10.visible] at h
  | cons i is ih =>
    cases i with
    | kw k =>
      rw [visible_kw] at h
      exact .kw (ih h hk)
    | nt n =>
      rw [visible_nt] at h
      cases ns with
      | nil => simp at h
      | cons n' ns =>
        simp only [List.map_cons, List.cons.injEq, Item.nt.injEq] at h
        obtain ⟨rfl, h'⟩ := h
        cases hk with
        | cons h1 h2 =>
          obtain ⟨f, hf, ho, hl, hd⟩ := h1
          subst hl
          exact .nt hf ho hd (ih h' h2)
    | tok t => rw [visible_tok] at h; cases ns <;> simp at h
    | star n => rw [visible_star] at h; cases ns <;> simp at h
    | opt n => rw [visible_opt] at h; cases ns <;> simp at h

/-- `visible items = [tok t] ++ nts`: a token followed by nodes (the `set OPTION string ;` production) -/
theorem derives_tok_nodes {G : Table} {is : List Item} {t : Nat} {s : C10.Text} {ns : List Nat} {ks : Forest}
    (h : C10.visible is = Item.tok t :: ns.map Item.nt) (hk : NodesOK G ns ks) : Derives G is (.leaf t s ks) := by
  induction is with
  | nil => simp [C10.visible] at h
  | cons i is ih =>
    cases i with
    | kw k => rw [visible_kw] at h; exact .kw (ih h)
    | tok t' =>
      rw [visible_tok] at h
      simp only [List.cons.injEq, Item.tok.injEq] at h
      obtain ⟨rfl, h'⟩ := h
      exact .tok (derives_nodes h' hk)
    | nt n => rw [visible_nt] at h; simp at h
    | star n => rw [visible_star] at h; simp at h
    | opt n => rw [visible_opt] at h; simp at h

set_option maxRecDepth 100000

/-! ### Part 2: decidable shape checks on a table, and what they give -/

def nodesShapeOK (G : Table) (ctx l : Nat) (ns : List Nat) : Bool :=
  G.forms.any fun f => f.origin == ctx && label f == l && C10.visible f.items == ns.map Item.nt

def tokShapeOK (G : Table) (ctx l t : Nat) (ns : List Nat) : Bool :=
  G.forms.any fun f => f.origin == ctx && label f == l && C10.visible f.items == Item.tok t :: ns.map Item.nt

def blockOK (G : Table) (ctx l m : Nat) : Bool :=
  G.forms.any fun f => f.origin == ctx && label f == l && blockShape f.items == some m

theorem nodeOK_of_shape {G : Table} (hi : C10.IdsOK G = true) {ctx l : Nat} {ns : List Nat} {ks : Forest}
    (h : nodesShapeOK G ctx l ns = true) (hk : NodesOK G ns ks) : NodeOK G ctx l ks := by
  simp only [nodesShapeOK, List.any_eq_true, Bool.and_eq_true, beq_iff_eq] at h
  obtain ⟨f, hm, ⟨⟨ho, hl⟩, hv⟩⟩ := h
  exact ⟨f, C10.idsOK_has G hi hm, ho, hl, derives_nodes hv hk⟩

theorem nodeOK_of_tok {G : Table} (hi : C10.IdsOK G = true) {ctx l t : Nat} {s : C10.Text} {ns : List Nat} {ks : Forest}
    (h : tokShapeOK G ctx l t ns = true) (hk : NodesOK G ns ks) : NodeOK G ctx l (.leaf t s ks) := by
  simp only [tokShapeOK, List.any_eq_true, Bool.and_eq_true, beq_iff_eq] at h
  obtain ⟨f, hm, ⟨⟨ho, hl⟩, hv⟩⟩ := h
  exact ⟨f, C10.idsOK_has G hi hm, ho, hl, derives_tok_nodes hv hk⟩

theorem nodeOK_of_block {G : Table} (hi : C10.IdsOK G = true) {ctx l m : Nat} {ks : Forest}
    (h : blockOK G ctx l m = true) (hk : AllOf G m ks) : NodeOK G ctx l ks := by
  simp only [blockOK, List.any_eq_true, Bool.and_eq_true, beq_iff_eq] at h
  obtain ⟨f, hm, ⟨⟨ho, hl⟩, hv⟩⟩ := h
  exact ⟨f, C10.idsOK_has G hi hm, ho, hl, derives_block hv hk⟩

/-! ### the generated table -/

abbrev G0 : Table := C10.gen

/-- `forms[i].id = i` for the generated table (also `C10.gen_idsOK`) -/
theorem ids_G0 : C10.IdsOK G0 = true := by decide +kernel

/-- id of a label / nonterminal name -/
def L (s : String) : Nat := labelId (some (b s))

def strN : Nat := L "string"
def tS : Nat := Grammar.termSTRING
def tO : Nat := Grammar.termOPTION

theorem string_fact : tokShapeOK G0 strN strN tS [] = true := by decide +kernel

theorem intern_append (x y : PForest) : (x ++ y).intern = fapp x.intern y.intern := by
  show (PForest.append x y).intern = _
  induction x with
  | nil => rfl
  | tok o t r ih => simp [PForest.append, PForest.intern, fapp, ih]
  | node l k r _ ih => simp [PForest.append, PForest.intern, fapp, ih]

theorem strKids_nodesOK (args : List Bytes) :
    NodesOK G0 (List.replicate args.length strN) (strKids args).intern := by
  induction args with
  | nil => exact .nil
  | cons a as ih =>
    simp only [strKids, PForest.intern, List.length_cons, List.replicate_succ]
    exact .cons (nodeOK_of_tok ids_G0 string_fact .nil) ih

/-- a statement `Tree(label, k × string)` in context `ctx` -/
def stmtOK (ctx : Nat) (l : Bytes) (k : Nat) : Bool :=
  nodesShapeOK G0 ctx (labelId (some l)) (List.replicate k strN)

theorem stmt_allOf {ctx : Nat} {l : Bytes} {args : List Bytes} (h : stmtOK ctx l args.length = true) :
    AllOf G0 ctx (stmt l args).intern := by
  simp only [stmt, PForest.intern]
  exact .cons (nodeOK_of_shape ids_G0 h (strKids_nodesOK args)) .nil

theorem block_allOf {ctx m : Nat} {l : Option Bytes} {kids : PForest} (h : blockOK G0 ctx (labelId l) m = true)
    (hk : AllOf G0 m kids.intern) : AllOf G0 ctx (block l kids).intern := by
  simp only [block, PForest.intern]
  exact .cons (nodeOK_of_block ids_G0 h hk) .nil


/-! ### Part 3a: block_steps grouping = splitting the program at its BUILD markers -/

def toDOpt : TStep → Option DOpt
  | .en e => some (.bare (lower e.pyName))
  | .arg a v => some (.pair (lower a.pyName) (.bytes v))
  | _ => none

def opts (l : List TStep) : List DOpt := l.filterMap toDOpt

/-- `for d in ds: block_steps[key].append(d)` -/
def appendTo (key : Option Bytes) (ds : List DOpt) (g : List (Option Bytes × List DOpt)) :=
  ds.foldl (fun g d => addGroup key d g) g


theorem reqStep_build (a : ReqAcc) (x : TStep) (h : isBuild x = false) : (reqStep a x).build = a.build := by
  cases x with
  | build s => simp [isBuild] at h
  | en e => rfl
  | arg y v => rfl
  | static s v => cases s <;> rfl

theorem reqStep_groups (a : ReqAcc) (x : TStep) (h : isBuild x = false) :
    (reqStep a x).groups = appendTo a.build (opts [x]) a.groups := by
  cases x with
  | build s => simp [isBuild] at h
  | en e => rfl
  | arg y v => rfl
  | static s v => cases s <;> rfl

theorem opts_cons (x : TStep) (l : List TStep) : opts (x :: l) = opts [x] ++ opts l := by
  simp [opts, List.filterMap_cons]
  cases toDOpt x <;> simp

theorem appendTo_append (key : Option Bytes) (d1 d2 : List DOpt) (g) :
    appendTo key (d1 ++ d2) g = appendTo key d2 (appendTo key d1 g) := by
  simp [appendTo, List.foldl_append]

/-- the settings of one BUILD group as the loop sees them: the part of the program up to the next BUILD -/
def segment (l : List TStep) : List TStep := l.takeWhile (!isBuild ·)

theorem splitBuilds_build (s : Bytes) (rest : List TStep) :
    splitBuilds (.build s :: rest) = (s, (segment rest).filter (!isStatic ·)) :: splitBuilds rest := rfl

theorem opts_static (s : StaticStep) (v : Bytes) (l : List TStep) : opts (.static s v :: l) = opts l := rfl
theorem opts_build (s : Bytes) (l : List TStep) : opts (.build s :: l) = opts l := rfl
theorem opts_en (e : EnStep) (l : List TStep) : opts (.en e :: l) = .bare (lower e.pyName) :: opts l := rfl
theorem opts_arg (a : ArgStep) (v : Bytes) (l : List TStep) :
    opts (.arg a v :: l) = .pair (lower a.pyName) (.bytes v) :: opts l := rfl

theorem opts_filter_static (l : List TStep) : opts (l.filter (!isStatic ·)) = opts l := by
  induction l with
  | nil => rfl
  | cons x l ih =>
    cases x with
    | static s v =>
      have h1 : (!isStatic (TStep.static s v)) = false := rfl
      rw [List.filter_cons, h1]; simpa [opts_static] using ih
    | build s =>
      have h1 : (!isStatic (TStep.build s)) = true := rfl
      rw [List.filter_cons, h1]; simpa [opts_build] using ih
    | en e =>
      have h1 : (!isStatic (TStep.en e)) = true := rfl
      rw [List.filter_cons, h1]; simpa [opts_en] using ih
    | arg y v =>
      have h1 : (!isStatic (TStep.arg y v)) = true := rfl
      rw [List.filter_cons, h1]; simpa [opts_arg] using ih

theorem groups_fold (prog : List TStep) : ∀ a : ReqAcc,
    (prog.foldl reqStep a).groups =
      (splitBuilds prog).foldl (fun g sg => appendTo (some sg.1) (opts sg.2) g)
        (appendTo a.build (opts (segment prog)) a.groups) := by
  induction prog with
  | nil => intro a; simp [splitBuilds, segment, opts, appendTo]
  | cons x rest ih =>
    intro a
    by_cases hb : isBuild x = true
    · cases x with
      | build s =>
        rw [List.foldl_cons, ih]
        simp only [splitBuilds_build, List.foldl_cons, opts_filter_static]
        simp [segment, isBuild, opts, appendTo, reqStep]
      | en e => simp [isBuild] at hb
      | arg y v => simp [isBuild] at hb
      | static s v => simp [isBuild] at hb
    · have hb' : isBuild x = false := by simpa using hb
      rw [List.foldl_cons, ih]
      have hseg : segment (x :: rest) = x :: segment rest := by simp [segment, hb']
      have hsp : splitBuilds (x :: rest) = splitBuilds rest := by
        cases x with
        | build s => simp [isBuild] at hb'
        | en e => rfl
        | arg y v => rfl
        | static s v => rfl
      rw [hseg, hsp, opts_cons x (segment rest), appendTo_append, reqStep_build a x hb', reqStep_groups a x hb']

theorem addGroup_new (key : Option Bytes) (d : DOpt) (g : List (Option Bytes × List DOpt))
    (h : key ∉ g.map (·.1)) : addGroup key d g = g ++ [(key, [d])] := by
  induction g with
  | nil => rfl
  | cons x g ih =>
    simp only [List.map_cons, List.mem_cons, not_or] at h
    simp [addGroup, Ne.symm h.1, ih h.2]

theorem addGroup_last (key : Option Bytes) (d : DOpt) (ds : List DOpt) (g : List (Option Bytes × List DOpt))
    (h : key ∉ g.map (·.1)) : addGroup key d (g ++ [(key, ds)]) = g ++ [(key, ds ++ [d])] := by
  induction g with
  | nil => simp [addGroup]
  | cons x g ih =>
    simp only [List.map_cons, List.mem_cons, not_or] at h
    simp [addGroup, Ne.symm h.1, ih h.2]

theorem appendTo_last (key : Option Bytes) (ds acc : List DOpt) (g : List (Option Bytes × List DOpt))
    (h : key ∉ g.map (·.1)) : appendTo key ds (g ++ [(key, acc)]) = g ++ [(key, acc ++ ds)] := by
  induction ds generalizing acc with
  | nil => simp [appendTo]
  | cons d ds ih =>
    simp only [appendTo, List.foldl_cons] at ih ⊢
    rw [addGroup_last key d acc g h, ih]
    simp

theorem appendTo_new (key : Option Bytes) (ds : List DOpt) (g : List (Option Bytes × List DOpt))
    (h : key ∉ g.map (·.1)) (hne : ds ≠ []) : appendTo key ds g = g ++ [(key, ds)] := by
  cases ds with
  | nil => exact absurd rfl hne
  | cons d ds =>
    simp only [appendTo, List.foldl_cons]
    rw [addGroup_new key d g h]
    exact appendTo_last key ds [d] g h

theorem groups_distinct (sgs : List (Bytes × List TStep)) : ∀ g0 : List (Option Bytes × List DOpt),
    (sgs.map (·.1)).Nodup → (∀ sg ∈ sgs, some sg.1 ∉ g0.map (·.1)) → (∀ sg ∈ sgs, opts sg.2 ≠ []) →
    sgs.foldl (fun g sg => appendTo (some sg.1) (opts sg.2) g) g0 = g0 ++ sgs.map fun sg => (some sg.1, opts sg.2) := by
  induction sgs with
  | nil => intro g0 _ _ _; simp
  | cons sg sgs ih =>
    intro g0 hnd hnot hne
    simp only [List.map_cons, List.nodup_cons] at hnd
    rw [List.foldl_cons, appendTo_new _ _ _ (hnot sg (by simp)) (hne sg (by simp)), ih _ hnd.2]
    · simp
    · intro sg' hsg'
      simp only [List.map_append, List.map_cons, List.map_nil, List.mem_append, List.mem_singleton, not_or]
      refine ⟨hnot sg' (by simp [hsg']), ?_⟩
      intro heq
      have : sg'.1 = sg.1 := by simpa using heq
      exact hnd.1 (this ▸ List.mem_map_of_mem hsg')
    · intro sg' hsg'; exact hne sg' (by simp [hsg'])


/-! ### Part 3b: DataTransformBlock -/

def dtN : Nat := L "data_transform"
def stepsN : Nat := L "steps"
def termN : Nat := L "termination"
def tsN : Nat := L "transform_statement"
def tstN : Nat := L "termination_statement"

theorem dt_fact : nodesShapeOK G0 dtN dtN [stepsN, termN] = true := by decide +kernel
theorem steps_fact : blockOK G0 stepsN stepsN tsN = true := by decide +kernel
theorem term_fact : nodesShapeOK G0 termN termN [tstN] = true := by decide +kernel

theorem PForest.nil_append (x : PForest) : (PForest.nil ++ x) = x := rfl
theorem PForest.append_nil (x : PForest) : (x ++ PForest.nil) = x := by
  show PForest.append x .nil = x
  induction x with
  | nil => rfl
  | tok o t r ih => simp [PForest.append, ih]
  | node l k r _ ih => simp [PForest.append, ih]

theorem PForest.append_assoc (x y z : PForest) : (x ++ y) ++ z = x ++ (y ++ z) := by
  show PForest.append (PForest.append x y) z = PForest.append x (PForest.append y z)
  induction x with
  | nil => rfl
  | tok o t r ih => simp [PForest.append, ih]
  | node l k r _ ih => simp [PForest.append, ih]

theorem flatten_cons (f : PForest) (fs : List PForest) : PForest.flatten (f :: fs) = f ++ PForest.flatten fs := rfl

theorem flatten_append (xs ys : List PForest) :
    PForest.flatten (xs ++ ys) = PForest.flatten xs ++ PForest.flatten ys := by
  induction xs with
  | nil => rfl
  | cons x xs ih => simp [flatten_cons, ih, PForest.append_assoc]

theorem flatten_allOf {ctx : Nat} (fs : List PForest) (h : ∀ f ∈ fs, AllOf G0 ctx f.intern) :
    AllOf G0 ctx (PForest.flatten fs).intern := by
  induction fs with
  | nil => exact .nil
  | cons f fs ih =>
    rw [flatten_cons, intern_append]
    exact (h f (by simp)).append (ih fun g hg => h g (by simp [hg]))

/-- the option goes to `steps` as a valid transform statement -/
def StepCls (o : DOpt) : Prop := (dtClassify o).2 = .nil ∧ AllOf G0 tsN (dtClassify o).1.intern

/-- the option goes to `termination` as a valid termination statement -/
def TermCls (o : DOpt) : Prop :=
  (dtClassify o).1 = .nil ∧ ∃ l args, (dtClassify o).2 = stmt l args ∧ stmtOK tstN l args.length = true

theorem dtSteps_cons (o : DOpt) (ds : List DOpt) : dtSteps (o :: ds) = (dtClassify o).1 ++ dtSteps ds := rfl
theorem dtTerms_cons (o : DOpt) (ds : List DOpt) : dtTerms (o :: ds) = (dtClassify o).2 ++ dtTerms ds := rfl

theorem dtSteps_allOf (ds : List DOpt) (h : ∀ o ∈ ds, StepCls o ∨ TermCls o) : AllOf G0 tsN (dtSteps ds).intern := by
  induction ds with
  | nil => exact .nil
  | cons o ds ih =>
    rw [dtSteps_cons, intern_append]
    refine AllOf.append ?_ (ih fun o' ho' => h o' (by simp [ho']))
    rcases h o (by simp) with hs | ht
    · exact hs.2
    · rw [ht.1]; exact .nil

theorem dtTerms_steps (ds : List DOpt) (h : ∀ o ∈ ds, StepCls o) : dtTerms ds = .nil := by
  induction ds with
  | nil => rfl
  | cons o ds ih =>
    rw [dtTerms_cons, (h o (by simp)).1, ih fun o' ho' => h o' (by simp [ho'])]
    rfl

theorem dtTerms_split (pre post : List DOpt) (t : DOpt) (hpre : ∀ o ∈ pre, StepCls o) (hpost : ∀ o ∈ post, StepCls o) :
    dtTerms (pre ++ t :: post) = (dtClassify t).2 := by
  induction pre with
  | nil =>
    simp only [List.nil_append, dtTerms_cons, dtTerms_steps post hpost, PForest.append_nil]
  | cons o pre ih =>
    simp only [List.cons_append, dtTerms_cons, (hpre o (by simp)).1, PForest.nil_append]
    exact ih fun o' ho' => hpre o' (by simp [ho'])

/-- `DataTransformBlock(steps)` is a valid `data_transform` -/
def DtOK (ds : List DOpt) : Prop := AllOf G0 dtN (dtKids ds).intern

theorem dt_ok (pre post : List DOpt) (t : DOpt) (hpre : ∀ o ∈ pre, StepCls o) (ht : TermCls t)
    (hpost : ∀ o ∈ post, StepCls o) : DtOK (pre ++ t :: post) := by
  have hS : AllOf G0 tsN (dtSteps (pre ++ t :: post)).intern := by
    apply dtSteps_allOf
    intro o ho
    simp only [List.mem_append, List.mem_cons] at ho
    rcases ho with h | rfl | h
    · exact .inl (hpre o h)
    · exact .inr ht
    · exact .inl (hpost o h)
  obtain ⟨_, l, args, hT, hok⟩ := ht
  unfold DtOK dtKids
  rw [dtTerms_split pre post t hpre hpost, hT]
  simp only [PForest.intern, stmt]
  refine .cons (nodeOK_of_shape ids_G0 dt_fact (.cons (nodeOK_of_block ids_G0 steps_fact hS) (.cons ?_ .nil))) .nil
  exact nodeOK_of_shape ids_G0 term_fact (.cons (nodeOK_of_shape ids_G0 hok (strKids_nodesOK args)) .nil)

/-! classification of the options the two program types produce -/

/-- classification of a `str` option by name: (is a termination, label) -/
def bareCls (n : Bytes) : Option (Bool × Bytes) :=
  if dtFlagSteps.contains n then some (false, n)
  else if dtTermOptions.contains n then some (true, dashToUnderscore n) else none

theorem dtClassify_bare {n l : Bytes} {t : Bool} (h : bareCls n = some (t, l)) :
    dtClassify (.bare n) = if t then (.nil, stmt l []) else (stmt l [], .nil) := by
  unfold bareCls at h
  unfold dtClassify
  split at h
  · rename_i h1; cases h; simp only [h1, ↓reduceIte, Bool.false_eq_true]
  · rename_i h1
    split at h
    · rename_i h2; cases h; simp only [h1, h2, ↓reduceIte, Bool.false_eq_true]
    · cases h

def bareCheck (n : Bytes) (term : Bool) : Bool :=
  match bareCls n with
  | some (t, l) => t == term && stmtOK (if term then tstN else tsN) l 0
  | none => false

theorem bare_cls {n : Bytes} {term : Bool} (h : bareCheck n term = true) :
    (term = true → TermCls (.bare n)) ∧ (term = false → StepCls (.bare n)) := by
  unfold bareCheck at h
  split at h
  · rename_i t l hc
    simp only [Bool.and_eq_true, beq_iff_eq] at h
    obtain ⟨rfl, hok⟩ := h
    have := dtClassify_bare hc
    constructor
    · intro ht; subst ht
      simp only [if_true] at this hok
      exact ⟨by rw [this], l, [], by rw [this], hok⟩
    · intro ht; subst ht
      simp only [Bool.false_eq_true, if_false] at this hok
      exact ⟨by rw [this], by rw [this]; exact stmt_allOf (args := []) hok⟩
  · cases h

def pairCheck (n : Bytes) (term : Bool) : Bool :=
  dtArgTerms.contains n == term && stmtOK (if term then tstN else tsN) n 1

theorem pair_cls {n : Bytes} {term : Bool} (v : DArg) (h : pairCheck n term = true) :
    (term = true → TermCls (.pair n v)) ∧ (term = false → StepCls (.pair n v)) := by
  simp only [pairCheck, Bool.and_eq_true, beq_iff_eq] at h
  obtain ⟨hc, hok⟩ := h
  constructor
  · intro ht; subst ht
    simp only [if_true] at hok
    have : dtClassify (.pair n v) = (.nil, stmt n [v.vts]) := by simp only [dtClassify, hc, ↓reduceIte]
    exact ⟨by rw [this], n, [v.vts], by rw [this], hok⟩
  · intro ht; subst ht
    simp only [Bool.false_eq_true, if_false] at hok
    have : dtClassify (.pair n v) = (stmt n [v.vts], .nil) := by
      simp only [dtClassify, hc, Bool.false_eq_true, ↓reduceIte]
    exact ⟨by rw [this], by rw [this]; exact stmt_allOf (args := [v.vts]) hok⟩

theorem en_check (e : EnStep) : bareCheck (lower e.pyName) e.isTerm = true := by
  cases e <;> decide +kernel

theorem arg_check (a : ArgStep) : pairCheck (lower a.pyName) a.isTerm = true := by
  cases a <;> decide +kernel

theorem cls_toDOpt {t : TStep} {d : DOpt} (h : toDOpt t = some d) :
    (t.isTerm = true → TermCls d) ∧ (t.isTerm = false → StepCls d) := by
  cases t with
  | build s => cases h
  | static s v => cases h
  | en e => cases h; exact bare_cls (en_check e)
  | arg a v => cases h; exact pair_cls _ (arg_check a)

theorem cls_recover (r : RStep) :
    (r.isTerm = true → TermCls (recoverOpt r)) ∧ (r.isTerm = false → StepCls (recoverOpt r)) := by
  cases r with
  | append n => exact pair_cls _ (by decide +kernel : pairCheck (b "append") false = true)
  | prepend n => exact pair_cls _ (by decide +kernel : pairCheck (b "prepend") false = true)
  | base64 => exact bare_cls (by decide +kernel : bareCheck (b "base64") false = true)
  | print => exact bare_cls (by decide +kernel : bareCheck (b "print") true = true)
  | netbios => exact bare_cls (by decide +kernel : bareCheck (b "netbios") false = true)
  | netbiosu => exact bare_cls (by decide +kernel : bareCheck (b "netbiosu") false = true)
  | base64url => exact bare_cls (by decide +kernel : bareCheck (b "base64url") false = true)
  | mask => exact bare_cls (by decide +kernel : bareCheck (b "mask") false = true)


/-! ### Part 3c: well-formed groups / recover programs give valid data transforms -/

theorem opts_append (x y : List TStep) : opts (x ++ y) = opts x ++ opts y := by
  simp [opts, List.filterMap_append]

theorem opts_stepCls (l : List TStep) (h : ∀ x ∈ l, x.isTerm = false) : ∀ o ∈ opts l, StepCls o := by
  intro o ho
  simp only [opts, List.mem_filterMap] at ho
  obtain ⟨x, hx, hd⟩ := ho
  exact (cls_toDOpt hd).2 (h x hx)

theorem term_toDOpt {t : TStep} (h : t.isTerm = true) : ∃ d, toDOpt t = some d := by
  cases t with
  | build s => simp [TStep.isTerm] at h
  | static s v => simp [TStep.isTerm] at h
  | en e => exact ⟨_, rfl⟩
  | arg a v => exact ⟨_, rfl⟩

theorem wfGroup_split {g : List TStep} (h : wfGroup g = true) :
    ∃ pre t, g = pre ++ [t] ∧ t.isTerm = true ∧ ∀ x ∈ pre, x.isTerm = false := by
  unfold wfGroup at h
  split at h
  · rename_i t rest hr
    simp only [Bool.and_eq_true, List.all_eq_true, Bool.not_eq_eq_eq_not, Bool.not_true] at h
    refine ⟨rest.reverse, t, ?_, h.1, fun x hx => h.2 x (by simpa using hx)⟩
    have := congrArg List.reverse hr
    simpa using this
  · cases h

theorem dt_ok_group {g : List TStep} (h : wfGroup g = true) : DtOK (opts g) ∧ opts g ≠ [] := by
  obtain ⟨pre, t, rfl, ht, hpre⟩ := wfGroup_split h
  obtain ⟨d, hd⟩ := term_toDOpt ht
  have ho : opts (pre ++ [t]) = opts pre ++ d :: [] := by
    rw [opts_append]; simp [opts, hd]
  rw [ho]
  exact ⟨dt_ok (opts pre) [] d (opts_stepCls pre hpre) ((cls_toDOpt hd).1 ht) (by simp), by simp⟩

theorem filter_one_split {α} (p : α → Bool) : ∀ l : List α, (l.filter p).length = 1 →
    ∃ pre x post, l = pre ++ x :: post ∧ p x = true ∧ (∀ y ∈ pre, p y = false) ∧ (∀ y ∈ post, p y = false) := by
  intro l
  induction l with
  | nil => intro h; simp at h
  | cons a l ih =>
    intro h
    by_cases ha : p a = true
    · refine ⟨[], a, l, rfl, ha, by simp, ?_⟩
      simp only [List.filter_cons, ha, if_true, List.length_cons, Nat.add_eq_right, List.length_eq_zero_iff] at h
      intro y hy
      have : y ∉ l.filter p := by rw [h]; simp
      simpa [List.mem_filter, hy] using this
    · have ha' : p a = false := by simpa using ha
      simp only [List.filter_cons, ha', Bool.false_eq_true, if_false] at h
      obtain ⟨pre, x, post, rfl, hx, hpre, hpost⟩ := ih h
      exact ⟨a :: pre, x, post, rfl, hx, by simpa [ha'] using hpre, hpost⟩

theorem dt_ok_recover {l : List RStep} (h : (l.filter (·.isTerm)).length = 1) : DtOK (l.map recoverOpt) := by
  obtain ⟨pre, x, post, rfl, hx, hpre, hpost⟩ := filter_one_split _ l h
  rw [List.map_append, List.map_cons]
  refine dt_ok _ _ _ ?_ ((cls_recover x).1 hx) ?_
  · intro o ho
    obtain ⟨r, hr, rfl⟩ := List.mem_map.mp ho
    exact (cls_recover r).2 (hpre r hr)
  · intro o ho
    obtain ⟨r, hr, rfl⟩ := List.mem_map.mp ho
    exact (cls_recover r).2 (hpost r hr)

/-! the client block of a well-formed program -/

def clientN : Nat := L "http_get_client_options"

theorem header_fact : stmtOK clientN (b "header") 2 = true := by decide +kernel
theorem parameter_fact : stmtOK clientN (b "parameter") 2 = true := by decide +kernel

theorem pairStmts_allOf {l : Bytes} (h : stmtOK clientN l 2 = true) (ps : List (Bytes × Bytes)) :
    AllOf G0 clientN (pairStmts l ps).intern := by
  unfold pairStmts
  apply flatten_allOf
  intro f hf
  obtain ⟨p, _, rfl⟩ := List.mem_map.mp hf
  exact stmt_allOf (args := [_, _]) h

theorem reqRun_groups {allowed : List Bytes} {prog : List TStep} (h : wfProgram allowed prog = true) :
    (reqRun prog).groups = (splitBuilds prog).map fun sg => (some sg.1, opts sg.2) := by
  simp only [wfProgram, Bool.and_eq_true, List.all_eq_true, decide_eq_true_eq] at h
  obtain ⟨⟨hpre, hnd⟩, hg⟩ := h
  unfold reqRun
  rw [groups_fold]
  have hseg : opts (segment prog) = [] := by
    simp only [opts, List.filterMap_eq_nil_iff]
    intro x hx
    have := hpre x hx
    cases x with
    | static s v => rfl
    | build s => rfl
    | en e => simp [isStatic] at this
    | arg a v => simp [isStatic] at this
  rw [hseg]
  simp only [appendTo, List.foldl_nil]
  have := groups_distinct (splitBuilds prog) [] hnd (by simp) (fun sg hsg => (dt_ok_group (hg sg hsg).2).2)
  simpa [appendTo] using this

theorem request_allOf {allowed : List Bytes} {prog : List TStep} (h : wfProgram allowed prog = true)
    (hb : ∀ s ∈ allowed, blockOK G0 clientN (labelId (some s)) dtN = true) :
    AllOf G0 clientN (requestKids prog).intern := by
  unfold requestKids
  simp only [intern_append]
  refine (pairStmts_allOf header_fact _).append ((pairStmts_allOf parameter_fact _).append ?_)
  rw [reqRun_groups h]
  apply flatten_allOf
  intro f hf
  simp only [List.map_map, List.mem_map, Function.comp] at hf
  obtain ⟨sg, hsg, rfl⟩ := hf
  simp only [wfProgram, Bool.and_eq_true, List.all_eq_true, List.contains_eq_mem, decide_eq_true_eq] at h
  have := h.2 sg hsg
  exact block_allOf (hb sg.1 this.1) (dt_ok_group this.2).1


/-! ### Part 3d: the settings loop keeps every block a list of valid statements -/

/-- nonterminal of the children of each block object -/
def ctxOf : Blk → Nat
  | .profile => L "value"
  | .httpGet => L "http_get_options"
  | .httpPost => L "http_post_options"
  | .stage => L "stage_options"
  | .procInj => L "process_inject_options"
  | .dns => L "dns_beacon_options"
  | .httpBeacon => L "http_beacon_options"
  | .getClient => clientN
  | .postClient => clientN

def stN : Nat := L "stage_transform"
def execN : Nat := L "execute_options"
def gateN : Nat := L "beacon_gate_options"
def httpOptsN : Nat := L "http_options"

/-- the names an action puts into the tree exist in the grammar, in the right context and with the right arity -/
def actOKb : Act → Bool
  | .pass => true
  | .profOpt name => Grammar.optionAlts.contains (toText name)
  | .blkOpt k label => stmtOK (ctxOf k) label 1
  | .blkConst k label _ => stmtOK (ctxOf k) label 1
  | .uris => true
  | .recover => true
  | .request c => c == .getClient || c == .postClient
  | .perms label _ _ => stmtOK (ctxOf .procInj) label 1
  | .injT label => blockOK G0 (ctxOf .procInj) (labelId (some label)) stN
  | .execute => true
  | .allocator => true
  | .gate => true

theorem table_ok : actionTable.all (fun e => actOKb e.2.2) = true := by decide +kernel

theorem actionOf_ok (idx : Nat) (v : PVal) : actOKb (actionOf idx v) = true := by
  unfold actionOf
  split
  · rename_i x g a hf
    have hm := List.mem_of_find?_eq_some hf
    have := List.all_eq_true.mp table_ok _ hm
    split
    · rfl
    · exact this
  · rfl

theorem option_fact : tokShapeOK G0 (L "value") (L "option") tO [strN] = true := by decide +kernel
theorem uri_fact : stmtOK (ctxOf .httpGet) (b "uri") 1 = true := by decide +kernel
theorem allocator_fact : stmtOK (ctxOf .procInj) (b "allocator") 1 = true := by decide +kernel
theorem st_prepend_fact : stmtOK stN (b "prepend") 1 = true := by decide +kernel
theorem st_append_fact : stmtOK stN (b "append") 1 = true := by decide +kernel
theorem execute_fact : blockOK G0 (ctxOf .procInj) (L "execute") execN = true := by decide +kernel
theorem exec_ct_fact : stmtOK execN (b "createthread_special") 1 = true := by decide +kernel
theorem exec_crt_fact : stmtOK execN (b "createremotethread_special") 1 = true := by decide +kernel
theorem exec_enable_fact : execEnable.all (fun s => stmtOK execN (dashToUnderscore (lower s)) 0) = true := by
  decide +kernel
theorem gate_fact : blockOK G0 (ctxOf .stage) (L "beacon_gate") gateN = true := by decide +kernel
theorem gate_names_fact : gateLabels.all (fun s => stmtOK gateN (lower s) 0) = true := by decide +kernel
theorem build_facts : [k "metadata", k "output", k "id"].all (fun s => blockOK G0 clientN (labelId (some s)) dtN) = true := by
  decide +kernel
theorem server_fact : blockOK G0 (ctxOf .httpGet) (L "server") httpOptsN = true := by decide +kernel
theorem server_output_fact : blockOK G0 httpOptsN (L "output") dtN = true := by decide +kernel
theorem get_client_fact : blockOK G0 (ctxOf .httpGet) (L "client") clientN = true := by decide +kernel
theorem post_client_fact : blockOK G0 (ctxOf .httpPost) (L "client") clientN = true := by decide +kernel
theorem top_facts :
    blockOK G0 (L "value") (L "http_get") (ctxOf .httpGet) = true ∧
    blockOK G0 (L "value") (L "http_post") (ctxOf .httpPost) = true ∧
    blockOK G0 (L "value") (L "stage") (ctxOf .stage) = true ∧
    blockOK G0 (L "value") (L "process_inject") (ctxOf .procInj) = true ∧
    blockOK G0 (L "value") (L "dns_beacon") (ctxOf .dns) = true ∧
    blockOK G0 (L "value") (L "http_beacon") (ctxOf .httpBeacon) = true := by decide +kernel

def rootOKb : Bool :=
  G0.forms.any fun f => label f == L "start" && blockShape f.items == some (L "value")
theorem root_fact : rootOKb = true := by decide +kernel

/-- the invariant of the loop -/
structure Inv (st : St) : Prop where
  blocks : ∀ k, AllOf G0 (ctxOf k) (st.f k).intern
  recov : st.recover = [] ∨ DtOK st.recover

theorem inv_init : Inv St.init := ⟨fun _ => .nil, .inl rfl⟩

theorem inv_app {st : St} (h : Inv st) (k : Blk) {g : PForest} (hg : AllOf G0 (ctxOf k) g.intern) : Inv (st.app k g) := by
  refine ⟨fun k' => ?_, h.recov⟩
  simp only [St.app]
  split
  · rename_i he; subst he; rw [intern_append]; exact (h.blocks k').append hg
  · exact h.blocks k'

theorem optStmt_allOf (name s : Bytes) : AllOf G0 (L "value") (optStmt name s).intern := by
  simp only [optStmt, PForest.intern, if_true]
  exact .cons (nodeOK_of_tok ids_G0 option_fact (strKids_nodesOK [s])) .nil

theorem wfScalar_vts {v : PVal} (h : wfScalar v = true) : ∃ s, vts v = some s := by
  cases v <;> simp [wfScalar] at h <;> exact ⟨_, rfl⟩

/-- the text between the quotes of the literal `value_to_string` writes for a scalar is the promised literal `lit` -/
theorem unquote_vts {v : PVal} {s : Bytes} (hw : wfScalar v = true) (h : vts v = some s) : unquote s = lit v := by
  cases v with
  | int n =>
    simp only [vts, Option.some.injEq] at h
    subst h
    exact C12.token_slice (decBytes n)
  | str t => simp only [vts, Option.some.injEq] at h; subst h; rfl
  | bytes t => simp only [vts, Option.some.injEq] at h; subst h; rfl
  | _ => simp [wfScalar] at hw

theorem execItem_ok (s : Bytes) : ∃ f, execItem (some s) = .ok f ∧ AllOf G0 execN f.intern := by
  refine ⟨_, rfl, ?_⟩
  rw [intern_append]
  refine AllOf.append ?_ ?_
  · split
    · dsimp only
      split
      · exact stmt_allOf (args := [_]) exec_ct_fact
      · split
        · exact stmt_allOf (args := [_]) exec_crt_fact
        · exact .nil
    · exact .nil
  · split
    · rename_i hc
      have hm : s ∈ execEnable := by simpa using hc
      exact stmt_allOf (args := []) (List.all_eq_true.mp exec_enable_fact s hm)
    · exact .nil

theorem execKids_ok (l : List (Option Bytes)) (h : l.all wfExecItem = true) :
    ∃ f, execKids l = .ok f ∧ AllOf G0 execN f.intern := by
  induction l with
  | nil => exact ⟨.nil, rfl, .nil⟩
  | cons i is ih =>
    simp only [List.all_cons, Bool.and_eq_true] at h
    obtain ⟨r, hr, har⟩ := ih h.2
    cases i with
    | none => simp [wfExecItem] at h
    | some s =>
      obtain ⟨f, hf, haf⟩ := execItem_ok s
      refine ⟨f ++ r, ?_, ?_⟩
      · simp only [execKids, hf, hr]
      · rw [intern_append]; exact haf.append har

theorem injKids_allOf (l : List (Bool × Bytes)) : AllOf G0 stN (injKids l).intern := by
  unfold injKids
  rw [intern_append]
  refine AllOf.append ?_ ?_
  · split
    · split
      · exact .nil
      · exact stmt_allOf (args := [_]) st_prepend_fact
    · exact .nil
  · split
    · split
      · exact .nil
      · exact stmt_allOf (args := [_]) st_append_fact
    · exact .nil

theorem gateKids_allOf (l : List Bytes) (h : l.all gateLabels.contains = true) :
    AllOf G0 gateN (PForest.flatten (l.map fun s => stmt (lower s) [])).intern := by
  apply flatten_allOf
  intro f hf
  obtain ⟨s, hs, rfl⟩ := List.mem_map.mp hf
  have hm : s ∈ gateLabels := by
    have := List.all_eq_true.mp h s hs
    simpa using this
  exact stmt_allOf (args := []) (List.all_eq_true.mp gate_names_fact s hm)

/-- one branch of the chain: well-formed value in, no exception, invariant kept -/
theorem runAct_inv (uris : List (Option Bytes)) (st : St) (v : PVal) (a : Act) (ha : actOKb a = true)
    (hw : wfAct a v = true) (hi : Inv st) : ∃ st', runAct uris st v a = .ok st' ∧ Inv st' := by
  cases a with
  | pass => exact ⟨st, rfl, hi⟩
  | profOpt name =>
    obtain ⟨s, hs⟩ := wfScalar_vts (by simpa [wfAct] using hw)
    exact ⟨_, by simp only [runAct, hs], inv_app hi .profile (optStmt_allOf name s)⟩
  | blkOpt k label =>
    obtain ⟨s, hs⟩ := wfScalar_vts (by simpa [wfAct] using hw)
    exact ⟨_, by simp only [runAct, hs], inv_app hi k (stmt_allOf (args := [s]) ha)⟩
  | blkConst k label text =>
    exact ⟨_, rfl, inv_app hi k (stmt_allOf (args := [_]) ha)⟩
  | uris =>
    simp only [runAct]
    split
    · exact ⟨st, rfl, hi⟩
    · exact ⟨_, rfl, inv_app hi .httpGet (stmt_allOf (args := [_]) uri_fact)⟩
  | recover =>
    cases v with
    | recover l =>
      refine ⟨_, rfl, ⟨hi.blocks, .inr (dt_ok_recover ?_)⟩⟩
      simpa [wfAct] using hw
    | _ => simp [wfAct] at hw
  | request c =>
    have hb := List.all_eq_true.mp build_facts
    cases v with
    | transform prog =>
      have hc : ctxOf c = clientN := by
        simp only [actOKb, Bool.or_eq_true, beq_iff_eq] at ha
        rcases ha with rfl | rfl <;> rfl
      refine ⟨_, rfl, inv_app hi c ?_⟩
      rw [hc]
      cases c with
      | getClient =>
        exact request_allOf (allowed := [k "metadata", k "output"]) (by simpa [wfAct] using hw)
          (fun s hs => hb s (by simp at hs ⊢; rcases hs with rfl | rfl <;> simp))
      | postClient =>
        exact request_allOf (allowed := [k "id", k "output"]) (by simpa [wfAct] using hw)
          (fun s hs => hb s (by simp at hs ⊢; rcases hs with rfl | rfl <;> simp))
      | _ => simp [actOKb] at ha
    | _ => cases c <;> simp [wfAct] at hw
  | perms label t f =>
    simp only [runAct]
    split
    · exact ⟨_, rfl, inv_app hi .procInj (stmt_allOf (args := [_]) ha)⟩
    · split
      · exact ⟨_, rfl, inv_app hi .procInj (stmt_allOf (args := [_]) ha)⟩
      · exact ⟨st, rfl, hi⟩
  | injT label =>
    cases v with
    | inj l =>
      simp only [runAct]
      split
      · exact ⟨st, rfl, hi⟩
      · exact ⟨_, rfl, inv_app hi .procInj (block_allOf ha (injKids_allOf l))⟩
    | _ => simp [wfAct] at hw
  | execute =>
    cases v with
    | execute l =>
      obtain ⟨f, hf, haf⟩ := execKids_ok l (by simpa [wfAct] using hw)
      simp only [runAct, hf]
      split
      · exact ⟨st, rfl, hi⟩
      · exact ⟨_, rfl, inv_app hi .procInj (block_allOf execute_fact haf)⟩
    | _ => simp [wfAct] at hw
  | allocator =>
    exact ⟨_, rfl, inv_app hi .procInj (stmt_allOf (args := [_]) allocator_fact)⟩
  | gate =>
    cases v with
    | gate l =>
      exact ⟨_, rfl, inv_app hi .stage (block_allOf gate_fact (gateKids_allOf l (by simpa [wfAct] using hw)))⟩
    | _ => simp [wfAct] at hw


/-! ### Part 3e: the whole loop and the statements after it -/

theorem wfSetting_act {idx : Nat} {v : PVal} (h : wfSetting (idx, v) = true) :
    wfAct (actionOf idx v) v = true := by
  unfold wfSetting at h
  unfold actionOf
  split at h
  · rename_i hf
    simp only at hf
    rw [hf]; rfl
  · rename_i x g a hf
    simp only at hf
    rw [hf]
    dsimp only
    split
    · rfl
    · exact h

theorem runSettings_inv (uris : List (Option Bytes)) (cfg : List (Nat × PVal)) :
    ∀ st, cfg.all wfSetting = true → Inv st → ∃ st', runSettings uris st cfg = .ok st' ∧ Inv st' := by
  induction cfg with
  | nil => intro st _ hi; exact ⟨st, rfl, hi⟩
  | cons kv rest ih =>
    intro st hw hi
    simp only [List.all_cons, Bool.and_eq_true] at hw
    obtain ⟨st1, h1, hi1⟩ := runAct_inv uris st kv.2 (actionOf kv.1 kv.2) (actionOf_ok _ _) (wfSetting_act hw.1) hi
    obtain ⟨st2, h2, hi2⟩ := ih st1 hw.2 hi1
    exact ⟨st2, by simp only [runSettings, stepOne, h1, h2], hi2⟩

theorem addNonEmpty_allOf {ctx m : Nat} {parent kids : PForest} {lbl : Bytes} (hp : AllOf G0 ctx parent.intern)
    (hb : blockOK G0 ctx (labelId (some lbl)) m = true) (hk : AllOf G0 m kids.intern) :
    AllOf G0 ctx (addNonEmpty parent lbl kids).intern := by
  unfold addNonEmpty
  split
  · exact hp
  · rw [intern_append]; exact hp.append (block_allOf hb hk)

theorem finalize_valid {st : St} (hi : Inv st) : ValidTree G0 (finalize st).intern := by
  obtain ⟨hget, hpost, hstage, hinj, hdns, hhb⟩ := top_facts
  have hg1 : AllOf G0 (ctxOf .httpGet)
      (if st.recover.isEmpty then st.f .httpGet
        else addNonEmpty (st.f .httpGet) (b "server") (block (some (b "output")) (dtKids st.recover))).intern := by
    split
    · exact hi.blocks .httpGet
    · rename_i hne
      rcases hi.recov with he | hd
      · simp [he] at hne
      · exact addNonEmpty_allOf (hi.blocks .httpGet) server_fact (block_allOf server_output_fact hd)
  have hg2 := addNonEmpty_allOf hg1 get_client_fact (hi.blocks .getClient)
  have hp1 := addNonEmpty_allOf (hi.blocks .profile) hget hg2
  have hpo := addNonEmpty_allOf (hi.blocks .httpPost) post_client_fact (hi.blocks .postClient)
  have hp2 := addNonEmpty_allOf hp1 hpost hpo
  have hp3 := addNonEmpty_allOf hp2 hstage (hi.blocks .stage)
  have hp4 := addNonEmpty_allOf hp3 hinj (hi.blocks .procInj)
  have hp5 := addNonEmpty_allOf hp4 hdns (hi.blocks .dns)
  have hp6 := addNonEmpty_allOf hp5 hhb (hi.blocks .httpBeacon)
  have hr := root_fact
  simp only [rootOKb, List.any_eq_true, Bool.and_eq_true, beq_iff_eq] at hr
  obtain ⟨f, hm, hl, hs⟩ := hr
  exact ⟨f, C10.idsOK_has G0 ids_G0 hm, hl, derives_block hs hp6⟩

theorem total_and_valid {cfg : List (Nat × PVal)} {uris : List (Option Bytes)} (h : WellFormedCfg cfg = true) :
    ∃ t, fromBeaconConfig cfg uris = .ok t ∧ ValidTree G0 t.intern := by
  simp only [WellFormedCfg, Bool.and_eq_true] at h
  obtain ⟨st, hs, hi⟩ := runSettings_inv uris cfg St.init h.2 inv_init
  exact ⟨finalize st, by simp only [fromBeaconConfig, hs], finalize_valid hi⟩


/-! ### Part 4: the generated obligations (definitions; the theorems are in Props/C13.lean)

`Gen.ProfileGen` lists, by introspection of the source as it is now, every name `from_beacon_config` can put into a tree
together with the block path it is put under.  The checks below walk the generated grammar from the root along the
block path and look for a production with that label and that number of literals. -/

/-- id of a name of the generated grammar -/
def idOf (t : C10.Text) : Nat := Grammar.nameCodes.idxOf t

/-- nonterminal of the children of a block labelled `l` standing where `ctx` is expected -/
def kidsNt (ctx : Nat) (l : C10.Text) : Option Nat :=
  (G0.forms.find? fun f => f.origin == ctx && label f == idOf l && (blockShape f.items).isSome).bind
    fun f => blockShape f.items

/-- nonterminal of the children of the root -/
def rootKids : Option Nat :=
  (G0.forms.find? fun f => label f == G0.start && (blockShape f.items).isSome).bind fun f => blockShape f.items

/-- nonterminal of the children of the block reached from the root through the labels `path` -/
def ctxOfPath (path : List C10.Text) : Option Nat :=
  path.foldl (fun c l => c.bind fun n => kidsNt n l) rootKids

def strId : Nat := idOf [115, 116, 114, 105, 110, 103]

/-- statement `label` with `k` literals exists below the block at `path` -/
def stmtAt (path : List C10.Text) (l : C10.Text) (k : Nat) : Bool :=
  match ctxOfPath path with
  | some n => nodesShapeOK G0 n (idOf l) (List.replicate k strId)
  | none => false

open Gen.ProfileGen in
def emittedOptionsOK : Bool :=
  options.all (fun o => Grammar.optionAlts.contains o.2) &&
  (match rootKids with
   | some n => tokShapeOK G0 n (idOf [111, 112, 116, 105, 111, 110]) Grammar.termOPTION [strId]
   | none => false)

open Gen.ProfileGen in
def emittedStmtsOK : Bool := stmts.all fun s => stmtAt s.2.1 s.2.2.1 s.2.2.2

open Gen.ProfileGen in
def emittedBlocksOK : Bool := blocks.all fun p => (ctxOfPath p).isSome

open Gen.ProfileGen in
def emittedExecuteOK : Bool :=
  executeEnable.all (fun e => stmtAt executePath e.2 0) && executeSpecial.all (fun e => stmtAt executePath e.2 1)

open Gen.ProfileGen in
def emittedGateOK : Bool := gateNames.all fun e => stmtAt gatePath e.2 0

/-- the three fixed levels below a data-transform block: `data_transform`, `steps` / `termination`, and the contexts of
their statements -/
def dtContexts (dtCtx : Nat) : Option (Nat × Nat) :=
  match G0.forms.find? (fun f => f.origin == dtCtx && C10.visible f.items matches [.nt _, .nt _]) with
  | some f =>
    match C10.visible f.items with
    | [.nt s, .nt t] =>
      match G0.forms.find? (fun g => g.origin == s && (blockShape g.items).isSome),
            G0.forms.find? (fun g => g.origin == t && C10.visible g.items matches [.nt _]) with
      | some gs, some gt =>
        match blockShape gs.items, C10.visible gt.items with
        | some a, [.nt c] => if label f == dtCtx && label gs == s && label gt == t then some (a, c) else none
        | _, _ => none
      | _, _ => none
    | _ => none
  | none => none

open Gen.ProfileGen in
def emittedTransformsOK : Bool :=
  (buildNames.all fun bn =>
    dtBlocks.all fun d => d.1 != bn.1 ||
      match ctxOfPath (d.2 ++ [bn.2]) with
      | some n =>
        match dtContexts n with
        | some (a, c) =>
          Gen.ProfileGen.dtFlagSteps.all (fun l => nodesShapeOK G0 a (idOf l) []) &&
          Gen.ProfileGen.dtArgSteps.all (fun l => nodesShapeOK G0 a (idOf l) [strId]) &&
          Gen.ProfileGen.dtFlagTerminations.all (fun l => nodesShapeOK G0 c (idOf l) []) &&
          Gen.ProfileGen.dtArgTerminations.all (fun l => nodesShapeOK G0 c (idOf l) [strId])
        | none => false
      | none => false) &&
  (match ctxOfPath serverOutput with
   | some n => (dtContexts n).isSome
   | none => false)


/-! the hand-written tables of the model are the ones the source code has now -/

/-- labels under which the block objects are attached to the profile -/
def pathOf : Blk → List Bytes
  | .profile => []
  | .httpGet => [b "http_get"]
  | .httpPost => [b "http_post"]
  | .stage => [b "stage"]
  | .procInj => [b "process_inject"]
  | .dns => [b "dns_beacon"]
  | .httpBeacon => [b "http_beacon"]
  | .getClient => [b "http_get", b "client"]
  | .postClient => [b "http_post", b "client"]

def modelOptions : List (Nat × C10.Text) :=
  actionTable.filterMap fun e => match e.2.2 with
    | .profOpt n => some (e.1, toText n)
    | _ => none

/-- (setting, block path, label, number of literals) of every `set_option` / `_pair` call of the model -/
def modelStmts : List (Nat × List C10.Text × C10.Text × Nat) :=
  actionTable.flatMap fun e =>
    let mk (p : List Bytes) (l : Bytes) (n : Nat) := (e.1, p.map toText, toText l, n)
    match e.2.2 with
    | .blkOpt k l => [mk (pathOf k) l 1]
    | .blkConst k l _ => [mk (pathOf k) l 1]
    | .uris => [mk (pathOf .httpGet) (b "uri") 1]
    | .request c => [mk (pathOf c) (b "header") 2, mk (pathOf c) (b "parameter") 2]
    | .perms l _ _ => [mk (pathOf .procInj) l 1]
    | .injT l => [mk (pathOf .procInj ++ [l]) (b "prepend") 1, mk (pathOf .procInj ++ [l]) (b "append") 1]
    | .execute => [mk (pathOf .procInj ++ [b "execute"]) (b "createthread_special") 1,
                   mk (pathOf .procInj ++ [b "execute"]) (b "createremotethread_special") 1]
    | .allocator => [mk (pathOf .procInj) (b "allocator") 1]
    | _ => []

def modelLiterals : List (Nat × C10.Text) :=
  actionTable.flatMap fun e => match e.2.2 with
    | .blkConst _ _ t => [(e.1, toText t)]
    | .perms _ _ _ => [(e.1, toText (b "true")), (e.1, toText (b "false"))]
    | .allocator => [(e.1, toText (b "NtMapViewOfSection")), (e.1, toText (b "VirtualAllocEx"))]
    | _ => []

def sameSet {α} [BEq α] (x y : List α) : Bool := x.all y.contains && y.all x.contains


/-- the Reconstructor obligation of C10 on the table as it is now (also `C10.gen_printWF`) -/
theorem printWF_G0 : C10.PrintWF G0 = true := by decide +kernel

/-- printing the tree of a derivation gives its token sequence (C10's `print_eq_source`) -/
theorem print_of_deriv (d : C10.Deriv) (hd : d.WF G0 = true) : C10.printTree G0 (C10.toTree d) = some d.yield := by
  unfold C10.Deriv.WF at hd
  simp only [Bool.and_eq_true] at hd
  unfold C10.printTree C10.toTree C10.Deriv.yield
  simp only [C10.printKids_parts G0 printWF_G0 hd.2]
  exact C10.printNode_self G0 printWF_G0 hd.1 hd.2

/-! ### dict semantics of `settings_by_index` -/

theorem dictInsert_keys (kv : Nat × PVal) (d : List (Nat × PVal)) :
    (dictInsert kv d).map (·.1) = if kv.1 ∈ d.map (·.1) then d.map (·.1) else d.map (·.1) ++ [kv.1] := by
  induction d with
  | nil => simp [dictInsert]
  | cons x xs ih =>
    simp only [dictInsert]
    split
    · rename_i h; simp [h]
    · rename_i h
      simp only [List.map_cons, ih, List.mem_cons]
      have : ¬ kv.1 = x.1 := fun e => h e.symm
      simp only [this, false_or]
      split <;> simp

theorem dictInsert_nodup (kv : Nat × PVal) (d : List (Nat × PVal)) (h : (d.map (·.1)).Nodup) :
    ((dictInsert kv d).map (·.1)).Nodup := by
  rw [dictInsert_keys]
  split
  · exact h
  · rename_i hn
    rw [List.nodup_append]
    exact ⟨h, by simp, by intro a ha b hb; simp at hb; subst hb; exact fun e => hn (e ▸ ha)⟩

theorem settingsByIndex_keys_nodup (tlvs : List (Nat × PVal)) : ((settingsByIndex tlvs).map (·.1)).Nodup := by
  unfold settingsByIndex
  suffices ∀ d : List (Nat × PVal), (d.map (·.1)).Nodup → ((tlvs.foldl (fun d kv => dictInsert kv d) d).map (·.1)).Nodup from
    this [] (by simp)
  induction tlvs with
  | nil => intro d h; exact h
  | cons kv rest ih => intro d h; exact ih _ (dictInsert_nodup kv d h)


/-! ### Part 5: the dictionary of the generated tree -/

theorem reparsed_append (x y : PForest) : (x ++ y).reparsed = x.reparsed ++ y.reparsed := by
  show (PForest.append x y).reparsed = PForest.append x.reparsed y.reparsed
  induction x with
  | nil => rfl
  | tok o t r ih => simp [PForest.append, PForest.reparsed, ih]
  | node l k r _ ih =>
    simp only [PForest.append, PForest.reparsed]
    split
    · exact ih
    · simp [PForest.append, ih]

theorem specForest_nil (ctx : Nat) (path : List Bytes) : specForest ctx path .nil = [] := by rw [specForest.eq_def]

theorem specForest_tok (ctx : Nat) (path : List Bytes) (o : Bool) (t : Bytes) (r : PForest) :
    specForest ctx path (.tok o t r) = specForest ctx path r := by rw [specForest.eq_def]

theorem specForest_node (ctx : Nat) (path : List Bytes) (l : Option Bytes) (ks r : PForest) :
    specForest ctx path (.node l ks r) =
      (match nodeInfo ctx l with
        | .dt =>
          match ks with
          | .node _ steps (.node _ terms .nil) =>
            specForest (ntId "transform_statement") path steps ++ specForest (ntId "termination_statement") path terms
          | _ => []
        | .block m kw => specForest m (pushKw path kw) ks
        | .leaf kw => leafEntry path kw ks.tokens
        | .unknown => []) ++ specForest ctx path r := by rw [specForest.eq_def]; rfl

theorem specForest_append (ctx : Nat) (path : List Bytes) (x y : PForest) :
    specForest ctx path (x ++ y) = specForest ctx path x ++ specForest ctx path y := by
  show specForest ctx path (PForest.append x y) = _
  induction x with
  | nil => simp [PForest.append, specForest_nil]
  | tok o t r ih => simp [PForest.append, specForest_tok, ih]
  | node l k r _ ih => simp [PForest.append, specForest_node, ih]

theorem reparsed_flatten (fs : List PForest) : (PForest.flatten fs).reparsed = PForest.flatten (fs.map (·.reparsed)) := by
  induction fs with
  | nil => rfl
  | cons f fs ih => simp [flatten_cons, reparsed_append, ih]

theorem specForest_flatten (ctx : Nat) (path : List Bytes) (fs : List PForest) :
    specForest ctx path (PForest.flatten fs) = fs.flatMap (specForest ctx path) := by
  induction fs with
  | nil => rfl
  | cons f fs ih => simp [flatten_cons, specForest_append, ih]

theorem isComment_string : isComment (some (b "string")) = false := by decide +kernel

theorem strKids_reparsed (args : List Bytes) : (strKids args).reparsed = strKids args := by
  induction args with
  | nil => rfl
  | cons a as ih => simp [strKids, PForest.reparsed, isComment_string, ih]

theorem strKids_tokens (args : List Bytes) : (strKids args).tokens = args := by
  induction args with
  | nil => rfl
  | cons a as ih => simp [strKids, PForest.tokens, ih]

theorem spec_stmt {ctx : Nat} {l : Bytes} {kw : Option Bytes} (path : List Bytes) (args : List Bytes)
    (hc : isComment (some l) = false) (h : nodeInfo ctx (some l) = .leaf kw) :
    specForest ctx path (stmt l args).reparsed = leafEntry path kw args := by
  simp only [stmt, PForest.reparsed, hc, Bool.false_eq_true, if_false, strKids_reparsed, specForest_node, h,
    strKids_tokens, specForest_nil, List.append_nil]

theorem spec_comment {ctx : Nat} {l : Bytes} (path : List Bytes) (args : List Bytes) (hc : isComment (some l) = true) :
    specForest ctx path (stmt l args).reparsed = [] := by
  simp [stmt, PForest.reparsed, hc, specForest_nil]

theorem spec_block {ctx m : Nat} {l : Bytes} {kw : Option Bytes} (path : List Bytes) (kids : PForest)
    (hc : isComment (some l) = false) (h : nodeInfo ctx (some l) = .block m kw) :
    specForest ctx path (block (some l) kids).reparsed = specForest m (pushKw path kw) kids.reparsed := by
  simp only [block, PForest.reparsed, hc, Bool.false_eq_true, if_false, specForest_node, h, specForest_nil,
    List.append_nil]

theorem spec_optStmt (path : List Bytes) (name s : Bytes) (hc : isComment (some (b "option")) = false)
    (h : nodeInfo (L "value") (some (b "option")) = .leaf Option.none) :
    specForest (L "value") path (optStmt name s).reparsed = leafEntry path Option.none [name, s] := by
  simp only [optStmt, PForest.reparsed, hc, Bool.false_eq_true, if_false, strKids_reparsed, specForest_node, h,
    PForest.tokens, strKids_tokens, specForest_nil, List.append_nil]

theorem dtLabel_facts : isComment (some (b "data_transform")) = false ∧ isComment (some (b "steps")) = false ∧
    isComment (some (b "termination")) = false := by decide +kernel

theorem dt_info (ctx : Nat) : nodeInfo ctx (some (b "data_transform")) = .dt := by
  simp [nodeInfo]

theorem spec_dtKids (ctx : Nat) (path : List Bytes) (ds : List DOpt) :
    specForest ctx path (dtKids ds).reparsed =
      specForest tsN path (dtSteps ds).reparsed ++ specForest tstN path (dtTerms ds).reparsed := by
  obtain ⟨h1, h2, h3⟩ := dtLabel_facts
  simp only [dtKids, PForest.reparsed, h1, h2, h3, Bool.false_eq_true, if_false, specForest_node, dt_info,
    specForest_nil, List.append_nil]
  rfl


section StrLit
open C12 (dq sq bsl Txt replaceGo strReplace valueToStringStr Esc)

/-! ### Part 5b: `value_to_string` on text without a backslash -/

/-- text of one character of a `str` value inside the generated literal -/
def strUnit (c : UInt8) : Txt := if c = dq then [bsl, dq] else [c]

theorem replace_dq (s : Txt) : replaceGo [dq] [bsl, dq] s 0 = s.flatMap strUnit := by
  induction s with
  | nil => simp [replaceGo]
  | cons c cs ih =>
    rw [C12.replaceGo_cons_zero]
    by_cases h : c = dq
    · subst h; simp [List.isPrefixOf, strUnit, ih]
    · have : [dq].isPrefixOf (c :: cs) = false := by simp [List.isPrefixOf, Ne.symm h]
      simp [this, strUnit, h, ih]

/-- no backslash is followed by a single quote -/
def noBslSq : Txt → Bool
  | c :: d :: r => !(c == bsl && d == sq) && noBslSq (d :: r)
  | _ => true

theorem replace_bslsq_id (t : Txt) (h : noBslSq t = true) : replaceGo [bsl, sq] [sq] t 0 = t := by
  induction t with
  | nil => simp [replaceGo]
  | cons c cs ih =>
    rw [C12.replaceGo_cons_zero]
    cases cs with
    | nil => simp [List.isPrefixOf, replaceGo]
    | cons d r =>
      simp only [noBslSq, Bool.and_eq_true, Bool.not_eq_eq_eq_not, Bool.not_true, Bool.and_eq_false_iff, beq_eq_false_iff_ne] at h
      have hp : [bsl, sq].isPrefixOf (c :: d :: r) = false := by
        simp only [List.isPrefixOf, Bool.and_true, Bool.and_eq_false_iff, beq_eq_false_iff_ne]
        rcases h.1 with h1 | h1
        · exact .inl (Ne.symm h1)
        · exact .inr (Ne.symm h1)
      simp [hp, ih h.2]

theorem noBslSq_units (s : Txt) (h : noBackslash s = true) : noBslSq (s.flatMap strUnit) = true := by
  induction s with
  | nil => rfl
  | cons c cs ih =>
    have hc : c ≠ bsl := by
      intro e; subst e; simp [noBackslash] at h
    have hcs : noBackslash cs = true := by
      simp only [noBackslash, List.contains_cons, Bool.not_eq_eq_eq_not, Bool.not_true, Bool.or_eq_false_iff] at h ⊢
      exact h.2
    have ih' := ih hcs
    simp only [List.flatMap_cons]
    by_cases hq : c = dq
    · subst hq
      simp only [strUnit, if_true, List.cons_append, List.nil_append]
      cases hr : cs.flatMap strUnit with
      | nil => decide
      | cons d r =>
        rw [hr] at ih'
        have h1 : (bsl == bsl && dq == sq) = false := by decide
        have h2 : (dq == bsl) = false := by decide
        simp only [noBslSq, ih', Bool.and_true, h1, h2, Bool.false_and, Bool.not_false]
    · simp only [strUnit, hq, if_false, List.cons_append, List.nil_append]
      cases hr : cs.flatMap strUnit with
      | nil => rfl
      | cons d r =>
        rw [hr] at ih'
        simp [noBslSq, ih', hc]

theorem valueToStringStr_eq (s : Txt) (h : noBackslash s = true) :
    valueToStringStr s = dq :: (s.flatMap strUnit ++ [dq]) := by
  unfold valueToStringStr
  simp only [strReplace]
  rw [if_neg (by simp), if_neg (by simp), replace_dq, replace_bslsq_id _ (noBslSq_units s h)]
  rfl

def strEsc (c : UInt8) : Esc := if c = dq then .dquote else .plain c

/-- the literal of a text value without backslash decodes to that text -/
theorem str_roundtrip (s : Txt) (h : noBackslash s = true) : C12.stringTokenToBytes (valueToStringStr s) = .ok s := by
  have hu : s.flatMap strUnit = (s.map strEsc).flatMap Esc.text := by
    clear h
    induction s with
    | nil => rfl
    | cons c cs ih =>
      simp only [List.flatMap_cons, List.map_cons, ih]
      congr 1
      unfold strUnit strEsc
      split <;> rfl
  have hv : (s.map strEsc).flatMap Esc.vals = s := by
    clear h hu
    induction s with
    | nil => rfl
    | cons c cs ih =>
      simp only [List.flatMap_cons, List.map_cons, ih]
      unfold strEsc
      split
      · rename_i hq; subst hq; rfl
      · rfl
  rw [valueToStringStr_eq s h, hu, C12.decode_units_eq _ ?_, hv]
  intro e he
  obtain ⟨c, hc, rfl⟩ := List.mem_map.mp he
  unfold strEsc
  split
  · trivial
  · show c ≠ bsl
    intro e; subst e
    simp [noBackslash, hc] at h

theorem replicateX_noBackslash (n : Nat) : noBackslash (List.replicate n 88) = true := by
  simp only [noBackslash, Bool.not_eq_eq_eq_not, Bool.not_true, List.contains_eq_mem, decide_eq_false_iff_not,
    List.mem_replicate, not_and]
  intro _ h; cases h


end StrLit

/-! ### Part 5c: entries of statements and of data transforms -/

theorem leafEntry_one {path : List Bytes} (hl : listProps.contains path = false) (kw s : Bytes) :
    leafEntry path (some kw) [s] = [(path ++ [kw], .raw (unquote s))] := by
  unfold leafEntry; rw [if_neg (by rw [hl]; exact Bool.false_ne_true)]

theorem leafEntry_two {path : List Bytes} (hl : listProps.contains path = false) (kw x y : Bytes) :
    leafEntry path (some kw) [x, y] = [(path ++ [kw], .pair (unquote x) (unquote y))] := by
  unfold leafEntry; rw [if_neg (by rw [hl]; exact Bool.false_ne_true)]

theorem leafEntry_zero (path : List Bytes) (kw : Bytes) : leafEntry path (some kw) [] = [(path, .kw kw)] := by
  unfold leafEntry; split <;> rfl

theorem leafEntry_opt {path : List Bytes} (hl : listProps.contains path = false) (name s : Bytes) :
    leafEntry path Option.none [name, s] = [(path ++ [name], .raw (unquote s))] := by
  unfold leafEntry; rw [if_neg (by rw [hl]; exact Bool.false_ne_true)]

theorem leafEntry_list {path : List Bytes} (hl : listProps.contains path = true) (kw t : Bytes) :
    leafEntry path (some kw) [t] = [(path, .tuple kw [C12.stringTokenToBytes t])] := by
  unfold leafEntry; rw [if_pos hl]; rfl

/-- a statement with label `l` in context `ctx` is filed under keyword `kw` (and is not the resolver comment) -/
def leafOK (ctx : Nat) (l : Bytes) (kw : Bytes) : Bool :=
  !isComment (some l) && nodeInfo ctx (some l) == .leaf (some kw)

/-- a block with label `l` in context `ctx`: children in `m`, keyword `kw` -/
def blockInfoOK (ctx : Nat) (l : Bytes) (m : Nat) (kw : Bytes) : Bool :=
  !isComment (some l) && nodeInfo ctx (some l) == .block m (some kw)

theorem spec_stmt' {ctx : Nat} {l kw : Bytes} (h : leafOK ctx l kw = true) (path : List Bytes) (args : List Bytes) :
    specForest ctx path (stmt l args).reparsed = leafEntry path (some kw) args := by
  simp only [leafOK, Bool.and_eq_true, Bool.not_eq_eq_eq_not, Bool.not_true, beq_iff_eq] at h
  exact spec_stmt path args h.1 h.2

theorem spec_block' {ctx m : Nat} {l kw : Bytes} (h : blockInfoOK ctx l m kw = true) (path : List Bytes) (kids : PForest) :
    specForest ctx path (block (some l) kids).reparsed = specForest m (path ++ [kw]) kids.reparsed := by
  simp only [blockInfoOK, Bool.and_eq_true, Bool.not_eq_eq_eq_not, Bool.not_true, beq_iff_eq] at h
  exact spec_block path kids h.1 h.2

/-- entry of a one-literal statement with a `bytes` argument: exact bytes inside a list property, literal text elsewhere -/
theorem leafEntry_bytes (path : List Bytes) (kw v : Bytes) :
    leafEntry path (some kw) [C12.valueToString v] =
      if listProps.contains path then [(path, .tuple kw [.ok v])] else [(path ++ [kw], .raw (litBytes v))] := by
  split
  · rename_i h; rw [leafEntry_list h, C12.roundtrip]
  · rename_i h; rw [leafEntry_one (by simpa using h)]; rfl

/-! transform steps -/

def enLeafCheck (e : EnStep) : Bool :=
  match bareCls (lower e.pyName) with
  | some (t, l) => t == e.isTerm && leafOK (if e.isTerm then tstN else tsN) l e.kw
  | none => false

def argLeafCheck (a : ArgStep) : Bool :=
  (dtArgTerms.contains (lower a.pyName) == a.isTerm) && leafOK (if a.isTerm then tstN else tsN) (lower a.pyName) a.kw

theorem en_leaf (e : EnStep) : enLeafCheck e = true := by cases e <;> decide +kernel
theorem arg_leaf (a : ArgStep) : argLeafCheck a = true := by cases a <;> decide +kernel

/-- the two halves of what one option contributes -/
def optSteps (path : List Bytes) (d : DOpt) : List Entry := specForest tsN path (dtClassify d).1.reparsed
def optTerms (path : List Bytes) (d : DOpt) : List Entry := specForest tstN path (dtClassify d).2.reparsed

theorem spec_toDOpt {t : TStep} {d : DOpt} (h : toDOpt t = some d) (path : List Bytes) :
    (t.isTerm = false → optSteps path d = expStep path t ∧ optTerms path d = []) ∧
    (t.isTerm = true → optSteps path d = [] ∧ optTerms path d = expStep path t) := by
  cases t with
  | build s => cases h
  | static s v => cases h
  | en e =>
    cases h
    have hc := en_leaf e
    unfold enLeafCheck at hc
    split at hc
    · rename_i t l hb
      simp only [Bool.and_eq_true, beq_iff_eq] at hc
      obtain ⟨rfl, hl⟩ := hc
      have hcl := dtClassify_bare hb
      constructor
      · intro ht
        have ht' : EnStep.isTerm e = false := ht
        simp only [ht', Bool.false_eq_true, if_false] at hcl hl
        simp only [optSteps, optTerms, hcl, spec_stmt' hl, leafEntry_zero, expStep, PForest.reparsed, specForest_nil,
          and_self]
      · intro ht
        have ht' : EnStep.isTerm e = true := ht
        simp only [ht', if_true] at hcl hl
        simp only [optSteps, optTerms, hcl, spec_stmt' hl, leafEntry_zero, expStep, PForest.reparsed, specForest_nil,
          and_self]
    · cases hc
  | arg a v =>
    cases h
    have hc := arg_leaf a
    simp only [argLeafCheck, Bool.and_eq_true, beq_iff_eq] at hc
    obtain ⟨hterm, hl⟩ := hc
    constructor
    · intro ht
      have ht' : ArgStep.isTerm a = false := ht
      simp only [ht', Bool.false_eq_true, if_false] at hterm hl
      have hcl : dtClassify (.pair (lower a.pyName) (.bytes v)) = (stmt (lower a.pyName) [C12.valueToString v], .nil) := by
        simp only [dtClassify, hterm, Bool.false_eq_true, if_false, DArg.vts]
      simp only [optSteps, optTerms, hcl, spec_stmt' hl, leafEntry_bytes, expStep, PForest.reparsed, specForest_nil,
        and_true]
    · intro ht
      have ht' : ArgStep.isTerm a = true := ht
      simp only [ht', if_true] at hterm hl
      have hcl : dtClassify (.pair (lower a.pyName) (.bytes v)) = (.nil, stmt (lower a.pyName) [C12.valueToString v]) := by
        simp only [dtClassify, hterm, if_true, DArg.vts]
      simp only [optSteps, optTerms, hcl, spec_stmt' hl, leafEntry_bytes, expStep, PForest.reparsed, specForest_nil,
        true_and]

theorem spec_dtSteps (path : List Bytes) (ds : List DOpt) :
    specForest tsN path (dtSteps ds).reparsed = ds.flatMap (optSteps path) := by
  induction ds with
  | nil => simp [dtSteps, PForest.flatten, PForest.reparsed, specForest_nil]
  | cons d ds ih => rw [dtSteps_cons, reparsed_append, specForest_append, ih]; rfl

theorem spec_dtTerms (path : List Bytes) (ds : List DOpt) :
    specForest tstN path (dtTerms ds).reparsed = ds.flatMap (optTerms path) := by
  induction ds with
  | nil => simp [dtTerms, PForest.flatten, PForest.reparsed, specForest_nil]
  | cons d ds ih => rw [dtTerms_cons, reparsed_append, specForest_append, ih]; rfl

theorem opts_steps_only (path : List Bytes) (l : List TStep) (h : ∀ x ∈ l, x.isTerm = false) :
    (opts l).flatMap (optSteps path) = l.flatMap (expStep path) ∧ (opts l).flatMap (optTerms path) = [] := by
  induction l with
  | nil => exact ⟨rfl, rfl⟩
  | cons x l ih =>
    obtain ⟨ih1, ih2⟩ := ih fun y hy => h y (by simp [hy])
    have hx := h x (by simp)
    rw [opts_cons]
    simp only [List.flatMap_append, List.flatMap_cons, ih1, ih2, List.append_nil]
    cases hd : toDOpt x with
    | none =>
      have : expStep path x = [] := by
        cases x with
        | build s => rfl
        | static s v => rfl
        | en e => cases hd
        | arg a v => cases hd
      simp [opts, hd, this]
    | some d =>
      obtain ⟨h1, h2⟩ := (spec_toDOpt hd path).1 hx
      simp [opts, hd, h1, h2]

/-- the entries of a well-formed BUILD group are its steps, in order -/
theorem spec_group {g : List TStep} (h : wfGroup g = true) (ctx : Nat) (path : List Bytes) :
    specForest ctx path (dtKids (opts g)).reparsed = g.flatMap (expStep path) := by
  obtain ⟨pre, t, rfl, ht, hpre⟩ := wfGroup_split h
  obtain ⟨d, hd⟩ := term_toDOpt ht
  obtain ⟨h1, h2⟩ := opts_steps_only path pre hpre
  obtain ⟨h3, h4⟩ := (spec_toDOpt hd path).2 ht
  have ho : opts (pre ++ [t]) = opts pre ++ [d] := by rw [opts_append]; simp [opts, hd]
  rw [spec_dtKids, spec_dtSteps, spec_dtTerms, ho]
  simp only [List.flatMap_append, List.flatMap_cons, List.flatMap_nil, h1, h2, h3, h4, List.append_nil, List.nil_append]


/-! ### Part 5d: http-get server output, client blocks -/

def srvPath : List Bytes := [k "http-get", k "server", k "output"]

theorem srvPath_list : listProps.contains srvPath = true := by decide +kernel

theorem rstep_facts :
    dtArgTerms.contains (b "append") = false ∧ dtArgTerms.contains (b "prepend") = false ∧
    leafOK tsN (b "append") (k "append") = true ∧ leafOK tsN (b "prepend") (k "prepend") = true ∧
    bareCls (b "base64") = some (false, b "base64") ∧ leafOK tsN (b "base64") (k "base64") = true ∧
    bareCls (b "print") = some (true, b "print") ∧ leafOK tstN (b "print") (k "print") = true ∧
    bareCls (b "netbios") = some (false, b "netbios") ∧ leafOK tsN (b "netbios") (k "netbios") = true ∧
    bareCls (b "netbiosu") = some (false, b "netbiosu") ∧ leafOK tsN (b "netbiosu") (k "netbiosu") = true ∧
    bareCls (b "base64url") = some (false, b "base64url") ∧ leafOK tsN (b "base64url") (k "base64url") = true ∧
    bareCls (b "mask") = some (false, b "mask") ∧ leafOK tsN (b "mask") (k "mask") = true := by decide +kernel

theorem spec_len_step (name : Bytes) (n : Nat) (hc : dtArgTerms.contains name = false) (hl : leafOK tsN name name = true) :
    optSteps srvPath (.pair name (.str (List.replicate n 88))) = [(srvPath, .tuple name [.ok (List.replicate n 88)])] ∧
    optTerms srvPath (.pair name (.str (List.replicate n 88))) = [] := by
  have hcl : dtClassify (.pair name (.str (List.replicate n 88))) =
      (stmt name [C12.valueToStringStr (List.replicate n 88)], .nil) := by
    simp only [dtClassify, hc, Bool.false_eq_true, if_false, DArg.vts]
  simp only [optSteps, optTerms, hcl, spec_stmt' hl, leafEntry_list srvPath_list, str_roundtrip _ (replicateX_noBackslash n),
    PForest.reparsed, specForest_nil, and_self]

theorem spec_flag_step {name l : Bytes} (hb : bareCls name = some (false, l)) (hl : leafOK tsN l l = true) :
    optSteps srvPath (.bare name) = [(srvPath, .kw l)] ∧ optTerms srvPath (.bare name) = [] := by
  have hcl := dtClassify_bare hb
  simp only [Bool.false_eq_true, if_false] at hcl
  simp only [optSteps, optTerms, hcl, spec_stmt' hl, leafEntry_zero, PForest.reparsed, specForest_nil, and_self]

theorem spec_flag_term {name l : Bytes} (hb : bareCls name = some (true, l)) (hl : leafOK tstN l l = true) :
    optSteps srvPath (.bare name) = [] ∧ optTerms srvPath (.bare name) = [(srvPath, .kw l)] := by
  have hcl := dtClassify_bare hb
  simp only [if_true] at hcl
  simp only [optSteps, optTerms, hcl, spec_stmt' hl, leafEntry_zero, PForest.reparsed, specForest_nil, and_self]

theorem spec_recoverOpt (r : RStep) :
    optSteps srvPath (recoverOpt r) = (if r.isTerm then [] else [expRStep r]) ∧
    optTerms srvPath (recoverOpt r) = (if r.isTerm then [expRStep r] else []) := by
  obtain ⟨a1, a2, a3, a4, b1, b2, p1, p2, n1, n2, u1, u2, c1, c2, m1, m2⟩ := rstep_facts
  cases r with
  | append n => exact spec_len_step _ n a1 a3
  | prepend n => exact spec_len_step _ n a2 a4
  | base64 => exact spec_flag_step b1 b2
  | print => exact spec_flag_term p1 p2
  | netbios => exact spec_flag_step n1 n2
  | netbiosu => exact spec_flag_step u1 u2
  | base64url => exact spec_flag_step c1 c2
  | mask => exact spec_flag_step m1 m2

/-- the entries of the generated http-get.server.output block -/
theorem spec_recover (l : List RStep) (ctx : Nat) :
    specForest ctx srvPath (dtKids (l.map recoverOpt)).reparsed = expServer l := by
  rw [spec_dtKids, spec_dtSteps, spec_dtTerms]
  unfold expServer
  congr 1
  · induction l with
    | nil => rfl
    | cons r l ih =>
      simp only [List.map_cons, List.flatMap_cons, ih, (spec_recoverOpt r).1, List.filter_cons]
      cases r.isTerm <;> simp
  · induction l with
    | nil => rfl
    | cons r l ih =>
      simp only [List.map_cons, List.flatMap_cons, ih, (spec_recoverOpt r).2, List.filter_cons]
      cases r.isTerm <;> simp

/-! client blocks -/

def hdrOf : TStep → Option (Bytes × Bytes)
  | .static .hdr v => some (partition2 [58, 32] v)
  | .static .hostHdr v => some (partition2 [58, 32] v)
  | _ => Option.none

def paramOf : TStep → Option (Bytes × Bytes)
  | .static .param v => some (partition2 [61] v)
  | _ => Option.none

theorem hdrOf_build (s : Bytes) : hdrOf (.build s) = Option.none := rfl
theorem hdrOf_en (e : EnStep) : hdrOf (.en e) = Option.none := rfl
theorem hdrOf_arg (a : ArgStep) (v : Bytes) : hdrOf (.arg a v) = Option.none := rfl
theorem hdrOf_param (v : Bytes) : hdrOf (.static .param v) = Option.none := rfl
theorem hdrOf_hdr (v : Bytes) : hdrOf (.static .hdr v) = some (partition2 [58, 32] v) := rfl
theorem hdrOf_host (v : Bytes) : hdrOf (.static .hostHdr v) = some (partition2 [58, 32] v) := rfl
theorem paramOf_build (s : Bytes) : paramOf (.build s) = Option.none := rfl
theorem paramOf_en (e : EnStep) : paramOf (.en e) = Option.none := rfl
theorem paramOf_arg (a : ArgStep) (v : Bytes) : paramOf (.arg a v) = Option.none := rfl
theorem paramOf_param (v : Bytes) : paramOf (.static .param v) = some (partition2 [61] v) := rfl
theorem paramOf_hdr (v : Bytes) : paramOf (.static .hdr v) = Option.none := rfl
theorem paramOf_host (v : Bytes) : paramOf (.static .hostHdr v) = Option.none := rfl

theorem reqRun_headers_params (prog : List TStep) : ∀ a : ReqAcc,
    (prog.foldl reqStep a).headers = a.headers ++ prog.filterMap hdrOf ∧
    (prog.foldl reqStep a).params = a.params ++ prog.filterMap paramOf := by
  induction prog with
  | nil => intro a; simp
  | cons x rest ih =>
    intro a
    rw [List.foldl_cons]
    obtain ⟨h1, h2⟩ := ih (reqStep a x)
    rw [h1, h2]
    cases x with
    | build s => simp [reqStep, List.filterMap_cons, hdrOf_build, paramOf_build]
    | en e => simp [reqStep, List.filterMap_cons, hdrOf_en, paramOf_en]
    | arg y v => simp [reqStep, List.filterMap_cons, hdrOf_arg, paramOf_arg]
    | static s v =>
      cases s <;> simp [reqStep, List.filterMap_cons, hdrOf_hdr, hdrOf_host, hdrOf_param, paramOf_hdr, paramOf_host,
        paramOf_param]

theorem client_facts :
    leafOK clientN (b "header") (k "header") = true ∧ leafOK clientN (b "parameter") (k "parameter") = true ∧
    [k "metadata", k "output", k "id"].all (fun s => blockInfoOK clientN s dtN s) = true := by decide +kernel

theorem flatMap_congr' {α β} {l : List α} {f g : α → List β} (h : ∀ x ∈ l, f x = g x) : l.flatMap f = l.flatMap g := by
  induction l with
  | nil => rfl
  | cons x xs ih => simp only [List.flatMap_cons, h x (by simp), ih fun y hy => h y (by simp [hy])]

theorem spec_pairStmts {l kw : Bytes} (h : leafOK clientN l kw = true) {path : List Bytes}
    (hl : listProps.contains path = false) (ps : List (Bytes × Bytes)) :
    specForest clientN path (pairStmts l ps).reparsed =
      ps.map fun p => (path ++ [kw], .pair (litBytes p.1) (litBytes p.2)) := by
  unfold pairStmts
  rw [reparsed_flatten, specForest_flatten]
  induction ps with
  | nil => rfl
  | cons p ps ih =>
    simp only [List.map_cons, List.flatMap_cons, ih, spec_stmt' h, leafEntry_two hl]
    rfl

theorem expClient_eq (blk : Bytes) (prog : List TStep) :
    expClient blk prog =
      ((prog.filterMap hdrOf).map fun p => ([blk, k "client"] ++ [k "header"], DVal.pair (litBytes p.1) (litBytes p.2))) ++
      ((prog.filterMap paramOf).map fun p => ([blk, k "client"] ++ [k "parameter"], DVal.pair (litBytes p.1) (litBytes p.2))) ++
      (splitBuilds prog).flatMap fun g => g.2.flatMap (expStep ([blk, k "client"] ++ [g.1])) := by
  unfold expClient
  congr 1
  · congr 1
    · induction prog with
      | nil => rfl
      | cons x rest ih =>
        cases x with
        | build s => simpa [List.filterMap_cons, hdrOf_build] using ih
        | en e => simpa [List.filterMap_cons, hdrOf_en] using ih
        | arg y v => simpa [List.filterMap_cons, hdrOf_arg] using ih
        | static s v => cases s <;> simpa [List.filterMap_cons, hdrOf_hdr, hdrOf_host, hdrOf_param] using ih
    · induction prog with
      | nil => rfl
      | cons x rest ih =>
        cases x with
        | build s => simpa [List.filterMap_cons, paramOf_build] using ih
        | en e => simpa [List.filterMap_cons, paramOf_en] using ih
        | arg y v => simpa [List.filterMap_cons, paramOf_arg] using ih
        | static s v => cases s <;> simpa [List.filterMap_cons, paramOf_hdr, paramOf_host, paramOf_param] using ih

/-- the entries of what the REQUEST / POSTREQ branch appends to a client block -/
theorem spec_request {allowed : List Bytes} {prog : List TStep} (h : wfProgram allowed prog = true)
    (hb : ∀ s ∈ allowed, blockInfoOK clientN s dtN s = true) (blk : Bytes)
    (hl : listProps.contains [blk, k "client"] = false) :
    specForest clientN [blk, k "client"] (requestKids prog).reparsed = expClient blk prog := by
  obtain ⟨hh, hp, _⟩ := client_facts
  unfold requestKids
  simp only [reparsed_append, specForest_append]
  have hhp := reqRun_headers_params prog ⟨Option.none, [], [], []⟩
  rw [spec_pairStmts hh hl, spec_pairStmts hp hl, reqRun_groups h, expClient_eq]
  unfold reqRun
  rw [hhp.1, hhp.2]
  simp only [List.nil_append, List.append_assoc]
  congr 2
  rw [reparsed_flatten, specForest_flatten]
  simp only [List.map_map, List.flatMap_map]
  simp only [wfProgram, Bool.and_eq_true, List.all_eq_true, List.contains_eq_mem, decide_eq_true_eq] at h
  apply flatMap_congr'
  intro sg hsg
  have := h.2 sg hsg
  simp only [Function.comp]
  rw [spec_block' (hb sg.1 this.1), spec_group this.2]


/-! ### Part 5e: process-inject transform, execute, BeaconGate -/

theorem st_facts : leafOK stN (b "prepend") (k "prepend") = true ∧ leafOK stN (b "append") (k "append") = true := by
  decide +kernel

theorem spec_injKids (kw : Bytes) (l : List (Bool × Bytes)) :
    specForest stN [k "process-inject", kw] (injKids l).reparsed = expInjT kw l := by
  obtain ⟨hp, ha⟩ := st_facts
  unfold injKids expInjT
  rw [reparsed_append, specForest_append]
  congr 1
  · cases injLast true l with
    | none => simp [PForest.reparsed, specForest_nil]
    | some v =>
      dsimp only
      split
      · simp [PForest.reparsed, specForest_nil]
      · rw [spec_stmt' hp, leafEntry_bytes]
  · cases injLast false l with
    | none => simp [PForest.reparsed, specForest_nil]
    | some v =>
      dsimp only
      split
      · simp [PForest.reparsed, specForest_nil]
      · rw [spec_stmt' ha, leafEntry_bytes]

/-! execute -/

def execPath : List Bytes := [k "process-inject", k "execute"]

theorem exec_facts :
    listProps.contains execPath = true ∧
    leafOK execN (b "createthread_special") (k "CreateThread") = true ∧
    leafOK execN (b "createremotethread_special") (k "CreateRemoteThread") = true ∧
    execEnable.all (fun s => !s.contains 32 && leafOK execN (dashToUnderscore (lower s)) (execKw s)) = true := by
  decide +kernel

theorem spec_execItem {s : Bytes} (h : wfExecItem (some s) = true) :
    ∃ f, execItem (some s) = .ok f ∧ specForest execN execPath f.reparsed = expExecItem s := by
  obtain ⟨hlist, hct, hcrt, hen⟩ := exec_facts
  refine ⟨_, rfl, ?_⟩
  simp only [wfExecItem, Bool.and_eq_true, Bool.or_eq_true, decide_eq_true_eq] at h
  rw [reparsed_append, specForest_append]
  rcases h with hmem | ⟨⟨hsp, hname⟩, hlen⟩
  · have hm : s ∈ execEnable := by simpa using hmem
    have := List.all_eq_true.mp hen s hm
    simp only [Bool.and_eq_true, Bool.not_eq_eq_eq_not, Bool.not_true] at this
    simp only [this.1, Bool.false_eq_true, if_false, hmem, if_true, PForest.reparsed, specForest_nil, List.nil_append,
      spec_stmt' this.2, leafEntry_zero, expExecItem]
    rfl
  · have hnm : execEnable.contains s = false := by
      cases hc : execEnable.contains s with
      | false => rfl
      | true =>
        have hm : s ∈ execEnable := by simpa using hc
        have := List.all_eq_true.mp hen s hm
        simp only [Bool.and_eq_true, Bool.not_eq_eq_eq_not, Bool.not_true] at this
        rw [hsp] at this
        exact absurd this.1 (by simp)
    simp only [hsp, if_true, hnm, Bool.false_eq_true, if_false, PForest.reparsed, specForest_nil, List.append_nil,
      expExecItem]
    rcases hname with h1 | h1
    · have e1 : k "CreateThread" = b "CreateThread" := rfl
      simp only [h1]
      rw [if_pos e1, spec_stmt' hct, leafEntry_list hlist, C12.roundtrip]
      rfl
    · have e1 : ¬ k "CreateRemoteThread" = b "CreateThread" := by decide +kernel
      have e2 : k "CreateRemoteThread" = b "CreateRemoteThread" := rfl
      simp only [h1]
      rw [if_neg e1, if_pos e2, spec_stmt' hcrt, leafEntry_list hlist, C12.roundtrip]
      rfl

theorem spec_execKids (l : List (Option Bytes)) (h : l.all wfExecItem = true) :
    ∃ f, execKids l = .ok f ∧
      specForest execN execPath f.reparsed = l.flatMap fun i => match i with | some s => expExecItem s | Option.none => [] := by
  induction l with
  | nil => exact ⟨.nil, rfl, by simp [PForest.reparsed, specForest_nil]⟩
  | cons i is ih =>
    simp only [List.all_cons, Bool.and_eq_true] at h
    obtain ⟨r, hr, hsr⟩ := ih h.2
    cases i with
    | none => simp [wfExecItem] at h
    | some s =>
      obtain ⟨f, hf, hsf⟩ := spec_execItem h.1
      refine ⟨f ++ r, by simp only [execKids, hf, hr], ?_⟩
      rw [reparsed_append, specForest_append, hsf, hsr]
      rfl

/-! BeaconGate -/

def gatePath : List Bytes := [k "stage", k "beacon_gate"]

theorem gate_leaf_facts : gateLabels.all (fun s => leafOK gateN (lower s) s) = true := by decide +kernel

theorem spec_gateKids (l : List Bytes) (h : l.all gateLabels.contains = true) :
    specForest gateN gatePath (PForest.flatten (l.map fun s => stmt (lower s) [])).reparsed =
      l.map fun name => (gatePath, DVal.kw name) := by
  rw [reparsed_flatten, specForest_flatten]
  induction l with
  | nil => rfl
  | cons s l ih =>
    simp only [List.all_cons, Bool.and_eq_true] at h
    have hm : s ∈ gateLabels := by simpa using h.1
    have hl := List.all_eq_true.mp gate_leaf_facts s hm
    simp only [List.map_cons, List.flatMap_cons, spec_stmt' hl, leafEntry_zero]
    rw [← ih h.2]
    simp [List.map_map]


/-! ### Part 5f: the model's chain and the property's table say the same, setting by setting -/

/-- dictionary path (profile keywords) of the statements of each block object -/
def pathKw : Blk → List Bytes
  | .profile => []
  | .httpGet => [k "http-get"]
  | .httpPost => [k "http-post"]
  | .stage => [k "stage"]
  | .procInj => [k "process-inject"]
  | .dns => [k "dns-beacon"]
  | .httpBeacon => [k "http-beacon"]
  | .getClient => [k "http-get", k "client"]
  | .postClient => [k "http-post", k "client"]

theorem pathKw_notList (kb : Blk) : listProps.contains (pathKw kb) = false := by cases kb <;> decide +kernel

def blkCode : Blk → Nat
  | .profile => 0 | .httpGet => 1 | .httpPost => 2 | .stage => 3 | .procInj => 4 | .dns => 5 | .httpBeacon => 6
  | .getClient => 7 | .postClient => 8

def allBlks : List Blk := [.profile, .httpGet, .httpPost, .stage, .procInj, .dns, .httpBeacon, .getClient, .postClient]

theorem pathKw_inj_check : allBlks.all (fun x => allBlks.all fun y => x == y || !(pathKw x == pathKw y)) = true := by
  decide +kernel

theorem mem_allBlks (x : Blk) : x ∈ allBlks := by cases x <;> simp [allBlks]

theorem pathKw_inj {x y : Blk} (h : pathKw x = pathKw y) : x = y := by
  have := List.all_eq_true.mp (List.all_eq_true.mp pathKw_inj_check x (mem_allBlks x)) y (mem_allBlks y)
  simp only [Bool.or_eq_true, beq_iff_eq, Bool.not_eq_eq_eq_not, Bool.not_true, beq_eq_false_iff_ne] at this
  rcases this with h1 | h1
  · exact h1
  · exact absurd h h1

theorem pathKw_not_server (kb : Blk) : (some (pathKw kb) == some [k "http-get", k "server"]) = false := by
  cases kb <;> decide +kernel

/-- the model's action and the property's item describe the same dictionary entries -/
def agreeB : Act → SpecAct → Bool
  | .pass, .skip => true
  | .profOpt name, .plain key => key == [name]
  | .blkOpt kb l, .plain key =>
    !isComment (some l) &&
      match nodeInfo (ctxOf kb) (some l) with
      | .leaf (some kw) => key == pathKw kb ++ [kw]
      | _ => false
  | .blkOpt _ l, .skip => isComment (some l)
  | .blkConst kb l t, .const key t' =>
    !isComment (some l) && unquote (C12.valueToStringStr t) == t' &&
      match nodeInfo (ctxOf kb) (some l) with
      | .leaf (some kw) => key == pathKw kb ++ [kw]
      | _ => false
  | .uris, .uris => true
  | .recover, .recover => true
  | .request c, .client blk => (c == .getClient || c == .postClient) && pathKw c == [blk, k "client"]
  | .perms l t f, .perms key t' f' =>
    t == t' && f == f' && !isComment (some l) &&
      match nodeInfo (ctxOf .procInj) (some l) with
      | .leaf (some kw) => key == pathKw .procInj ++ [kw]
      | _ => false
  | .injT l, .injT kw => blockInfoOK (ctxOf .procInj) l stN kw
  | .execute, .execute => true
  | .allocator, .allocator => true
  | .gate, .gate => true
  | _, _ => false

def agreeAt (idx : Nat) : Bool :=
  match actionTable.find? (·.1 == idx), specTable.find? (·.1 == idx) with
  | some (_, g, a), some (_, g', s) => g == g' && agreeB a s
  | some (_, _, a), Option.none => agreeB a .skip
  | Option.none, some _ => false
  | Option.none, Option.none => true

theorem agree_small : (List.range 100).all agreeAt = true := by decide +kernel

theorem tables_small : (actionTable.all (·.1 < 100) && specTable.all (·.1 < 100)) = true := by decide +kernel

theorem agreeAt_all (idx : Nat) : agreeAt idx = true := by
  by_cases h : idx < 100
  · exact List.all_eq_true.mp agree_small idx (by simpa using h)
  · have ht := tables_small
    simp only [Bool.and_eq_true, List.all_eq_true, decide_eq_true_eq] at ht
    have h1 : actionTable.find? (·.1 == idx) = Option.none := by
      rw [List.find?_eq_none]
      intro x hx hc
      have := ht.1 x hx
      simp only [beq_iff_eq] at hc
      omega
    have h2 : specTable.find? (·.1 == idx) = Option.none := by
      rw [List.find?_eq_none]
      intro x hx hc
      have := ht.2 x hx
      simp only [beq_iff_eq] at hc
      omega
    simp [agreeAt, h1, h2]

theorem agree_all (idx : Nat) (v : PVal) : agreeB (actionOf idx v) (specOf idx v) = true := by
  have h := agreeAt_all idx
  unfold agreeAt at h
  unfold actionOf specOf
  split at h
  · rename_i x1 g a x2 g' s h1 h2
    simp only [Bool.and_eq_true, beq_iff_eq] at h
    obtain ⟨rfl, hab⟩ := h
    rw [h1, h2]
    dsimp only
    split
    · rfl
    · exact hab
  · rename_i x1 g a h1 h2
    rw [h1, h2]
    dsimp only
    split
    · rfl
    · exact h
  · cases h
  · rename_i h1 h2
    rw [h1, h2]
    rfl


/-! ### Part 5g: one branch of the chain adds exactly the entries the property's table promises -/

/-- dictionary of the statements collected so far in block `kb` -/
def D (st : St) (kb : Blk) : List Entry := specForest (ctxOf kb) (pathKw kb) (st.f kb).reparsed

theorem D_app (st : St) (kb : Blk) (g : PForest) (kb' : Blk) :
    D (st.app kb g) kb' = D st kb' ++ (if kb' = kb then specForest (ctxOf kb) (pathKw kb) g.reparsed else []) := by
  unfold D St.app
  dsimp only
  split
  · rename_i h; subst h; rw [reparsed_append, specForest_append]
  · simp

/-- what the setting contributes to block `kb` according to the property's table -/
def contrib (uris : List (Option Bytes)) (s : SpecAct) (v : PVal) (kb : Blk) : List Entry :=
  if specBlock s == some (pathKw kb) then specEntries uris s v else []

theorem app_case {uris : List (Option Bytes)} {st : St} {kb : Blk} {g : PForest} {s : SpecAct} {v : PVal}
    (hb : specBlock s = some (pathKw kb)) (hg : specForest (ctxOf kb) (pathKw kb) g.reparsed = specEntries uris s v) :
    ∀ kb', D (st.app kb g) kb' = D st kb' ++ contrib uris s v kb' := by
  intro kb'
  rw [D_app, contrib, hb]
  by_cases h : kb' = kb
  · subst h; simp [hg]
  · have : ¬ pathKw kb = pathKw kb' := fun e => h (pathKw_inj e).symm
    simp [h, this]

theorem noop_case {uris : List (Option Bytes)} {st : St} {s : SpecAct} {v : PVal}
    (h : specBlock s = Option.none ∨ specEntries uris s v = []) : ∀ kb', D st kb' = D st kb' ++ contrib uris s v kb' := by
  intro kb'
  unfold contrib
  rcases h with h | h
  · simp [h]
  · simp [h]

theorem server_not_pathKw (kb : Blk) : (specBlock .recover == some (pathKw kb)) = false := by
  cases kb <;> decide +kernel

theorem contrib_recover_nil (uris : List (Option Bytes)) (v : PVal) (kb : Blk) : contrib uris .recover v kb = [] := by
  unfold contrib
  rw [server_not_pathKw]
  rfl

theorem misc_leaf_facts :
    isComment (some (b "option")) = false ∧ nodeInfo (L "value") (some (b "option")) = .leaf Option.none ∧
    leafOK (ctxOf .httpGet) (b "uri") (k "uri") = true ∧
    leafOK (ctxOf .procInj) (b "allocator") (k "allocator") = true ∧
    blockInfoOK (ctxOf .procInj) (b "execute") execN (k "execute") = true ∧
    blockInfoOK (ctxOf .stage) (b "beacon_gate") gateN (k "beacon_gate") = true ∧
    unquote (C12.valueToStringStr (b "true")) = k "true" ∧ unquote (C12.valueToStringStr (b "false")) = k "false" ∧
    unquote (C12.valueToStringStr (b "NtMapViewOfSection")) = k "NtMapViewOfSection" ∧
    unquote (C12.valueToStringStr (b "VirtualAllocEx")) = k "VirtualAllocEx" := by decide +kernel

theorem leaf_of_agree {ctx : Nat} {l : Bytes} {key path : List Bytes}
    (hc : isComment (some l) = false)
    (h : (match nodeInfo ctx (some l) with
      | .leaf (some kw) => key == path ++ [kw]
      | _ => false) = true) : ∃ kw, leafOK ctx l kw = true ∧ key = path ++ [kw] := by
  split at h
  · rename_i kw hn
    exact ⟨kw, by simp [leafOK, hc, hn], by simpa using h⟩
  · cases h

theorem dropLast_concat' (p : List Bytes) (x : Bytes) : (p ++ [x]).dropLast = p := by simp

/-- the entries a branch adds to every block are the ones the property's table lists for the setting; `c2_recover`
is only touched by the RECOVER branch -/
theorem runAct_spec (uris : List (Option Bytes)) (st st' : St) (v : PVal) (a : Act) (s : SpecAct)
    (hag : agreeB a s = true) (hw : wfAct a v = true) (hr : runAct uris st v a = .ok st') :
    (∀ kb, D st' kb = D st kb ++ contrib uris s v kb) ∧
    ((a ≠ .recover ∧ st'.recover = st.recover ∧ s ≠ .recover) ∨
     (∃ l, v = .recover l ∧ st'.recover = l.map recoverOpt ∧ s = .recover ∧ (l.filter (·.isTerm)).length = 1)) := by
  obtain ⟨hoc, hoi, huri, halloc, hexec, hgate, qt, qf, qn, qv⟩ := misc_leaf_facts
  cases a with
  | pass =>
    cases s <;> simp [agreeB] at hag
    cases hr
    exact ⟨noop_case (.inl rfl), .inl ⟨by simp, rfl, by simp⟩⟩
  | profOpt name =>
    cases s <;> simp [agreeB] at hag
    rename_i key
    subst hag
    have hws : wfScalar v = true := by simpa [wfAct] using hw
    obtain ⟨sv, hsv⟩ := wfScalar_vts hws
    simp only [runAct, hsv, Except.ok.injEq] at hr
    subst hr
    refine ⟨app_case (kb := .profile) rfl ?_, .inl ⟨by simp, rfl, by simp⟩⟩
    rw [show ctxOf .profile = L "value" from rfl, spec_optStmt _ _ _ hoc hoi, leafEntry_opt (pathKw_notList .profile)]
    simp [specEntries, unquote_vts hws hsv, pathKw]
  | blkOpt kb l =>
    have hws : wfScalar v = true := by simpa [wfAct] using hw
    obtain ⟨sv, hsv⟩ := wfScalar_vts hws
    simp only [runAct, hsv, Except.ok.injEq] at hr
    subst hr
    cases s <;> simp only [agreeB, Bool.and_eq_true, Bool.not_eq_eq_eq_not, Bool.not_true, Bool.false_eq_true] at hag
    · -- the resolver comment
      refine ⟨?_, .inl ⟨by simp, rfl, by simp⟩⟩
      intro kb'
      rw [D_app, spec_comment _ _ hag]
      simp [contrib, specBlock]
    · rename_i key
      obtain ⟨kw, hl, rfl⟩ := leaf_of_agree hag.1 hag.2
      refine ⟨app_case (by simp [specBlock]) ?_, .inl ⟨by simp, rfl, by simp⟩⟩
      rw [spec_stmt' hl, leafEntry_one (pathKw_notList kb)]
      simp [specEntries, unquote_vts hws hsv]
  | blkConst kb l t =>
    simp only [runAct, Except.ok.injEq] at hr
    subst hr
    cases s <;> simp only [agreeB, Bool.and_eq_true, Bool.not_eq_eq_eq_not, Bool.not_true, Bool.false_eq_true, beq_iff_eq] at hag
    rename_i key t'
    obtain ⟨kw, hl, rfl⟩ := leaf_of_agree hag.1.1 hag.2
    refine ⟨app_case (by simp [specBlock]) ?_, .inl ⟨by simp, rfl, by simp⟩⟩
    rw [spec_stmt' hl, leafEntry_one (pathKw_notList kb), hag.1.2]
    rfl
  | uris =>
    cases s <;> simp [agreeB] at hag
    simp only [runAct] at hr
    split at hr
    · rename_i he
      cases hr
      exact ⟨noop_case (.inr (by simp only [specEntries, he, if_true])), .inl ⟨by simp, rfl, by simp⟩⟩
    · rename_i he
      cases hr
      refine ⟨app_case (kb := .httpGet) rfl ?_, .inl ⟨by simp, rfl, by simp⟩⟩
      rw [spec_stmt' huri, leafEntry_one (pathKw_notList .httpGet)]
      simp only [specEntries, he, Bool.false_eq_true, if_false, litBytes, pathKw]
      rfl
  | recover =>
    cases s <;> simp [agreeB] at hag
    cases v with
    | recover l =>
      simp only [runAct, Except.ok.injEq] at hr
      subst hr
      refine ⟨?_, .inr ⟨l, rfl, rfl, rfl, by simpa [wfAct] using hw⟩⟩
      intro kb
      rw [contrib_recover_nil]
      simp [D]
    | _ => simp [wfAct] at hw
  | request c =>
    cases s <;> simp only [agreeB, Bool.and_eq_true, Bool.or_eq_true, beq_iff_eq, Bool.false_eq_true] at hag
    rename_i blk
    obtain ⟨hc, hp⟩ := hag
    obtain ⟨_, _, hb⟩ := client_facts
    have hb' := List.all_eq_true.mp hb
    cases v with
    | transform prog =>
      simp only [runAct, Except.ok.injEq] at hr
      subst hr
      have hctx : ctxOf c = clientN := by rcases hc with rfl | rfl <;> rfl
      have hl : listProps.contains [blk, k "client"] = false := hp ▸ pathKw_notList c
      refine ⟨app_case (by simp [specBlock, hp]) ?_, .inl ⟨by simp, rfl, by simp⟩⟩
      rw [hctx, hp]
      rcases hc with rfl | rfl
      · exact spec_request (allowed := [k "metadata", k "output"]) (by simpa [wfAct] using hw)
          (fun s hs => hb' s (by simp at hs ⊢; rcases hs with rfl | rfl <;> simp)) blk hl
      · exact spec_request (allowed := [k "id", k "output"]) (by simpa [wfAct] using hw)
          (fun s hs => hb' s (by simp at hs ⊢; rcases hs with rfl | rfl <;> simp)) blk hl
    | _ => cases c <;> simp [wfAct] at hw
  | perms l t f =>
    cases s <;> simp only [agreeB, Bool.and_eq_true, Bool.not_eq_eq_eq_not, Bool.not_true, Bool.false_eq_true, beq_iff_eq] at hag
    rename_i key t' f'
    obtain ⟨⟨⟨rfl, rfl⟩, hc⟩, hm⟩ := hag
    obtain ⟨kw, hl, rfl⟩ := leaf_of_agree hc hm
    simp only [runAct] at hr
    split at hr
    · rename_i h1
      cases hr
      refine ⟨app_case (by simp [specBlock]) ?_, .inl ⟨by simp, rfl, by simp⟩⟩
      rw [spec_stmt' hl, leafEntry_one (pathKw_notList .procInj), qt]
      simp [specEntries, h1]
    · rename_i h1
      split at hr
      · rename_i h2
        cases hr
        refine ⟨app_case (by simp [specBlock]) ?_, .inl ⟨by simp, rfl, by simp⟩⟩
        rw [spec_stmt' hl, leafEntry_one (pathKw_notList .procInj), qf]
        simp [specEntries, h1, h2]
      · rename_i h2
        cases hr
        exact ⟨noop_case (.inr (by simp [specEntries, h1, h2])), .inl ⟨by simp, rfl, by simp⟩⟩
  | injT l =>
    cases s <;> simp only [agreeB, Bool.false_eq_true] at hag
    rename_i kw
    cases v with
    | inj lst =>
      simp only [runAct] at hr
      have hsp := spec_injKids kw lst
      split at hr
      · rename_i he
        cases hr
        have : injKids lst = .nil := by
          cases hk : injKids lst <;> simp [hk, PForest.isEmpty] at he ⊢
        rw [this] at hsp
        refine ⟨noop_case (.inr ?_), .inl ⟨by simp, rfl, by simp⟩⟩
        simp only [specEntries]
        rw [← hsp]; simp [PForest.reparsed, specForest_nil]
      · cases hr
        refine ⟨app_case (kb := .procInj) rfl ?_, .inl ⟨by simp, rfl, by simp⟩⟩
        rw [spec_block' hag]
        exact hsp
    | _ => simp [wfAct] at hw
  | execute =>
    cases s <;> simp [agreeB] at hag
    cases v with
    | execute lst =>
      obtain ⟨f, hf, hsf⟩ := spec_execKids lst (by simpa [wfAct] using hw)
      simp only [runAct, hf] at hr
      split at hr
      · rename_i he
        cases hr
        have : lst = [] := by simpa using he
        subst this
        exact ⟨noop_case (.inr rfl), .inl ⟨by simp, rfl, by simp⟩⟩
      · cases hr
        refine ⟨app_case (kb := .procInj) rfl ?_, .inl ⟨by simp, rfl, by simp⟩⟩
        rw [spec_block' hexec]
        exact hsf
    | _ => simp [wfAct] at hw
  | allocator =>
    cases s <;> simp [agreeB] at hag
    simp only [runAct, Except.ok.injEq] at hr
    subst hr
    refine ⟨app_case (kb := .procInj) rfl ?_, .inl ⟨by simp, rfl, by simp⟩⟩
    rw [spec_stmt' halloc, leafEntry_one (pathKw_notList .procInj)]
    simp only [specEntries, pathKw]
    split <;> simp [qn, qv]
  | gate =>
    cases s <;> simp [agreeB] at hag
    cases v with
    | gate lst =>
      simp only [runAct, Except.ok.injEq] at hr
      subst hr
      refine ⟨app_case (kb := .stage) rfl ?_, .inl ⟨by simp, rfl, by simp⟩⟩
      rw [spec_block' hgate]
      exact spec_gateKids lst (by simpa [wfAct] using hw)
    | _ => simp [wfAct] at hw


/-! ### Part 5h: the whole loop, the statements after it, and the dictionary of the result -/

def srvBlk : List Bytes := [k "http-get", k "server"]

theorem contrib_eq_expFor (uris : List (Option Bytes)) (kv : Nat × PVal) (kb : Blk) :
    contrib uris (specOf kv.1 kv.2) kv.2 kb = expFor uris (pathKw kb) kv := rfl

theorem server_table_facts :
    specTable.all (fun e => !(specBlock e.2.2 == some srvBlk) || (e.2.2 == .recover && e.1 == 11)) = true := by
  decide +kernel

theorem specOf_server {idx : Nat} {v : PVal} (h : specBlock (specOf idx v) = some srvBlk) :
    specOf idx v = .recover ∧ idx = 11 := by
  unfold specOf at h ⊢
  split at h
  · rename_i x g a hf
    split at h
    · simp [specBlock] at h
    · rename_i hg
      rw [if_neg hg]
      have hm := List.mem_of_find?_eq_some hf
      have hk := List.find?_some hf
      have := List.all_eq_true.mp server_table_facts _ hm
      simp only [h, beq_self_eq_true, Bool.not_true, Bool.false_or, Bool.and_eq_true, beq_iff_eq] at this
      simp only [beq_iff_eq] at hk
      exact ⟨this.1, hk ▸ this.2⟩
  · simp [specBlock] at h

theorem expFor_server_nil {uris : List (Option Bytes)} {kv : Nat × PVal} (h : specOf kv.1 kv.2 ≠ .recover) :
    expFor uris srvBlk kv = [] := by
  unfold expFor
  dsimp only
  split
  · rename_i hb
    exact absurd (specOf_server (by simpa using hb)).1 h
  · rfl

/-- invariant of the loop, dictionary side -/
structure FInv (uris : List (Option Bytes)) (done : List (Nat × PVal)) (st : St) : Prop where
  blocks : ∀ kb, D st kb = done.flatMap (expFor uris (pathKw kb))
  server : (st.recover = [] ∧ done.flatMap (expFor uris srvBlk) = []) ∨
    (∃ l, st.recover = l.map recoverOpt ∧ l ≠ [] ∧ done.flatMap (expFor uris srvBlk) = expServer l)

theorem finv_init (uris : List (Option Bytes)) : FInv uris [] St.init :=
  ⟨fun kb => by simp [D, St.init, PForest.reparsed, specForest_nil], .inl ⟨rfl, rfl⟩⟩

theorem finv_step {uris : List (Option Bytes)} {done : List (Nat × PVal)} {st st' : St} {kv : Nat × PVal}
    (hi : FInv uris done st) (hw : wfSetting kv = true) (hfresh : ∀ kv' ∈ done, kv'.1 ≠ kv.1)
    (hr : stepOne uris st kv = .ok st') : FInv uris (done ++ [kv]) st' := by
  obtain ⟨hb, hs⟩ := runAct_spec uris st st' kv.2 (actionOf kv.1 kv.2) (specOf kv.1 kv.2) (agree_all _ _)
    (wfSetting_act hw) hr
  refine ⟨fun kb => ?_, ?_⟩
  · rw [hb kb, hi.blocks kb, contrib_eq_expFor]
    simp
  · rcases hs with ⟨_, hrec, hne⟩ | ⟨l, hv, hrec, hsp, hone⟩
    · rw [hrec]
      have : expFor uris srvBlk kv = [] := expFor_server_nil hne
      rcases hi.server with ⟨h1, h2⟩ | ⟨l, h1, h2, h3⟩
      · exact .inl ⟨h1, by simp [h2, this]⟩
      · exact .inr ⟨l, h1, h2, by simp [h3, this]⟩
    · -- RECOVER: nothing was contributed to the server block before (keys are unique)
      have hold : done.flatMap (expFor uris srvBlk) = [] := by
        rw [List.flatMap_eq_nil_iff]
        intro kv' hkv'
        apply expFor_server_nil
        intro hc
        have h1 := (specOf_server (idx := kv'.1) (v := kv'.2) (by rw [hc]; rfl)).2
        have h2 := (specOf_server (idx := kv.1) (v := kv.2) (by rw [hsp]; rfl)).2
        exact hfresh kv' hkv' (h1.trans h2.symm)
      have hl : l ≠ [] := by intro e; subst e; simp at hone
      refine .inr ⟨l, hrec, hl, ?_⟩
      have : expFor uris srvBlk kv = expServer l := by
        unfold expFor
        dsimp only
        rw [hsp, hv]
        rfl
      simp [hold, this]

theorem runSettings_finv (uris : List (Option Bytes)) (rest : List (Nat × PVal)) :
    ∀ (done : List (Nat × PVal)) (st st' : St), FInv uris done st → rest.all wfSetting = true →
      ((done ++ rest).map (·.1)).Nodup → runSettings uris st rest = .ok st' → FInv uris (done ++ rest) st' := by
  induction rest with
  | nil => intro done st st' hi _ _ hr; simp only [runSettings, Except.ok.injEq] at hr; subst hr; simpa using hi
  | cons kv rest ih =>
    intro done st st' hi hw hnd hr
    simp only [List.all_cons, Bool.and_eq_true] at hw
    simp only [runSettings] at hr
    cases h1 : stepOne uris st kv with
    | error e => simp [h1] at hr
    | ok st1 =>
      simp only [h1] at hr
      have hfresh : ∀ kv' ∈ done, kv'.1 ≠ kv.1 := by
        intro kv' hkv' he
        simp only [List.map_append, List.map_cons] at hnd
        have := (List.nodup_append.mp hnd).2.2 kv'.1 (List.mem_map_of_mem hkv') kv.1 (by simp)
        exact this he
      have := ih (done ++ [kv]) st1 st' (finv_step hi hw.1 hfresh h1) hw.2 (by simpa using hnd) hr
      simpa using this

theorem isEmpty_nil {f : PForest} (h : f.isEmpty = true) : f = .nil := by
  cases f <;> simp [PForest.isEmpty] at h ⊢

theorem spec_addNonEmpty {ctx m : Nat} {l kw : Bytes} (hb : blockInfoOK ctx l m kw = true) (path : List Bytes)
    (parent kids : PForest) :
    specForest ctx path (addNonEmpty parent l kids).reparsed =
      specForest ctx path parent.reparsed ++ specForest m (path ++ [kw]) kids.reparsed := by
  unfold addNonEmpty
  split
  · rename_i he
    rw [isEmpty_nil he]
    simp [PForest.reparsed, specForest_nil]
  · rw [reparsed_append, specForest_append, spec_block' hb]

theorem final_facts :
    blockInfoOK (L "value") (b "http_get") (ctxOf .httpGet) (k "http-get") = true ∧
    blockInfoOK (L "value") (b "http_post") (ctxOf .httpPost) (k "http-post") = true ∧
    blockInfoOK (L "value") (b "stage") (ctxOf .stage) (k "stage") = true ∧
    blockInfoOK (L "value") (b "process_inject") (ctxOf .procInj) (k "process-inject") = true ∧
    blockInfoOK (L "value") (b "dns_beacon") (ctxOf .dns) (k "dns-beacon") = true ∧
    blockInfoOK (L "value") (b "http_beacon") (ctxOf .httpBeacon) (k "http-beacon") = true ∧
    blockInfoOK (ctxOf .httpGet) (b "server") httpOptsN (k "server") = true ∧
    blockInfoOK httpOptsN (b "output") dtN (k "output") = true ∧
    blockInfoOK (ctxOf .httpGet) (b "client") clientN (k "client") = true ∧
    blockInfoOK (ctxOf .httpPost) (b "client") clientN (k "client") = true := by decide +kernel

/-- the dictionary of the finished profile is the expected dictionary -/
theorem finalize_spec {uris : List (Option Bytes)} {cfg : List (Nat × PVal)} {st : St} (hi : FInv uris cfg st) :
    specDict (finalize st).reparsed = expectedDict cfg uris := by
  obtain ⟨f1, f2, f3, f4, f5, f6, f7, f8, f9, f10⟩ := final_facts
  have hsrv : specForest (ctxOf .httpGet) [k "http-get"]
      (if st.recover.isEmpty then st.f .httpGet
        else addNonEmpty (st.f .httpGet) (b "server") (block (some (b "output")) (dtKids st.recover))).reparsed =
      D st .httpGet ++ cfg.flatMap (expFor uris srvBlk) := by
    rcases hi.server with ⟨h1, h2⟩ | ⟨l, h1, h2, h3⟩
    · simp [h1, h2, D, pathKw]
    · have hne : st.recover.isEmpty = false := by
        rw [h1]; cases l with
        | nil => exact absurd rfl h2
        | cons x xs => rfl
      rw [hne]
      simp only [Bool.false_eq_true, if_false]
      rw [spec_addNonEmpty f7, spec_block' f8, h1, h3]
      have := spec_recover l dtN
      simp only [srvPath] at this
      simp only [D, pathKw, List.cons_append, List.nil_append]
      rw [this]
  unfold specDict finalize expectedDict
  dsimp only [PTree.reparsed]
  rw [show rootCtx = L "value" from rfl]
  rw [spec_addNonEmpty f6, spec_addNonEmpty f5, spec_addNonEmpty f4, spec_addNonEmpty f3, spec_addNonEmpty f2,
    spec_addNonEmpty f1, spec_addNonEmpty f10, spec_addNonEmpty f9]
  simp only [List.nil_append, List.cons_append]
  rw [hsrv]
  have hb := hi.blocks
  simp only [D, pathKw, ctxOf] at hb
  simp only [D, pathKw, ctxOf]
  rw [hb .profile, hb .httpGet, hb .getClient, hb .httpPost, hb .postClient, hb .stage, hb .procInj, hb .dns,
    hb .httpBeacon]
  simp only [srvBlk, List.append_assoc]


/-! ### Part 6: blocks with no content are absent -/

/-! `braceLabels`, `braceLabel`, `noEmptyBlocks` are defined in Model/C13.lean (the driver evaluates them) -/

theorem ne_append (x y : PForest) : noEmptyBlocks (x ++ y) = (noEmptyBlocks x && noEmptyBlocks y) := by
  show noEmptyBlocks (PForest.append x y) = _
  induction x with
  | nil => simp [PForest.append, noEmptyBlocks]
  | tok o t r ih => simp [PForest.append, noEmptyBlocks, ih]
  | node l k r _ ih => simp [PForest.append, noEmptyBlocks, ih, Bool.and_assoc]

theorem ne_flatten (fs : List PForest) (h : ∀ f ∈ fs, noEmptyBlocks f = true) : noEmptyBlocks (PForest.flatten fs) = true := by
  induction fs with
  | nil => rfl
  | cons f fs ih => rw [flatten_cons, ne_append, h f (by simp), ih fun g hg => h g (by simp [hg])]; rfl

theorem brace_string : braceLabel (some (b "string")) = false := by decide +kernel

theorem ne_strKids (args : List Bytes) : noEmptyBlocks (strKids args) = true := by
  induction args with
  | nil => rfl
  | cons a as ih => simp [strKids, noEmptyBlocks, brace_string, ih]

theorem ne_stmt {l : Bytes} (args : List Bytes) (h : braceLabel (some l) = false ∨ args ≠ []) :
    noEmptyBlocks (stmt l args) = true := by
  simp only [stmt, noEmptyBlocks, ne_strKids, Bool.and_true, Bool.or_eq_true, Bool.not_eq_eq_eq_not, Bool.not_true]
  rcases h with h | h
  · exact .inl h
  · right; cases args with
    | nil => exact absurd rfl h
    | cons a as => rfl

theorem ne_block {l : Option Bytes} {kids : PForest} (hk : noEmptyBlocks kids = true) (hne : kids.isEmpty = false) :
    noEmptyBlocks (block l kids) = true := by
  simp [block, noEmptyBlocks, hk, hne]

theorem ne_optStmt (name s : Bytes) : noEmptyBlocks (optStmt name s) = true := by
  simp [optStmt, noEmptyBlocks, ne_strKids, strKids, PForest.isEmpty]

/-! data transforms: whatever the options are -/

theorem dt_name_facts :
    (dtFlagSteps.all fun n => !braceLabel (some n)) = true ∧
    (dtTermOptions.all fun n => !braceLabel (some (dashToUnderscore n))) = true ∧
    braceLabel (some (b "data_transform")) = false ∧ braceLabel (some (b "steps")) = false ∧
    braceLabel (some (b "termination")) = false := by decide +kernel

theorem dtClassify_bare_eq (n : Bytes) : dtClassify (.bare n) =
    if dtFlagSteps.contains n then (stmt n [], .nil)
    else if dtTermOptions.contains n then (.nil, stmt (dashToUnderscore n) [])
    else
      match n with
      | [c0, c1] => (stmt [c0] [C12.valueToStringStr [c1]], .nil)
      | _ => (.nil, .nil) := rfl

theorem dtClassify_pair_eq (n : Bytes) (v : DArg) : dtClassify (.pair n v) =
    if dtArgTerms.contains n then (.nil, stmt n [v.vts]) else (stmt n [v.vts], .nil) := rfl

theorem ne_classify (o : DOpt) : noEmptyBlocks (dtClassify o).1 = true ∧ noEmptyBlocks (dtClassify o).2 = true := by
  obtain ⟨hf, ht, _, _, _⟩ := dt_name_facts
  cases o with
  | bare n =>
    rw [dtClassify_bare_eq]
    split
    · rename_i h
      have := List.all_eq_true.mp hf n (by simpa using h)
      exact ⟨ne_stmt [] (.inl (by simpa using this)), rfl⟩
    · split
      · rename_i h
        have := List.all_eq_true.mp ht n (by simpa using h)
        exact ⟨rfl, ne_stmt [] (.inl (by simpa using this))⟩
      · split
        · exact ⟨ne_stmt _ (.inr (by simp)), rfl⟩
        · exact ⟨rfl, rfl⟩
  | pair n v =>
    rw [dtClassify_pair_eq]
    split
    · exact ⟨rfl, ne_stmt _ (.inr (by simp))⟩
    · exact ⟨ne_stmt _ (.inr (by simp)), rfl⟩

theorem ne_dtKids (ds : List DOpt) : noEmptyBlocks (dtKids ds) = true ∧ (dtKids ds).isEmpty = false := by
  obtain ⟨_, _, h1, h2, h3⟩ := dt_name_facts
  have hs : noEmptyBlocks (dtSteps ds) = true := ne_flatten _ (by
    intro f hf; obtain ⟨o, _, rfl⟩ := List.mem_map.mp hf; exact (ne_classify o).1)
  have ht : noEmptyBlocks (dtTerms ds) = true := ne_flatten _ (by
    intro f hf; obtain ⟨o, _, rfl⟩ := List.mem_map.mp hf; exact (ne_classify o).2)
  exact ⟨by simp [dtKids, noEmptyBlocks, h1, h2, h3, hs, ht], rfl⟩

theorem ne_requestKids (prog : List TStep) : noEmptyBlocks (requestKids prog) = true := by
  unfold requestKids
  simp only [ne_append, Bool.and_eq_true]
  refine ⟨?_, ?_, ?_⟩
  · exact ne_flatten _ (by intro f hf; obtain ⟨p, _, rfl⟩ := List.mem_map.mp hf; exact ne_stmt _ (.inr (by simp)))
  · exact ne_flatten _ (by intro f hf; obtain ⟨p, _, rfl⟩ := List.mem_map.mp hf; exact ne_stmt _ (.inr (by simp)))
  · exact ne_flatten _ (by
      intro f hf; obtain ⟨g, _, rfl⟩ := List.mem_map.mp hf
      exact ne_block (ne_dtKids g.2).1 (ne_dtKids g.2).2)

/-! the chain -/

def actNE : Act → Bool
  | .blkOpt _ l => !braceLabel (some l)
  | .blkConst _ l _ => !braceLabel (some l)
  | .perms l _ _ => !braceLabel (some l)
  | _ => true

theorem table_ne : actionTable.all (fun e => actNE e.2.2 && (!(e.2.2 == .gate) || e.2.1)) = true := by decide +kernel

theorem actionOf_ne (idx : Nat) (v : PVal) :
    actNE (actionOf idx v) = true ∧ (actionOf idx v = .gate → v.truthy = true) := by
  unfold actionOf
  split
  · rename_i x g a hf
    have := List.all_eq_true.mp table_ne _ (List.mem_of_find?_eq_some hf)
    simp only [Bool.and_eq_true, Bool.or_eq_true, Bool.not_eq_eq_eq_not, Bool.not_true, beq_eq_false_iff_ne] at this
    split
    · exact ⟨rfl, fun h => by cases h⟩
    · rename_i hg
      refine ⟨this.1, fun ha => ?_⟩
      rcases this.2 with h | h
      · exact absurd ha h
      · subst h
        simpa using hg
  · exact ⟨rfl, fun h => by cases h⟩

theorem misc_ne_facts :
    braceLabel (some (b "uri")) = false ∧ braceLabel (some (b "allocator")) = false ∧
    (execEnable.all fun s => !braceLabel (some (dashToUnderscore (lower s)))) = true ∧
    (gateLabels.all fun s => !braceLabel (some (lower s))) = true := by decide +kernel

theorem ne_injKids (l : List (Bool × Bytes)) : noEmptyBlocks (injKids l) = true := by
  unfold injKids
  rw [ne_append, Bool.and_eq_true]
  constructor
  · cases injLast true l with
    | none => rfl
    | some v => dsimp only; split; rfl; exact ne_stmt _ (.inr (by simp))
  · cases injLast false l with
    | none => rfl
    | some v => dsimp only; split; rfl; exact ne_stmt _ (.inr (by simp))

theorem ne_execItem {s : Bytes} (h : wfExecItem (some s) = true) :
    ∃ f, execItem (some s) = .ok f ∧ noEmptyBlocks f = true ∧ f.isEmpty = false := by
  obtain ⟨_, _, hen, _⟩ := misc_ne_facts
  refine ⟨_, rfl, ?_, ?_⟩
  · rw [ne_append]
    have h1 : noEmptyBlocks (if execEnable.contains s then stmt (dashToUnderscore (lower s)) [] else .nil) = true := by
      split
      · rename_i hc
        have := List.all_eq_true.mp hen s (by simpa using hc)
        exact ne_stmt [] (.inl (by simpa using this))
      · rfl
    rw [h1, Bool.and_true]
    split
    · dsimp only
      split
      · exact ne_stmt _ (.inr (by simp))
      · split
        · exact ne_stmt _ (.inr (by simp))
        · rfl
    · rfl
  · simp only [wfExecItem, Bool.and_eq_true, Bool.or_eq_true, decide_eq_true_eq] at h
    rcases h with hm | ⟨⟨hsp, hname⟩, _⟩
    · simp only [hm, if_true]
      generalize (if s.contains 32 then _ else PForest.nil : PForest) = sp
      cases sp <;> rfl
    · simp only [hsp, if_true]
      rcases hname with h1 | h1
      · simp only [h1]
        rw [if_pos (show k "CreateThread" = b "CreateThread" from rfl)]
        rfl
      · simp only [h1]
        rw [if_neg (by decide +kernel : ¬ k "CreateRemoteThread" = b "CreateThread"),
          if_pos (show k "CreateRemoteThread" = b "CreateRemoteThread" from rfl)]
        rfl

theorem ne_execKids (l : List (Option Bytes)) (h : l.all wfExecItem = true) :
    ∃ f, execKids l = .ok f ∧ noEmptyBlocks f = true ∧ (l ≠ [] → f.isEmpty = false) := by
  induction l with
  | nil => exact ⟨.nil, rfl, rfl, fun h => absurd rfl h⟩
  | cons i is ih =>
    simp only [List.all_cons, Bool.and_eq_true] at h
    obtain ⟨r, hr, hnr, _⟩ := ih h.2
    cases i with
    | none => simp [wfExecItem] at h
    | some s =>
      obtain ⟨f, hf, hnf, hef⟩ := ne_execItem h.1
      refine ⟨f ++ r, by simp only [execKids, hf, hr], by rw [ne_append, hnf, hnr]; rfl, fun _ => ?_⟩
      cases f with
      | nil => simp [PForest.isEmpty] at hef
      | tok o t r' => rfl
      | node l k r' => rfl

/-- invariant: no block object holds an empty `{ }` block -/
def NEInv (st : St) : Prop := ∀ kb, noEmptyBlocks (st.f kb) = true

theorem ne_app {st : St} (h : NEInv st) (kb : Blk) {g : PForest} (hg : noEmptyBlocks g = true) : NEInv (st.app kb g) := by
  intro kb'
  simp only [St.app]
  split
  · rw [ne_append, h kb', hg]; rfl
  · exact h kb'

theorem runAct_ne (uris : List (Option Bytes)) (st st' : St) (v : PVal) (a : Act) (ha : actNE a = true)
    (hg : a = .gate → v.truthy = true) (hw : wfAct a v = true) (hi : NEInv st)
    (hr : runAct uris st v a = .ok st') : NEInv st' := by
  obtain ⟨huri, halloc, _, hgl⟩ := misc_ne_facts
  cases a with
  | pass => cases hr; exact hi
  | profOpt name =>
    simp only [runAct] at hr
    split at hr
    · cases hr; exact ne_app hi _ (ne_optStmt _ _)
    · cases hr
  | blkOpt kb l =>
    simp only [runAct] at hr
    split at hr
    · cases hr; exact ne_app hi _ (ne_stmt _ (.inr (by simp)))
    · cases hr
  | blkConst kb l t => cases hr; exact ne_app hi _ (ne_stmt _ (.inr (by simp)))
  | uris =>
    simp only [runAct] at hr
    split at hr
    · cases hr; exact hi
    · cases hr; exact ne_app hi _ (ne_stmt _ (.inr (by simp)))
  | recover =>
    cases v with
    | recover l => cases hr; exact hi
    | _ => simp [wfAct] at hw
  | request c =>
    cases v with
    | transform prog => cases hr; exact ne_app hi _ (ne_requestKids prog)
    | _ => cases c <;> simp [wfAct] at hw
  | perms l t f =>
    simp only [runAct] at hr
    split at hr
    · cases hr; exact ne_app hi _ (ne_stmt _ (.inr (by simp)))
    · split at hr
      · cases hr; exact ne_app hi _ (ne_stmt _ (.inr (by simp)))
      · cases hr; exact hi
  | injT l =>
    cases v with
    | inj lst =>
      simp only [runAct] at hr
      split at hr
      · cases hr; exact hi
      · rename_i hne
        cases hr
        exact ne_app hi _ (ne_block (ne_injKids lst) (by simpa using hne))
    | _ => simp [wfAct] at hw
  | execute =>
    cases v with
    | execute lst =>
      obtain ⟨f, hf, hnf, hef⟩ := ne_execKids lst (by simpa [wfAct] using hw)
      simp only [runAct, hf] at hr
      split at hr
      · cases hr; exact hi
      · rename_i hne
        cases hr
        exact ne_app hi _ (ne_block hnf (hef (by intro e; subst e; simp at hne)))
    | _ => simp [wfAct] at hw
  | allocator => cases hr; exact ne_app hi _ (ne_stmt _ (.inr (by simp)))
  | gate =>
    cases v with
    | gate lst =>
      cases hr
      have hne : lst ≠ [] := by
        intro e; subst e
        have := hg rfl
        simp [PVal.truthy] at this
      refine ne_app hi _ (ne_block (ne_flatten _ ?_) ?_)
      · intro f hf
        obtain ⟨s, hs, rfl⟩ := List.mem_map.mp hf
        have hm : s ∈ gateLabels := by
          have := List.all_eq_true.mp (by simpa [wfAct] using hw : lst.all gateLabels.contains = true) s hs
          simpa using this
        have := List.all_eq_true.mp hgl s hm
        exact ne_stmt [] (.inl (by simpa using this))
      · cases lst with
        | nil => exact absurd rfl hne
        | cons s rest => rfl
    | _ => simp [wfAct] at hw

theorem runSettings_ne (uris : List (Option Bytes)) (cfg : List (Nat × PVal)) :
    ∀ st st', cfg.all wfSetting = true → NEInv st → runSettings uris st cfg = .ok st' → NEInv st' := by
  induction cfg with
  | nil => intro st st' _ hi hr; cases hr; exact hi
  | cons kv rest ih =>
    intro st st' hw hi hr
    simp only [List.all_cons, Bool.and_eq_true] at hw
    simp only [runSettings] at hr
    cases h1 : stepOne uris st kv with
    | error e => simp [h1] at hr
    | ok st1 =>
      simp only [h1] at hr
      have hne := actionOf_ne kv.1 kv.2
      exact ih st1 st' hw.2 (runAct_ne uris st st1 kv.2 _ hne.1 hne.2 (wfSetting_act hw.1) hi h1) hr

theorem ne_addNonEmpty {parent kids : PForest} {l : Bytes} (hp : noEmptyBlocks parent = true)
    (hk : noEmptyBlocks kids = true) : noEmptyBlocks (addNonEmpty parent l kids) = true := by
  unfold addNonEmpty
  split
  · exact hp
  · rename_i hne
    rw [ne_append, hp, ne_block hk (by simpa using hne)]; rfl

theorem finalize_ne {st : St} (hi : NEInv st) : noEmptyBlocks (finalize st).kids = true := by
  unfold finalize
  dsimp only
  have hg1 : noEmptyBlocks (if st.recover.isEmpty then st.f .httpGet
      else addNonEmpty (st.f .httpGet) (b "server") (block (some (b "output")) (dtKids st.recover))) = true := by
    split
    · exact hi .httpGet
    · exact ne_addNonEmpty (hi .httpGet) (ne_block (ne_dtKids _).1 (ne_dtKids _).2)
  exact ne_addNonEmpty (ne_addNonEmpty (ne_addNonEmpty (ne_addNonEmpty (ne_addNonEmpty
    (ne_addNonEmpty (hi .profile) (ne_addNonEmpty hg1 (hi .getClient)))
    (ne_addNonEmpty (hi .httpPost) (hi .postClient))) (hi .stage)) (hi .procInj)) (hi .dns)) (hi .httpBeacon)


/-! ### Part 7: every token of the generated tree lexes back to itself as one token -/

section Lex
open C12 (dq sq bsl Txt scanBody pre valueToStringStr valueToString)

theorem scanStr_cons (esc : Bool) (c : Nat) (cs : C10.Text) :
    C10.scanStr esc (c :: cs) =
      if (c == 34 && !esc) = true then some ([34], cs)
      else (C10.scanStr (c == 92 && !esc) cs).map fun p => (c :: p.1, p.2) := by
  rw [C10.scanStr]
  split
  · rfl
  · cases C10.scanStr (c == 92 && !esc) cs <;> rfl

theorem scanBody_cons (c : UInt8) (cs : Txt) (even : Bool) :
    scanBody (c :: cs) even =
      if c = dq ∧ even = true then some ([c], cs)
      else (scanBody cs (if c = bsl then !even else true)).map fun p => (c :: p.1, p.2) := by
  rw [scanBody]

theorem toNat_eq_34 (c : UInt8) : (c.toNat == 34) = decide (c = dq) := by
  rw [Bool.eq_iff_iff]; simp only [beq_iff_eq, decide_eq_true_eq]
  exact ⟨fun h => UInt8.toNat_inj.mp (h.trans (by decide : (34 : Nat) = dq.toNat)), fun h => h ▸ (by decide)⟩

theorem toNat_eq_92 (c : UInt8) : (c.toNat == 92) = decide (c = bsl) := by
  rw [Bool.eq_iff_iff]; simp only [beq_iff_eq, decide_eq_true_eq]
  exact ⟨fun h => UInt8.toNat_inj.mp (h.trans (by decide : (92 : Nat) = bsl.toNat)), fun h => h ▸ (by decide)⟩

/-- C10's STRING scanner on latin-1 text is C12's (`esc` = an odd backslash run precedes = `!even`) -/
theorem scanStr_toText (cs : Bytes) : ∀ esc : Bool,
    C10.scanStr esc (toText cs) = (scanBody cs (!esc)).map fun p => (toText p.1, toText p.2) := by
  induction cs with
  | nil => intro esc; simp [toText, C10.scanStr, scanBody]
  | cons c cs ih =>
    intro esc
    have hcons : toText (c :: cs) = c.toNat :: toText cs := rfl
    rw [hcons, scanStr_cons, scanBody_cons, ih, toNat_eq_34, toNat_eq_92]
    by_cases h1 : c = dq
    · subst h1
      have hb : ¬ dq = bsl := by decide
      cases esc
      · simp [toText]; decide
      · simp only [decide_true, Bool.not_true, Bool.and_false, Bool.false_eq_true, if_false, hb, decide_false,
          Bool.false_and, Bool.not_false, and_false, Option.map_map]
        cases scanBody cs true <;> simp [toText]
    · by_cases h2 : c = bsl
      · subst h2
        cases esc
        · simp only [h1, decide_false, Bool.false_and, Bool.false_eq_true, if_false, decide_true, Bool.not_false,
            Bool.and_true, Bool.not_true, false_and, if_true, Option.map_map]
          cases scanBody cs false <;> simp [toText]
        · simp only [h1, decide_false, Bool.false_and, Bool.false_eq_true, if_false, decide_true, Bool.not_true,
            Bool.and_false, Bool.not_false, false_and, if_true, Option.map_map]
          cases scanBody cs true <;> simp [toText]
      · cases esc
        · simp only [h1, h2, decide_false, Bool.false_and, Bool.false_eq_true, if_false, Bool.not_false, false_and,
            Option.map_map]
          cases scanBody cs true <;> simp [toText]
        · simp only [h1, h2, decide_false, Bool.false_and, Bool.false_eq_true, if_false, Bool.not_false, false_and,
            Option.map_map]
          cases scanBody cs true <;> simp [toText]

/-- a well-formed STRING literal: opening quote, body scanned to exactly the closing quote -/
def litOK : Bytes → Bool
  | c :: cs => c == dq && scanBody cs true == some (cs, [])
  | [] => false

theorem litOK_lexable (kws : List C10.Text) (tok : Bytes) (h : litOK tok = true) :
    C10.lexableTok kws (toText tok) = true := by
  cases tok with
  | nil => simp [litOK] at h
  | cons c cs =>
    simp only [litOK, Bool.and_eq_true, beq_iff_eq] at h
    obtain ⟨rfl, hs⟩ := h
    have := scanStr_toText cs false
    simp only [Bool.not_false, hs, Option.map_some] at this
    have hcons : toText (dq :: cs) = 34 :: toText cs := rfl
    rw [hcons]
    simp only [C10.lexableTok, beq_self_eq_true, if_true, this]
    have : toText ([] : Bytes) = [] := rfl
    rw [this]
    exact beq_self_eq_true _

theorem litOK_bytes (v : Bytes) : litOK (valueToString v) = true := by
  rw [C12.valueToString_eq]
  simp only [litOK, beq_self_eq_true, Bool.true_and, beq_iff_eq]
  rw [C12.scanBody_units]
  simp [scanBody, pre]

theorem scanBody_strUnits (s : Txt) (h : noBackslash s = true) (t : Txt) :
    scanBody (s.flatMap strUnit ++ t) true = pre (s.flatMap strUnit) (scanBody t true) := by
  induction s with
  | nil => cases hs : scanBody t true <;> simp [pre, hs]
  | cons c cs ih =>
    have hc : c ≠ bsl := by intro e; subst e; simp [noBackslash] at h
    have hcs : noBackslash cs = true := by
      simp only [noBackslash, List.contains_cons, Bool.not_eq_eq_eq_not, Bool.not_true, Bool.or_eq_false_iff] at h ⊢
      exact h.2
    simp only [List.flatMap_cons, List.append_assoc]
    by_cases hq : c = dq
    · subst hq
      simp only [strUnit, if_true, List.cons_append, List.nil_append]
      rw [C12.scanBody_escaped, ih hcs, C12.pre_pre]; rfl
    · simp only [strUnit, hq, if_false, List.cons_append, List.nil_append]
      rw [C12.scanBody_plain _ _ hq hc, ih hcs, C12.pre_pre]; rfl

theorem litOK_str (s : Bytes) (h : noBackslash s = true) : litOK (valueToStringStr s) = true := by
  rw [valueToStringStr_eq s h]
  simp only [litOK, beq_self_eq_true, Bool.true_and, beq_iff_eq]
  rw [scanBody_strUnits s h]
  simp [scanBody, pre]

theorem decBytes_plain (n : Nat) : ∀ c ∈ decBytes n, c ≠ bsl ∧ c ≠ dq := by
  intro c hc
  simp only [decBytes, List.mem_map] at hc
  obtain ⟨ch, hch, rfl⟩ := hc
  have hd := Nat.isDigit_of_mem_toDigits (by decide) (by decide) hch
  simp only [Char.isDigit, Bool.and_eq_true, decide_eq_true_eq, ge_iff_le] at hd
  have h1 : (48 : Nat) ≤ ch.toNat := UInt32.le_iff_toNat_le.mp hd.1
  have h2 : ch.toNat ≤ 57 := UInt32.le_iff_toNat_le.mp hd.2
  have hm : (ch.toNat.toUInt8).toNat = ch.toNat := by simp [Nat.toUInt8]; omega
  constructor
  · intro e
    have := congrArg UInt8.toNat e
    rw [hm] at this
    have hb : bsl.toNat = 92 := by decide
    omega
  · intro e
    have := congrArg UInt8.toNat e
    rw [hm] at this
    have hb : dq.toNat = 34 := by decide
    omega

theorem vts_int_eq (n : Nat) : [34] ++ decBytes n ++ [34] = valueToStringStr (decBytes n) := by
  have hp := decBytes_plain n
  have hnb : noBackslash (decBytes n) = true := by
    simp only [noBackslash, Bool.not_eq_eq_eq_not, Bool.not_true, List.contains_eq_mem, decide_eq_false_iff_not]
    intro hm; exact (hp _ hm).1 rfl
  rw [valueToStringStr_eq _ hnb]
  have : (decBytes n).flatMap strUnit = decBytes n := by
    generalize decBytes n = l at hp
    induction l with
    | nil => rfl
    | cons c cs ih =>
      have := (hp c (by simp)).2
      simp only [List.flatMap_cons, strUnit, this, if_false]
      rw [ih fun x hx => hp x (by simp [hx])]; rfl
  rw [this]; rfl

theorem litOK_vts {v : PVal} {s : Bytes} (hw : wfScalar v = true) (h : vts v = some s) : litOK s = true := by
  cases v with
  | int n =>
    simp only [vts, Option.some.injEq] at h
    subst h
    rw [vts_int_eq]
    have hp := decBytes_plain n
    exact litOK_str _ (by
      simp only [noBackslash, Bool.not_eq_eq_eq_not, Bool.not_true, List.contains_eq_mem, decide_eq_false_iff_not]
      intro hm; exact (hp _ hm).1 rfl)
  | str t => simp only [vts, Option.some.injEq] at h; subst h; exact litOK_bytes t
  | bytes t => simp only [vts, Option.some.injEq] at h; subst h; exact litOK_bytes t
  | _ => simp [wfScalar] at hw

end Lex


/-! ### Part 7b: the generator only emits well-formed tokens -/

/-- an OPTION token is one of the alternatives of the terminal; a STRING token is one well-formed literal -/
def tokOK (isOpt : Bool) (text : Bytes) : Bool :=
  if isOpt then Grammar.optionAlts.contains (toText text) else litOK text

def tokensOK : PForest → Bool
  | .nil => true
  | .tok o t r => tokOK o t && tokensOK r
  | .node _ ks r => tokensOK ks && tokensOK r

theorem tk_append (x y : PForest) : tokensOK (x ++ y) = (tokensOK x && tokensOK y) := by
  show tokensOK (PForest.append x y) = _
  induction x with
  | nil => simp [PForest.append, tokensOK]
  | tok o t r ih => simp [PForest.append, tokensOK, ih, Bool.and_assoc]
  | node l k r _ ih => simp [PForest.append, tokensOK, ih, Bool.and_assoc]

theorem tk_flatten (fs : List PForest) (h : ∀ f ∈ fs, tokensOK f = true) : tokensOK (PForest.flatten fs) = true := by
  induction fs with
  | nil => rfl
  | cons f fs ih => rw [flatten_cons, tk_append, h f (by simp), ih fun g hg => h g (by simp [hg])]; rfl

theorem tk_strKids (args : List Bytes) (h : ∀ a ∈ args, litOK a = true) : tokensOK (strKids args) = true := by
  induction args with
  | nil => rfl
  | cons a as ih =>
    simp only [strKids, tokensOK, tokOK, Bool.false_eq_true, if_false, h a (by simp), Bool.and_true, Bool.true_and]
    exact ih fun x hx => h x (by simp [hx])

theorem tk_stmt (l : Bytes) (args : List Bytes) (h : ∀ a ∈ args, litOK a = true) : tokensOK (stmt l args) = true := by
  simp [stmt, tokensOK, tk_strKids args h]

theorem tk_block (l : Option Bytes) {kids : PForest} (h : tokensOK kids = true) : tokensOK (block l kids) = true := by
  simp [block, tokensOK, h]

theorem tk_optStmt {name s : Bytes} (hn : Grammar.optionAlts.contains (toText name) = true) (hs : litOK s = true) :
    tokensOK (optStmt name s) = true := by
  have hn' : toText name ∈ Grammar.optionAlts := by simpa using hn
  simp [optStmt, tokensOK, tokOK, hn', strKids, hs]

/-! data transforms -/

def argOK : DArg → Bool
  | .bytes _ => true
  | .str s => noBackslash s

def optTokOK : DOpt → Bool
  | .bare n => (bareCls n).isSome
  | .pair _ v => argOK v

theorem litOK_darg {v : DArg} (h : argOK v = true) : litOK v.vts = true := by
  cases v with
  | bytes x => exact litOK_bytes x
  | str s => exact litOK_str s h

theorem tk_classify {o : DOpt} (h : optTokOK o = true) :
    tokensOK (dtClassify o).1 = true ∧ tokensOK (dtClassify o).2 = true := by
  cases o with
  | bare n =>
    simp only [optTokOK, Option.isSome_iff_exists] at h
    obtain ⟨⟨t, l⟩, hc⟩ := h
    rw [dtClassify_bare hc]
    cases t <;> exact ⟨by first | rfl | exact tk_stmt _ [] (by simp), by first | rfl | exact tk_stmt _ [] (by simp)⟩
  | pair n v =>
    rw [dtClassify_pair_eq]
    have := litOK_darg h
    split
    · exact ⟨rfl, tk_stmt _ _ (by simpa using this)⟩
    · exact ⟨tk_stmt _ _ (by simpa using this), rfl⟩

theorem tk_dtKids (ds : List DOpt) (h : ∀ o ∈ ds, optTokOK o = true) : tokensOK (dtKids ds) = true := by
  have hs : tokensOK (dtSteps ds) = true := tk_flatten _ (by
    intro f hf; obtain ⟨o, ho, rfl⟩ := List.mem_map.mp hf; exact (tk_classify (h o ho)).1)
  have ht : tokensOK (dtTerms ds) = true := tk_flatten _ (by
    intro f hf; obtain ⟨o, ho, rfl⟩ := List.mem_map.mp hf; exact (tk_classify (h o ho)).2)
  simp [dtKids, tokensOK, hs, ht]

theorem toDOpt_tokOK {t : TStep} {d : DOpt} (h : toDOpt t = some d) : optTokOK d = true := by
  cases t with
  | build s => cases h
  | static s v => cases h
  | arg a v => cases h; rfl
  | en e =>
    cases h
    have := en_check e
    unfold bareCheck at this
    simp only [optTokOK]
    split at this
    · rename_i hc; simp [hc]
    · cases this

theorem recoverOpt_tokOK (r : RStep) : optTokOK (recoverOpt r) = true := by
  cases r with
  | append n => exact replicateX_noBackslash n
  | prepend n => exact replicateX_noBackslash n
  | base64 => decide +kernel
  | print => decide +kernel
  | netbios => decide +kernel
  | netbiosu => decide +kernel
  | base64url => decide +kernel
  | mask => decide +kernel

def groupsTokOK (gs : List (Option Bytes × List DOpt)) : Prop := ∀ g ∈ gs, ∀ o ∈ g.2, optTokOK o = true

theorem addGroup_tokOK {key : Option Bytes} {d : DOpt} {gs : List (Option Bytes × List DOpt)} (hd : optTokOK d = true)
    (h : groupsTokOK gs) : groupsTokOK (addGroup key d gs) := by
  induction gs with
  | nil => intro g hg o ho; simp [addGroup] at hg; subst hg; simp at ho; subst ho; exact hd
  | cons x xs ih =>
    intro g hg o ho
    simp only [addGroup] at hg
    split at hg
    · simp only [List.mem_cons] at hg
      rcases hg with rfl | hg
      · simp only [List.mem_append, List.mem_singleton] at ho
        rcases ho with ho | rfl
        · exact h x (by simp) o ho
        · exact hd
      · exact h g (by simp [hg]) o ho
    · simp only [List.mem_cons] at hg
      rcases hg with hg | hg
      · subst hg; exact h x (by simp) o ho
      · exact ih (fun g' hg' => h g' (by simp [hg'])) g hg o ho

theorem reqRun_tokOK (prog : List TStep) : ∀ a : ReqAcc, groupsTokOK a.groups → groupsTokOK (prog.foldl reqStep a).groups := by
  induction prog with
  | nil => intro a h; exact h
  | cons x rest ih =>
    intro a h
    rw [List.foldl_cons]
    apply ih
    cases x with
    | build s => exact h
    | static s v => cases s <;> exact h
    | en e => exact addGroup_tokOK (toDOpt_tokOK (t := .en e) rfl) h
    | arg y v => exact addGroup_tokOK (toDOpt_tokOK (t := .arg y v) rfl) h

theorem tk_requestKids (prog : List TStep) : tokensOK (requestKids prog) = true := by
  unfold requestKids
  simp only [tk_append, Bool.and_eq_true]
  refine ⟨?_, ?_, ?_⟩
  · exact tk_flatten _ (by
      intro f hf; obtain ⟨p, _, rfl⟩ := List.mem_map.mp hf
      exact tk_stmt _ _ (by intro a ha; simp at ha; rcases ha with rfl | rfl <;> exact litOK_bytes _))
  · exact tk_flatten _ (by
      intro f hf; obtain ⟨p, _, rfl⟩ := List.mem_map.mp hf
      exact tk_stmt _ _ (by intro a ha; simp at ha; rcases ha with rfl | rfl <;> exact litOK_bytes _))
  · have hg := reqRun_tokOK prog ⟨Option.none, [], [], []⟩ (by intro g hg; cases hg)
    exact tk_flatten _ (by
      intro f hf; obtain ⟨g, hgm, rfl⟩ := List.mem_map.mp hf
      exact tk_block _ (tk_dtKids g.2 (hg g hgm)))

/-! the chain -/

def actTK : Act → Bool
  | .blkConst _ _ t => noBackslash t
  | _ => true

theorem table_tk : actionTable.all (fun e => actTK e.2.2) = true := by decide +kernel

theorem actionOf_tk (idx : Nat) (v : PVal) : actTK (actionOf idx v) = true := by
  unfold actionOf
  split
  · rename_i x g a hf
    have := List.all_eq_true.mp table_tk _ (List.mem_of_find?_eq_some hf)
    split
    · rfl
    · exact this
  · rfl

theorem const_lits :
    litOK (C12.valueToStringStr (b "true")) = true ∧ litOK (C12.valueToStringStr (b "false")) = true ∧
    litOK (C12.valueToStringStr (b "NtMapViewOfSection")) = true ∧ litOK (C12.valueToStringStr (b "VirtualAllocEx")) = true := by
  decide +kernel

theorem tk_injKids (l : List (Bool × Bytes)) : tokensOK (injKids l) = true := by
  unfold injKids
  rw [tk_append, Bool.and_eq_true]
  constructor
  · cases injLast true l with
    | none => rfl
    | some v => dsimp only; split; rfl; exact tk_stmt _ _ (by simp [litOK_bytes])
  · cases injLast false l with
    | none => rfl
    | some v => dsimp only; split; rfl; exact tk_stmt _ _ (by simp [litOK_bytes])

theorem tk_execItem (s : Bytes) : ∃ f, execItem (some s) = .ok f ∧ tokensOK f = true := by
  refine ⟨_, rfl, ?_⟩
  have hval := litOK_bytes (pySliceTo (pySliceFrom (partition2 [32] s).2 1) (some (-1)))
  rw [tk_append, Bool.and_eq_true]
  constructor
  · split
    · dsimp only
      split
      · exact tk_stmt _ _ (by simpa using hval)
      · split
        · exact tk_stmt _ _ (by simpa using hval)
        · rfl
    · rfl
  · split
    · exact tk_stmt _ [] (by simp)
    · rfl

theorem tk_execKids (l : List (Option Bytes)) (h : l.all wfExecItem = true) :
    ∃ f, execKids l = .ok f ∧ tokensOK f = true := by
  induction l with
  | nil => exact ⟨.nil, rfl, rfl⟩
  | cons i is ih =>
    simp only [List.all_cons, Bool.and_eq_true] at h
    obtain ⟨r, hr, hnr⟩ := ih h.2
    cases i with
    | none => simp [wfExecItem] at h
    | some s =>
      obtain ⟨f, hf, hnf⟩ := tk_execItem s
      exact ⟨f ++ r, by simp only [execKids, hf, hr], by rw [tk_append, hnf, hnr]; rfl⟩

structure TKInv (st : St) : Prop where
  blocks : ∀ kb, tokensOK (st.f kb) = true
  recov : ∀ o ∈ st.recover, optTokOK o = true

theorem tk_app {st : St} (h : TKInv st) (kb : Blk) {g : PForest} (hg : tokensOK g = true) : TKInv (st.app kb g) := by
  refine ⟨fun kb' => ?_, h.recov⟩
  simp only [St.app]
  split
  · rw [tk_append, h.blocks kb', hg]; rfl
  · exact h.blocks kb'

theorem runAct_tk (uris : List (Option Bytes)) (st st' : St) (v : PVal) (a : Act) (ha : actOKb a = true)
    (hk : actTK a = true) (hw : wfAct a v = true) (hi : TKInv st) (hr : runAct uris st v a = .ok st') :
    TKInv st' := by
  obtain ⟨ct, cf, cn, cv⟩ := const_lits
  cases a with
  | pass => cases hr; exact hi
  | profOpt name =>
    have hws : wfScalar v = true := by simpa [wfAct] using hw
    obtain ⟨s, hs⟩ := wfScalar_vts hws
    simp only [runAct, hs, Except.ok.injEq] at hr
    subst hr
    exact tk_app hi _ (tk_optStmt ha (litOK_vts hws hs))
  | blkOpt kb l =>
    have hws : wfScalar v = true := by simpa [wfAct] using hw
    obtain ⟨s, hs⟩ := wfScalar_vts hws
    simp only [runAct, hs, Except.ok.injEq] at hr
    subst hr
    exact tk_app hi _ (tk_stmt _ _ (by simpa using litOK_vts hws hs))
  | blkConst kb l t =>
    cases hr
    exact tk_app hi _ (tk_stmt _ _ (by simpa using litOK_str t hk))
  | uris =>
    simp only [runAct] at hr
    split at hr
    · cases hr; exact hi
    · cases hr; exact tk_app hi _ (tk_stmt _ _ (by simpa using litOK_bytes _))
  | recover =>
    cases v with
    | recover l =>
      cases hr
      refine ⟨hi.blocks, ?_⟩
      intro o ho
      obtain ⟨r, _, rfl⟩ := List.mem_map.mp ho
      exact recoverOpt_tokOK r
    | _ => simp [wfAct] at hw
  | request c =>
    cases v with
    | transform prog => cases hr; exact tk_app hi _ (tk_requestKids prog)
    | _ => cases c <;> simp [wfAct] at hw
  | perms l t f =>
    simp only [runAct] at hr
    split at hr
    · cases hr; exact tk_app hi _ (tk_stmt _ _ (by simpa using ct))
    · split at hr
      · cases hr; exact tk_app hi _ (tk_stmt _ _ (by simpa using cf))
      · cases hr; exact hi
  | injT l =>
    cases v with
    | inj lst =>
      simp only [runAct] at hr
      split at hr
      · cases hr; exact hi
      · cases hr; exact tk_app hi _ (tk_block _ (tk_injKids lst))
    | _ => simp [wfAct] at hw
  | execute =>
    cases v with
    | execute lst =>
      obtain ⟨f, hf, hnf⟩ := tk_execKids lst (by simpa [wfAct] using hw)
      simp only [runAct, hf] at hr
      split at hr
      · cases hr; exact hi
      · cases hr; exact tk_app hi _ (tk_block _ hnf)
    | _ => simp [wfAct] at hw
  | allocator =>
    cases hr
    refine tk_app hi _ (tk_stmt _ _ ?_)
    intro a ha
    simp only [List.mem_singleton] at ha
    subst ha
    split
    · exact cn
    · exact cv
  | gate =>
    cases v with
    | gate lst =>
      cases hr
      refine tk_app hi _ (tk_block _ (tk_flatten _ ?_))
      intro f hf
      obtain ⟨s, _, rfl⟩ := List.mem_map.mp hf
      exact tk_stmt _ [] (by simp)
    | _ => simp [wfAct] at hw

theorem runSettings_tk (uris : List (Option Bytes)) (cfg : List (Nat × PVal)) :
    ∀ st st', cfg.all wfSetting = true → TKInv st → runSettings uris st cfg = .ok st' → TKInv st' := by
  induction cfg with
  | nil => intro st st' _ hi hr; cases hr; exact hi
  | cons kv rest ih =>
    intro st st' hw hi hr
    simp only [List.all_cons, Bool.and_eq_true] at hw
    simp only [runSettings] at hr
    cases h1 : stepOne uris st kv with
    | error e => simp [h1] at hr
    | ok st1 =>
      simp only [h1] at hr
      exact ih st1 st' hw.2
        (runAct_tk uris st st1 kv.2 _ (actionOf_ok _ _) (actionOf_tk _ _) (wfSetting_act hw.1) hi h1) hr

theorem tk_addNonEmpty {parent kids : PForest} {l : Bytes} (hp : tokensOK parent = true) (hk : tokensOK kids = true) :
    tokensOK (addNonEmpty parent l kids) = true := by
  unfold addNonEmpty
  split
  · exact hp
  · rw [tk_append, hp, tk_block _ hk]; rfl

theorem finalize_tk {st : St} (hi : TKInv st) : tokensOK (finalize st).kids = true := by
  unfold finalize
  dsimp only
  have hg1 : tokensOK (if st.recover.isEmpty then st.f .httpGet
      else addNonEmpty (st.f .httpGet) (b "server") (block (some (b "output")) (dtKids st.recover))) = true := by
    split
    · exact hi.blocks .httpGet
    · exact tk_addNonEmpty (hi.blocks .httpGet) (tk_block _ (tk_dtKids _ hi.recov))
  exact tk_addNonEmpty (tk_addNonEmpty (tk_addNonEmpty (tk_addNonEmpty (tk_addNonEmpty
    (tk_addNonEmpty (hi.blocks .profile) (tk_addNonEmpty hg1 (hi.blocks .getClient)))
    (tk_addNonEmpty (hi.blocks .httpPost) (hi.blocks .postClient))) (hi.blocks .stage)) (hi.blocks .procInj))
    (hi.blocks .dns)) (hi.blocks .httpBeacon)


section Relex
open C10 (Table Forest Parts wfParts label Tok)
open Grammar (Item Form)

/-! ### Part 8: the regenerated text lexes back to the printed tokens -/

/-- all `(terminal, text)` leaves of a forest -/
def fLeaves : Forest → List (Nat × C10.Text)
  | .nil => []
  | .leaf t s r => (t, s) :: fLeaves r
  | .node _ ks r => fLeaves ks ++ fLeaves r

/-- all node labels of a forest, at any depth -/
def fLabels : Forest → List Nat
  | .nil => []
  | .leaf _ _ r => fLabels r
  | .node l ks r => l :: (fLabels ks ++ fLabels r)

/-- where a token of a derivation comes from: a keyword of the production itself, a keyword of a production used for a
node of the tree, or a leaf of the tree -/
def TokFrom (G : Table) (is : List Item) (ks : Forest) (tok : Tok) : Prop :=
  (∃ k, tok = .kw k ∧ (k ∈ C10.kwSeq is ∨ ∃ g, G.has g = true ∧ label g ∈ fLabels ks ∧ k ∈ C10.kwSeq g.items)) ∨
  (∃ t s, tok = .named t s ∧ (t, s) ∈ fLeaves ks)

theorem TokFrom.mono_items {G : Table} {is is' : List Item} {ks : Forest} {tok : Tok}
    (h : TokFrom G is ks tok) (hk : ∀ k ∈ C10.kwSeq is, k ∈ C10.kwSeq is') : TokFrom G is' ks tok := by
  rcases h with ⟨k, rfl, h | h⟩ | h
  · exact .inl ⟨k, rfl, .inl (hk k h)⟩
  · exact .inl ⟨k, rfl, .inr h⟩
  · exact .inr h

theorem yield_from {G : Table} (p : Parts) : ∀ (is : List Item), wfParts G is p = true →
    ∀ tok ∈ p.yield, TokFrom G is p.kids tok := by
  induction p with
  | done => intro is _ tok h; simp [Parts.yield] at h
  | kw k r ih =>
    intro is h tok ht
    cases is with
    | nil => simp [wfParts] at h
    | cons i is =>
      cases i <;> simp only [wfParts, Bool.and_eq_true, beq_iff_eq, Bool.false_eq_true] at h
      obtain ⟨rfl, hr⟩ := h
      simp only [Parts.yield, List.mem_cons] at ht
      rcases ht with rfl | ht
      · exact .inl ⟨_, rfl, .inl (by simp [C10.kwSeq])⟩
      · exact (ih is hr tok ht).mono_items (by intro k hk; simp [C10.kwSeq, hk])
  | tok t s r ih =>
    intro is h tk ht
    cases is with
    | nil => simp [wfParts] at h
    | cons i is =>
      cases i <;> simp only [wfParts, Bool.and_eq_true, beq_iff_eq, Bool.false_eq_true] at h
      obtain ⟨rfl, hr⟩ := h
      simp only [Parts.yield, List.mem_cons] at ht
      rcases ht with rfl | ht
      · exact .inr ⟨_, _, rfl, by simp [Parts.kids, fLeaves]⟩
      · rcases ih is hr tk ht with ⟨k, rfl, h1 | ⟨g, hg, hl, hk⟩⟩ | ⟨t', s', rfl, hm⟩
        · exact .inl ⟨k, rfl, .inl (by simpa [C10.kwSeq] using h1)⟩
        · exact .inl ⟨k, rfl, .inr ⟨g, hg, by simpa [Parts.kids, fLabels] using hl, hk⟩⟩
        · exact .inr ⟨t', s', rfl, by simp [Parts.kids, fLeaves, hm]⟩
  | sub f b r ihb ihr =>
    intro is h tk ht
    have key : ∀ (is' : List Item), wfParts G f.items b = true → G.has f = true → wfParts G is' r = true →
        (∀ k ∈ C10.kwSeq is', k ∈ C10.kwSeq is) → TokFrom G is (Parts.sub f b r).kids tk := by
      intro is' hb hf hr hsub
      simp only [Parts.yield, List.mem_append] at ht
      rcases ht with ht | ht
      · rcases ihb f.items hb tk ht with ⟨k, rfl, h1 | ⟨g, hg, hl, hk⟩⟩ | ⟨t', s', rfl, hm⟩
        · exact .inl ⟨k, rfl, .inr ⟨f, hf, by simp [Parts.kids, fLabels], h1⟩⟩
        · exact .inl ⟨k, rfl, .inr ⟨g, hg, by simp [Parts.kids, fLabels, hl], hk⟩⟩
        · exact .inr ⟨t', s', rfl, by simp [Parts.kids, fLeaves, hm]⟩
      · rcases ihr is' hr tk ht with ⟨k, rfl, h1 | ⟨g, hg, hl, hk⟩⟩ | ⟨t', s', rfl, hm⟩
        · exact .inl ⟨k, rfl, .inl (hsub k h1)⟩
        · exact .inl ⟨k, rfl, .inr ⟨g, hg, by simp [Parts.kids, fLabels, hl], hk⟩⟩
        · exact .inr ⟨t', s', rfl, by simp [Parts.kids, fLeaves, hm]⟩
    cases is with
    | nil => simp [wfParts] at h
    | cons i is =>
      cases i <;> simp only [wfParts, Bool.and_eq_true, beq_iff_eq, Bool.false_eq_true] at h
      · exact key is h.1.2 h.1.1.1 h.2 (by intro k hk; simpa [C10.kwSeq] using hk)
      · exact key _ h.1.2 h.1.1.1 h.2 (by intro k hk; exact hk)
      · exact key is h.1.2 h.1.1.1 h.2 (by intro k hk; simpa [C10.kwSeq] using hk)
  | stop r ih =>
    intro is h tk ht
    cases is with
    | nil => simp [wfParts] at h
    | cons i is =>
      cases i <;> simp only [wfParts, Bool.false_eq_true] at h
      · exact (ih is h tk (by simpa [Parts.yield] using ht)).mono_items (by intro k hk; simpa [C10.kwSeq] using hk)
      · exact (ih is h tk (by simpa [Parts.yield] using ht)).mono_items (by intro k hk; simpa [C10.kwSeq] using hk)


end Relex

section Relex2
open C10 (Table Forest Parts wfParts label Tok)
open Grammar (Item Form)

/-! ### Part 8b: obligations on the table and the glue -/

def commentL : Nat := L "comment_dns_resolver"

/-- every production other than the resolver comment is written with lexable keywords only -/
def kwFormsOK : Bool :=
  G0.forms.all fun g => label g == commentL ||
    (C10.kwSeq g.items).all fun k => C10.lexableTok G0.words (G0.keywords.getD k [])

theorem kwForms_fact : kwFormsOK = true := by decide +kernel
theorem optAlts_fact : Grammar.optionAlts.all (fun a => C10.lexableTok G0.words a) = true := by decide +kernel
theorem kwClean_G0 : C10.KwClean G0.words = true := by decide +kernel
theorem terminatedWF_G0 : C10.TerminatedWF G0 = true := by decide +kernel

def rootOKb' : Bool :=
  G0.forms.any fun f => label f == L "start" && f.origin == G0.start && blockShape f.items == some (L "value")
theorem root_fact' : rootOKb' = true := by decide +kernel

def noComment : PForest → Bool
  | .nil => true
  | .tok _ _ r => noComment r
  | .node l ks r => !isComment l && noComment ks && noComment r

theorem nc_append (x y : PForest) : noComment (x ++ y) = (noComment x && noComment y) := by
  show noComment (PForest.append x y) = _
  induction x with
  | nil => simp [PForest.append, noComment]
  | tok o t r ih => simp [PForest.append, noComment, ih]
  | node l k r _ ih => simp [PForest.append, noComment, ih, Bool.and_assoc]

theorem idxOf_inj {α} [BEq α] [LawfulBEq α] (l : List α) (a c : α) (h : l.idxOf a = l.idxOf c)
    (hc : l.idxOf c < l.length) : a = c := by
  induction l with
  | nil => simp at hc
  | cons x xs ih =>
    simp only [List.idxOf_cons] at h hc
    by_cases h1 : x == a <;> by_cases h2 : x == c
    · exact (eq_of_beq h1).symm.trans (eq_of_beq h2)
    · simp [h1, h2] at h
    · simp [h1, h2] at h
    · simp only [h1, h2, cond_false, Nat.add_right_cancel_iff] at h
      simp only [h2, cond_false, List.length_cons, Nat.add_lt_add_iff_right] at hc
      exact ih h hc

theorem comment_found : commentL < Grammar.nameCodes.length := by decide +kernel

theorem toText_inj {x y : Bytes} (h : toText x = toText y) : x = y := by
  induction x generalizing y with
  | nil => cases y <;> simp [toText] at h ⊢
  | cons a as ih =>
    cases y with
    | nil => simp [toText] at h
    | cons c cs =>
      simp only [toText, List.map_cons, List.cons.injEq] at h
      rw [UInt8.toNat_inj.mp h.1, ih (by simpa [toText] using h.2)]

theorem labelId_comment {l : Option Bytes} (h : labelId l = commentL) : isComment l = true := by
  cases l with
  | none =>
    have := comment_found
    simp only [labelId] at h
    omega
  | some x =>
    simp only [labelId, commentL, L] at h
    have := idxOf_inj _ _ _ h comment_found
    simp [isComment, toText_inj this]

theorem nc_labels (f : PForest) (h : noComment f = true) : commentL ∉ fLabels f.intern := by
  induction f with
  | nil => simp [PForest.intern, fLabels]
  | tok o t r ih => simpa [PForest.intern, fLabels, noComment] using ih (by simpa [noComment] using h)
  | node l k r ihk ihr =>
    simp only [noComment, Bool.and_eq_true, Bool.not_eq_eq_eq_not, Bool.not_true] at h
    simp only [PForest.intern, fLabels, List.mem_cons, List.mem_append, not_or]
    refine ⟨fun e => ?_, ihk h.1.2, ihr h.2⟩
    have := labelId_comment e.symm
    rw [h.1.1] at this
    cases this

theorem tk_leaves (f : PForest) (h : tokensOK f = true) :
    ∀ ts ∈ fLeaves f.intern, C10.lexableTok G0.words ts.2 = true := by
  induction f with
  | nil => simp [PForest.intern, fLeaves]
  | tok o t r ih =>
    simp only [tokensOK, Bool.and_eq_true] at h
    intro ts hts
    simp only [PForest.intern, fLeaves, List.mem_cons] at hts
    rcases hts with rfl | hts
    · cases o
      · simp only [tokOK, Bool.false_eq_true, if_false] at h
        exact litOK_lexable _ _ h.1
      · simp only [tokOK, if_true] at h
        exact List.all_eq_true.mp optAlts_fact _ (by simpa using h.1)
    · exact ih h.2 ts hts
  | node l k r ihk ihr =>
    simp only [tokensOK, Bool.and_eq_true] at h
    intro ts hts
    simp only [PForest.intern, fLeaves, List.mem_append] at hts
    rcases hts with hts | hts
    · exact ihk h.1 ts hts
    · exact ihr h.2 ts hts

/-- for a valid tree whose tokens are well formed and which has no resolver comment: the text `as_text` produces
lexes back to exactly the tokens the Reconstructor printed -/
theorem relex_of_valid (idc : Nat → Bool) (hidc : C10.IdcOK idc) (kids : PForest)
    (hv : AllOf G0 (L "value") kids.intern) (htk : tokensOK kids = true) (hnc : noComment kids = true) :
    ∃ toks, C10.printTree G0 (⟨some (b "start"), kids⟩ : PTree).intern = some toks ∧
      (C10.asText G0 idc (⟨some (b "start"), kids⟩ : PTree).intern).bind (C10.lexProfile G0.words) =
        some (toks.map G0.tokText) := by
  have hr := root_fact'
  simp only [rootOKb', List.any_eq_true, Bool.and_eq_true, beq_iff_eq] at hr
  obtain ⟨f, hm, ⟨hl, ho⟩, hs⟩ := hr
  have hf := C10.idsOK_has G0 ids_G0 hm
  obtain ⟨p, hp, hk⟩ := derives_parts (derives_block hs hv)
  let d : C10.Deriv := ⟨f, p⟩
  have hd : d.WF G0 = true := by simp [d, C10.Deriv.WF, hf, hp]
  have hdt : C10.toTree d = (⟨some (b "start"), kids⟩ : PTree).intern := by
    simp only [C10.toTree, PTree.intern, d, hk]
    congr 1
  have hprint := print_of_deriv d hd
  rw [hdt] at hprint
  refine ⟨d.yield, hprint, ?_⟩
  have hlex : ∀ t ∈ d.yield.map G0.tokText, C10.lexableTok G0.words t = true := by
    intro t ht
    obtain ⟨tok, htok, rfl⟩ := List.mem_map.mp ht
    have hfrom := yield_from p f.items hp tok htok
    rw [hk] at hfrom
    have hkw : ∀ (g : Form) (k : Nat), G0.has g = true → label g ≠ commentL → k ∈ C10.kwSeq g.items →
        C10.lexableTok G0.words (G0.keywords.getD k []) = true := by
      intro g k hg hne hkk
      have := List.all_eq_true.mp kwForms_fact g (C10.mem_of_has G0 hg)
      simp only [Bool.or_eq_true, beq_iff_eq, List.all_eq_true] at this
      rcases this with h1 | h1
      · exact absurd h1 hne
      · exact h1 k hkk
    have hstartne : label f ≠ commentL := by rw [hl]; decide +kernel
    rcases hfrom with ⟨k, rfl, h1 | ⟨g, hg, hlab, hkk⟩⟩ | ⟨t', s', rfl, hmem⟩
    · exact hkw f k hf hstartne h1
    · exact hkw g k hg (fun e => nc_labels kids hnc (e ▸ hlab)) hkk
    · exact tk_leaves kids htk (t', s') hmem
  have hterm := C10.yield_terminated G0 terminatedWF_G0 hd ho
  simp only [C10.asText, hprint, Option.map_some, Option.bind_some, C10.asTextOf]
  rw [C10.joinItems_postproc hidc]
  exact C10.lex_postproc kwClean_G0 _ hlex hterm


/-- the children of the root of the finished profile are valid top-level statements -/
theorem finalize_allOf {st : St} (hi : Inv st) : AllOf G0 (L "value") (finalize st).kids.intern := by
  obtain ⟨hget, hpost, hstage, hinj, hdns, hhb⟩ := top_facts
  have hg1 : AllOf G0 (ctxOf .httpGet)
      (if st.recover.isEmpty then st.f .httpGet
        else addNonEmpty (st.f .httpGet) (b "server") (block (some (b "output")) (dtKids st.recover))).intern := by
    split
    · exact hi.blocks .httpGet
    · rename_i hne
      rcases hi.recov with he | hd
      · simp [he] at hne
      · exact addNonEmpty_allOf (hi.blocks .httpGet) server_fact (block_allOf server_output_fact hd)
  have hg2 := addNonEmpty_allOf hg1 get_client_fact (hi.blocks .getClient)
  have hp1 := addNonEmpty_allOf (hi.blocks .profile) hget hg2
  have hpo := addNonEmpty_allOf (hi.blocks .httpPost) post_client_fact (hi.blocks .postClient)
  have hp2 := addNonEmpty_allOf hp1 hpost hpo
  have hp3 := addNonEmpty_allOf hp2 hstage (hi.blocks .stage)
  have hp4 := addNonEmpty_allOf hp3 hinj (hi.blocks .procInj)
  have hp5 := addNonEmpty_allOf hp4 hdns (hi.blocks .dns)
  exact addNonEmpty_allOf hp5 hhb (hi.blocks .httpBeacon)

end Relex2

/-- the bytes a scalar value denotes: decimal digits for a number, the text, the bytes -/
def scalarBytes : PVal → Bytes
  | .int n => decBytes n
  | .str s => s
  | .bytes v => v
  | _ => []

theorem vts_decodes {v : PVal} {s : Bytes} (hw : wfScalar v = true) (h : vts v = some s) :
    C12.stringTokenToBytes s = .ok (scalarBytes v) := by
  cases v with
  | int n =>
    simp only [vts, Option.some.injEq] at h
    subst h
    rw [vts_int_eq]
    have hp := decBytes_plain n
    exact str_roundtrip _ (by
      simp only [noBackslash, Bool.not_eq_eq_eq_not, Bool.not_true, List.contains_eq_mem, decide_eq_false_iff_not]
      intro hm; exact (hp _ hm).1 rfl)
  | str t => simp only [vts, Option.some.injEq] at h; subst h; exact C12.roundtrip t
  | bytes t => simp only [vts, Option.some.injEq] at h; subst h; exact C12.roundtrip t
  | _ => simp [wfScalar] at hw

/-! ### Part 9: the `# dns_resolver "…";` statement stays on one line -/

/-- every character of the literal written for a scalar is printable ASCII (a line feed in configured text is written `\n`) -/
theorem vts_printable {v : PVal} {l : Bytes} (h : vts v = some l) : ∀ c ∈ l, 0x20 ≤ c ∧ c < 0x7f := by
  cases v with
  | int n =>
    simp only [vts, Option.some.injEq] at h
    subst h
    intro c hc
    simp only [List.mem_append, List.mem_singleton] at hc
    rcases hc with (rfl | hc) | rfl
    · decide
    · simp only [decBytes, List.mem_map] at hc
      obtain ⟨ch, hch, rfl⟩ := hc
      have hd := Nat.isDigit_of_mem_toDigits (by decide) (by decide) hch
      simp only [Char.isDigit, Bool.and_eq_true, decide_eq_true_eq, ge_iff_le] at hd
      have h1 : (48 : Nat) ≤ ch.toNat := UInt32.le_iff_toNat_le.mp hd.1
      have h2 : ch.toNat ≤ 57 := UInt32.le_iff_toNat_le.mp hd.2
      have hm : (ch.toNat.toUInt8).toNat = ch.toNat := by simp [Nat.toUInt8]; omega
      constructor
      · rw [UInt8.le_iff_toNat_le, hm]; simpa using (by omega : 32 ≤ ch.toNat)
      · rw [UInt8.lt_iff_toNat_lt, hm]; simpa using (by omega : ch.toNat < 127)
    · decide
  | str t => simp only [vts, Option.some.injEq] at h; subst h; exact C12.valueToString_printable' t
  | bytes t => simp only [vts, Option.some.injEq] at h; subst h; exact C12.valueToString_printable' t
  | none => simp only [vts, Option.some.injEq] at h; subst h; decide
  | _ => simp [vts] at h

theorem vts_noLF {v : PVal} {l : Bytes} (h : vts v = some l) : l.contains 10 = false := by
  cases hc : l.contains 10 with
  | false => rfl
  | true =>
    have := (vts_printable h 10 (by simpa using hc)).1
    exact absurd this (by decide)

theorem col_append (x y : PForest) : (x ++ y).commentsOneLine = (x.commentsOneLine && y.commentsOneLine) := by
  show (PForest.append x y).commentsOneLine = _
  induction x with
  | nil => simp [PForest.append, PForest.commentsOneLine]
  | tok o t r ih => simp [PForest.append, PForest.commentsOneLine, ih]
  | node l k r _ ih => simp [PForest.append, PForest.commentsOneLine, ih, Bool.and_assoc]

theorem col_flatten (fs : List PForest) (h : ∀ f ∈ fs, f.commentsOneLine = true) :
    (PForest.flatten fs).commentsOneLine = true := by
  induction fs with
  | nil => rfl
  | cons f fs ih => rw [flatten_cons, col_append, h f (by simp), ih fun g hg => h g (by simp [hg])]; rfl

theorem col_strKids (args : List Bytes) : (strKids args).commentsOneLine = true := by
  induction args with
  | nil => rfl
  | cons a as ih => simp [strKids, PForest.commentsOneLine, isComment_string, ih]

theorem col_stmt {l : Bytes} (args : List Bytes)
    (h : isComment (some l) = false ∨ ∀ a ∈ args, a.contains 10 = false) : (stmt l args).commentsOneLine = true := by
  simp only [stmt, PForest.commentsOneLine, Bool.and_true]
  split
  · rcases h with h | h
    · rename_i hc; rw [h] at hc; cases hc
    · rw [strKids_tokens]
      simp only [Bool.not_eq_eq_eq_not, Bool.not_true, List.any_eq_false]
      intro a ha; simpa using h a ha
  · exact col_strKids args

theorem col_block {l : Option Bytes} {kids : PForest} (h : isComment l = false) (hk : kids.commentsOneLine = true) :
    (block l kids).commentsOneLine = true := by
  simp [block, PForest.commentsOneLine, h, hk]

theorem col_optStmt (name s : Bytes) : (optStmt name s).commentsOneLine = true := by
  have : isComment (some (b "option")) = false := by decide +kernel
  simp [optStmt, PForest.commentsOneLine, this, col_strKids]

/-! data transforms -/

theorem col_name_facts :
    (dtFlagSteps.all fun n => !isComment (some n)) = true ∧
    (dtTermOptions.all fun n => !isComment (some (dashToUnderscore n))) = true ∧
    ([ArgStep.header, .parameter, .append, .prepend].all fun a => !isComment (some (lower a.pyName))) = true ∧
    isComment (some (b "append")) = false ∧ isComment (some (b "prepend")) = false ∧
    isComment (some (b "header")) = false ∧ isComment (some (b "parameter")) = false ∧
    ([k "metadata", k "output", k "id"].all fun s => !isComment (some s)) = true ∧
    (execEnable.all fun s => !isComment (some (dashToUnderscore (lower s)))) = true ∧
    (gateLabels.all fun s => !isComment (some (lower s))) = true ∧
    isComment (some (b "createthread_special")) = false ∧ isComment (some (b "createremotethread_special")) = false ∧
    isComment (some (b "execute")) = false ∧ isComment (some (b "beacon_gate")) = false ∧
    isComment (some (b "uri")) = false ∧ isComment (some (b "allocator")) = false ∧
    ([b "server", b "output", b "client", b "http_get", b "http_post", b "stage", b "process_inject", b "dns_beacon",
      b "http_beacon"].all fun s => !isComment (some s)) = true := by decide +kernel

/-- the label of a `(name, value)` option is not the resolver comment -/
def optColOK : DOpt → Bool
  | .bare _ => true
  | .pair n _ => !isComment (some n)

theorem isComment_one (c : UInt8) : isComment (some [c]) = false := by
  have h : ([c] : Bytes) ≠ b "comment_dns_resolver" := by
    intro e
    have := congrArg List.length e
    rw [show (b "comment_dns_resolver").length = 20 from by decide +kernel] at this
    simp at this
  simp [isComment, h]

theorem col_classify {o : DOpt} (h : optColOK o = true) :
    (dtClassify o).1.commentsOneLine = true ∧ (dtClassify o).2.commentsOneLine = true := by
  obtain ⟨hf, ht, _⟩ := col_name_facts
  cases o with
  | bare n =>
    rw [dtClassify_bare_eq]
    split
    · rename_i hc
      have := List.all_eq_true.mp hf n (by simpa using hc)
      exact ⟨col_stmt [] (.inl (by simpa using this)), rfl⟩
    · split
      · rename_i hc
        have := List.all_eq_true.mp ht n (by simpa using hc)
        exact ⟨rfl, col_stmt [] (.inl (by simpa using this))⟩
      · split
        · exact ⟨col_stmt _ (.inl (isComment_one _)), rfl⟩
        · exact ⟨rfl, rfl⟩
  | pair n v =>
    rw [dtClassify_pair_eq]
    have hn : isComment (some n) = false := by simpa [optColOK] using h
    split
    · exact ⟨rfl, col_stmt _ (.inl hn)⟩
    · exact ⟨col_stmt _ (.inl hn), rfl⟩

theorem col_dtKids (ds : List DOpt) (h : ∀ o ∈ ds, optColOK o = true) : (dtKids ds).commentsOneLine = true := by
  obtain ⟨h1, h2, h3⟩ := dtLabel_facts
  have hs : (dtSteps ds).commentsOneLine = true := col_flatten _ (by
    intro f hf; obtain ⟨o, ho, rfl⟩ := List.mem_map.mp hf; exact (col_classify (h o ho)).1)
  have ht : (dtTerms ds).commentsOneLine = true := col_flatten _ (by
    intro f hf; obtain ⟨o, ho, rfl⟩ := List.mem_map.mp hf; exact (col_classify (h o ho)).2)
  simp [dtKids, PForest.commentsOneLine, h1, h2, h3, hs, ht]

theorem toDOpt_colOK {t : TStep} {d : DOpt} (h : toDOpt t = some d) : optColOK d = true := by
  obtain ⟨_, _, ha, _⟩ := col_name_facts
  cases t with
  | build s => cases h
  | static s v => cases h
  | en e => cases h; rfl
  | arg a v =>
    cases h
    have := List.all_eq_true.mp ha a (by cases a <;> simp)
    simpa [optColOK] using this

theorem opts_colOK (l : List TStep) : ∀ o ∈ opts l, optColOK o = true := by
  intro o ho
  simp only [opts, List.mem_filterMap] at ho
  obtain ⟨x, _, hd⟩ := ho
  exact toDOpt_colOK hd

theorem recoverOpt_colOK (r : RStep) : optColOK (recoverOpt r) = true := by
  obtain ⟨_, _, _, h1, h2, _⟩ := col_name_facts
  cases r <;> first | rfl | simp [recoverOpt, optColOK, h1, h2]

theorem col_requestKids {allowed : List Bytes} {prog : List TStep} (h : wfProgram allowed prog = true)
    (hb : ∀ s ∈ allowed, isComment (some s) = false) : (requestKids prog).commentsOneLine = true := by
  obtain ⟨_, _, _, _, _, hh, hp, _⟩ := col_name_facts
  unfold requestKids
  simp only [col_append, Bool.and_eq_true]
  refine ⟨?_, ?_, ?_⟩
  · exact col_flatten _ (by intro f hf; obtain ⟨p, _, rfl⟩ := List.mem_map.mp hf; exact col_stmt _ (.inl hh))
  · exact col_flatten _ (by intro f hf; obtain ⟨p, _, rfl⟩ := List.mem_map.mp hf; exact col_stmt _ (.inl hp))
  · rw [reqRun_groups h]
    simp only [wfProgram, Bool.and_eq_true, List.all_eq_true, List.contains_eq_mem, decide_eq_true_eq] at h
    apply col_flatten
    intro f hf
    simp only [List.map_map, List.mem_map, Function.comp] at hf
    obtain ⟨sg, hsg, rfl⟩ := hf
    exact col_block (hb sg.1 (h.2 sg hsg).1) (col_dtKids _ (opts_colOK sg.2))

/-! the chain -/

def actCOL : Act → Bool
  | .blkConst _ l _ => !isComment (some l)
  | .perms l _ _ => !isComment (some l)
  | .injT l => !isComment (some l)
  | _ => true

theorem table_col : actionTable.all (fun e => actCOL e.2.2) = true := by decide +kernel

theorem actionOf_col (idx : Nat) (v : PVal) : actCOL (actionOf idx v) = true := by
  unfold actionOf
  split
  · rename_i x g a hf
    have := List.all_eq_true.mp table_col _ (List.mem_of_find?_eq_some hf)
    split
    · rfl
    · exact this
  · rfl

theorem col_injKids (l : List (Bool × Bytes)) : (injKids l).commentsOneLine = true := by
  obtain ⟨_, _, _, ha, hp, _⟩ := col_name_facts
  unfold injKids
  rw [col_append, Bool.and_eq_true]
  constructor
  · cases injLast true l with
    | none => rfl
    | some v => dsimp only; split; rfl; exact col_stmt _ (.inl hp)
  · cases injLast false l with
    | none => rfl
    | some v => dsimp only; split; rfl; exact col_stmt _ (.inl ha)

theorem col_execItem (s : Bytes) : ∃ f, execItem (some s) = .ok f ∧ f.commentsOneLine = true := by
  obtain ⟨_, _, _, _, _, _, _, _, hen, _, hct, hcrt, _⟩ := col_name_facts
  refine ⟨_, rfl, ?_⟩
  rw [col_append, Bool.and_eq_true]
  constructor
  · split
    · dsimp only
      split
      · exact col_stmt _ (.inl hct)
      · split
        · exact col_stmt _ (.inl hcrt)
        · rfl
    · rfl
  · split
    · rename_i hc
      have := List.all_eq_true.mp hen s (by simpa using hc)
      exact col_stmt [] (.inl (by simpa using this))
    · rfl

theorem col_execKids (l : List (Option Bytes)) (h : l.all wfExecItem = true) :
    ∃ f, execKids l = .ok f ∧ f.commentsOneLine = true := by
  induction l with
  | nil => exact ⟨.nil, rfl, rfl⟩
  | cons i is ih =>
    simp only [List.all_cons, Bool.and_eq_true] at h
    obtain ⟨r, hr, hnr⟩ := ih h.2
    cases i with
    | none => simp [wfExecItem] at h
    | some s =>
      obtain ⟨f, hf, hcf⟩ := col_execItem s
      exact ⟨f ++ r, by simp only [execKids, hf, hr], by rw [col_append, hcf, hnr]; rfl⟩

def COLInv (st : St) : Prop :=
  (∀ kb, (st.f kb).commentsOneLine = true) ∧ ∀ o ∈ st.recover, optColOK o = true

theorem col_app {st : St} (h : COLInv st) (kb : Blk) {g : PForest} (hg : g.commentsOneLine = true) :
    COLInv (st.app kb g) := by
  refine ⟨fun kb' => ?_, h.2⟩
  simp only [St.app]
  split
  · rw [col_append, h.1 kb', hg]; rfl
  · exact h.1 kb'

theorem runAct_col (uris : List (Option Bytes)) (st st' : St) (v : PVal) (a : Act) (ha : actCOL a = true)
    (hw : wfAct a v = true) (hi : COLInv st) (hr : runAct uris st v a = .ok st') : COLInv st' := by
  obtain ⟨_, _, _, _, _, _, _, hbn, _, hgl, _, _, hex, hbg, huri, halloc, _⟩ := col_name_facts
  cases a with
  | pass => cases hr; exact hi
  | profOpt name =>
    simp only [runAct] at hr
    split at hr
    · cases hr; exact col_app hi _ (col_optStmt _ _)
    · cases hr
  | blkOpt kb l =>
    simp only [runAct] at hr
    split at hr
    · rename_i s hs
      cases hr
      exact col_app hi _ (col_stmt _ (.inr (by intro a ha; simp at ha; subst ha; exact vts_noLF hs)))
    · cases hr
  | blkConst kb l t => cases hr; exact col_app hi _ (col_stmt _ (.inl (by simpa [actCOL] using ha)))
  | uris =>
    simp only [runAct] at hr
    split at hr
    · cases hr; exact hi
    · cases hr; exact col_app hi _ (col_stmt _ (.inl huri))
  | recover =>
    cases v with
    | recover l =>
      cases hr
      refine ⟨hi.1, ?_⟩
      intro o ho
      obtain ⟨r, _, rfl⟩ := List.mem_map.mp ho
      exact recoverOpt_colOK r
    | _ => simp [wfAct] at hw
  | request c =>
    have hb := List.all_eq_true.mp hbn
    cases v with
    | transform prog =>
      cases hr
      cases c with
      | getClient =>
        exact col_app hi _ (col_requestKids (allowed := [k "metadata", k "output"]) (by simpa [wfAct] using hw)
          (fun s hs => by have := hb s (by simp at hs ⊢; rcases hs with rfl | rfl <;> simp); simpa using this))
      | postClient =>
        exact col_app hi _ (col_requestKids (allowed := [k "id", k "output"]) (by simpa [wfAct] using hw)
          (fun s hs => by have := hb s (by simp at hs ⊢; rcases hs with rfl | rfl <;> simp); simpa using this))
      | _ =>
        exact col_app hi _ (col_requestKids (allowed := [k "id", k "output"]) (by simpa [wfAct] using hw)
          (fun s hs => by have := hb s (by simp at hs ⊢; rcases hs with rfl | rfl <;> simp); simpa using this))
    | _ => cases c <;> simp [wfAct] at hw
  | perms l t f =>
    have hl : isComment (some l) = false := by simpa [actCOL] using ha
    simp only [runAct] at hr
    split at hr
    · cases hr; exact col_app hi _ (col_stmt _ (.inl hl))
    · split at hr
      · cases hr; exact col_app hi _ (col_stmt _ (.inl hl))
      · cases hr; exact hi
  | injT l =>
    have hl : isComment (some l) = false := by simpa [actCOL] using ha
    cases v with
    | inj lst =>
      simp only [runAct] at hr
      split at hr
      · cases hr; exact hi
      · cases hr; exact col_app hi _ (col_block hl (col_injKids lst))
    | _ => simp [wfAct] at hw
  | execute =>
    cases v with
    | execute lst =>
      obtain ⟨f, hf, hnf⟩ := col_execKids lst (by simpa [wfAct] using hw)
      simp only [runAct, hf] at hr
      split at hr
      · cases hr; exact hi
      · cases hr; exact col_app hi _ (col_block hex hnf)
    | _ => simp [wfAct] at hw
  | allocator => cases hr; exact col_app hi _ (col_stmt _ (.inl halloc))
  | gate =>
    cases v with
    | gate lst =>
      cases hr
      refine col_app hi _ (col_block hbg (col_flatten _ ?_))
      intro f hf
      obtain ⟨s, hs, rfl⟩ := List.mem_map.mp hf
      have hm : s ∈ gateLabels := by
        have := List.all_eq_true.mp (by simpa [wfAct] using hw : lst.all gateLabels.contains = true) s hs
        simpa using this
      have := List.all_eq_true.mp hgl s hm
      exact col_stmt [] (.inl (by simpa using this))
    | _ => simp [wfAct] at hw

theorem runSettings_col (uris : List (Option Bytes)) (cfg : List (Nat × PVal)) :
    ∀ st st', cfg.all wfSetting = true → COLInv st → runSettings uris st cfg = .ok st' → COLInv st' := by
  induction cfg with
  | nil => intro st st' _ hi hr; cases hr; exact hi
  | cons kv rest ih =>
    intro st st' hw hi hr
    simp only [List.all_cons, Bool.and_eq_true] at hw
    simp only [runSettings] at hr
    cases h1 : stepOne uris st kv with
    | error e => simp [h1] at hr
    | ok st1 =>
      simp only [h1] at hr
      exact ih st1 st' hw.2 (runAct_col uris st st1 kv.2 _ (actionOf_col _ _) (wfSetting_act hw.1) hi h1) hr

theorem col_addNonEmpty {parent kids : PForest} {l : Bytes} (hl : isComment (some l) = false)
    (hp : parent.commentsOneLine = true) (hk : kids.commentsOneLine = true) :
    (addNonEmpty parent l kids).commentsOneLine = true := by
  unfold addNonEmpty
  split
  · exact hp
  · rw [col_append, hp, col_block hl hk]; rfl

theorem finalize_col {st : St} (hi : COLInv st) : (finalize st).kids.commentsOneLine = true := by
  obtain ⟨_, _, _, _, _, _, _, _, _, _, _, _, _, _, _, _, hfin⟩ := col_name_facts
  have hf : ∀ s ∈ [b "server", b "output", b "client", b "http_get", b "http_post", b "stage", b "process_inject",
      b "dns_beacon", b "http_beacon"], isComment (some s) = false := by
    intro s hs; have := List.all_eq_true.mp hfin s hs; simpa using this
  unfold finalize
  dsimp only
  have hg1 : (if st.recover.isEmpty then st.f .httpGet
      else addNonEmpty (st.f .httpGet) (b "server") (block (some (b "output")) (dtKids st.recover))).commentsOneLine = true := by
    split
    · exact hi.1 .httpGet
    · exact col_addNonEmpty (hf _ (by simp)) (hi.1 .httpGet) (col_block (hf _ (by simp)) (col_dtKids _ hi.2))
  exact col_addNonEmpty (hf _ (by simp)) (col_addNonEmpty (hf _ (by simp)) (col_addNonEmpty (hf _ (by simp))
    (col_addNonEmpty (hf _ (by simp)) (col_addNonEmpty (hf _ (by simp))
    (col_addNonEmpty (hf _ (by simp)) (hi.1 .profile) (col_addNonEmpty (hf _ (by simp)) hg1 (hi.1 .getClient)))
    (col_addNonEmpty (hf _ (by simp)) (hi.1 .httpPost) (hi.1 .postClient))) (hi.1 .stage)) (hi.1 .procInj)) (hi.1 .dns))
    (hi.1 .httpBeacon)

end C13

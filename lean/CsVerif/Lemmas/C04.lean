import CsVerif.Props.C20
import CsVerif.Model.C04
/-! Helper lemmas for C04 (no property statements here): CPython base64 model, reference codecs,
per-step and chain inverses, frame lemmas for `transform` / the reference encoder, `recover` on placed messages. -/
namespace C04
open Ref

theorem b64_table_facts : ∀ n, n < 64 →
    b64Val (b64Char n) = some n ∧ b64Char n ≠ 61 ∧ b64Char n ≠ 45 ∧ b64Char n ≠ 95 ∧
    alpha false n = b64Char n ∧ urlEncTr (b64Char n) = alpha true n ∧ urlDecTr (alpha true n) = b64Char n ∧
    alpha true n ≠ 61 ∧ val false (alpha false n) = some n ∧ val true (alpha true n) = some n := by
  decide

theorem sextets_lt (d : Bytes) : ∀ s ∈ sextets d, s < 64 := by
  induction d using sextets.induct with
  | case1 => simp [sextets]
  | case2 a => have := a.toNat_lt; simp [sextets]; omega
  | case3 a b => have := a.toNat_lt; have := b.toNat_lt; simp [sextets]; omega
  | case4 a b c rest ih =>
    have := a.toNat_lt; have := b.toNat_lt; have := c.toNat_lt
    intro s hs
    simp only [sextets, List.mem_cons] at hs
    rcases hs with h | h | h | h | h
    · omega
    · omega
    · omega
    · omega
    · exact ih s h

theorem padLen_add3 (a b c : UInt8) (rest : Bytes) : padLen (a :: b :: c :: rest) = padLen rest := by
  simp only [padLen, List.length_cons]; omega

theorem b64encode_eq (d : Bytes) :
    b64encode d = (sextets d).map b64Char ++ List.replicate (padLen d) 61 := by
  induction d using sextets.induct with
  | case1 => rfl
  | case2 a => rfl
  | case3 a b => rfl
  | case4 a b c rest ih =>
    rw [b64encode, ih, padLen_add3]; simp [sextets]

/-- table hypotheses of the generic decoder lemma -/
def TableOk (vl : UInt8 → Option Nat) (al : Nat → UInt8) : Prop :=
  ∀ n, n < 64 → vl (al n) = some n ∧ al n ≠ 61

theorem a2bGo_pad0 (vl) (l p : Nat) (acc : Bytes) (k : Nat) :
    a2bGo vl 0 l p acc (List.replicate k 61) = .ok acc.reverse := by
  induction k with
  | zero => simp [a2bGo]
  | succ k ih => simp [List.replicate_succ, a2bGo, ih]

theorem a2bGo_char {vl al} (h : TableOk vl al) (s : Nat) (hs : s < 64) (q l p : Nat) (acc cs : Bytes) :
    a2bGo vl q l p acc (al s :: cs) =
      if q = 0 then a2bGo vl 1 s 0 acc cs
      else if q = 1 then a2bGo vl 2 (s % 16) 0 (UInt8.ofNat (l * 4 + s / 16) :: acc) cs
      else if q = 2 then a2bGo vl 3 (s % 4) 0 (UInt8.ofNat (l * 16 + s / 4) :: acc) cs
      else a2bGo vl 0 0 0 (UInt8.ofNat (l * 64 + s) :: acc) cs := by
  obtain ⟨h1, h2⟩ := h s hs
  rw [a2bGo]
  simp [h1, h2]

theorem ofNat_eq8 (n : Nat) (a : UInt8) (h : n = a.toNat) : UInt8.ofNat n = a := by subst h; simp

theorem a2bGo_enc {vl al} (h : TableOk vl al) (d : Bytes) :
    ∀ (acc : Bytes) (l p k : Nat), 2 ≤ k →
      a2bGo vl 0 l p acc ((sextets d).map al ++ List.replicate k 61) = .ok (acc.reverse ++ d) := by
  induction d using sextets.induct with
  | case1 => intro acc l p k _; simp [sextets, a2bGo_pad0]
  | case2 a =>
    intro acc l p k hk
    have ha := a.toNat_lt
    obtain ⟨k', rfl⟩ : ∃ k', k = k' + 2 := ⟨k - 2, by omega⟩
    simp only [sextets, List.map_cons, List.map_nil, List.cons_append, List.nil_append, List.replicate_succ]
    rw [a2bGo_char h _ (by omega), if_pos rfl, a2bGo_char h _ (by omega)]
    simp only [show (1:Nat) ≠ 0 by omega, if_false, if_true]
    rw [a2bGo]; simp only [if_true, ge_iff_le, Nat.le_refl]
    rw [if_neg (by omega)]
    rw [a2bGo]; simp only [if_true, ge_iff_le, Nat.le_refl]
    rw [ofNat_eq8 _ a (by omega)]; simp
  | case3 a b =>
    intro acc l p k hk
    have ha := a.toNat_lt; have hb := b.toNat_lt
    obtain ⟨k', rfl⟩ : ∃ k', k = k' + 1 := ⟨k - 1, by omega⟩
    simp only [sextets, List.map_cons, List.map_nil, List.cons_append, List.nil_append, List.replicate_succ]
    rw [a2bGo_char h _ (by omega), if_pos rfl, a2bGo_char h _ (by omega)]
    simp only [show (1:Nat) ≠ 0 by omega, if_false, if_true]
    rw [a2bGo_char h _ (by omega)]
    simp only [show (2:Nat) ≠ 0 by omega, show (2:Nat) ≠ 1 by omega, if_false, if_true]
    rw [a2bGo]; simp only [if_true]
    rw [ofNat_eq8 _ b (by omega), ofNat_eq8 _ a (by omega)]; simp
  | case4 a b c rest ih =>
    intro acc l p k hk
    have ha := a.toNat_lt; have hb := b.toNat_lt; have hc := c.toNat_lt
    simp only [sextets, List.map_cons, List.cons_append]
    rw [a2bGo_char h _ (by omega), if_pos rfl, a2bGo_char h _ (by omega)]
    simp only [show (1:Nat) ≠ 0 by omega, if_false, if_true]
    rw [a2bGo_char h _ (by omega)]
    simp only [show (2:Nat) ≠ 0 by omega, show (2:Nat) ≠ 1 by omega, if_false, if_true]
    rw [a2bGo_char h _ (by omega)]
    simp only [show (3:Nat) ≠ 0 by omega, show (3:Nat) ≠ 1 by omega, show (3:Nat) ≠ 2 by omega, if_false]
    rw [ih _ _ _ _ hk]
    rw [ofNat_eq8 _ c (by omega), ofNat_eq8 _ b (by omega), ofNat_eq8 _ a (by omega)]; simp

theorem tableOk_std : TableOk b64Val b64Char := fun n hn => ⟨(b64_table_facts n hn).1, (b64_table_facts n hn).2.1⟩

theorem replicate61_add2 (k : Nat) : List.replicate k (61 : UInt8) ++ [61, 61] = List.replicate (k + 2) 61 := by
  rw [show ([61, 61] : Bytes) = List.replicate 2 61 from rfl, List.replicate_append_replicate]

/-- model: `b64decode(b64encode(x) + b"==") == x` -/
theorem b64_roundtrip (x : Bytes) : b64decode (b64encode x ++ [61, 61]) = .ok x := by
  rw [b64encode_eq, List.append_assoc, replicate61_add2, b64decode,
    a2bGo_enc tableOk_std x [] 0 0 _ (by omega)]
  rfl

theorem map_std_chars (l : List Nat) (h : ∀ s ∈ l, s < 64) :
    (l.map b64Char).map urlEncTr = l.map (alpha true) ∧ (l.map (alpha true)).map urlDecTr = l.map b64Char
      ∧ l.map (alpha false) = l.map b64Char := by
  refine ⟨?_, ?_, ?_⟩
  · rw [List.map_map]; apply List.map_congr_left; intro s hs; exact (b64_table_facts s (h s hs)).2.2.2.2.2.1
  · rw [List.map_map]; apply List.map_congr_left; intro s hs; exact (b64_table_facts s (h s hs)).2.2.2.2.2.2.1
  · apply List.map_congr_left; intro s hs; exact (b64_table_facts s (h s hs)).2.2.2.2.1

theorem urlsafeB64encode_eq (x : Bytes) :
    urlsafeB64encode x = b64urlenc x ++ List.replicate (padLen x) 61 := by
  rw [urlsafeB64encode, b64encode_eq, List.map_append, (map_std_chars _ (sextets_lt x)).1]
  simp [b64urlenc, b64chars, urlEncTr]

theorem b64enc_eq (x : Bytes) : b64enc x = b64encode x := by
  rw [b64encode_eq, b64enc, b64chars, (map_std_chars _ (sextets_lt x)).2.2]

/-- the lenient url-safe decoder accepts the url-safe characters with any padding ≥ 0 followed by "==" -/
theorem urlsafe_dec_chars (x : Bytes) (k : Nat) :
    urlsafeB64decode (b64urlenc x ++ List.replicate k 61 ++ [61, 61]) = .ok x := by
  rw [urlsafeB64decode, List.append_assoc, replicate61_add2, List.map_append, b64urlenc, b64chars,
    (map_std_chars _ (sextets_lt x)).2.1]
  have : (List.replicate (k + 2) (61 : UInt8)).map urlDecTr = List.replicate (k + 2) 61 := by
    simp [urlDecTr]
  rw [this, b64decode, a2bGo_enc tableOk_std x [] 0 0 _ (by omega)]
  rfl

/-- model: `urlsafe_b64decode(urlsafe_b64encode(x) + b"==") == x` -/
theorem b64url_roundtrip (x : Bytes) : urlsafeB64decode (urlsafeB64encode x ++ [61, 61]) = .ok x := by
  rw [urlsafeB64encode_eq]; exact urlsafe_dec_chars x _

/-- the library also decodes the unpadded Cobalt Strike form -/
theorem b64url_unpadded (x : Bytes) : urlsafeB64decode (b64urlenc x ++ [61, 61]) = .ok x := by
  have := urlsafe_dec_chars x 0; simpa using this

/-! reference strict decoder -/

theorem unsextets_sextets (d : Bytes) : unsextets (sextets d) = some d := by
  induction d using sextets.induct with
  | case1 => rfl
  | case2 a =>
    have ha := a.toNat_lt
    simp only [sextets, unsextets]; rw [ofNat_eq8 _ a (by omega)]
  | case3 a b =>
    have ha := a.toNat_lt; have hb := b.toNat_lt
    simp only [sextets, unsextets]; rw [ofNat_eq8 _ a (by omega), ofNat_eq8 _ b (by omega)]
  | case4 a b c rest ih =>
    have ha := a.toNat_lt; have hb := b.toNat_lt; have hc := c.toNat_lt
    simp only [sextets, unsextets, ih, Option.map_some]
    rw [ofNat_eq8 _ a (by omega), ofNat_eq8 _ b (by omega), ofNat_eq8 _ c (by omega)]

theorem mapM_val_alpha (url : Bool) (l : List Nat) (h : ∀ s ∈ l, s < 64) :
    (l.map (alpha url)).mapM (val url) = some l := by
  induction l with
  | nil => rfl
  | cons s l ih =>
    have hs := h s (by simp)
    have hv : val url (alpha url s) = some s := by
      cases url
      · exact (b64_table_facts s hs).2.2.2.2.2.2.2.2.1
      · exact (b64_table_facts s hs).2.2.2.2.2.2.2.2.2
    simp [List.mapM_cons, hv, ih (fun t ht => h t (by simp [ht]))]

theorem alpha_ne_pad (url : Bool) (s : Nat) (hs : s < 64) : alpha url s ≠ 61 := by
  cases url
  · rw [(b64_table_facts s hs).2.2.2.2.1]; exact (b64_table_facts s hs).2.1
  · exact (b64_table_facts s hs).2.2.2.2.2.2.2.1

theorem b64dec_chars (url : Bool) (x : Bytes) (k : Nat) (hk : k ≤ 2) :
    b64dec url (b64chars url x ++ List.replicate k 61) = some x := by
  have hne : ∀ c ∈ b64chars url x, (c != 61) = true := by
    intro c hc
    simp only [b64chars, List.mem_map] at hc
    obtain ⟨s, hs, rfl⟩ := hc
    simpa using alpha_ne_pad url s (sextets_lt x s hs)
  have h1 : (b64chars url x ++ List.replicate k 61).takeWhile (· != 61) = b64chars url x := by
    rw [List.takeWhile_append_of_pos hne]
    cases k <;> simp [List.replicate_succ]
  have h2 : (b64chars url x ++ List.replicate k 61).dropWhile (· != 61) = List.replicate k 61 := by
    rw [List.dropWhile_append_of_pos hne]
    cases k <;> simp [List.replicate_succ]
  simp only [b64dec, h1, h2]
  rw [if_pos (by simp; omega)]
  simp only [b64chars, mapM_val_alpha url _ (sextets_lt x), Option.bind_some, unsextets_sextets]

theorem padLen_le (x : Bytes) : padLen x ≤ 2 := by unfold padLen; omega


/-! ### NetBIOS -/

theorem boi_cons (v : Int) (vs : List Int) (h : 0 ≤ v ∧ v < 256) :
    C20.bytesOfInts (v :: vs) = (C20.bytesOfInts vs).map (UInt8.ofNat v.toNat :: ·) := by
  rw [C20.bytesOfInts, if_pos h]

theorem nbEncode_eq (d : Bytes) : C20.netbiosEncode d 0x41 = .ok (nbEnc 65 d) := by
  induction d with
  | nil => rfl
  | cons c cs ih =>
    have hc := c.toNat_lt
    unfold C20.netbiosEncode at ih ⊢
    simp only [C20.nbEncodeInts, List.flatMap_cons, List.cons_append, List.nil_append] at ih ⊢
    rw [boi_cons _ _ (by omega), boi_cons _ _ (by omega), ih]
    simp only [Except.map, nbEnc, List.flatMap_cons, List.cons_append, List.nil_append]
    congr 3
    · congr 1; omega
    · congr 1; omega

theorem lower_nbEnc (d : Bytes) : lower (nbEnc 65 d) = nbEnc 97 d := by
  have key : ∀ n, n < 16 → lowerByte (UInt8.ofNat (65 + n)) = UInt8.ofNat (97 + n) := by decide
  induction d with
  | nil => rfl
  | cons c cs ih =>
    have hc := c.toNat_lt
    simp only [lower, nbEnc, List.flatMap_cons, List.map_append, List.map_cons, List.map_nil] at ih ⊢
    rw [ih, key _ (by omega), key _ (by omega)]

theorem upper_nbEnc (d : Bytes) : upper (nbEnc 65 d) = nbEnc 65 d ∧ upper (nbEnc 97 d) = nbEnc 65 d := by
  have key : ∀ n, n < 16 → upperByte (UInt8.ofNat (65 + n)) = UInt8.ofNat (65 + n)
      ∧ upperByte (UInt8.ofNat (97 + n)) = UInt8.ofNat (65 + n) := by decide
  induction d with
  | nil => exact ⟨rfl, rfl⟩
  | cons c cs ih =>
    have hc := c.toNat_lt
    simp only [upper, nbEnc, List.flatMap_cons, List.map_append, List.map_cons, List.map_nil] at ih ⊢
    rw [ih.1, ih.2, (key _ (show c.toNat / 16 < 16 by omega)).1, (key _ (show c.toNat / 16 < 16 by omega)).2,
      (key _ (show c.toNat % 16 < 16 by omega)).1, (key _ (show c.toNat % 16 < 16 by omega)).2]
    exact ⟨rfl, rfl⟩

theorem nbDecode_nbEnc (d : Bytes) : C20.netbiosDecode (nbEnc 65 d) 0x41 = .ok d :=
  C20.netbios_decode_encode d 0x41 _ (nbEncode_eq d)

theorem nbDec_nbEnc (base : Nat) (hb : base ≤ 240) (d : Bytes) : nbDec base (nbEnc base d) = some d := by
  induction d with
  | nil => rfl
  | cons c cs ih =>
    have hc := c.toNat_lt
    simp only [nbEnc, List.flatMap_cons, List.cons_append, List.nil_append] at ih ⊢
    have e1 : (base + c.toNat / 16) % 2 ^ 8 = base + c.toNat / 16 := Nat.mod_eq_of_lt (by omega)
    have e2 : (base + c.toNat % 16) % 2 ^ 8 = base + c.toNat % 16 := Nat.mod_eq_of_lt (by omega)
    simp only [nbDec, UInt8.toNat_ofNat', e1, e2, Nat.add_sub_cancel_left]
    rw [if_pos (by omega), ih]
    simp only [Option.map_some]
    rw [ofNat_eq8 _ c (by omega)]

/-! ### mask -/

theorem key32_eq (v : UInt32) : key32 v = p32be v := by
  simp only [key32, p32be]
  have h24 : (v >>> 24).toUInt8 = UInt8.ofNat (v.toNat / 16777216 % 256) := by
    apply UInt8.toNat_inj.mp
    simp [UInt32.toNat_shiftRight, Nat.shiftRight_eq_div_pow]
  have h16 : (v >>> 16).toUInt8 = UInt8.ofNat (v.toNat / 65536 % 256) := by
    apply UInt8.toNat_inj.mp
    simp [UInt32.toNat_shiftRight, Nat.shiftRight_eq_div_pow]
  have h8 : (v >>> 8).toUInt8 = UInt8.ofNat (v.toNat / 256 % 256) := by
    apply UInt8.toNat_inj.mp
    simp [UInt32.toNat_shiftRight, Nat.shiftRight_eq_div_pow]
  have h0 : v.toUInt8 = UInt8.ofNat (v.toNat % 256) := by
    apply UInt8.toNat_inj.mp
    simp
  rw [h24, h16, h8, h0]

theorem getD_zero_of_all (k : Bytes) (h : k.all (· == 0) = true) (i : Nat) : k.getD i 0 = 0 := by
  induction k generalizing i with
  | nil => rfl
  | cons a k ih =>
    simp only [List.all_cons, Bool.and_eq_true, beq_iff_eq] at h
    cases i with
    | zero => simpa using h.1
    | succ i => simpa using ih h.2 i

theorem xor_eq_xorKey (d k : Bytes) : C20.xor d k = xorKey k d := by
  unfold C20.xor xorKey
  split
  · rename_i h
    apply List.ext_getElem
    · simp
    · intro i h1 h2
      have := getD_zero_of_all k h (i % k.length)
      rw [List.getD_eq_getElem?_getD] at this
      simp [this]
  · simp [C20.xorCore, C20.keyAt, List.mapIdx_eq_zipIdx_map]

theorem p32be_length (v : UInt32) : (p32be v).length = 4 := rfl


/-! ### one step: admissible encodings and both decoders -/

/-- `v` is an admissible encoding of `x` under statement `e`: the reference encoder's output for some
random stream, or (base64url only) the padded form the library emits. -/
def Enc1 (e : Enc) (x v : Bytes) : Prop :=
  (∃ r : Rand, v = (Ref.encStep e r x).1) ∨ (e = .base64url ∧ v = b64urlenc x ++ List.replicate (padLen x) 61)

theorem encStep_spec (e : Enc) (r : Rand) (x : Bytes) :
    ∃ v r', C04.encStep e r x = .ok (v, r') ∧ Enc1 e x v := by
  cases e with
  | append a => exact ⟨_, _, rfl, Or.inl ⟨r, rfl⟩⟩
  | prepend a => exact ⟨_, _, rfl, Or.inl ⟨r, rfl⟩⟩
  | base64 => exact ⟨_, _, rfl, Or.inl ⟨r, (b64enc_eq x).symm⟩⟩
  | base64url => exact ⟨_, _, rfl, Or.inr ⟨rfl, urlsafeB64encode_eq x⟩⟩
  | netbios =>
    refine ⟨nbEnc 97 x, r, ?_, Or.inl ⟨r, rfl⟩⟩
    simp [C04.encStep, nbEncode_eq, liftPy, Except.map, lower_nbEnc]
  | netbiosu =>
    refine ⟨nbEnc 65 x, r, ?_, Or.inl ⟨r, rfl⟩⟩
    simp [C04.encStep, nbEncode_eq, liftPy, Except.map, (upper_nbEnc x).1]
  | mask =>
    refine ⟨_, _, rfl, Or.inl ⟨r, ?_⟩⟩
    simp [Ref.encStep, key32_eq, xor_eq_xorKey]

theorem take_drop4 (k y : Bytes) (hk : k.length = 4) : (k ++ y).take 4 = k ∧ (k ++ y).drop 4 = y := by
  constructor
  · rw [← hk]; simp
  · rw [← hk]; simp

theorem key32_length (v : UInt32) : (key32 v).length = 4 := rfl

theorem pySliceTo_append (x y : Bytes) (n : Int) (hn : n = (y.length : Int)) :
    pySliceTo (x ++ y) (some (((x ++ y).length : Int) - n)) = x := by
  subst hn
  have h : (((x ++ y).length : Int) - (y.length : Int)) = (x.length : Int) := by simp
  rw [h]; simp [pySliceTo]

theorem pySliceFrom_append (y x : Bytes) (n : Int) (hn : n = (y.length : Int)) :
    pySliceFrom (y ++ x) n = x := by
  subst hn; simp [pySliceFrom]

theorem replicate_len_int (n : Int) (hn : 0 ≤ n) (b : UInt8) : n = ((List.replicate n.toNat b).length : Int) := by
  simp; omega

theorem dec_of_enc1 (e : Enc) (x v : Bytes) (hok : encOk e = true) (h : Enc1 e x v) :
    C04.decStep e v = .ok x := by
  rcases h with ⟨r, rfl⟩ | ⟨rfl, rfl⟩
  · cases e with
    | append a =>
      cases a with
      | bytes b =>
        simp only [Ref.encStep, C04.decStep, Arg.toBytes, Arg.len]
        rw [pySliceTo_append x b _ rfl]
      | int n =>
        have hn : 0 ≤ n := by simpa [encOk] using hok
        simp only [Ref.encStep, C04.decStep, Arg.toBytes, Arg.len]
        rw [pySliceTo_append x _ n (replicate_len_int n hn 88)]
    | prepend a =>
      cases a with
      | bytes b =>
        simp only [Ref.encStep, C04.decStep, Arg.toBytes, Arg.len]
        rw [pySliceFrom_append b x _ rfl]
      | int n =>
        have hn : 0 ≤ n := by simpa [encOk] using hok
        simp only [Ref.encStep, C04.decStep, Arg.toBytes, Arg.len]
        rw [pySliceFrom_append _ x n (replicate_len_int n hn 88)]
    | base64 => simp [Ref.encStep, C04.decStep, b64enc_eq, b64_roundtrip, liftPy]
    | base64url => simp [Ref.encStep, C04.decStep, b64url_unpadded, liftPy]
    | netbios => simp [Ref.encStep, C04.decStep, (upper_nbEnc x).2, nbDecode_nbEnc, liftPy]
    | netbiosu => simp [Ref.encStep, C04.decStep, nbDecode_nbEnc, liftPy]
    | mask =>
      simp only [Ref.encStep, C04.decStep]
      obtain ⟨h1, h2⟩ := take_drop4 (key32 (r 0)) (xorKey (key32 (r 0)) x) (key32_length _)
      rw [h1, h2, ← xor_eq_xorKey, C20.xor_involutive]
  · simp only [C04.decStep]
    rw [urlsafe_dec_chars]; rfl

theorem refdec_of_enc1 (e : Enc) (x v : Bytes) (hok : encOk e = true) (h : Enc1 e x v) :
    Ref.decStep e v = some x := by
  rcases h with ⟨r, rfl⟩ | ⟨rfl, rfl⟩
  · cases e with
    | append a =>
      cases a with
      | bytes b => simp [Ref.encStep, Ref.decStep, Arg.toBytes]
      | int n =>
        have hn : 0 ≤ n := by simpa [encOk] using hok
        simp [Ref.encStep, Ref.decStep, Arg.toBytes, hn]
    | prepend a =>
      cases a with
      | bytes b => simp [Ref.encStep, Ref.decStep, Arg.toBytes]
      | int n =>
        have hn : 0 ≤ n := by simpa [encOk] using hok
        have : (List.replicate n.toNat (88 : UInt8) ++ x).drop n.toNat = x := by simp
        simp [Ref.encStep, Ref.decStep, Arg.toBytes, hn, this]
    | base64 =>
      simp only [Ref.encStep, Ref.decStep, b64enc]
      exact b64dec_chars false x _ (padLen_le x)
    | base64url =>
      simp only [Ref.encStep, Ref.decStep, b64urlenc]
      have := b64dec_chars true x 0 (by omega)
      simpa [b64chars] using this
    | netbios => simp [Ref.encStep, Ref.decStep, nbDec_nbEnc]
    | netbiosu => simp [Ref.encStep, Ref.decStep, nbDec_nbEnc]
    | mask =>
      simp only [Ref.encStep, Ref.decStep]
      obtain ⟨h1, h2⟩ := take_drop4 (key32 (r 0)) (xorKey (key32 (r 0)) x) (key32_length _)
      have h3 : xorKey (key32 (r 0)) (xorKey (key32 (r 0)) x) = x := by
        rw [← xor_eq_xorKey, ← xor_eq_xorKey, C20.xor_involutive]
      simp only [h1, h2, h3]
      simp [key32_length]
  · simp only [Ref.decStep, b64urlenc]
    exact b64dec_chars true x _ (padLen_le x)

/-! ### chains -/

def EncN : List Enc → Bytes → Bytes → Prop
  | [], x, v => v = x
  | e :: es, x, v => ∃ w, Enc1 e x w ∧ EncN es w v

theorem encChain_spec (es : List Enc) (r : Rand) (x : Bytes) :
    ∃ v r', encChain es r x = .ok (v, r') ∧ EncN es x v := by
  induction es generalizing r x with
  | nil => exact ⟨x, r, rfl, rfl⟩
  | cons e es ih =>
    obtain ⟨w, r1, h1, h2⟩ := encStep_spec e r x
    obtain ⟨v, r2, h3, h4⟩ := ih r1 w
    exact ⟨v, r2, by simp [encChain, h1, Except.bind, h3], w, h2, h4⟩

theorem refEncChain_spec (es : List Enc) (r : Rand) (x : Bytes) : EncN es x (Ref.encChain es r x).1 := by
  induction es generalizing r x with
  | nil => rfl
  | cons e es ih => exact ⟨_, Or.inl ⟨r, rfl⟩, ih _ _⟩

theorem decChain_append (a b : List Enc) (v : Bytes) :
    decChain (a ++ b) v = (decChain a v).bind (decChain b) := by
  induction a generalizing v with
  | nil => rfl
  | cons e a ih =>
    simp only [List.cons_append, decChain]
    cases C04.decStep e v with
    | error err => rfl
    | ok w => simpa [Except.bind] using ih w

theorem refDecChain_append (a b : List Enc) (v : Bytes) :
    Ref.decChain (a ++ b) v = (Ref.decChain a v).bind (Ref.decChain b) := by
  induction a generalizing v with
  | nil => rfl
  | cons e a ih =>
    simp only [List.cons_append, Ref.decChain]
    cases Ref.decStep e v with
    | none => rfl
    | some w => simpa using ih w

theorem decChain_of_encN (es : List Enc) (hok : ∀ e ∈ es, encOk e = true) (x v : Bytes) (h : EncN es x v) :
    decChain es.reverse v = .ok x := by
  induction es generalizing x with
  | nil => cases h; rfl
  | cons e es ih =>
    obtain ⟨w, h1, h2⟩ := h
    rw [List.reverse_cons, decChain_append, ih (fun e he => hok e (by simp [he])) w h2]
    simp [Except.bind, decChain, dec_of_enc1 e x w (hok e (by simp)) h1]

theorem refDecChain_of_encN (es : List Enc) (hok : ∀ e ∈ es, encOk e = true) (x v : Bytes) (h : EncN es x v) :
    Ref.decChain es.reverse v = some x := by
  induction es generalizing x with
  | nil => cases h; rfl
  | cons e es ih =>
    obtain ⟨w, h1, h2⟩ := h
    rw [List.reverse_cons, refDecChain_append, ih (fun e he => hok e (by simp [he])) w h2]
    simp [Ref.decChain, refdec_of_enc1 e x w (hok e (by simp)) h1]


/-! ### dict, partition -/

theorem dict_get_set_eq (d : Dict) (k v : Bytes) : (d.set k v).get k = some v := by
  induction d with
  | nil => simp [Dict.set, Dict.get]
  | cons kv rest ih =>
    obtain ⟨k', v'⟩ := kv
    by_cases h : k' = k
    · simp [Dict.set, Dict.get, h]
    · simp [Dict.set, Dict.get, h, ih]

theorem dict_get_set_ne (d : Dict) (k k2 v : Bytes) (hne : k2 ≠ k) : (d.set k v).get k2 = d.get k2 := by
  induction d with
  | nil => simp [Dict.set, Dict.get, Ne.symm hne]
  | cons kv rest ih =>
    obtain ⟨k', v'⟩ := kv
    by_cases h : k' = k
    · subst h; simp [Dict.set, Dict.get, Ne.symm hne]
    · by_cases h2 : k' = k2
      · subst h2; simp [Dict.set, Dict.get, h]
      · simp [Dict.set, Dict.get, h, h2, ih]

theorem partition_name (c : UInt8) (sr n v : Bytes) (hn : c ∉ n) :
    partition (c :: sr) (n ++ c :: (sr ++ v)) = (n, v) := by
  induction n with
  | nil =>
    simp only [List.nil_append, partition]
    simp [List.isPrefixOf]
  | cons a n ih =>
    have hac : a ≠ c := fun h => hn (by simp [h])
    have hn' : c ∉ n := fun h => hn (by simp [h])
    simp only [List.cons_append, partition]
    have : (c :: sr).isPrefixOf (a :: (n ++ c :: (sr ++ v))) = false := by
      simp [List.isPrefixOf, Ne.symm hac]
    rw [this]
    simp [ih hn']

/-! ### frame: which steps write where -/

def writes : Step → Option Term
  | .term t => some t
  | .static (.header kv) => some (.header (partition [58, 32] kv).1)
  | .static (.hostheader kv) => some (.header (partition [58, 32] kv).1)
  | .static (.parameter kv) => some (.parameter (partition [61] kv).1)
  | _ => none

theorem writes_deco (d : Deco) (h : d.nameOk = true) : writes d.toStep = some d.place := by
  cases d with
  | header n v =>
    have hn : (58 : UInt8) ∉ n := by simpa [Deco.nameOk] using h
    have hp := partition_name 58 [32] n v hn
    simp only [List.cons_append, List.nil_append] at hp
    simp [Deco.toStep, writes, Deco.place, hp]
  | hostheader n v =>
    have hn : (58 : UInt8) ∉ n := by simpa [Deco.nameOk] using h
    have hp := partition_name 58 [32] n v hn
    simp only [List.cons_append, List.nil_append] at hp
    simp [Deco.toStep, writes, Deco.place, hp]
  | parameter n v =>
    have hn : (61 : UInt8) ∉ n := by simpa [Deco.nameOk] using h
    have hp := partition_name 61 [] n v hn
    simp only [List.nil_append] at hp
    simp [Deco.toStep, writes, Deco.place, hp]

/-- the message a transform state stands for -/
def TSt.http (req : Req) (s : TSt) : Http := .request (s.toReq req)

theorem locate_http (req : Req) (s : TSt) (t : Term) :
    locate t (s.http req) = match t with
      | .print => some s.body
      | .uriAppend => some s.uri
      | .header k => s.headers.get k
      | .parameter k => s.params.get k := by
  cases t <;> rfl

theorem tstep_frame (c2 : C2Data) (req : Req) (st : Step) (s s' : TSt) (t : Term)
    (h : tstep c2 st s = .ok s') (hw : writes st ≠ some t) :
    locate t (s'.http req) = locate t (s.http req) := by
  cases st with
  | enc e =>
    simp only [tstep] at h
    cases he : C04.encStep e s.rand s.data with
    | error err => simp [he, Except.map] at h
    | ok p =>
      simp only [he, Except.map, Except.ok.injEq] at h
      subst h; cases t <;> rfl
  | term t' =>
    cases t' with
    | print =>
      simp only [tstep, Except.ok.injEq] at h; subst h
      cases t <;> first | rfl | (exfalso; exact hw rfl)
    | uriAppend =>
      simp only [tstep, Except.ok.injEq] at h; subst h
      cases t <;> first | rfl | (exfalso; exact hw rfl)
    | header k =>
      simp only [tstep, Except.ok.injEq] at h; subst h
      cases t with
      | header k2 =>
        have : k2 ≠ k := fun e => hw (by rw [e]; rfl)
        simp [locate_http, dict_get_set_ne _ _ _ _ this]
      | _ => rfl
    | parameter k =>
      simp only [tstep, Except.ok.injEq] at h; subst h
      cases t with
      | parameter k2 =>
        have : k2 ≠ k := fun e => hw (by rw [e]; rfl)
        simp [locate_http, dict_get_set_ne _ _ _ _ this]
      | _ => rfl
  | static sd =>
    cases sd with
    | header kv =>
      simp only [tstep, Except.ok.injEq] at h; subst h
      cases t with
      | header k2 =>
        have : k2 ≠ (partition [58, 32] kv).1 := fun e => hw (by rw [e]; rfl)
        simp [locate_http, dict_get_set_ne _ _ _ _ this]
      | _ => rfl
    | hostheader kv =>
      simp only [tstep, Except.ok.injEq] at h; subst h
      cases t with
      | header k2 =>
        have : k2 ≠ (partition [58, 32] kv).1 := fun e => hw (by rw [e]; rfl)
        simp [locate_http, dict_get_set_ne _ _ _ _ this]
      | _ => rfl
    | parameter kv =>
      simp only [tstep, Except.ok.injEq] at h; subst h
      cases t with
      | parameter k2 =>
        have : k2 ≠ (partition [61] kv).1 := fun e => hw (by rw [e]; rfl)
        simp [locate_http, dict_get_set_ne _ _ _ _ this]
      | _ => rfl
  | build f =>
    cases f with
    | none => simp only [tstep, Except.ok.injEq] at h; subst h; rfl
    | some f => simp only [tstep, Except.ok.injEq] at h; subst h; cases t <;> rfl
  | unknown => simp [tstep] at h

theorem runT_frame (c2 : C2Data) (req : Req) (steps : List Step) (s s' : TSt) (t : Term)
    (h : runT c2 steps s = .ok s') (hw : ∀ st ∈ steps, writes st ≠ some t) :
    locate t (s'.http req) = locate t (s.http req) := by
  induction steps generalizing s with
  | nil => simp only [runT, Except.ok.injEq] at h; subst h; rfl
  | cons st rest ih =>
    simp only [runT] at h
    cases h1 : tstep c2 st s with
    | error e => simp [h1, Except.bind] at h
    | ok s1 =>
      simp only [h1, Except.bind] at h
      rw [ih s1 h (fun st' hs => hw st' (by simp [hs])), tstep_frame c2 req st s s1 t h1 (hw st (by simp))]

theorem runT_append (c2 : C2Data) (a b : List Step) (s : TSt) :
    runT c2 (a ++ b) s = (runT c2 a s).bind (runT c2 b) := by
  induction a generalizing s with
  | nil => rfl
  | cons st a ih =>
    simp only [List.cons_append, runT]
    cases tstep c2 st s with
    | error e => rfl
    | ok s1 => simpa [Except.bind] using ih s1

theorem runT_encs (c2 : C2Data) (es : List Enc) (s : TSt) :
    runT c2 (es.map Step.enc) s =
      (encChain es s.rand s.data).map fun p => { s with data := p.1, rand := p.2 } := by
  induction es generalizing s with
  | nil => rfl
  | cons e es ih =>
    simp only [List.map_cons, runT, tstep, encChain]
    cases C04.encStep e s.rand s.data with
    | error err => rfl
    | ok p => simp [Except.map, Except.bind, ih]

theorem valid_cons_deco {d : Deco} {rest : Program} (h : valid (.deco d :: rest) = true) :
    d.nameOk = true ∧ valid rest = true := by simpa [valid] using h

theorem valid_cons_block {b : Block} {rest : Program} (h : valid (.block b :: rest) = true) :
    (∀ e ∈ b.encs, encOk e = true) ∧ b.term ∉ places rest ∧ valid rest = true := by
  simpa [valid, and_assoc] using h

theorem writes_compile (p : Program) (hv : valid p = true) (st : Step) (hs : st ∈ compile p) (t : Term)
    (hw : writes st = some t) : t ∈ places p := by
  induction p with
  | nil => simp [compile] at hs
  | cons it rest ih =>
    cases it with
    | deco d =>
      obtain ⟨h1, h2⟩ := valid_cons_deco hv
      simp only [compile, List.mem_cons] at hs
      rcases hs with rfl | hs
      · rw [writes_deco d h1] at hw
        injection hw with hw; subst hw; simp [places, Item.place]
      · have := ih h2 hs; simp only [places, List.map_cons, List.mem_cons] at this ⊢; exact Or.inr this
    | block b =>
      obtain ⟨_, _, h2⟩ := valid_cons_block hv
      simp only [compile, List.mem_append] at hs
      rcases hs with hs | hs
      · simp only [Block.toSteps, List.mem_cons, List.mem_append, List.mem_map,
          List.not_mem_nil, or_false] at hs
        rcases hs with (rfl | ⟨e, _, rfl⟩) | rfl
        · simp [writes] at hw
        · simp [writes] at hw
        · simp only [writes, Option.some.injEq] at hw; subst hw; simp [places, Item.place]
      · have := ih h2 hs; simp only [places, List.map_cons, List.mem_cons] at this ⊢; exact Or.inr this


/-! ### forward characterisation of `transform` on compiled programs -/

/-- the payload of a field (`c2data.x or b""`) -/
def payload (c2 : C2Data) (f : Field) : Bytes := (c2.get f).getD []

/-- every block's placement in `http` holds an admissible encoding of its payload -/
def Placed (c2 : C2Data) (http : Http) (p : Program) : Prop :=
  ∀ b, Item.block b ∈ p → ∃ v, locate b.term http = some v ∧ EncN b.encs (payload c2 b.field) v

theorem usesUri_iff (p : Program) : usesUri p = true ↔ Term.uriAppend ∈ places p := by
  simp [usesUri]

theorem usesUri_of_rest (it : Item) (rest : Program) (h : usesUri rest = true) : usesUri (it :: rest) = true := by
  rw [usesUri_iff] at h ⊢; simp only [places, List.map_cons, List.mem_cons] at h ⊢; exact Or.inr h

theorem usesUri_of_head (it : Item) (rest : Program) (h : it.place = .uriAppend) : usesUri (it :: rest) = true := by
  rw [usesUri_iff]; simp [places, h]

theorem runT_single (c2 : C2Data) (st : Step) (s : TSt) : runT c2 [st] s = tstep c2 st s := by
  simp only [runT]
  cases tstep c2 st s <;> rfl

theorem block_forward (c2 : C2Data) (req : Req) (b : Block) (s : TSt) :
    ∃ s1 v, runT c2 b.toSteps s = .ok s1 ∧ EncN b.encs (payload c2 b.field) v ∧
      locate b.term (s1.http req) = some (if b.term = .uriAppend then s.uri ++ v else v) ∧
      (b.term ≠ .uriAppend → s1.uri = s.uri) := by
  obtain ⟨v, r', hc, hN⟩ := encChain_spec b.encs s.rand (payload c2 b.field)
  have h0 : runT c2 (Step.build (some b.field) :: b.encs.map Step.enc) s
      = .ok { s with data := v, rand := r' } := by
    rw [runT]
    show (Except.ok ({ s with data := payload c2 b.field } : TSt)).bind _ = _
    simp only [Except.bind]
    rw [runT_encs]
    simp [hc, Except.map]
  have hrun : runT c2 b.toSteps s =
      tstep c2 (.term b.term) { s with data := v, rand := r' } := by
    rw [Block.toSteps, runT_append, h0]
    simp only [Except.bind]
    rw [runT_single]
  rw [hrun]
  cases hb : b.term with
  | print => exact ⟨_, v, rfl, hN, by simp [locate_http], fun _ => rfl⟩
  | uriAppend => exact ⟨_, v, rfl, hN, by simp [locate_http], fun h => absurd rfl h⟩
  | header k => exact ⟨_, v, rfl, hN, by simp [locate_http, dict_get_set_eq], fun _ => rfl⟩
  | parameter k => exact ⟨_, v, rfl, hN, by simp [locate_http, dict_get_set_eq], fun _ => rfl⟩

theorem deco_forward (c2 : C2Data) (d : Deco) (s : TSt) :
    ∃ s1, tstep c2 d.toStep s = .ok s1 ∧ s1.uri = s.uri := by
  cases d <;> exact ⟨_, rfl, rfl⟩

theorem transform_placed (c2 : C2Data) (req : Req) (p : Program) (hv : valid p = true) (s : TSt)
    (hu : usesUri p = true → s.uri = []) :
    ∃ s', runT c2 (compile p) s = .ok s' ∧ Placed c2 (s'.http req) p := by
  induction p generalizing s with
  | nil => exact ⟨s, rfl, fun b hb => by simp at hb⟩
  | cons it rest ih =>
    cases it with
    | deco d =>
      obtain ⟨_, hv2⟩ := valid_cons_deco hv
      obtain ⟨s1, h1, hu1⟩ := deco_forward c2 d s
      obtain ⟨s', h2, hP⟩ := ih hv2 s1 (fun h => by rw [hu1]; exact hu (usesUri_of_rest _ _ h))
      refine ⟨s', by simp [compile, runT, h1, Except.bind, h2], ?_⟩
      intro b hb
      simp only [List.mem_cons] at hb
      rcases hb with hb | hb
      · cases hb
      · exact hP b hb
    | block b =>
      obtain ⟨hok, hnot, hv2⟩ := valid_cons_block hv
      obtain ⟨s1, v, h1, hN, hloc, hur⟩ := block_forward c2 req b s
      have hu1 : usesUri rest = true → s1.uri = [] := by
        intro h
        have hne : b.term ≠ .uriAppend := by
          intro e; apply hnot; rw [e]; exact (usesUri_iff rest).mp h
        rw [hur hne]; exact hu (usesUri_of_rest _ _ h)
      obtain ⟨s', h2, hP⟩ := ih hv2 s1 hu1
      refine ⟨s', by simp [compile, runT_append, h1, Except.bind, h2], ?_⟩
      intro b' hb'
      simp only [List.mem_cons] at hb'
      rcases hb' with hb' | hb'
      · injection hb' with hb'; subst hb'
        refine ⟨v, ?_, hN⟩
        rw [runT_frame c2 req (compile rest) s1 s' b'.term h2
          (fun st hs hw => hnot (writes_compile rest hv2 st hs b'.term hw)), hloc]
        by_cases hb : b'.term = .uriAppend
        · have : s.uri = [] := hu (usesUri_of_head _ _ (by simpa [Item.place] using hb))
          simp [hb, this]
        · simp [hb]
      · exact hP b' hb'

/-! ### recover / reference decode from placed messages -/

theorem runR_append (http : Http) (a b : List Step) (s : RSt) :
    runR http (a ++ b) s = (runR http a s).bind (runR http b) := by
  induction a generalizing s with
  | nil => rfl
  | cons st a ih =>
    simp only [List.cons_append, runR]
    cases rstep http st s with
    | error e => rfl
    | ok s1 => simpa [Except.bind] using ih s1

theorem runR_encs (http : Http) (es : List Enc) (s : RSt) :
    runR http (es.map Step.enc) s = (decChain es s.data).map fun d => { s with data := d } := by
  induction es generalizing s with
  | nil => rfl
  | cons e es ih =>
    simp only [List.map_cons, runR, rstep, decChain]
    cases C04.decStep e s.data with
    | error err => rfl
    | ok d => simp [Except.map, Except.bind, ih]

theorem fetch_of_locate (t : Term) (http : Http) (v : Bytes) (h : locate t http = some v) :
    fetch http t = .ok v := by
  cases t <;> cases http <;> simp_all [locate, fetch]

def RSt.getField (s : RSt) : Field → Option Bytes
  | .output => s.output
  | .id => s.id
  | .metadata => s.metadata

theorem built_cons_deco (d : Deco) (rest : Program) (f : Field) : built (.deco d :: rest) f = built rest f := by
  simp [built]

theorem built_cons_block (b : Block) (rest : Program) (f : Field) :
    built (.block b :: rest) f = (b.field == f || built rest f) := by
  simp [built]

/-- `x f` = the value every block of field `f` decodes to -/
theorem recover_placed (http : Http) (x : Field → Bytes) (p : Program)
    (hp : ∀ b, Item.block b ∈ p → ∃ v, locate b.term http = some v ∧ decChain b.encs.reverse v = .ok (x b.field))
    (rs : RSt) :
    ∃ rs', runR http (compile p).reverse rs = .ok rs' ∧
      ∀ f, rs'.getField f = if built p f = true then some (x f) else rs.getField f := by
  induction p generalizing rs with
  | nil => exact ⟨rs, rfl, fun f => by simp [built]⟩
  | cons it rest ih =>
    obtain ⟨rs1, h1, hf1⟩ := ih (fun b hb => hp b (by simp [hb])) rs
    cases it with
    | deco d =>
      refine ⟨rs1, ?_, fun f => by rw [built_cons_deco]; exact hf1 f⟩
      simp only [compile, List.reverse_cons, runR_append, h1, Except.bind]
      cases d <;> rfl
    | block b =>
      obtain ⟨v, hl, hd⟩ := hp b (by simp)
      refine ⟨({ rs1 with data := x b.field } : RSt).setField b.field, ?_, ?_⟩
      · simp only [compile, Block.toSteps, List.reverse_append, List.reverse_cons,
          List.nil_append, List.append_assoc, List.cons_append, runR_append, h1, Except.bind]
        rw [← List.map_reverse]
        simp only [runR, rstep, fetch_of_locate _ _ _ hl, Except.map, Except.bind]
        rw [runR_append, runR_encs]
        simp [hd, Except.map, runR, rstep, Except.bind]
      · intro f
        rw [built_cons_block]
        by_cases hbf : b.field = f
        · subst hbf; cases hb : b.field <;> simp [RSt.setField, RSt.getField]
        · have : (b.field == f) = false := by simpa using hbf
          rw [this, Bool.false_or, ← hf1 f]
          cases hb : b.field <;> cases f <;> simp_all [RSt.setField, RSt.getField]

theorem get_setField (c : C2Data) (f g : Field) (v : Bytes) :
    (Ref.setField c f v).get g = if f = g then some v else c.get g := by
  cases f <;> cases g <;> simp [Ref.setField, C2Data.get]

theorem refdecode_placed (http : Http) (x : Field → Bytes) (p : Program)
    (hp : ∀ b, Item.block b ∈ p → ∃ v, locate b.term http = some v ∧ Ref.decChain b.encs.reverse v = some (x b.field))
    (acc : C2Data) :
    ∃ out, Ref.decode p http acc = some out ∧
      ∀ f, out.get f = if built p f = true then some (x f) else acc.get f := by
  induction p generalizing acc with
  | nil => exact ⟨acc, rfl, fun f => by simp [built]⟩
  | cons it rest ih =>
    cases it with
    | deco d =>
      obtain ⟨out, h1, hf1⟩ := ih (fun b hb => hp b (by simp [hb])) acc
      exact ⟨out, by simp [Ref.decode, h1], fun f => by rw [built_cons_deco]; exact hf1 f⟩
    | block b =>
      obtain ⟨v, hl, hd⟩ := hp b (by simp)
      obtain ⟨out, h1, hf1⟩ := ih (fun b hb => hp b (by simp [hb])) (Ref.setField acc b.field (x b.field))
      refine ⟨out, by simp [Ref.decode, Ref.decodeBlock, hl, hd, h1], ?_⟩
      intro f
      rw [hf1 f, built_cons_block, get_setField]
      by_cases hbf : b.field = f
      · simp [hbf]
      · have : (b.field == f) = false := by simpa using hbf
        simp [this, hbf]


/-! ### forward characterisation of the reference encoder -/

theorem refplace_frame (t t' : Term) (v : Bytes) (r : Req) (h : t ≠ t') :
    locate t (.request (place t' v r)) = locate t (.request r) := by
  cases t' with
  | print => cases t <;> first | rfl | exact absurd rfl h
  | uriAppend => cases t <;> first | rfl | exact absurd rfl h
  | header k =>
    cases t with
    | header k2 =>
      have : k2 ≠ k := fun e => h (by rw [e])
      simp [locate, place, dict_get_set_ne _ _ _ _ this]
    | _ => rfl
  | parameter k =>
    cases t with
    | parameter k2 =>
      have : k2 ≠ k := fun e => h (by rw [e])
      simp [locate, place, dict_get_set_ne _ _ _ _ this]
    | _ => rfl

theorem refplace_at (t : Term) (v : Bytes) (r : Req) :
    locate t (.request (place t v r)) = some (if t = .uriAppend then r.uri ++ v else v) := by
  cases t <;> simp [locate, place, dict_get_set_eq]

theorem refdeco_frame (d : Deco) (t : Term) (r : Req) (h : t ≠ d.place) :
    locate t (.request (d.apply r)) = locate t (.request r) := by
  cases d with
  | header n v =>
    cases t with
    | header k2 =>
      have : k2 ≠ n := fun e => h (by rw [e]; rfl)
      simp [locate, Deco.apply, dict_get_set_ne _ _ _ _ this]
    | _ => rfl
  | hostheader n v =>
    cases t with
    | header k2 =>
      have : k2 ≠ n := fun e => h (by rw [e]; rfl)
      simp [locate, Deco.apply, dict_get_set_ne _ _ _ _ this]
    | _ => rfl
  | parameter n v =>
    cases t with
    | parameter k2 =>
      have : k2 ≠ n := fun e => h (by rw [e]; rfl)
      simp [locate, Deco.apply, dict_get_set_ne _ _ _ _ this]
    | _ => rfl

theorem refencode_frame (p : Program) (t : Term) (h : t ∉ places p) (rand : Rand) (c2 : C2Data) (r : Req) :
    locate t (.request (Ref.encode p rand c2 r)) = locate t (.request r) := by
  induction p generalizing rand r with
  | nil => rfl
  | cons it rest ih =>
    simp only [places, List.map_cons, List.mem_cons, not_or] at h
    cases it with
    | deco d => rw [Ref.encode, ih h.2, refdeco_frame d t r h.1]
    | block b => rw [Ref.encode, ih h.2, refplace_frame t b.term _ r h.1]

theorem uri_of_locate (r r' : Req) (h : locate .uriAppend (.request r') = locate .uriAppend (.request r)) :
    r'.uri = r.uri := by
  simpa [locate] using h

theorem refencode_placed (c2 : C2Data) (p : Program) (hv : valid p = true) (rand : Rand) (r : Req)
    (hu : usesUri p = true → r.uri = []) :
    Placed c2 (.request (Ref.encode p rand c2 r)) p := by
  induction p generalizing rand r with
  | nil => intro b hb; simp at hb
  | cons it rest ih =>
    cases it with
    | deco d =>
      obtain ⟨_, hv2⟩ := valid_cons_deco hv
      have hu1 : usesUri rest = true → (d.apply r).uri = [] := by
        intro h; have := hu (usesUri_of_rest _ _ h); cases d <;> exact this
      intro b hb
      simp only [List.mem_cons] at hb
      rcases hb with hb | hb
      · cases hb
      · exact ih hv2 rand (d.apply r) hu1 b hb
    | block b =>
      obtain ⟨hok, hnot, hv2⟩ := valid_cons_block hv
      have hu1 : usesUri rest = true →
          (place b.term (Ref.encChain b.encs rand (payload c2 b.field)).1 r).uri = [] := by
        intro h
        have hne : Term.uriAppend ≠ b.term := by
          intro e; apply hnot; rw [← e]; exact (usesUri_iff rest).mp h
        rw [uri_of_locate _ _ (refplace_frame .uriAppend b.term _ r hne)]
        exact hu (usesUri_of_rest _ _ h)
      intro b' hb'
      simp only [List.mem_cons] at hb'
      rcases hb' with hb' | hb'
      · injection hb' with hb'; subst hb'
        refine ⟨(Ref.encChain b'.encs rand (payload c2 b'.field)).1, ?_, refEncChain_spec _ _ _⟩
        show locate b'.term (.request (Ref.encode rest _ c2 (place b'.term _ r))) = _
        rw [refencode_frame rest b'.term hnot, refplace_at]
        by_cases hb : b'.term = .uriAppend
        · have : r.uri = [] := hu (usesUri_of_head _ _ (by simpa [Item.place] using hb))
          simp [hb, this, payload]
        · simp [hb, payload]
      · exact ih hv2 _ _ hu1 b' hb'

/-! ### from field-wise facts to `C2Data` equalities -/

theorem c2_ext (a b : C2Data) (h : ∀ f, a.get f = b.get f) : a = b := by
  cases a; cases b
  have h1 := h .output; have h2 := h .metadata; have h3 := h .id
  simp only [C2Data.get] at h1 h2 h3
  simp [h1, h2, h3]

theorem normalise_get (p : Program) (c2 : C2Data) (f : Field) :
    (normalise p c2).get f = if built p f = true then some (payload c2 f) else none := by
  cases f <;> rfl

theorem toC2_get (s : RSt) (f : Field) : s.toC2.get f = s.getField f := by cases f <;> rfl

theorem valid_encsOk (p : Program) (hv : valid p = true) (b : Block) (hb : Item.block b ∈ p) :
    ∀ e ∈ b.encs, encOk e = true := by
  induction p with
  | nil => simp at hb
  | cons it rest ih =>
    simp only [List.mem_cons] at hb
    cases it with
    | deco d =>
      rcases hb with hb | hb
      · cases hb
      · exact ih (valid_cons_deco hv).2 hb
    | block b' =>
      obtain ⟨hok, _, hv2⟩ := valid_cons_block hv
      rcases hb with hb | hb
      · injection hb with hb; subst hb; exact hok
      · exact ih hv2 hb

/-- model `recover` on any message whose placements hold admissible encodings -/
theorem recover_of_placed (p : Program) (hv : valid p = true) (c2 : C2Data) (http : Http)
    (hP : Placed c2 http p) :
    (runR http (compile p).reverse ⟨[], none, none, none⟩).map RSt.toC2 = .ok (normalise p c2) := by
  obtain ⟨rs', h1, hf⟩ := recover_placed http (payload c2) p
    (fun b hb => by
      obtain ⟨v, hl, hN⟩ := hP b hb
      exact ⟨v, hl, decChain_of_encN _ (valid_encsOk p hv b hb) _ _ hN⟩) ⟨[], none, none, none⟩
  rw [h1]; simp only [Except.map]
  congr 1
  apply c2_ext
  intro f
  rw [toC2_get, hf f, normalise_get]
  cases f <;> rfl

/-- reference decoder on any message whose placements hold admissible encodings -/
theorem refdecode_of_placed (p : Program) (hv : valid p = true) (c2 : C2Data) (http : Http)
    (hP : Placed c2 http p) :
    Ref.decode p http ⟨none, none, none⟩ = some (normalise p c2) := by
  obtain ⟨out, h1, hf⟩ := refdecode_placed http (payload c2) p
    (fun b hb => by
      obtain ⟨v, hl, hN⟩ := hP b hb
      exact ⟨v, hl, refDecChain_of_encN _ (valid_encsOk p hv b hb) _ _ hN⟩) ⟨none, none, none⟩
  rw [h1]
  congr 1
  apply c2_ext
  intro f
  rw [hf f, normalise_get]
  cases f <;> rfl

theorem decStep_intForm (e : Enc) (v : Bytes) : C04.decStep (intForm e) v = C04.decStep e v := by
  cases e with
  | append a => cases a <;> rfl
  | prepend a => cases a <;> rfl
  | _ => rfl

theorem decChain_intForm (es : List Enc) (v : Bytes) : decChain (es.map intForm) v = decChain es v := by
  induction es generalizing v with
  | nil => rfl
  | cons e es ih =>
    simp only [List.map_cons, decChain, decStep_intForm]
    cases C04.decStep e v with
    | error err => rfl
    | ok w => simpa [Except.bind] using ih w

/-! ### constructor -/

theorem mk_rsteps (steps : List Step) (rev : Bool) (build : Option (Option Field)) :
    (mkTransform steps rev build).rsteps = (mkTransform steps rev build).tsteps.reverse := by
  cases rev <;> cases build <;> simp [mkTransform]

theorem mk_client (steps : List Step) : (mkTransform steps false none).tsteps = steps := rfl

theorem mk_server (es : List Enc) :
    (mkTransform (serverSteps es) true (some (some .output))).tsteps
      = compile [.block ⟨.output, es.map intForm, .print⟩] := by
  simp [mkTransform, serverSteps, compile, Block.toSteps, List.map_map, Function.comp_def]

end C04

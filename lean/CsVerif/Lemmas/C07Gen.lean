import CsVerif.Model.C07Gen
import CsVerif.Lemmas.C16Gen
import CsVerif.Lemmas.C04Gen
import CsVerif.Lemmas.C05Gen
import CsVerif.Lemmas.C06Gen
/-!
Helper lemmas for `Props/C07Gen.lean`: the definition translated from the source of `C2Http.get_transform_for_http` on message
objects and on raw bytes (through the translated `parse_raw_http`, `Lemmas/C16Gen.lean`), and the translated constructor `C2Http.__init__` against
`C07.mkDecoder` (`gen_c2http_init_proof`; the constructor calls of `HttpDataTransform` through `Lemmas/C04Gen.lean`, the key derivation
through `Lemmas/C05Gen.lean`), and the translated generator `C2Http.iter_recover_http` against `C07.iterRecoverHttp`
(`gen_iter_recover_http_proof`; `transform.recover` through `Lemmas/C04Gen.lean`, `decrypt_metadata` through `Lemmas/C06Gen.lean`,
`decrypt_packet` through `Lemmas/C05Gen.lean`, `parse_raw_http` through `Lemmas/C16Gen.lean`).  No property statements here.
-/
namespace C07Gen
open PyU (V)
open C07

theorem prefixAny_bytes (u : Bytes) (uris : List Bytes) :
    PyU.t07PrefixAny (.bytes u) (uris.map .bytes) = .ok (startsWithAny u uris) := by
  induction uris with
  | nil => rfl
  | cons p ps ih =>
    simp only [List.map, PyU.t07PrefixAny, PyU.t07Prefix1, startsWithAny, List.any_cons]
    cases hp : p.isPrefixOf u
    · simp only [ih, startsWithAny, Bool.false_or]
    · rfl

theorem startswith_tuple (u : Bytes) (uris : List Bytes) :
    PyU.t07Startswith (.bytes u) (.tuple (uris.map .bytes)) = .ok (.bool (startsWithAny u uris)) := by
  simp only [PyU.t07Startswith, prefixAny_bytes]; rfl

theorem startswith_bytes (u p : Bytes) : PyU.t07Startswith (.bytes u) (.bytes p) = .ok (.bool (p.isPrefixOf u)) := rfl

theorem reprText_bind {α : Type} (v : V) (k : Py α) : (PyU.t07ReprText v >>= fun _ => k) = k := by
  unfold PyU.t07ReprText
  cases PyU.repr v <;> rfl

/-- the request branch: any object of class `HttpRequest` whose `method` / `uri` are `bytes` -/
theorem gen_get_transform_for_http_request (us : V → Py V) (pq : V → V → Py V) (cfg : HttpCfg) (tg ts tr : V) (o : Rest) (m u : Bytes) (p h b : V) :
    Gen.PyC2H.get_transform_for_http us pq (encSelf cfg tg ts tr o) (.inst Gen.PyC2U.HttpRequest [.bytes m, .bytes u, p, h, b]) =
      match routeRequest cfg m u with
      | some rt => .ok (pick tg ts tr rt)
      | none => .error .valueError := by
  have hb : PyU.isInstance (V.inst Gen.PyC2U.HttpRequest [.bytes m, .bytes u, p, h, b]) [PyU.Ty.bytes] = false := rfl
  have hr : PyU.isInstance (V.inst Gen.PyC2U.HttpRequest [.bytes m, .bytes u, p, h, b]) [PyU.Ty.cls Gen.PyC2U.HttpRequest] = true := rfl
  have a1 : PyU.getAttr (V.inst Gen.PyC2U.HttpRequest [.bytes m, .bytes u, p, h, b]) "method" = .ok (.bytes m) := rfl
  have a2 : PyU.getAttr (V.inst Gen.PyC2U.HttpRequest [.bytes m, .bytes u, p, h, b]) "uri" = .ok (.bytes u) := rfl
  have s1 : PyU.getAttr (encSelf cfg tg ts tr o) "get_verb" = .ok (.bytes cfg.getVerb) := rfl
  have s2 : PyU.getAttr (encSelf cfg tg ts tr o) "get_uris" = .ok (.tuple (cfg.getUris.map .bytes)) := rfl
  have s3 : PyU.getAttr (encSelf cfg tg ts tr o) "submit_verb" = .ok (.bytes cfg.submitVerb) := rfl
  have s4 : PyU.getAttr (encSelf cfg tg ts tr o) "submit_uri" = .ok (.bytes cfg.submitUri) := rfl
  have s5 : PyU.getAttr (encSelf cfg tg ts tr o) "transform_get" = .ok tg := rfl
  have s6 : PyU.getAttr (encSelf cfg tg ts tr o) "transform_submit" = .ok ts := rfl
  have e1 : PyU.eq (.bytes m) (.bytes cfg.getVerb) = (m == cfg.getVerb) := rfl
  have e2 : PyU.eq (.bytes m) (.bytes cfg.submitVerb) = (m == cfg.submitVerb) := rfl
  unfold Gen.PyC2H.get_transform_for_http
  simp only [hb, hr, a1, a2, s1, s2, s3, s4, s5, s6, e1, e2, startswith_tuple, startswith_bytes, PyRt.ok_bind, Bool.false_eq_true, if_false, if_true]
  simp only [reprText_bind, routeRequest]
  cases h1 : (m == cfg.getVerb) <;> cases h2 : startsWithAny u cfg.getUris <;> cases h3 : (m == cfg.submitVerb) <;>
    cases h4 : cfg.submitUri.isPrefixOf u <;> rfl


/-- the response branch: any object of class `HttpResponse` -/
theorem gen_get_transform_for_http_response (us : V → Py V) (pq : V → V → Py V) (cfg : HttpCfg) (tg ts tr : V) (o : Rest) (a b c d e : V) :
    Gen.PyC2H.get_transform_for_http us pq (encSelf cfg tg ts tr o) (.inst Gen.PyC2U.HttpResponse [a, b, c, d, e]) = .ok tr := by
  have hb : PyU.isInstance (V.inst Gen.PyC2U.HttpResponse [a, b, c, d, e]) [PyU.Ty.bytes] = false := rfl
  have hr : PyU.isInstance (V.inst Gen.PyC2U.HttpResponse [a, b, c, d, e]) [PyU.Ty.cls Gen.PyC2U.HttpRequest] = false := rfl
  have hs : PyU.isInstance (V.inst Gen.PyC2U.HttpResponse [a, b, c, d, e]) [PyU.Ty.cls Gen.PyC2U.HttpResponse] = true := rfl
  have s7 : PyU.getAttr (encSelf cfg tg ts tr o) "transform_response" = .ok tr := rfl
  unfold Gen.PyC2H.get_transform_for_http
  simp only [hb, hr, hs, s7, Bool.false_eq_true, if_false, if_true]

/-- message objects -/
theorem gen_msg (us : V → Py V) (pq : V → V → Py V) (cfg : HttpCfg) (tg ts tr : V) (o : Rest) (status reason request : V) (h : C04.Http) :
    Gen.PyC2H.get_transform_for_http us pq (encSelf cfg tg ts tr o) (C04Gen.encHttp status reason request h) =
      (routeInput cfg (.msg h)).map (pick tg ts tr) := by
  cases h with
  | request r =>
    simp only [C04Gen.encHttp, C04Gen.encReq, gen_get_transform_for_http_request, routeInput, routeHttp]
    cases routeRequest cfg r.method r.uri <;> rfl
  | response hs b =>
    simp only [C04Gen.encHttp, gen_get_transform_for_http_response, routeInput, routeHttp]
    rfl

/-- raw bytes -/
theorem gen_raw (cfg : HttpCfg) (tg ts tr : V) (o : Rest) (d : Bytes) :
    Gen.PyC2H.get_transform_for_http C16Gen.urlsplitX C16Gen.parseQslX (encSelf cfg tg ts tr o) (.bytes d) =
      (routeInput cfg (.raw d)).map (pick tg ts tr) := by
  have hb : PyU.isInstance (V.bytes d) [PyU.Ty.bytes] = true := rfl
  cases hp : C16.parseRawHttp d with
  | error e =>
    unfold Gen.PyC2H.get_transform_for_http
    simp only [hb, if_true, C16Gen.gen_parse_raw_http_proof, hp, routeInput]
    rfl
  | ok msg =>
    cases msg with
    | request m u ps hs b =>
      have key := gen_get_transform_for_http_request C16Gen.urlsplitX C16Gen.parseQslX cfg tg ts tr o m u (C16Gen.encDict ps) (C16Gen.encDict hs) (.bytes b)
      have hb' : PyU.isInstance (V.inst Gen.PyC2U.HttpRequest [.bytes m, .bytes u, C16Gen.encDict ps, C16Gen.encDict hs, .bytes b]) [PyU.Ty.bytes] = false := rfl
      unfold Gen.PyC2H.get_transform_for_http at key ⊢
      simp only [hb, hb', if_true, C16Gen.gen_parse_raw_http_proof, hp, Except.map, C16Gen.encMsg, PyRt.ok_bind, Bool.false_eq_true, if_false] at key ⊢
      rw [key]
      simp only [routeInput, hp, msgToHttp, routeHttp]
      cases routeRequest cfg m u <;> rfl
    | response st r hs b =>
      have key := gen_get_transform_for_http_response C16Gen.urlsplitX C16Gen.parseQslX cfg tg ts tr o (.int st) (C16Gen.encDict hs) (.bytes r) (.bytes b) .none
      have hb' : PyU.isInstance (V.inst Gen.PyC2U.HttpResponse [.int st, C16Gen.encDict hs, .bytes r, .bytes b, .none]) [PyU.Ty.bytes] = false := rfl
      unfold Gen.PyC2H.get_transform_for_http at key ⊢
      simp only [hb, hb', if_true, C16Gen.gen_parse_raw_http_proof, hp, Except.map, C16Gen.encMsg, PyRt.ok_bind, Bool.false_eq_true, if_false] at key ⊢
      rw [key]
      simp only [routeInput, hp, msgToHttp, routeHttp]
      rfl

/-- any other kind of object: ValueError -/
theorem gen_other (us : V → Py V) (pq : V → V → Py V) (self http : V)
    (h : PyU.isInstance http [PyU.Ty.bytes, PyU.Ty.cls Gen.PyC2U.HttpRequest, PyU.Ty.cls Gen.PyC2U.HttpResponse] = false) :
    Gen.PyC2H.get_transform_for_http us pq self http = .error .valueError := by
  simp only [PyU.isInstance, List.any_cons, List.any_nil, Bool.or_false, Bool.or_eq_false_iff] at h
  obtain ⟨h1, h2, h3⟩ := h
  have hb : PyU.isInstance http [PyU.Ty.bytes] = false := by simp [PyU.isInstance, h1]
  have hr : PyU.isInstance http [PyU.Ty.cls Gen.PyC2U.HttpRequest] = false := by simp [PyU.isInstance, h2]
  have hs : PyU.isInstance http [PyU.Ty.cls Gen.PyC2U.HttpResponse] = false := by simp [PyU.isInstance, h3]
  unfold Gen.PyC2H.get_transform_for_http
  simp only [hb, hr, hs, Bool.false_eq_true, if_false, reprText_bind]
  rfl

/-- the model's `get_transform_for_http` is the routing decision followed by the choice of the transform -/
theorem model_routeInput (cfg : HttpCfg) (inp : Input) :
    getTransformForHttp cfg inp = ofPy ((routeInput cfg inp).map (transformOf cfg)) := by
  cases inp with
  | raw d =>
    simp only [getTransformForHttp, parseInput, routeInput]
    cases C16.parseRawHttp d with
    | error e => rfl
    | ok m =>
      simp only [ofPy, Except.map]
      cases routeHttp cfg (msgToHttp m) <;> rfl
  | msg h =>
    simp only [getTransformForHttp, parseInput, routeInput]
    cases routeHttp cfg h <;> rfl

/-! ### the constructor -/

open C04Gen (lift_ok lift_err okA_bind errA_bind pureA_ok throwA encOB)

theorem truthy_encOB (o : Option Bytes) : PyU.truthy (encOB o) = C07.truthy o := by
  cases o with
  | none => rfl
  | some b => cases b <;> rfl

theorem truthy_encPriv (o : Option Int) : PyU.truthy (encPriv o) = o.isSome := by
  cases o <;> rfl

theorem any3 (ak ar : Option Bytes) (p : Option Int) :
    PyU.t07Any (.list [encOB ak, encOB ar, encPriv p]) = .ok (.bool (C07.truthy ak || C07.truthy ar || p.isSome)) := by
  simp [PyU.t07Any, PyU.iterList, Except.map, truthy_encOB, truthy_encPriv, Bool.or_assoc]

theorem isNone_encOB (o : Option Bytes) : PyU.isNone (encOB o) = o.isNone := by cases o <;> rfl

theorem eq_len16 (b : Bytes) : PyU.eq (.int (b.length : Int)) (.int 16) = (b.length == 16) := by
  simp only [PyU.eq]
  rw [Bool.eq_iff_iff]
  simp only [beq_iff_eq]
  omega

theorem reprText_bindA {α : Type} (v : V) (k : PyU.PyA α) :
    ((liftM (PyU.t07ReprText v) : PyU.PyA PyRt.Str) >>= fun _ => k) = k := by
  unfold PyU.t07ReprText
  cases PyU.repr v <;> rfl

theorem truthy_bool (b : Bool) : PyU.truthy (.bool b) = b := rfl

theorem mkDict_nil : PyU.mkDict [] = .ok (.dict [] []) := rfl
theorem len_bytes (b : Bytes) : PyU.len (.bytes b) = .ok (.int (b.length : Int)) := rfl
theorem getAttr_bc_pk (s u p t : V) : PyU.getAttr (encBConfig s u p t) "public_key" = .ok p := rfl
theorem getAttr_bc_trial (s u p t : V) : PyU.getAttr (encBConfig s u p t) "is_trial" = .ok t := rfl
theorem getAttr_bc_settings (s u p t : V) : PyU.getAttr (encBConfig s u p t) "settings" = .ok s := rfl
theorem getAttr_bc_uris (s u p t : V) : PyU.getAttr (encBConfig s u p t) "uris" = .ok u := rfl
theorem getAttr_key_n (n : Int) : PyU.getAttr (encKey n) "n" = .ok (.int n) := rfl
theorem eq_int (a b : Int) : PyU.eq (.int a) (.int b) = (a == b) := rfl
theorem encodeUtf8_str (s : PyRt.Str) (b : Bytes) (h : PyU.utf8Enc s = .ok b) : PyU.encodeUtf8 (.str s) = .ok (.bytes b) := by
  simp [PyU.encodeUtf8, h, Except.map]

theorem comp_uris (d i : V → Py V) : ∀ (uris : List PyRt.Str) (bs : List Bytes) (acc : List V), encodeAll uris = .ok bs →
    PyU.forList (uris.map .str) (Gen.PyC2H.__init___comp1 d i) (.list acc) = .ok (.list (acc ++ bs.map .bytes))
  | [], bs, acc, h => by
    simp only [encodeAll] at h
    injection h with h; subst h
    simp [PyU.forList]
  | u :: us, bs, acc, h => by
    simp only [encodeAll] at h
    cases hu : PyU.utf8Enc u with
    | error e => rw [hu] at h; cases h
    | ok b =>
      rw [hu] at h
      cases hr : encodeAll us with
      | error e => rw [hr] at h; cases h
      | ok bs' =>
        rw [hr] at h
        simp only [Except.map] at h
        injection h with h; subst h
        have step : Gen.PyC2H.__init___comp1 d i (.str u) (.list acc) = .ok (PyU.Ctl.cont, .list (acc ++ [.bytes b])) := by
          unfold Gen.PyC2H.__init___comp1
          simp only [encodeUtf8_str u b hu, lift_ok, okA_bind, PyU.append]
          rfl
        simp only [List.map, PyU.forList, step]
        have ih := comp_uris d i us bs' (acc ++ [.bytes b]) hr
        rw [ih]
        simp

/-- the `is not None and len(·) != 16` test of one key, with the rest of the function as `K` -/
theorem keyfrag (o : Option Bytes) (K : PyU.PyA V) :
    (if (!PyU.isNone (encOB o)) = true then do
        let t4 ← (liftM (PyU.len (encOB o)) : PyU.PyA V)
        if (!PyU.eq t4 (V.int 16)) = true then do
            let _ ← (liftM (PyU.t07ReprText (encOB o)) : PyU.PyA PyRt.Str)
            throw (PyU.ExcA.py PyExc.valueError)
            K
          else K
      else
        if (!PyU.isNone (encOB o)) = true then do
          let _ ← (liftM (PyU.t07ReprText (encOB o)) : PyU.PyA PyRt.Str)
          throw (PyU.ExcA.py PyExc.valueError)
          K
        else K) = if o.any (·.length != 16) then .error (.py .valueError) else K := by
  cases o with
  | none => rfl
  | some a =>
    have e2 : encOB (some a) = V.bytes a := rfl
    have i2 : PyU.isNone (V.bytes a) = false := rfl
    simp only [e2, i2, Bool.not_false, if_true, len_bytes, lift_ok, okA_bind, eq_len16, reprText_bindA, Option.any_some]
    by_cases ha : a.length = 16
    · simp [ha]
    · simp [ha, throwA, errA_bind]

set_option hygiene false in
/-- the part of the proof behind the key derivation, for the keys `k1 k2` the instance holds at that point -/
macro "init_tail" : tactic => `(tactic| (
    simp only [keyfrag, encInitResult]
    by_cases h1 : k1.any (·.length != 16) = true
    · simp only [h1, if_true, encExcA]
    simp only [h1, if_false]
    by_cases h2 : k2.any (·.length != 16) = true
    · simp only [h2, if_true, encExcA, Bool.false_eq_true, if_false]
    simp only [h2, if_false, getAttr_bc_pk, lift_ok, okA_bind]
    cases pubOk with
    | false => simp [importKeyX, lift_err, errA_bind, encExcA]
    | true =>
      simp only [if_true, importKeyX, lift_ok, okA_bind, Bool.not_true, Bool.false_eq_true, if_false, truthy_encPriv,
        getAttr_bc_trial, truthy_bool]
      cases privN with
      | none =>
        simp only [Option.isSome_none, Bool.false_eq_true, if_false, Option.map_none]
        cases trial with
        | true => simp [throwA, errA_bind, encExcA]
        | false =>
          simp only [Bool.false_eq_true, if_false, getAttr_bc_settings, getAttr_bc_uris, lift_ok, okA_bind, hsu, hvp, hvg, hpo, hrq, hrc,
            encodeUtf8_str _ _ esu, encodeUtf8_str _ _ evp, encodeUtf8_str _ _ evg, PyU.iterList,
            comp_uris _ _ uris cfg.getUris [] eur, List.nil_append, PyU.tupleOf, Except.map,
            C04Gen.gen_http_data_transform_init_proof, mkDict_nil, pureA_ok]
          rfl
      | some n =>
        have hp : encPriv (some n) = encKey n := rfl
        simp only [Option.isSome_some, if_true, hp, getAttr_key_n, lift_ok, okA_bind, eq_int, Option.map_some]
        by_cases hn : (n == npub) = true
        · simp only [hn, Bool.not_true, Bool.false_eq_true, if_false]
          have : (some true == some false) = false := rfl
          simp only [this, Bool.false_eq_true, if_false]
          cases trial with
          | true => simp [throwA, errA_bind, encExcA]
          | false =>
            simp only [Bool.false_eq_true, if_false, getAttr_bc_settings, getAttr_bc_uris, lift_ok, okA_bind, hsu, hvp, hvg, hpo, hrq, hrc,
              encodeUtf8_str _ _ esu, encodeUtf8_str _ _ evp, encodeUtf8_str _ _ evg, PyU.iterList,
              comp_uris _ _ uris cfg.getUris [] eur, List.nil_append, PyU.tupleOf, Except.map,
              C04Gen.gen_http_data_transform_init_proof, mkDict_nil, pureA_ok]
            rfl
        · have hn' : (n == npub) = false := Bool.eq_false_iff.mpr hn
          have fa : ∀ v : Int, ∃ s, PyU.t07FmtAltHex (V.int v) = .ok s := by
            intro v; simp only [PyU.t07FmtAltHex, PyU.asInt]; split <;> exact ⟨_, rfl⟩
          obtain ⟨s1, e1⟩ := fa n
          obtain ⟨s2, e2⟩ := fa npub
          have : (some false == some false) = true := rfl
          simp only [hn', Bool.not_false, if_true, e1, e2, lift_ok, okA_bind, throwA, errA_bind, this, encExcA]))

theorem gen_c2http_init_proof (c : C07.Crypto) (cfg : HttpCfg) (ak hk ar : Option Bytes) (privN : Option Int) (verify : Bool)
    (npub : Int) (pubOk trial : Bool) (settings pubkeyV : V) (su vp vg : PyRt.Str) (uris : List PyRt.Str) (postVs reqVs recVs : List V)
    (hsu : PyU.getItem settings (PyU.lit "SETTING_SUBMITURI") = .ok (.str su))
    (hvp : PyU.getItem settings (PyU.lit "SETTING_C2_VERB_POST") = .ok (.str vp))
    (hvg : PyU.getItem settings (PyU.lit "SETTING_C2_VERB_GET") = .ok (.str vg))
    (hpo : PyU.getItem settings (PyU.lit "SETTING_C2_POSTREQ") = .ok (.list postVs))
    (hrq : PyU.getItem settings (PyU.lit "SETTING_C2_REQUEST") = .ok (.list reqVs))
    (hrc : PyU.getItem settings (PyU.lit "SETTING_C2_RECOVER") = .ok (.list recVs))
    (esu : PyU.utf8Enc su = .ok cfg.submitUri) (evp : PyU.utf8Enc vp = .ok cfg.submitVerb) (evg : PyU.utf8Enc vg = .ok cfg.getVerb)
    (eur : encodeAll uris = .ok cfg.getUris) :
    initG c.asym.sha256 (if pubOk then some (encKey npub) else none)
        (encBConfig settings (.list (uris.map .str)) pubkeyV (.bool trial)) (encOB ak) (encOB hk) (encOB ar) (encPriv privN) (.bool verify)
      = encInitResult cfg (encBConfig settings (.list (uris.map .str)) pubkeyV (.bool trial)) verify npub privN postVs reqVs recVs
          (mkDecoder c cfg ⟨ak, hk, ar, privN.map (· == npub), verify⟩ pubOk trial) := by
  unfold initG Gen.PyC2H.c2http_init mkDecoder
  simp only [truthy_encOB, any3, lift_ok, okA_bind, truthy_bool, Option.isSome_map]
  by_cases hA : (C07.truthy ar && C07.truthy ak) = true
  · simp only [hA, if_true, throwA, errA_bind, encInitResult, encExcA]
  have hA' : (C07.truthy ar && C07.truthy ak) = false := Bool.eq_false_iff.mpr hA
  simp only [hA', Bool.false_eq_true, if_false]
  by_cases hB : (C07.truthy ak || C07.truthy ar || privN.isSome) = true
  · simp only [hB, Bool.not_true, Bool.false_eq_true, if_false]
    by_cases har : C07.truthy ar = true
    · -- keys derived from `aes_rand`
      obtain ⟨r, rfl⟩ : ∃ r, ar = some r := by
        cases ar with
        | none => cases har
        | some r => exact ⟨r, rfl⟩
      have hd : deriveX c.asym.sha256 (encOB (some r)) =
          .ok (.tuple [.bytes ((c.asym.sha256 r).take 16), .bytes ((c.asym.sha256 r).drop 16)]) := by
        simp only [deriveX, encOB, C05Gen.derive_eq, Except.map]
      have hu : ∀ a b : V, PyU.unpack2 (.tuple [a, b]) = .ok (a, b) := fun _ _ => rfl
      simp only [har, if_true, hd, hu, lift_ok, okA_bind, C06.deriveKeys, Option.getD_some]
      have e1 : V.bytes ((c.asym.sha256 r).take 16) = encOB (some ((c.asym.sha256 r).take 16)) := rfl
      have e2 : V.bytes ((c.asym.sha256 r).drop 16) = encOB (some ((c.asym.sha256 r).drop 16)) := rfl
      rw [e1, e2]
      generalize hk1 : (some ((c.asym.sha256 r).take 16) : Option Bytes) = k1
      generalize hk2 : (some ((c.asym.sha256 r).drop 16) : Option Bytes) = k2
      init_tail
    · have har' : C07.truthy ar = false := Bool.eq_false_iff.mpr har
      simp only [har', Bool.false_eq_true, if_false]
      generalize hk1 : ak = k1
      generalize hk2 : hk = k2
      init_tail
  · have hB' : (C07.truthy ak || C07.truthy ar || privN.isSome) = false := Bool.eq_false_iff.mpr hB
    simp only [hB', Bool.not_false, if_true, throwA, errA_bind, encInitResult, encExcA]
/-! ### `iter_recover_http`: unrelated requests -/

/-- an unrelated request object ends the translated generator with ValueError before anything else happens: whatever the
instance's other attributes, the `keys` argument and the external functions are -/
theorem gen_iter_recover_http_unrelated_msg (us : V → Py V) (pq : V → V → Py V) (b64 ub64 : V → Py V) (rsa : V → V → V → Py V) (der ipk : V → Py V)
    (dps : V → V → V → Py V) (cbp tkp : V → Py V)
    (cfg : HttpCfg) (tg ts tr : V) (o : Rest) (keys : V) (r : C04.Req) (h : routeRequest cfg r.method r.uri = none) :
    Gen.PyC2H.iter_recover_http us pq b64 ub64 rsa der ipk dps cbp tkp (encSelf cfg tg ts tr o) (C04Gen.encReq r) keys
      = .error (.py .valueError) := by
  have hb : PyU.isInstance (C04Gen.encReq r) [PyU.Ty.bytes] = false := rfl
  have hg := gen_msg us pq cfg tg ts tr o .none .none .none (.request r)
  simp only [C04Gen.encHttp, routeInput, routeHttp, h] at hg
  unfold Gen.PyC2H.iter_recover_http
  have hk : PyU.getAttr (encSelf cfg tg ts tr o) "beacon_keys" = .ok o.beacon_keys := rfl
  simp only [hb, Bool.false_eq_true, if_false, hg, hk, Except.map, lift_ok, lift_err, okA_bind, errA_bind]
  split <;> rfl

/-- raw bytes that parse to an unrelated request: the same -/
theorem gen_iter_recover_http_unrelated_raw (b64 ub64 : V → Py V) (rsa : V → V → V → Py V) (der ipk : V → Py V)
    (dps : V → V → V → Py V) (cbp tkp : V → Py V)
    (cfg : HttpCfg) (tg ts tr : V) (o : Rest) (keys : V) (r : C04.Req) (data : Bytes)
    (hp : C16.parseRawHttp data = .ok (.request r.method r.uri r.params r.headers r.body))
    (h : routeRequest cfg r.method r.uri = none) :
    Gen.PyC2H.iter_recover_http C16Gen.urlsplitX C16Gen.parseQslX b64 ub64 rsa der ipk dps cbp tkp (encSelf cfg tg ts tr o) (.bytes data) keys
      = .error (.py .valueError) := by
  have hb : PyU.isInstance (V.bytes data) [PyU.Ty.bytes] = true := rfl
  have key := gen_iter_recover_http_unrelated_msg C16Gen.urlsplitX C16Gen.parseQslX b64 ub64 rsa der ipk dps cbp tkp cfg tg ts tr o keys r h
  have hb' : PyU.isInstance (C04Gen.encReq r) [PyU.Ty.bytes] = false := rfl
  have he : C16Gen.encMsg (.request r.method r.uri r.params r.headers r.body) = C04Gen.encReq r := rfl
  unfold Gen.PyC2H.iter_recover_http at key ⊢
  simp only [hb, hb', if_true, C16Gen.gen_parse_raw_http_proof, hp, Except.map, he, lift_ok, okA_bind, Bool.false_eq_true, if_false] at key ⊢
  exact key
/-! ### `iter_recover_http` against `C07.iterRecoverHttp` -/

theorem optBytes_encOB (o : Option Bytes) : optBytes? (encOB o) = some o := by cases o <;> rfl

theorem dps_eq (c : C05.Crypto) (p : C05.Packet) (verify : Bool) (k : Keys) :
    decryptPacketStarX c (encPacket p) (.bool verify) (keysV k) =
      (C05.decryptPacket c p k.aesKey k.hmacKey k.iv verify).map .bytes := by
  simp only [decryptPacketStarX, encPacket, keysV, optBytes_encOB]
  have : (Gen.PyC2H.BeaconKeys.isTuple && Gen.PyC2H.BeaconKeys.fields == ["aes_key", "hmac_key", "iv"]) = true := by decide
  simp only [this, if_true, C05Gen.decrypt_packet_eq]
  rfl

/-- one run of the loop body -/
theorem loop_step (us : V → Py V) (pq : V → V → Py V) (b64 ub64 : V → Py V) (rsa : V → V → V → Py V) (der ipk : V → Py V)
    (c : Crypto) (self c2data : V) (k : Keys) (verify isReq : Bool)
    (hv : PyU.getAttr self "verify_hmac" = .ok (.bool verify))
    (h1 : PyU.isInstance c2data [PyU.Ty.cls Gen.PyC2U.ClientC2Data] = isReq)
    (h2 : PyU.isInstance c2data [PyU.Ty.cls Gen.PyC2U.ServerC2Data] = !isReq) (p : C05.Packet) (ys : List V) :
    Gen.PyC2H.iter_recover_http_loop1 us pq b64 ub64 rsa der ipk (decryptPacketStarX c.sym) callbackPacketX taskPacketX self (keysV k)
        c2data (encPacket p) (V.list ys)
      = match (C05.decryptPacketT c.sym p k.aesKey k.hmacKey k.iv verify).1 with
        | .error e => .error (.py e)
        | .ok pt =>
          match parseItem isReq pt with
          | .error e => .error (.py e)
          | .ok it => .ok (PyU.Ctl.cont, V.list (ys ++ [encItem it])) := by
  unfold Gen.PyC2H.iter_recover_http_loop1
  simp only [hv, lift_ok, okA_bind, dps_eq, C05.decryptPacket]
  cases hd : (C05.decryptPacketT c.sym p k.aesKey k.hmacKey k.iv verify).1 with
  | error e => rfl
  | ok pt =>
    simp only [Except.map, lift_ok, okA_bind, h1, h2, parseItem]
    cases isReq with
    | true =>
      simp only [if_true, callbackPacketX]
      cases hc : parseCallback pt with
      | error e => rfl
      | ok cb => rfl
    | false =>
      simp only [Bool.false_eq_true, if_false, Bool.not_false, if_true, taskPacketX]
      cases hc : parseTask pt with
      | error e => rfl
      | ok t => rfl

/-- the packet loop of the translated generator against `decodePackets` -/
theorem loop_packets (us : V → Py V) (pq : V → V → Py V) (b64 ub64 : V → Py V) (rsa : V → V → V → Py V) (der ipk : V → Py V)
    (c : Crypto) (self c2data : V) (k : Keys) (verify isReq : Bool)
    (hv : PyU.getAttr self "verify_hmac" = .ok (.bool verify))
    (h1 : PyU.isInstance c2data [PyU.Ty.cls Gen.PyC2U.ClientC2Data] = isReq)
    (h2 : PyU.isInstance c2data [PyU.Ty.cls Gen.PyC2U.ServerC2Data] = !isReq) :
    ∀ (ps : List C05.Packet) (ys : List V),
      PyU.forList (ps.map encPacket)
          (Gen.PyC2H.iter_recover_http_loop1 us pq b64 ub64 rsa der ipk (decryptPacketStarX c.sym) callbackPacketX taskPacketX self (keysV k) c2data)
          (V.list ys)
        = match (decodePackets c k verify isReq ps).exc with
          | none => .ok (.list (ys ++ (decodePackets c k verify isReq ps).items.map encItem))
          | some e => .error (encExcA e)
  | [], ys => by simp [PyU.forList, decodePackets]
  | p :: ps, ys => by
    have ih := loop_packets us pq b64 ub64 rsa der ipk c self c2data k verify isReq hv h1 h2 ps
    simp only [List.map, PyU.forList, decodePackets, loop_step us pq b64 ub64 rsa der ipk c self c2data k verify isReq hv h1 h2]
    cases hd : (C05.decryptPacketT c.sym p k.aesKey k.hmacKey k.iv verify).1 with
    | error e => rfl
    | ok pt =>
      dsimp only
      cases hp : parseItem isReq pt with
      | error e => rfl
      | ok it =>
        dsimp only
        rw [ih]
        cases (decodePackets c k verify isReq ps).exc with
        | none => simp
        | some e => rfl


theorem findKey_cache (blob : Bytes) : ∀ cache : List (Bytes × C06.Metadata),
    PyU.findKey (.bytes blob) (cache.map fun p => V.bytes p.1) (cache.map fun p => C06Gen.encMeta p.2) =
      (cache.lookup blob).map C06Gen.encMeta
  | [] => rfl
  | (k, m) :: rest => by
    have ke : PyU.keyEq (.bytes blob) (.bytes k) = (blob == k) := by simp [PyU.keyEq, PyU.eq]
    simp only [List.map, PyU.findKey, ke, List.lookup]
    cases hb : (blob == k) with
    | true => rfl
    | false => simpa using findKey_cache blob rest

theorem dictGet_cache (cache : List (Bytes × C06.Metadata)) (blob : Bytes) :
    PyU.dictGet (encCache cache) (.bytes blob) .none =
      .ok (match cache.lookup blob with | some m => C06Gen.encMeta m | none => .none) := by
  have hh : PyU.hashable (V.bytes blob) = true := rfl
  simp only [PyU.dictGet, encCache, hh, if_true, findKey_cache]
  cases cache.lookup blob <;> rfl

theorem setItem_cache (cache : List (Bytes × C06.Metadata)) (blob : Bytes) (m : C06.Metadata) (h : cache.lookup blob = none) :
    PyU.setItem (encCache cache) (.bytes blob) (C06Gen.encMeta m) = .ok (encCache (cache ++ [(blob, m)])) := by
  have hh : PyU.hashable (V.bytes blob) = true := rfl
  simp only [PyU.setItem, encCache, hh, if_true, PyU.dictInsert, findKey_cache, h, Option.map_none, List.map_append, List.map]

theorem isNone_encMeta (m : C06.Metadata) : PyU.isNone (C06Gen.encMeta m) = false := rfl

theorem truthy_keysV (k : Keys) : PyU.truthy (keysV k) = true := rfl

theorem resultCls_eq (h : C04.Http) : C04Gen.resultCls h = clsOf (isRequest h) := by cases h <;> rfl

theorem iterPacketsX_enc (isReq : Bool) (c2 : C04.C2Data) :
    iterPacketsX (C04Gen.encC2 (clsOf isReq) c2) =
      .ok (.tuple [.list ((frames isReq c2.output).1.map encPacket), encExcCode (frames isReq c2.output).2]) := by
  cases isReq <;> cases ho : c2.output <;> simp [iterPacketsX, C04Gen.encC2, C04Gen.encOB, clsOf, frames, ho] <;> rfl

theorem packets_tail (c : Crypto) (k : Keys) (verify isReq : Bool) (c2 : C04.C2Data) (ys : List V) (self' : V)
    (hv : PyU.getAttr self' "verify_hmac" = .ok (.bool verify)) :
    (do
      let t30 ← (liftM (iterPacketsX (C04Gen.encC2 (clsOf isReq) c2)) : PyU.PyA V)
      let t31 ← (liftM (PyU.getItem t30 (V.int 0)) : PyU.PyA V)
      let t32 ← (liftM (PyU.iterList t31) : PyU.PyA (List V))
      let t38 ←
        PyU.forList t32
            (Gen.PyC2H.iter_recover_http_loop1 C16Gen.urlsplitX C16Gen.parseQslX C04Gen.b64decodeX
              C04Gen.urlsafeB64decodeX (C06Gen.decX c.asym) (deriveX c.asym.sha256) iterPacketsX
              (decryptPacketStarX c.sym) callbackPacketX taskPacketX self' (keysV k)
              (C04Gen.encC2 (clsOf isReq) c2))
            (V.list ys)
      let t39 ← (liftM (PyU.getItem t30 (V.int 1)) : PyU.PyA V)
      let _ ← (liftM (PyU.t07Reraise t39) : PyU.PyA V)
      pure (V.tuple [t38, self'])) = packResult c k verify isReq c2.output ys self' := by
  have h1 : PyU.isInstance (C04Gen.encC2 (clsOf isReq) c2) [PyU.Ty.cls Gen.PyC2U.ClientC2Data] = isReq := by cases isReq <;> rfl
  have h2 : PyU.isInstance (C04Gen.encC2 (clsOf isReq) c2) [PyU.Ty.cls Gen.PyC2U.ServerC2Data] = !isReq := by cases isReq <;> rfl
  have g0 : ∀ a b : V, PyU.getItem (.tuple [a, b]) (V.int 0) = .ok a := fun _ _ => rfl
  have g1 : ∀ a b : V, PyU.getItem (.tuple [a, b]) (V.int 1) = .ok b := fun _ _ => rfl
  simp only [iterPacketsX_enc, lift_ok, okA_bind, g0, g1, PyU.iterList,
    loop_packets C16Gen.urlsplitX C16Gen.parseQslX C04Gen.b64decodeX C04Gen.urlsafeB64decodeX (C06Gen.decX c.asym) (deriveX c.asym.sha256)
      iterPacketsX c self' (C04Gen.encC2 (clsOf isReq) c2) k verify isReq hv h1 h2, packResult]
  cases (decodePackets c k verify isReq (frames isReq c2.output).1).exc with
  | some e => rfl
  | none =>
    simp only [okA_bind]
    cases (frames isReq c2.output).2 with
    | none => rfl
    | some e =>
      have : PyU.t07Reraise (encExcCode (some e)) = .error e := by cases e <;> rfl
      simp only [this, lift_err, errA_bind]

theorem setCache (tg ts tr : V) (o : Rest) (privV : V) (d : Decoder) (c' : List (Bytes × C06.Metadata)) :
    PyU.instSetAttr (encDec tg ts tr o privV d) "metadata_cache" (encCache c') = .ok (encDec tg ts tr o privV { d with cache := c' }) :=
  rfl

theorem setKeys (tg ts tr : V) (o : Rest) (privV : V) (d : Decoder) (k' : Keys) :
    PyU.instSetAttr (encDec tg ts tr o privV d) "beacon_keys" (keysV k') = .ok (encDec tg ts tr o privV { d with keys := k' }) :=
  rfl

theorem all2 (a b : Option Bytes) :
    PyU.t07All (.list [encOB a, encOB b]) = .ok (.bool (C07.truthy a && C07.truthy b)) := by
  simp [PyU.t07All, PyU.iterList, Except.map, truthy_encOB]

theorem getAttr_aes_rand (m : C06.Metadata) : PyU.getAttr (C06Gen.encMeta m) "aes_rand" = .ok (.bytes m.aes_rand) := by
  simp only [C06Gen.encMeta, PyU.getAttr, C06Gen.bm_fields, C06Gen.metaVals]; rfl

theorem deriveX_bytes (sha : Bytes → Bytes) (r : Bytes) :
    deriveX sha (.bytes r) = .ok (.tuple [.bytes ((sha r).take 16), .bytes ((sha r).drop 16)]) := by
  simp only [deriveX, C05Gen.derive_eq, Except.map]

theorem pick_ok (cfg : HttpCfg) (tg ts tr : V) (ht : TransformsOk cfg tg ts tr) (rt : Route) :
    ∃ a b, pick tg ts tr rt = C04Gen.encT a b ∧ C04Gen.stepsOf b = some (transformOf cfg rt).rsteps := by
  cases rt with
  | get => exact ht.get
  | submit => exact ht.submit
  | response => exact ht.response

theorem gen_iter_recover_http_msg_keys (c : Crypto) (d : Decoder) (tg ts tr : V) (o : Rest) (privV : V) (hpv : PyU.truthy privV = d.hasPriv)
    (ht : TransformsOk d.cfg tg ts tr) (k : Keys) (status reason request : V) (h : C04.Http) :
    iterRecoverG c (encDec tg ts tr o privV d) (C04Gen.encHttp status reason request h) (keysV k)
      = encOut tg ts tr o privV (iterRecoverMsg c d (some k) h) := by
  have hb : PyU.isInstance (C04Gen.encHttp status reason request h) [PyU.Ty.bytes] = false := by cases h <;> rfl
  have hroute : Gen.PyC2H.get_transform_for_http C16Gen.urlsplitX C16Gen.parseQslX (encDec tg ts tr o privV d)
      (C04Gen.encHttp status reason request h) = (routeInput d.cfg (.msg h)).map (pick tg ts tr) :=
    gen_msg C16Gen.urlsplitX C16Gen.parseQslX d.cfg tg ts tr _ status reason request h
  unfold iterRecoverG Gen.PyC2H.iter_recover_http iterRecoverMsg recoverStage
  simp only [hb, Bool.false_eq_true, if_false, truthy_keysV, Bool.not_true, hroute, routeInput, Option.getD_some]
  cases hr : routeHttp d.cfg h with
  | none => simp only [Except.map, lift_err, errA_bind]; rfl
  | some rt =>
    obtain ⟨a, b, hpick, hsteps⟩ := pick_ok d.cfg tg ts tr ht rt
    have hinst : PyU.isInstance (C04Gen.encT a b) [PyU.Ty.cls Gen.PyC2T.HttpDataTransform] = true := rfl
    simp only [Except.map, lift_ok, okA_bind, hpick, hinst, Bool.not_true, Bool.false_eq_true, if_false,
      C04Gen.gen_recover_proof status reason request a b (transformOf d.cfg rt) hsteps h]
    cases hrec : C04.recover (transformOf d.cfg rt) h with
    | error e => cases e <;> rfl
    | ok c2 =>
      simp only [C04Gen.encR, okA_bind, ofC04, resultCls_eq]
      have gm : PyU.getAttr (C04Gen.encC2 (clsOf (isRequest h)) c2) "metadata" = .ok (encOB c2.metadata) := by
        cases isRequest h <;> rfl
      have gp : PyU.getAttr (encDec tg ts tr o privV d) "priv" = .ok privV := rfl
      have gc : PyU.getAttr (encDec tg ts tr o privV d) "metadata_cache" = .ok (encCache d.cache) := rfl
      have yl : ∀ (l : List V) (x : V), PyU.yieldTo (.list l) x = .list (l ++ [x]) := fun _ _ => rfl
      have hv : ∀ d' : Decoder, d'.verify = d.verify →
          PyU.getAttr (encDec tg ts tr o privV d') "verify_hmac" = .ok (.bool d.verify) := by
        intro d' e; rw [← e]; rfl
      simp only [gm, gp, gc, lift_ok, okA_bind, truthy_encOB, hpv, metadataStep]
      cases h1 : C07.truthy c2.metadata with
      | false =>
        simp only [Bool.false_eq_true, if_false, Bool.and_false, Bool.false_and, Bool.and_true, Bool.true_and,
          packets_tail c k d.verify (isRequest h) c2 [] _ (hv d rfl)]
        simp only [packResult, encOut, List.nil_append]
        cases (decodePackets c k d.verify (isRequest h) (frames (isRequest h) c2.output).1).exc with
        | some e => rfl
        | none => cases (frames (isRequest h) c2.output).2 <;> rfl
      | true =>
        cases h2 : d.hasPriv with
        | false =>
          simp only [Bool.false_eq_true, if_false, Bool.and_false, Bool.false_and, Bool.and_true, Bool.true_and,
            packets_tail c k d.verify (isRequest h) c2 [] _ (hv d rfl)]
          simp only [packResult, encOut, List.nil_append]
          cases (decodePackets c k d.verify (isRequest h) (frames (isRequest h) c2.output).1).exc with
          | some e => rfl
          | none => cases (frames (isRequest h) c2.output).2 <;> rfl
        | true =>
          simp only [if_true, Bool.and_self]
          obtain ⟨blob, hblob⟩ : ∃ blob, c2.metadata = some blob := by
            cases hm : c2.metadata with
            | none => rw [hm] at h1; cases h1
            | some b => exact ⟨b, rfl⟩
          have eb : encOB (some blob) = V.bytes blob := rfl
          have gk : ∀ d' : Decoder, PyU.getAttr (encDec tg ts tr o privV d') "beacon_keys" = .ok (keysV d'.keys) := fun _ => rfl
          have ga : ∀ k' : Keys, PyU.getAttr (keysV k') "aes_key" = .ok (encOB k'.aesKey) := fun _ => rfl
          have gh : ∀ k' : Keys, PyU.getAttr (keysV k') "hmac_key" = .ok (encOB k'.hmacKey) := fun _ => rfl
          have hu : ∀ a b : V, PyU.unpack2 (.tuple [a, b]) = .ok (a, b) := fun _ _ => rfl
          simp only [hblob, eb, dictGet_cache, lift_ok, okA_bind, Option.getD_some]
          cases hl : d.cache.lookup blob with
          | some m =>
            simp only [isNone_encMeta, Bool.false_eq_true, if_false, yl, List.nil_append,
              packets_tail c k d.verify (isRequest h) c2 _ _ (hv d rfl)]
            simp only [packResult, encOut, List.append_nil]
            cases (decodePackets c k d.verify (isRequest h) (frames (isRequest h) c2.output).1).exc with
            | some e => rfl
            | none => cases (frames (isRequest h) c2.output).2 <;> rfl
          | none =>
            have in1 : PyU.isNone V.none = true := rfl
            simp only [in1, if_true, C06Gen.gen_decrypt_metadata_proof]
            cases hdm : C06.decryptMetadata c.asym blob with
            | error e => rfl
            | ok m =>
              simp only [Except.map, lift_ok, okA_bind, setItem_cache d.cache blob m hl, setCache, gk, ga, gh, all2, truthy_bool]
              cases hall : (C07.truthy d.keys.aesKey && C07.truthy d.keys.hmacKey) with
              | true =>
                simp only [Bool.not_true, Bool.false_eq_true, if_false, yl, List.nil_append,
                  packets_tail c k d.verify (isRequest h) c2 _ _ (hv { d with cache := d.cache ++ [(blob, m)] } rfl)]
                simp only [packResult, encOut]
                cases (decodePackets c k d.verify (isRequest h) (frames (isRequest h) c2.output).1).exc with
                | some e => rfl
                | none => cases (frames (isRequest h) c2.output).2 <;> rfl
              | false =>
                have kv : V.inst Gen.PyC2H.BeaconKeys [V.bytes ((c.asym.sha256 m.aes_rand).take 16),
                    V.bytes ((c.asym.sha256 m.aes_rand).drop 16),
                    V.bytes [97, 98, 99, 100, 101, 102, 103, 104, 105, 106, 107, 108, 109, 110, 111, 112]] =
                    keysV (derivedKeys c m.aes_rand) := rfl
                simp only [Bool.not_false, if_true, getAttr_aes_rand, deriveX_bytes, hu, lift_ok, okA_bind, kv, setKeys, yl,
                  List.nil_append,
                  packets_tail c k d.verify (isRequest h) c2 _ _
                    (hv { d with cache := d.cache ++ [(blob, m)], keys := derivedKeys c m.aes_rand } rfl)]
                simp only [packResult, encOut]
                cases (decodePackets c k d.verify (isRequest h) (frames (isRequest h) c2.output).1).exc with
                | some e => rfl
                | none => cases (frames (isRequest h) c2.output).2 <;> rfl

/-- `keys=None`: `keys or self.beacon_keys` is the instance's own keys -/
theorem gen_iter_recover_http_msg (c : Crypto) (d : Decoder) (tg ts tr : V) (o : Rest) (privV : V) (hpv : PyU.truthy privV = d.hasPriv)
    (ht : TransformsOk d.cfg tg ts tr) (ext : Option Keys) (status reason request : V) (h : C04.Http) :
    iterRecoverG c (encDec tg ts tr o privV d) (C04Gen.encHttp status reason request h) (encExt ext)
      = encOut tg ts tr o privV (iterRecoverMsg c d ext h) := by
  cases ext with
  | some k => exact gen_iter_recover_http_msg_keys c d tg ts tr o privV hpv ht k status reason request h
  | none =>
    have key := gen_iter_recover_http_msg_keys c d tg ts tr o privV hpv ht d.keys status reason request h
    have hm : iterRecoverMsg c d none h = iterRecoverMsg c d (some d.keys) h := rfl
    have hn : iterRecoverG c (encDec tg ts tr o privV d) (C04Gen.encHttp status reason request h) (encExt none) =
        iterRecoverG c (encDec tg ts tr o privV d) (C04Gen.encHttp status reason request h) (keysV d.keys) := by
      have hkeys : PyU.getAttr (encDec tg ts tr o privV d) "beacon_keys" = .ok (keysV d.keys) := rfl
      have tn : PyU.truthy V.none = false := rfl
      unfold iterRecoverG Gen.PyC2H.iter_recover_http
      rw [show encExt none = V.none from rfl]
      simp only [tn, Bool.not_false, if_true, hkeys, lift_ok, okA_bind]
      simp only [truthy_keysV, Bool.not_true, Bool.false_eq_true, if_false]
    rw [hm, hn, key]

theorem encMsg_http (m : C16.Msg) : ∃ st re rq, C16Gen.encMsg m = C04Gen.encHttp st re rq (msgToHttp m) := by
  cases m with
  | request m u ps hs b => exact ⟨.none, .none, .none, rfl⟩
  | response st r hs b => exact ⟨.int st, .bytes r, .none, rfl⟩

theorem gen_iter_recover_http_proof (c : Crypto) (d : Decoder) (tg ts tr : V) (o : Rest) (privV : V)
    (hpv : PyU.truthy privV = d.hasPriv) (ht : TransformsOk d.cfg tg ts tr) (ext : Option Keys) (status reason request : V)
    (inp : Input) :
    iterRecoverG c (encDec tg ts tr o privV d) (encInput status reason request inp) (encExt ext)
      = encOut tg ts tr o privV (iterRecoverHttp c d inp ext) := by
  cases inp with
  | msg h => exact gen_iter_recover_http_msg c d tg ts tr o privV hpv ht ext status reason request h
  | raw data =>
    have hb : PyU.isInstance (V.bytes data) [PyU.Ty.bytes] = true := rfl
    simp only [encInput, iterRecoverHttp, parseInput]
    cases hp : C16.parseRawHttp data with
    | error e =>
      unfold iterRecoverG Gen.PyC2H.iter_recover_http
      simp only [hb, if_true, C16Gen.gen_parse_raw_http_proof, hp, Except.map, lift_err, errA_bind]
      rfl
    | ok m =>
      obtain ⟨st, re, rq, he⟩ := encMsg_http m
      have key := gen_iter_recover_http_msg c d tg ts tr o privV hpv ht ext st re rq (msgToHttp m)
      have hb' : PyU.isInstance (C04Gen.encHttp st re rq (msgToHttp m)) [PyU.Ty.bytes] = false := by
        cases msgToHttp m <;> rfl
      simp only [ofPy, Except.map]
      rw [← key]
      unfold iterRecoverG Gen.PyC2H.iter_recover_http
      simp only [hb, hb', if_true, C16Gen.gen_parse_raw_http_proof, hp, Except.map, he, lift_ok, okA_bind, Bool.false_eq_true, if_false]

end C07Gen

import CsVerif.Model.C09
import CsVerif.Props.C15
/-! Helper lemmas for C09 (no property statements here).

Contents: (1) `C20.xor` on a 4-byte key and `rollDecode` as `zipWith`; (2) `Layout`, `readNonce_eq`;
(3) the chunk-loop invariant `readLoop_spec` and `read_spec`; (4) abstraction relation `Abs`, `step_refines`,
`run_refines`, `mk'_spec`; (5) `iter_nonce_offsets`; (6) `Counter.most_common`; (7) the candidate loop;
(8) `find_mz_offset` on a PE header; (9) totality / framing of `read` and `find_mz_offset`;
(10) `from_file` with the modelled MZ check = the parameterised one;
(11) `from_file` with the real needle scanner (`markerScan`, `realHits`, `sizeOffsets`, `realCandidates`, `nonceLoop_mem`,
`realHits_sublist/complete/bound/large_buffer`); (12) `read_advances`; the pre-13416c7 `seekOld` characterised (`seekOld_exact`); (13) refinement of ALL histories by the
current `seek` (`step_refines_all`, `run_refines_all`, `trace_refines_all`). -/
namespace C09

theorem xorCore_eq_zipWith (d k : Bytes) (h : d.length ≤ k.length) :
    C20.xorCore d k = List.zipWith (· ^^^ ·) d k := by
  apply List.ext_getElem
  · simp [C20.xorCore]; omega
  · intro i h1 h2
    simp only [C20.xorCore, List.length_mapIdx] at h1
    have hk : i < k.length := by omega
    simp [C20.xorCore, C20.keyAt, Nat.mod_eq_of_lt hk, hk]

theorem zipWith_zero (d k : Bytes) (h : d.length ≤ k.length) (hz : k.all (· == 0) = true) :
    List.zipWith (· ^^^ ·) d k = d := by
  apply List.ext_getElem
  · simp; omega
  · intro i h1 h2
    simp only [List.length_zipWith] at h1
    have hk : i < k.length := by omega
    have : k[i] = 0 := by
      have := List.all_eq_true.mp hz k[i] (List.getElem_mem hk)
      simpa using this
    simp [this]

theorem xor_eq_zipWith (d k : Bytes) (h : d.length ≤ k.length) :
    C20.xor d k = List.zipWith (· ^^^ ·) d k := by
  unfold C20.xor
  split
  · rename_i hz; exact (zipWith_zero d k h hz).symm
  · exact xorCore_eq_zipWith d k h

theorem rollDecode_length (nonce enc : Bytes) : (rollDecode nonce enc).length = enc.length := by
  simp [rollDecode]

theorem rollDecode_eq_zipWith (nonce enc : Bytes) (h : nonce.length = 4) :
    rollDecode nonce enc = List.zipWith (· ^^^ ·) enc (nonce ++ enc) := by
  apply List.ext_getElem
  · simp [rollDecode]
  · intro i h1 h2
    simp only [rollDecode, List.length_mapIdx] at h1
    simp only [rollDecode, List.getElem_mapIdx, List.getElem_zipWith]
    by_cases hi : i < 4
    · have : i < nonce.length := by omega
      simp [hi, List.getElem_append_left, this]
    · have h4 : nonce.length ≤ i := by omega
      have : i - 4 < enc.length := by omega
      simp only [hi, if_false, this, List.getD_eq_getElem?_getD, List.getElem?_eq_getElem, Option.getD_some]
      rw [List.getElem_append_right h4]
      simp [h]


/-! ### layout and `read_nonce` -/

theorem drop_prefix {α} (pre rest : List α) (n p : Nat) (h : pre.length = n) :
    (pre ++ rest).drop (n + p) = rest.drop p := by
  subst h
  rw [← List.drop_drop, List.drop_left]

/-- Hypotheses tying a `XorFile` to the raw layout `stub ++ nonce ++ size ++ enc`. -/
structure Layout (stub nonce size enc : Bytes) (x : XorFile) : Prop where
  data : x.fh.data = stub ++ nonce ++ size ++ enc
  nlen : nonce.length = 4
  slen : size.length = 4
  off : x.nonceOff = stub.length
  init : x.initialNonce = nonce

/-- the object with its raw cursor moved -/
def XorFile.withPos (x : XorFile) (pos : Nat) : XorFile := { x with fh := { x.fh with pos := pos } }

theorem take_drop_splice {α} (l : List α) (p : Nat) (hp : p ≤ 4) :
    ((l.drop p).take 4).drop (4 - p) = (l.drop 4).take p := by
  rw [List.drop_take, List.drop_drop]
  have : p + (4 - p) = 4 := by omega
  have h2 : 4 - (4 - p) = p := by omega
  rw [this, h2]

theorem readNonce_eq {stub nonce size enc : Bytes} {x : XorFile} (hL : Layout stub nonce size enc x)
    (p : Nat) (hpos : x.fh.pos = stub.length + 8 + p) (hp : p ≤ enc.length) :
    readNonce x = .ok (((nonce ++ enc).drop p).take 4, x) := by
  obtain ⟨hd, hn, hs, ho, hi⟩ := hL
  obtain ⟨⟨data, pos, kind⟩, nonceOff, initialNonce, noncedSize⟩ := x
  simp only at hd ho hi hpos
  have hi := hi.symm
  subst hd ho hi hpos
  have hseek : ({ data := stub ++ nonce ++ size ++ enc, pos := stub.length + 8 + p, kind := kind } : PyFile).seekCur (-4)
      = .ok (stub.length + 4 + p, { data := stub ++ nonce ++ size ++ enc, pos := stub.length + 4 + p, kind := kind }) := by
    simp only [PyFile.seekCur, PyFile.seekRel]
    have h1 : ¬ (((stub.length + 8 + p : Nat) : Int) + -4 < 0) := by omega
    have h2 : (((stub.length + 8 + p : Nat) : Int) + -4).toNat = stub.length + 4 + p := by omega
    simp only [h1, if_false, h2]
  have hdrop : (stub ++ nonce ++ size ++ enc).drop (stub.length + 4 + p) = (size ++ enc).drop p := by
    have : stub ++ nonce ++ size ++ enc = (stub ++ nonce) ++ (size ++ enc) := by simp
    rw [this]
    exact drop_prefix _ _ _ _ (by simp [hn])
  have hread : ({ data := stub ++ nonce ++ size ++ enc, pos := stub.length + 4 + p, kind := kind } : PyFile).read 4
      = (((size ++ enc).drop p).take 4, { data := stub ++ nonce ++ size ++ enc, pos := stub.length + 8 + p, kind := kind }) := by
    have hlen : (((size ++ enc).drop p).take 4).length = 4 := by
      simp only [List.length_take, List.length_drop, List.length_append]; omega
    simp only [PyFile.read, hdrop]
    have : ¬ ((4 : Int) < 0) := by omega
    simp only [this, if_false]
    have h4 : (4 : Int).toNat = 4 := rfl
    rw [h4, hlen]
    have : stub.length + 4 + p + 4 = stub.length + 8 + p := by omega
    rw [this]
  simp only [readNonce, rawNonce, PyFile.tell, hseek, hread, PyFile.seekSet_ok, spliceNonce]
  by_cases hlt : stub.length + 8 + p < stub.length + 12
  · have hp4 : p < 4 := by omega
    simp only [hlt, if_true]
    have hoff : ((stub.length + 8 + p : Nat) : Int) - ((stub.length : Int) + 8) = (p : Int) := by omega
    rw [hoff]
    have e1 : pySliceFrom nonce (p : Int) = nonce.drop p := by
      simp [pySliceFrom]
    have e2 : pySliceFrom (((size ++ enc).drop p).take 4) (4 - (p : Int)) = (((size ++ enc).drop p).take 4).drop (4 - p) := by
      have : ¬ ((4 : Int) - (p : Int) < 0) := by omega
      have h2 : ((4 : Int) - (p : Int)).toNat = 4 - p := by omega
      simp [pySliceFrom, h2]; omega
    rw [e1, e2, take_drop_splice _ _ (by omega)]
    have e3 : (size ++ enc).drop 4 = enc := by
      have := drop_prefix size enc 4 0 hs
      simpa using this
    rw [e3]
    have e4 : ((nonce ++ enc).drop p).take 4 = nonce.drop p ++ enc.take p := by
      rw [List.drop_append_of_le_length (by omega), List.take_append]
      have : (nonce.drop p).length = 4 - p := by simp [hn]
      rw [this, List.take_of_length_le (by simp [hn])]
      have : 4 - (4 - p) = p := by omega
      rw [this]
    rw [e4]
  · have hp4 : 4 ≤ p := by omega
    simp only [hlt, if_false]
    have e1 : (size ++ enc).drop p = enc.drop (p - 4) := by
      have := drop_prefix size enc 4 (p - 4) hs
      have h2 : 4 + (p - 4) = p := by omega
      rwa [h2] at this
    have e2 : (nonce ++ enc).drop p = enc.drop (p - 4) := by
      have := drop_prefix nonce enc 4 (p - 4) hn
      have h2 : 4 + (p - 4) = p := by omega
      rwa [h2] at this
    rw [e1, e2]


/-! ### the chunk loop and `read` -/

theorem take_min_length {α} (l : List α) (n : Nat) : l.take (min n l.length) = l.take n := by
  by_cases h : n ≤ l.length
  · rw [Nat.min_eq_left h]
  · have h' : l.length ≤ n := by omega
    rw [Nat.min_eq_right h', List.take_of_length_le (Nat.le_refl _), List.take_of_length_le h']

theorem read4 (f : PyFile) : f.read 4 = ((f.data.drop f.pos).take 4, { f with pos := f.pos + ((f.data.drop f.pos).take 4).length }) := by
  have : ¬ ((4 : Int) < 0) := by omega
  simp only [PyFile.read, this, if_false]
  rfl


theorem read4_layout (f : PyFile) (pre enc : Bytes) (p : Nat) (hd : f.data = pre ++ enc)
    (hpos : f.pos = pre.length + p) :
    f.read 4 = ((enc.drop p).take 4, { f with pos := pre.length + p + min 4 (enc.length - p) }) := by
  rw [read4, hd, hpos, drop_prefix pre enc _ p rfl]
  simp only [List.length_take, List.length_drop]

theorem dec_chunk (N enc : Bytes) (hN : N.length = 4) (p : Nat) (hp : p ≤ enc.length) :
    C20.xor ((enc.drop p).take 4) (((N ++ enc).drop p).take 4)
      = ((List.zipWith (· ^^^ ·) enc (N ++ enc)).drop p).take (min 4 (enc.length - p)) := by
  rw [xor_eq_zipWith _ _ (by simp only [List.length_take, List.length_drop, List.length_append]; omega)]
  rw [← List.take_zipWith, ← List.drop_zipWith]
  have hl : ((List.zipWith (· ^^^ ·) enc (N ++ enc)).drop p).length = enc.length - p := by
    simp only [List.length_drop, List.length_zipWith, List.length_append]; omega
  rw [← hl, take_min_length]

/-- The chunk loop started at logical position `p` with the correct rolling key returns a prefix of
the remaining plaintext and leaves the raw cursor right behind what it consumed; it stops early only
when the requested count has been reached. -/
theorem readLoop_spec (n : Int) (pre N enc : Bytes) (hN : N.length = 4)
    (f : PyFile) (nonce : Bytes) (got : Nat) :
    ∀ (p : Nat), f.data = pre ++ enc → f.pos = pre.length + p → p ≤ enc.length →
      (p < enc.length → nonce = ((N ++ enc).drop p).take 4) →
      ∃ L, L ≤ enc.length - p ∧
        readLoop n f nonce got =
          (((List.zipWith (· ^^^ ·) enc (N ++ enc)).drop p).take L, { f with pos := pre.length + p + L }) ∧
        (L = enc.length - p ∨ (0 < n ∧ n ≤ ((got + L : Nat) : Int))) := by
  fun_induction readLoop n f nonce got with
  | case1 f nonce got hnil =>
    intro p hd hpos hp _
    rw [read4, hd, hpos, drop_prefix pre enc _ p rfl] at hnil ⊢
    simp only at hnil
    have : enc.length ≤ p := by
      rcases List.take_eq_nil_iff.mp hnil with h | h
      · omega
      · exact List.drop_eq_nil_iff.mp h
    refine ⟨0, by omega, ?_, Or.inl (by omega)⟩
    simp [hnil, ← hd]
  | case2 f nonce got hne chunk dec hbreak =>
    intro p hd hpos hp hnonce
    have hr := read4_layout f pre enc p hd hpos
    have hlt : p < enc.length := by
      apply Classical.byContradiction
      intro hge
      apply hne
      rw [hr]
      simp only
      rw [List.drop_eq_nil_iff.mpr (by omega)]; rfl
    have hdec : dec = ((List.zipWith (· ^^^ ·) enc (N ++ enc)).drop p).take (min 4 (enc.length - p)) := by
      show C20.xor (f.read 4).1 nonce = _
      rw [hr, hnonce hlt]
      exact dec_chunk N enc hN p hp
    have hdl : dec.length = min 4 (enc.length - p) := by
      rw [hdec]; simp only [List.length_take, List.length_drop, List.length_zipWith, List.length_append]; omega
    refine ⟨min 4 (enc.length - p), by omega, ?_, Or.inr ⟨hbreak.1, ?_⟩⟩
    · rw [hr, ← hdec]
    · have := hbreak.2
      rw [hdl] at this
      exact this
  | case3 f nonce got hne chunk dec hbreak r ih =>
    intro p hd hpos hp hnonce
    have hr := read4_layout f pre enc p hd hpos
    have hlt : p < enc.length := by
      apply Classical.byContradiction
      intro hge
      apply hne
      rw [hr]
      simp only
      rw [List.drop_eq_nil_iff.mpr (by omega)]; rfl
    have hdec : dec = ((List.zipWith (· ^^^ ·) enc (N ++ enc)).drop p).take (min 4 (enc.length - p)) := by
      show C20.xor (f.read 4).1 nonce = _
      rw [hr, hnonce hlt]
      exact dec_chunk N enc hN p hp
    have hdl : dec.length = min 4 (enc.length - p) := by
      rw [hdec]; simp only [List.length_take, List.length_drop, List.length_zipWith, List.length_append]; omega
    have hchunk : chunk = (enc.drop p).take 4 := by
      show (f.read 4).1 = _
      rw [hr]
    obtain ⟨L', hL', heq, hstop⟩ := ih (p + min 4 (enc.length - p)) (by rw [hr]; exact hd)
      (by rw [hr]; simp only; omega) (by omega)
      (by
        intro hlt'
        have h4 : min 4 (enc.length - p) = 4 := by omega
        rw [hchunk, h4]
        have := drop_prefix N enc 4 p hN
        rw [Nat.add_comm p 4, this])
    refine ⟨min 4 (enc.length - p) + L', by omega, ?_, ?_⟩
    · show (dec ++ (readLoop n (f.read 4).snd chunk (got + dec.length)).1, (readLoop n (f.read 4).snd chunk (got + dec.length)).2) = _
      rw [heq]
      simp only
      rw [List.take_add, List.drop_drop, ← hdec]
      rw [hr]
      simp only [Nat.add_assoc]
    · rcases hstop with h | h
      · left; omega
      · right
        refine ⟨h.1, ?_⟩
        have := h.2
        rw [hdl] at this
        rw [← Nat.add_assoc]; exact this


/-- `if n is None or n < 0: n = -1` -/
def normN : Option Int → Int
  | none => -1
  | some v => if v < 0 then -1 else v

theorem readWith_unfold (rn : XorFile → Py (Bytes × XorFile)) (x : XorFile) (n : Option Int) :
    readWith rn x n =
      if normN n = 0 then .ok ([], x)
      else
        match rn x with
        | .error e => .error e
        | .ok (nonce, x1) =>
          let r := readLoop (normN n) x1.fh nonce 0
          if normN n = -1 then .ok (r.1, { x1 with fh := r.2 })
          else if (r.1.length : Int) > normN n then
            match r.2.seekCur (normN n - (r.1.length : Int)) with
            | .error e => .error e
            | .ok (_, f3) => .ok (r.1.take (normN n).toNat, { x1 with fh := f3 })
          else .ok (r.1.take (normN n).toNat, { x1 with fh := r.2 }) := by
  cases n <;> rfl

theorem read_unfold (x : XorFile) (n : Option Int) :
    read x n =
      if normN n = 0 then .ok ([], x)
      else
        match readNonce x with
        | .error e => .error e
        | .ok (nonce, x1) =>
          let r := readLoop (normN n) x1.fh nonce 0
          if normN n = -1 then .ok (r.1, { x1 with fh := r.2 })
          else if (r.1.length : Int) > normN n then
            match r.2.seekCur (normN n - (r.1.length : Int)) with
            | .error e => .error e
            | .ok (_, f3) => .ok (r.1.take (normN n).toNat, { x1 with fh := f3 })
          else .ok (r.1.take (normN n).toNat, { x1 with fh := r.2 }) :=
  readWith_unfold readNonce x n

theorem normN_cases (n : Option Int) : normN n = -1 ∨ 0 ≤ normN n := by
  cases n with
  | none => left; rfl
  | some v =>
    simp only [normN]
    split <;> omega

/-- what an ordinary file over `plain` at position `p` returns for `read(n)` -/
def plainRead (plain : Bytes) (p : Nat) (n : Option Int) : Bytes :=
  (({ data := plain, pos := p } : PyFile).read (n.getD (-1))).1

theorem plainRead_eq (plain : Bytes) (p : Nat) (n : Option Int) :
    plainRead plain p n = if normN n = -1 then plain.drop p else (plain.drop p).take (normN n).toNat := by
  cases n with
  | none => simp [plainRead, normN, PyFile.read]
  | some v =>
    simp only [plainRead, normN, PyFile.read, Option.getD_some]
    by_cases hv : v < 0
    · simp [hv]
    · have : ¬ v = -1 := by omega
      simp [hv, this]

theorem withPos_self (x : XorFile) : x.withPos x.fh.pos = x := rfl

theorem read_spec_in {stub nonce size enc : Bytes} {x : XorFile} (hL : Layout stub nonce size enc x)
    (p : Nat) (hpos : x.fh.pos = stub.length + 8 + p) (hp : p ≤ enc.length) (n : Option Int) :
    read x n = .ok (plainRead (rollDecode nonce enc) p n,
      x.withPos (stub.length + 8 + p + (plainRead (rollDecode nonce enc) p n).length)) := by
  rw [read_unfold, plainRead_eq, rollDecode_eq_zipWith nonce enc hL.nlen]
  generalize hm : normN n = m
  have hcases := normN_cases n
  rw [hm] at hcases
  by_cases h0 : m = 0
  · subst h0
    simp only [if_true]
    have : ¬ ((0 : Int) = -1) := by omega
    simp only [this, if_false, Int.toNat_zero, List.take_zero, List.length_nil, Nat.add_zero]
    rw [← hpos]; rfl
  · simp only [h0, if_false]
    rw [readNonce_eq hL p hpos hp]
    simp only
    have hdata : x.fh.data = (stub ++ nonce ++ size) ++ enc := by rw [hL.data]
    have hplen : (stub ++ nonce ++ size).length = stub.length + 8 := by
      simp only [List.length_append, hL.nlen, hL.slen]
    obtain ⟨L, hLr, heq, hstop⟩ := readLoop_spec m (stub ++ nonce ++ size) nonce enc hL.nlen x.fh
      (((nonce ++ enc).drop p).take 4) 0 p hdata (by rw [hplen]; exact hpos) hp (fun _ => rfl)
    rw [heq]
    simp only [hplen]
    have hPlen : ((List.zipWith (· ^^^ ·) enc (nonce ++ enc)).drop p).length = enc.length - p := by
      simp only [List.length_drop, List.length_zipWith, List.length_append]; omega
    by_cases hm1 : m = -1
    · subst hm1
      simp only [if_true]
      have hLe : L = enc.length - p := by
        rcases hstop with h | h
        · exact h
        · omega
      subst hLe
      rw [← hPlen, List.take_of_length_le (Nat.le_refl _)]
      rfl
    · simp only [hm1, if_false]
      have hmpos : 0 < m := by omega
      obtain ⟨k, hk⟩ : ∃ k : Nat, m = (k : Int) := ⟨m.toNat, by omega⟩
      subst hk
      simp only [Int.toNat_natCast]
      have hlen : (((List.zipWith (· ^^^ ·) enc (nonce ++ enc)).drop p).take L).length = L := by
        rw [List.length_take, hPlen]; omega
      rw [hlen, List.take_take]
      by_cases hgt : (L : Int) > (k : Int)
      · simp only [hgt, if_true]
        have hkL : k < L := by omega
        have hseek : ({ x.fh with pos := stub.length + 8 + p + L } : PyFile).seekCur ((k : Int) - (L : Int))
            = .ok (stub.length + 8 + p + k, { x.fh with pos := stub.length + 8 + p + k }) := by
          simp only [PyFile.seekCur, PyFile.seekRel]
          have h1 : ¬ (((stub.length + 8 + p + L : Nat) : Int) + ((k : Int) - (L : Int)) < 0) := by omega
          have h2 : (((stub.length + 8 + p + L : Nat) : Int) + ((k : Int) - (L : Int))).toNat = stub.length + 8 + p + k := by omega
          simp only [h1, if_false, h2]
        rw [hseek]
        simp only
        rw [Nat.min_eq_left (by omega)]
        have : (((List.zipWith (· ^^^ ·) enc (nonce ++ enc)).drop p).take k).length = k := by
          rw [List.length_take, hPlen]; omega
        rw [this]
        rfl
      · simp only [hgt, if_false]
        have hLk : L ≤ k := by omega
        rw [Nat.min_eq_right hLk]
        have htk : ((List.zipWith (· ^^^ ·) enc (nonce ++ enc)).drop p).take k
            = ((List.zipWith (· ^^^ ·) enc (nonce ++ enc)).drop p).take L := by
          rcases hstop with h | h
          · subst h
            rw [← hPlen, List.take_of_length_le (Nat.le_refl _), List.take_of_length_le (by omega)]
          · have : k = L := by omega
            rw [this]
        rw [htk, hlen]
        rfl


/-! ### `read_nonce` restores the cursor; `read` beyond the end -/

theorem seekRel_frame (f : PyFile) (b : Nat) (off : Int) (v : Nat) (f' : PyFile)
    (h : f.seekRel b off = .ok (v, f')) : f' = { f with pos := v } := by
  simp only [PyFile.seekRel] at h
  split at h
  · split at h
    · injection h with h; obtain ⟨rfl, rfl⟩ := Prod.mk.inj h; rfl
    · cases h
  · injection h with h; obtain ⟨rfl, rfl⟩ := Prod.mk.inj h; rfl

theorem pyseek_frame (f : PyFile) (off : Int) (wh : Nat) (v : Nat) (f' : PyFile)
    (h : f.seek off wh = .ok (v, f')) : f' = { f with pos := v } := by
  unfold PyFile.seek at h
  split at h
  · simp only [PyFile.seekSet] at h
    split at h
    · cases h
    · injection h with h; obtain ⟨rfl, rfl⟩ := Prod.mk.inj h; rfl
  · exact seekRel_frame _ _ _ _ _ h
  · exact seekRel_frame _ _ _ _ _ h
  · cases h

theorem seekRel_error (f : PyFile) (b : Nat) (off : Int) (e : PyExc) (h : f.seekRel b off = .error e) :
    e = PyExc.osError := by
  simp only [PyFile.seekRel] at h
  split at h
  · split at h
    · cases h
    · injection h with h; exact h.symm
  · cases h

theorem rawNonce_total (x : XorFile) : ∃ nonce q, rawNonce x = .ok (nonce, { x.fh with pos := q }) := by
  unfold rawNonce
  cases h : x.fh.seekCur (-4) with
  | ok r =>
    obtain ⟨v, f1⟩ := r
    have := seekRel_frame _ _ _ _ _ h
    subst this
    simp only [read4]
    exact ⟨_, _, rfl⟩
  | error e =>
    have := seekRel_error _ _ _ _ h
    subst this
    exact ⟨_, x.fh.pos, rfl⟩

/-- `read_nonce` never raises and (since fix f64b15d) leaves the object exactly as it was -/
theorem readNonce_restores (x : XorFile) : ∃ nonce, readNonce x = .ok (nonce, x) := by
  obtain ⟨nonce, q, h⟩ := rawNonce_total x
  simp only [readNonce, h, PyFile.tell, PyFile.seekSet_ok]
  exact ⟨_, rfl⟩

theorem readLoop_at_eof (n : Int) (f : PyFile) (nonce : Bytes) (got : Nat) (h : f.data.length ≤ f.pos) :
    readLoop n f nonce got = ([], f) := by
  have hnil : (f.read 4).1 = [] := by
    rw [read4]; simp only; rw [List.drop_eq_nil_iff.mpr h]; rfl
  rw [readLoop, dif_pos hnil, read4]
  simp only [List.drop_eq_nil_iff.mpr h, List.take_nil, List.length_nil, Nat.add_zero]


/-- `read(n)` at every logical position `p ≥ 0`, also beyond the end (where it returns `b""` and, since fix
f64b15d, does not move) -/
theorem read_spec {stub nonce size enc : Bytes} {x : XorFile} (hL : Layout stub nonce size enc x)
    (p : Nat) (hpos : x.fh.pos = stub.length + 8 + p) (n : Option Int) :
    read x n = .ok (plainRead (rollDecode nonce enc) p n,
      x.withPos (stub.length + 8 + p + (plainRead (rollDecode nonce enc) p n).length)) := by
  by_cases hp : p ≤ enc.length
  · exact read_spec_in hL p hpos hp n
  · have hdrop : (rollDecode nonce enc).drop p = [] :=
      List.drop_eq_nil_iff.mpr (by rw [rollDecode_length]; omega)
    have hpl : plainRead (rollDecode nonce enc) p n = [] := by
      rw [plainRead_eq, hdrop]; split
      · rfl
      · exact List.take_nil
    rw [hpl]
    simp only [List.length_nil, Nat.add_zero]
    rw [← hpos, withPos_self, read_unfold]
    by_cases h0 : normN n = 0
    · rw [if_pos h0]
    · rw [if_neg h0]
      obtain ⟨nonce', hn⟩ := readNonce_restores x
      rw [hn]
      have hlen : x.fh.data.length ≤ x.fh.pos := by
        rw [hL.data, hpos]; simp only [List.length_append, hL.nlen, hL.slen]; omega
      dsimp only
      rw [readLoop_at_eof _ _ _ _ hlen]
      have hc := normN_cases n
      by_cases h1 : normN n = -1
      · rw [if_pos h1]
      · rw [if_neg h1]
        have : ¬ (((([] : Bytes), x.fh).1.length : Int) > normN n) := by
          simp only [List.length_nil]; omega
        rw [if_neg this]
        simp only [List.take_nil]

/-! ### refinement of histories -/

/-- abstraction relation between the decoding view and a plain file over the decoded bytes -/
structure Abs (stub nonce size enc : Bytes) (x : XorFile) (pf : PyFile) : Prop where
  layout : Layout stub nonce size enc x
  data : pf.data = rollDecode nonce enc
  pos : x.fh.pos = stub.length + 8 + pf.pos

theorem layout_withPos {stub nonce size enc : Bytes} {x : XorFile} (hL : Layout stub nonce size enc x) (q : Nat) :
    Layout stub nonce size enc (x.withPos q) :=
  ⟨hL.data, hL.nlen, hL.slen, hL.off, hL.init⟩

theorem read_fst_eq (pf : PyFile) (n : Option Int) :
    (pf.read (n.getD (-1))).1 = plainRead pf.data pf.pos n := rfl

theorem plainRead_length (plain : Bytes) (p : Nat) (n : Option Int) :
    p + (plainRead plain p n).length = posAfterRead plain.length p n := by
  rw [plainRead_eq]
  cases n with
  | none => simp only [normN, posAfterRead, if_true, List.length_drop]; omega
  | some v =>
    simp only [normN, posAfterRead]
    by_cases hv : v < 0
    · simp only [hv, if_true, List.length_drop]; omega
    · have : ¬ v = -1 := by omega
      simp only [hv, this, if_false, List.length_take, List.length_drop]; omega

theorem seekRel_ok (f : PyFile) (b : Nat) (off : Int) (t : Nat) (h : (b : Int) + off = (t : Int)) :
    f.seekRel b off = .ok (t, { f with pos := t }) := by
  simp only [PyFile.seekRel]
  have h1 : ¬ ((b : Int) + off < 0) := by omega
  have h2 : ((b : Int) + off).toNat = t := by omega
  simp only [h1, if_false, h2]

theorem seekSet_ok' (f : PyFile) (off : Int) (t : Nat) (h : off = (t : Int)) :
    f.seekSet off = .ok (t, { f with pos := t }) := by
  subst h; exact PyFile.seekSet_ok f t

theorem seekTo_eq (x : XorFile) (target : Int) (v : Nat)
    (hv : (v : Int) = max target 0 + (x.nonceOff : Int) + 8) : seekTo x target = .ok (v, x.withPos v) := by
  have h : max target 0 + ((x.nonceOff : Int) + 8) = (v : Int) := by omega
  simp only [seekTo, h, PyFile.seekSet_ok]; rfl

theorem seek_set_eq (x : XorFile) (off : Int) (v : Nat) (h0 : 0 ≤ off)
    (hv : (v : Int) = off + (x.nonceOff : Int) + 8) : seek x off 0 = .ok (v, x.withPos v) := by
  have h1 : ¬ off < 0 := by omega
  simp only [seek, if_neg h1]
  exact seekTo_eq x off v (by omega)

theorem seek_set_neg (x : XorFile) (off : Int) (h : off < 0) : seek x off 0 = .error .valueError := by
  simp only [seek, if_pos h]

theorem seek_cur_eq (x : XorFile) (off : Int) (v : Nat)
    (hv : (v : Int) = max (tell x + off) 0 + (x.nonceOff : Int) + 8) : seek x off 1 = .ok (v, x.withPos v) := by
  simp only [seek]
  exact seekTo_eq x _ v hv

theorem seek_end_eq (x : XorFile) (off : Int) (v : Nat)
    (hv : (v : Int) = max ((x.fh.data.length : Int) - ((x.nonceOff : Int) + 8) + off) 0 + (x.nonceOff : Int) + 8) :
    seek x off 2 = .ok (v, x.withPos v) := by
  simp only [seek, PyFile.seekEnd]
  rw [seekRel_ok x.fh x.fh.data.length 0 x.fh.data.length (by omega)]
  exact seekTo_eq { x with fh := { x.fh with pos := x.fh.data.length } } _ v hv

theorem seek_bad_whence (x : XorFile) (off : Int) (wh : Nat) (hwh : 2 < wh) : seek x off wh = .error .valueError := by
  obtain ⟨n, rfl⟩ : ∃ n, wh = n + 3 := ⟨wh - 3, by omega⟩
  rfl

/-- `seek` never raises anything but ValueError and changes nothing but the raw cursor -/
theorem seek_frame (x : XorFile) (off : Int) (wh : Nat) :
    seek x off wh = .error .valueError ∨ ∃ v, seek x off wh = .ok (v, x.withPos v) := by
  match wh with
  | 0 =>
    by_cases h : off < 0
    · exact Or.inl (seek_set_neg x off h)
    · exact Or.inr ⟨_, seek_set_eq x off (off + (x.nonceOff : Int) + 8).toNat (by omega) (by omega)⟩
  | 1 => exact Or.inr ⟨_, seek_cur_eq x off (max (tell x + off) 0 + (x.nonceOff : Int) + 8).toNat (by omega)⟩
  | 2 => exact Or.inr ⟨_, seek_end_eq x off
      (max ((x.fh.data.length : Int) - ((x.nonceOff : Int) + 8) + off) 0 + (x.nonceOff : Int) + 8).toNat (by omega)⟩
  | n + 3 => exact Or.inl (seek_bad_whence x off _ (by omega))

/-- one operation: same output (seek's return value shifted), abstraction preserved -/
theorem step_refines {stub nonce size enc : Bytes} {x : XorFile} {pf : PyFile}
    (hA : Abs stub nonce size enc x pf) (op : Op) (ops : List Op)
    (hops : seeksNonneg enc.length pf.pos (op :: ops) = true) :
    ∃ o pf', plainStep pf op = .ok (o, pf') ∧
      stepOp x op = .ok (o.shift (stub.length + 8), x.withPos (stub.length + 8 + pf'.pos)) ∧
      Abs stub nonce size enc (x.withPos (stub.length + 8 + pf'.pos)) pf' ∧
      seeksNonneg enc.length pf'.pos ops = true := by
  obtain ⟨hL, hdata, hpos⟩ := hA
  have hplen : pf.data.length = enc.length := by rw [hdata, rollDecode_length]
  have mkAbs : ∀ q : Nat,
      Abs stub nonce size enc (x.withPos (stub.length + 8 + q)) { pf with pos := q } :=
    fun q => ⟨layout_withPos hL _, hdata, rfl⟩
  cases op with
  | tell =>
    refine ⟨.pos pf.pos, pf, rfl, ?_, ?_, ?_⟩
    · have : ((x.fh.pos : Nat) : Int) - ((x.nonceOff : Int) + 8) = (pf.pos : Int) := by
        rw [hpos, hL.off]; omega
      simp only [stepOp, tell, PyFile.tell, Out.shift, this]
      rw [← hpos]; rfl
    · rw [← hpos]; exact ⟨hL, hdata, hpos⟩
    · simpa [seeksNonneg] using hops
  | read n =>
    have hr := read_spec hL pf.pos hpos n
    have hlen := plainRead_length pf.data pf.pos n
    rw [hplen] at hlen
    refine ⟨.bytes (plainRead pf.data pf.pos n), (pf.read (n.getD (-1))).2, rfl, ?_, ?_, ?_⟩
    · simp only [stepOp, hr, Except.map, Out.shift, PyFile.read_pos, read_fst_eq, hdata, Nat.add_assoc]
    · exact mkAbs (pf.pos + (plainRead pf.data pf.pos n).length)
    · simp only [seeksNonneg] at hops
      simp only [PyFile.read_pos, read_fst_eq, hlen]
      exact hops
  | seek off wh =>
    simp only [seeksNonneg] at hops
    match wh, hops with
    | 0, hops =>
      simp only [Bool.and_eq_true, decide_eq_true_eq] at hops
      obtain ⟨h0, hrest⟩ := hops
      obtain ⟨t, rfl⟩ : ∃ t : Nat, off = (t : Int) := ⟨off.toNat, by omega⟩
      refine ⟨.seek t, { pf with pos := t }, ?_, ?_, mkAbs t, by simpa using hrest⟩
      · simp only [plainStep, PyFile.seek, PyFile.seekSet_ok, Except.map]
      · have h := seek_set_eq x (t : Int) (stub.length + 8 + t) (by omega) (by rw [hL.off]; omega)
        simp only [stepOp, h, Except.map, Out.shift]
        rw [Nat.add_comm t]
    | 1, hops =>
      simp only [Bool.and_eq_true, decide_eq_true_eq] at hops
      obtain ⟨h0, hrest⟩ := hops
      obtain ⟨t, ht⟩ : ∃ t : Nat, (pf.pos : Int) + off = (t : Int) := ⟨((pf.pos : Int) + off).toNat, by omega⟩
      rw [ht] at hrest h0
      refine ⟨.seek t, { pf with pos := t }, ?_, ?_, mkAbs t, by simpa using hrest⟩
      · simp only [plainStep, PyFile.seek, PyFile.seekCur, seekRel_ok pf pf.pos off t ht, Except.map]
      · have h := seek_cur_eq x off (stub.length + 8 + t) (by simp only [tell, PyFile.tell]; rw [hpos, hL.off]; omega)
        simp only [stepOp, h, Except.map, Out.shift]
        rw [Nat.add_comm t]
    | 2, hops =>
      simp only [Bool.and_eq_true, decide_eq_true_eq] at hops
      obtain ⟨h0, hrest⟩ := hops
      obtain ⟨t, ht⟩ : ∃ t : Nat, (enc.length : Int) + off = (t : Int) := ⟨((enc.length : Int) + off).toNat, by omega⟩
      rw [ht] at hrest h0
      have hrawlen : x.fh.data.length = stub.length + 8 + enc.length := by
        rw [hL.data]; simp only [List.length_append, hL.nlen, hL.slen]
      refine ⟨.seek t, { pf with pos := t }, ?_, ?_, mkAbs t, by simpa using hrest⟩
      · simp only [plainStep, PyFile.seek, PyFile.seekEnd, seekRel_ok pf pf.data.length off t (by rw [hplen]; exact ht), Except.map]
      · have h := seek_end_eq x off (stub.length + 8 + t) (by rw [hrawlen, hL.off]; omega)
        simp only [stepOp, h, Except.map, Out.shift]
        rw [Nat.add_comm t]
    | (w + 3), hops => simp at hops


theorem withPos_withPos (x : XorFile) (a b : Nat) : (x.withPos a).withPos b = x.withPos b := rfl

theorem run_refines {stub nonce size enc : Bytes} (ops : List Op) :
    ∀ {x : XorFile} {pf : PyFile}, Abs stub nonce size enc x pf →
      seeksNonneg enc.length pf.pos ops = true →
      ∃ outs pf', plainRun pf ops = .ok (outs, pf') ∧
        run x ops = .ok (outs.map (Out.shift (stub.length + 8)), x.withPos (stub.length + 8 + pf'.pos)) ∧
        Abs stub nonce size enc (x.withPos (stub.length + 8 + pf'.pos)) pf' := by
  induction ops with
  | nil =>
    intro x pf hA _
    refine ⟨[], pf, rfl, ?_, ?_⟩
    · rw [← hA.pos]; rfl
    · rw [← hA.pos]; exact hA
  | cons op ops ih =>
    intro x pf hA hops
    obtain ⟨o, pf1, hp1, hx1, hA1, hops1⟩ := step_refines hA op ops hops
    obtain ⟨outs, pf2, hp2, hx2, hA2⟩ := ih hA1 hops1
    refine ⟨o :: outs, pf2, ?_, ?_, ?_⟩
    · simp only [plainRun, hp1, hp2]
    · simp only [run, hx1, hx2, List.map_cons, withPos_withPos]
    · rw [withPos_withPos] at hA2; exact hA2

theorem mk'_spec (stub nonce size enc : Bytes) (hn : nonce.length = 4) (hs : size.length = 4)
    (f : PyFile) (hd : f.data = stub ++ nonce ++ size ++ enc) :
    mk' f stub.length = .ok { fh := { f with pos := stub.length + 8 }, nonceOff := stub.length,
                              initialNonce := nonce, noncedSize := size } := by
  have h1 : f.data.drop stub.length = nonce ++ (size ++ enc) := by
    rw [hd]
    have := drop_prefix stub (nonce ++ (size ++ enc)) stub.length 0 rfl
    simp only [Nat.add_zero, List.drop_zero] at this
    rw [← this]; simp only [List.append_assoc]
  have h2 : f.data.drop (stub.length + 4) = size ++ enc := by
    rw [hd]
    have := drop_prefix (stub ++ nonce) (size ++ enc) (stub.length + 4) 0 (by simp [hn])
    simpa using this
  simp only [mk', PyFile.seekSet_ok, read4, h1]
  have e1 : (nonce ++ (size ++ enc)).take 4 = nonce := by
    rw [List.take_append_of_le_length (by omega), List.take_of_length_le (by omega)]
  simp only [e1, hn, h2]
  have e2 : (size ++ enc).take 4 = size := by
    rw [List.take_append_of_le_length (by omega), List.take_of_length_le (by omega)]
  simp only [e2, hs]


/-! ### detection -/

theorem nonceLoop_ok (rs : Int) (k : Nat) : ∀ (i : Nat) (f : PyFile),
    ∃ l f', nonceLoop rs k i f = .ok (l, f') ∧ f'.data = f.data ∧ f'.kind = f.kind := by
  induction k with
  | zero => intro i f; exact ⟨[], f, rfl, rfl, rfl⟩
  | succ k ih =>
    intro i f
    simp only [nonceLoop, PyFile.seekSet_ok]
    split
    · exact ⟨[], _, rfl, rfl, rfl⟩
    · obtain ⟨l, f', h, hd, hk⟩ := ih (i + 1) ((({ f with pos := i } : PyFile).read 4).2.read 4).2
      rw [h]
      simp only
      split
      · exact ⟨_, _, rfl, hd, hk⟩
      · exact ⟨_, _, rfl, hd, hk⟩

theorem read4_at (f : PyFile) (pre a rest : Bytes) (i : Nat) (hd : f.data = pre ++ a ++ rest)
    (hi : pre.length = i) (ha : a.length = 4) :
    ({ f with pos := i } : PyFile).read 4 = (a, { f with pos := i + 4 }) := by
  rw [read4]
  simp only
  have : f.data.drop i = a ++ rest := by
    rw [hd, List.append_assoc]
    have := drop_prefix pre (a ++ rest) i 0 hi
    simpa using this
  rw [this, List.take_append_of_le_length (by omega), List.take_of_length_le (by omega), ha]

/-- a full 4-byte read is possible wherever 4 bytes are left -/
theorem read4_len (f : PyFile) (i : Nat) (h : i + 4 ≤ f.data.length) :
    (({ f with pos := i } : PyFile).read 4).1.length = 4 ∧
    (({ f with pos := i } : PyFile).read 4).2 = { f with pos := i + 4 } := by
  rw [read4]
  simp only [List.length_take, List.length_drop]
  have : min 4 (f.data.length - i) = 4 := by omega
  rw [this]; exact ⟨rfl, rfl⟩

theorem nonceLoop_finds (rs : Int) (stub nonce size rest : Bytes) (hn : nonce.length = 4) (hs : size.length = 4)
    (hrs : u32 (C20.xor nonce size) + (stub.length : Int) + 8 = rs) (k : Nat) :
    ∀ (i : Nat) (f : PyFile), f.data = stub ++ nonce ++ size ++ rest → i ≤ stub.length → stub.length < i + k →
      ∃ l f', nonceLoop rs k i f = .ok (l, f') ∧ stub.length ∈ l := by
  induction k with
  | zero => intro i f _ h1 h2; omega
  | succ k ih =>
    intro i f hd h1 h2
    have hlen : f.data.length = stub.length + 8 + rest.length := by
      rw [hd]; simp only [List.length_append, hn, hs]
    simp only [nonceLoop, PyFile.seekSet_ok]
    obtain ⟨hl1, hf1⟩ := read4_len f i (by omega)
    rw [hf1]
    obtain ⟨hl2, hf2⟩ := read4_len f (i + 4) (by omega)
    have hpos : ({ f with pos := i + 4 } : PyFile) = { ({ f with pos := i } : PyFile) with pos := i + 4 } := rfl
    have hl2' : (({ f with pos := i + 4 } : PyFile).read 4).1.length = 4 := hl2
    have hbr : ¬ ((({ f with pos := i } : PyFile).read 4).1.length ≠ 4 ∨ (({ f with pos := i + 4 } : PyFile).read 4).1.length ≠ 4) := by
      rw [hl1, hl2']; simp
    simp only [hbr, if_false]
    by_cases hi : i = stub.length
    · obtain ⟨l, f', h, _, _⟩ := nonceLoop_ok rs k (i + 1) (({ f with pos := i + 4 } : PyFile).read 4).2
      rw [h]
      simp only
      have e1 := read4_at f stub nonce (size ++ rest) i (by rw [hd]; simp) hi.symm hn
      have e2 := read4_at f (stub ++ nonce) size rest (i + 4) (by rw [hd]) (by simp [hn, hi]) hs
      rw [e1, e2]
      simp only
      rw [hi, hrs]
      simp only [if_true]
      exact ⟨_, _, rfl, List.mem_cons_self⟩
    · obtain ⟨l, f', h, hm⟩ := ih (i + 1) (({ f with pos := i + 4 } : PyFile).read 4).2 (by rw [hf2]; exact hd) (by omega) (by omega)
      rw [h]
      simp only
      split
      · exact ⟨_, _, rfl, List.mem_cons_of_mem _ hm⟩
      · exact ⟨_, _, rfl, hm⟩


/-! ### `Counter(...).most_common()` -/

theorem counterAdd_keys (c : List (Nat × Nat)) (k : Nat) :
    (counterAdd c k).map (·.1) = if k ∈ c.map (·.1) then c.map (·.1) else c.map (·.1) ++ [k] := by
  induction c with
  | nil => simp [counterAdd]
  | cons h t ih =>
    obtain ⟨k', n⟩ := h
    simp only [counterAdd]
    by_cases hk : k' = k
    · subst hk; simp
    · have hk' : ¬ k = k' := fun h => hk h.symm
      simp only [hk, if_false, List.map_cons, ih, List.mem_cons, hk', false_or]
      split <;> simp

theorem mem_counterAdd_keys (c : List (Nat × Nat)) (k j : Nat) :
    j ∈ (counterAdd c k).map (·.1) ↔ j = k ∨ j ∈ c.map (·.1) := by
  rw [counterAdd_keys]
  split
  · rename_i h
    constructor
    · exact Or.inr
    · rintro (rfl | h') <;> assumption
  · simp only [List.mem_append, List.mem_singleton]
    constructor
    · rintro (h | h); exact Or.inr h; exact Or.inl h
    · rintro (h | h); exact Or.inr h; exact Or.inl h

theorem mem_foldl_counterAdd (xs : List Nat) (c : List (Nat × Nat)) (j : Nat) :
    j ∈ (xs.foldl counterAdd c).map (·.1) ↔ j ∈ xs ∨ j ∈ c.map (·.1) := by
  induction xs generalizing c with
  | nil => simp
  | cons x xs ih =>
    simp only [List.foldl_cons, ih, mem_counterAdd_keys, List.mem_cons]
    constructor
    · rintro (h | h | h)
      · exact Or.inl (Or.inr h)
      · exact Or.inl (Or.inl h)
      · exact Or.inr h
    · rintro ((h | h) | h)
      · exact Or.inr (Or.inl h)
      · exact Or.inl h
      · exact Or.inr (Or.inr h)

theorem mem_counter_keys (xs : List Nat) (j : Nat) : j ∈ (counter xs).map (·.1) ↔ j ∈ xs := by
  simp [counter, mem_foldl_counterAdd]

theorem insertByCount_perm (e : Nat × Nat) (l : List (Nat × Nat)) : (insertByCount e l).Perm (e :: l) := by
  induction l with
  | nil => exact List.Perm.refl _
  | cons h t ih =>
    simp only [insertByCount]
    split
    · exact List.Perm.refl _
    · exact (List.Perm.cons h ih).trans (List.Perm.swap e h t)

theorem mostCommon_perm (c : List (Nat × Nat)) : (mostCommon c).Perm c := by
  induction c with
  | nil => exact List.Perm.refl _
  | cons e t ih =>
    simp only [mostCommon, List.foldr_cons]
    exact (insertByCount_perm e _).trans (List.Perm.cons e ih)

theorem insertByCount_sorted (e : Nat × Nat) (l : List (Nat × Nat))
    (h : l.Pairwise (fun a b => a.2 ≥ b.2)) : (insertByCount e l).Pairwise (fun a b => a.2 ≥ b.2) := by
  induction l with
  | nil => simp [insertByCount]
  | cons x t ih =>
    simp only [insertByCount]
    rw [List.pairwise_cons] at h
    split
    · rename_i hle
      refine List.pairwise_cons.mpr ⟨?_, List.pairwise_cons.mpr h⟩
      intro b hb
      rcases List.mem_cons.mp hb with rfl | hb
      · exact hle
      · exact Nat.le_trans (h.1 b hb) hle
    · rename_i hgt
      refine List.pairwise_cons.mpr ⟨?_, ih h.2⟩
      intro b hb
      rcases List.mem_cons.mp ((insertByCount_perm e t).mem_iff.mp hb) with rfl | hb
      · omega
      · exact h.1 b hb

/-- `most_common()` is sorted by count, descending -/
theorem mostCommon_sorted (c : List (Nat × Nat)) : (mostCommon c).Pairwise (fun a b => a.2 ≥ b.2) := by
  induction c with
  | nil => exact List.Pairwise.nil
  | cons e t ih => exact insertByCount_sorted e _ ih

theorem insertByCount_filter (e : Nat × Nat) (l : List (Nat × Nat)) (n : Nat) :
    (insertByCount e l).filter (·.2 == n) = (e :: l).filter (·.2 == n) := by
  induction l with
  | nil => rfl
  | cons x t ih =>
    simp only [insertByCount]
    split
    · rfl
    · rename_i hgt
      rw [List.filter_cons, ih]
      by_cases hx : x.2 = n
      · have he : ¬ e.2 = n := by omega
        simp [hx, he]
      · simp [List.filter_cons, hx]

/-- … and stable: entries with equal counts keep their dict (first-insertion) order -/
theorem mostCommon_stable (c : List (Nat × Nat)) (n : Nat) :
    (mostCommon c).filter (·.2 == n) = c.filter (·.2 == n) := by
  induction c with
  | nil => rfl
  | cons e t ih =>
    simp only [mostCommon, List.foldr_cons] at ih ⊢
    rw [insertByCount_filter, List.filter_cons, List.filter_cons, ih]

theorem mem_candidates (hits offs : List Nat) (c : Nat) :
    c ∈ candidates hits offs ↔ c ∈ hits.map (· + 3) ∨ c ∈ offs := by
  simp only [candidates]
  rw [(List.Perm.map _ (mostCommon_perm _)).mem_iff, mem_counter_keys, List.mem_append]

/-! ### the candidate loop -/

theorem mk'_ok (f : PyFile) (c : Nat) :
    ∃ x, mk' f c = .ok x ∧ x.nonceOff = c ∧ x.fh.data = f.data ∧ x.fh.kind = f.kind := by
  simp only [mk', PyFile.seekSet_ok]
  exact ⟨_, rfl, rfl, rfl, rfl⟩

theorem mk'_congr (f g : PyFile) (c : Nat) (hd : f.data = g.data) (hk : f.kind = g.kind) :
    mk' f c = mk' g c := by
  obtain ⟨fd, fp, fk⟩ := f
  obtain ⟨gd, gp, gk⟩ := g
  simp only at hd hk
  subst hd hk
  simp only [mk', PyFile.seekSet_ok]

theorem seek0_ok (x : XorFile) : seek x 0 0 = .ok (x.nonceOff + 8, x.withPos (x.nonceOff + 8)) := by
  exact seek_set_eq x 0 _ (by omega) (by omega)

theorem tryCandidates_reject (mzOk : Nat → Bool) (cs : List Nat) :
    ∀ (g : PyFile), (∀ c ∈ cs, mzOk c = false) → tryCandidates g mzOk cs = .error .valueError := by
  induction cs with
  | nil => intro g _; rfl
  | cons c cs ih =>
    intro g h
    obtain ⟨x, hx, _, _, _⟩ := mk'_ok g c
    simp only [tryCandidates, hx, h c List.mem_cons_self]
    exact ih x.fh (fun d hd => h d (List.mem_cons_of_mem _ hd))

theorem tryCandidates_first (mzOk : Nat → Bool) (f : PyFile) (pre : List Nat) (c : Nat) (post : List Nat)
    (x0 : XorFile) (hx0 : mk' f c = .ok x0) (hc : mzOk c = true) :
    ∀ (g : PyFile), g.data = f.data → g.kind = f.kind → (∀ d ∈ pre, mzOk d = false) →
      tryCandidates g mzOk (pre ++ c :: post) = .ok (x0.withPos (c + 8)) := by
  induction pre with
  | nil =>
    intro g hd hk _
    have hn : x0.nonceOff = c := by
      obtain ⟨x, hx, hn, _, _⟩ := mk'_ok f c
      rw [hx] at hx0; injection hx0 with hx0; rw [← hx0]; exact hn
    simp only [List.nil_append, tryCandidates, mk'_congr g f c hd hk, hx0, hc, if_true, seek0_ok, hn]
  | cons d pre ih =>
    intro g hd hk h
    obtain ⟨x, hx, _, hxd, hxk⟩ := mk'_ok g d
    simp only [List.cons_append, tryCandidates, hx, h d List.mem_cons_self]
    exact ih x.fh (by rw [hxd, hd]) (by rw [hxk, hk]) (fun e he => h e (List.mem_cons_of_mem _ he))

theorem iterNonceOffsets_ok (f : PyFile) (mr : Nat) :
    ∃ l f', iterNonceOffsets f none mr = .ok (l, f') ∧ f'.data = f.data ∧ f'.kind = f.kind := by
  simp only [iterNonceOffsets, PyFile.seekEnd]
  rw [seekRel_ok f f.data.length 0 f.data.length (by omega)]
  simp only
  exact nonceLoop_ok _ _ _ _


/-! ### the encoder used in examples, splitting a candidate list -/

theorem rollEncodeAux_length (K P : Bytes) : (rollEncodeAux K P).length = P.length := by
  induction P generalizing K with
  | nil => cases K <;> rfl
  | cons p ps ih => cases K <;> simp [rollEncodeAux, ih]

theorem zipWith_rollEncodeAux (P : Bytes) : ∀ K : Bytes, K ≠ [] →
    List.zipWith (· ^^^ ·) (rollEncodeAux K P) (K ++ rollEncodeAux K P) = P := by
  induction P with
  | nil => intro K _; cases K <;> simp [rollEncodeAux]
  | cons p ps ih =>
    intro K hK
    match K, hK with
    | k :: ks, _ =>
      simp only [rollEncodeAux, List.cons_append, List.zipWith_cons_cons]
      have h1 : p ^^^ k ^^^ k = p := by
        rw [UInt8.xor_assoc, UInt8.xor_self, UInt8.xor_zero]
      have h2 := ih (ks ++ [p ^^^ k]) (by simp)
      rw [List.append_assoc] at h2
      simp only [List.singleton_append] at h2
      rw [h1, h2]


theorem first_passing_split (mzOk : Nat → Bool) (cs : List Nat) (h : ∃ c ∈ cs, mzOk c = true) :
    ∃ pre d post, cs = pre ++ d :: post ∧ (∀ e ∈ pre, mzOk e = false) ∧ mzOk d = true := by
  induction cs with
  | nil => obtain ⟨c, hc, _⟩ := h; cases hc
  | cons a cs ih =>
    cases ha : mzOk a with
    | true => exact ⟨[], a, cs, rfl, (by intro e he; cases he), ha⟩
    | false =>
      obtain ⟨c, hc, hm⟩ := h
      have : ∃ c ∈ cs, mzOk c = true := by
        rcases List.mem_cons.mp hc with rfl | hc'
        · rw [ha] at hm; cases hm
        · exact ⟨c, hc', hm⟩
      obtain ⟨pre, d, post, h1, h2, h3⟩ := ih this
      refine ⟨a :: pre, d, post, by rw [h1]; rfl, ?_, h3⟩
      intro e he
      rcases List.mem_cons.mp he with rfl | he'
      · exact ha
      · exact h2 e he'

/-! ### `find_mz_offset` on a view whose plaintext starts with a PE header -/

theorem seek_set_layout {stub nonce size enc : Bytes} {x : XorFile} (hL : Layout stub nonce size enc x) (t : Nat) :
    seek x (t : Int) 0 = .ok (stub.length + 8 + t, x.withPos (stub.length + 8 + t)) :=
  seek_set_eq x (t : Int) (stub.length + 8 + t) (by omega) (by rw [hL.off]; omega)

/-- what `find_mz_offset` looks at when the image starts at logical offset 0 (`e` = `e_lfanew`) -/
structure PeHeaderAt0 (plain : Bytes) (maxrange e : Nat) : Prop where
  dos : 64 ≤ plain.length
  lfanew : int32le ((plain.drop 60).take 4) = (e : Int)
  lfanew_pos : 0 < e
  lfanew_lt : e < maxrange
  filehdr : 4 + e + 20 ≤ plain.length
  machine : u16le ((plain.drop (4 + e)).take 2) = 0x8664 ∨ u16le ((plain.drop (4 + e)).take 2) = 0x14c

theorem mzStep_header {stub nonce size enc : Bytes} {x : XorFile} (hL : Layout stub nonce size enc x)
    (maxrange k : Nat) (hpe : PeHeaderAt0 (rollDecode nonce enc) maxrange k) :
    ∃ x', mzStep x 0 maxrange 0 = .ok (some 0, x') := by
  obtain ⟨h64, he, hpos, hlt, hfh, hm⟩ := hpe
  generalize hplain : rollDecode nonce enc = plain at *
  have hplen : plain.length = enc.length := by rw [← hplain, rollDecode_length]
  unfold mzStep
  have s1 := seek_set_layout hL 0
  simp only [Nat.add_zero] at s1 ⊢
  rw [show ((0 : Nat) : Int) = ((0 : Nat) : Int) from rfl, s1]
  simp only
  have r1 := read_spec (layout_withPos hL (stub.length + 8)) 0 rfl (some 64)
  rw [hplain] at r1
  have hp1 : plainRead plain 0 (some 64) = plain.take 64 := by
    rw [plainRead_eq]; simp [normN]
  rw [hp1] at r1
  rw [r1]
  simp only
  have hl64 : (plain.take 64).length = 64 := by rw [List.length_take]; omega
  have hnot : ¬ (plain.take 64).length < 64 := by omega
  simp only [hnot, if_false]
  have hsl : ((plain.take 64).drop 60).take 4 = (plain.drop 60).take 4 := by
    rw [List.drop_take, List.take_take]
    have : min 4 (64 - 60) = 4 := by decide
    rw [this]
  rw [hsl, he]
  have hcond : (0 : Int) < (k : Int) ∧ (k : Int) < (maxrange : Int) := ⟨by omega, by omega⟩
  simp only [hcond, and_self, if_true]
  have s2 := seek_set_layout (layout_withPos (layout_withPos hL (stub.length + 8)) (stub.length + 8 + 0 + (plain.take 64).length)) (4 + k)
  have hcast : (((0 + 4 : Nat) : Int) + (k : Int)) = ((4 + k : Nat) : Int) := by omega
  rw [hcast, s2]
  simp only
  have r2 := read_spec (layout_withPos (layout_withPos (layout_withPos hL (stub.length + 8)) (stub.length + 8 + 0 + (plain.take 64).length)) (stub.length + 8 + (4 + k)))
    (4 + k) rfl (some 20)
  rw [hplain] at r2
  have hp2 : plainRead plain (4 + k) (some 20) = (plain.drop (4 + k)).take 20 := by
    rw [plainRead_eq]; simp [normN]
  rw [hp2] at r2
  rw [r2]
  simp only
  have hl20 : ((plain.drop (4 + k)).take 20).length = 20 := by rw [List.length_take, List.length_drop]; omega
  have hnot2 : ¬ ((plain.drop (4 + k)).take 20).length < 20 := by omega
  simp only [hnot2, if_false]
  have hsl2 : ((plain.drop (4 + k)).take 20).take 2 = (plain.drop (4 + k)).take 2 := by
    rw [List.take_take]
    have : min 2 20 = 2 := by decide
    rw [this]
  rw [hsl2]
  simp only [hm, if_true]
  exact ⟨_, rfl⟩

theorem mzLoop_succ (start maxrange k offset : Nat) (x : XorFile) :
    mzLoop start maxrange (k + 1) offset x =
      match mzStep x start maxrange offset with
      | .error e => .error e
      | .ok (some r, x') => .ok (some r, x')
      | .ok (none, x') => mzLoop start maxrange k (offset + 1) x' := by rfl

theorem findMz_header {stub nonce size enc : Bytes} {x : XorFile} (hL : Layout stub nonce size enc x)
    (maxrange k : Nat) (hpe : PeHeaderAt0 (rollDecode nonce enc) maxrange k) :
    ∃ x', findMzOffset x 0 maxrange = .ok (some 0, x') := by
  obtain ⟨x', h⟩ := mzStep_header hL maxrange k hpe
  cases maxrange with
  | zero => exact absurd hpe.lfanew_lt (Nat.not_lt_zero _)
  | succ m =>
    refine ⟨x', ?_⟩
    unfold findMzOffset
    rw [mzLoop_succ, h]


/-! ### totality and framing: no operation of the view raises (except `seek` to a negative raw offset),
and only the raw cursor ever changes -/

theorem xor_length' (d k : Bytes) : (C20.xor d k).length = d.length := by
  unfold C20.xor; split
  · rfl
  · simp [C20.xorCore]

theorem readLoop_frame (n : Int) (f : PyFile) (nonce : Bytes) (got : Nat) :
    (readLoop n f nonce got).2 = { f with pos := f.pos + (readLoop n f nonce got).1.length } := by
  fun_induction readLoop n f nonce got with
  | case1 f nonce got hnil =>
    rw [read4] at hnil ⊢
    simp only at hnil
    simp only [hnil, List.length_nil, Nat.add_zero]
  | case2 f nonce got hne chunk dec hbreak =>
    show (f.read 4).2 = { f with pos := f.pos + (C20.xor (f.read 4).1 nonce).length }
    rw [xor_length', read4]
  | case3 f nonce got hne chunk dec hbreak r ih =>
    show r.2 = { f with pos := f.pos + (dec ++ r.1).length }
    have hd : dec.length = (f.read 4).1.length := xor_length' _ _
    have hp : (f.read 4).2.pos + r.1.length = f.pos + (dec ++ r.1).length := by
      rw [List.length_append, hd, PyFile.read_pos]; omega
    have e : r.2 = { data := (f.read 4).2.data, pos := (f.read 4).2.pos + r.1.length, kind := (f.read 4).2.kind } := ih
    rw [e, PyFile.read_data, PyFile.read_kind, hp]

theorem read_tail_total (x1 : XorFile) (m : Int) (hm : m = -1 ∨ 0 ≤ m) (nonce : Bytes) :
    ∃ out q, (let r := readLoop m x1.fh nonce 0
      if m = -1 then (Except.ok (r.1, { x1 with fh := r.2 }) : Py (Bytes × XorFile))
      else if (r.1.length : Int) > m then
        match r.2.seekCur (m - (r.1.length : Int)) with
        | .error e => .error e
        | .ok (_, f3) => .ok (r.1.take m.toNat, { x1 with fh := f3 })
      else .ok (r.1.take m.toNat, { x1 with fh := r.2 })) = .ok (out, x1.withPos q) := by
  have hfr := readLoop_frame m x1.fh nonce 0
  dsimp only
  by_cases h1 : m = -1
  · rw [if_pos h1, hfr]
    exact ⟨_, _, rfl⟩
  · rw [if_neg h1]
    by_cases h2 : ((readLoop m x1.fh nonce 0).1.length : Int) > m
    · rw [if_pos h2, hfr]
      simp only [PyFile.seekCur]
      rw [seekRel_ok _ _ _ (x1.fh.pos + m.toNat) (by omega)]
      exact ⟨_, _, rfl⟩
    · rw [if_neg h2, hfr]
      exact ⟨_, _, rfl⟩

/-- `read` never raises and changes nothing but the raw cursor — for every object state, also outside the
layout hypotheses (wrong nonce offset, cursor anywhere). -/
theorem read_total (x : XorFile) (n : Option Int) : ∃ out q, read x n = .ok (out, x.withPos q) := by
  rw [read_unfold]
  by_cases h0 : normN n = 0
  · rw [if_pos h0]; exact ⟨[], x.fh.pos, rfl⟩
  · rw [if_neg h0]
    obtain ⟨nonce, hn⟩ := readNonce_restores x
    rw [hn]
    obtain ⟨out, q', h⟩ := read_tail_total x (normN n) (normN_cases n) nonce
    exact ⟨out, q', h⟩


theorem seek_set_nonneg (x : XorFile) (t : Int) (ht : 0 ≤ t) :
    seek x t 0 = .ok ((t + x.nonceOff + 8).toNat, x.withPos (t + x.nonceOff + 8).toNat) :=
  seek_set_eq x t _ ht (by omega)

/-- one iteration of `find_mz_offset` on a view never raises and only moves the cursor -/
theorem mzStep_total (x : XorFile) (start maxrange offset : Nat) :
    ∃ r q, mzStep x start maxrange offset = .ok (r, x.withPos q) := by
  unfold mzStep
  rw [seek_set_nonneg x _ (by omega)]
  dsimp only
  obtain ⟨hdr, q1, h1⟩ := read_total (x.withPos ((((start + offset : Nat) : Int) + x.nonceOff + 8).toNat)) (some 64)
  rw [h1]
  dsimp only
  split
  · exact ⟨none, q1, rfl⟩
  · split
    · rename_i hl
      rw [seek_set_nonneg _ _ (by omega)]
      dsimp only
      obtain ⟨ih, q2, h2⟩ := read_total (((x.withPos ((((start + offset : Nat) : Int) + x.nonceOff + 8).toNat)).withPos q1).withPos
        ((((start + offset + 4 : Nat) : Int) + int32le ((hdr.drop 60).take 4) +
          (((x.withPos ((((start + offset : Nat) : Int) + x.nonceOff + 8).toNat)).withPos q1).nonceOff : Int) + 8).toNat)) (some 20)
      rw [h2]
      dsimp only
      split
      · exact ⟨none, q2, rfl⟩
      · split
        · exact ⟨_, q2, rfl⟩
        · exact ⟨none, q2, rfl⟩
    · exact ⟨none, q1, rfl⟩

theorem mzLoop_total (start maxrange : Nat) (k : Nat) : ∀ (offset : Nat) (x : XorFile),
    ∃ r q, mzLoop start maxrange k offset x = .ok (r, x.withPos q) := by
  induction k with
  | zero => intro offset x; exact ⟨none, x.fh.pos, rfl⟩
  | succ k ih =>
    intro offset x
    rw [mzLoop_succ]
    obtain ⟨r, q, h⟩ := mzStep_total x start maxrange offset
    rw [h]
    cases r with
    | some v => exact ⟨some v, q, rfl⟩
    | none =>
      obtain ⟨r', q', h'⟩ := ih (offset + 1) (x.withPos q)
      exact ⟨r', q', h'⟩

/-- `pe.find_mz_offset` on a decoding view never raises (EOFError is caught by `continue`, every seek it
performs is to a non-negative raw offset) and leaves everything but the cursor unchanged. -/
theorem findMzOffset_total (x : XorFile) (start maxrange : Nat) :
    ∃ r q, findMzOffset x start maxrange = .ok (r, x.withPos q) :=
  mzLoop_total start maxrange maxrange 0 x

attribute [local irreducible] mzLoop

theorem tryCandidatesFull_cons (g : PyFile) (c : Nat) (cs : List Nat) :
    tryCandidatesFull g (c :: cs) =
      match mk' g c with
      | .error e => .error e
      | .ok xf =>
        match findMzOffset xf 0 1024 with
        | .error e => .error e
        | .ok (some _, xf1) =>
          match seek xf1 0 0 with
          | .error e => .error e
          | .ok (_, xf') => .ok xf'
        | .ok (none, xf1) => tryCandidatesFull xf1.fh cs := by rfl

theorem tryCandidates_cons (g : PyFile) (mzOk : Nat → Bool) (c : Nat) (cs : List Nat) :
    tryCandidates g mzOk (c :: cs) =
      match mk' g c with
      | .error e => .error e
      | .ok xf =>
        if mzOk c then
          match seek xf 0 0 with
          | .error e => .error e
          | .ok (_, xf') => .ok xf'
        else tryCandidates xf.fh mzOk cs := by rfl

theorem tryCandidates_congr (mzOk : Nat → Bool) (cs : List Nat) :
    ∀ g g' : PyFile, g.data = g'.data → g.kind = g'.kind → tryCandidates g mzOk cs = tryCandidates g' mzOk cs := by
  induction cs with
  | nil => intro g g' _ _; rfl
  | cons c cs _ =>
    intro g g' hd hk
    rw [tryCandidates_cons, tryCandidates_cons, mk'_congr g g' c hd hk]

/-- the candidate loop with the modelled MZ check is the parameterised loop instantiated with
"`find_mz_offset` returns an offset" -/
theorem tryCandidatesFull_eq (f : PyFile) (mzOk : Nat → Bool)
    (hmz : ∀ (c : Nat) (x0 : XorFile), mk' f c = .ok x0 →
      ∀ (r : Option Nat) (y : XorFile), findMzOffset x0 0 1024 = .ok (r, y) → mzOk c = r.isSome) (cs : List Nat) :
    ∀ g : PyFile, g.data = f.data → g.kind = f.kind → tryCandidatesFull g cs = tryCandidates g mzOk cs := by
  induction cs with
  | nil => intro g _ _; rfl
  | cons c cs ih =>
    intro g hd hk
    obtain ⟨x0, hx0, hn0, hd0, hk0⟩ := mk'_ok f c
    have hg : mk' g c = .ok x0 := by rw [mk'_congr g f c hd hk]; exact hx0
    obtain ⟨r, q, hr⟩ := findMzOffset_total x0 0 1024
    have hm := hmz c x0 hx0 r _ hr
    rw [tryCandidatesFull_cons, tryCandidates_cons]
    simp only [hg, hr, hm]
    cases r with
    | some v =>
      simp only [Option.isSome_some, if_true, seek0_ok]
      rfl
    | none =>
      simp only [Option.isSome_none]
      have e1 := ih (x0.withPos q).fh (by rw [← hd0]; rfl) (by rw [← hk0]; rfl)
      have e2 : tryCandidates (x0.withPos q).fh mzOk cs = tryCandidates x0.fh mzOk cs := by
        exact tryCandidates_congr mzOk cs _ _ rfl rfl
      simp [e1, e2]

theorem fromFileFull_eq (f : PyFile) (maxrange : Nat) (markerHits : List Nat) (mzOk : Nat → Bool)
    (hmz : ∀ (c : Nat) (x0 : XorFile), mk' f c = .ok x0 →
      ∀ (r : Option Nat) (y : XorFile), findMzOffset x0 0 1024 = .ok (r, y) → mzOk c = r.isSome) :
    fromFileFull f maxrange markerHits = fromFile f maxrange markerHits mzOk := by
  obtain ⟨l, f1, hl, hd, hk⟩ := iterNonceOffsets_ok f maxrange
  simp only [fromFileFull, fromFile, hl]
  exact tryCandidatesFull_eq f mzOk hmz _ f1 hd hk

/-- the verdict of the modelled MZ check for candidate `c` (used to instantiate `mzOk`) -/
def mzVerdict (f : PyFile) (c : Nat) : Bool :=
  match mk' f c with
  | .ok x0 =>
    match findMzOffset x0 0 1024 with
    | .ok (some _, _) => true
    | _ => false
  | .error _ => false

theorem mzVerdict_spec (f : PyFile) (c : Nat) (x0 : XorFile) (h0 : mk' f c = .ok x0)
    (r : Option Nat) (y : XorFile) (hr : findMzOffset x0 0 1024 = .ok (r, y)) : mzVerdict f c = r.isSome := by
  unfold mzVerdict
  rw [h0]
  dsimp only
  rw [hr]
  cases r <;> rfl


/-! ### detection with the real needle scanner (`C15.iterFindNeedle`)

`C01.needleLoop_frame` states the same frame property, but `Lemmas/C01.lean` imports this file. -/

theorem needleLoop_frame (B : Nat) (needle : Bytes) (m : Nat) (f : PyFile) (saved : Bytes) :
    (C15.needleLoop B needle m f saved).2.data = f.data ∧ (C15.needleLoop B needle m f saved).2.kind = f.kind := by
  fun_induction C15.needleLoop B needle m f saved with
  | case1 f saved pos hcut => exact ⟨rfl, rfl⟩
  | case2 f saved pos hcut hblk => exact ⟨rfl, rfl⟩
  | case3 f saved pos hcut hblk block d offs rest ih => exact ih

theorem eofMarker_ne : eofMarker ≠ [] := by decide

theorem markerScan_eq (B : Nat) (f : PyFile) (m : Nat) :
    markerScan B f m = .ok (C15.needleLoop B eofMarker m { f with pos := 0 } []) := by
  simp only [markerScan, C15.iterFindNeedle]
  have : f.seekSet (0 : Int) = .ok (0, { f with pos := 0 }) := PyFile.seekSet_ok f 0
  rw [this]

theorem markerScan_ok (B : Nat) (f : PyFile) (m : Nat) :
    ∃ hits f2, markerScan B f m = .ok (hits, f2) ∧ f2.data = f.data ∧ f2.kind = f.kind := by
  rw [markerScan_eq]
  have := needleLoop_frame B eofMarker m { f with pos := 0 } []
  exact ⟨_, _, rfl, this.1, this.2⟩

theorem markerScan_congr (B : Nat) (f g : PyFile) (m : Nat) (hd : f.data = g.data) (hk : f.kind = g.kind) :
    markerScan B f m = markerScan B g m := by
  obtain ⟨fd, fp, fk⟩ := f
  obtain ⟨gd, gp, gk⟩ := g
  simp only at hd hk
  subst hd hk
  rw [markerScan_eq, markerScan_eq]

def realHits (B : Nat) (f : PyFile) (m : Nat) : List Nat :=
  match markerScan B f m with
  | .ok (hits, _) => hits.map Int.toNat
  | .error _ => []

def sizeOffsets (f : PyFile) (m : Nat) : List Nat :=
  match iterNonceOffsets f none m with
  | .ok (l, _) => l
  | .error _ => []

def realCandidates (B : Nat) (f : PyFile) (m : Nat) : List Nat := candidates (realHits B f m) (sizeOffsets f m)

theorem realHits_of_scan {B : Nat} {f : PyFile} {m : Nat} {hits : List Int} {f2 : PyFile}
    (h : markerScan B f m = .ok (hits, f2)) : realHits B f m = hits.map Int.toNat := by
  simp only [realHits, h]

theorem sizeOffsets_of_scan {f : PyFile} {m : Nat} {l : List Nat} {f1 : PyFile}
    (h : iterNonceOffsets f none m = .ok (l, f1)) : sizeOffsets f m = l := by
  simp only [sizeOffsets, h]

theorem tryCandidatesFull_try (f g : PyFile) (hd : g.data = f.data) (hk : g.kind = f.kind) (cs : List Nat) :
    tryCandidatesFull g cs = tryCandidates f (mzVerdict f) cs := by
  rw [tryCandidatesFull_eq f (mzVerdict f) (mzVerdict_spec f) cs g hd hk]
  exact tryCandidates_congr _ cs g f hd hk

theorem fromFileReal_try (B : Nat) (f : PyFile) (m : Nat) :
    fromFileReal B f m = tryCandidates f (mzVerdict f) (realCandidates B f m) := by
  obtain ⟨l, f1, hl, hd1, hk1⟩ := iterNonceOffsets_ok f m
  obtain ⟨hits, f2, hm, hd2, hk2⟩ := markerScan_ok B f1 m
  have hm' : markerScan B f m = .ok (hits, f2) := by rw [← markerScan_congr B f1 f m hd1 hk1]; exact hm
  simp only [fromFileReal, hl, hm, realCandidates, realHits_of_scan hm', sizeOffsets_of_scan hl]
  exact tryCandidatesFull_try f f2 (by rw [hd2, hd1]) (by rw [hk2, hk1]) _

theorem fromFileReal_full (B : Nat) (f : PyFile) (m : Nat) :
    fromFileReal B f m = fromFileFull f m (realHits B f m) := by
  rw [fromFileReal_try]
  obtain ⟨l, f1, hl, hd1, hk1⟩ := iterNonceOffsets_ok f m
  simp only [fromFileFull, hl, realCandidates, sizeOffsets_of_scan hl]
  exact (tryCandidatesFull_try f f1 hd1 hk1 _).symm


/-- the size relation of `iter_nonce_offsets` at offset `c` of a file of `data.length` bytes -/
def SizeRel (data : Bytes) (rs : Int) (c : Nat) : Prop :=
  c + 8 ≤ data.length ∧ u32 (C20.xor ((data.drop c).take 4) ((data.drop (c + 4)).take 4)) + (c : Int) + 8 = rs

theorem read4_fst (f : PyFile) (i : Nat) : (({ f with pos := i } : PyFile).read 4).1 = (f.data.drop i).take 4 := by
  rw [read4]

theorem read4_snd (f : PyFile) (i : Nat) :
    (({ f with pos := i } : PyFile).read 4).2 = { f with pos := i + ((f.data.drop i).take 4).length } := by
  rw [read4]

theorem nonceLoop_mem (rs : Int) (k : Nat) : ∀ (i : Nat) (f : PyFile) (l : List Nat) (f' : PyFile),
    nonceLoop rs k i f = .ok (l, f') → ∀ c, c ∈ l ↔ i ≤ c ∧ c < i + k ∧ SizeRel f.data rs c := by
  induction k with
  | zero =>
    intro i f l f' h c
    simp only [nonceLoop] at h
    injection h with h
    rw [← (Prod.mk.inj h).1]
    simp only [List.not_mem_nil, false_iff]
    omega
  | succ k ih =>
    intro i f l f' h c
    simp only [nonceLoop, PyFile.seekSet_ok] at h
    by_cases hlen : i + 8 ≤ f.data.length
    · obtain ⟨hl1, hf1⟩ := read4_len f i (by omega)
      obtain ⟨hl2, hf2⟩ := read4_len f (i + 4) (by omega)
      rw [hf1] at h
      have hl2' : (({ f with pos := i + 4 } : PyFile).read 4).1.length = 4 := hl2
      have hbr : ¬ ((({ f with pos := i } : PyFile).read 4).1.length ≠ 4 ∨ (({ f with pos := i + 4 } : PyFile).read 4).1.length ≠ 4) := by
        rw [hl1, hl2']; simp
      simp only [hbr, if_false] at h
      obtain ⟨l0, f0, h0, _, _⟩ := nonceLoop_ok rs k (i + 1) (({ f with pos := i + 4 } : PyFile).read 4).2
      rw [h0] at h
      simp only at h
      have ih0 := ih (i + 1) _ l0 f0 h0 c
      rw [hf2] at ih0
      simp only at ih0
      rw [read4_fst f i, read4_fst f (i + 4)] at h
      by_cases hrel : u32 (C20.xor ((f.data.drop i).take 4) ((f.data.drop (i + 4)).take 4)) + (i : Int) + 8 = rs
      · rw [if_pos hrel] at h
        injection h with h
        rw [← (Prod.mk.inj h).1, List.mem_cons, ih0]
        constructor
        · rintro (rfl | ⟨h1, h2, h3⟩)
          · exact ⟨Nat.le_refl _, by omega, hlen, hrel⟩
          · exact ⟨by omega, by omega, h3⟩
        · rintro ⟨h1, h2, h3⟩
          by_cases hc : c = i
          · exact Or.inl hc
          · exact Or.inr ⟨by omega, by omega, h3⟩
      · rw [if_neg hrel] at h
        injection h with h
        rw [← (Prod.mk.inj h).1, ih0]
        constructor
        · rintro ⟨h1, h2, h3⟩
          exact ⟨by omega, by omega, h3⟩
        · rintro ⟨h1, h2, h3⟩
          by_cases hc : c = i
          · subst hc; exact absurd h3.2 hrel
          · exact ⟨by omega, by omega, h3⟩
    · have hbr : ((({ f with pos := i } : PyFile).read 4).1.length ≠ 4 ∨
          ((({ f with pos := i } : PyFile).read 4).2.read 4).1.length ≠ 4) := by
        rw [read4_fst, read4_snd]
        by_cases h4 : i + 4 ≤ f.data.length
        · right
          have : ((f.data.drop i).take 4).length = 4 := by simp only [List.length_take, List.length_drop]; omega
          rw [this, read4_fst]
          simp only [List.length_take, List.length_drop]; omega
        · left
          simp only [List.length_take, List.length_drop]; omega
      rw [if_pos hbr] at h
      injection h with h
      rw [← (Prod.mk.inj h).1]
      simp only [List.not_mem_nil, false_iff, SizeRel]
      omega

theorem sizeOffsets_iff (f : PyFile) (m c : Nat) :
    c ∈ sizeOffsets f m ↔ c < m ∧ SizeRel f.data (f.data.length : Int) c := by
  obtain ⟨l, f1, hl, _, _⟩ := iterNonceOffsets_ok f m
  rw [sizeOffsets_of_scan hl]
  simp only [iterNonceOffsets, PyFile.seekEnd] at hl
  rw [seekRel_ok f f.data.length 0 f.data.length (by omega)] at hl
  simp only [PyFile.tell] at hl
  have := nonceLoop_mem _ m 0 _ l f1 hl c
  rw [this]
  simp only [Nat.zero_le, true_and, Nat.zero_add]

/-! ### the real marker scan -/

theorem startPos_zero (f : PyFile) : C15.startPos f (some 0) = 0 := rfl

/-- what `needle_exact`'s list is for `start_offset = 0` -/
theorem occ_filter_zero (f : PyFile) (needle : Bytes) :
    (C15.occ f.data needle).filter (fun i => C15.startPos f (some 0) ≤ i) = C15.occ f.data needle := by
  rw [List.filter_eq_self]
  intro a _
  simp [startPos_zero]

theorem toNat_map_ofNat (l : List Nat) : (l.map Int.ofNat).map Int.toNat = l := by
  induction l with
  | nil => rfl
  | cons a t ih => simp only [List.map_cons, ih]; rfl

theorem ofNat_map_toNat (l : List Int) (h : ∀ x ∈ l, 0 ≤ x) : (l.map Int.toNat).map Int.ofNat = l := by
  induction l with
  | nil => rfl
  | cons a t ih =>
    simp only [List.map_cons]
    rw [ih (fun x hx => h x (List.mem_cons_of_mem _ hx))]
    have := h a List.mem_cons_self
    congr 1
    exact Int.toNat_of_nonneg this

/-- the scanner's Python ints are the naturals of `realHits`: nothing is lost by `Int.toNat` -/
theorem markerScan_nonneg (B : Nat) (hB : 1 ≤ B) (f : PyFile) (m : Nat) (hits : List Int) (f2 : PyFile)
    (h : markerScan B f m = .ok (hits, f2)) : hits = (realHits B f m).map Int.ofNat := by
  rw [realHits_of_scan h, ofNat_map_toNat]
  exact C15.needle_nonneg B hB f eofMarker eofMarker_ne (some 0) m hits f2 h

theorem realHits_sublist (B : Nat) (hB : 1 ≤ B) (f : PyFile) (m : Nat) :
    List.Sublist (realHits B f m) (C15.occ f.data eofMarker) := by
  obtain ⟨hits, f2, h, _, _⟩ := markerScan_ok B f m
  have hs := C15.needle_limit_sublist B hB f eofMarker eofMarker_ne (some 0) m hits f2 h
  rw [occ_filter_zero] at hs
  have := hs.map Int.toNat
  rw [toNat_map_ofNat] at this
  rw [realHits_of_scan h]
  exact this

theorem realHits_nolimit (B : Nat) (hB : 1 ≤ B) (f : PyFile) : realHits B f 0 = C15.occ f.data eofMarker := by
  have h := C15.needle_exact B hB f eofMarker eofMarker_ne (some 0) (by intro s hs; cases hs; omega)
  rw [occ_filter_zero] at h
  rw [realHits_of_scan h, toNat_map_ofNat]

theorem realHits_complete (B : Nat) (hB : 1 ≤ B) (f : PyFile) (m : Nat) (i : Nat)
    (hi : i ∈ C15.occ f.data eofMarker) (hlim : m = 0 ∨ i + 3 ≤ m) : i ∈ realHits B f m := by
  rcases hlim with rfl | hlim
  · rw [realHits_nolimit B hB]; exact hi
  · obtain ⟨hits, f2, h, _, _⟩ := markerScan_ok B f m
    have := C15.needle_limit_complete B hB f eofMarker eofMarker_ne (some 0) m hits f2 h i hi (by simp [startPos_zero]) hlim
    rw [realHits_of_scan h]
    exact List.mem_map.mpr ⟨_, this, rfl⟩

/-- an occurrence of the marker ending at offset `c` -/
theorem marker_occ_of_layout (pre rest : Bytes) : pre.length ∈ C15.occ (pre ++ eofMarker ++ rest) eofMarker := by
  rw [C15.mem_occ]
  constructor
  · simp only [List.length_append]; omega
  · rw [List.append_assoc, List.drop_left, List.take_left]

theorem needleLoop_bound (B : Nat) (needle : Bytes) (m : Nat) (hm : m ≠ 0) (f : PyFile) (saved : Bytes) :
    ∀ off ∈ (C15.needleLoop B needle m f saved).1, off ≤ 2 * (m : Int) := by
  fun_induction C15.needleLoop B needle m f saved with
  | case1 f saved pos hcut => intro off h; cases h
  | case2 f saved pos hcut hblk => intro off h; cases h
  | case3 f saved pos hcut hblk block d offs rest ih =>
    intro off h
    have h' : off ∈ offs ++ rest.1 := h
    rw [List.mem_append] at h'
    rcases h' with h' | h'
    · have h2 : off ∈ C15.findLoop d needle m pos saved.length 0 := h'
      rw [C15.findLoop_eq, List.mem_map] at h2
      obtain ⟨p, hp, rfl⟩ := h2
      simp only [List.mem_filter, decide_eq_true_eq] at hp
      have : ¬ (m ≠ 0 ∧ pos > m) := hcut
      omega
    · exact ih off h'

theorem realHits_bound (B : Nat) (f : PyFile) (m : Nat) (hm : m ≠ 0) : ∀ h ∈ realHits B f m, h ≤ 2 * m := by
  intro h hh
  have hs := markerScan_eq B f m
  rw [realHits_of_scan hs, List.mem_map] at hh
  obtain ⟨off, hoff, rfl⟩ := hh
  have := needleLoop_bound B eofMarker m hm _ _ off hoff
  omega

/-- a scan that starts beyond the limit or at the end of the data reports nothing -/
theorem needleLoop_stop (B : Nat) (needle : Bytes) (m : Nat) (f : PyFile) (saved : Bytes)
    (h : (m ≠ 0 ∧ f.pos > m) ∨ f.data.length ≤ f.pos) : (C15.needleLoop B needle m f saved).1 = [] := by
  rw [C15.needleLoop.eq_1]
  by_cases hc : m ≠ 0 ∧ f.tell > m
  · rw [if_pos hc]
  · rw [if_neg hc]
    have hlen : f.data.length ≤ f.pos := by
      rcases h with h | h
      · exact absurd h hc
      · exact h
    have : (f.read (B : Int)).1 = [] := by
      rw [PyFile.read_nonneg, List.drop_eq_nil_of_le hlen]; exact List.take_nil
    rw [dif_pos this]

/-- With a buffer that holds the whole limited range (`maxrange + 3 ≤ B`, e.g. the default 8192 with `maxrange = 1024`)
the limited scan is exact: the occurrences that start at or before `maxrange`. -/
theorem realHits_large_buffer (B : Nat) (f : PyFile) (m : Nat) (hm : m ≠ 0) (hB : m + 3 ≤ B) :
    realHits B f m = (C15.occ f.data eofMarker).filter (fun p => p ≤ m) := by
  rw [realHits_of_scan (markerScan_eq B f m)]
  rw [C15.needleLoop.eq_1]
  have hc : ¬ (m ≠ 0 ∧ ({ f with pos := 0 } : PyFile).tell > m) := by
    have : ({ f with pos := 0 } : PyFile).tell = 0 := rfl
    omega
  rw [if_neg hc]
  have hblock : (({ f with pos := 0 } : PyFile).read (B : Int)).1 = f.data.take B := by
    rw [PyFile.read_nonneg]; rfl
  by_cases he : (({ f with pos := 0 } : PyFile).read (B : Int)).1 = []
  · rw [dif_pos he]
    rw [hblock] at he
    have : f.data = [] := by
      cases hd : f.data with
      | nil => rfl
      | cons a t =>
        rw [hd] at he
        have := congrArg List.length he
        simp only [List.length_take, List.length_cons, List.length_nil] at this
        omega
    rw [this]; rfl
  · rw [dif_neg he]
    simp only [List.nil_append, List.length_nil]
    have hstop : (C15.needleLoop B eofMarker m (({ f with pos := 0 } : PyFile).read (B : Int)).2
        (C15.nextSaved eofMarker (({ f with pos := 0 } : PyFile).read (B : Int)).1)).1 = [] := by
      apply needleLoop_stop B
      simp only [PyFile.read_pos, PyFile.read_data, hblock, List.length_take]
      by_cases hl : f.data.length ≤ B
      · right; omega
      · left; omega
    rw [hstop, List.append_nil, C15.findLoop_eq, hblock, List.map_map]
    have hid : ∀ l : List Nat, l.map (Int.toNat ∘ fun (p : Nat) => ((({ f with pos := 0 } : PyFile).tell : Nat) : Int) + (p : Int) - ((0 : Nat) : Int)) = l := by
      intro l
      induction l with
      | nil => rfl
      | cons a t ih =>
        rw [List.map_cons, ih]
        congr 1
        simp only [Function.comp]
        have : ({ f with pos := 0 } : PyFile).tell = 0 := rfl
        rw [this]
        omega
    rw [hid]
    apply C15.sorted_ext
    · exact List.Pairwise.filter _ (C15.occ_sorted _ _)
    · exact List.Pairwise.filter _ (C15.occ_sorted _ _)
    · intro x
      simp only [List.mem_filter, decide_eq_true_eq]
      have hsplit : f.data = f.data.take B ++ f.data.drop B := (List.take_append_drop B f.data).symm
      constructor
      · rintro ⟨hx, _, hl⟩
        have hxm : x ≤ m := by omega
        refine ⟨?_, hxm⟩
        have hb := (C15.mem_occ.1 hx).1
        rw [hsplit, C15.mem_occ_append hb]; exact hx
      · rintro ⟨hx, hxm⟩
        have hb := (C15.mem_occ.1 hx).1
        have h3 : eofMarker.length = 3 := rfl
        have hb' : x + eofMarker.length ≤ (f.data.take B).length := by
          simp only [List.length_take]; omega
        refine ⟨?_, Nat.zero_le _, Or.inr hxm⟩
        rw [hsplit, C15.mem_occ_append hb'] at hx; exact hx

/-! ### `read` advances by what it returns, in every state; `seek` characterised for every target -/

theorem read_tail_advances (x1 : XorFile) (m : Int) (hm : m = -1 ∨ 0 ≤ m) (nonce : Bytes) :
    ∃ out, (let r := readLoop m x1.fh nonce 0
      if m = -1 then (Except.ok (r.1, { x1 with fh := r.2 }) : Py (Bytes × XorFile))
      else if (r.1.length : Int) > m then
        match r.2.seekCur (m - (r.1.length : Int)) with
        | .error e => .error e
        | .ok (_, f3) => .ok (r.1.take m.toNat, { x1 with fh := f3 })
      else .ok (r.1.take m.toNat, { x1 with fh := r.2 })) = .ok (out, x1.withPos (x1.fh.pos + out.length)) := by
  have hfr := readLoop_frame m x1.fh nonce 0
  dsimp only
  by_cases h1 : m = -1
  · rw [if_pos h1, hfr]
    exact ⟨_, rfl⟩
  · rw [if_neg h1]
    by_cases h2 : ((readLoop m x1.fh nonce 0).1.length : Int) > m
    · rw [if_pos h2, hfr]
      simp only [PyFile.seekCur]
      rw [seekRel_ok _ _ _ (x1.fh.pos + m.toNat) (by omega)]
      refine ⟨(readLoop m x1.fh nonce 0).1.take m.toNat, ?_⟩
      have : ((readLoop m x1.fh nonce 0).1.take m.toNat).length = m.toNat := by
        rw [List.length_take]; omega
      rw [this]; rfl
    · rw [if_neg h2, hfr]
      refine ⟨(readLoop m x1.fh nonce 0).1.take m.toNat, ?_⟩
      have : (readLoop m x1.fh nonce 0).1.take m.toNat = (readLoop m x1.fh nonce 0).1 :=
        List.take_of_length_le (by omega)
      rw [this]; rfl

theorem read_advances (x : XorFile) (n : Option Int) :
    ∃ out, read x n = .ok (out, x.withPos (x.fh.pos + out.length)) := by
  rw [read_unfold]
  by_cases h0 : normN n = 0
  · rw [if_pos h0]; exact ⟨[], rfl⟩
  · rw [if_neg h0]
    obtain ⟨nonce, hn⟩ := readNonce_restores x
    rw [hn]
    exact read_tail_advances x (normN n) (normN_cases n) nonce

/-- the raw offset a `seek(off, whence)` of the view aimed at before fix 13416c7 (`seekOld`) -/
def rawTarget (x : XorFile) (off : Int) (wh : Nat) : Int :=
  match wh with
  | 0 => off + (x.nonceOff : Int) + 8
  | 1 => (x.fh.pos : Int) + off
  | _ => (x.fh.data.length : Int) + off

/-- what a Python file does with a relative seek whose target is negative -/
def belowStart (x : XorFile) (wh : Nat) : Py (Nat × XorFile) :=
  if wh = 0 then .error x.fh.negSeekExc
  else match x.fh.kind with
    | .bytesIO => .ok (0, x.withPos 0)
    | .osFile => .error .osError

theorem seekOld_exact (x : XorFile) (off : Int) (wh : Nat) (hwh : wh ≤ 2) :
    seekOld x off wh =
      if 0 ≤ rawTarget x off wh then .ok ((rawTarget x off wh).toNat, x.withPos (rawTarget x off wh).toNat)
      else belowStart x wh := by
  have hcases : wh = 0 ∨ wh = 1 ∨ wh = 2 := by omega
  obtain ⟨⟨d, p, k⟩, no, inn, ns⟩ := x
  rcases hcases with rfl | rfl | rfl
  · simp only [seekOld, rawTarget, belowStart, if_true, PyFile.seek, PyFile.seekSet]
    by_cases h : off + (no : Int) + 8 < 0
    · rw [if_pos h, if_neg (by omega)]
    · rw [if_neg h, if_pos (by omega)]; rfl
  · simp only [seekOld, rawTarget, belowStart, PyFile.seek, PyFile.seekCur, PyFile.seekRel]
    rw [if_neg (by omega : ¬ (1 = 0)), if_neg (by omega : ¬ (1 = 0))]
    by_cases h : (p : Int) + off < 0
    · rw [if_pos h, if_neg (by omega)]
      cases k <;> rfl
    · rw [if_neg h, if_pos (by omega)]; rfl
  · simp only [seekOld, rawTarget, belowStart, PyFile.seek, PyFile.seekEnd, PyFile.seekRel]
    rw [if_neg (by omega : ¬ (2 = 0)), if_neg (by omega : ¬ (2 = 0))]
    by_cases h : (d.length : Int) + off < 0
    · rw [if_pos h, if_neg (by omega)]
      cases k <;> rfl
    · rw [if_neg h, if_pos (by omega)]; rfl

theorem seekOld_bad_whence (x : XorFile) (off : Int) (wh : Nat) (hwh : 2 < wh) : seekOld x off wh = .error .valueError := by
  obtain ⟨n, rfl⟩ : ∃ n, wh = n + 3 := ⟨wh - 3, by omega⟩
  rfl

/-- the logical target of `seek(off, whence)` on a plain file -/
def logicalTarget (pf : PyFile) (off : Int) (wh : Nat) : Int :=
  match wh with
  | 0 => off
  | 1 => (pf.pos : Int) + off
  | _ => (pf.data.length : Int) + off

/-- what the plain file does with a seek whose target is negative -/
def plainBelowStart (pf : PyFile) (wh : Nat) : Py (Out × PyFile) :=
  if wh = 0 then .error pf.negSeekExc
  else match pf.kind with
    | .bytesIO => .ok (.seek 0, { pf with pos := 0 })
    | .osFile => .error .osError

theorem rawTarget_abs {stub nonce size enc : Bytes} {x : XorFile} {pf : PyFile}
    (hA : Abs stub nonce size enc x pf) (off : Int) (wh : Nat) :
    rawTarget x off wh = logicalTarget pf off wh + ((stub.length : Int) + 8) := by
  obtain ⟨hL, hdata, hpos⟩ := hA
  have hlen : x.fh.data.length = stub.length + 8 + pf.data.length := by
    rw [hL.data, hdata, rollDecode_length]; simp only [List.length_append, hL.nlen, hL.slen]
  match wh with
  | 0 => simp only [rawTarget, logicalTarget]; rw [hL.off]; omega
  | 1 => simp only [rawTarget, logicalTarget]; rw [hpos]; omega
  | n + 2 => simp only [rawTarget, logicalTarget]; rw [hlen]; omega

theorem plainStep_negative (pf : PyFile) (off : Int) (wh : Nat) (hwh : wh ≤ 2) (ht : logicalTarget pf off wh < 0) :
    plainStep pf (.seek off wh) = plainBelowStart pf wh := by
  have hcases : wh = 0 ∨ wh = 1 ∨ wh = 2 := by omega
  obtain ⟨d, p, k⟩ := pf
  rcases hcases with rfl | rfl | rfl
  · simp only [logicalTarget] at ht
    simp only [plainStep, plainBelowStart, PyFile.seek, PyFile.seekSet, if_pos ht, if_true]; rfl
  · simp only [logicalTarget] at ht
    simp only [plainStep, plainBelowStart, PyFile.seek, PyFile.seekCur, PyFile.seekRel, if_pos ht]
    cases k <;> rfl
  · simp only [logicalTarget] at ht
    simp only [plainStep, plainBelowStart, PyFile.seek, PyFile.seekEnd, PyFile.seekRel, if_pos ht]
    cases k <;> rfl

instance (data : Bytes) (rs : Int) (c : Nat) : Decidable (SizeRel data rs c) := by
  unfold SizeRel; infer_instance

/-! ### (13) every history: the current `seek` clamps like `io.BytesIO` -/

theorem plainStep_kind {pf : PyFile} {op : Op} {o : Out} {pf' : PyFile} (h : plainStep pf op = .ok (o, pf')) :
    pf'.kind = pf.kind := by
  cases op with
  | tell => simp only [plainStep] at h; injection h with h; rw [← (Prod.mk.inj h).2]
  | read n => simp only [plainStep] at h; injection h with h; rw [← (Prod.mk.inj h).2]; rfl
  | seek off wh =>
    simp only [plainStep] at h
    cases hs : pf.seek off wh with
    | error e => rw [hs] at h; cases h
    | ok r =>
      obtain ⟨v, g⟩ := r
      rw [hs] at h
      injection h with h
      rw [← (Prod.mk.inj h).2, pyseek_frame _ _ _ _ _ hs]

/-- one operation, any operation: the view and an `io.BytesIO` over the decoded bytes either raise the same exception
(and nothing moves) or produce the same output (seek's return value shifted) and stay in the abstraction relation -/
theorem step_refines_all {stub nonce size enc : Bytes} {x : XorFile} {pf : PyFile}
    (hA : Abs stub nonce size enc x pf) (hk : pf.kind = .bytesIO) (op : Op) :
    (∃ e, plainStep pf op = .error e ∧ stepOp x op = .error e) ∨
    (∃ o pf', plainStep pf op = .ok (o, pf') ∧ pf'.kind = .bytesIO ∧
      stepOp x op = .ok (o.shift (stub.length + 8), x.withPos (stub.length + 8 + pf'.pos)) ∧
      Abs stub nonce size enc (x.withPos (stub.length + 8 + pf'.pos)) pf') := by
  by_cases hnn : seeksNonneg enc.length pf.pos [op] = true
  · obtain ⟨o, pf', h1, h2, h3, _⟩ := step_refines hA op [] hnn
    exact Or.inr ⟨o, pf', h1, by rw [plainStep_kind h1, hk], h2, h3⟩
  · obtain ⟨hL, hdata, hpos⟩ := hA
    have hplen : pf.data.length = enc.length := by rw [hdata, rollDecode_length]
    have hrawlen : x.fh.data.length = stub.length + 8 + enc.length := by
      rw [hL.data]; simp only [List.length_append, hL.nlen, hL.slen]
    have mk0 : Abs stub nonce size enc (x.withPos (stub.length + 8 + 0)) { pf with pos := 0 } :=
      ⟨layout_withPos hL _, hdata, rfl⟩
    cases op with
    | tell => exact absurd rfl hnn
    | read n => exact absurd rfl hnn
    | seek off wh =>
      match wh, hnn with
      | 0, hnn =>
        have hneg : off < 0 := by
          apply Classical.byContradiction
          intro h
          exact hnn (by simp only [seeksNonneg, Bool.and_true, decide_eq_true_eq]; omega)
        refine Or.inl ⟨.valueError, ?_, ?_⟩
        · simp only [plainStep, PyFile.seek, PyFile.seekSet, if_pos hneg, PyFile.negSeekExc, hk]; rfl
        · simp only [stepOp, seek_set_neg x off hneg]; rfl
      | 1, hnn =>
        have hneg : (pf.pos : Int) + off < 0 := by
          apply Classical.byContradiction
          intro h
          exact hnn (by simp only [seeksNonneg, Bool.and_true, decide_eq_true_eq]; omega)
        refine Or.inr ⟨.seek 0, { pf with pos := 0 }, ?_, hk, ?_, mk0⟩
        · simp only [plainStep, PyFile.seek, PyFile.seekCur, PyFile.seekRel, if_pos hneg, hk]; rfl
        · have h := seek_cur_eq x off (stub.length + 8 + 0)
            (by simp only [tell, PyFile.tell]; rw [hpos, hL.off]; omega)
          simp only [stepOp, h, Except.map, Out.shift]
          rw [Nat.zero_add, Nat.add_zero]
      | 2, hnn =>
        have hneg : (enc.length : Int) + off < 0 := by
          apply Classical.byContradiction
          intro h
          exact hnn (by simp only [seeksNonneg, Bool.and_true, decide_eq_true_eq]; omega)
        have hneg' : (pf.data.length : Int) + off < 0 := by rw [hplen]; exact hneg
        refine Or.inr ⟨.seek 0, { pf with pos := 0 }, ?_, hk, ?_, mk0⟩
        · simp only [plainStep, PyFile.seek, PyFile.seekEnd, PyFile.seekRel, if_pos hneg', hk]; rfl
        · have h := seek_end_eq x off (stub.length + 8 + 0) (by rw [hrawlen, hL.off]; omega)
          simp only [stepOp, h, Except.map, Out.shift]
          rw [Nat.zero_add, Nat.add_zero]
      | (w + 3), _ =>
        refine Or.inl ⟨.valueError, rfl, ?_⟩
        simp only [stepOp, seek_bad_whence x off (w + 3) (by omega)]; rfl

/-- the outputs of a history on the plain file, shifted into the view's convention -/
def shiftOut (base : Nat) : Py Out → Py Out
  | .ok o => .ok (o.shift base)
  | .error e => .error e

theorem trace_refines_all {stub nonce size enc : Bytes} (ops : List Op) :
    ∀ {x : XorFile} {pf : PyFile}, Abs stub nonce size enc x pf → pf.kind = .bytesIO →
      runTrace x ops = (plainTrace pf ops).map (shiftOut (stub.length + 8)) := by
  induction ops with
  | nil => intro x pf _ _; rfl
  | cons op ops ih =>
    intro x pf hA hk
    rcases step_refines_all hA hk op with ⟨e, h1, h2⟩ | ⟨o, pf', h1, hk', h2, hA'⟩
    · simp only [runTrace, plainTrace, h1, h2, List.map_cons, shiftOut, ih hA hk]
    · simp only [runTrace, plainTrace, h1, h2, List.map_cons, shiftOut, ih hA' hk']

theorem run_refines_all {stub nonce size enc : Bytes} (ops : List Op) :
    ∀ {x : XorFile} {pf : PyFile}, Abs stub nonce size enc x pf → pf.kind = .bytesIO →
      match plainRun pf ops with
      | .ok (outs, pf') =>
        run x ops = .ok (outs.map (Out.shift (stub.length + 8)), x.withPos (stub.length + 8 + pf'.pos)) ∧
        Abs stub nonce size enc (x.withPos (stub.length + 8 + pf'.pos)) pf'
      | .error e => run x ops = .error e := by
  induction ops with
  | nil =>
    intro x pf hA _
    simp only [plainRun, run, List.map_nil]
    rw [← hA.pos]
    exact ⟨rfl, hA⟩
  | cons op ops ih =>
    intro x pf hA hk
    rcases step_refines_all hA hk op with ⟨e, h1, h2⟩ | ⟨o, pf', h1, hk', h2, hA'⟩
    · simp only [plainRun, run, h1, h2]
    · have := ih hA' hk'
      simp only [plainRun, run, h1, h2]
      cases hp : plainRun pf' ops with
      | error e => rw [hp] at this; simp only [this]
      | ok r =>
        obtain ⟨outs, pf2⟩ := r
        rw [hp] at this
        simp only at this
        simp only [this.1, List.map_cons, withPos_withPos]
        rw [withPos_withPos] at this
        exact ⟨trivial, this.2⟩


/-- the logical position a `seek(off, whence)` of the view aims at (before clamping at 0) -/
def viewTarget (x : XorFile) (off : Int) (wh : Nat) : Int :=
  match wh with
  | 0 => off
  | 1 => tell x + off
  | _ => (x.fh.data.length : Int) - ((x.nonceOff : Int) + 8) + off

end C09

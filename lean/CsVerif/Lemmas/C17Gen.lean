import CsVerif.Gen.PyGuard
import CsVerif.Lemmas.C20Gen
import CsVerif.Model.C17
/-! helper lemmas for Props/C17Gen.lean: the translated `payload_checksum` loop -/
namespace C17Gen
open PyRt C20Gen

theorem band255 (n : Nat) (h : n < 256) : band (n : Int) 255 = (n : Int) := by
  have : ∀ m, m < 256 → band ((m : Nat) : Int) 255 = ((m : Nat) : Int) := by decide +kernel
  exact this n h

theorem range1_eq (n : Nat) : range1 (n : Int) = (List.range' 0 n).map fun (k : Nat) => (0 : Int) + 1 * (k : Int) := by
  unfold range1 range3
  have : (((n : Int) - 0 + 1 - 1) / 1).toNat = n := by simp
  rw [this, List.range_eq_range']

theorem loop (rest pre : Bytes) (acc : Nat) :
    (forIn (m := Except PyExc) ((List.range' pre.length rest.length).map fun (k : Nat) => (0 : Int) + 1 * (k : Int)) (acc : Int)
      fun i r => do
        let t1 ← getItem (pre ++ rest) i
        pure (ForInStep.yield ((add r (mul (band t1 (255 : Int)) (add (i % (3 : Int)) (1 : Int)))) % (99999999 : Int))))
    = .ok ((C17.checksumGo rest pre.length acc : Nat) : Int) := by
  induction rest generalizing pre acc with
  | nil => simp [C17.checksumGo]; rfl
  | cons x rest ih =>
    simp only [List.length_cons, List.range'_succ, List.map_cons, List.forIn_cons]
    rw [getItem_ok (pre ++ x :: rest) (0 + 1 * (pre.length : Int)) pre.length (by omega) (by simp)]
    simp only [PyRt.ok_bind, pure_bind]
    have hx : (pre ++ x :: rest)[pre.length]'(by simp) = x := by simp
    rw [hx, band255 _ x.toNat_lt]
    have := ih (pre ++ [x]) ((acc + x.toNat * (pre.length % 3 + 1)) % 99999999)
    simp only [List.length_append, List.length_cons, List.length_nil, List.append_assoc, List.cons_append, List.nil_append] at this
    rw [C17.checksumGo]
    rw [← this]
    congr 1
    simp only [add, mul]
    have e1 : ((0 : Int) + 1 * (pre.length : Int)) % 3 + 1 = ((pre.length % 3 + 1 : Nat) : Int) := by omega
    rw [e1, ← Int.natCast_mul]
    generalize x.toNat * (pre.length % 3 + 1) = q
    omega

theorem payload_checksum_eq' (d : Bytes) : Gen.PyGuard.payload_checksum d = .ok ((C17.payloadChecksum d : Nat) : Int) := by
  unfold Gen.PyGuard.payload_checksum C17.payloadChecksum
  have h := loop d [] 0
  simp only [List.length_nil, List.nil_append] at h
  simp only [show (len d : Int) = ((d.length : Nat) : Int) from rfl, range1_eq]
  simpa using h

end C17Gen

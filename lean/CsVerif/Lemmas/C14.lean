import CsVerif.Model.C14
/-! Helper lemmas for C14: heap extension keeps dereferenced contents, `settings_map` builds fresh cells,
`HttpDataTransform.__init__` with copies only allocates, the reachable-state invariant `Inv`, and the per-operation
specification `step_spec` (every operation keeps `Inv` and returns what the pure function `specObs` says). -/
namespace C14

theorem getElem?_app {h : Heap} {a : Addr} {x : List Step} (e : Heap) (hx : h[a]? = some x) :
    (h ++ e)[a]? = some x := by
  have hlt : a < h.length := by
    rcases Nat.lt_or_ge a h.length with hl | hl
    · exact hl
    · rw [List.getElem?_eq_none hl] at hx; cases hx
  rw [List.getElem?_append_left hlt]; exact hx

theorem getElem?_lt {h : Heap} {a : Addr} {x : List Step} (hx : h[a]? = some x) : a < h.length := by
  rcases Nat.lt_or_ge a h.length with hl | hl
  · exact hl
  · rw [List.getElem?_eq_none hl] at hx; cases hx

theorem derefVal_ext {h : Heap} {v : Val} {d : PVal} (e : Heap) (hd : derefVal h v = some d) :
    derefVal (h ++ e) v = some d := by
  cases v with
  | scalar i => simpa [derefVal] using hd
  | ref a =>
    simp only [derefVal] at hd ⊢
    cases hx : h[a]? with
    | none => simp [hx] at hd
    | some x => rw [getElem?_app e hx]; simpa [hx] using hd

theorem derefMap_ext {h : Heap} {m : Mapping} {d : DMapping} (e : Heap) (hd : derefMap h m = some d) :
    derefMap (h ++ e) m = some d := by
  induction m generalizing d with
  | nil => simpa [derefMap] using hd
  | cons p r ih =>
    obtain ⟨k, v⟩ := p
    simp only [derefMap] at hd ⊢
    cases hv : derefVal h v with
    | none => simp [hv] at hd
    | some dv =>
      cases hr : derefMap h r with
      | none => simp [hv, hr] at hd
      | some dr =>
        rw [derefVal_ext e hv, ih hr]
        simpa [hv, hr] using hd

theorem derefCells_ext {h : Heap} {m : List Addr} {d : List (List Step)} (e : Heap) (hd : derefCells h m = some d) :
    derefCells (h ++ e) m = some d := by
  induction m generalizing d with
  | nil => simpa [derefCells] using hd
  | cons a r ih =>
    simp only [derefCells] at hd ⊢
    cases hv : h[a]? with
    | none => simp [hv] at hd
    | some dv =>
      cases hr : derefCells h r with
      | none => simp [hv, hr] at hd
      | some dr =>
        rw [getElem?_app e hv, ih hr]
        simpa [hv, hr] using hd

theorem derefT_ext {h : Heap} {t : Transform} {d : DTransform} (e : Heap) (hd : derefT h t = some d) :
    derefT (h ++ e) t = some d := by
  simp only [derefT] at hd ⊢
  cases h1 : h[t.tsteps]? with
  | none => simp [h1] at hd
  | some x =>
    cases h2 : h[t.rsteps]? with
    | none => simp [h1, h2] at hd
    | some y =>
      rw [getElem?_app e h1, getElem?_app e h2]; simpa [h1, h2] using hd

theorem derefT_lt {h : Heap} {t : Transform} {d : DTransform} (hd : derefT h t = some d) :
    ∀ a ∈ t.refs, a < h.length := by
  simp only [derefT] at hd
  cases h1 : h[t.tsteps]? with
  | none => simp [h1] at hd
  | some x =>
    cases h2 : h[t.rsteps]? with
    | none => simp [h1, h2] at hd
    | some y =>
      intro a ha
      simp only [Transform.refs, List.mem_cons, List.not_mem_nil, or_false] at ha
      rcases ha with rfl | rfl
      · exact getElem?_lt h1
      · exact getElem?_lt h2

theorem derefD_ext {h : Heap} {t : Decoder} {d : DDecoder} (e : Heap) (hd : derefD h t = some d) :
    derefD (h ++ e) t = some d := by
  simp only [derefD] at hd ⊢
  cases h1 : derefT h t.submit with
  | none => simp [h1] at hd
  | some x =>
    cases h2 : derefT h t.get with
    | none => simp [h1, h2] at hd
    | some y =>
      cases h3 : derefT h t.response with
      | none => simp [h1, h2, h3] at hd
      | some z =>
        rw [derefT_ext e h1, derefT_ext e h2, derefT_ext e h3]; simpa [h1, h2, h3] using hd

theorem derefD_lt {h : Heap} {t : Decoder} {d : DDecoder} (hd : derefD h t = some d) :
    ∀ a ∈ t.refs, a < h.length := by
  simp only [derefD] at hd
  cases h1 : derefT h t.submit with
  | none => simp [h1] at hd
  | some x =>
    cases h2 : derefT h t.get with
    | none => simp [h1, h2] at hd
    | some y =>
      cases h3 : derefT h t.response with
      | none => simp [h1, h2, h3] at hd
      | some z =>
        intro a ha
        simp only [Decoder.refs, List.mem_append] at ha
        rcases ha with (ha | ha) | ha
        · exact derefT_lt h1 a ha
        · exact derefT_lt h2 a ha
        · exact derefT_lt h3 a ha

theorem derefMap_lt {h : Heap} {m : Mapping} {d : DMapping} (hd : derefMap h m = some d) :
    ∀ a ∈ refsOf m, a < h.length := by
  induction m generalizing d with
  | nil => intro a ha; simp [refsOf] at ha
  | cons p r ih =>
    obtain ⟨k, v⟩ := p
    simp only [derefMap] at hd
    cases hv : derefVal h v with
    | none => simp [hv] at hd
    | some dv =>
      cases hr : derefMap h r with
      | none => simp [hv, hr] at hd
      | some dr =>
        intro a ha
        cases v with
        | scalar i => simp only [refsOf] at ha; exact ih hr a ha
        | ref b =>
          simp only [refsOf, List.mem_cons] at ha
          rcases ha with rfl | ha
          · simp only [derefVal] at hv
            cases hx : h[a]? with
            | none => simp [hx] at hv
            | some x => exact getElem?_lt hx
          · exact ih hr a ha

theorem derefMap_dictSet {h : Heap} {m : Mapping} {d : DMapping} {v : Val} {dv : PVal} (k : Key)
    (hm : derefMap h m = some d) (hv : derefVal h v = some dv) :
    derefMap h (dictSet m k v) = some (dictSet d k dv) := by
  induction m generalizing d with
  | nil =>
    simp only [derefMap, Option.some.injEq] at hm; subst hm
    simp [dictSet, derefMap, hv]
  | cons p r ih =>
    obtain ⟨k', v'⟩ := p
    simp only [derefMap] at hm
    cases hv' : derefVal h v' with
    | none => simp [hv'] at hm
    | some dv' =>
      cases hr : derefMap h r with
      | none => simp [hv', hr] at hm
      | some dr =>
        simp only [hv', hr, Option.some.injEq] at hm; subst hm
        simp only [dictSet]
        by_cases hk : k' = k
        · simp [hk, derefMap, hv, hr]
        · simp [hk, derefMap, hv', ih hr]

theorem refsOf_dictSet {m : Mapping} {k : Key} {v : Val} {a : Addr} (ha : a ∈ refsOf (dictSet m k v)) :
    a ∈ refsOf m ∨ v = .ref a := by
  induction m with
  | nil =>
    cases v with
    | scalar i => simp [dictSet, refsOf] at ha
    | ref b => simp [dictSet, refsOf] at ha; right; rw [ha]
  | cons p r ih =>
    obtain ⟨k', v'⟩ := p
    simp only [dictSet] at ha
    by_cases hk : k' = k
    · simp only [hk, if_true] at ha
      cases v with
      | scalar i =>
        simp only [refsOf] at ha
        left; cases v' <;> simp [refsOf, ha]
      | ref b =>
        simp only [refsOf, List.mem_cons] at ha
        rcases ha with rfl | ha
        · right; rfl
        · left; cases v' <;> simp [refsOf, ha]
    · simp only [hk, if_false] at ha
      cases v' with
      | scalar i =>
        simp only [refsOf] at ha ⊢; exact ih ha
      | ref b =>
        simp only [refsOf, List.mem_cons] at ha ⊢
        rcases ha with rfl | ha
        · left; left; rfl
        · rcases ih ha with h1 | h1
          · left; right; exact h1
          · right; exact h1

theorem mkVal_spec (h : Heap) (s : Setting) (p q : Bool) :
    ∃ e, (mkVal h s p q).1 = h ++ e ∧ derefVal (h ++ e) (mkVal h s p q).2 = some (deepVal s p q) ∧
      ∀ a, (mkVal h s p q).2 = .ref a → h.length ≤ a := by
  unfold mkVal deepVal
  cases p with
  | true =>
    cases hs : s.pretty with
    | scalar i => exact ⟨[], by simp [derefVal]⟩
    | list xs => exact ⟨[xs], by simp [derefVal]⟩
  | false =>
    cases q <;> exact ⟨[], by simp [derefVal]⟩

theorem settingsMapFrom_spec (k : KeyKind) (p q : Bool) (tuple : List Setting) :
    ∀ (h : Heap) (acc : Mapping) (accD : DMapping), derefMap h acc = some accD →
    ∃ e, (settingsMapFrom k p q h acc tuple).1 = h ++ e ∧
      derefMap (h ++ e) (settingsMapFrom k p q h acc tuple).2 = some (deepMapFrom k p q accD tuple) ∧
      ∀ a ∈ refsOf (settingsMapFrom k p q h acc tuple).2, a ∈ refsOf acc ∨ h.length ≤ a := by
  induction tuple with
  | nil =>
    intro h acc accD hacc
    exact ⟨[], by simp [settingsMapFrom], by simp [settingsMapFrom, deepMapFrom, hacc], fun a ha => Or.inl (by simpa [settingsMapFrom] using ha)⟩
  | cons s rest ih =>
    intro h acc accD hacc
    obtain ⟨e1, he1, hv1, hfresh⟩ := mkVal_spec h s p q
    have hacc1 : derefMap (h ++ e1) (dictSet acc (keyOf k s) (mkVal h s p q).2)
        = some (dictSet accD (keyOf k s) (deepVal s p q)) :=
      derefMap_dictSet _ (derefMap_ext e1 hacc) hv1
    obtain ⟨e2, he2, hd2, hr2⟩ := ih (h ++ e1) _ _ hacc1
    refine ⟨e1 ++ e2, ?_, ?_, ?_⟩
    · simp only [settingsMapFrom, he1, he2, List.append_assoc]
    · simp only [settingsMapFrom, deepMapFrom, he1]
      rw [← List.append_assoc]; exact hd2
    · intro a ha
      simp only [settingsMapFrom, he1] at ha
      rcases hr2 a ha with h1 | h1
      · rcases refsOf_dictSet h1 with h2 | h2
        · left; exact h2
        · right; exact hfresh a h2
      · right; simp at h1; omega

theorem settingsMap_spec (h : Heap) (tuple : List Setting) (k : KeyKind) (p q : Bool) :
    ∃ e, (settingsMap h tuple k p q).1 = h ++ e ∧
      derefMap (h ++ e) (settingsMap h tuple k p q).2 = some (pureMap tuple k p q) ∧
      ∀ a ∈ refsOf (settingsMap h tuple k p q).2, h.length ≤ a := by
  obtain ⟨e, h1, h2, h3⟩ := settingsMapFrom_spec k p q tuple h [] [] rfl
  refine ⟨e, h1, h2, ?_⟩
  intro a ha
  rcases h3 a ha with h4 | h4
  · simp [refsOf] at h4
  · exact h4

theorem dictGet?_deref {h : Heap} {m : Mapping} {d : DMapping} (k : Key) (hm : derefMap h m = some d) :
    (∀ v, dictGet? m k = some v → ∃ dv, derefVal h v = some dv ∧ dictGet? d k = some dv) ∧
    (dictGet? m k = none → dictGet? d k = none) := by
  induction m generalizing d with
  | nil =>
    simp only [derefMap, Option.some.injEq] at hm; subst hm
    simp [dictGet?]
  | cons p r ih =>
    obtain ⟨k', v'⟩ := p
    simp only [derefMap] at hm
    cases hv' : derefVal h v' with
    | none => simp [hv'] at hm
    | some dv' =>
      cases hr : derefMap h r with
      | none => simp [hv', hr] at hm
      | some dr =>
        simp only [hv', hr, Option.some.injEq] at hm; subst hm
        simp only [dictGet?]
        by_cases hk : k' = k
        · simp [hk, hv']
        · simp only [hk, if_false]; exact ih hr

/-! ### HttpDataTransform.__init__ with the copies -/

def specTransform (xs : List Step) (rev : Bool) (b : Option Step) : DTransform :=
  match b with
  | none => (if rev then xs.reverse else xs, if rev then xs else xs.reverse)
  | some b => (b :: (if rev then xs.reverse else xs), (if rev then xs else xs.reverse) ++ [b])

theorem heapModify_app0 (h : Heap) (x y : List Step) (f : List Step → List Step) :
    heapModify (h ++ [x, y]) h.length f = h ++ [f x, y] := by
  induction h with
  | nil => simp [heapModify]
  | cons z r ih => simp [heapModify, ih]

theorem heapModify_app1 (h : Heap) (x y : List Step) (f : List Step → List Step) :
    heapModify (h ++ [x, y]) (h.length + 1) f = h ++ [x, f y] := by
  induction h with
  | nil => simp [heapModify]
  | cons z r ih => simp [heapModify, ih]

theorem get_app0 (h : Heap) (x y : List Step) : (h ++ [x, y])[h.length]? = some x := by
  simp

theorem get_app1 (h : Heap) (x y : List Step) : (h ++ [x, y])[h.length + 1]? = some y := by
  simp

theorem mkTransform_copies {h : Heap} {a : Addr} {xs : List Step} (rev : Bool) (b : Option Step)
    (hx : h[a]? = some xs) :
    ∃ x y t, mkTransform true h a rev b = some (h ++ [x, y], t) ∧
      derefT (h ++ [x, y]) t = some (specTransform xs rev b) ∧
      h.length ≤ t.tsteps ∧ h.length ≤ t.rsteps := by
  unfold mkTransform
  simp only [hx, if_true, List.length_append, List.length_cons, List.length_nil, List.append_assoc,
    List.cons_append, List.nil_append]
  cases rev <;> cases b <;>
    simp only [specTransform, heapModify_app0, heapModify_app1, Bool.false_eq_true, if_false, if_true,
      Option.some.injEq, Prod.mk.injEq, List.cons.injEq, and_true, List.append_cancel_left_eq] <;>
    exact ⟨_, _, _, ⟨⟨rfl, rfl⟩, rfl⟩, by simp [derefT]⟩

/-! ### pure specification of the results -/

def specT (dm : DMapping) (name : String) (rev : Bool) (b : Option Step) : Except PyExc DTransform :=
  match getName? dm name with
  | none => .error .keyError
  | some (.scalar _) => .error .typeError
  | some (.list xs) => .ok (specTransform xs rev b)

def specC2 (c : Config) : Except PyExc DDecoder :=
  if !c.pubkeyOk then .error .valueError
  else if c.trial then .error .valueError
  else
    let dm := pureView c .settings
    if !(hasName dm "SETTING_SUBMITURI" && hasName dm "SETTING_C2_VERB_POST" && hasName dm "SETTING_C2_VERB_GET") then
      .error .keyError
    else
      match specT dm "SETTING_C2_POSTREQ" false none with
      | .error e => .error e
      | .ok ts =>
        match specT dm "SETTING_C2_REQUEST" false none with
        | .error e => .error e
        | .ok tg =>
          match specT dm "SETTING_C2_RECOVER" true (some buildOutput) with
          | .error e => .error e
          | .ok tr => .ok (ts, tg, tr)

def listsOf : DMapping → List (List Step)
  | [] => []
  | (_, .scalar _) :: r => listsOf r
  | (_, .list xs) :: r => xs :: listsOf r

def pickD (d : DDecoder) : Which → DTransform
  | .submit => d.1
  | .get => d.2.1
  | .response => d.2.2

def specClient (c : Config) (ok : Bool) : DRes :=
  if !ok then .exc .valueError
  else if !c.protoHttp then .exc .valueError
  else
    match specC2 c with
    | .error e => .exc e
    | .ok d =>
      if !c.hasDomains then .exc .indexError
      else
        let dm := pureView c .settings
        if !(hasName dm "SETTING_SLEEPTIME" && hasName dm "SETTING_JITTER" && hasName dm "SETTING_USERAGENT"
             && hasName dm "SETTING_HOST_HEADER") then .exc .keyError
        else .decoder d

def specSteps (c : Config) (nDec d : Nat) (w : Which) (recover : Bool) : DRes :=
  if d < nDec then
    match specC2 c with
    | .ok dd => .steps (if recover then (pickD dd w).2 else (pickD dd w).1)
    | .error _ => .dangling
  else .noDecoder

/-- what every operation returns, as a function of the immutable configuration only (and, for transform/recover, of
whether the decoder exists) -/
def specObs (c : Config) (nDec : Nat) : Op → DRes
  | .viewAccess v => .mapping (pureView c v)
  | .settingsMap k p q => .mapping (pureMap c.tuple k p q)
  | .mkC2Http k =>
    if k = .noKey then .exc .valueError
    else match specC2 c with
      | .ok d => .decoder d
      | .error e => .exc e
  | .clientDryRun ok => specClient c ok
  | .mkProfile => .profile (listsOf (pureView c .settingsByIndex))
  | .transform d w => specSteps c nDec d w false
  | .recover d w => specSteps c nDec d w true
  | .recoverWire _ _ => .unit   -- not a function of the configuration alone: see `wire_spec` / `decoders_independent`
  | .propsRaw => .unit
  | .propsPretty => .unit
  | .mutateAttempt _ => .exc .typeError
  | .snapshotAll => .snap (View.all.map (pureView c))

/-! ### the invariant -/

structure Inv (c : Config) (s : State) : Prop where
  views : ∀ v m, s.getCache v = some m → derefMap s.heap m = some (pureView c v)
  decs : ∀ d ∈ s.decoders, ∃ dd, specC2 c = .ok dd ∧ derefD s.heap d = some dd
  exts : ∀ cells ∈ s.externals, ∀ a ∈ cells, a < s.heap.length
  sep : ∀ a ∈ extRefs s, a ∉ cfgRefs s
  disj : ∀ v v' m m', v ≠ v' → s.getCache v = some m → s.getCache v' = some m' →
    ∀ a ∈ refsOf m, a ∉ refsOf m'

theorem Inv.init (c : Config) : Inv c State.init := by
  constructor
  · intro v m h; cases v <;> simp [State.init, State.getCache] at h
  · intro d h; simp [State.init] at h
  · intro cells h; simp [State.init] at h
  · intro a h; simp [State.init, extRefs] at h
  · intro v v' m m' _ h; cases v <;> simp [State.init, State.getCache] at h

theorem mem_cfgRefs {s : State} {a : Addr} :
    a ∈ cfgRefs s ↔ ∃ v m, s.getCache v = some m ∧ a ∈ refsOf m := by
  simp only [cfgRefs, List.mem_flatMap]
  constructor
  · rintro ⟨v, _, hv⟩
    cases hm : s.getCache v with
    | none => simp [hm] at hv
    | some m => exact ⟨v, m, hm, by simpa [hm] using hv⟩
  · rintro ⟨v, m, hm, ha⟩
    exact ⟨v, by cases v <;> simp [View.all], by simpa [hm] using ha⟩

theorem Inv.cfg_lt {c : Config} {s : State} (hi : Inv c s) : ∀ a ∈ cfgRefs s, a < s.heap.length := by
  intro a ha
  obtain ⟨v, m, hm, ha⟩ := mem_cfgRefs.1 ha
  exact derefMap_lt (hi.views v m hm) a ha

theorem Inv.ext_lt {c : Config} {s : State} (hi : Inv c s) : ∀ a ∈ extRefs s, a < s.heap.length := by
  intro a ha
  simp only [extRefs, List.mem_append, List.mem_flatMap, List.mem_flatten] at ha
  rcases ha with ⟨d, hd, ha⟩ | ⟨cells, hc, ha⟩
  · obtain ⟨dd, _, hdd⟩ := hi.decs d hd
    exact derefD_lt hdd a ha
  · exact hi.exts cells hc a ha

/-- growing the heap (allocation only) keeps the invariant -/
theorem Inv.extend {c : Config} {s : State} (hi : Inv c s) (e : Heap) :
    Inv c { s with heap := s.heap ++ e } := by
  constructor
  · intro v m h
    have : s.getCache v = some m := by cases v <;> simpa [State.getCache] using h
    exact derefMap_ext e (hi.views v m this)
  · intro d hd
    obtain ⟨dd, h1, h2⟩ := hi.decs d hd
    exact ⟨dd, h1, derefD_ext e h2⟩
  · intro cells hc a ha
    have h1 : a < s.heap.length := hi.exts cells hc a ha
    show a < (s.heap ++ e).length
    rw [List.length_append]; exact Nat.lt_of_lt_of_le h1 (Nat.le_add_right _ _)
  · exact hi.sep
  · exact hi.disj

theorem getCache_setCache (s : State) (v v' : View) (h : Heap) (m : Mapping) :
    (s.setCache v h m).getCache v' = if v' = v then some m else s.getCache v' := by
  cases v <;> cases v' <;> simp [State.setCache, State.getCache]

theorem setCache_heap (s : State) (v : View) (h : Heap) (m : Mapping) : (s.setCache v h m).heap = h := by
  cases v <;> rfl
theorem setCache_decoders (s : State) (v : View) (h : Heap) (m : Mapping) :
    (s.setCache v h m).decoders = s.decoders := by
  cases v <;> rfl
theorem setCache_externals (s : State) (v : View) (h : Heap) (m : Mapping) :
    (s.setCache v h m).externals = s.externals := by
  cases v <;> rfl

/-- caching a freshly built view keeps the invariant -/
theorem Inv.setCache {c : Config} {s : State} (hi : Inv c s) (v : View) (e : Heap) (m : Mapping)
    (hnone : s.getCache v = none)
    (hd : derefMap (s.heap ++ e) m = some (pureView c v))
    (hfresh : ∀ a ∈ refsOf m, s.heap.length ≤ a) :
    Inv c (s.setCache v (s.heap ++ e) m) := by
  constructor
  · intro v' m' h
    rw [getCache_setCache] at h
    rw [setCache_heap]
    by_cases hv : v' = v
    · simp only [hv, if_true, Option.some.injEq] at h; subst h; subst hv; exact hd
    · simp only [hv, if_false] at h
      exact derefMap_ext e (hi.views v' m' h)
  · intro d hd'
    rw [setCache_decoders] at hd'
    rw [setCache_heap]
    obtain ⟨dd, h1, h2⟩ := hi.decs d hd'
    exact ⟨dd, h1, derefD_ext e h2⟩
  · intro cells hc a ha
    rw [setCache_externals] at hc
    rw [setCache_heap]
    have h1 : a < s.heap.length := hi.exts cells hc a ha
    rw [List.length_append]; exact Nat.lt_of_lt_of_le h1 (Nat.le_add_right _ _)
  · intro a ha hcfg
    have hae : a ∈ extRefs s := by
      simpa [extRefs, setCache_decoders, setCache_externals] using ha
    obtain ⟨v', m', hm', ham'⟩ := mem_cfgRefs.1 hcfg
    rw [getCache_setCache] at hm'
    by_cases hv : v' = v
    · simp only [hv, if_true, Option.some.injEq] at hm'; subst hm'
      have h1 := hi.ext_lt a hae
      have h2 := hfresh a ham'
      exact absurd h1 (Nat.not_lt.2 h2)
    · simp only [hv, if_false] at hm'
      exact hi.sep a hae (mem_cfgRefs.2 ⟨v', m', hm', ham'⟩)
  · intro v1 v2 m1 m2 hne h1 h2 a ha1 ha2
    rw [getCache_setCache] at h1 h2
    by_cases hv1 : v1 = v
    · simp only [hv1, if_true, Option.some.injEq] at h1; subst h1
      have hv2 : v2 ≠ v := fun hh => hne (hv1.trans hh.symm)
      simp only [hv2, if_false] at h2
      have hlt := derefMap_lt (hi.views v2 m2 h2) a ha2
      exact absurd hlt (Nat.not_lt.2 (hfresh a ha1))
    · simp only [hv1, if_false] at h1
      by_cases hv2 : v2 = v
      · simp only [hv2, if_true, Option.some.injEq] at h2; subst h2
        have hlt := derefMap_lt (hi.views v1 m1 h1) a ha1
        exact absurd hlt (Nat.not_lt.2 (hfresh a ha2))
      · simp only [hv2, if_false] at h2
        exact hi.disj v1 v2 m1 m2 hne h1 h2 a ha1 ha2

/-- the heap of `t` extends the heap of `s`; caches of `s` are kept; decoders/externals equal -/
structure Grows (s t : State) : Prop where
  heap : ∃ e, t.heap = s.heap ++ e
  decoders : t.decoders = s.decoders
  externals : t.externals = s.externals

theorem Grows.refl (s : State) : Grows s s := ⟨⟨[], by simp⟩, rfl, rfl⟩

theorem Grows.trans {a b c : State} (h1 : Grows a b) (h2 : Grows b c) : Grows a c := by
  obtain ⟨e1, he1⟩ := h1.heap
  obtain ⟨e2, he2⟩ := h2.heap
  exact ⟨⟨e1 ++ e2, by rw [he2, he1, List.append_assoc]⟩, h2.decoders.trans h1.decoders,
    h2.externals.trans h1.externals⟩

theorem viewAccess_spec {c : Config} {s : State} (hi : Inv c s) (v : View) :
    Inv c (viewAccess c s v).1 ∧ Grows s (viewAccess c s v).1 ∧
    derefMap (viewAccess c s v).1.heap (viewAccess c s v).2 = some (pureView c v) ∧
    (viewAccess c s v).1.getCache v = some (viewAccess c s v).2 := by
  unfold viewAccess
  cases hc : s.getCache v with
  | some m => exact ⟨hi, Grows.refl s, hi.views v m hc, hc⟩
  | none =>
    obtain ⟨e, h1, h2, h3⟩ := settingsMap_spec s.heap c.tuple v.kind v.pretty true
    simp only [h1]
    refine ⟨hi.setCache v e _ hc h2 h3, ⟨⟨e, setCache_heap ..⟩, setCache_decoders .., setCache_externals ..⟩, ?_, ?_⟩
    · rw [setCache_heap]; exact h2
    · rw [getCache_setCache]; simp

theorem getName?_deref {h : Heap} {m : Mapping} {d : DMapping} (name : String) (hm : derefMap h m = some d) :
    (∀ v, getName? m name = some v → ∃ dv, derefVal h v = some dv ∧ getName? d name = some dv) ∧
    (getName? m name = none → getName? d name = none) := by
  unfold getName?
  cases nameConst name with
  | none => simp
  | some k => exact dictGet?_deref _ hm

theorem hasName_deref {h : Heap} {m : Mapping} {d : DMapping} (name : String) (hm : derefMap h m = some d) :
    hasName m name = hasName d name := by
  unfold hasName
  cases nameConst name with
  | none => rfl
  | some k =>
    have := dictGet?_deref (⟨.name, k⟩ : Key) hm
    cases hg : dictGet? m ⟨.name, k⟩ with
    | none => simp [hg, this.2 hg]
    | some v =>
      obtain ⟨dv, _, h2⟩ := this.1 v hg
      simp [hg, h2]

theorem mkTFrom_spec {s : State} {m : Mapping} {dm : DMapping} (name : String) (rev : Bool) (b : Option Step)
    (hm : derefMap s.heap m = some dm) :
    (∃ e, mkTFrom true s m name rev b = (s, .error (.exc e)) ∧ specT dm name rev b = .error e) ∨
    (∃ x y t xs, mkTFrom true s m name rev b = ({ s with heap := s.heap ++ [x, y] }, .ok t) ∧
      specT dm name rev b = .ok (specTransform xs rev b) ∧
      derefT (s.heap ++ [x, y]) t = some (specTransform xs rev b) ∧
      s.heap.length ≤ t.tsteps ∧ s.heap.length ≤ t.rsteps) := by
  have hg := getName?_deref name hm
  unfold mkTFrom specT
  cases hn : getName? m name with
  | none => left; exact ⟨.keyError, rfl, by simp [hg.2 hn]⟩
  | some v =>
    obtain ⟨dv, h1, h2⟩ := hg.1 v hn
    cases v with
    | scalar i =>
      simp only [derefVal, Option.some.injEq] at h1; subst h1
      left; exact ⟨.typeError, rfl, by simp [h2]⟩
    | ref a =>
      simp only [derefVal] at h1
      cases hx : s.heap[a]? with
      | none => simp [hx] at h1
      | some xs =>
        simp only [hx, Option.map_some, Option.some.injEq] at h1; subst h1
        obtain ⟨x, y, t, e1, e2, e3, e4⟩ := mkTransform_copies rev b hx
        right
        exact ⟨x, y, t, xs, by simp [e1], by simp [h2], e2, e3, e4⟩

theorem Inv.addDecoder {c : Config} {s : State} (hi : Inv c s) (d : Decoder) (dd : DDecoder)
    (h1 : specC2 c = .ok dd) (h2 : derefD s.heap d = some dd) (h3 : ∀ a ∈ d.refs, a ∉ cfgRefs s) :
    Inv c { s with decoders := s.decoders ++ [d] } := by
  constructor
  · exact hi.views
  · intro d' hd'
    simp only [List.mem_append, List.mem_singleton] at hd'
    rcases hd' with hd' | rfl
    · exact hi.decs d' hd'
    · exact ⟨dd, h1, h2⟩
  · exact hi.exts
  · intro a ha
    simp only [extRefs, List.flatMap_append, List.flatMap_cons, List.flatMap_nil, List.append_nil,
      List.mem_append] at ha
    rcases ha with (ha | ha) | ha
    · exact hi.sep a (by simp only [extRefs, List.mem_append]; exact Or.inl ha)
    · exact h3 a ha
    · exact hi.sep a (by simp only [extRefs, List.mem_append]; exact Or.inr ha)
  · exact hi.disj

theorem Inv.addExternal {c : Config} {s : State} (hi : Inv c s) (cells : List Addr)
    (h1 : ∀ a ∈ cells, a < s.heap.length) (h3 : ∀ a ∈ cells, a ∉ cfgRefs s) :
    Inv c { s with externals := s.externals ++ [cells] } := by
  constructor
  · exact hi.views
  · exact hi.decs
  · intro cs hc a ha
    simp only [List.mem_append, List.mem_singleton] at hc
    rcases hc with hc | rfl
    · exact hi.exts cs hc a ha
    · exact h1 a ha
  · intro a ha
    simp only [extRefs, List.flatten_append, List.flatten_cons, List.flatten_nil, List.append_nil,
      List.mem_append] at ha
    rcases ha with ha | ha | ha
    · exact hi.sep a (by simp only [extRefs, List.mem_append]; exact Or.inl ha)
    · exact hi.sep a (by simp only [extRefs, List.mem_append]; exact Or.inr ha)
    · exact h3 a ha
  · exact hi.disj

/-- outcome of `C2Http.__init__` on any reachable state -/
def C2Outcome (c : Config) (s : State) (ks0 : KeyState) (r : State × Except Res Decoder) : Prop :=
  match r.2 with
  | .ok d => ∃ dd, specC2 c = .ok dd ∧ derefD r.1.heap d = some dd ∧ r.1.decoders = s.decoders ++ [d] ∧ d.ks = ks0
  | .error e => ∃ x, specC2 c = .error x ∧ e = .exc x ∧ r.1.decoders = s.decoders

theorem c2http_spec {c : Config} {s : State} (hi : Inv c s) (k : KeyVariant) (ks0 : KeyState) (hk : k ≠ .noKey) :
    Inv c (c2http true c s k ks0).1 ∧ C2Outcome c s ks0 (c2http true c s k ks0) := by
  obtain ⟨hi1, hg1, -, -⟩ := viewAccess_spec hi .rawSettings
  obtain ⟨hi2, hg2, hm2, -⟩ := viewAccess_spec hi1 .settings
  have hdec2 : (viewAccess c (viewAccess c s .rawSettings).1 .settings).1.decoders = s.decoders :=
    hg2.decoders.trans hg1.decoders
  unfold c2http C2Outcome specC2
  simp only [hk, if_false]
  cases hp : c.pubkeyOk with
  | false => exact ⟨hi1, by simp [hg1.decoders]⟩
  | true =>
    cases ht : c.trial with
    | true => exact ⟨hi1, by simp [hg1.decoders]⟩
    | false =>
      simp only [Bool.not_true, Bool.false_eq_true, if_false]
      rw [hasName_deref "SETTING_SUBMITURI" hm2, hasName_deref "SETTING_C2_VERB_POST" hm2,
        hasName_deref "SETTING_C2_VERB_GET" hm2]
      generalize hs2 : (viewAccess c (viewAccess c s .rawSettings).1 .settings).1 = s2 at *
      generalize (viewAccess c (viewAccess c s .rawSettings).1 .settings).2 = m at *
      cases hn : (hasName (pureView c .settings) "SETTING_SUBMITURI" &&
          hasName (pureView c .settings) "SETTING_C2_VERB_POST" &&
          hasName (pureView c .settings) "SETTING_C2_VERB_GET") with
      | false => exact ⟨hi2, by simp [hdec2]⟩
      | true =>
        simp only [Bool.not_true, Bool.false_eq_true, if_false]
        rcases mkTFrom_spec "SETTING_C2_POSTREQ" false none hm2 with ⟨e, he1, he2⟩ | ⟨x1, y1, t1, xs1, e1, sp1, d1, b1, b1'⟩
        · simp only [he1, he2]; exact ⟨hi2, by simp [hdec2]⟩
        · simp only [e1, sp1]
          have hm3 : derefMap ({ s2 with heap := s2.heap ++ [x1, y1] } : State).heap m = some (pureView c .settings) :=
            derefMap_ext _ hm2
          rcases mkTFrom_spec "SETTING_C2_REQUEST" false none hm3 with ⟨e, he1, he2⟩ | ⟨x2, y2, t2, xs2, e2, sp2, d2, b2, b2'⟩
          · simp only [he1, he2]; exact ⟨hi2.extend _, by simp [hdec2]⟩
          · simp only [e2, sp2]
            have hm4 : derefMap ({ ({ s2 with heap := s2.heap ++ [x1, y1] } : State) with
                heap := s2.heap ++ [x1, y1] ++ [x2, y2] } : State).heap m = some (pureView c .settings) :=
              derefMap_ext _ hm3
            rcases mkTFrom_spec "SETTING_C2_RECOVER" true (some buildOutput) hm4 with ⟨e, he1, he2⟩ | ⟨x3, y3, t3, xs3, e3, sp3, d3, b3, b3'⟩
            · simp only [he1, he2]; exact ⟨(hi2.extend _).extend _, by simp [hdec2]⟩
            · simp only [e3, sp3]
              have hD : derefD (s2.heap ++ [x1, y1] ++ [x2, y2] ++ [x3, y3]) ⟨t1, t2, t3, ks0⟩ =
                  some (specTransform xs1 false none, specTransform xs2 false none,
                    specTransform xs3 true (some buildOutput)) := by
                simp only [derefD]
                rw [derefT_ext [x3, y3] (derefT_ext [x2, y2] d1), derefT_ext [x3, y3] d2, d3]
              have hI5 := ((hi2.extend [x1, y1]).extend [x2, y2]).extend [x3, y3]
              have hlt := hi2.cfg_lt
              simp only [List.length_append, List.length_cons, List.length_nil] at b2 b2' b3 b3'
              refine ⟨hI5.addDecoder ⟨t1, t2, t3, ks0⟩ _ (by unfold specC2; simp [hp, ht, hn, sp1, sp2, sp3]) hD ?_, ?_⟩
              · intro a ha hcfg
                have h1 : a < s2.heap.length := hlt a hcfg
                simp only [Decoder.refs, Transform.refs, List.mem_append, List.mem_cons, List.not_mem_nil,
                  or_false] at ha
                rcases ha with ((rfl | rfl) | rfl | rfl) | rfl | rfl <;>
                  exact absurd h1 (Nat.not_lt.2 (by omega))
              · refine ⟨_, rfl, hD, ?_⟩
                simp [hdec2]

theorem copyLists_spec (m : Mapping) : ∀ (h : Heap) (dm : DMapping), derefMap h m = some dm →
    ∃ e cells, copyLists h m = some (h ++ e, cells) ∧ derefCells (h ++ e) cells = some (listsOf dm) ∧
      ∀ a ∈ cells, h.length ≤ a ∧ a < (h ++ e).length := by
  induction m with
  | nil =>
    intro h dm hm
    simp only [derefMap, Option.some.injEq] at hm; subst hm
    exact ⟨[], [], by simp [copyLists], by simp [derefCells, listsOf], by simp⟩
  | cons p r ih =>
    intro h dm hm
    obtain ⟨k, v⟩ := p
    simp only [derefMap] at hm
    cases hv : derefVal h v with
    | none => simp [hv] at hm
    | some dv =>
      cases hr : derefMap h r with
      | none => simp [hv, hr] at hm
      | some dr =>
        simp only [hv, hr, Option.some.injEq] at hm; subst hm
        cases v with
        | scalar i =>
          simp only [derefVal, Option.some.injEq] at hv; subst hv
          obtain ⟨e, cells, h1, h2, h3⟩ := ih h dr hr
          exact ⟨e, cells, by simp [copyLists, h1], by simpa [listsOf] using h2, h3⟩
        | ref a =>
          simp only [derefVal] at hv
          cases hx : h[a]? with
          | none => simp [hx] at hv
          | some xs =>
            simp only [hx, Option.map_some, Option.some.injEq] at hv; subst hv
            obtain ⟨e, cells, h1, h2, h3⟩ := ih (h ++ [xs]) dr (derefMap_ext [xs] hr)
            refine ⟨[xs] ++ e, h.length :: cells, ?_, ?_, ?_⟩
            · simp only [copyLists, hx, h1, List.append_assoc]
            · simp only [derefCells, listsOf]
              rw [← List.append_assoc, h2]
              have : (h ++ [xs] ++ e)[h.length]? = some xs := by
                rw [List.append_assoc]; simp
              rw [this]
            · intro b hb
              simp only [List.mem_cons] at hb
              rcases hb with rfl | hb
              · simp
              · obtain ⟨t1, t2⟩ := h3 b hb
                refine ⟨?_, ?_⟩
                · have t3 : (h ++ [xs]).length ≤ b := t1
                  rw [List.length_append] at t3
                  exact Nat.le_trans (Nat.le_add_right _ _) t3
                · rw [← List.append_assoc]; exact t2

theorem deepRes_mapping {h : Heap} {m : Mapping} {d : DMapping} (hm : derefMap h m = some d) :
    deepRes h (.mapping m) = .mapping d := by simp [deepRes, hm]

theorem step_viewAccess {c : Config} {s : State} (hi : Inv c s) (v : View) :
    Inv c (step true c s (.viewAccess v)).1 ∧ obs true c s (.viewAccess v) = .mapping (pureView c v) ∧
    (step true c s (.viewAccess v)).1.decoders = s.decoders := by
  obtain ⟨h1, h2, h3, -⟩ := viewAccess_spec hi v
  exact ⟨h1, deepRes_mapping h3, h2.decoders⟩

theorem settingsMap_state {c : Config} {s : State} (hi : Inv c s) (k : KeyKind) (p q : Bool) :
    Inv c { s with heap := (settingsMap s.heap c.tuple k p q).1,
                   externals := s.externals ++ [refsOf (settingsMap s.heap c.tuple k p q).2] } ∧
    derefMap (settingsMap s.heap c.tuple k p q).1 (settingsMap s.heap c.tuple k p q).2 = some (pureMap c.tuple k p q) := by
  obtain ⟨e, h1, h2, h3⟩ := settingsMap_spec s.heap c.tuple k p q
  rw [h1]
  refine ⟨?_, h2⟩
  have hI := (hi.extend e).addExternal (refsOf (settingsMap s.heap c.tuple k p q).2)
    (fun a ha => derefMap_lt h2 a ha)
    (fun a ha hcfg => absurd (hi.cfg_lt a hcfg) (Nat.not_lt.2 (h3 a ha)))
  exact hI

theorem step_settingsMap {c : Config} {s : State} (hi : Inv c s) (k : KeyKind) (p q : Bool) :
    Inv c (step true c s (.settingsMap k p q)).1 ∧
    obs true c s (.settingsMap k p q) = .mapping (pureMap c.tuple k p q) ∧
    (step true c s (.settingsMap k p q)).1.decoders = s.decoders := by
  obtain ⟨h1, h2⟩ := settingsMap_state hi k p q
  exact ⟨h1, deepRes_mapping h2, rfl⟩

theorem step_mutate {c : Config} {s : State} (hi : Inv c s) (t : MutTarget) :
    Inv c (step true c s (.mutateAttempt t)).1 ∧ (step true c s (.mutateAttempt t)).2 = .exc .typeError ∧
    (step true c s (.mutateAttempt t)).1.decoders = s.decoders := by
  cases t with
  | view v =>
    obtain ⟨h1, h2, -, -⟩ := viewAccess_spec hi v
    exact ⟨h1, rfl, h2.decoders⟩
  | fresh k p q => exact ⟨(settingsMap_state hi k p q).1, rfl, rfl⟩

theorem step_mkC2Http {c : Config} {s : State} (hi : Inv c s) (k : KeyVariant) :
    Inv c (step true c s (.mkC2Http k)).1 ∧ obs true c s (.mkC2Http k) = specObs c s.decoders.length (.mkC2Http k) ∧
    ∃ extra, (step true c s (.mkC2Http k)).1.decoders = s.decoders ++ extra := by
  by_cases hk : k = .noKey
  · subst hk
    exact ⟨hi, rfl, [], by simp [step, c2http]⟩
  · obtain ⟨h1, h2⟩ := c2http_spec hi k (initKeyState k) hk
    unfold C2Outcome at h2
    simp only [obs, step, specObs, hk, if_false]
    generalize c2http true c s k (initKeyState k) = r at h1 h2
    obtain ⟨s', res⟩ := r
    cases res with
    | ok d =>
      obtain ⟨dd, e1, e2, e3, -⟩ := h2
      simp only at e2 e3 h1
      exact ⟨h1, by simp [deepRes, e1, e2], [d], e3⟩
    | error e =>
      obtain ⟨x, e1, e2, e3⟩ := h2
      simp only at e2 e3 h1
      subst e2
      exact ⟨h1, by simp [deepRes, e1], [], by simp [e3]⟩

theorem step_client {c : Config} {s : State} (hi : Inv c s) (ok : Bool) :
    Inv c (step true c s (.clientDryRun ok)).1 ∧
    obs true c s (.clientDryRun ok) = specClient c ok ∧
    ∃ extra, (step true c s (.clientDryRun ok)).1.decoders = s.decoders ++ extra := by
  simp only [obs, step]
  unfold clientRun specClient
  cases ok with
  | false => exact ⟨hi, rfl, [], by simp⟩
  | true =>
    simp only [Bool.not_true, Bool.false_eq_true, if_false]
    obtain ⟨hi1, hg1, -, -⟩ := viewAccess_spec hi .rawSettings
    cases hp : c.protoHttp with
    | false => exact ⟨hi1, rfl, [], by
        show (viewAccess c s .rawSettings).1.decoders = s.decoders ++ []
        rw [hg1.decoders]; simp⟩
    | true =>
      simp only [Bool.not_true, Bool.false_eq_true, if_false]
      obtain ⟨h1, h2⟩ := c2http_spec hi1 .aesHmac ⟨false, .foreign, false⟩ (by decide)
      unfold C2Outcome at h2
      generalize c2http true c (viewAccess c s .rawSettings).1 .aesHmac ⟨false, .foreign, false⟩ = r at h1 h2
      obtain ⟨s2, res⟩ := r
      cases res with
      | error e =>
        obtain ⟨x, e1, e2, e3⟩ := h2
        simp only at e2 e3 h1
        subst e2
        exact ⟨h1, by simp [deepRes, e1], [], by simp [e3, hg1.decoders]⟩
      | ok d =>
        obtain ⟨dd, e1, e2, e3, -⟩ := h2
        simp only at e2 e3 h1
        simp only [e1]
        cases hd : c.hasDomains with
        | false => exact ⟨h1, by simp [deepRes], [d], by simp [e3, hg1.decoders]⟩
        | true =>
          simp only [Bool.not_true, Bool.false_eq_true, if_false]
          obtain ⟨hi3, hg3, hm3, -⟩ := viewAccess_spec h1 .settings
          rw [hasName_deref "SETTING_SLEEPTIME" hm3, hasName_deref "SETTING_JITTER" hm3,
            hasName_deref "SETTING_USERAGENT" hm3, hasName_deref "SETTING_HOST_HEADER" hm3]
          have hlen : ∃ extra, (viewAccess c s2 .settings).1.decoders = s.decoders ++ extra :=
            ⟨[d], by rw [hg3.decoders, e3, hg1.decoders]⟩
          obtain ⟨e, he⟩ := hg3.heap
          cases hn : (hasName (pureView c .settings) "SETTING_SLEEPTIME" && hasName (pureView c .settings) "SETTING_JITTER"
              && hasName (pureView c .settings) "SETTING_USERAGENT" && hasName (pureView c .settings) "SETTING_HOST_HEADER") with
          | false => exact ⟨hi3, by simp [deepRes], hlen⟩
          | true =>
            refine ⟨hi3, ?_, hlen⟩
            simp only [Bool.not_true, Bool.false_eq_true, if_false, deepRes]
            rw [he, derefD_ext e e2]

theorem step_profile {c : Config} {s : State} (hi : Inv c s) :
    Inv c (step true c s .mkProfile).1 ∧
    obs true c s .mkProfile = .profile (listsOf (pureView c .settingsByIndex)) ∧
    (step true c s .mkProfile).1.decoders = s.decoders := by
  simp only [obs, step]
  unfold profileRun
  dsimp only
  obtain ⟨hi1, hg1, hm1, -⟩ := viewAccess_spec hi .settingsByIndex
  generalize (viewAccess c s .settingsByIndex).2 = m at *
  -- the optional `config.uris` access
  have key : ∀ b : Bool, ∃ s2, (if b then (viewAccess c (viewAccess c s .settingsByIndex).1 .rawSettings).1
        else (viewAccess c s .settingsByIndex).1) = s2 ∧ Inv c s2 ∧ Grows (viewAccess c s .settingsByIndex).1 s2 := by
    intro b
    cases b with
    | false => exact ⟨_, rfl, hi1, Grows.refl _⟩
    | true =>
      obtain ⟨hi2, hg2, -, -⟩ := viewAccess_spec hi1 .rawSettings
      exact ⟨_, rfl, hi2, hg2⟩
  obtain ⟨s2, hs2, hi2, hg2⟩ := key (hasConst m "SETTING_DOMAINS")
  simp only [hs2]
  obtain ⟨e2, he2⟩ := hg2.heap
  have hm2 : derefMap s2.heap m = some (pureView c .settingsByIndex) := by
    rw [he2]; exact derefMap_ext e2 hm1
  obtain ⟨e, cells, c1, c2, c3⟩ := copyLists_spec m s2.heap _ hm2
  simp only [c1]
  refine ⟨?_, by simp [deepRes, c2], ?_⟩
  · exact (hi2.extend e).addExternal cells (fun a ha => (c3 a ha).2)
      (fun a ha hcfg => absurd (hi2.cfg_lt a hcfg) (Nat.not_lt.2 (c3 a ha).1))
  · exact hg2.decoders.trans hg1.decoders

theorem derefD_pick {h : Heap} {d : Decoder} {dd : DDecoder} (hd : derefD h d = some dd) (w : Which) :
    h[(d.pick w).tsteps]? = some (pickD dd w).1 ∧ h[(d.pick w).rsteps]? = some (pickD dd w).2 := by
  simp only [derefD] at hd
  cases h1 : derefT h d.submit with
  | none => simp [h1] at hd
  | some x =>
    cases h2 : derefT h d.get with
    | none => simp [h1, h2] at hd
    | some y =>
      cases h3 : derefT h d.response with
      | none => simp [h1, h2, h3] at hd
      | some z =>
        simp only [h1, h2, h3, Option.some.injEq] at hd; subst hd
        have aux : ∀ (t : Transform) (p : DTransform), derefT h t = some p →
            h[t.tsteps]? = some p.1 ∧ h[t.rsteps]? = some p.2 := by
          intro t p ht
          simp only [derefT] at ht
          cases g1 : h[t.tsteps]? with
          | none => simp [g1] at ht
          | some u =>
            cases g2 : h[t.rsteps]? with
            | none => simp [g1, g2] at ht
            | some v => simp only [g1, g2, Option.some.injEq] at ht; subst ht; exact ⟨rfl, rfl⟩
        cases w with
        | submit => exact aux _ _ h1
        | get => exact aux _ _ h2
        | response => exact aux _ _ h3

theorem readSteps_spec {c : Config} {s : State} (hi : Inv c s) (d : Nat) (w : Which) (rc : Bool) :
    deepRes s.heap (readSteps s d w rc) = specSteps c s.decoders.length d w rc := by
  unfold readSteps specSteps
  by_cases hd : d < s.decoders.length
  · have hget : s.decoders[d]? = some s.decoders[d] := List.getElem?_eq_getElem hd
    obtain ⟨dd, e1, e2⟩ := hi.decs _ (List.getElem_mem hd)
    have hp := derefD_pick e2 w
    simp only [hget, hd, if_true, e1]
    cases rc with
    | false => simp [hp.1, deepRes]
    | true => simp [hp.2, deepRes]
  · have hget : s.decoders[d]? = none := List.getElem?_eq_none (Nat.le_of_not_lt hd)
    simp [hd, deepRes]

theorem step_snapshot {c : Config} {s : State} (hi : Inv c s) :
    Inv c (step true c s .snapshotAll).1 ∧
    obs true c s .snapshotAll = .snap (View.all.map (pureView c)) ∧
    (step true c s .snapshotAll).1.decoders = s.decoders := by
  simp only [obs, step]
  unfold snapshotRun
  obtain ⟨i1, g1, m1, -⟩ := viewAccess_spec hi .settings
  obtain ⟨i2, g2, m2, -⟩ := viewAccess_spec i1 .settingsByIndex
  obtain ⟨i3, g3, m3, -⟩ := viewAccess_spec i2 .rawSettings
  obtain ⟨i4, g4, m4, -⟩ := viewAccess_spec i3 .rawSettingsByIndex
  refine ⟨i4, ?_, ((g4.decoders.trans g3.decoders).trans g2.decoders).trans g1.decoders⟩
  obtain ⟨e2, he2⟩ := g2.heap
  obtain ⟨e3, he3⟩ := g3.heap
  obtain ⟨e4, he4⟩ := g4.heap
  have n3 := derefMap_ext e4 m3
  rw [← he4] at n3
  have n2 := derefMap_ext e4 (derefMap_ext e3 m2)
  rw [← he3, ← he4] at n2
  have n1 := derefMap_ext e4 (derefMap_ext e3 (derefMap_ext e2 m1))
  rw [← he2, ← he3, ← he4] at n1
  simp [deepRes, derefMaps, n1, n2, n3, m4, View.all]

/-! ### per-decoder key state (`iter_recover_http`) -/

theorem setKs_length (ds : List Decoder) (i : Nat) (f : KeyState → KeyState) : (setKs ds i f).length = ds.length := by
  induction ds generalizing i with
  | nil => rfl
  | cons d r ih => cases i <;> simp [setKs, ih]

theorem setKs_refs (ds : List Decoder) (i : Nat) (f : KeyState → KeyState) :
    (setKs ds i f).flatMap Decoder.refs = ds.flatMap Decoder.refs := by
  induction ds generalizing i with
  | nil => rfl
  | cons d r ih =>
    cases i with
    | zero => simp [setKs, Decoder.refs]
    | succ i => simp [setKs, ih]

theorem setKs_mem {ds : List Decoder} {i : Nat} {f : KeyState → KeyState} {d' : Decoder} (h : d' ∈ setKs ds i f) :
    ∃ d ∈ ds, d'.submit = d.submit ∧ d'.get = d.get ∧ d'.response = d.response := by
  induction ds generalizing i with
  | nil => simp [setKs] at h
  | cons d r ih =>
    cases i with
    | zero =>
      simp only [setKs, List.mem_cons] at h
      rcases h with rfl | h
      · exact ⟨d, by simp, rfl, rfl, rfl⟩
      · exact ⟨d', by simp [h], rfl, rfl, rfl⟩
    | succ i =>
      simp only [setKs, List.mem_cons] at h
      rcases h with rfl | h
      · exact ⟨d', by simp, rfl, rfl, rfl⟩
      · obtain ⟨d0, h0, h1⟩ := ih h
        exact ⟨d0, by simp [h0], h1⟩

theorem setKs_get (ds : List Decoder) (i j : Nat) (f : KeyState → KeyState) :
    ((setKs ds i f)[j]?).map Decoder.ks = (ds[j]?).map (fun d => if j = i then f d.ks else d.ks) := by
  induction ds generalizing i j with
  | nil => simp [setKs]
  | cons d r ih =>
    cases i with
    | zero => cases j <;> simp [setKs]
    | succ i =>
      cases j with
      | zero => simp [setKs]
      | succ j => simp [setKs, ih]

theorem derefD_congr {h : Heap} {d d' : Decoder} (h1 : d'.submit = d.submit) (h2 : d'.get = d.get)
    (h3 : d'.response = d.response) : derefD h d' = derefD h d := by
  simp [derefD, h1, h2, h3]

theorem Inv.setKs {c : Config} {s : State} (hi : Inv c s) (i : Nat) (f : KeyState → KeyState) :
    Inv c { s with decoders := setKs s.decoders i f } := by
  constructor
  · exact hi.views
  · intro d' hd'
    obtain ⟨d, hd, h1, h2, h3⟩ := setKs_mem hd'
    obtain ⟨dd, e1, e2⟩ := hi.decs d hd
    exact ⟨dd, e1, by rw [derefD_congr h1 h2 h3]; exact e2⟩
  · exact hi.exts
  · intro a ha
    have : a ∈ extRefs s := by
      simp only [extRefs, setKs_refs] at ha ⊢; exact ha
    exact hi.sep a this
  · exact hi.disj

/-- the result of `iter_recover_http` is a function of the decoder's own key state -/
theorem wire_spec (c : Config) (s : State) (d : Nat) (w : Wire) :
    obs true c s (.recoverWire d w) =
      match s.decoders[d]? with
      | none => .noDecoder
      | some dec => match wireRes dec.ks w with
        | .inl ps => .packets ps
        | .inr e => .exc e := by
  simp only [obs, step]
  cases s.decoders[d]? with
  | none => rfl
  | some dec =>
    dsimp only
    generalize wireRes dec.ks w = r
    cases r <;> rfl

/-- what one operation does to the key state of decoder `j` -/
def ownStep (j : Nat) (op : Op) (ks : KeyState) : KeyState :=
  match op with
  | .recoverWire d w => if j = d then wireStep ks w else ks
  | _ => ks

/-- every operation keeps the invariant; operations other than `iter_recover_http` return what the pure
specification says and only append decoders -/
theorem step_spec {c : Config} {s : State} (hi : Inv c s) (op : Op) :
    Inv c (step true c s op).1 ∧
    (op.isWire = false → obs true c s op = specObs c s.decoders.length op) ∧
    (op.isWire = false → ∃ extra, (step true c s op).1.decoders = s.decoders ++ extra) := by
  cases op with
  | viewAccess v =>
    obtain ⟨h1, h2, h3⟩ := step_viewAccess hi v
    exact ⟨h1, fun _ => h2, fun _ => ⟨[], by rw [h3]; simp⟩⟩
  | settingsMap k p q =>
    obtain ⟨h1, h2, h3⟩ := step_settingsMap hi k p q
    exact ⟨h1, fun _ => h2, fun _ => ⟨[], by rw [h3]; simp⟩⟩
  | mkC2Http k =>
    obtain ⟨h1, h2, h3⟩ := step_mkC2Http hi k
    exact ⟨h1, fun _ => h2, fun _ => h3⟩
  | clientDryRun ok =>
    obtain ⟨h1, h2, h3⟩ := step_client hi ok
    exact ⟨h1, fun _ => h2, fun _ => h3⟩
  | mkProfile =>
    obtain ⟨h1, h2, h3⟩ := step_profile hi
    exact ⟨h1, fun _ => h2, fun _ => ⟨[], by rw [h3]; simp⟩⟩
  | transform d w => exact ⟨hi, fun _ => readSteps_spec hi d w false, fun _ => ⟨[], by simp [step]⟩⟩
  | recover d w => exact ⟨hi, fun _ => readSteps_spec hi d w true, fun _ => ⟨[], by simp [step]⟩⟩
  | recoverWire d w =>
    refine ⟨?_, fun h => by simp [Op.isWire] at h, fun h => by simp [Op.isWire] at h⟩
    simp only [step]
    cases s.decoders[d]? with
    | none => exact hi
    | some dec => exact hi.setKs d _
  | propsRaw =>
    obtain ⟨h1, h2, -, -⟩ := viewAccess_spec hi .rawSettings
    exact ⟨h1, fun _ => rfl, fun _ => ⟨[], by
      show (viewAccess c s .rawSettings).1.decoders = s.decoders ++ []
      rw [h2.decoders]; simp⟩⟩
  | propsPretty =>
    obtain ⟨h1, h2, -, -⟩ := viewAccess_spec hi .settings
    exact ⟨h1, fun _ => rfl, fun _ => ⟨[], by
      show (viewAccess c s .settings).1.decoders = s.decoders ++ []
      rw [h2.decoders]; simp⟩⟩
  | mutateAttempt t =>
    obtain ⟨h1, h2, h3⟩ := step_mutate hi t
    refine ⟨h1, fun _ => ?_, fun _ => ⟨[], by rw [h3]; simp⟩⟩
    simp only [obs, h2, deepRes, specObs]
  | snapshotAll =>
    obtain ⟨h1, h2, h3⟩ := step_snapshot hi
    exact ⟨h1, fun _ => h2, fun _ => ⟨[], by rw [h3]; simp⟩⟩

/-- one operation changes the key state of an existing decoder `j` only if it is `iter_recover_http` on `j` -/
theorem step_ks {c : Config} {s : State} (hi : Inv c s) (op : Op) (j : Nat) (hj : j < s.decoders.length) :
    ((step true c s op).1.decoders[j]?).map Decoder.ks = (s.decoders[j]?).map (fun d => ownStep j op d.ks) ∧
    j < (step true c s op).1.decoders.length := by
  by_cases hw : op.isWire = true
  · cases op <;> simp [Op.isWire] at hw
    rename_i d w
    simp only [step]
    cases hd : s.decoders[d]? with
    | none =>
      have hdj : j ≠ d := by
        intro h; subst h
        rw [List.getElem?_eq_getElem hj] at hd; cases hd
      refine ⟨?_, hj⟩
      simp [ownStep, hdj]
    | some dec =>
      refine ⟨?_, by simpa [setKs_length] using hj⟩
      show ((setKs s.decoders d fun ks => wireStep ks w)[j]?).map Decoder.ks = _
      rw [setKs_get]
      simp only [ownStep]
  · have hw' : op.isWire = false := by simpa using hw
    obtain ⟨extra, he⟩ := (step_spec hi op).2.2 hw'
    rw [he]
    refine ⟨?_, by simp; omega⟩
    rw [List.getElem?_append_left hj]
    have : ∀ ks, ownStep j op ks = ks := by
      intro ks; cases op <;> simp [Op.isWire] at hw' <;> rfl
    simp [this]

/-- the `iter_recover_http` calls made on decoder `j` in a history -/
def ownWires (j : Nat) : List Op → List Wire
  | [] => []
  | .recoverWire d w :: rest => if j = d then w :: ownWires j rest else ownWires j rest
  | _ :: rest => ownWires j rest

theorem ownStep_eq (j : Nat) (op : Op) (ks : KeyState) :
    ownStep j op ks = (ownWires j [op]).foldl wireStep ks := by
  cases op <;> simp [ownStep, ownWires]
  split <;> simp

theorem ownWires_cons (j : Nat) (op : Op) (rest : List Op) :
    ownWires j (op :: rest) = ownWires j [op] ++ ownWires j rest := by
  cases op <;> simp [ownWires]
  split <;> simp

theorem run_ks {c : Config} (ops : List Op) : ∀ {s : State}, Inv c s → ∀ j, j < s.decoders.length →
    ((runState true c s ops).decoders[j]?).map Decoder.ks =
      (s.decoders[j]?).map (fun d => (ownWires j ops).foldl wireStep d.ks) := by
  induction ops with
  | nil => intro s _ j _; simp [runState, ownWires]
  | cons op rest ih =>
    intro s hi j hj
    obtain ⟨h1, h2⟩ := step_ks hi op j hj
    have := ih (step_spec hi op).1 j h2
    simp only [runState, List.foldl_cons] at this ⊢
    have e : ∀ (x : Option Decoder) (g : KeyState → KeyState),
        x.map (fun d => g d.ks) = (x.map Decoder.ks).map g := by
      intro x g; cases x <;> rfl
    rw [this, e _ (fun ks => (ownWires j rest).foldl wireStep ks), h1, ownWires_cons]
    cases s.decoders[j]? with
    | none => rfl
    | some d => simp [ownStep_eq, List.foldl_append]

theorem run_inv {c : Config} (ops : List Op) : ∀ {s : State}, Inv c s → Inv c (runState true c s ops) := by
  induction ops with
  | nil => intro s hi; exact hi
  | cons op rest ih => intro s hi; exact ih (step_spec hi op).1

theorem reachable_inv (c : Config) (ops : List Op) : Inv c (runState true c State.init ops) :=
  run_inv ops (Inv.init c)

theorem snapshot_of_inv {c : Config} {s : State} (hi : Inv c s) :
    snapshot c s = View.all.map (fun v => some (pureView c v)) := by
  unfold snapshot obsView
  apply List.map_congr_left
  intro v _
  exact (viewAccess_spec hi v).2.2.1

theorem specObs_decoderFree (c : Config) (n : Nat) (op : Op) (h : op.decoderFree = true) :
    specObs c n op = specObs c 0 op := by
  cases op <;> simp [Op.decoderFree] at h <;> rfl

theorem isWire_of_decoderFree (op : Op) (h : op.decoderFree = true) : op.isWire = false := by
  cases op <;> simp [Op.decoderFree] at h <;> rfl
end C14

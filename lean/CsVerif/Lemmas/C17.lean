import CsVerif.Model.C17
/-! Helper lemmas and specification-side definitions for C17 (no property statements here). -/
namespace C17
open Gen.Guardrails

/-! ### xor (byte-wise view of `C20.xor`) -/
theorem keyAt_zero_of_all (k : Bytes) (h : k.all (· == 0) = true) (i : Nat) : C20.keyAt k i = 0 := by
  unfold C20.keyAt
  rw [List.getD_eq_getElem?_getD]
  cases hk : k[i % k.length]? with
  | none => rfl
  | some b =>
    have hm : b ∈ k := List.mem_of_getElem? hk
    simp at h
    simp [h b hm]

theorem xor_eq_xorCore (d k : Bytes) : C20.xor d k = C20.xorCore d k := by
  unfold C20.xor
  split
  · rename_i h
    unfold C20.xorCore
    apply List.ext_getElem
    · simp
    · intro i h1 h2
      simp [keyAt_zero_of_all k h]
  · rfl

theorem xor_length (d k : Bytes) : (C20.xor d k).length = d.length := by
  rw [xor_eq_xorCore]; simp [C20.xorCore]

theorem xor_getElem (d k : Bytes) (i : Nat) (h : i < (C20.xor d k).length) :
    (C20.xor d k)[i] = d[i]'(by rw [xor_length] at h; exact h) ^^^ C20.keyAt k i := by
  simp [xor_eq_xorCore, C20.xorCore]

theorem xor_involutive (d k : Bytes) : C20.xor (C20.xor d k) k = d := by
  apply List.ext_getElem
  · simp [xor_length]
  · intro i h1 h2
    simp [xor_getElem, UInt8.xor_assoc]

/-! ### payload_checksum and the selection loop -/
/-- Σ byte·(i % 3 + 1), positions counted from `i` -/
def wsum : Bytes → Nat → Nat
  | [], _ => 0
  | b :: bs, i => b.toNat * (i % 3 + 1) + wsum bs (i + 1)

theorem checksumGo_eq (d : Bytes) (i n : Nat) :
    checksumGo d i n = if d = [] then n else (n + wsum d i) % 99999999 := by
  induction d generalizing i n with
  | nil => simp [checksumGo]
  | cons b bs ih =>
    simp only [checksumGo, reduceCtorEq, ↓reduceIte, wsum]
    rw [ih]
    split
    · rename_i h; subst h; simp [wsum]
    · rw [Nat.mod_add_mod, Nat.add_assoc]

theorem payloadChecksum_eq (d : Bytes) : payloadChecksum d = wsum d 0 % 99999999 := by
  unfold payloadChecksum
  rw [checksumGo_eq]
  split
  · rename_i h; subst h; rfl
  · simp

theorem wsum_le (d : Bytes) (i : Nat) : wsum d i ≤ 765 * d.length := by
  induction d generalizing i with
  | nil => simp [wsum]
  | cons b bs ih =>
    simp only [wsum, List.length_cons]
    have := ih (i + 1)
    have hb := b.toNat_lt
    have h3 : i % 3 + 1 ≤ 3 := by omega
    have : b.toNat * (i % 3 + 1) ≤ 255 * 3 := Nat.mul_le_mul (by omega) h3
    omega

theorem payloadChecksum_lt (d : Bytes) : payloadChecksum d < 99999999 := by
  rw [payloadChecksum_eq]; exact Nat.mod_lt _ (by decide)

theorem payloadChecksum_small (d : Bytes) (h : d.length ≤ 130718) : payloadChecksum d = wsum d 0 := by
  rw [payloadChecksum_eq]
  apply Nat.mod_eq_of_lt
  have := wsum_le d 0
  omega


theorem selectKey_some {g : Bytes} {s : Nat} {ks : List Bytes} {k u : Bytes}
    (h : selectKey g s ks = some (k, u)) :
    k ∈ ks ∧ u = C20.xor g k ∧ s = payloadChecksum u + 1 := by
  induction ks with
  | nil => simp [selectKey] at h
  | cons k0 ks ih =>
    simp only [selectKey] at h
    split at h
    · rename_i hs
      simp at h
      obtain ⟨rfl, rfl⟩ := h
      exact ⟨by simp, rfl, hs⟩
    · obtain ⟨a, b, c⟩ := ih h
      exact ⟨by simp [a], b, c⟩

theorem selectKey_none_iff (g : Bytes) (s : Nat) (ks : List Bytes) :
    selectKey g s ks = none ↔ ∀ k ∈ ks, s ≠ payloadChecksum (C20.xor g k) + 1 := by
  induction ks with
  | nil => simp [selectKey]
  | cons k0 ks ih =>
    simp only [selectKey]
    split
    · rename_i hs
      simp [hs]
    · rename_i hs
      rw [ih]
      simp [hs]

theorem selectKey_first_hit (g : Bytes) (s : Nat) (pre post : List Bytes) (K : Bytes)
    (hpre : ∀ k ∈ pre, s ≠ payloadChecksum (C20.xor g k) + 1)
    (hK : s = payloadChecksum (C20.xor g K) + 1) :
    selectKey g s (pre ++ K :: post) = some (K, C20.xor g K) := by
  induction pre with
  | nil => simp [selectKey, hK]
  | cons k0 ks ih =>
    have h0 := hpre k0 (by simp)
    simp only [List.cons_append, selectKey, h0, ↓reduceIte]
    exact ih (fun k hk => hpre k (by simp [hk]))

/-! ### Counter / most_common -/

theorem incr_keys (c : Counter) (k : Bytes) :
    (Counter.incr c k).map Prod.fst = if k ∈ c.map Prod.fst then c.map Prod.fst else c.map Prod.fst ++ [k] := by
  induction c with
  | nil => simp [Counter.incr]
  | cons p rest ih =>
    obtain ⟨k', n⟩ := p
    simp only [Counter.incr]
    by_cases h : k' = k
    · subst h; simp
    · simp only [h, ↓reduceIte, List.map_cons, ih, List.mem_cons]
      have h' : ¬ k = k' := fun e => h e.symm
      simp only [h', false_or]
      split <;> simp

/-- count recorded for `k` (0 when absent) -/
def cnt : Counter → Bytes → Nat
  | [], _ => 0
  | (k', n) :: rest, k => if k' = k then n else cnt rest k

theorem cnt_incr (c : Counter) (k k2 : Bytes) :
    cnt (Counter.incr c k) k2 = cnt c k2 + (if k = k2 then 1 else 0) := by
  induction c with
  | nil => simp [Counter.incr, cnt]
  | cons p rest ih =>
    obtain ⟨k', n⟩ := p
    simp only [Counter.incr]
    by_cases h : k' = k
    · subst h
      simp only [↓reduceIte, cnt]
      split <;> simp
    · simp only [h, ↓reduceIte, cnt, ih]
      split
      · rename_i h2; subst h2
        have : ¬ k = k' := fun e => h e.symm
        simp [this]
      · rfl

/-- keys are distinct and every entry carries the count recorded for its key, which is positive -/
def Counter.WF (c : Counter) : Prop :=
  (c.map Prod.fst).Nodup ∧ ∀ p ∈ c, 0 < p.2

theorem incr_wf (c : Counter) (k : Bytes) (h : c.WF) : (Counter.incr c k).WF := by
  constructor
  · rw [incr_keys]
    split
    · exact h.1
    · rename_i hk
      rw [List.nodup_append]
      refine ⟨h.1, by simp, ?_⟩
      intro a ha b hb
      simp at hb; subst hb
      intro e; subst e; exact hk ha
  · have h2 := h.2
    clear h
    induction c with
    | nil => intro p hp; simp [Counter.incr] at hp; subst hp; simp
    | cons q rest ih =>
      obtain ⟨k', n⟩ := q
      intro p hp
      simp only [Counter.incr] at hp
      split at hp
      · simp at hp
        rcases hp with rfl | hp
        · simp
        · exact h2 p (by simp [hp])
      · simp at hp
        rcases hp with rfl | hp
        · exact h2 _ (by simp)
        · exact ih (fun p hp => h2 p (by simp [hp])) p hp

theorem update_wf (c : Counter) (ks : List Bytes) (h : c.WF) : (c.update ks).WF := by
  unfold Counter.update
  induction ks generalizing c with
  | nil => exact h
  | cons k ks ih => exact ih _ (incr_wf c k h)

theorem cnt_update (c : Counter) (ks : List Bytes) (k2 : Bytes) :
    cnt (c.update ks) k2 = cnt c k2 + ks.count k2 := by
  unfold Counter.update
  induction ks generalizing c with
  | nil => simp
  | cons k ks ih =>
    simp only [List.foldl_cons, ih, cnt_incr, List.count_cons]
    by_cases h : k = k2
    · subst h; simp; omega
    · have : (k == k2) = false := by simp [h]
      simp [h, this]

theorem mem_cnt {c : Counter} (h : (c.map Prod.fst).Nodup) {p : Bytes × Nat} (hp : p ∈ c) : cnt c p.1 = p.2 := by
  induction c with
  | nil => cases hp
  | cons q rest ih =>
    obtain ⟨k', n⟩ := q
    simp only [List.map_cons, List.nodup_cons] at h
    simp only [List.mem_cons] at hp
    rcases hp with rfl | hp
    · simp [cnt]
    · simp only [cnt]
      have : k' ≠ p.1 := by
        intro e
        apply h.1
        rw [e]
        exact List.mem_map_of_mem hp
      simp [this, ih h.2 hp]

theorem cnt_pos_mem {c : Counter} {k : Bytes} (h : 0 < cnt c k) : (k, cnt c k) ∈ c := by
  induction c with
  | nil => simp [cnt] at h
  | cons q rest ih =>
    obtain ⟨k', n⟩ := q
    simp only [cnt] at h ⊢
    split
    · rename_i e; subst e; simp
    · rename_i e; simp only [e, ↓reduceIte] at h
      simp [ih h]

theorem wf_nodup {c : Counter} (h : (c.map Prod.fst).Nodup) : c.Nodup := by
  induction c with
  | nil => simp
  | cons q rest ih =>
    simp only [List.map_cons, List.nodup_cons] at h ⊢
    exact ⟨fun hq => h.1 (List.mem_map_of_mem hq), ih h.2⟩

/-! maxFirst -/
theorem maxFirst_spec {c : Counter} {a : Bytes × Nat} (h : maxFirst c = some a) :
    a ∈ c ∧ ∀ p ∈ c, p.2 ≤ a.2 := by
  induction c generalizing a with
  | nil => simp [maxFirst] at h
  | cons x rest ih =>
    simp only [maxFirst] at h
    split at h
    · rename_i hn
      injection h with h; subst h
      have : rest = [] := by
        cases rest with
        | nil => rfl
        | cons y ys =>
          simp only [maxFirst] at hn
          split at hn
          · cases hn
          · split at hn <;> cases hn
      subst this
      simp
    · rename_i y hy
      obtain ⟨hy1, hy2⟩ := ih hy
      split at h
      · rename_i hgt
        injection h with h; subst h
        refine ⟨by simp [hy1], ?_⟩
        intro p hp
        simp at hp
        rcases hp with rfl | hp
        · omega
        · exact hy2 p hp
      · rename_i hle
        injection h with h; subst h
        refine ⟨by simp, ?_⟩
        intro p hp
        simp at hp
        rcases hp with rfl | hp
        · omega
        · have := hy2 p hp; omega

theorem maxFirst_isSome {c : Counter} (h : c ≠ []) : ∃ a, maxFirst c = some a := by
  cases c with
  | nil => exact absurd rfl h
  | cons x rest =>
    simp only [maxFirst]
    split
    · exact ⟨_, rfl⟩
    · split <;> exact ⟨_, rfl⟩

/-- an entry that strictly beats every other entry is alone in what `most_common(2)` lets through -/
theorem yield_strict_max {c : Counter} (hnd : c.Nodup) {K : Bytes} {n : Nat} (hK : (K, n) ∈ c)
    (hstrict : ∀ p ∈ c, p ≠ (K, n) → p.2 < n) :
    yieldLoop 0 (mostCommon2 c) = [K] := by
  have hne : c ≠ [] := by intro e; subst e; cases hK
  obtain ⟨a, ha⟩ := maxFirst_isSome hne
  obtain ⟨ha1, ha2⟩ := maxFirst_spec ha
  have haK : a = (K, n) := by
    apply Classical.byContradiction
    intro hneq
    have h1 := hstrict a ha1 hneq
    have h2 := ha2 _ hK
    simp at h2; omega
  subst haK
  unfold mostCommon2
  rw [ha]
  simp only []
  cases hb : maxFirst (c.erase (K, n)) with
  | none => simp [yieldLoop]
  | some b =>
    obtain ⟨hb1, _⟩ := maxFirst_spec hb
    rw [List.Nodup.mem_erase_iff hnd] at hb1
    have := hstrict b hb1.2 hb1.1
    obtain ⟨bk, bn⟩ := b
    simp only [Option.toList, yieldLoop]
    simp at this
    simp [this]

/-! ### aligned n-grams and candidates -/
/-- all aligned `keylen`-grams the Counter sees: per chunk, last gram of each chunk zero-filled -/
def gramsOf (bufSize keylen : Nat) (data : Bytes) : List Bytes :=
  (chunks bufSize data).flatMap (grouper keylen)

theorem update_update (c : Counter) (a b : List Bytes) : (c.update a).update b = c.update (a ++ b) := by
  simp [Counter.update, List.foldl_append]

theorem counterFor_eq (bufSize keylen : Nat) (data : Bytes) :
    counterFor bufSize keylen data = Counter.update [] (gramsOf bufSize keylen data) := by
  unfold counterFor gramsOf
  have : ∀ (cs : List Bytes) (c : Counter),
      cs.foldl (fun c chunk => c.update (grouper keylen chunk)) c = c.update (cs.flatMap (grouper keylen)) := by
    intro cs
    induction cs with
    | nil => intro c; simp [Counter.update]
    | cons x xs ih =>
      intro c
      simp only [List.foldl_cons, List.flatMap_cons, ih, update_update]
  exact this _ _

/-- `K` occurs strictly more often than any other gram -/
def StrictlyMostCommon (K : Bytes) (grams : List Bytes) : Prop :=
  ∀ G, G ≠ K → grams.count G < grams.count K

theorem candidatesAt_strict (bufSize : Nat) (data K : Bytes) (L : Nat)
    (h : StrictlyMostCommon K (gramsOf bufSize L data)) :
    candidatesAt bufSize data L = [K] := by
  unfold candidatesAt
  rw [counterFor_eq]
  have hwf : (Counter.update [] (gramsOf bufSize L data)).WF :=
    update_wf [] _ ⟨by simp, by simp⟩
  have hcnt : ∀ G, cnt (Counter.update [] (gramsOf bufSize L data)) G = (gramsOf bufSize L data).count G := by
    intro G; rw [cnt_update]; simp [cnt]
  have hKpos : 0 < (gramsOf bufSize L data).count K := by
    have := h (K ++ [0]) (by intro e; have := congrArg List.length e; simp at this)
    omega
  have hK : (K, (gramsOf bufSize L data).count K) ∈ Counter.update [] (gramsOf bufSize L data) := by
    have := cnt_pos_mem (c := Counter.update [] (gramsOf bufSize L data)) (k := K) (by rw [hcnt]; exact hKpos)
    rw [hcnt] at this; exact this
  apply yield_strict_max (wf_nodup hwf.1) hK
  intro p hp hne
  have hp2 := mem_cnt hwf.1 hp
  rw [hcnt] at hp2
  by_cases hk : p.1 = K
  · exfalso; apply hne
    rw [hk] at hp2
    cases p; simp at hk hp2 ⊢; exact ⟨hk, hp2.symm⟩
  · rw [← hp2]; exact h _ hk

theorem count_add_count_le (G K : Bytes) (hG : G ≠ K) (grams : List Bytes) :
    grams.count G + grams.count K ≤ grams.length := by
  induction grams with
  | nil => simp
  | cons x xs ih =>
    simp only [List.count_cons, List.length_cons]
    by_cases h1 : x = G
    · subst h1
      have : (x == K) = false := by simp [hG]
      simp [this]; omega
    · have : (x == G) = false := by simp [h1]
      simp only [this]
      by_cases h2 : x = K
      · have : (x == K) = true := by simp [h2]
        simp [this]; omega
      · have : (x == K) = false := by simp [h2]
        simp [this]; omega

theorem majority_strict (K : Bytes) (grams : List Bytes) (h : grams.length < 2 * grams.count K) :
    StrictlyMostCommon K grams := by
  intro G hG
  have := count_add_count_le G K hG grams
  omega

theorem candidates_split (bufSize : Nat) (data : Bytes) (L : Nat) (h2 : 2 ≤ L) (h256 : L ≤ 256) :
    findXorKeyCandidates data bufSize =
      (List.range' 2 (L - 2)).flatMap (candidatesAt bufSize data) ++ candidatesAt bufSize data L
        ++ (List.range' (L + 1) (256 - L)).flatMap (candidatesAt bufSize data) := by
  unfold findXorKeyCandidates
  have : List.range' 2 255 = List.range' 2 (L - 2) ++ (L :: List.range' (L + 1) (256 - L)) := by
    have h1 : List.range' 2 255 = List.range' 2 (L - 2) ++ List.range' (2 + (L - 2)) (255 - (L - 2)) := by
      rw [List.range'_append_1]; congr 1; omega
    rw [h1]
    congr 1
    have : 2 + (L - 2) = L := by omega
    rw [this]
    have : 255 - (L - 2) = (256 - L) + 1 := by omega
    rw [this, List.range'_succ]
  rw [this]
  simp [List.flatMap_append]

theorem xor_take (d k : Bytes) (n : Nat) : (C20.xor d k).take n = C20.xor (d.take n) k := by
  apply List.ext_getElem
  · simp [xor_length]
  · intro i h1 h2
    simp [xor_getElem]

theorem keyAt_lt (k : Bytes) (i : Nat) (h : i < k.length) : C20.keyAt k i = k[i] := by
  unfold C20.keyAt
  rw [Nat.mod_eq_of_lt h]
  simp [h]

theorem range_split (n k : Nat) (h : k < n) :
    List.range n = List.range' 0 k ++ k :: List.range' (k + 1) (n - k - 1) := by
  rw [List.range_eq_range']
  have h1 : List.range' 0 n = List.range' 0 k ++ List.range' (0 + k) (n - k) := by
    rw [List.range'_append_1]; congr 1; omega
  rw [h1]
  congr 1
  have h3 : n - k = (n - k - 1) + 1 := by omega
  rw [Nat.zero_add, h3, List.range'_succ]
  congr 2

/-! ### candidate lengths, periodic keys -/

theorem grouper_length (n : Nat) (d : Bytes) : ∀ g ∈ grouper n d, g.length = n := by
  fun_induction grouper n d with
  | case1 d h => intro g hg; cases hg
  | case2 d h ih =>
    intro g hg
    simp only [List.mem_cons] at hg
    rcases hg with rfl | hg
    · simp; omega
    · exact ih g hg

theorem update_keys (c : Counter) (ks : List Bytes) :
    ∀ p ∈ c.update ks, p.1 ∈ c.map Prod.fst ∨ p.1 ∈ ks := by
  unfold Counter.update
  induction ks generalizing c with
  | nil => intro p hp; left; exact List.mem_map_of_mem hp
  | cons k ks ih =>
    intro p hp
    simp only [List.foldl_cons] at hp
    rcases ih _ p hp with h | h
    · rw [incr_keys] at h
      split at h
      · left; exact h
      · simp at h
        rcases h with h | h
        · left; simp; exact h
        · right; simp [h]
    · right; simp [h]

theorem mostCommon2_sub (c : Counter) : ∀ p ∈ mostCommon2 c, p ∈ c := by
  intro p hp
  unfold mostCommon2 at hp
  split at hp
  · cases hp
  · rename_i a ha
    simp only [List.mem_cons] at hp
    rcases hp with rfl | hp
    · exact (maxFirst_spec ha).1
    · cases hb : maxFirst (c.erase a) with
      | none => rw [hb] at hp; cases hp
      | some b =>
        rw [hb] at hp
        simp at hp
        subst hp
        exact List.mem_of_mem_erase (maxFirst_spec hb).1

theorem yieldLoop_sub (fc : Nat) (l : List (Bytes × Nat)) : ∀ k ∈ yieldLoop fc l, k ∈ l.map Prod.fst := by
  induction l generalizing fc with
  | nil => intro k hk; cases hk
  | cons x rest ih =>
    obtain ⟨k0, c0⟩ := x
    intro k hk
    simp only [yieldLoop] at hk
    split at hk
    · simp only [List.mem_cons] at hk
      rcases hk with rfl | hk
      · simp
      · have := ih c0 k hk
        simp at this ⊢
        right; exact this
    · cases hk

theorem candidatesAt_length (bufSize : Nat) (data : Bytes) (n : Nat) :
    ∀ k ∈ candidatesAt bufSize data n, k.length = n := by
  intro k hk
  unfold candidatesAt at hk
  have h1 := yieldLoop_sub 0 _ k hk
  simp only [List.mem_map] at h1
  obtain ⟨p, hp, rfl⟩ := h1
  have h2 := mostCommon2_sub _ p hp
  rw [counterFor_eq] at h2
  rcases update_keys [] _ p h2 with h | h
  · cases h
  · unfold gramsOf at h
    simp only [List.mem_flatMap] at h
    obtain ⟨chunk, _, hg⟩ := h
    exact grouper_length n chunk _ hg

theorem flatten_replicate_getElem (R : Bytes) (m : Nat) (j : Nat) (h : j < ((List.replicate m R).flatten).length)
    (hR : 0 < R.length) :
    ((List.replicate m R).flatten)[j] = R[j % R.length]'(Nat.mod_lt _ hR) := by
  induction m generalizing j with
  | zero => simp at h
  | succ m ih =>
    simp only [List.replicate_succ, List.flatten_cons] at h ⊢
    by_cases hj : j < R.length
    · rw [List.getElem_append_left hj]
      simp [Nat.mod_eq_of_lt hj]
    · rw [List.getElem_append_right (by omega)]
      rw [ih]
      congr 1
      have : j = (j - R.length) + R.length := by omega
      conv => rhs; rw [this, Nat.add_mod_right]

theorem keyAt_tile (R : Bytes) (m : Nat) (hm : 0 < m) (i : Nat) :
    C20.keyAt ((List.replicate m R).flatten) i = C20.keyAt R i := by
  by_cases hR : R.length = 0
  · have : R = [] := List.length_eq_zero_iff.mp hR
    subst this
    simp [C20.keyAt]
  · have hRpos : 0 < R.length := by omega
    have hlen : ((List.replicate m R).flatten).length = m * R.length := by simp
    unfold C20.keyAt
    have hlt : i % ((List.replicate m R).flatten).length < ((List.replicate m R).flatten).length := by
      apply Nat.mod_lt; rw [hlen]; exact Nat.mul_pos hm hRpos
    rw [← List.getElem_eq_getD (h := hlt), flatten_replicate_getElem R m _ hlt hRpos]
    rw [← List.getElem_eq_getD (h := Nat.mod_lt _ hRpos)]
    congr 1
    rw [hlen]
    exact Nat.mod_mod_of_dvd _ (Nat.dvd_mul_left _ _)

theorem length_flatten_replicate (n : Nat) (R : Bytes) : ((List.replicate n R).flatten).length = n * R.length := by
  simp

theorem chunks_single (n : Nat) (d : Bytes) (hd : d ≠ []) (hn : d.length ≤ n) : chunks n d = [d] := by
  have hn0 : n ≠ 0 := by
    intro e; subst e
    have : d.length = 0 := by omega
    exact hd (List.length_eq_zero_iff.mp this)
  rw [chunks]
  have : ¬ (n = 0 ∨ d = []) := by simp [hn0, hd]
  simp only [this, ↓reduceDIte]
  rw [List.take_of_length_le hn, List.drop_eq_nil_of_le hn, chunks]
  simp

theorem grouper_tiled (R : Bytes) (hR : R ≠ []) (n : Nat) :
    grouper R.length ((List.replicate n R).flatten) = List.replicate n R := by
  have hRl : R.length ≠ 0 := fun e => hR (List.length_eq_zero_iff.mp e)
  induction n with
  | zero => rw [grouper]; simp
  | succ n ih =>
    rw [grouper]
    have : ¬ (R.length = 0 ∨ (List.replicate (n + 1) R).flatten = []) := by
      simp [hRl, List.replicate_succ, hR]
    rw [dif_neg this]
    simp only [List.replicate_succ, List.flatten_cons, List.take_left, List.drop_left,
      Nat.sub_self, List.replicate_zero, List.append_nil]
    rw [ih]

theorem all_same_strict (R : Bytes) (n : Nat) (hn : 0 < n) : StrictlyMostCommon R (List.replicate n R) := by
  intro G hG
  have h1 : (List.replicate n R).count G = 0 := by
    rw [List.count_eq_zero]
    intro hmem
    exact hG (List.eq_of_mem_replicate hmem)
  have h2 : (List.replicate n R).count R = n := by simp
  omega

/-! ### zero grams of the configuration become key grams of the guarded configuration -/

theorem keyAt_add_length (K : Bytes) (j : Nat) : C20.keyAt K (K.length + j) = C20.keyAt K j := by
  unfold C20.keyAt
  rw [Nat.add_mod_left]

theorem xor_drop_aligned (d K : Bytes) : (C20.xor d K).drop K.length = C20.xor (d.drop K.length) K := by
  apply List.ext_getElem
  · simp [xor_length]
  · intro i h1 h2
    simp only [List.getElem_drop, xor_getElem, keyAt_add_length]

theorem xor_zeros_key (K : Bytes) : C20.xor (List.replicate K.length 0) K = K := by
  apply List.ext_getElem
  · simp [xor_length]
  · intro i h1 h2
    rw [xor_getElem, keyAt_lt K i h2]
    simp

theorem xor_nil (K : Bytes) : C20.xor [] K = [] := by
  apply List.length_eq_zero_iff.mp; rw [xor_length]; rfl

theorem grouper_xor_length (K d : Bytes) :
    (grouper K.length (C20.xor d K)).length = (grouper K.length d).length := by
  fun_induction grouper K.length d with
  | case1 d h =>
    rw [grouper]
    have : K.length = 0 ∨ C20.xor d K = [] := by
      rcases h with h | h
      · left; exact h
      · right; subst h; exact xor_nil K
    rw [dif_pos this]
  | case2 d h ih =>
    rw [grouper]
    have : ¬ (K.length = 0 ∨ C20.xor d K = []) := by
      intro hc
      apply h
      rcases hc with hc | hc
      · left; exact hc
      · right
        have := congrArg List.length hc
        rw [xor_length] at this
        exact List.length_eq_zero_iff.mp this
    rw [dif_neg this]
    simp only [List.length_cons]
    rw [xor_drop_aligned, ih]

/-- every all-zero aligned gram of the configuration — except possibly a partial last one — shows up as the key itself -/
theorem zero_grams_le (K d : Bytes) :
    (grouper K.length d).count (List.replicate K.length 0)
      ≤ (grouper K.length (C20.xor d K)).count K + (if d.length % K.length = 0 then 0 else 1) := by
  fun_induction grouper K.length d with
  | case1 d h =>
    simp
  | case2 d h ih =>
    have hK : K.length ≠ 0 := fun e => h (Or.inl e)
    have hd : d ≠ [] := fun e => h (Or.inr e)
    have hx : ¬ (K.length = 0 ∨ C20.xor d K = []) := by
      intro hc
      rcases hc with hc | hc
      · exact hK hc
      · have := congrArg List.length hc
        rw [xor_length] at this
        exact hd (List.length_eq_zero_iff.mp this)
    rw [grouper.eq_1 K.length (C20.xor d K), dif_neg hx, xor_drop_aligned, xor_take]
    simp only [List.count_cons]
    by_cases hfull : K.length ≤ d.length
    · -- a full gram
      have ht : (d.take K.length).length = K.length := by simp; omega
      have hmod : (d.drop K.length).length % K.length = d.length % K.length := by
        simp only [List.length_drop]
        conv => rhs; rw [show d.length = (d.length - K.length) + K.length by omega, Nat.add_mod_right]
      rw [hmod] at ih
      have htx : (C20.xor (d.take K.length) K).length = K.length := by rw [xor_length, ht]
      simp only [ht, htx, Nat.sub_self, List.replicate_zero, List.append_nil]
      by_cases hz : d.take K.length = List.replicate K.length 0
      · rw [hz, xor_zeros_key]
        simp
        omega
      · have : (d.take K.length == List.replicate K.length 0) = false := by simp [hz]
        simp only [this]
        have hsplit : ∀ (b : Bool), (if b = true then 1 else 0) ≥ 0 := fun _ => Nat.zero_le _
        have := hsplit (C20.xor (List.take K.length d) K == K)
        simp only [Bool.false_eq_true, ↓reduceIte, Nat.add_zero]
        omega
    · -- the partial last gram
      have hdl : d.length < K.length := by omega
      have hdrop : d.drop K.length = [] := List.drop_eq_nil_of_le (by omega)
      have hmod : ¬ d.length % K.length = 0 := by
        rw [Nat.mod_eq_of_lt hdl]
        intro e; exact hd (List.length_eq_zero_iff.mp e)
      rw [hdrop] at ih ⊢
      have hg : grouper K.length [] = [] := by rw [grouper]; simp
      have hgx : grouper K.length (C20.xor [] K) = [] := by rw [xor_nil, hg]
      rw [hg, hgx]
      simp only [hmod, ↓reduceIte, List.count_nil]
      split <;> split <;> omega

/-! ### translating the file content -/

/-- the same record with both offsets moved by `n` -/
def Meta.shift (n : Nat) (m : Meta) : Meta :=
  { m with beaconConfigOffset := m.beaconConfigOffset + n, guardConfigOffset := m.guardConfigOffset + n }

theorem markerAt_shift (p data : Bytes) (sts : List Bytes) (off : Nat) :
    markerAt (p ++ data) sts 6 (p.length + off) ↔ markerAt data sts 6 off := by
  unfold markerAt
  rw [List.drop_length_add_append]

theorem metaAt_shift (p data k : Bytes) (gco bco : Nat) :
    metaAt (p ++ data) k (p.length + gco) (p.length + bco) = (metaAt data k gco bco).shift p.length := by
  unfold metaAt Meta.shift
  simp only [Nat.add_assoc, List.drop_length_add_append]
  congr 1 <;> omega

theorem probeAt_shift (p data : Bytes) (sts : List Bytes) (k : Bytes) (off : Nat)
    (hoff : BEACON_CONFIG_PATCH_SIZE ≤ off + 6) :
    probeAt (p ++ data) sts 6 k (p.length + off) = (probeAt data sts 6 k off).map (Meta.shift p.length) := by
  unfold probeAt
  have h2 : BEACON_CONFIG_PATCH_SIZE ≤ p.length + off + 6 := by omega
  by_cases hm : markerAt data sts 6 off
  · rw [if_pos ⟨(markerAt_shift p data sts off).mpr hm, h2⟩, if_pos ⟨hm, hoff⟩]
    simp only [Option.map_some, Option.some.injEq]
    have e1 : p.length + off + 6 - BEACON_CONFIG_PATCH_SIZE = p.length + (off + 6 - BEACON_CONFIG_PATCH_SIZE) := by omega
    have e2 : p.length + off + 6 = p.length + (off + 6) := by omega
    rw [e1, e2, metaAt_shift]
  · rw [if_neg (fun h => hm ((markerAt_shift p data sts off).mp h.1)), if_neg (fun h => hm h.1)]; rfl

theorem filterMap_congr' {α β} {f g : α → Option β} {l : List α} (h : ∀ a ∈ l, f a = g a) :
    l.filterMap f = l.filterMap g := by
  induction l with
  | nil => rfl
  | cons x xs ih =>
    simp only [List.filterMap_cons, h x (by simp)]
    rw [ih (fun a ha => h a (by simp [ha]))]

theorem probeAt_none_early (data : Bytes) (sts : List Bytes) (k : Bytes) (off : Nat)
    (h : off + 6 < BEACON_CONFIG_PATCH_SIZE) : probeAt data sts 6 k off = none := by
  unfold probeAt
  rw [if_neg]
  intro hc; omega

theorem probeAt_gco {data : Bytes} {sts : List Bytes} {k : Bytes} {off : Nat} {m : Meta}
    (h : probeAt data sts 6 k off = some m) : m.guardConfigOffset = off + 6 := by
  unfold probeAt at h
  split at h
  · injection h with h; subst h; rfl
  · cases h

end C17

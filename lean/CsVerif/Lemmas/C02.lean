import CsVerif.Model.C02
/-! Helper lemmas for C02.

Part 1 relates the file-object model (`iterLoop` over a `PyFile`) to a list-level function
`parseSpec`, on which the round-trip statements are then proved.
Part 2 contains the insertion-ordered dictionary lemmas used for the views. -/
namespace C02
open Gen.Beacon

/-! ## Part 1a: BytesIO positions -/

/-- `f` is a BytesIO over `d` positioned so that `r` is what remains to be read. -/
def At (f : PyFile) (d r : Bytes) : Prop :=
  f.kind = .bytesIO ∧ f.data = d ∧ ∃ t, d = t ++ r ∧ f.pos = t.length

theorem At.ofBytes (d : Bytes) : At (PyFile.ofBytes d) d d :=
  ⟨rfl, rfl, [], rfl, rfl⟩

theorem At.read {f : PyFile} {d r : Bytes} (h : At f d r) (n : Nat) :
    (f.read (n : Int)).1 = r.take n ∧ At (f.read (n : Int)).2 d (r.drop n) := by
  obtain ⟨hk, hd, t, ht, hp⟩ := h
  have h1 : (f.read (n : Int)).1 = r.take n := by
    rw [PyFile.read_nonneg, hd, ht, hp]; simp
  refine ⟨h1, hk, hd, t ++ r.take n, ?_, ?_⟩
  · rw [List.append_assoc, List.take_append_drop]; exact ht
  · rw [PyFile.read_pos, h1, hp]; simp

theorem At.rem_length {f : PyFile} {d r : Bytes} (h : At f d r) : f.data.length - f.pos = r.length := by
  obtain ⟨_, hd, t, ht, hp⟩ := h
  rw [hd, ht, hp]; simp

/-- `seek(-k, SEEK_CUR)` directly after a `read(k)` that delivered all `k` bytes returns to the old position. -/
theorem At.seek_back {f : PyFile} {d r : Bytes} (h : At f d r) (k : Nat) (hk : k ≤ r.length) :
    ∃ f', (f.read (k : Int)).2.seekCur (-(k : Int)) = .ok (f.pos, f') ∧ At f' d r := by
  obtain ⟨hkind, hd, t, ht, hp⟩ := h
  have h1 : (f.read (k : Int)).1 = r.take k := by
    rw [PyFile.read_nonneg, hd, ht, hp]; simp
  have hl : (f.read (k : Int)).1.length = k := by rw [h1]; simp; omega
  refine ⟨{ f with pos := f.pos }, ?_, hkind, hd, t, ht, hp⟩
  simp only [PyFile.seekCur, PyFile.seekRel, PyFile.read_pos, hl]
  have : ¬ ((((f.pos + k : Nat) : Int) + -(k : Int)) < 0) := by omega
  simp only [this, ↓reduceIte]
  have e : (((f.pos + k : Nat) : Int) + -(k : Int)).toNat = f.pos := by omega
  rw [e]
  rfl
theorem seekCur_bytesIO (f : PyFile) (off : Int) (hk : f.kind = .bytesIO) :
    f.seekCur off = .ok (((f.pos : Int) + off).toNat, { f with pos := ((f.pos : Int) + off).toNat }) := by
  unfold PyFile.seekCur PyFile.seekRel
  by_cases h : (f.pos : Int) + off < 0
  · have : ((f.pos : Int) + off).toNat = 0 := by omega
    simp [h, hk, this]
  · simp [h]


/-! ## Part 1b: one record -/

/-- list-level reading of one record from the head of `r` (cstruct `Setting(fobj)`) -/
def decodeOne (r : Bytes) : Option (Setting × Bytes) :=
  if r.length < 6 then none
  else if (r.drop 6).length < fromBE ((r.drop 4).take 2) then none
  else some ({ index := fromBE (r.take 2), type := fromBE ((r.drop 2).take 2),
               length := fromBE ((r.drop 4).take 2),
               value := (r.drop 6).take (fromBE ((r.drop 4).take 2)) },
             (r.drop 6).drop (fromBE ((r.drop 4).take 2)))
theorem readSetting_short (f : PyFile) (h : f.data.length - f.pos < 6) :
    readSetting f = .error .eofError := by
  unfold readSetting
  have : (f.read 6).1.length < 6 := by
    have : (f.read 6).1 = (f.data.drop f.pos).take 6 := PyFile.read_nonneg f 6
    rw [this]; simp; omega
  simp [this]

theorem readSetting_at {f : PyFile} {d r : Bytes} (h : At f d r) :
    match decodeOne r with
    | none => readSetting f = .error .eofError
    | some (s, r1) => ∃ f1, readSetting f = .ok (s, f1) ∧ At f1 d r1 := by
  obtain ⟨h6, a6⟩ : (f.read 6).1 = r.take 6 ∧ At (f.read 6).2 d (r.drop 6) := h.read 6
  unfold decodeOne
  by_cases hl : r.length < 6
  · simp only [hl, ↓reduceIte]
    exact readSetting_short f (by rw [h.rem_length]; exact hl)
  · simp only [hl, ↓reduceIte]
    have hlen : (f.read 6).1.length = 6 := by rw [h6]; simp; omega
    have e4 : ((f.read 6).1.drop 4).take 2 = (r.drop 4).take 2 := by
      rw [h6, List.drop_take]; simp [List.take_take]
    have e2 : ((f.read 6).1.drop 2).take 2 = (r.drop 2).take 2 := by
      rw [h6, List.drop_take]; simp [List.take_take]
    have e0 : (f.read 6).1.take 2 = r.take 2 := by
      rw [h6]; simp [List.take_take]
    obtain ⟨hv, av⟩ := a6.read (fromBE ((r.drop 4).take 2))
    by_cases hs : (r.drop 6).length < fromBE ((r.drop 4).take 2)
    · simp only [hs, ↓reduceIte]
      unfold readSetting
      simp only [hlen, e4]
      simp only [List.length_drop] at hs
      simp [hv, List.length_take]
      omega
    · simp only [hs, ↓reduceIte]
      refine ⟨((f.read 6).2.read (fromBE ((r.drop 4).take 2) : Nat)).2, ?_, av⟩
      unfold readSetting
      simp only [hlen, e4, e2, e0]
      simp only [List.length_drop] at hs
      simp [hv, List.length_take]
      omega
/-- after a short peek (fewer than 2 bytes left) the `seek(-2)` + struct read raises EOFError -/
theorem short_peek {f : PyFile} {d r : Bytes} (h : At f d r) (hs : r.length < 2) :
    ∃ p f2, (f.read 2).2.seekCur (-2) = .ok (p, f2) ∧ readSetting f2 = .error .eofError := by
  obtain ⟨hk, hd, t, ht, hp⟩ := h
  refine ⟨_, _, seekCur_bytesIO _ _ (by simpa using hk), ?_⟩
  apply readSetting_short
  have h1 : (f.read 2).1 = r.take 2 := by
    have : (f.read 2).1 = (f.data.drop f.pos).take 2 := PyFile.read_nonneg f 2
    rw [this, hd, ht, hp]; simp
  have hl : (f.read 2).1.length = r.length := by rw [h1]; simp; omega
  simp only [PyFile.read_data, PyFile.read_pos, hl, hd, ht, hp, List.length_append]
  omega

/-! ## Part 1c: the User-Agent loop and the fix-ups -/

theorem uaLoop_at : ∀ (fuel : Nat) (f : PyFile) (d r value : Bytes), At f d r → r.length < fuel →
    ∃ f', uaLoop fuel f value = .ok (value ++ r.takeWhile (· != 0), f') ∧ At f' d (r.dropWhile (· != 0)) := by
  intro fuel
  induction fuel with
  | zero => intro f d r value _ h; omega
  | succ n ih =>
    intro f d r value h hl
    obtain ⟨h1, a1⟩ : (f.read 1).1 = r.take 1 ∧ At (f.read 1).2 d (r.drop 1) := h.read 1
    unfold uaLoop
    cases r with
    | nil =>
      refine ⟨(f.read 1).2, ?_, by simpa using a1⟩
      simp [h1]
    | cons b tl =>
      simp only [List.take_succ_cons, List.take_zero] at h1
      by_cases hb : b = 0
      · subst hb
        obtain ⟨f', hs, af'⟩ := h.seek_back 1 (by simp)
        refine ⟨f', ?_, by simpa using af'⟩
        have hs' : (f.read 1).2.seekCur (-1) = .ok (f.pos, f') := hs
        simp [h1, hs']
      · simp only [List.drop_succ_cons, List.drop_zero] at a1
        obtain ⟨f', hu, af'⟩ := ih (f.read 1).2 d tl (value ++ [b]) a1 (by simp at hl; omega)
        refine ⟨f', ?_, ?_⟩
        · simp [h1, hb, hu]
        · simpa [hb] using af'
/-- list-level version of `fixups`: new setting and the bytes that remain -/
def fixupSpec (s : Setting) (r : Bytes) : Setting × Bytes :=
  if s.index = settingUserAgent then
    if s.length = 0x80 ∧ (rstripNul s.value).length ≥ 0x80 then
      ({ s with value := s.value ++ r.takeWhile (· != 0) }, r.dropWhile (· != 0))
    else (s, r)
  else if s.index = settingWatermarkHash ∧ s.type = typeShort then
    ({ s with index := deprecatedInjectOptions, deprecated := true }, r)
  else (s, r)

theorem fixupSpec_length_le (s : Setting) (r : Bytes) : (fixupSpec s r).2.length ≤ r.length := by
  unfold fixupSpec
  split
  · split
    · exact (List.dropWhile_sublist _).length_le
    · exact Nat.le_refl _
  · split <;> exact Nat.le_refl _

theorem fixups_at {f : PyFile} {d r : Bytes} (h : At f d r) (s : Setting) :
    ∃ f', fixups s f = .ok ((fixupSpec s r).1, f') ∧ At f' d (fixupSpec s r).2 := by
  unfold fixups fixupSpec
  by_cases h1 : s.index = settingUserAgent
  · by_cases h2 : s.length = 0x80
    · by_cases h3 : (rstripNul s.value).length ≥ 0x80
      · obtain ⟨f', hu, af'⟩ := uaLoop_at (f.data.length - f.pos + 1) f d r s.value h (by rw [h.rem_length]; omega)
        refine ⟨f', ?_, ?_⟩
        · simp [h1, h2, h3, hu]
        · simpa [h1, h2, h3] using af'
      · exact ⟨f, by simp [h1, h2, h3], by simpa [h1, h2, h3] using h⟩
    · exact ⟨f, by simp [h1, h2], by simpa [h1, h2] using h⟩
  · by_cases h4 : s.index = settingWatermarkHash
    · have h1' : ¬ settingWatermarkHash = settingUserAgent := h4 ▸ h1
      by_cases h5 : s.type = typeShort
      · exact ⟨f, by simp [h1', h4, h5], by simpa [h1', h4, h5] using h⟩
      · exact ⟨f, by simp [h1', h4, h5], by simpa [h1', h4, h5] using h⟩
    · exact ⟨f, by simp [h1, h4], by simpa [h1, h4] using h⟩

theorem decodeOne_length {r : Bytes} {s : Setting} {r1 : Bytes} (h : decodeOne r = some (s, r1)) :
    r1.length + 6 ≤ r.length := by
  unfold decodeOne at h
  split at h
  · cases h
  · split at h
    · cases h
    · injection h with h; injection h with _ h2
      subst h2; simp; omega

/-- list-level statement of the whole loop -/
def parseSpec (r : Bytes) : List Setting :=
  if r.take 2 = [0, 0] then []
  else
    match _h : decodeOne r with
    | none => []
    | some (s, r1) => (fixupSpec s r1).1 :: parseSpec (fixupSpec s r1).2
termination_by r.length
decreasing_by
  have := decodeOne_length _h
  have := fixupSpec_length_le s r1
  omega

theorem parseSpec_eq (r : Bytes) : parseSpec r =
    if r.take 2 = [0, 0] then []
    else match decodeOne r with
      | none => []
      | some (s, r1) => (fixupSpec s r1).1 :: parseSpec (fixupSpec s r1).2 := by
  rw [parseSpec]
  split
  · rfl
  · split <;> simp [*]

theorem iterLoop_at : ∀ (fuel : Nat) (f : PyFile) (d r : Bytes), At f d r → r.length < fuel →
    iterLoop fuel f = .ok (parseSpec r) := by
  intro fuel
  induction fuel with
  | zero => intro f d r _ h; omega
  | succ n ih =>
    intro f d r h hl
    obtain ⟨h2, a2⟩ : (f.read 2).1 = r.take 2 ∧ At (f.read 2).2 d (r.drop 2) := h.read 2
    unfold iterLoop
    rw [parseSpec_eq]
    simp only [h2, List.take_take, Nat.min_self]
    by_cases hz : r.take 2 = [0, 0]
    · simp [hz]
    · simp only [hz, ↓reduceIte]
      by_cases hshort : r.length < 2
      · -- short peek: the seek goes back before the peek, at most 2 bytes remain, the struct read fails
        have hdec : decodeOne r = none := by unfold decodeOne; simp; omega
        obtain ⟨p, f2, hsk, hrd⟩ := short_peek h hshort
        simp [hsk, hrd, hdec]
      · obtain ⟨f', hs, af'⟩ := h.seek_back 2 (by omega)
        have hs' : (f.read 2).2.seekCur (-2) = .ok (f.pos, f') := hs
        simp only [hs']
        have hr := readSetting_at af'
        cases hd : decodeOne r with
        | none => rw [hd] at hr; simp [hr]
        | some p =>
          obtain ⟨s, r1⟩ := p
          rw [hd] at hr
          obtain ⟨f1, hr1, af1⟩ := hr
          obtain ⟨f4, hf, af4⟩ := fixups_at af1 s
          have := decodeOne_length hd
          have := fixupSpec_length_le s r1
          have hi := ih f4 d (fixupSpec s r1).2 af4 (by omega)
          simp [hr1, hf, hi]
/-! ## Part 1d: the encoder against the list-level decoder -/

theorem fromBE_be16 (n : Nat) (h : n < 65536) : fromBE (be16 n) = n := by
  simp only [fromBE, be16, List.foldl_cons, List.foldl_nil, UInt8.toNat_ofNat']
  omega

theorem be16_length (n : Nat) : (be16 n).length = 2 := rfl

theorem be16_ne_zero (n : Nat) (h0 : 0 < n) (h : n < 65536) : be16 n ≠ [0, 0] := by
  intro e
  have := fromBE_be16 n h
  rw [e] at this
  simp [fromBE] at this
  omega

theorem serializeOne_eq (s : Setting) :
    serializeOne s = be16 s.index ++ (be16 s.type ++ (be16 s.length ++ s.value)) := by
  simp [serializeOne]

theorem decodeOne_serializeOne (s : Setting) (h : s.Encodable) (rest : Bytes) :
    decodeOne (serializeOne s ++ rest) = some ({ s with deprecated := false }, rest) := by
  obtain ⟨_, hi, ht, hl, hv⟩ := h
  have e : serializeOne s ++ rest =
      be16 s.index ++ (be16 s.type ++ (be16 s.length ++ (s.value ++ rest))) := by
    simp [serializeOne]
  have t2 : (serializeOne s ++ rest).take 2 = be16 s.index := by
    rw [e]; simp [be16]
  have d2 : ((serializeOne s ++ rest).drop 2).take 2 = be16 s.type := by
    rw [e]; simp [be16]
  have d4 : ((serializeOne s ++ rest).drop 4).take 2 = be16 s.length := by
    rw [e]; simp [be16]
  have d6 : (serializeOne s ++ rest).drop 6 = s.value ++ rest := by
    rw [e]; simp [be16]
  have len : ¬ (serializeOne s ++ rest).length < 6 := by
    rw [e]; simp [be16]
  unfold decodeOne
  simp only [len, ↓reduceIte, t2, d2, d4, d6, fromBE_be16 _ hi, fromBE_be16 _ ht, fromBE_be16 _ hl]
  have : ¬ (s.value ++ rest).length < s.length := by simp; omega
  simp only [this, ↓reduceIte]
  rw [← hv]
  simp
theorem take2_serializeOne (s : Setting) (rest : Bytes) :
    (serializeOne s ++ rest).take 2 = be16 s.index := by
  simp [serializeOne, be16]

/-- the decoder's fix-ups leave a well-formed record (read with the default identity) as it is -/
theorem fixupSpec_wellFormed (s : Setting) (h : s.WellFormed) (rest : Bytes) :
    fixupSpec { s with deprecated := false } rest = (s, rest) := by
  obtain ⟨_, hno, hflag⟩ := h
  unfold fixupSpec
  simp only
  by_cases h1 : s.index = settingUserAgent
  · have hne : ¬ (s.length = 0x80 ∧ (rstripNul s.value).length ≥ 0x80) := fun hh => hno ⟨h1, hh⟩
    have hd : s.deprecated = false := by
      have hc : decide (settingUserAgent = settingWatermarkHash) = false := by decide
      rw [hflag, h1, hc]; rfl
    simp only [h1, ↓reduceIte, hne]
    cases s; simp_all
  · simp only [h1, ↓reduceIte]
    by_cases h4 : s.index = settingWatermarkHash ∧ s.type = typeShort
    · have hd : s.deprecated = true := by rw [hflag]; simp [h4.1, h4.2]
      have hi : deprecatedInjectOptions = s.index := by rw [h4.1]; decide
      simp only [h4, and_self, ↓reduceIte]
      cases s; simp_all
    · have hd : s.deprecated = false := by
        rw [hflag]
        simp only [Bool.and_eq_false_imp, decide_eq_true_eq, decide_eq_false_iff_not]
        intro a b; exact h4 ⟨a, b⟩
      simp only [h4, ↓reduceIte]
      cases s; simp_all

theorem parseSpec_cons (s : Setting) (h : s.WellFormed) (rest : Bytes) :
    parseSpec (serializeOne s ++ rest) = s :: parseSpec rest := by
  obtain ⟨hp, hi, _⟩ := h.1
  rw [parseSpec_eq, take2_serializeOne]
  simp only [be16_ne_zero _ hp hi, ↓reduceIte, decodeOne_serializeOne s h.1 rest, fixupSpec_wellFormed s h rest]

theorem parseSpec_serialize_append (ss : List Setting) (h : WellFormedList ss) (tail : Bytes) :
    parseSpec (serialize ss ++ tail) = ss ++ parseSpec tail := by
  induction ss with
  | nil => simp [serialize]
  | cons s ss ih =>
    have hs : s.WellFormed := h s (by simp)
    have hss : WellFormedList ss := fun x hx => h x (by simp [hx])
    simp only [serialize, List.flatMap_cons, List.append_assoc] at ih ⊢
    rw [parseSpec_cons s hs, ih hss]
    rfl

theorem parseSpec_terminator (tail : Bytes) : parseSpec (0 :: 0 :: tail) = [] := by
  rw [parseSpec_eq]; simp

theorem parseSpec_short (r : Bytes) (h : r.length < 6) : parseSpec r = [] := by
  rw [parseSpec_eq]
  have : decodeOne r = none := by unfold decodeOne; simp [h]
  simp [this]

/-- a proper prefix of one record decodes to nothing -/
theorem parseSpec_partial (s : Setting) (h : s.Encodable) (p : Bytes)
    (hp : p <+: serializeOne s) (hne : p.length < (serializeOne s).length) : parseSpec p = [] := by
  by_cases h6 : p.length < 6
  · exact parseSpec_short p h6
  · obtain ⟨q, hq⟩ := hp
    obtain ⟨_, hi, ht, hl, hv⟩ := h
    have e : p ++ q = be16 s.index ++ (be16 s.type ++ (be16 s.length ++ s.value)) := by
      rw [hq]; simp [serializeOne]
    have hlen : (serializeOne s).length = 6 + s.value.length := by simp [serializeOne, be16]; omega
    have t6 : p.take 6 = be16 s.index ++ (be16 s.type ++ be16 s.length) := by
      have : (p ++ q).take 6 = p.take 6 := by rw [List.take_append_of_le_length (by omega)]
      rw [← this, e]; simp [be16]
    have d4 : (p.drop 4).take 2 = be16 s.length := by
      have : (p.drop 4).take 2 = (p.take 6).drop 4 := by rw [List.drop_take]
      rw [this, t6]; simp [be16]
    rw [parseSpec_eq]
    have : decodeOne p = none := by
      unfold decodeOne
      simp only [h6, ↓reduceIte, d4, fromBE_be16 _ hl, List.length_drop]
      have : p.length - 6 < s.length := by omega
      simp [this]
    simp [this]
theorem parseSpec_ua (s : Setting) (h : s.Encodable) (ho : s.uaOverlong) (tail : Bytes) :
    parseSpec (serializeOne s ++ tail) =
      { s with value := s.value ++ tail.takeWhile (· != 0), deprecated := false }
        :: parseSpec (tail.dropWhile (· != 0)) := by
  have ⟨hp, hi, _⟩ := h
  obtain ⟨h1, h2, h3⟩ := ho
  rw [parseSpec_eq, take2_serializeOne]
  simp only [be16_ne_zero _ hp hi, ↓reduceIte, decodeOne_serializeOne s h tail]
  have : fixupSpec { s with deprecated := false } tail =
      ({ s with value := s.value ++ tail.takeWhile (· != 0), deprecated := false }, tail.dropWhile (· != 0)) := by
    unfold fixupSpec
    simp [h1, h2, h3]
  rw [this]

theorem takeWhile_nonzero_append (ext rest : Bytes) (hext : ∀ b ∈ ext, b ≠ 0) :
    (ext ++ 0 :: rest).takeWhile (· != 0) = ext ∧ (ext ++ 0 :: rest).dropWhile (· != 0) = 0 :: rest := by
  induction ext with
  | nil => simp
  | cons b bs ih =>
    have hb : b ≠ 0 := hext b (by simp)
    have := ih (fun x hx => hext x (by simp [hx]))
    simp [hb, this]

theorem takeWhile_nonzero_all (ext : Bytes) (hext : ∀ b ∈ ext, b ≠ 0) :
    ext.takeWhile (· != 0) = ext ∧ ext.dropWhile (· != 0) = [] := by
  induction ext with
  | nil => simp
  | cons b bs ih =>
    have hb : b ≠ 0 := hext b (by simp)
    have := ih (fun x hx => hext x (by simp [hx]))
    simp [hb, this]
/-! ## Part 2: insertion-ordered dictionaries -/

section Dict
variable {K K' V : Type} [DecidableEq K] [DecidableEq K']

theorem dictSet_keys (acc : List (K × V)) (k : K) (v : V) :
    (dictSet acc k v).map Prod.fst = if k ∈ acc.map Prod.fst then acc.map Prod.fst else acc.map Prod.fst ++ [k] := by
  induction acc with
  | nil => simp [dictSet]
  | cons p rest ih =>
    obtain ⟨k', v'⟩ := p
    unfold dictSet
    by_cases h : k' = k
    · simp [h]
    · have h' : ¬ k = k' := fun e => h e.symm
      simp only [h, ↓reduceIte, List.map_cons, ih, List.mem_cons, h', false_or]
      split <;> simp

/-- `dictSet` commutes with a key renaming that is injective on the keys involved -/
theorem dictSet_mapKey (g : K → K') (acc : List (K × V)) (k : K) (v : V)
    (hinj : ∀ a ∈ acc.map Prod.fst, g a = g k → a = k) :
    dictSet (acc.map fun p => (g p.1, p.2)) (g k) v = (dictSet acc k v).map fun p => (g p.1, p.2) := by
  induction acc with
  | nil => simp [dictSet]
  | cons p rest ih =>
    obtain ⟨k', v'⟩ := p
    have ih' := ih (fun a ha => hinj a (by simp [ha]))
    by_cases h : k' = k
    · subst h; simp [dictSet]
    · have hg : ¬ g k' = g k := fun e => h (hinj k' (by simp) e)
      simp only [List.map_cons, dictSet, hg, ↓reduceIte, h, ih']

theorem buildDict_mapKey (g : K → K') (key : Setting → K) (val : Setting → Py V) :
    ∀ (ss : List Setting) (acc : List (K × V)),
      (∀ a ∈ acc.map Prod.fst ++ ss.map key, ∀ b ∈ acc.map Prod.fst ++ ss.map key, g a = g b → a = b) →
      buildDict (fun s => g (key s)) val ss (acc.map fun p => (g p.1, p.2)) =
        (buildDict key val ss acc).map (fun m => m.map fun p => (g p.1, p.2)) := by
  intro ss
  induction ss with
  | nil => intro acc _; simp [buildDict, Except.map]
  | cons s ss ih =>
    intro acc hinj
    unfold buildDict
    cases hv : val s with
    | error e => simp [Except.map]
    | ok v =>
      simp only
      rw [dictSet_mapKey g acc (key s) v (fun a ha => hinj a (by simp [ha]) (key s) (by simp))]
      apply ih
      intro a ha b hb
      have sub : ∀ x, x ∈ (dictSet acc (key s) v).map Prod.fst ++ ss.map key →
          x ∈ acc.map Prod.fst ++ (s :: ss).map key := by
        intro x hx
        rw [dictSet_keys] at hx
        split at hx <;> simp at hx ⊢ <;> grind
      exact hinj a (sub a ha) b (sub b hb)
/-- hide the values stored under keys that do not satisfy `P` -/
def maskVals (P : K → Bool) (m : List (K × V)) : List (K × Option V) :=
  m.map fun p => (p.1, if P p.1 then some p.2 else none)

theorem dictSet_mask (P : K → Bool) (a1 a2 : List (K × V)) (k : K) (v1 v2 : V)
    (ha : maskVals P a1 = maskVals P a2) (hv : P k = true → v1 = v2) :
    maskVals P (dictSet a1 k v1) = maskVals P (dictSet a2 k v2) := by
  induction a1 generalizing a2 with
  | nil =>
    cases a2 with
    | nil =>
      simp only [dictSet, maskVals, List.map_cons, List.map_nil]
      by_cases hp : P k = true
      · simp [hp, hv hp]
      · simp [hp]
    | cons q r => simp [maskVals] at ha
  | cons p rest ih =>
    cases a2 with
    | nil => simp [maskVals] at ha
    | cons q r =>
      obtain ⟨k1, w1⟩ := p
      obtain ⟨k2, w2⟩ := q
      simp only [maskVals, List.map_cons, List.cons.injEq, Prod.mk.injEq] at ha
      obtain ⟨⟨hk, hw⟩, hrest⟩ := ha
      subst hk
      by_cases h : k1 = k
      · subst h
        simp only [dictSet, ↓reduceIte, maskVals, List.map_cons, List.cons.injEq, Prod.mk.injEq, true_and]
        refine ⟨?_, hrest⟩
        by_cases hp : P k1 = true
        · simp [hp, hv hp]
        · simp [hp]
      · simp only [dictSet, h, ↓reduceIte, maskVals, List.map_cons, List.cons.injEq, Prod.mk.injEq, true_and]
        exact ⟨hw, ih r hrest⟩

theorem buildDict_mask (P : K → Bool) (key : Setting → K) (val1 val2 : Setting → Py V) :
    ∀ (ss : List Setting) (a1 a2 m1 m2 : List (K × V)),
      (∀ s ∈ ss, P (key s) = true → val1 s = val2 s) →
      maskVals P a1 = maskVals P a2 →
      buildDict key val1 ss a1 = .ok m1 → buildDict key val2 ss a2 = .ok m2 →
      maskVals P m1 = maskVals P m2 := by
  intro ss
  induction ss with
  | nil =>
    intro a1 a2 m1 m2 _ ha h1 h2
    simp only [buildDict, Except.ok.injEq] at h1 h2
    subst h1; subst h2; exact ha
  | cons s ss ih =>
    intro a1 a2 m1 m2 hval ha h1 h2
    unfold buildDict at h1 h2
    cases hv1 : val1 s with
    | error e => simp [hv1] at h1
    | ok v1 =>
      cases hv2 : val2 s with
      | error e => simp [hv2] at h2
      | ok v2 =>
        simp only [hv1] at h1
        simp only [hv2] at h2
        refine ih _ _ m1 m2 (fun x hx => hval x (by simp [hx])) ?_ h1 h2
        apply dictSet_mask P a1 a2 (key s) v1 v2 ha
        intro hp
        have := hval s (by simp) hp
        rw [hv1, hv2] at this
        injection this

/-- whether (and with which exception) the loop raises does not depend on the key function -/
theorem buildDict_error_indep (key : Setting → K) (key' : Setting → K') (val : Setting → Py V) (e : PyExc) :
    ∀ (ss : List Setting) (a : List (K × V)) (a' : List (K' × V)),
      buildDict key val ss a = .error e ↔ buildDict key' val ss a' = .error e := by
  intro ss
  induction ss with
  | nil => intro a a'; simp [buildDict]
  | cons s ss ih =>
    intro a a'
    unfold buildDict
    cases hv : val s with
    | error x => simp
    | ok v => exact ih _ _

/-- when no value raises, the loop is a plain fold -/
theorem buildDict_ok (key : Setting → K) (val : Setting → Py V) (w : Setting → V) :
    ∀ (ss : List Setting) (acc : List (K × V)), (∀ s ∈ ss, val s = .ok (w s)) →
      buildDict key val ss acc = .ok (ss.foldl (fun a s => dictSet a (key s) (w s)) acc) := by
  intro ss
  induction ss with
  | nil => intro acc _; rfl
  | cons s ss ih =>
    intro acc h
    unfold buildDict
    rw [h s (by simp)]
    exact ih _ (fun x hx => h x (by simp [hx]))

/-- a new key goes to the end, an existing key keeps its place -/
def pushKey (acc : List K) (k : K) : List K := if k ∈ acc then acc else acc ++ [k]

theorem foldl_dictSet_keys (key : Setting → K) (w : Setting → V) :
    ∀ (ss : List Setting) (acc : List (K × V)),
      (ss.foldl (fun a s => dictSet a (key s) (w s)) acc).map Prod.fst =
        (ss.map key).foldl pushKey (acc.map Prod.fst) := by
  intro ss
  induction ss with
  | nil => intro acc; rfl
  | cons s ss ih =>
    intro acc
    simp only [List.foldl_cons, List.map_cons]
    rw [ih, dictSet_keys]
    rfl

theorem pushKey_nodup (acc : List K) (k : K) (h : acc.Nodup) : (pushKey acc k).Nodup := by
  unfold pushKey
  split
  · exact h
  · rename_i hk
    rw [List.nodup_append]
    refine ⟨h, by simp, ?_⟩
    intro a ha b hb
    simp at hb; subst hb
    intro e; subst e; exact hk ha

theorem foldl_pushKey_nodup (ks acc : List K) (h : acc.Nodup) : (ks.foldl pushKey acc).Nodup := by
  induction ks generalizing acc with
  | nil => exact h
  | cons k ks ih => exact ih _ (pushKey_nodup acc k h)

theorem mem_foldl_pushKey (ks acc : List K) (x : K) : x ∈ ks.foldl pushKey acc ↔ x ∈ acc ∨ x ∈ ks := by
  induction ks generalizing acc with
  | nil => simp
  | cons k ks ih =>
    simp only [List.foldl_cons, ih, List.mem_cons]
    unfold pushKey
    split <;> grind

/-- acc is a prefix of the final key list: earlier keys keep their positions -/
theorem foldl_pushKey_prefix (ks acc : List K) : acc <+: ks.foldl pushKey acc := by
  induction ks generalizing acc with
  | nil => exact List.prefix_refl _
  | cons k ks ih =>
    refine List.IsPrefix.trans ?_ (ih (pushKey acc k))
    unfold pushKey; split
    · exact List.prefix_refl _
    · exact List.prefix_append _ _

theorem lookup_dictSet (acc : List (K × V)) (k : K) (v : V) (x : K) :
    (dictSet acc k v).lookup x = if x = k then some v else acc.lookup x := by
  induction acc with
  | nil =>
    by_cases h : x = k
    · subst h; simp [dictSet]
    · have hb : (x == k) = false := by simpa using h
      simp [dictSet, List.lookup_cons, h, hb]
  | cons p rest ih =>
    obtain ⟨k', v'⟩ := p
    unfold dictSet
    by_cases h : k' = k
    · subst h
      by_cases hx : x = k'
      · subst hx; simp
      · have hb : (x == k') = false := by simpa using hx
        simp [List.lookup_cons, hx, hb]
    · by_cases hx : x = k'
      · subst hx
        simp [h]
      · have hb : (x == k') = false := by simpa using hx
        simp [h, List.lookup_cons, hb, ih]

/-- the value stored under a key is that of the *last* setting with this key -/
theorem foldl_dictSet_lookup (key : Setting → K) (w : Setting → V) (x : K) :
    ∀ (ss : List Setting) (acc : List (K × V)),
      (ss.foldl (fun a s => dictSet a (key s) (w s)) acc).lookup x =
        match ss.reverse.find? (fun s => key s = x) with
        | some s => some (w s)
        | none => acc.lookup x := by
  intro ss
  induction ss with
  | nil => intro acc; rfl
  | cons s ss ih =>
    intro acc
    simp only [List.foldl_cons, ih, List.reverse_cons, List.find?_append]
    cases hf : ss.reverse.find? (fun s => key s = x) with
    | some t => simp
    | none =>
      simp only [Option.none_or, List.find?_cons, List.find?_nil, lookup_dictSet]
      by_cases hk : key s = x
      · simp [hk]
      · have : ¬ x = key s := fun e => hk e.symm
        simp [hk, this]
end Dict

/-! ## Part 3: name keys -/

def undecimal (b : Bytes) : Nat := b.foldl (fun a x => a * 10 + (x.toNat - 48)) 0

theorem undecimal_decimal (n : Nat) : undecimal (decimal n) = n := by
  induction n using Nat.strongRecOn with
  | _ n ih =>
    rw [decimal]
    split
    · rename_i h
      simp only [undecimal, List.foldl_cons, List.foldl_nil, UInt8.toNat_ofNat']
      omega
    · rename_i h
      have := ih (n / 10) (by omega)
      simp only [undecimal, List.foldl_append, List.foldl_cons, List.foldl_nil, UInt8.toNat_ofNat'] at this ⊢
      rw [this]
      omega

theorem decimal_injective {a b : Nat} (h : decimal a = decimal b) : a = b := by
  rw [← undecimal_decimal a, ← undecimal_decimal b, h]

theorem nodup_of_map {α β : Type} (f : α → β) : ∀ l : List α, (l.map f).Nodup → l.Nodup := by
  intro l
  induction l with
  | nil => intro _; exact List.nodup_nil
  | cons a l ih =>
    intro h
    rw [List.map_cons, List.nodup_cons] at h
    rw [List.nodup_cons]
    exact ⟨fun hm => h.1 (List.mem_map_of_mem hm), ih h.2⟩

def allNames : List ((Bool × Nat) × Bytes) :=
  settingNameBytes.map (fun p => ((false, p.1), p.2)) ++ deprecatedNameBytes.map (fun p => ((true, p.1), p.2))

theorem allNames_codes_nodup : ((allNames.map Prod.snd).map fromBE).Nodup := by decide +kernel
theorem allNames_nodup : (allNames.map Prod.snd).Nodup := nodup_of_map _ _ allNames_codes_nodup
theorem allNames_head : ∀ p ∈ allNames, p.2.head? = some 83 := by decide +kernel
theorem prefix_heads : unknownPrefixBytes.head? = some 66 ∧ deprecatedUnknownPrefixBytes.head? = some 68 := by decide

/-- in a table whose second components are pairwise distinct, the second component determines the entry -/
theorem fst_eq_of_snd_nodup {α β : Type} : ∀ (T : List (α × β)), (T.map Prod.snd).Nodup →
    ∀ a b n, (a, n) ∈ T → (b, n) ∈ T → a = b := by
  intro T
  induction T with
  | nil => intro _ a b n h; simp at h
  | cons p T ih =>
    intro hnd a b n ha hb
    rw [List.map_cons, List.nodup_cons] at hnd
    simp only [List.mem_cons] at ha hb
    rcases ha with ha | ha <;> rcases hb with hb | hb
    · have := ha.trans hb.symm
      injection this
    · exfalso; apply hnd.1; rw [← ha]
      exact List.mem_map.mpr ⟨(b, n), hb, rfl⟩
    · exfalso; apply hnd.1; rw [← hb]
      exact List.mem_map.mpr ⟨(a, n), ha, rfl⟩
    · exact ih hnd.2 a b n ha hb

theorem lookup_mem {β : Type} : ∀ (T : List (Nat × β)) (v : Nat) (n : β), T.lookup v = some n → (v, n) ∈ T := by
  intro T
  induction T with
  | nil => intro v n h; simp at h
  | cons p T ih =>
    intro v n h
    obtain ⟨k, w⟩ := p
    rw [List.lookup_cons] at h
    by_cases hk : v = k
    · subst hk; simp at h; subst h; simp
    · have hb : (v == k) = false := by simpa using hk
      simp only [hb] at h
      exact List.mem_cons_of_mem _ (ih v n h)

theorem enumName_mem {d : Bool} {v : Nat} {n : Bytes} (h : enumName d v = some n) : ((d, v), n) ∈ allNames := by
  unfold enumName at h
  unfold allNames
  cases d with
  | true =>
    simp only [↓reduceIte] at h
    have := lookup_mem _ _ _ h
    exact List.mem_append_right _ (List.mem_map.mpr ⟨(v, n), this, rfl⟩)
  | false =>
    simp only [Bool.false_eq_true, ↓reduceIte] at h
    have := lookup_mem _ _ _ h
    exact List.mem_append_left _ (List.mem_map.mpr ⟨(v, n), this, rfl⟩)

/-- `setting.index.name or str(...)` is injective in (enum class, value): two settings get the same name key
iff they have the same enum identity. -/
theorem nameKey_injective {d1 d2 : Bool} {v1 v2 : Nat} (h : nameKey d1 v1 = nameKey d2 v2) :
    d1 = d2 ∧ v1 = v2 := by
  unfold nameKey at h
  cases h1 : enumName d1 v1 with
  | some n1 =>
    cases h2 : enumName d2 v2 with
    | some n2 =>
      simp only [h1, h2] at h
      subst h
      have := fst_eq_of_snd_nodup allNames allNames_nodup _ _ _ (enumName_mem h1) (enumName_mem h2)
      simpa using this
    | none =>
      simp only [h1, h2] at h
      have hh := allNames_head _ (enumName_mem h1)
      simp only at hh
      rw [h] at hh
      cases d2 <;> simp [unknownPrefixBytes, deprecatedUnknownPrefixBytes] at hh
  | none =>
    cases h2 : enumName d2 v2 with
    | some n2 =>
      simp only [h1, h2] at h
      have hh := allNames_head _ (enumName_mem h2)
      simp only at hh
      rw [← h] at hh
      cases d1 <;> simp [unknownPrefixBytes, deprecatedUnknownPrefixBytes] at hh
    | none =>
      simp only [h1, h2] at h
      cases d1 <;> cases d2
      · simp only [Bool.false_eq_true, ↓reduceIte, List.append_cancel_left_eq] at h
        exact ⟨rfl, decimal_injective h⟩
      · exfalso
        have := congrArg List.head? h
        simp [unknownPrefixBytes, deprecatedUnknownPrefixBytes] at this
      · exfalso
        have := congrArg List.head? h
        simp [unknownPrefixBytes, deprecatedUnknownPrefixBytes] at this
      · simp only [↓reduceIte, List.append_cancel_left_eq] at h
        exact ⟨rfl, decimal_injective h⟩
/-! ## Part 4: everything the decoder yields -/

theorem iterSettingsE_parseSpec (d : Bytes) : iterSettingsE d = .ok (parseSpec d) :=
  iterLoop_at (d.length + 1) (PyFile.ofBytes d) d d (At.ofBytes d) (Nat.lt_succ_self _)

theorem iterSettings_parseSpec (d : Bytes) : iterSettings d = parseSpec d := by
  unfold iterSettings; rw [iterSettingsE_parseSpec]

theorem parseSpec_forall (P : Setting → Prop)
    (hP : ∀ r s r1, r.take 2 ≠ [0, 0] → decodeOne r = some (s, r1) → P (fixupSpec s r1).1) :
    ∀ (n : Nat) (r : Bytes), r.length ≤ n → ∀ x ∈ parseSpec r, P x := by
  intro n
  induction n with
  | zero =>
    intro r hr x hx
    rw [parseSpec_short r (by omega)] at hx; simp at hx
  | succ n ih =>
    intro r hr x hx
    rw [parseSpec_eq] at hx
    split at hx
    · simp at hx
    · rename_i hz
      cases hd : decodeOne r with
      | none => simp [hd] at hx
      | some p =>
        obtain ⟨s, r1⟩ := p
        simp only [hd, List.mem_cons] at hx
        rcases hx with hx | hx
        · subst hx; exact hP r s r1 hz hd
        · have := decodeOne_length hd
          have := fixupSpec_length_le s r1
          exact ih _ (by omega) x hx

theorem be16_fromBE (a b : UInt8) : be16 (fromBE [a, b]) = [a, b] := by
  have ha := a.toNat_lt
  have hb := b.toNat_lt
  simp only [fromBE, be16, List.foldl_cons, List.foldl_nil, Nat.zero_mul, Nat.zero_add]
  have e1 : (a.toNat * 256 + b.toNat) / 256 = a.toNat := by omega
  have e2 : (a.toNat * 256 + b.toNat) % 256 = b.toNat := by omega
  rw [e1, e2]
  simp

theorem fromBE_pair_lt (a b : UInt8) : fromBE [a, b] < 65536 := by
  have ha := a.toNat_lt
  have hb := b.toNat_lt
  simp only [fromBE, List.foldl_cons, List.foldl_nil]
  omega

/-- a successfully decoded record is literally the head of the data -/
theorem decodeOne_spec {r : Bytes} {s : Setting} {r1 : Bytes} (h : decodeOne r = some (s, r1)) :
    r = serializeOne s ++ r1 ∧ s.index < 65536 ∧ s.type < 65536 ∧ s.length < 65536 ∧
      s.value.length = s.length ∧ s.deprecated = false ∧ (r.take 2 ≠ [0, 0] → 0 < s.index) := by
  rcases r with _ | ⟨a, _ | ⟨b, _ | ⟨c, _ | ⟨d, _ | ⟨e, _ | ⟨f, tl⟩⟩⟩⟩⟩⟩ <;> try (simp [decodeOne] at h)
  obtain ⟨hlen, hs, hr1⟩ := h
  subst hs; subst hr1
  refine ⟨?_, fromBE_pair_lt a b, fromBE_pair_lt c d, fromBE_pair_lt e f, ?_, rfl, ?_⟩
  · simp only [serializeOne, be16_fromBE, List.cons_append, List.nil_append,
      List.take_append_drop]
  · simp; omega
  · intro hz
    simp only [List.take_succ_cons, List.take_zero] at hz
    have ha := a.toNat_lt
    have hb := b.toNat_lt
    have hv : fromBE [a, b] = a.toNat * 256 + b.toNat := by simp [fromBE]
    show 0 < fromBE [a, b]
    rw [hv]
    rcases Nat.eq_zero_or_pos (a.toNat * 256 + b.toNat) with h0 | h0
    · exfalso; apply hz
      have h1 : a.toNat = 0 := by omega
      have h2 : b.toNat = 0 := by omega
      have ea : a = 0 := UInt8.toNat_inj.mp (by simpa using h1)
      have eb : b = 0 := UInt8.toNat_inj.mp (by simpa using h2)
      rw [ea, eb]
    · exact h0
/-- generated obligation: the deprecated identity keeps the numeric value, and 9 ≠ 36 -/
theorem enum_consts : deprecatedInjectOptions = settingWatermarkHash ∧ settingUserAgent ≠ settingWatermarkHash := by
  decide

/-- the fix-ups never change what the record serializes to (the continued User-Agent bytes move from the
remaining data into the value, the length field stays) -/
theorem fixupSpec_serialize (s : Setting) (r1 : Bytes) :
    serializeOne (fixupSpec s r1).1 ++ (fixupSpec s r1).2 = serializeOne s ++ r1 := by
  unfold fixupSpec
  split
  · split
    · simp [serializeOne, List.takeWhile_append_dropWhile]
    · rfl
  · split
    · simp [serializeOne, enum_consts.1]
      rename_i h; rw [h.1]
    · rfl

/-- what is yielded for a record: fields in range, value at least `length` bytes (longer only for a continued
User-Agent), enum identity determined by index and type -/
def Yielded (x : Setting) : Prop :=
  0 < x.index ∧ x.index < 65536 ∧ x.type < 65536 ∧ x.length < 65536 ∧ x.length ≤ x.value.length ∧
  (x.value.length ≠ x.length → x.index = settingUserAgent ∧ x.length = 0x80) ∧
  x.deprecated = (decide (x.index = settingWatermarkHash) && decide (x.type = typeShort))

theorem fixupSpec_cases (s : Setting) (r1 : Bytes) :
    (s.index = settingUserAgent ∧ s.length = 0x80 ∧
        (fixupSpec s r1).1 = { s with value := s.value ++ r1.takeWhile (· != 0) }) ∨
    (s.index = settingWatermarkHash ∧ s.type = typeShort ∧
        (fixupSpec s r1).1 = { s with index := deprecatedInjectOptions, deprecated := true }) ∨
    (¬ (s.index = settingWatermarkHash ∧ s.type = typeShort) ∧ (fixupSpec s r1).1 = s) := by
  unfold fixupSpec
  split
  · rename_i h1
    split
    · rename_i h2; exact Or.inl ⟨h1, h2.1, rfl⟩
    · refine Or.inr (Or.inr ⟨?_, rfl⟩)
      intro hh; exact enum_consts.2 (h1.symm.trans hh.1)
  · split
    · rename_i h4; exact Or.inr (Or.inl ⟨h4.1, h4.2, rfl⟩)
    · rename_i h4; exact Or.inr (Or.inr ⟨h4, rfl⟩)

theorem fixupSpec_yielded {r : Bytes} {s : Setting} {r1 : Bytes} (hz : r.take 2 ≠ [0, 0])
    (h : decodeOne r = some (s, r1)) : Yielded (fixupSpec s r1).1 := by
  obtain ⟨_, hi, ht, hl, hv, hd, hp⟩ := decodeOne_spec h
  have hp := hp hz
  unfold Yielded
  rcases fixupSpec_cases s r1 with ⟨h1, h2, he⟩ | ⟨h4, h5, he⟩ | ⟨h4, he⟩
  · rw [he]
    have hc : decide (s.index = settingWatermarkHash) = false := by
      rw [h1]; decide
    simp only [List.length_append, hd, hc, Bool.false_and]
    exact ⟨hp, hi, ht, hl, by omega, fun _ => ⟨h1, h2⟩, trivial⟩
  · rw [he]
    simp only
    refine ⟨by decide, by decide, ht, hl, by omega, fun hne => absurd hv hne, ?_⟩
    rw [h5]; simp [enum_consts.1]
  · rw [he]
    refine ⟨hp, hi, ht, hl, by omega, fun hne => absurd hv hne, ?_⟩
    rw [hd]
    symm
    simp only [Bool.and_eq_false_imp, decide_eq_true_eq, decide_eq_false_iff_not]
    intro a b; exact h4 ⟨a, b⟩

theorem parseSpec_yielded (r : Bytes) : ∀ x ∈ parseSpec r, Yielded x :=
  parseSpec_forall Yielded (fun _ _ _ hz h => fixupSpec_yielded hz h) r.length r (Nat.le_refl _)

/-- soundness: re-serializing what was decoded gives back a prefix of the data, and decoding stopped at a
terminator or where no complete record follows -/
theorem parseSpec_sound : ∀ (n : Nat) (r : Bytes), r.length ≤ n →
    ∃ rest, r = serialize (parseSpec r) ++ rest ∧ (rest.take 2 = [0, 0] ∨ decodeOne rest = none) := by
  intro n
  induction n with
  | zero =>
    intro r hr
    refine ⟨r, ?_, Or.inr ?_⟩
    · rw [parseSpec_short r (by omega)]; rfl
    · unfold decodeOne; simp; omega
  | succ n ih =>
    intro r hr
    rw [parseSpec_eq]
    split
    · rename_i hz; exact ⟨r, rfl, Or.inl hz⟩
    · cases hd : decodeOne r with
      | none => exact ⟨r, rfl, Or.inr hd⟩
      | some p =>
        obtain ⟨s, r1⟩ := p
        have hl := decodeOne_length hd
        have hf := fixupSpec_length_le s r1
        obtain ⟨rest, hr', hstop⟩ := ih (fixupSpec s r1).2 (by omega)
        refine ⟨rest, ?_, hstop⟩
        simp only [serialize, List.flatMap_cons, List.append_assoc]
        simp only [serialize] at hr'
        rw [← hr', fixupSpec_serialize]
        exact (decodeOne_spec hd).1
/-! ## Part 5: the views -/

/-- name key that corresponds to an enum key -/
def Key.toName : Key → Key
  | .enum d v => .name (nameKey d v)
  | k => k

/-- const key that corresponds to an enum key -/
def Key.toConst : Key → Key
  | .enum _ v => .const v
  | k => k

def rekey (g : Key → Key) (m : List (Key × Val)) : List (Key × Val) := m.map fun p => (g p.1, p.2)

/-- no index occurs both with the `BeaconSetting` and with the `DeprecatedBeaconSetting` identity
(for decoder output: index 36 does not occur both as TYPE_SHORT and as another type) -/
def NoMixedIdentity (ss : List Setting) : Prop :=
  ∀ s ∈ ss, ∀ t ∈ ss, s.index = t.index → s.deprecated = t.deprecated

instance (ss : List Setting) : Decidable (NoMixedIdentity ss) := by unfold NoMixedIdentity; infer_instance

/-- keys whose setting is stored without going through a pretty function -/
def noPretty (prettyF : Nat → Option (Val → Py Val)) : Key → Bool
  | .enum d v => d || (prettyF v).isNone
  | .const v => (prettyF v).isNone
  | .name _ => false

theorem keyOf_name (s : Setting) : keyOf .name s = Key.toName (keyOf .enum s) := rfl
theorem keyOf_const (s : Setting) : keyOf .const s = Key.toConst (keyOf .enum s) := rfl

theorem settingsMapG_name (prettyF : Nat → Option (Val → Py Val)) (ss : List Setting) (p q : Bool) :
    settingsMapG prettyF ss .name p q = (settingsMapG prettyF ss .enum p q).map (rekey Key.toName) := by
  unfold settingsMapG
  have h := buildDict_mapKey Key.toName (keyOf .enum) (valueOf prettyF p q) ss [] (by
    intro a ha b hb hab
    simp only [List.map_nil, List.nil_append, List.mem_map] at ha hb
    obtain ⟨s, _, rfl⟩ := ha
    obtain ⟨t, _, rfl⟩ := hb
    simp only [keyOf, Key.toName, Key.name.injEq] at hab
    obtain ⟨h1, h2⟩ := nameKey_injective hab
    simp [keyOf, h1, h2])
  exact h

theorem settingsMapG_const (prettyF : Nat → Option (Val → Py Val)) (ss : List Setting) (p q : Bool)
    (hmix : NoMixedIdentity ss) :
    settingsMapG prettyF ss .const p q = (settingsMapG prettyF ss .enum p q).map (rekey Key.toConst) := by
  unfold settingsMapG
  have h := buildDict_mapKey Key.toConst (keyOf .enum) (valueOf prettyF p q) ss [] (by
    intro a ha b hb hab
    simp only [List.map_nil, List.nil_append, List.mem_map] at ha hb
    obtain ⟨s, hs, rfl⟩ := ha
    obtain ⟨t, ht, rfl⟩ := hb
    simp only [keyOf, Key.toConst, Key.const.injEq] at hab
    simp [keyOf, hab, hmix s hs t ht hab])
  exact h

theorem convert_pretty (q : Bool) (s : Setting) : convert true q s = convert false true s := by
  simp [convert]

theorem valueOf_raw (prettyF : Nat → Option (Val → Py Val)) (q : Bool) (s : Setting) :
    valueOf prettyF false q s = .ok (convert false q s) := by
  simp [valueOf]

theorem settingsMapG_raw (prettyF : Nat → Option (Val → Py Val)) (ss : List Setting) (it : IndexType) (q : Bool) :
    settingsMapG prettyF ss it false q =
      .ok (ss.foldl (fun a s => dictSet a (keyOf it s) (convert false q s)) []) :=
  buildDict_ok _ _ _ ss [] (fun s _ => valueOf_raw prettyF q s)

theorem settingsMapG_pretty_parse (prettyF : Nat → Option (Val → Py Val)) (ss : List Setting) (it : IndexType)
    (q : Bool) : settingsMapG prettyF ss it true q = settingsMapG prettyF ss it true true := by
  unfold settingsMapG
  have : valueOf prettyF true q = valueOf prettyF true true := by
    funext s; simp [valueOf, convert]
  rw [this]

theorem noPretty_value (prettyF : Nat → Option (Val → Py Val)) (it : IndexType) (q : Bool) (s : Setting)
    (h : noPretty prettyF (keyOf it s) = true) :
    valueOf prettyF true q s = valueOf prettyF false true s := by
  have hl : prettyLookup prettyF s = none := by
    unfold prettyLookup
    cases it <;> simp only [keyOf, noPretty] at h
    · cases h
    · split
      · rfl
      · simpa using h
    · cases hd : s.deprecated with
      | true => simp
      | false => simpa [hd] using h
  simp [valueOf, hl, convert]

theorem settingsMapG_mask (prettyF : Nat → Option (Val → Py Val)) (ss : List Setting) (it : IndexType)
    (q : Bool) (mp : List (Key × Val)) (h : settingsMapG prettyF ss it true q = .ok mp) :
    ∃ mr, settingsMapG prettyF ss it false true = .ok mr ∧
      maskVals (noPretty prettyF) mp = maskVals (noPretty prettyF) mr := by
  refine ⟨_, settingsMapG_raw prettyF ss it true, ?_⟩
  exact buildDict_mask (noPretty prettyF) (keyOf it) (valueOf prettyF true q) (valueOf prettyF false true)
    ss [] [] mp _ (fun s _ hp => noPretty_value prettyF it q s hp) rfl h (settingsMapG_raw prettyF ss it true)
/-! ## Part 6: integers -/

theorem foldl_be_lt (l : Bytes) (a : Nat) :
    l.foldl (fun a b => a * 256 + b.toNat) a < (a + 1) * 256 ^ l.length := by
  induction l generalizing a with
  | nil => simp
  | cons b bs ih =>
    have hb := b.toNat_lt
    have := ih (a * 256 + b.toNat)
    simp only [List.foldl_cons, List.length_cons, Nat.pow_succ]
    calc _ < (a * 256 + b.toNat + 1) * 256 ^ bs.length := this
      _ ≤ ((a + 1) * 256) * 256 ^ bs.length := Nat.mul_le_mul_right _ (by omega)
      _ = (a + 1) * (256 ^ bs.length * 256) := by rw [Nat.mul_assoc, Nat.mul_comm 256]

theorem fromBE_lt (l : Bytes) : fromBE l < 256 ^ l.length := by
  have := foldl_be_lt l 0
  simpa [fromBE] using this

theorem u16be_lt (v : Bytes) : u16be v < 65536 := by
  have h := fromBE_lt (v.take 2)
  have : (v.take 2).length ≤ 2 := by simp; omega
  have : 256 ^ (v.take 2).length ≤ 256 ^ 2 := Nat.pow_le_pow_right (by omega) this
  unfold u16be; omega

theorem u32be_lt (v : Bytes) : u32be v < 4294967296 := by
  have h := fromBE_lt (v.take 4)
  have : (v.take 4).length ≤ 4 := by simp; omega
  have : 256 ^ (v.take 4).length ≤ 256 ^ 4 := Nat.pow_le_pow_right (by omega) this
  unfold u32be; omega

theorem foldl_max_ge (xs : List Nat) (a : Nat) : a ≤ xs.foldl max a ∧ ∀ x ∈ xs, x ≤ xs.foldl max a := by
  induction xs generalizing a with
  | nil => simp
  | cons y ys ih =>
    obtain ⟨h1, h2⟩ := ih (max a y)
    simp only [List.foldl_cons, List.mem_cons]
    refine ⟨by omega, ?_⟩
    intro x hx
    rcases hx with rfl | hx
    · omega
    · exact h2 x hx

theorem foldl_max_mem (xs : List Nat) (a : Nat) : xs.foldl max a = a ∨ xs.foldl max a ∈ xs := by
  induction xs generalizing a with
  | nil => simp
  | cons y ys ih =>
    simp only [List.foldl_cons, List.mem_cons]
    rcases ih (max a y) with h | h
    · rw [h]
      rcases Nat.le_total a y with hay | hay
      · right; left; omega
      · left; omega
    · right; right; exact h
/-- ASCII text as bytes (for readable statements about names) -/
def ascii (s : String) : Bytes := s.toList.map fun c => UInt8.ofNat c.toNat

/-! ## Part 7: access histories -/

/-- every filled cache slot holds what a fresh computation of that view gives -/
def Cache.Valid (content : Nat → Val → Py Val) (ss : List Setting) (c : Cache) : Prop :=
  (∀ m, c.rawSettings = some m → settingsMap content ss .name false true = .ok m) ∧
  (∀ m, c.rawSettingsByIndex = some m → settingsMap content ss .const false true = .ok m) ∧
  (∀ m, c.settings = some m → settingsMap content ss .name true true = .ok m) ∧
  (∀ m, c.settingsByIndex = some m → settingsMap content ss .const true true = .ok m)

theorem Cache.valid_empty (content : Nat → Val → Py Val) (ss : List Setting) : Cache.Valid content ss {} :=
  ⟨fun _ h => (by cases h), fun _ h => (by cases h), fun _ h => (by cases h), fun _ h => (by cases h)⟩

theorem cachedView_spec (slot : Option (List (Key × Val))) (compute : Py (List (Key × Val)))
    (h : ∀ m, slot = some m → compute = .ok m) :
    (cachedView slot compute).1 = compute ∧ ∀ m, (cachedView slot compute).2 = some m → compute = .ok m := by
  unfold cachedView
  cases slot with
  | some m => simp [h m rfl]
  | none =>
    cases compute with
    | ok m => simp
    | error e => simp

theorem access_valid (content : Nat → Val → Py Val) (ss : List Setting) (c : Cache)
    (hc : c.Valid content ss) (op : Op) :
    (access content ss c op).1 = answer content ss op ∧ (access content ss c op).2.Valid content ss := by
  obtain ⟨h1, h2, h3, h4⟩ := hc
  cases op with
  | rawSettings =>
    obtain ⟨a, b⟩ := cachedView_spec c.rawSettings _ h1
    obtain ⟨a0, _⟩ := cachedView_spec none (settingsMap content ss .name false true) (fun _ h => by cases h)
    exact ⟨by simp only [answer, access]; rw [a, a0], b, h2, h3, h4⟩
  | rawSettingsByIndex =>
    obtain ⟨a, b⟩ := cachedView_spec c.rawSettingsByIndex _ h2
    obtain ⟨a0, _⟩ := cachedView_spec none (settingsMap content ss .const false true) (fun _ h => by cases h)
    exact ⟨by simp only [answer, access]; rw [a, a0], h1, b, h3, h4⟩
  | settings =>
    obtain ⟨a, b⟩ := cachedView_spec c.settings _ h3
    obtain ⟨a0, _⟩ := cachedView_spec none (settingsMap content ss .name true true) (fun _ h => by cases h)
    exact ⟨by simp only [answer, access]; rw [a, a0], h1, h2, b, h4⟩
  | settingsByIndex =>
    obtain ⟨a, b⟩ := cachedView_spec c.settingsByIndex _ h4
    obtain ⟨a0, _⟩ := cachedView_spec none (settingsMap content ss .const true true) (fun _ h => by cases h)
    exact ⟨by simp only [answer, access]; rw [a, a0], h1, h2, h3, b⟩
  | settingsMap it p q => exact ⟨rfl, h1, h2, h3, h4⟩
  | settingEnums => exact ⟨rfl, h1, h2, h3, h4⟩
  | maxSettingEnum => exact ⟨rfl, h1, h2, h3, h4⟩
  | settingsTuple => exact ⟨rfl, h1, h2, h3, h4⟩

theorem runHistory_valid (content : Nat → Val → Py Val) (ss : List Setting) (ops : List Op) :
    ∀ c : Cache, c.Valid content ss →
      (runHistory content ss c ops).1 = ops.map (answer content ss) ∧
      (runHistory content ss c ops).2.Valid content ss := by
  induction ops with
  | nil => intro c hc; exact ⟨rfl, hc⟩
  | cons op ops ih =>
    intro c hc
    obtain ⟨ha, hv⟩ := access_valid content ss c hc op
    obtain ⟨h1, h2⟩ := ih _ hv
    simp only [runHistory, List.map_cons]
    exact ⟨by rw [ha, h1], h2⟩
end C02

import CsVerif.Gen.PyC2
import CsVerif.Lemmas.C05
import CsVerif.Lemmas.C20Gen
/-! Helper lemmas for Props/C05Gen.lean: the `PyRt` operations that occur in the translated functions of
`Gen/PyC2.lean` (`slice` with constant bounds, `bytes * int`, `%`) in list terms, and the translated functions
against the functions of `Model/C05.lean`, with the packet record spelled out (no property statements here). -/
namespace C05Gen
open PyRt

/-! ### the `PyRt` operations used by c2.py -/

/-- `xs[:n]` for a non-negative constant -/
theorem slice_to_nat {α : Type} (xs : List α) (n : Nat) : slice xs noBound ((n : Nat) : Int) = xs.take n := by
  rw [C20Gen.slice_noBound_int]
  simp [pySliceTo]

theorem slice_to_16 {α : Type} (xs : List α) : slice xs noBound (16 : Int) = xs.take 16 :=
  slice_to_nat xs 16

/-- `xs[n:]` for a non-negative constant -/
theorem slice_from_nat {α : Type} (xs : List α) (n : Nat) : slice xs ((n : Nat) : Int) noBound = xs.drop n := by
  simp only [slice, noBound, Bound.bound, clampIdx, id]
  rw [if_neg (by omega), List.take_length]
  by_cases h : n ≤ xs.length
  · congr 1; omega
  · rw [List.drop_eq_nil_of_le (by omega), List.drop_eq_nil_of_le (by omega)]

theorem slice_from_16 {α : Type} (xs : List α) : slice xs (16 : Int) noBound = xs.drop 16 :=
  slice_from_nat xs 16

/-- `bytes([b]) * k` (`k ≤ 0`: empty) -/
theorem mul_byte (b : UInt8) (k : Int) : mul ([b] : Bytes) k = List.replicate k.toNat b := by
  simp only [mul]
  induction k.toNat with
  | zero => rfl
  | succ n ih => simp [List.replicate_succ, ih]

/-! ### pad -/

theorem pad_nat (data : Bytes) (bs : Nat) (h : 0 < bs) :
    Gen.PyC2.pad data (bs : Int) = .ok (C05.padTo bs data) := by
  unfold Gen.PyC2.pad C05.padTo
  simp only [PyRt.mod, len]
  rw [if_neg (by omega)]
  simp only [ok_bind, mul_byte, add]
  have : ((bs : Int) - Int.fmod (data.length : Int) (bs : Int)).toNat = bs - data.length % bs := by
    rw [Int.fmod_eq_emod_of_nonneg _ (by omega)]
    omega
  rw [this]; rfl

theorem pad_16 (data : Bytes) : Gen.PyC2.pad data 16 = .ok (C05.pad data) :=
  pad_nat data 16 (by omega)

theorem pad_zero (data : Bytes) : Gen.PyC2.pad data 0 = .error .zeroDivisionError := rfl

/-- a negative block size: `len % bs` lies in `(bs, 0]`, so `to_pad < 0` and `b"A" * to_pad` is empty -/
theorem pad_neg (data : Bytes) (bs : Int) (h : bs < 0) : Gen.PyC2.pad data bs = .ok data := by
  unfold Gen.PyC2.pad
  simp only [PyRt.mod, len]
  rw [if_neg (by omega)]
  simp only [ok_bind, mul_byte, add]
  have e : Int.fmod (data.length : Int) bs = -Int.fmod (-(data.length : Int)) (-bs) := by
    have := Int.neg_fmod_neg (-(data.length : Int)) (-bs)
    rw [Int.neg_neg, Int.neg_neg] at this
    exact this
  have hlt := Int.fmod_lt_of_pos (-(data.length : Int)) (show 0 < -bs by omega)
  have : (bs - Int.fmod (data.length : Int) bs).toNat = 0 := by omega
  rw [this]
  simp
  rfl

/-! ### encrypt_data / decrypt_data -/

theorem encrypt_data_eq (c : C05.Crypto) (data : Bytes) (ak : Option Bytes) (iv : Bytes) :
    Gen.PyC2.encrypt_data c.aesCbcEnc data ak iv = C05.encryptData c data ak iv := by
  unfold Gen.PyC2.encrypt_data
  cases ak with
  | none => rfl
  | some k =>
    simp only [pure_bind, pad_16, ok_bind, aesApply]
    rfl

theorem decrypt_data_eq (c : C05.Crypto) (data : Bytes) (ak : Option Bytes) (iv : Bytes) :
    Gen.PyC2.decrypt_data c.aesCbcDec data ak iv = C05.decryptData c data ak iv := by
  unfold Gen.PyC2.decrypt_data
  cases ak with
  | none => rfl
  | some k =>
    simp only [pure_bind, aesApply]
    rfl

/-! ### signature -/

theorem raise_for_signature_eq (c : C05.Crypto) (ct sig hk : Bytes) :
    Gen.PyC2.EncryptedPacket_raise_for_signature c.hmacSha256 ⟨ct, sig⟩ hk = C05.raiseForSignature c ⟨ct, sig⟩ hk := by
  unfold Gen.PyC2.EncryptedPacket_raise_for_signature C05.raiseForSignature C05.raiseForSignatureT
  simp only [slice_to_16]
  by_cases h : C05.mac16 c hk ct = sig
  · have h' : (c.hmacSha256 hk ct).take 16 = sig := h
    simp [h, h']
    rfl
  · have h' : ¬ (c.hmacSha256 hk ct).take 16 = sig := h
    simp [h, h']
    rfl

/-! ### encrypt_packet / decrypt_packet -/

theorem encrypt_packet_eq (c : C05.Crypto) (pt : Bytes) (ak : Option Bytes) (hk iv : Bytes) :
    (Gen.PyC2.encrypt_packet c.aesCbcEnc c.hmacSha256 pt ak hk iv).map
        (fun p => (⟨p.ciphertext, p.signature⟩ : C05.Packet))
      = C05.encryptPacket c pt ak (some hk) iv := by
  unfold Gen.PyC2.encrypt_packet
  rw [encrypt_data_eq]
  unfold C05.encryptPacket C05.encryptPacketT C05.encryptData
  cases ak with
  | none => rfl
  | some k =>
    simp only [C05.encryptDataT]
    cases c.aesCbcEnc k iv (C05.pad pt) with
    | error e => rfl
    | ok ctx =>
      simp only [ok_bind, slice_to_16]
      rfl

theorem decrypt_packet_eq (c : C05.Crypto) (ct sig : Bytes) (ak hk : Option Bytes) (iv : Bytes) (verify : Bool) :
    Gen.PyC2.decrypt_packet c.hmacSha256 c.aesCbcDec ⟨ct, sig⟩ ak hk iv verify
      = C05.decryptPacket c ⟨ct, sig⟩ ak hk iv verify := by
  unfold Gen.PyC2.decrypt_packet
  cases verify with
  | false =>
    simp only [Bool.false_eq_true, if_false, decrypt_data_eq]
    rfl
  | true =>
    simp only [if_true, decrypt_data_eq, raise_for_signature_eq]
    unfold C05.decryptPacket C05.decryptPacketT
    simp only [if_true]
    cases hk with
    | none => rfl
    | some k =>
      cases k with
      | nil => rfl
      | cons b bs =>
        have ht : truthy (b :: bs) = true := rfl
        simp only [ht, if_true, pure_bind]
        unfold C05.raiseForSignature
        cases hr : (C05.raiseForSignatureT c ⟨ct, sig⟩ (b :: bs)) with
        | mk r log =>
          cases r with
          | error e => rfl
          | ok u =>
            simp only [ok_bind, C05.decryptData]

/-! ### framing -/

theorem p32be_eq (n : Int) (sg : Bool) : Gen.PyUtils.p32be n sg = C20.pack n (some 4) .big sg :=
  C20Gen.pack_eq n (some 4) .big sg

theorem dumps_eq (ct sig : Bytes) :
    Gen.PyC2.EncryptedPacket_dumps ⟨ct, sig⟩ = C05.dumps ⟨ct, sig⟩ := by
  unfold Gen.PyC2.EncryptedPacket_dumps C05.dumps C05.p32be
  simp only [p32be_eq, add, len]
  cases C20.pack (((ct ++ sig).length : Nat) : Int) (some 4) .big false with
  | error e => rfl
  | ok b => rfl

/-! ### derive_aes_hmac_keys -/

theorem derive_eq (sha256 : Bytes → Bytes) (r : Bytes) :
    Gen.PyC2.derive_aes_hmac_keys sha256 r = .ok ((sha256 r).take 16, (sha256 r).drop 16) := by
  unfold Gen.PyC2.derive_aes_hmac_keys
  simp only [slice_to_16, slice_from_16]
  rfl

end C05Gen
